/-
The loop invariant of `tickLoop` (one tick of one scheduler level of the nested
whole-simulation model) and the resulting post-condition of `tickLevel`.
-/
import TickitModel.Lemmas.SimLemmas

namespace Tickit

/-! ### `tickLoop`, one step at a time -/

/-- the answer of the addressed component to one dispatch (the `answer` of `tickLoop`). -/
def simAnswer (S : Static) (orc : Oracle) (fuel : Nat) (L : Level) (inCh : List (Port × V))
    (st : SimSt) (outCh0 : List (Port × V)) (d : Dispatch V) :
    Except SimErr (SimSt × List (Port × V) × List (Port × V) × Option SimTime) :=
  let isNested := L.name != ""
  match d with
  | .skip _ _ => .ok (st, outCh0, [], none)
  | .input c t ins =>
    if isNested && c == pseudoExternal then .ok (st, outCh0, inCh, none)
    else if isNested && c == pseudoExpose then .ok (st, ins, [], none)
    else if S.isSys c then
      let sc := st.sched c
      let due := nestedDue sc.wake t
      let all := match S.level c with | some Lc => Lc.wiring.components | none => []
      let roots := sunion (sunion (sunion sc.interrupts due) [pseudoExternal]) (if sc.firstDone then [] else all)
      let sc' : SchedSt := { wake := delWakeups sc.wake due, interrupts := [], firstDone := true }
      let st1 := { st with scheds := upsert st.scheds c sc' }
      match tickLevel S orc fuel c t roots ins st1 with
      | .error e => .error e
      | .ok (st2, outCh) =>
        let sc2 := st2.sched c
        let callAt := if sc2.interrupts.isEmpty then (firstWakeups sc2.wake).2 else some t
        .ok (st2, outCh0, outCh, callAt)
    else
      let k := agetD st.count c 0
      match (agetD orc c [])[k]? with
      | none => .error (.noOracle c k)
      | some resp =>
        let dc := agetD st.devs c {}
        let merged := dc.merge ins
        let st1 := { st with obs := st.obs ++ [(⟨c, t, merged⟩ : Obs)], count := upsert st.count c (k + 1) }
        if resp.raises then .error (.deviceRaised c)
        else
          let (dc', ch) := dc.onTick ins (normDict resp.outs)
          .ok ({ st1 with devs := upsert st1.devs c dc' }, outCh0, ch, resp.callAt)

/-- the wakeup bookkeeping of the level after an answer -/
def simWake (st : SimSt) (lvl c : Comp) (callAt : Option SimTime) : SimSt :=
  let sc := st.sched lvl
  let sc' := match callAt with
    | some w => { sc with wake := addWakeup sc.wake c w }
    | none => sc
  { st with scheds := upsert st.scheds lvl sc' }

theorem tickLoop_zero (S : Static) (orc : Oracle) (fuel : Nat) (L : Level) (inCh : List (Port × V))
    (ls : LoopSt) : tickLoop S orc fuel 0 L inCh ls = .error .fuel := by
  rw [tickLoop]

theorem tickLoop_nil (S : Static) (orc : Oracle) (fuel steps : Nat) (L : Level) (inCh : List (Port × V))
    (ls : LoopSt) (h : ls.pending = []) :
    tickLoop S orc fuel (steps + 1) L inCh ls =
      if ls.tk.toUpdate.isEmpty then .ok (ls.st, ls.outCh) else .error (.stall L.name) := by
  rw [tickLoop.eq_2, h]

theorem tickLoop_cons (S : Static) (orc : Oracle) (fuel steps : Nat) (L : Level) (inCh : List (Port × V))
    (ls : LoopSt) (d : Dispatch V) (rest : List (Dispatch V)) (h : ls.pending = d :: rest) :
    tickLoop S orc fuel (steps + 1) L inCh ls =
      match simAnswer S orc fuel L inCh ls.st ls.outCh d with
      | .error e => .error e
      | .ok (st', outCh', changes, callAt) =>
        match ls.tk.propagate L.wiring d.comp d.time changes with
        | .error e => .error (.tick L.name e)
        | .ok (tk', ds) =>
          tickLoop S orc fuel steps L inCh ⟨tk', rest ++ ds, outCh', simWake st' L.name d.comp callAt⟩ := by
  rw [tickLoop.eq_2, h]
  rfl

/-! ### ticker facts -/

section TickerFacts
variable {Val : Type}

theorem sim_propagate_eq_ok {w : Wiring} {tk tk' : Ticker Val} {src : Comp} {t : SimTime}
    {changes : List (Port × Val)} {ds : List (Dispatch Val)}
    (h : tk.propagate w src t changes = .ok (tk', ds)) :
    alookup tk.toUpdate src ≠ none ∧ t = tk.time ∧
      Ticker.scheduleLoop w (tk.afterAnswer w src changes) (aerase tk.toUpdate src) = .ok ds ∧
      tk'.toUpdate = markDispatched (aerase tk.toUpdate src) (ds.map Dispatch.comp) ∧
      tk'.time = tk.time ∧ tk'.roots = tk.roots := by
  simp only [Ticker.propagate] at h
  by_cases h1 : (alookup tk.toUpdate src).isNone = true
  · simp [h1] at h
  · simp only [h1, Bool.false_eq_true, if_false] at h
    by_cases h2 : t ≠ tk.time
    · simp [h2] at h
    · simp only [h2, if_false, Ticker.schedule] at h
      cases hr : Ticker.scheduleLoop w (tk.afterAnswer w src changes) (aerase tk.toUpdate src) with
      | error e =>
        simp only [Ticker.afterAnswer] at hr
        simp [hr, Except.map] at h
      | ok ds' =>
        simp only [Ticker.afterAnswer] at hr
        simp only [hr, Except.map, Except.ok.injEq] at h
        have hds : ds' = ds := by
          split at h <;> (cases h; rfl)
        subst hds
        refine ⟨by simpa using h1, by simpa using h2, rfl, ?_, ?_, ?_⟩
        · split at h <;> (cases h; rfl)
        · split at h <;> (cases h; rfl)
        · split at h <;> (cases h; rfl)

theorem sim_call_eq_ok {w : Wiring} {t : SimTime} {roots : List Comp} {tk : Ticker Val}
    {ds : List (Dispatch Val)} (h : Ticker.call w t roots = .ok (tk, ds)) :
    Ticker.scheduleLoop w (Ticker.startTick w t roots : Ticker Val)
        (Ticker.startTick w t roots : Ticker Val).toUpdate = .ok ds ∧
      tk.toUpdate = markDispatched (Ticker.startTick w t roots : Ticker Val).toUpdate
        (ds.map Dispatch.comp) ∧
      tk.time = t ∧ tk.roots = roots := by
  simp only [Ticker.call, Ticker.schedule] at h
  cases hr : Ticker.scheduleLoop w (Ticker.startTick w t roots : Ticker Val)
      (Ticker.startTick w t roots : Ticker Val).toUpdate with
  | error e => simp [hr, Except.map] at h
  | ok ds' =>
    simp only [hr, Except.map, Except.ok.injEq, Prod.mk.injEq] at h
    obtain ⟨h1, h2⟩ := h
    subst h1 h2
    exact ⟨rfl, rfl, rfl, rfl⟩

/-- what one scheduling pass hands out: known components; roots get an `Input`. -/
theorem sim_scheduleLoop_mem {w : Wiring} {tk : Ticker Val} {l : List (Comp × Bool)}
    {ds : List (Dispatch Val)} (h : Ticker.scheduleLoop w tk l = .ok ds) {d : Dispatch Val}
    (hd : d ∈ ds) :
    d.comp ∈ w.components ∧ (d.comp ∈ tk.roots → ∃ ins, d = .input d.comp tk.time ins) := by
  obtain ⟨h1, h2⟩ := scheduleLoop_spec h
  rw [h1] at hd
  obtain ⟨e, he, rfl⟩ := List.mem_map.1 hd
  obtain ⟨hel, hsel⟩ := List.mem_filter.1 he
  simp only [Ticker.selects, Bool.and_eq_true, Bool.not_eq_true'] at hsel
  refine ⟨?_, ?_⟩
  · rw [Ticker.decide_comp]
    exact (Wiring.ups_isSome_iff' w e.1).1 (h2 e hel hsel.1)
  · rw [Ticker.decide_comp]
    intro hr
    refine ⟨agetD tk.inputs e.1 [], ?_⟩
    simp [Ticker.decide, hr]

theorem sim_mem_akeys_foldl_upsert {κ β : Type} [DecidableEq κ] (cs : List κ) (b : β)
    (m : List (κ × β)) (x : κ) :
    x ∈ akeys (cs.foldl (fun acc c => upsert acc c b) m) ↔ x ∈ akeys m ∨ x ∈ cs := by
  induction cs generalizing m with
  | nil => simp
  | cons c cs ih =>
    rw [List.foldl_cons, ih, mem_akeys_upsert, List.mem_cons]
    constructor
    · rintro ((h | h) | h)
      · exact Or.inr (Or.inl h)
      · exact Or.inl h
      · exact Or.inr (Or.inr h)
    · rintro (h | h | h)
      · exact Or.inl (Or.inr h)
      · exact Or.inl (Or.inl h)
      · exact Or.inr h

theorem sim_mem_extent_iff (w : Wiring) (roots : List Comp) (x : Comp) :
    x ∈ extent w roots ↔ ∃ r ∈ roots, x ∈ w.dependants r := by
  suffices h : ∀ (rs : List Comp) (tu : List (Comp × Bool)),
      x ∈ akeys (rs.foldl (fun acc r => (w.dependants r).foldl (fun acc c => upsert acc c false) acc) tu) ↔
        x ∈ akeys tu ∨ ∃ r ∈ rs, x ∈ w.dependants r by
    have := h roots []
    simpa [extent, Ticker.startTick] using this
  intro rs
  induction rs with
  | nil => simp
  | cons r rs ih =>
    intro tu
    rw [List.foldl_cons, ih, sim_mem_akeys_foldl_upsert]
    simp only [List.mem_cons, exists_eq_or_imp, or_assoc]

/-- every root is in the extent of its tick -/
theorem sim_root_mem_extent (w : Wiring) {roots : List Comp} {r : Comp} (h : r ∈ roots) :
    r ∈ extent w roots :=
  (sim_mem_extent_iff w roots r).2 ⟨r, h, (Wiring.dependants_closed w r).1⟩

/-- a successful `Ticker.call` knows all its roots -/
theorem sim_call_ok_roots {w : Wiring} {t : SimTime} {roots : List Comp} {tk : Ticker Val}
    {ds : List (Dispatch Val)} (h : Ticker.call w t roots = .ok (tk, ds)) :
    ∀ r ∈ roots, r ∈ w.components := by
  intro r hr
  obtain ⟨hs, _⟩ := sim_call_eq_ok h
  have hfresh := startTick_fresh (Val := Val) w t roots
  have hmem : r ∈ akeys (Ticker.startTick w t roots : Ticker Val).toUpdate := by
    rw [startTick_toUpdate]; exact sim_root_mem_extent w hr
  obtain ⟨e, he, rfl⟩ := List.mem_map.1 hmem
  obtain ⟨c, b⟩ := e
  have hl := alookup_eq_some_of_mem hfresh.1 he
  have hb : b = false := by
    cases b with
    | false => rfl
    | true => exact absurd hl (hfresh.2 c)
  subst hb
  exact (Wiring.ups_isSome_iff' w c).1 ((scheduleLoop_spec hs).2 (c, false) he rfl)

end TickerFacts

/-- a successful tick knows all its roots -/
theorem tickLevel_ok_roots {S : Static} {orc : Oracle} {fuel : Nat} {lvl : Comp} {t : SimTime}
    {roots : List Comp} {inCh : List (Port × V)} {st : SimSt} {r : SimSt × List (Port × V)}
    (h : tickLevel S orc fuel lvl t roots inCh st = .ok r) :
    ∃ L, S.level lvl = some L ∧ ∀ x ∈ roots, x ∈ L.wiring.components := by
  cases fuel with
  | zero => rw [tickLevel] at h; cases h
  | succ fuel =>
    rw [tickLevel.eq_2] at h
    split at h
    · cases h
    · rename_i L hL
      split at h
      · cases h
      · rename_i tk ds hcall
        exact ⟨L, hL, sim_call_ok_roots hcall⟩

/-! ### post-conditions -/

/-- what one tick of level `lvl` does to the observations and the `firstDone` marks. -/
def LevelPost (S : Static) (lvl : Comp) (t : SimTime) (roots : List Comp) (st st' : SimSt) : Prop :=
  ∃ new : List Obs, st'.obs = st.obs ++ new ∧ (new.map Obs.comp).Nodup ∧
    (∀ o ∈ new, o.time = t ∧ S.isDevice o.comp ∧ S.Below lvl o.comp) ∧
    (∀ s, ¬ S.Below lvl s → (st'.sched s).firstDone = (st.sched s).firstDone) ∧
    ((∀ L, S.level lvl = some L → ∀ c ∈ L.wiring.components, c ∈ roots) →
     (∀ s, S.Below lvl s → S.isSys s = true → (st.sched s).firstDone = false) →
       (∀ x, S.Below lvl x → S.isDevice x → x ∈ new.map Obs.comp) ∧
       (∀ s, S.Below lvl s → S.isSys s = true → (st'.sched s).firstDone = true))

/-- what the answer to one dispatch `d` of level `lvl` does. -/
def AnsPost (S : Static) (lvl : Comp) (d : Dispatch V) (st st' : SimSt) : Prop :=
  ∃ new : List Obs, st'.obs = st.obs ++ new ∧ (new.map Obs.comp).Nodup ∧
    (∀ o ∈ new, o.time = d.time ∧ S.isDevice o.comp ∧ alookup S.parent d.comp = some lvl ∧
      S.Own d.comp o.comp) ∧
    (∀ s, (st'.sched s).firstDone ≠ (st.sched s).firstDone →
      alookup S.parent d.comp = some lvl ∧ S.Own d.comp s) ∧
    ((∃ ins, d = .input d.comp d.time ins) → alookup S.parent d.comp = some lvl →
      (∀ s, S.Own d.comp s → S.isSys s = true → (st.sched s).firstDone = false) →
        (∀ x, S.Own d.comp x → S.isDevice x → x ∈ new.map Obs.comp) ∧
        (∀ s, S.Own d.comp s → S.isSys s = true → (st'.sched s).firstDone = true))

theorem AnsPost.of_eq {S : Static} {lvl : Comp} {d : Dispatch V} (st : SimSt)
    (hno : (∃ ins, d = .input d.comp d.time ins) → alookup S.parent d.comp = some lvl → False) :
    AnsPost S lvl d st st :=
  ⟨[], by simp, by simp, by simp, fun s h => absurd rfl h, fun h1 h2 => (hno h1 h2).elim⟩

theorem simAnswer_spec {S : Static} (hS : S.WF) {orc : Oracle} {fuel : Nat}
    (IH : ∀ lvl t roots inCh st st' out,
      tickLevel S orc fuel lvl t roots inCh st = .ok (st', out) → LevelPost S lvl t roots st st')
    {L : Level} (hL : L ∈ S.levels) {inCh : List (Port × V)} {st : SimSt} {outCh0 : List (Port × V)}
    {d : Dispatch V} (hc : d.comp ∈ L.wiring.components)
    {st' : SimSt} {outCh' changes : List (Port × V)} {callAt : Option SimTime}
    (h : simAnswer S orc fuel L inCh st outCh0 d = .ok (st', outCh', changes, callAt)) :
    AnsPost S L.name d st st' := by
  cases d with
  | skip c t =>
    simp only [simAnswer, Except.ok.injEq, Prod.mk.injEq] at h
    obtain ⟨rfl, _⟩ := h
    exact AnsPost.of_eq _ (by rintro ⟨ins, h⟩; cases h)
  | input c t ins =>
    simp only [Dispatch.comp] at hc
    simp only [simAnswer] at h
    have hmem := hS.members L hL c hc
    split at h
    · -- `external`
      rename_i hx
      simp only [Bool.and_eq_true, bne_iff_ne, ne_eq, beq_iff_eq] at hx
      simp only [Except.ok.injEq, Prod.mk.injEq] at h
      obtain ⟨rfl, _⟩ := h
      refine AnsPost.of_eq _ (fun _ hp => ?_)
      simp only [Dispatch.comp, hx.2, hS.pseudo_fresh.1] at hp
      cases hp
    · rename_i hx
      split at h
      · -- `expose`
        rename_i hy
        simp only [Bool.and_eq_true, bne_iff_ne, ne_eq, beq_iff_eq] at hy
        simp only [Except.ok.injEq, Prod.mk.injEq] at h
        obtain ⟨rfl, _⟩ := h
        refine AnsPost.of_eq _ (fun _ hp => ?_)
        simp only [Dispatch.comp, hy.2, hS.pseudo_fresh.2.1] at hp
        cases hp
      · rename_i hy
        have hpar : alookup S.parent c = some L.name := by
          rcases hmem with h' | ⟨hne, h' | h'⟩
          · exact h'
          · exact absurd (by simp [hne, h']) hx
          · exact absurd (by simp [hne, h']) hy
        split at h
        · -- a system component
          rename_i hsys
          split at h
          · cases h
          · rename_i st2 outCh hr
            simp only [Except.ok.injEq, Prod.mk.injEq] at h
            obtain ⟨rfl, _⟩ := h
            have hcne : c ≠ "" := by
              obtain ⟨Lc, hLc, hroots⟩ := tickLevel_ok_roots hr
              have hext : pseudoExternal ∈ Lc.wiring.components :=
                hroots _ (by simp [mem_sunion])
              obtain ⟨hLc1, hLc2⟩ := Static.level_some hLc
              rcases hS.members Lc hLc1 _ hext with h' | ⟨hne, _⟩
              · rw [hS.pseudo_fresh.1] at h'; cases h'
              · rwa [hLc2] at hne
            obtain ⟨new, hobs, hnd, hown, hframe, hdone⟩ := IH _ _ _ _ _ _ _ hr
            have hirr : ¬ S.Below c c := Static.Below.irrefl hS hcne
            refine ⟨new, hobs, hnd, ?_, ?_, ?_⟩
            · intro o ho
              obtain ⟨h1, h2, h3⟩ := hown o ho
              exact ⟨h1, h2, hpar, Or.inr ⟨hcne, h3⟩⟩
            · intro s hs
              refine ⟨hpar, ?_⟩
              by_cases hsc : s = c
              · exact Or.inl hsc
              · by_cases hb : S.Below c s
                · exact Or.inr ⟨hcne, hb⟩
                · exfalso
                  apply hs
                  rw [hframe s hb, SimSt.sched_upsert, if_neg (Ne.symm hsc)]
            · intro _ _ hfd
              have hfdc : (st.sched c).firstDone = false := hfd c (Static.Own.refl S c) hsys
              obtain ⟨hd1, hd2⟩ := hdone
                (by
                  intro L' hL' x hx
                  rw [mem_sunion]; right
                  rw [hfdc]; simpa [hL'] using hx)
                (by
                  intro s hb hs
                  have hsc : c ≠ s := fun h => hirr (h ▸ hb)
                  rw [SimSt.sched_upsert, if_neg hsc]
                  exact hfd s (Or.inr ⟨hcne, hb⟩) hs)
              refine ⟨?_, ?_⟩
              · rintro x (rfl | ⟨_, hb⟩) hx
                · exact absurd hsys (by simp [hx.2])
                · exact hd1 x hb hx
              · rintro s (rfl | ⟨_, hb⟩) hs
                · rw [hframe _ hirr, SimSt.sched_upsert, if_pos rfl]
                · exact hd2 s hb hs
        · -- a device
          rename_i hsys
          split at h
          · cases h
          · rename_i resp _
            split at h
            · cases h
            · simp only [Except.ok.injEq, Prod.mk.injEq] at h
              obtain ⟨rfl, _⟩ := h
              have hdev : S.isDevice c := ⟨by rw [hpar]; rfl, by simpa using hsys⟩
              have hnb : ∀ x, S.Own c x → x = c := by
                rintro x (rfl | ⟨hne, hb⟩)
                · rfl
                · rcases hb.isSys hS with h | h
                  · exact absurd h hne
                  · exact absurd h hsys
              refine ⟨[⟨c, t, _⟩], rfl, by simp, ?_, ?_, ?_⟩
              · intro o ho
                simp only [List.mem_singleton] at ho
                subst ho
                exact ⟨rfl, hdev, hpar, Static.Own.refl S c⟩
              · intro s hs
                exact absurd rfl hs
              · intro _ _ _
                refine ⟨fun x hx _ => by simp [hnb x hx], fun s hs hss => ?_⟩
                rw [hnb s hs] at hss
                exact absurd hss hsys

/-! ### the loop invariant -/

theorem simWake_firstDone (st : SimSt) (lvl c : Comp) (callAt : Option SimTime) (s : Comp) :
    ((simWake st lvl c callAt).sched s).firstDone = (st.sched s).firstDone := by
  unfold simWake
  simp only []
  rw [SimSt.sched_upsert]
  split
  · rename_i h; subst h; cases callAt <;> rfl
  · rfl

/-- invariant of `tickLoop` at level `L`, tick time `t`, roots `roots`; `st0` is the state in
which the tick of this level began, `trace` the ghost trace of the level's ticker and `new` the
observations made so far in this tick. -/
structure LoopInv (S : Static) (L : Level) (t : SimTime) (roots : List Comp) (st0 : SimSt)
    (ls : LoopSt) (trace : List (Ev V)) (new : List Obs) : Prop where
  pre : PreInv L.wiring t roots ls.tk.toUpdate ls.pending trace
  time : ls.tk.time = t
  troots : ls.tk.roots = roots
  pend_comp : ∀ d ∈ ls.pending, d.comp ∈ L.wiring.components
  pend_input : ∀ d ∈ ls.pending, d.comp ∈ roots → ∃ ins, d = .input d.comp t ins
  obs_eq : ls.st.obs = st0.obs ++ new
  obs_nodup : (new.map Obs.comp).Nodup
  /-- every observation belongs to an answered child of the level -/
  obs_own : ∀ o ∈ new, o.time = t ∧ S.isDevice o.comp ∧
    ∃ c, alookup S.parent c = some L.name ∧ alookup ls.tk.toUpdate c = none ∧ S.Own c o.comp
  /-- `firstDone` changed only for what belongs to an answered child of the level -/
  changed : ∀ s, (ls.st.sched s).firstDone ≠ (st0.sched s).firstDone →
    ∃ c, alookup S.parent c = some L.name ∧ alookup ls.tk.toUpdate c = none ∧ S.Own c s
  /-- in an initial tick, everything that belongs to an answered child is done -/
  done : (∀ c ∈ L.wiring.components, c ∈ roots) →
    (∀ s, S.Below L.name s → S.isSys s = true → (st0.sched s).firstDone = false) →
    ∀ c ∈ extent L.wiring roots, alookup ls.tk.toUpdate c = none →
      alookup S.parent c = some L.name →
      (∀ x, S.Own c x → S.isDevice x → x ∈ new.map Obs.comp) ∧
      (∀ s, S.Own c s → S.isSys s = true → (ls.st.sched s).firstDone = true)

theorem LoopInv.step {S : Static} (hS : S.WF) {orc : Oracle} {fuel : Nat}
    (IH : ∀ lvl t roots inCh st st' out,
      tickLevel S orc fuel lvl t roots inCh st = .ok (st', out) → LevelPost S lvl t roots st st')
    {L : Level} (hL : L ∈ S.levels) {t : SimTime} {roots : List Comp} {st0 : SimSt}
    {inCh : List (Port × V)} {ls : LoopSt} {trace : List (Ev V)} {new : List Obs}
    (inv : LoopInv S L t roots st0 ls trace new)
    {d : Dispatch V} {rest : List (Dispatch V)} (hp : ls.pending = d :: rest)
    {st' : SimSt} {outCh' changes : List (Port × V)} {callAt : Option SimTime}
    (ha : simAnswer S orc fuel L inCh ls.st ls.outCh d = .ok (st', outCh', changes, callAt))
    {tk' : Ticker V} {ds : List (Dispatch V)}
    (hprop : ls.tk.propagate L.wiring d.comp d.time changes = .ok (tk', ds)) :
    ∃ trace' new', LoopInv S L t roots st0
      ⟨tk', rest ++ ds, outCh', simWake st' L.name d.comp callAt⟩ trace' new' := by
  obtain ⟨hne, htime, hsl, htu, htk, hroots⟩ := sim_propagate_eq_ok hprop
  have hdm : d ∈ ls.pending := by rw [hp]; simp
  have hsub : ∀ d' ∈ rest, d' ∈ ls.pending := by
    intro d' h'; rw [hp]; exact List.mem_cons_of_mem _ h'
  have hd0 : ls.pending[0]? = some d := by rw [hp]; rfl
  have h0 : alookup ls.tk.toUpdate d.comp = some true := (inv.pre.pend_flag _).1 ⟨d, hdm, rfl⟩
  have hdt : d.time = t := htime.trans inv.time
  have hpre := (inv.pre.answer hd0 changes).schedule
    (tk := ls.tk.afterAnswer L.wiring d.comp changes) inv.time hsl
  have hnone : ∀ x, alookup tk'.toUpdate x = none ↔ x = d.comp ∨ alookup ls.tk.toUpdate x = none := by
    intro x
    rw [htu, alookup_markDispatched_eq_none, alookup_aerase inv.pre.nodup]
    by_cases hx : x = d.comp <;> simp [hx]
  obtain ⟨new1, hobs1, hnd1, hown1, hch1, hdone1⟩ :=
    simAnswer_spec hS IH hL (inv.pend_comp d hdm) ha
  refine ⟨trace ++ [Ev.answer d.comp changes] ++ ds.map Ev.dispatch, new ++ new1, ?_⟩
  exact
    { pre := by
        have := hpre.1
        rw [hp] at this
        show PreInv L.wiring t roots tk'.toUpdate (rest ++ ds) _
        rw [htu]
        exact this
      time := htk.trans inv.time
      troots := hroots.trans inv.troots
      pend_comp := by
        intro d' hd'
        rcases List.mem_append.1 hd' with hd' | hd'
        · exact inv.pend_comp d' (hsub d' hd')
        · exact (sim_scheduleLoop_mem hsl hd').1
      pend_input := by
        intro d' hd' hr
        rcases List.mem_append.1 hd' with hd' | hd'
        · exact inv.pend_input d' (hsub d' hd') hr
        · obtain ⟨ins, hins⟩ := (sim_scheduleLoop_mem hsl hd').2
            (by show d'.comp ∈ ls.tk.roots; rw [inv.troots]; exact hr)
          have ht' : (ls.tk.afterAnswer L.wiring d.comp changes).time = t := inv.time
          rw [ht'] at hins
          exact ⟨ins, hins⟩
      obs_eq := by
        show st'.obs = _
        rw [hobs1, inv.obs_eq, List.append_assoc]
      obs_nodup := by
        rw [List.map_append, List.nodup_append]
        refine ⟨inv.obs_nodup, hnd1, ?_⟩
        intro a ha b hb hab
        subst hab
        obtain ⟨o, ho, rfl⟩ := List.mem_map.1 ha
        obtain ⟨o1, ho1, he⟩ := List.mem_map.1 hb
        obtain ⟨_, _, c, hc, hcn, hown⟩ := inv.obs_own o ho
        obtain ⟨_, _, hpar, hown'⟩ := hown1 o1 ho1
        rw [he] at hown'
        have := Static.Own.unique hS hc hpar hown hown'
        subst this
        rw [h0] at hcn; cases hcn
      obs_own := by
        intro o ho
        rcases List.mem_append.1 ho with ho | ho
        · obtain ⟨h1, h2, c, hc, hcn, hown⟩ := inv.obs_own o ho
          exact ⟨h1, h2, c, hc, (hnone c).2 (Or.inr hcn), hown⟩
        · obtain ⟨h1, h2, hpar, hown⟩ := hown1 o ho
          exact ⟨h1.trans hdt, h2, d.comp, hpar, (hnone _).2 (Or.inl rfl), hown⟩
      changed := by
        intro s hs
        rw [simWake_firstDone] at hs
        by_cases h1 : (st'.sched s).firstDone = (ls.st.sched s).firstDone
        · rw [h1] at hs
          obtain ⟨c, hc, hcn, hown⟩ := inv.changed s hs
          exact ⟨c, hc, (hnone c).2 (Or.inr hcn), hown⟩
        · obtain ⟨hpar, hown⟩ := hch1 s h1
          exact ⟨d.comp, hpar, (hnone _).2 (Or.inl rfl), hown⟩
      done := by
        intro hall hfd c hce hcn hcp
        rcases (hnone c).1 hcn with rfl | hcn'
        · have hin : ∃ ins, d = .input d.comp d.time ins := by
            rw [hdt]; exact inv.pend_input d hdm (hall _ (inv.pend_comp d hdm))
          have hfd' : ∀ s, S.Own d.comp s → S.isSys s = true → (ls.st.sched s).firstDone = false := by
            intro s hso hss
            have : (ls.st.sched s).firstDone = (st0.sched s).firstDone := by
              apply Classical.byContradiction
              intro hne'
              obtain ⟨c', hc', hcn', hown'⟩ := inv.changed s hne'
              have := Static.Own.unique hS hc' hcp hown' hso
              subst this
              rw [h0] at hcn'; cases hcn'
            rw [this]
            exact hfd s (hso.below hcp) hss
          obtain ⟨r1, r2⟩ := hdone1 hin hcp hfd'
          refine ⟨fun x hx hxd => ?_, fun s hs hss => ?_⟩
          · rw [List.map_append]; exact List.mem_append_right _ (r1 x hx hxd)
          · rw [simWake_firstDone]; exact r2 s hs hss
        · obtain ⟨r1, r2⟩ := inv.done hall hfd c hce hcn' hcp
          refine ⟨fun x hx hxd => ?_, fun s hs hss => ?_⟩
          · rw [List.map_append]; exact List.mem_append_left _ (r1 x hx hxd)
          · rw [simWake_firstDone]
            have : (st'.sched s).firstDone = (ls.st.sched s).firstDone := by
              apply Classical.byContradiction
              intro hne'
              obtain ⟨hpar', hown'⟩ := hch1 s hne'
              have := Static.Own.unique hS hcp hpar' hs hown'
              subst this
              rw [h0] at hcn'; cases hcn'
            rw [this]
            exact r2 s hs hss }

/-- a finished loop establishes the post-condition of the level's tick -/
theorem LoopInv.finish {S : Static} (hS : S.WF) {L : Level} {lvl : Comp} (hLv : S.level lvl = some L)
    {t : SimTime} {roots : List Comp} {st0 : SimSt} {ls : LoopSt} {trace : List (Ev V)}
    {new : List Obs} (inv : LoopInv S L t roots st0 ls trace new) (htu : ls.tk.toUpdate = []) :
    LevelPost S lvl t roots st0 ls.st := by
  obtain ⟨hL, hname⟩ := Static.level_some hLv
  subst hname
  refine ⟨new, inv.obs_eq, inv.obs_nodup, ?_, ?_, ?_⟩
  · intro o ho
    obtain ⟨h1, h2, c, hc, _, hown⟩ := inv.obs_own o ho
    exact ⟨h1, h2, hown.below hc⟩
  · intro s hnb
    apply Classical.byContradiction
    intro hne
    obtain ⟨c, hc, _, hown⟩ := inv.changed s hne
    exact hnb (hown.below hc)
  · intro hall hfd
    have key : ∀ x, S.Below L.name x → ∃ c, S.Own c x ∧ c ∈ extent L.wiring roots ∧
        alookup ls.tk.toUpdate c = none ∧ alookup S.parent c = some L.name := by
      intro x hx
      obtain ⟨c, hc, hown⟩ := hx.top
      obtain ⟨L', hL', hcm, _⟩ := hS.parent_level c L.name hc
      rw [hLv] at hL'; cases hL'
      exact ⟨c, hown, sim_root_mem_extent _ (hall L hLv c hcm), by rw [htu]; rfl, hc⟩
    refine ⟨fun x hx hxd => ?_, fun s hs hss => ?_⟩
    · obtain ⟨c, hown, hce, hcn, hc⟩ := key x hx
      exact (inv.done (hall L hLv) hfd c hce hcn hc).1 x hown hxd
    · obtain ⟨c, hown, hce, hcn, hc⟩ := key s hs
      exact (inv.done (hall L hLv) hfd c hce hcn hc).2 s hown hss

theorem tickLoop_spec {S : Static} (hS : S.WF) {orc : Oracle} {fuel : Nat}
    (IH : ∀ lvl t roots inCh st st' out,
      tickLevel S orc fuel lvl t roots inCh st = .ok (st', out) → LevelPost S lvl t roots st st')
    {L : Level} {lvl : Comp} (hLv : S.level lvl = some L) {t : SimTime} {roots : List Comp}
    {st0 : SimSt} {inCh : List (Port × V)} :
    ∀ (steps : Nat) (ls : LoopSt) (trace : List (Ev V)) (new : List Obs),
      LoopInv S L t roots st0 ls trace new →
      ∀ st' out, tickLoop S orc fuel steps L inCh ls = .ok (st', out) →
        LevelPost S lvl t roots st0 st' := by
  intro steps
  induction steps with
  | zero =>
    intro ls trace new _ st' out h
    rw [tickLoop_zero] at h; cases h
  | succ steps ih =>
    intro ls trace new inv st' out h
    cases hp : ls.pending with
    | nil =>
      rw [tickLoop_nil _ _ _ _ _ _ _ hp] at h
      split at h
      · rename_i he
        simp only [Except.ok.injEq, Prod.mk.injEq] at h
        obtain ⟨rfl, _⟩ := h
        exact inv.finish hS hLv (by simpa using he)
      · cases h
    | cons d rest =>
      rw [tickLoop_cons _ _ _ _ _ _ _ _ _ hp] at h
      split at h
      · cases h
      · rename_i st1 outCh1 changes callAt ha
        split at h
        · cases h
        · rename_i tk' ds hprop
          obtain ⟨trace', new', inv'⟩ :=
            inv.step hS IH (Static.level_some hLv).1 hp ha hprop
          exact ih _ trace' new' inv' st' out h

/-- **post-condition of one tick of one scheduler level** -/
theorem tickLevel_post {S : Static} (hS : S.WF) (orc : Oracle) :
    ∀ (fuel : Nat) (lvl : Comp) (t : SimTime) (roots : List Comp) (inCh : List (Port × V))
      (st st' : SimSt) (out : List (Port × V)),
      tickLevel S orc fuel lvl t roots inCh st = .ok (st', out) → LevelPost S lvl t roots st st' := by
  intro fuel
  induction fuel with
  | zero =>
    intro lvl t roots inCh st st' out h
    rw [tickLevel] at h; cases h
  | succ fuel IH =>
    intro lvl t roots inCh st st' out h
    rw [tickLevel.eq_2] at h
    split at h
    · cases h
    · rename_i L hLv
      split at h
      · cases h
      · rename_i tk ds hcall
        obtain ⟨hs, htu, htime, hroots⟩ := sim_call_eq_ok hcall
        have hpre := (PreInv.start (Val := V) L.wiring t roots).schedule rfl hs
        refine tickLoop_spec hS IH hLv _ ⟨tk, ds, [], st⟩ (ds.map Ev.dispatch) [] ?_ st' out h
        have hnone : ∀ c ∈ extent L.wiring roots, alookup tk.toUpdate c ≠ none := by
          intro c hc
          rw [htu, Ne, alookup_markDispatched_eq_none, alookup_eq_none_iff, startTick_toUpdate]
          exact fun h => h hc
        exact
          { pre := by
              show PreInv L.wiring t roots tk.toUpdate ds _
              rw [htu]
              simpa using hpre.1
            time := htime
            troots := hroots
            pend_comp := fun d hd => (sim_scheduleLoop_mem hs hd).1
            pend_input := fun d hd hr => (sim_scheduleLoop_mem hs hd).2 hr
            obs_eq := by simp
            obs_nodup := by simp
            obs_own := by simp
            changed := fun s hs => absurd rfl hs
            done := fun _ _ c hce hcn _ => absurd hcn (hnone c hce) }

/-! ### counting updates -/

theorem sim_filter_comp_le_one {new : List Obs} (h : (new.map Obs.comp).Nodup) (d : Comp) :
    (new.filter (fun o => o.comp == d)).length ≤ 1 := by
  induction new with
  | nil => simp
  | cons o new ih =>
    simp only [List.map_cons, List.nodup_cons] at h
    simp only [List.filter_cons]
    by_cases hd : o.comp = d
    · have : new.filter (fun o => o.comp == d) = [] := by
        rw [List.filter_eq_nil_iff]
        intro o' ho'
        simp only [beq_iff_eq]
        intro h'
        exact h.1 (List.mem_map.2 ⟨o', ho', h'.trans hd.symm⟩)
      simp [hd, this]
    · simpa [hd] using ih h.2

theorem SimSt.updates_of_obs {st st' : SimSt} {new : List Obs} (h : st'.obs = st.obs ++ new)
    (d : Comp) : st'.updates d = st.updates d + (new.filter (fun o => o.comp == d)).length := by
  simp [SimSt.updates, h, List.filter_append]

theorem sim_filter_comp_eq_one {new : List Obs} (h : (new.map Obs.comp).Nodup) {d : Comp}
    (hd : d ∈ new.map Obs.comp) : (new.filter (fun o => o.comp == d)).length = 1 := by
  have h1 := sim_filter_comp_le_one h d
  obtain ⟨o, ho, hod⟩ := List.mem_map.1 hd
  have h2 : 0 < (new.filter (fun o => o.comp == d)).length :=
    List.length_pos_of_mem (List.mem_filter.2 ⟨ho, by simp [hod]⟩)
  omega

end Tickit
