/-
Helper lemmas for C12 with processing costs (`Props/C12Cost.lean`), part 4:
when the stimuli come in the order of their real times (and after the start of the simulation),
each one is handled at its own real time: `now = max st.real m.now = st.real`.

Core Lean only.
-/
import TickitModel.Lemmas.CostRun

namespace Tickit
namespace CostRun

open TimeMono Pacing

/-- stimuli in the order of their real times -/
def StimsSorted (stims : List Stim) : Prop := stims.Pairwise (fun a b => a.real ≤ b.real)

theorem StimsSorted.tail {st : Stim} {rest : List Stim} (h : StimsSorted (st :: rest)) :
    StimsSorted rest ∧ ∀ x ∈ rest, st.real ≤ x.real :=
  ⟨(List.pairwise_cons.1 h).2, (List.pairwise_cons.1 h).1⟩

/-- mid-tick stimuli in time order are handled at their own real times -/
theorem midLog_now_le (S : Static) (fuel : Nat) (s : Speed) (e : Int) (k : Nat) (m : MasterSt)
    (stims : List Stim) (hs : StimsSorted stims) (hm : ∀ x ∈ stims, m.now ≤ x.real) :
    ∀ ev ∈ midLog S fuel s e k m stims, ev.m.now ≤ ev.st.real := by
  induction stims generalizing m with
  | nil => intro ev hev; cases hev
  | cons st rest ih =>
    intro ev hev
    rw [midLog] at hev
    split at hev
    · rcases List.mem_cons.1 hev with hev | hev
      · subst hev
        exact hm st List.mem_cons_self
      · obtain ⟨hs', hle⟩ := hs.tail
        refine ih (stimStepC S fuel s m st) hs' (fun x hx => ?_) ev hev
        rw [stimStepC_now]
        have := hm st List.mem_cons_self
        have := hle x hx
        split <;> omega
    · cases hev

/-- the stimuli left after a tick, when they come in time order and after its start: in time
order, and not before its end -/
theorem midTick_rest (S : Static) (fuel : Nat) (s : Speed) (e : Int) (m : MasterSt)
    (stims : List Stim) (hs : StimsSorted stims) (hm : ∀ x ∈ stims, m.lastReal < x.real) :
    StimsSorted (midTick S fuel s e m stims).2 ∧
    ∀ x ∈ (midTick S fuel s e m stims).2, e ≤ x.real := by
  induction stims generalizing m with
  | nil => exact ⟨hs, fun x hx => by cases hx⟩
  | cons st rest ih =>
    rw [midTick]
    split
    · obtain ⟨hs', _⟩ := hs.tail
      exact ih (stimStepC S fuel s m st) hs' (fun x hx => hm x (List.mem_cons_of_mem _ hx))
    · rename_i hg
      refine ⟨hs, fun x hx => ?_⟩
      have h1 := hm st List.mem_cons_self
      have h2 : e ≤ st.real := by omega
      rcases List.mem_cons.1 hx with hx | hx
      · rw [hx]; exact h2
      · have := hs.tail.2 x hx
        omega

/-- no stimulus goes first: the first one, if any, lies after the due tick -/
theorem stimFirstC_none {m : MasterSt} {s : Speed} {w : SimTime} {stims : List Stim}
    (h : stimFirstC m s (some w) stims = none) (hs : StimsSorted stims) :
    ∀ x ∈ stims, dueReal m s w < x.real := by
  cases stims with
  | nil => intro x hx; cases hx
  | cons st rest =>
    simp only [stimFirstC, Option.map_some] at h
    split at h
    · cases h
    · rename_i hg
      intro x hx
      rcases List.mem_cons.1 hx with hx | hx
      · rw [hx]; omega
      · have := hs.tail.2 x hx
        omega

/-- along a run whose stimuli come in time order, none of them before the real time already
reached, every stimulus is handled at its own real time -/
theorem RunC.now_le {S : Static} {orc : Oracle} {fuel : Nat} {sp : Speed} {cost : Nat → Nat}
    {m : MasterSt} {stims : List Stim} {acc : List TickRec} {m2 : MasterSt} {ticks : List TickRec}
    {log : List StimEvC} (h : RunC S orc fuel sp cost m stims acc m2 ticks log) :
    StimsSorted stims → (∀ x ∈ stims, m.now ≤ x.real) → ∀ ev ∈ log, ev.m.now ≤ ev.st.real := by
  induction h with
  | stop => intro _ _ ev hev; cases hev
  | @stim m stims acc st rest m2 ticks log hsel _ ih =>
    intro hs hm ev hev
    rw [stimFirstC_eq] at hsel
    have hst := stimSel_mem hsel
    subst hst
    rcases List.mem_cons.1 hev with hev | hev
    · subst hev
      exact hm st List.mem_cons_self
    · obtain ⟨hs', hle⟩ := hs.tail
      refine ih hs' (fun x hx => ?_) ev hev
      rw [stimStepC_now]
      have := hm st List.mem_cons_self
      have := hle x hx
      split <;> omega
  | @tick m stims acc comps w sim2 out m2 ticks log hsel hfw htick _ ih =>
    intro hs hm ev hev
    have hsnd : (firstWakeups (m.sim.sched "").wake).2 = some w := by rw [hfw]
    rw [hsnd] at hsel
    have hafter := stimFirstC_none hsel hs
    rcases List.mem_append.1 hev with hev | hev
    · exact midLog_now_le S fuel sp _ _ _ stims hs (fun x hx => Int.le_of_lt (hafter x hx)) ev hev
    · obtain ⟨h1, h2⟩ := midTick_rest S fuel sp (dueReal m sp w + cost acc.length)
        { sim := sim2, tickerTime := w, lastReal := dueReal m sp w, now := dueReal m sp w } stims hs
        hafter
      exact ih h1 h2 ev hev

/-- the same from the initial tick: stimuli in time order, all after the start of the simulation -/
theorem masterInitialC_sorted {S : Static} {orc : Oracle} {fuel : Nat} {sp : Speed}
    {cost : Nat → Nat} {t0 : SimTime} {now0 : Int} {stims0 stims : List Stim}
    {m : MasterSt} {tr : TickRec}
    (h : masterInitialC S orc fuel sp cost t0 now0 stims0 = .ok (m, tr, stims))
    (hs : StimsSorted stims0) (hm : ∀ x ∈ stims0, now0 < x.real) :
    (∀ ev ∈ initLogC S orc fuel sp cost t0 now0 stims0, ev.m.now ≤ ev.st.real) ∧
    StimsSorted stims ∧ ∀ x ∈ stims, m.now ≤ x.real := by
  unfold masterInitialC at h
  unfold initLogC
  cases hL : S.level "" with
  | none => rw [hL] at h; cases h
  | some L =>
    rw [hL] at h
    simp only [] at h ⊢
    cases hT : tickLevel S orc fuel "" t0 L.wiring.components [] {} with
    | error e => rw [hT] at h; cases h
    | ok r =>
      obtain ⟨st, out⟩ := r
      rw [hT] at h
      simp only [Except.ok.injEq, Prod.mk.injEq] at h ⊢
      obtain ⟨rfl, rfl, rfl⟩ := h
      obtain ⟨h1, h2⟩ := midTick_rest S fuel sp (now0 + cost 0)
        { sim := st, tickerTime := t0, lastReal := now0, now := now0 } stims0 hs hm
      exact ⟨midLog_now_le S fuel sp _ _ _ stims0 hs (fun x hx => Int.le_of_lt (hm x hx)), h1, h2⟩

end CostRun
end Tickit
