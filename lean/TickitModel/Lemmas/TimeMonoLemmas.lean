/-
Helper lemmas for C04 (time never runs backwards), beyond the flat callbacks-only history:

* PART A — the master scheduler's bookkeeping `MSt` with interrupts arriving at any point;
* PART B — the whole-simulation model (`tickLevel`/`tickLoop`, `masterRun`) with nested
  schedulers at any depth and external stimuli.
-/
import TickitModel.Lemmas.MasterLemmas
import TickitModel.Lemmas.SimLoop

namespace Tickit

/-! ## PART A — definitions -/

/-- what the environment has to respect when action `a` happens in state `s`: an interrupt is
stamped (pacing law, C12) with `tickerTime + elapsed·speed`, `elapsed ≥ 0`; a component that
answers during/after the tick whose time is `tickerTime` does not ask to be called back before
that time. -/
def MSt.TimelyAct (s : MSt) : MAct → Prop
  | .interrupt _ stamp => s.tickerTime ≤ stamp
  | .output _ (some w) => s.tickerTime ≤ w
  | _ => True

instance (s : MSt) (a : MAct) : Decidable (s.TimelyAct a) := by
  cases a with
  | interrupt c stamp => exact inferInstanceAs (Decidable (s.tickerTime ≤ stamp))
  | output c callAt =>
    cases callAt with
    | none => exact inferInstanceAs (Decidable True)
    | some w => exact inferInstanceAs (Decidable (s.tickerTime ≤ w))
  | startTick => exact inferInstanceAs (Decidable True)
  | beginUpdate c => exact inferInstanceAs (Decidable True)
  | endTick => exact inferInstanceAs (Decidable True)

/-- the environment respects time all along the history `acts` started in `s`
(actions that are not enabled are ignored, as in `MSt.run`). -/
def MSt.Timely (s : MSt) : List MAct → Prop
  | [] => True
  | a :: as => s.TimelyAct a ∧ MSt.Timely ((s.step a).getD s) as

instance MSt.decTimely : (s : MSt) → (acts : List MAct) → Decidable (s.Timely acts)
  | _, [] => inferInstanceAs (Decidable True)
  | s, a :: as =>
    have := MSt.decTimely ((s.step a).getD s) as
    inferInstanceAs (Decidable (s.TimelyAct a ∧ MSt.Timely ((s.step a).getD s) as))

/-- the ticker times visited along a history, the starting one first -/
def MSt.times (s : MSt) : List MAct → List SimTime
  | [] => [s.tickerTime]
  | a :: as => s.tickerTime :: MSt.times ((s.step a).getD s) as

/-! ## PART B — definitions -/

/-- "no device asks to be called back in the past", for oracle devices, on a (final) state:
the k-th observation of `c` has a time `≤` the `callAt` of the k-th recorded response of `c`. -/
def RunNoPast (orc : Oracle) (st : SimSt) : Prop :=
  ∀ (c : Comp) (k : Nat) (w : SimTime),
    (∃ r : DevResp, (agetD orc c [])[k]? = some r ∧ r.callAt = some w) →
    ∀ o : Obs, (st.obs.filter (fun o => o.comp == c))[k]? = some o → o.time ≤ w

/-- bookkeeping invariant of every reachable simulation state: the update counter of a device
is the number of its observations, and every scheduler's wakeups are a dict (unique keys). -/
structure SimSt.Good (st : SimSt) : Prop where
  count : ∀ c, agetD st.count c 0 = (st.obs.filter (fun o => o.comp == c)).length
  wakeU : ∀ l, UniqueKeys (st.sched l).wake

/-- observations are only ever appended -/
def SimSt.Ext (st st' : SimSt) : Prop := ∃ new, st'.obs = st.obs ++ new

/-- every wakeup entry of every scheduler level in `st'` was there in `st` already or is not
before `t`: "every wakeup entry added (to any level) is `≥ t`". -/
def WakeNew (t : SimTime) (st st' : SimSt) : Prop :=
  ∀ l e, e ∈ (st'.sched l).wake → e ∈ (st.sched l).wake ∨ t ≤ e.2

/-- what `SystemComponent.on_tick` → `NestedScheduler.on_tick` does to the bookkeeping of the
nested level `c` before its inner tick at time `t` (the system branch of `tickLoop`): the due
wakeups (`≤ t`) are removed, the queued interrupts are taken. -/
def nestedPrep (st : SimSt) (c : Comp) (t : SimTime) : SimSt :=
  { st with scheds := (upsert st.scheds c
      ⟨delWakeups (st.sched c).wake (nestedDue (st.sched c).wake t), [], true⟩) }

/-- executable check of `RunNoPast` (for `#guard`) -/
def runNoPastB (orc : Oracle) (st : SimSt) : Bool :=
  (st.obs.map (·.comp)).all fun c =>
    let os := st.obs.filter (fun o => o.comp == c)
    (List.range os.length).all fun k =>
      match (agetD orc c [])[k]?, os[k]? with
      | some r, some o => (match r.callAt with
        | some w => decide (o.time ≤ w)
        | none => true)
      | _, _ => true

/-- post-condition of one tick of one level at time `t` -/
def LevelOK (orc : Oracle) (t : SimTime) (st st' : SimSt) : Prop :=
  st.Ext st' ∧ (st.Good → st'.Good ∧ (RunNoPast orc st' → WakeNew t st st'))

/-- post-condition of one answer within a tick at time `t` -/
def AnsOK (orc : Oracle) (t : SimTime) (st st' : SimSt) (callAt : Option SimTime) : Prop :=
  st.Ext st' ∧ (st.Good → st'.Good ∧
    (RunNoPast orc st' → WakeNew t st st' ∧ ∀ w, callAt = some w → t ≤ w))

namespace TimeMono

/-! ## PART A — the invariant -/

/-- no bookkeeping entry lies before the ticker time. -/
structure TInv (s : MSt) : Prop where
  inv : MInv s
  wake_ge : ∀ c w, alookup s.wake c = some w → s.tickerTime ≤ w
  pend_ge : ∀ c i, alookup s.pend c = some i → s.tickerTime ≤ i

theorem TInv.init : TInv {} :=
  ⟨MInv.init, by intro c w h; simp [alookup] at h, by intro c i h; simp [alookup] at h⟩

theorem run_cons (s : MSt) (a : MAct) (as : List MAct) :
    s.run (a :: as) = MSt.run ((s.step a).getD s) as := by
  simp only [MSt.run]
  cases s.step a <;> rfl

theorem run_append (s : MSt) (pre post : List MAct) :
    s.run (pre ++ post) = (s.run pre).run post := by
  induction pre generalizing s with
  | nil => rfl
  | cons a as ih => rw [List.cons_append, run_cons, run_cons, ih]

theorem timely_append (s : MSt) (pre post : List MAct) :
    s.Timely (pre ++ post) ↔ s.Timely pre ∧ (s.run pre).Timely post := by
  induction pre generalizing s with
  | nil => simp [MSt.Timely, MSt.run]
  | cons a as ih =>
    rw [List.cons_append, run_cons]
    simp only [MSt.Timely, ih, and_assoc]

/-- `add_wakeup` of a time not before `T` keeps every entry not before `T`, provided the pending
stamp of the component is not before `T` either. -/
theorem addWakeup_ge (s : MSt) (c : Comp) (w T : SimTime) (hw : T ≤ w)
    (hp : ∀ i, alookup s.pend c = some i → T ≤ i)
    (hk : ∀ c' v, alookup s.wake c' = some v → T ≤ v) :
    ∀ c' v, alookup (s.addWakeup c w) c' = some v → T ≤ v := by
  intro c' v hv
  by_cases hc : c' = c
  · subst hc
    unfold MSt.addWakeup at hv
    split at hv
    · rename_i i hi
      have := hp i hi
      rw [ms_alookup_upsert, if_pos rfl] at hv
      simp only [Option.some.injEq] at hv
      subst hv
      split <;> assumption
    · rw [ms_alookup_upsert, if_pos rfl] at hv
      simp only [Option.some.injEq] at hv
      subst hv
      exact hw
  · rw [s.addWakeup_lookup_ne c c' w hc] at hv
    exact hk c' v hv

/-- the interrupt step: the time written is the stamp, or the component's earlier wakeup
(a callback that is already due is not displaced by the interrupt). -/
theorem step_interrupt_eq (s s' : MSt) (c : Comp) (stamp : SimTime)
    (hs : s.step (.interrupt c stamp) = some s') :
    ∃ when, (when = stamp ∨ alookup s.wake c = some when) ∧
      s' = { s with
        wake := MSt.addWakeup
          { s with pend := if (alookup s.pend c).isSome then s.pend else upsert s.pend c when } c when
        pend := if (alookup s.pend c).isSome then s.pend else upsert s.pend c when
        owed := sinsert s.owed c } := by
  simp only [MSt.step, Option.some.injEq] at hs
  subst hs
  refine ⟨_, ?_, rfl⟩
  split
  · rename_i w hw
    split
    · exact Or.inr hw
    · exact Or.inl rfl
  · exact Or.inl rfl

/-- one enabled, timely step keeps the invariant and does not decrease the ticker time. -/
theorem TInv.step {s s' : MSt} (h : TInv s) (a : MAct) (ht : s.TimelyAct a)
    (hs : s.step a = some s') : TInv s' ∧ s.tickerTime ≤ s'.tickerTime := by
  have hI : MInv s' := h.inv.step a hs
  cases a with
  | interrupt c stamp =>
    obtain ⟨when, hwhen, rfl⟩ := step_interrupt_eq s s' c stamp hs
    have ht' : s.tickerTime ≤ when := by
      rcases hwhen with rfl | hw
      · exact ht
      · exact h.wake_ge c when hw
    have hpend : ∀ c' i,
        alookup (if (alookup s.pend c).isSome then s.pend else upsert s.pend c when) c' = some i →
          s.tickerTime ≤ i := by
      intro c' i hi
      split at hi
      · exact h.pend_ge c' i hi
      · rw [ms_alookup_upsert] at hi
        split at hi
        · simp only [Option.some.injEq] at hi; subst hi; exact ht'
        · exact h.pend_ge c' i hi
    refine ⟨⟨hI, ?_, hpend⟩, Int.le_refl _⟩
    exact addWakeup_ge
      { s with pend := if (alookup s.pend c).isSome then s.pend else upsert s.pend c when }
      c when s.tickerTime ht' (fun i hi => hpend c i hi) h.wake_ge
  | output c callAt =>
    cases callAt with
    | none =>
      simp only [MSt.step, Option.some.injEq] at hs
      subst hs
      exact ⟨h, Int.le_refl _⟩
    | some w =>
      simp only [MSt.step, Option.some.injEq] at hs
      subst hs
      have ht' : s.tickerTime ≤ w := ht
      refine ⟨⟨hI, ?_, h.pend_ge⟩, Int.le_refl _⟩
      exact addWakeup_ge s c w s.tickerTime ht' (fun i hi => h.pend_ge c i hi) h.wake_ge
  | startTick =>
    obtain ⟨cs, m, _, hf, rfl⟩ := s.step_startTick_eq s' hs
    obtain ⟨_, hle, ⟨c0, hc0⟩, _⟩ := firstWakeups_spec s.wake h.inv.wakeU cs m hf
    refine ⟨⟨hI, ?_, ?_⟩, h.wake_ge c0 m hc0⟩
    · intro c w hw
      have hw' : alookup (delWakeups s.wake cs) c = some w := hw
      rw [delWakeups_lookup _ h.inv.wakeU] at hw'
      split at hw'
      · cases hw'
      · exact hle c w hw'
    · -- a pending stamp that stays is covered by a wakeup that stays, and that one is `≥ m`
      intro c i hi
      have hi' : alookup (delWakeups s.pend cs) c = some i := hi
      rw [delWakeups_lookup _ h.inv.pendU] at hi'
      split at hi'
      · cases hi'
      · obtain ⟨w, hw, hwi⟩ := h.inv.pend_wake c i hi'
        exact Int.le_trans (hle c w hw) hwi
  | beginUpdate c =>
    obtain ⟨rem, _, rfl⟩ := s.step_beginUpdate_eq s' c hs
    exact ⟨⟨hI, h.wake_ge, h.pend_ge⟩, Int.le_refl _⟩
  | endTick =>
    obtain ⟨_, rfl⟩ := s.step_endTick_eq s' hs
    exact ⟨⟨hI, h.wake_ge, h.pend_ge⟩, Int.le_refl _⟩

/-- one action of a history (enabled or ignored) -/
theorem TInv.stepD {s : MSt} (h : TInv s) (a : MAct) (ht : s.TimelyAct a) :
    TInv ((s.step a).getD s) ∧ s.tickerTime ≤ ((s.step a).getD s).tickerTime := by
  cases hs : s.step a with
  | none => exact ⟨h, Int.le_refl _⟩
  | some s' => exact h.step a ht hs

theorem TInv.run {s : MSt} (h : TInv s) (acts : List MAct) (ht : s.Timely acts) :
    TInv (s.run acts) ∧ s.tickerTime ≤ (s.run acts).tickerTime := by
  induction acts generalizing s with
  | nil => exact ⟨h, Int.le_refl _⟩
  | cons a as ih =>
    rw [run_cons]
    obtain ⟨h1, h2⟩ := h.stepD a ht.1
    obtain ⟨h3, h4⟩ := ih h1 ht.2
    exact ⟨h3, Int.le_trans h2 h4⟩

/-- the list of ticker times visited along a timely history is non-decreasing -/
theorem TInv.times_sorted {s : MSt} (h : TInv s) (acts : List MAct) (ht : s.Timely acts) :
    (s.times acts).Pairwise (· ≤ ·) ∧ ∀ x ∈ s.times acts, s.tickerTime ≤ x := by
  induction acts generalizing s with
  | nil => simp [MSt.times]
  | cons a as ih =>
    obtain ⟨h1, h2⟩ := h.stepD a ht.1
    obtain ⟨h3, h4⟩ := ih h1 ht.2
    simp only [MSt.times]
    refine ⟨List.pairwise_cons.2 ⟨fun x hx => Int.le_trans h2 (h4 x hx), h3⟩, ?_⟩
    intro x hx
    rcases List.mem_cons.1 hx with rfl | hx
    · exact Int.le_refl _
    · exact Int.le_trans h2 (h4 x hx)

/-! ## PART B — one tick of one level -/

theorem SimSt.Ext.refl (st : SimSt) : st.Ext st := ⟨[], by simp⟩

theorem SimSt.Ext.trans {a b c : SimSt} (h1 : a.Ext b) (h2 : b.Ext c) : a.Ext c := by
  obtain ⟨n1, h1⟩ := h1
  obtain ⟨n2, h2⟩ := h2
  exact ⟨n1 ++ n2, by rw [h2, h1, List.append_assoc]⟩

theorem WakeNew.refl (t : SimTime) (st : SimSt) : WakeNew t st st := fun _ _ h => Or.inl h

theorem WakeNew.trans {t : SimTime} {a b c : SimSt} (h1 : WakeNew t a b) (h2 : WakeNew t b c) :
    WakeNew t a c := by
  intro l e he
  rcases h2 l e he with h | h
  · exact h1 l e h
  · exact Or.inr h

/-- the hypothesis on the final state restricts every earlier state -/
theorem RunNoPast.of_ext {orc : Oracle} {st st' : SimSt} (hx : st.Ext st') (h : RunNoPast orc st') :
    RunNoPast orc st := by
  obtain ⟨new, hx⟩ := hx
  unfold RunNoPast at *
  intro c k w hr o ho
  apply h c k w hr o
  rw [hx, List.filter_append]
  have hk : k < (st.obs.filter (fun o => o.comp == c)).length := by
    apply Classical.byContradiction
    intro hk
    rw [List.getElem?_eq_none (by omega)] at ho
    cases ho
  rw [List.getElem?_append_left hk]
  exact ho

theorem mem_upsert {κ β : Type} [DecidableEq κ] (m : List (κ × β)) (k : κ) (v : β) (e : κ × β)
    (h : e ∈ upsert m k v) : e ∈ m ∨ e = (k, v) := by
  induction m with
  | nil =>
    simp only [upsert, List.mem_singleton] at h
    exact Or.inr h
  | cons a t ih =>
    obtain ⟨a, w⟩ := a
    simp only [upsert] at h
    split at h
    · rename_i hak
      rcases List.mem_cons.1 h with h | h
      · right; rw [h, hak]
      · left; exact List.mem_cons_of_mem _ h
    · rcases List.mem_cons.1 h with h | h
      · left; rw [h]; exact List.mem_cons_self
      · rcases ih h with h | h
        · left; exact List.mem_cons_of_mem _ h
        · right; exact h

theorem mem_aerase {κ β : Type} [DecidableEq κ] (m : List (κ × β)) (k : κ) (e : κ × β)
    (h : e ∈ aerase m k) : e ∈ m := by
  induction m with
  | nil => simp [aerase] at h
  | cons a t ih =>
    obtain ⟨a, w⟩ := a
    simp only [aerase] at h
    split at h
    · exact List.mem_cons_of_mem _ h
    · rcases List.mem_cons.1 h with h | h
      · rw [h]; exact List.mem_cons_self
      · exact List.mem_cons_of_mem _ (ih h)

theorem mem_delWakeups (w : Wakeups) (cs : List Comp) (e : Comp × SimTime)
    (h : e ∈ delWakeups w cs) : e ∈ w := by
  induction cs generalizing w with
  | nil => exact h
  | cons c cs ih =>
    have : delWakeups w (c :: cs) = delWakeups (aerase w c) cs := rfl
    rw [this] at h
    exact mem_aerase _ _ _ (ih _ h)

/-- after a nested scheduler removed its due wakeups, every entry left is later than `t`. -/
theorem due_removed (w : Wakeups) (h : UniqueKeys w) (t : SimTime) (e : Comp × SimTime)
    (he : e ∈ delWakeups w (nestedDue w t)) : t < e.2 := by
  obtain ⟨c, v⟩ := e
  have hu := delWakeups_unique' w h (nestedDue w t)
  have hl := (alookup_eq_some_iff _ hu c v).2 he
  rw [delWakeups_lookup' w h] at hl
  split at hl
  · cases hl
  · rename_i hn
    apply Int.lt_of_not_ge
    intro hle
    exact hn ((nestedDue_spec' w h t c).2 ⟨v, hl, hle⟩)

/-- the first wakeup time is the time of an entry -/
theorem firstWakeups_mem (w : Wakeups) (m : SimTime) (h : (firstWakeups w).2 = some m) :
    (∃ e ∈ w, e.2 = m) ∧ ∀ e ∈ w, m ≤ e.2 := by
  rw [firstWakeups_snd] at h
  obtain ⟨h1, h2⟩ := minTime_spec _ _ h
  obtain ⟨e, he, hem⟩ := List.mem_map.1 h1
  exact ⟨⟨e, he, hem⟩, fun e he => h2 _ (List.mem_map.2 ⟨e, he, rfl⟩)⟩

theorem nestedPrep_ok (st : SimSt) (c : Comp) (t : SimTime) (hg : st.Good) :
    (nestedPrep st c t).Good ∧ (∀ e ∈ ((nestedPrep st c t).sched c).wake, t < e.2) ∧
    WakeNew t st (nestedPrep st c t) := by
  refine ⟨⟨hg.count, fun l => ?_⟩, fun e he => ?_, fun l e he => ?_⟩
  · unfold nestedPrep
    rw [SimSt.sched_upsert]
    split
    · exact delWakeups_unique' _ (hg.wakeU c) _
    · exact hg.wakeU l
  · unfold nestedPrep at he
    rw [SimSt.sched_upsert, if_pos rfl] at he
    exact due_removed _ (hg.wakeU c) t e he
  · unfold nestedPrep at he
    rw [SimSt.sched_upsert] at he
    split at he
    · rename_i hl
      subst hl
      exact Or.inl (mem_delWakeups _ _ _ he)
    · exact Or.inl he

theorem runNoPastB_sound (orc : Oracle) (st : SimSt) (h : runNoPastB orc st = true) :
    RunNoPast orc st := by
  intro c k w ⟨r, hr, hrw⟩ o ho
  have hk : k < (st.obs.filter (fun o => o.comp == c)).length := by
    apply Classical.byContradiction
    intro hk
    rw [List.getElem?_eq_none (by omega)] at ho
    cases ho
  have hom : o ∈ st.obs.filter (fun o => o.comp == c) := List.mem_of_getElem? ho
  obtain ⟨hom1, hom2⟩ := List.mem_filter.1 hom
  have hc : c ∈ st.obs.map (·.comp) := List.mem_map.2 ⟨o, hom1, by simpa using hom2⟩
  unfold runNoPastB at h
  rw [List.all_eq_true] at h
  have h1 := h c hc
  simp only [] at h1
  rw [List.all_eq_true] at h1
  have h2 := h1 k (List.mem_range.2 hk)
  rw [hr, ho] at h2
  simp only [hrw, decide_eq_true_eq] at h2
  exact h2

theorem AnsOK.of_eq (orc : Oracle) (t : SimTime) (st : SimSt) : AnsOK orc t st st none :=
  ⟨SimSt.Ext.refl st, fun hg => ⟨hg, fun _ => ⟨WakeNew.refl t st, fun w hw => by cases hw⟩⟩⟩

/-- the wakeup bookkeeping after an answer -/
theorem simWake_ok (st : SimSt) (lvl c : Comp) (callAt : Option SimTime) (t : SimTime) :
    st.Ext (simWake st lvl c callAt) ∧ (simWake st lvl c callAt).Ext st ∧
    (st.Good → (simWake st lvl c callAt).Good) ∧
    ((∀ w, callAt = some w → t ≤ w) → WakeNew t st (simWake st lvl c callAt)) := by
  refine ⟨⟨[], by simp [simWake]⟩, ⟨[], by simp [simWake]⟩, ?_, ?_⟩
  · intro hg
    refine ⟨hg.count, ?_⟩
    intro l
    unfold simWake
    simp only []
    rw [SimSt.sched_upsert]
    split
    · rename_i hl
      subst hl
      cases callAt with
      | none => exact hg.wakeU lvl
      | some w => exact (hg.wakeU lvl).upsert _ _
    · exact hg.wakeU l
  · intro hc l e he
    unfold simWake at he
    simp only [] at he
    rw [SimSt.sched_upsert] at he
    split at he
    · rename_i hl
      subst hl
      cases callAt with
      | none => exact Or.inl he
      | some w =>
        rcases mem_upsert _ _ _ _ he with h | h
        · exact Or.inl h
        · right; rw [h]; exact hc w rfl
    · exact Or.inl he

theorem simAnswer_ok {S : Static} {orc : Oracle} {fuel : Nat}
    (IH : ∀ lvl t roots inCh st st' out,
      tickLevel S orc fuel lvl t roots inCh st = .ok (st', out) → LevelOK orc t st st')
    {L : Level} {inCh : List (Port × V)} {st : SimSt} {outCh0 : List (Port × V)}
    {d : Dispatch V} {st' : SimSt} {outCh' changes : List (Port × V)} {callAt : Option SimTime}
    (h : simAnswer S orc fuel L inCh st outCh0 d = .ok (st', outCh', changes, callAt)) :
    AnsOK orc d.time st st' callAt := by
  cases d with
  | skip c t =>
    simp only [simAnswer, Except.ok.injEq, Prod.mk.injEq] at h
    obtain ⟨rfl, _, _, rfl⟩ := h
    exact AnsOK.of_eq _ _ _
  | input c t ins =>
    simp only [Dispatch.time]
    simp only [simAnswer] at h
    split at h
    · simp only [Except.ok.injEq, Prod.mk.injEq] at h
      obtain ⟨rfl, _, _, rfl⟩ := h
      exact AnsOK.of_eq _ _ _
    · split at h
      · simp only [Except.ok.injEq, Prod.mk.injEq] at h
        obtain ⟨rfl, _, _, rfl⟩ := h
        exact AnsOK.of_eq _ _ _
      · split at h
        · -- a system component
          split at h
          · cases h
          · rename_i st2 outCh hr
            simp only [Except.ok.injEq, Prod.mk.injEq] at h
            obtain ⟨rfl, _, _, hcall⟩ := h
            obtain ⟨hext, hgood⟩ := IH _ _ _ _ _ _ _ hr
            refine ⟨hext, fun hg => ?_⟩
            obtain ⟨hg2, hnew⟩ := hgood (by
              refine ⟨hg.count, fun l => ?_⟩
              rw [SimSt.sched_upsert]
              split
              · exact delWakeups_unique' _ (hg.wakeU c) _
              · exact hg.wakeU l)
            refine ⟨hg2, fun hnp => ?_⟩
            have hn2 := hnew hnp
            refine ⟨?_, ?_⟩
            · refine WakeNew.trans (b := _) ?_ hn2
              intro l e he
              rw [SimSt.sched_upsert] at he
              split at he
              · rename_i hl
                subst hl
                exact Or.inl (mem_delWakeups _ _ _ he)
              · exact Or.inl he
            · intro w hw
              rw [← hcall] at hw
              split at hw
              · obtain ⟨⟨e, he, hew⟩, _⟩ := firstWakeups_mem _ _ hw
                rw [← hew]
                rcases hn2 c e he with h1 | h1
                · rw [SimSt.sched_upsert, if_pos rfl] at h1
                  exact Int.le_of_lt (due_removed _ (hg.wakeU c) t e h1)
                · exact h1
              · cases hw
                exact Int.le_refl _
        · -- a device
          split at h
          · cases h
          · rename_i resp hresp
            split at h
            · cases h
            · simp only [Except.ok.injEq, Prod.mk.injEq] at h
              obtain ⟨rfl, _, _, hcall⟩ := h
              refine ⟨⟨[⟨c, t, _⟩], rfl⟩, fun hg => ⟨⟨?_, fun l => hg.wakeU l⟩, fun hnp =>
                ⟨fun l e he => Or.inl he, ?_⟩⟩⟩
              · intro c'
                show agetD (upsert st.count c (agetD st.count c 0 + 1)) c' 0 =
                  ((st.obs ++ [_]).filter (fun o : Obs => o.comp == c')).length
                rw [sim_agetD_upsert, List.filter_append, List.length_append, ← hg.count c']
                by_cases hcc : c = c'
                · subst hcc; simp
                · simp [hcc]
              · intro w hw
                rw [← hcall] at hw
                have := hnp c (agetD st.count c 0) w ⟨resp, hresp, hw⟩
                  ⟨c, t, (agetD st.devs c {}).merge ins⟩ (by
                    show ((st.obs ++ [_]).filter (fun o : Obs => o.comp == c))[_]? = _
                    rw [List.filter_append, hg.count c]
                    simp)
                exact this

theorem tickLoop_ok {S : Static} {orc : Oracle} {fuel : Nat}
    (IH : ∀ lvl t roots inCh st st' out,
      tickLevel S orc fuel lvl t roots inCh st = .ok (st', out) → LevelOK orc t st st')
    {L : Level} {t : SimTime} {inCh : List (Port × V)} :
    ∀ (steps : Nat) (ls : LoopSt), ls.tk.time = t →
      ∀ st' out, tickLoop S orc fuel steps L inCh ls = .ok (st', out) → LevelOK orc t ls.st st' := by
  intro steps
  induction steps with
  | zero =>
    intro ls _ st' out h
    rw [tickLoop_zero] at h; cases h
  | succ steps ih =>
    intro ls htm st' out h
    cases hp : ls.pending with
    | nil =>
      rw [tickLoop_nil _ _ _ _ _ _ _ hp] at h
      split at h
      · simp only [Except.ok.injEq, Prod.mk.injEq] at h
        obtain ⟨rfl, _⟩ := h
        exact ⟨SimSt.Ext.refl _, fun hg => ⟨hg, fun _ => WakeNew.refl _ _⟩⟩
      · cases h
    | cons d rest =>
      rw [tickLoop_cons _ _ _ _ _ _ _ _ _ hp] at h
      split at h
      · cases h
      · rename_i st1 outCh1 changes callAt ha
        split at h
        · cases h
        · rename_i tk' ds hprop
          obtain ⟨_, htime, _, _, htk, _⟩ := sim_propagate_eq_ok hprop
          have hdt : d.time = t := htime.trans htm
          obtain ⟨hx1, hA⟩ := simAnswer_ok IH ha
          rw [hdt] at hA
          obtain ⟨hx2, hx2', hgw, hnw⟩ := simWake_ok st1 L.name d.comp callAt t
          obtain ⟨hx3, hB⟩ := ih ⟨tk', rest ++ ds, outCh1, simWake st1 L.name d.comp callAt⟩
            (htk.trans htm) st' out h
          refine ⟨SimSt.Ext.trans (SimSt.Ext.trans hx1 hx2) hx3, fun hg => ?_⟩
          obtain ⟨hg1, hA'⟩ := hA hg
          obtain ⟨hg3, hB'⟩ := hB (hgw hg1)
          refine ⟨hg3, fun hnp => ?_⟩
          obtain ⟨hn1, hc⟩ := hA' (RunNoPast.of_ext (SimSt.Ext.trans hx2 hx3) hnp)
          exact WakeNew.trans (WakeNew.trans hn1 (hnw hc)) (hB' hnp)

/-- **post-condition of one tick of one scheduler level at time `t`** (any nesting depth). -/
theorem tickLevel_ok (S : Static) (orc : Oracle) :
    ∀ (fuel : Nat) (lvl : Comp) (t : SimTime) (roots : List Comp) (inCh : List (Port × V))
      (st st' : SimSt) (out : List (Port × V)),
      tickLevel S orc fuel lvl t roots inCh st = .ok (st', out) → LevelOK orc t st st' := by
  intro fuel
  induction fuel with
  | zero =>
    intro lvl t roots inCh st st' out h
    rw [tickLevel] at h; cases h
  | succ fuel IH =>
    intro lvl t roots inCh st st' out h
    rw [tickLevel.eq_2] at h
    split at h
    · cases h
    · rename_i L hLv
      split at h
      · cases h
      · rename_i tk ds hcall
        obtain ⟨_, _, htime, _⟩ := sim_call_eq_ok hcall
        exact tickLoop_ok IH _ ⟨tk, ds, [], st⟩ htime st' out h

/-! ## PART B — the master loop with stimuli -/

/-- which stimulus, if any, is handled before the next tick (as in `masterRun`) -/
def stimSel (m : MasterSt) (s : Speed) (whenT : Option SimTime) :
    List Stim → Option (Stim × List Stim)
  | [] => none
  | st :: rest => match whenT.map (dueReal m s) with
    | none => some (st, rest)
    | some d => if st.real ≤ d then some (st, rest) else none

/-- the time written for an interrupting top-level component: the stamp, unless an earlier
wakeup of that component is still pending (as in `masterRun`) -/
def stimWhen (wake : Wakeups) (top : Comp) (stamp : SimTime) : SimTime :=
  match alookup wake top with
  | some w => if w < stamp then w else stamp
  | none => stamp

theorem stimWhen_ge (wake : Wakeups) (top : Comp) (stamp T : SimTime) (hs : T ≤ stamp)
    (hw : ∀ e ∈ wake, T ≤ e.2) : T ≤ stimWhen wake top stamp := by
  unfold stimWhen
  split
  · rename_i w hl
    have := hw _ (alookup_mem wake top w hl)
    split
    · exact this
    · exact hs
  · exact hs

/-- the master after handling stimulus `st` (as in `masterRun`) -/
def stimStep (S : Static) (fuel : Nat) (s : Speed) (m : MasterSt) (st : Stim) : MasterSt :=
  let now := if st.real < m.now then m.now else st.real
  let r := raiseInterrupt S fuel st.comp m.sim
  let stamp := interruptStamp m.tickerTime now m.lastReal s
  let sc := r.1.sched ""
  let when := stimWhen sc.wake r.2 stamp
  { m with
    sim := { r.1 with scheds := upsert r.1.scheds "" { sc with wake := addWakeup sc.wake r.2 when } }
    now := now }

/-- the served wakeups of the master are removed (as in `masterRun`) -/
def delMaster (st : SimSt) (cs : List Comp) : SimSt :=
  let sc := st.sched ""
  { st with scheds := upsert st.scheds "" { sc with wake := delWakeups sc.wake cs } }

theorem masterRun_unfold (S : Static) (orc : Oracle) (fuel : Nat) (s : Speed) (steps nTicks : Nat)
    (m : MasterSt) (stims : List Stim) (acc : List TickRec) :
    masterRun S orc fuel s (steps + 1) (nTicks + 1) m stims acc =
      match stimSel m s (firstWakeups (m.sim.sched "").wake).2 stims with
      | some (st, rest) =>
        masterRun S orc fuel s steps (nTicks + 1) (stimStep S fuel s m st) rest acc
      | none =>
        match firstWakeups (m.sim.sched "").wake with
        | (comps, some w) =>
          match tickLevel S orc fuel "" w comps [] (delMaster m.sim comps) with
          | .error e => .error e
          | .ok (sim2, _) =>
            masterRun S orc fuel s steps nTicks
              { sim := sim2, tickerTime := w, lastReal := dueReal m s w, now := dueReal m s w } stims
              (acc ++ [⟨w, dueReal m s w, comps⟩])
        | (_, none) => .ok (m, acc) := by
  rw [masterRun]
  cases hfw : firstWakeups (m.sim.sched "").wake with
  | mk comps whenT =>
    cases stims with
    | nil =>
      cases whenT with
      | none => simp [stimSel]
      | some w => simp only [stimSel, Option.map_some]; rfl
    | cons st rest =>
      cases whenT with
      | none => simp only [stimSel, Option.map_none]; rfl
      | some w =>
        simp only [stimSel, Option.map_some]
        by_cases hle : st.real ≤ dueReal m s w
        · simp only [hle, if_true]; rfl
        · simp only [hle, if_false]; rfl

theorem stimSel_mem {m : MasterSt} {s : Speed} {whenT : Option SimTime} {stims : List Stim}
    {st : Stim} {rest : List Stim} (h : stimSel m s whenT stims = some (st, rest)) :
    stims = st :: rest := by
  cases stims with
  | nil => simp [stimSel] at h
  | cons st0 rest0 =>
    simp only [stimSel] at h
    split at h
    · cases h; rfl
    · split at h
      · cases h; rfl
      · cases h

/-- raising an interrupt queues it level by level; it touches neither observations, counters
nor any wakeup. -/
theorem raiseInterrupt_frame (S : Static) (fuel : Nat) (c : Comp) (st : SimSt) :
    (raiseInterrupt S fuel c st).1.obs = st.obs ∧ (raiseInterrupt S fuel c st).1.count = st.count ∧
    ∀ l, ((raiseInterrupt S fuel c st).1.sched l).wake = (st.sched l).wake := by
  induction fuel generalizing c st with
  | zero => exact ⟨rfl, rfl, fun _ => rfl⟩
  | succ fuel ih =>
    rw [raiseInterrupt]
    split
    · exact ⟨rfl, rfl, fun _ => rfl⟩
    · rename_i p hp
      split
      · exact ⟨rfl, rfl, fun _ => rfl⟩
      · simp only []
        obtain ⟨h1, h2, h3⟩ := ih p { st with scheds := upsert st.scheds p { (st.sched p) with interrupts := sinsert (st.sched p).interrupts c } }
        refine ⟨h1, h2, fun l => ?_⟩
        rw [h3 l, SimSt.sched_upsert]
        split
        · rename_i hl; subst hl; rfl
        · rfl

/-- the pacing law never stamps an interrupt before the ticker time -/
theorem interruptStamp_ge (t : SimTime) (now last : Int) (s : Speed) (h : last ≤ now) :
    t ≤ interruptStamp t now last s := by
  unfold interruptStamp truncDiv
  have h1 : 0 ≤ (now - last) * (s.num : Int) :=
    Int.mul_nonneg (by omega) (Int.natCast_nonneg _)
  have h2 : 0 ≤ Int.tdiv ((now - last) * (s.num : Int)) (s.den : Int) :=
    Int.tdiv_nonneg h1 (Int.natCast_nonneg _)
  simp only [SimTime] at *
  omega

end TimeMono

/-- the master between two steps: the simulation state is well-formed, no master wakeup lies
before the ticker time, and real time has not run backwards since the last tick. -/
structure MasterSt.OK (m : MasterSt) : Prop where
  good : m.sim.Good
  wake_ge : ∀ e ∈ (m.sim.sched "").wake, m.tickerTime ≤ e.2
  real : m.lastReal ≤ m.now

namespace TimeMono

theorem stimStep_obs (S : Static) (fuel : Nat) (s : Speed) (m : MasterSt) (st : Stim) :
    (stimStep S fuel s m st).sim.obs = m.sim.obs :=
  (raiseInterrupt_frame S fuel st.comp m.sim).1

theorem stimStep_ok (S : Static) (fuel : Nat) (s : Speed) (m : MasterSt) (st : Stim) (h : m.OK) :
    (stimStep S fuel s m st).OK ∧ (stimStep S fuel s m st).tickerTime = m.tickerTime ∧
    (stimStep S fuel s m st).sim.obs = m.sim.obs := by
  obtain ⟨hobs, hcount, hwake⟩ := raiseInterrupt_frame S fuel st.comp m.sim
  have hnow : m.lastReal ≤ (if st.real < m.now then m.now else st.real) := by
    have := h.real
    split <;> omega
  refine ⟨⟨⟨?_, ?_⟩, ?_, hnow⟩, rfl, hobs⟩
  · intro c
    show agetD (raiseInterrupt S fuel st.comp m.sim).1.count c 0 =
      ((raiseInterrupt S fuel st.comp m.sim).1.obs.filter (fun o : Obs => o.comp == c)).length
    rw [hobs, hcount]
    exact h.good.count c
  · intro l
    unfold stimStep
    simp only []
    rw [SimSt.sched_upsert]
    split
    · rename_i hl
      subst hl
      show UniqueKeys (addWakeup _ _ _)
      rw [hwake ""]
      exact (h.good.wakeU "").upsert _ _
    · rw [hwake l]
      exact h.good.wakeU l
  · intro e he
    unfold stimStep at he
    simp only [] at he
    rw [SimSt.sched_upsert, if_pos rfl] at he
    have he' : e ∈ addWakeup ((raiseInterrupt S fuel st.comp m.sim).1.sched "").wake _ _ := he
    rw [hwake ""] at he'
    show m.tickerTime ≤ e.2
    rcases mem_upsert _ _ _ _ he' with h1 | h1
    · exact h.wake_ge e h1
    · rw [h1]
      exact stimWhen_ge _ _ _ _ (interruptStamp_ge _ _ _ _ hnow) h.wake_ge

theorem delMaster_ok (st : SimSt) (cs : List Comp) (hg : st.Good) :
    (delMaster st cs).Good ∧ (delMaster st cs).obs = st.obs ∧
    ∀ l e, e ∈ ((delMaster st cs).sched l).wake → e ∈ (st.sched l).wake := by
  refine ⟨⟨hg.count, fun l => ?_⟩, rfl, fun l e he => ?_⟩
  · unfold delMaster
    simp only []
    rw [SimSt.sched_upsert]
    split
    · rename_i hl; subst hl
      exact delWakeups_unique' _ (hg.wakeU "") _
    · exact hg.wakeU l
  · unfold delMaster at he
    simp only [] at he
    rw [SimSt.sched_upsert] at he
    split at he
    · rename_i hl; subst hl
      exact mem_delWakeups _ _ _ he
    · exact he

theorem good_empty : ({} : SimSt).Good :=
  ⟨fun _ => rfl, fun _ => List.nodup_nil⟩

/-- the initial tick leaves the master in an `OK` state -/
theorem masterInitial_ok (S : Static) (orc : Oracle) (fuel : Nat) (t0 : SimTime) (now : Int)
    (m : MasterSt) (tr : TickRec) (h : masterInitial S orc fuel t0 now = .ok (m, tr))
    (hnp : RunNoPast orc m.sim) : m.OK ∧ tr.time = m.tickerTime := by
  unfold masterInitial at h
  split at h
  · cases h
  · simp only [] at h
    split at h
    · cases h
    · rename_i st out hr
      simp only [Except.ok.injEq, Prod.mk.injEq] at h
      obtain ⟨rfl, rfl⟩ := h
      obtain ⟨_, hlev⟩ := tickLevel_ok S orc _ _ _ _ _ _ _ _ hr
      obtain ⟨hg, hnew⟩ := hlev good_empty
      refine ⟨⟨hg, fun e he => ?_, Int.le_refl _⟩, rfl⟩
      rcases hnew hnp "" e he with h1 | h1
      · cases h1
      · exact h1

/-- **the whole run**: observations only grow; and if the master starts in an `OK` state and the
ticks recorded so far are in order and not after the ticker time, so are all ticks of the run. -/
theorem masterRun_mono (S : Static) (orc : Oracle) (fuel : Nat) (sp : Speed) :
    ∀ (steps nTicks : Nat) (m : MasterSt) (stims : List Stim) (acc : List TickRec)
      (m2 : MasterSt) (ticks : List TickRec),
      masterRun S orc fuel sp steps nTicks m stims acc = .ok (m2, ticks) →
      m.sim.Ext m2.sim ∧
      (m.OK → RunNoPast orc m2.sim →
        (acc.map (·.time)).Pairwise (· ≤ ·) → (∀ x ∈ acc, x.time ≤ m.tickerTime) →
        (ticks.map (·.time)).Pairwise (· ≤ ·) ∧ (∀ x ∈ ticks, x.time ≤ m2.tickerTime) ∧ m2.OK) := by
  intro steps
  induction steps with
  | zero =>
    intro nTicks m stims acc m2 ticks h
    rw [masterRun] at h
    simp only [Except.ok.injEq, Prod.mk.injEq] at h
    obtain ⟨rfl, rfl⟩ := h
    exact ⟨SimSt.Ext.refl _, fun hok _ hs hle => ⟨hs, hle, hok⟩⟩
  | succ steps ih =>
    intro nTicks m stims acc m2 ticks h
    cases nTicks with
    | zero =>
      rw [masterRun.eq_2 _ _ _ _ _ _ _ _ (by simp)] at h
      simp only [Except.ok.injEq, Prod.mk.injEq] at h
      obtain ⟨rfl, rfl⟩ := h
      exact ⟨SimSt.Ext.refl _, fun hok _ hs hle => ⟨hs, hle, hok⟩⟩
    | succ nTicks =>
      rw [masterRun_unfold] at h
      split at h
      · -- a stimulus first
        rename_i st rest _
        obtain ⟨hx, hrest⟩ := ih _ _ _ _ _ _ h
        refine ⟨?_, fun hok hnp hs hle => ?_⟩
        · obtain ⟨new, hnew⟩ := hx
          exact ⟨new, by rw [hnew, stimStep_obs]⟩
        · obtain ⟨hok', htt, _⟩ := stimStep_ok S fuel sp m st hok
          exact hrest hok' hnp hs (by rw [htt]; exact hle)
      · split at h
        · -- the next tick
          rename_i comps w hfw
          split at h
          · cases h
          · rename_i sim2 out hr
            obtain ⟨hx, hrest⟩ := ih _ _ _ _ _ _ h
            obtain ⟨hx1, hlev⟩ := tickLevel_ok S orc _ _ _ _ _ _ _ _ hr
            refine ⟨SimSt.Ext.trans hx1 hx, fun hok hnp hs hle => ?_⟩
            obtain ⟨hgd, _, hdel⟩ := delMaster_ok m.sim comps hok.good
            obtain ⟨hg2, hnew⟩ := hlev hgd
            have hnew := hnew (RunNoPast.of_ext hx hnp)
            have hsnd : (firstWakeups (m.sim.sched "").wake).2 = some w := by rw [hfw]
            obtain ⟨⟨e0, he0, he0w⟩, hmin⟩ := firstWakeups_mem _ _ hsnd
            have htw : m.tickerTime ≤ w := he0w ▸ hok.wake_ge e0 he0
            refine hrest ⟨hg2, ?_, Int.le_refl _⟩ hnp ?_ ?_
            · intro e he
              rcases hnew "" e he with h1 | h1
              · exact hmin e (hdel "" e h1)
              · exact h1
            · rw [List.map_append, List.pairwise_append]
              refine ⟨hs, by simp, ?_⟩
              intro a ha b hb
              obtain ⟨x, hx', rfl⟩ := List.mem_map.1 ha
              simp only [List.map_cons, List.map_nil, List.mem_singleton] at hb
              subst hb
              exact Int.le_trans (hle x hx') htw
            · intro x hx'
              rcases List.mem_append.1 hx' with hx' | hx'
              · exact Int.le_trans (hle x hx') htw
              · simp only [List.mem_singleton] at hx'
                subst hx'
                exact Int.le_refl _
        · -- nothing left to do
          simp only [Except.ok.injEq, Prod.mk.injEq] at h
          obtain ⟨rfl, rfl⟩ := h
          exact ⟨SimSt.Ext.refl _, fun hok _ hs hle => ⟨hs, hle, hok⟩⟩

end TimeMono

end Tickit
