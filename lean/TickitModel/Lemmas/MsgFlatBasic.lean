/-
Frame lemmas for the message-level model (`Core/MsgFlat.lean`): what `produce`, `advance`,
`record`, `send`, `sendAll` do to logs, cursors, history; and the per-component "slot"
(where the component's dispatch is in flight), which is the heart of the simulation relation.
-/
import TickitModel.Core.MsgFlat
import TickitModel.Lemmas.TickerLemmas

set_option autoImplicit false

namespace Tickit

variable {Val : Type}

/-! ### frame lemmas -/

@[simp] theorem MsgSt.log_produce (m : MsgSt Val) (T T' : MsgTopic) (μ : BusMsg Val) :
    (m.produce T μ).log T' = if T = T' then m.log T ++ [μ] else m.log T' := by
  simp only [MsgSt.log, MsgSt.produce, agetD, alookup_upsert]
  split <;> simp_all

@[simp] theorem MsgSt.cur_produce (m : MsgSt Val) (T T' : MsgTopic) (μ : BusMsg Val) :
    (m.produce T μ).cur T' = m.cur T' := rfl

@[simp] theorem MsgSt.tk_produce (m : MsgSt Val) (T : MsgTopic) (μ : BusMsg Val) :
    (m.produce T μ).tk = m.tk := rfl

@[simp] theorem MsgSt.hist_produce (m : MsgSt Val) (T : MsgTopic) (μ : BusMsg Val) :
    (m.produce T μ).hist = m.hist := rfl

@[simp] theorem MsgSt.started_produce (m : MsgSt Val) (T : MsgTopic) (μ : BusMsg Val) :
    (m.produce T μ).started = m.started := rfl

@[simp] theorem MsgSt.log_advance (m : MsgSt Val) (T T' : MsgTopic) :
    (m.advance T).log T' = m.log T' := rfl

@[simp] theorem MsgSt.cur_advance (m : MsgSt Val) (T T' : MsgTopic) :
    (m.advance T).cur T' = if T = T' then m.cur T + 1 else m.cur T' := by
  simp only [MsgSt.cur, MsgSt.advance, agetD, alookup_upsert]
  split <;> simp_all

@[simp] theorem MsgSt.tk_advance (m : MsgSt Val) (T : MsgTopic) : (m.advance T).tk = m.tk := rfl

@[simp] theorem MsgSt.hist_advance (m : MsgSt Val) (T : MsgTopic) :
    (m.advance T).hist = m.hist := rfl

@[simp] theorem MsgSt.started_advance (m : MsgSt Val) (T : MsgTopic) :
    (m.advance T).started = m.started := rfl

@[simp] theorem MsgSt.log_record (m : MsgSt Val) (e : MsgEv Val) (T : MsgTopic) :
    (m.record e).log T = m.log T := rfl

@[simp] theorem MsgSt.cur_record (m : MsgSt Val) (e : MsgEv Val) (T : MsgTopic) :
    (m.record e).cur T = m.cur T := rfl

@[simp] theorem MsgSt.tk_record (m : MsgSt Val) (e : MsgEv Val) : (m.record e).tk = m.tk := rfl

@[simp] theorem MsgSt.hist_record (m : MsgSt Val) (e : MsgEv Val) :
    (m.record e).hist = m.hist ++ [e] := rfl

@[simp] theorem MsgSt.started_record (m : MsgSt Val) (e : MsgEv Val) :
    (m.record e).started = m.started := rfl

@[simp] theorem MsgSt.log_setTk (m : MsgSt Val) (tk : Ticker Val) (T : MsgTopic) :
    (m.setTk tk).log T = m.log T := rfl

@[simp] theorem MsgSt.cur_setTk (m : MsgSt Val) (tk : Ticker Val) (T : MsgTopic) :
    (m.setTk tk).cur T = m.cur T := rfl

@[simp] theorem MsgSt.tk_setTk (m : MsgSt Val) (tk : Ticker Val) : (m.setTk tk).tk = some tk := rfl

@[simp] theorem MsgSt.hist_setTk (m : MsgSt Val) (tk : Ticker Val) : (m.setTk tk).hist = m.hist := rfl

@[simp] theorem MsgSt.started_setTk (m : MsgSt Val) (tk : Ticker Val) :
    (m.setTk tk).started = m.started := rfl

@[simp] theorem MsgSt.log_setStarted (m : MsgSt Val) (l : List Comp) (T : MsgTopic) :
    ({ m with started := l } : MsgSt Val).log T = m.log T := rfl

@[simp] theorem MsgSt.cur_setStarted (m : MsgSt Val) (l : List Comp) (T : MsgTopic) :
    ({ m with started := l } : MsgSt Val).cur T = m.cur T := rfl

@[simp] theorem MsgSt.log_noteWakeup (m : MsgSt Val) (c : Comp) (o : Option SimTime) (T : MsgTopic) :
    (m.noteWakeup c o).log T = m.log T := by cases o <;> rfl

@[simp] theorem MsgSt.cur_noteWakeup (m : MsgSt Val) (c : Comp) (o : Option SimTime) (T : MsgTopic) :
    (m.noteWakeup c o).cur T = m.cur T := by cases o <;> rfl

@[simp] theorem MsgSt.tk_noteWakeup (m : MsgSt Val) (c : Comp) (o : Option SimTime) :
    (m.noteWakeup c o).tk = m.tk := by cases o <;> rfl

@[simp] theorem MsgSt.hist_noteWakeup (m : MsgSt Val) (c : Comp) (o : Option SimTime) :
    (m.noteWakeup c o).hist = m.hist := by cases o <;> rfl

@[simp] theorem MsgSt.started_noteWakeup (m : MsgSt Val) (c : Comp) (o : Option SimTime) :
    (m.noteWakeup c o).started = m.started := by cases o <;> rfl

@[simp] theorem MsgSt.trace_noteWakeup (m : MsgSt Val) (c : Comp) (o : Option SimTime) :
    (m.noteWakeup c o).trace = m.trace := by cases o <;> rfl

@[simp] theorem MsgSt.wake_produce (m : MsgSt Val) (T : MsgTopic) (μ : BusMsg Val) :
    (m.produce T μ).wake = m.wake := rfl

@[simp] theorem MsgSt.wake_advance (m : MsgSt Val) (T : MsgTopic) : (m.advance T).wake = m.wake := rfl

@[simp] theorem MsgSt.wake_record (m : MsgSt Val) (e : MsgEv Val) : (m.record e).wake = m.wake := rfl

@[simp] theorem MsgSt.wake_setTk (m : MsgSt Val) (tk : Ticker Val) : (m.setTk tk).wake = m.wake := rfl

@[simp] theorem MsgSt.wake_send (m : MsgSt Val) (d : Dispatch Val) : (m.send d).wake = m.wake := rfl

@[simp] theorem MsgSt.log_send (m : MsgSt Val) (d : Dispatch Val) (T : MsgTopic) :
    (m.send d).log T = if d.topic = T then m.log d.topic ++ [.disp d] else m.log T := by
  simp [MsgSt.send]

@[simp] theorem MsgSt.cur_send (m : MsgSt Val) (d : Dispatch Val) (T : MsgTopic) :
    (m.send d).cur T = m.cur T := rfl

@[simp] theorem MsgSt.tk_send (m : MsgSt Val) (d : Dispatch Val) : (m.send d).tk = m.tk := rfl

@[simp] theorem MsgSt.started_send (m : MsgSt Val) (d : Dispatch Val) :
    (m.send d).started = m.started := rfl

@[simp] theorem MsgSt.hist_send (m : MsgSt Val) (d : Dispatch Val) :
    (m.send d).hist = m.hist ++ [.dispatch d] := rfl

@[simp] theorem MsgSt.sendAll_nil (m : MsgSt Val) : m.sendAll [] = m := rfl

@[simp] theorem MsgSt.sendAll_cons (m : MsgSt Val) (d : Dispatch Val) (ds : List (Dispatch Val)) :
    m.sendAll (d :: ds) = (m.send d).sendAll ds := rfl

@[simp] theorem MsgSt.cur_sendAll (m : MsgSt Val) (ds : List (Dispatch Val)) (T : MsgTopic) :
    (m.sendAll ds).cur T = m.cur T := by
  induction ds generalizing m with
  | nil => rfl
  | cons d ds ih => simp [ih]

@[simp] theorem MsgSt.tk_sendAll (m : MsgSt Val) (ds : List (Dispatch Val)) :
    (m.sendAll ds).tk = m.tk := by
  induction ds generalizing m with
  | nil => rfl
  | cons d ds ih => simp [ih]

@[simp] theorem MsgSt.started_sendAll (m : MsgSt Val) (ds : List (Dispatch Val)) :
    (m.sendAll ds).started = m.started := by
  induction ds generalizing m with
  | nil => rfl
  | cons d ds ih => simp [ih]

@[simp] theorem MsgSt.hist_sendAll (m : MsgSt Val) (ds : List (Dispatch Val)) :
    (m.sendAll ds).hist = m.hist ++ ds.map MsgEv.dispatch := by
  induction ds generalizing m with
  | nil => simp
  | cons d ds ih => simp [ih]

@[simp] theorem MsgSt.wake_sendAll (m : MsgSt Val) (ds : List (Dispatch Val)) :
    (m.sendAll ds).wake = m.wake := by
  induction ds generalizing m with
  | nil => rfl
  | cons d ds ih => simp [ih]

/-- the log of a topic after a batch of dispatches: what was there, then the dispatches
addressed to it, in order. -/
theorem MsgSt.log_sendAll (m : MsgSt Val) (ds : List (Dispatch Val)) (T : MsgTopic) :
    (m.sendAll ds).log T = m.log T ++ (ds.filter (fun d => d.topic = T)).map BusMsg.disp := by
  induction ds generalizing m with
  | nil => simp
  | cons d ds ih =>
    rw [MsgSt.sendAll_cons, ih, MsgSt.log_send]
    by_cases h : d.topic = T
    · subst h; simp
    · simp [h]

/-! ### the scheduler-side trace -/

@[simp] theorem MsgSt.trace_record (m : MsgSt Val) (e : MsgEv Val) :
    (m.record e).trace = m.trace ++ (e.toEv).toList := by
  simp only [MsgSt.trace, MsgSt.hist_record, List.filterMap_append]
  cases h : e.toEv <;> simp [List.filterMap, h]

@[simp] theorem MsgSt.trace_produce (m : MsgSt Val) (T : MsgTopic) (μ : BusMsg Val) :
    (m.produce T μ).trace = m.trace := rfl

@[simp] theorem MsgSt.trace_advance (m : MsgSt Val) (T : MsgTopic) :
    (m.advance T).trace = m.trace := rfl

@[simp] theorem MsgSt.trace_setTk (m : MsgSt Val) (tk : Ticker Val) :
    (m.setTk tk).trace = m.trace := rfl

@[simp] theorem MsgSt.trace_setStarted (m : MsgSt Val) (l : List Comp) :
    ({ m with started := l } : MsgSt Val).trace = m.trace := rfl

theorem filterMap_toEv_map_dispatch (ds : List (Dispatch Val)) :
    (ds.map MsgEv.dispatch).filterMap MsgEv.toEv = ds.map Ev.dispatch := by
  induction ds with
  | nil => rfl
  | cons d ds ih => simp [MsgEv.toEv, ih]

@[simp] theorem MsgSt.trace_sendAll (m : MsgSt Val) (ds : List (Dispatch Val)) :
    (m.sendAll ds).trace = m.trace ++ ds.map Ev.dispatch := by
  simp only [MsgSt.trace, MsgSt.hist_sendAll, List.filterMap_append, filterMap_toEv_map_dispatch]

theorem Dispatch.topic_ne_inT {d : Dispatch Val} {c : Comp} (h : d.comp ≠ c) :
    d.topic ≠ .inT c := by
  cases d <;> simp_all [Dispatch.topic, Dispatch.comp]

theorem Dispatch.topic_ne_outT {d : Dispatch Val} {c : Comp} (h : d.comp ≠ c) :
    d.topic ≠ .outT c := by
  cases d <;> simp_all [Dispatch.topic, Dispatch.comp]

/-! ### the slot of a component -/

/-- **where component `c` stands** (the simulation relation, per component):
nothing in flight; its `Input` waits in `in c`; it has reacted and its `Output` waits in
`out c`; its `Skip` waits in `out c`.  At most one message of `c` is in flight. -/
inductive Slot (rx : MsgReact Val) (m : MsgSt Val) (c : Comp) : Option (Dispatch Val) → Prop
  | idle : m.cur (.inT c) = (m.log (.inT c)).length → m.cur (.outT c) = (m.log (.outT c)).length →
      Slot rx m c none
  | inputWaiting (t : SimTime) (ins : List (Port × Val)) :
      m.cur (.inT c) + 1 = (m.log (.inT c)).length →
      m.next (.inT c) = some (.disp (.input c t ins)) →
      m.cur (.outT c) = (m.log (.outT c)).length → Slot rx m c (some (.input c t ins))
  | outputWaiting (t : SimTime) (ins : List (Port × Val)) :
      m.cur (.inT c) = (m.log (.inT c)).length →
      (m.log (.inT c)).getLast? = some (.disp (.input c t ins)) →
      m.cur (.outT c) + 1 = (m.log (.outT c)).length →
      m.next (.outT c) = some (.output c t (rx c t ins).1 (rx c t ins).2) →
      Slot rx m c (some (.input c t ins))
  | skipWaiting (t : SimTime) :
      m.cur (.inT c) = (m.log (.inT c)).length →
      m.cur (.outT c) + 1 = (m.log (.outT c)).length →
      m.next (.outT c) = some (.disp (.skip c t)) → Slot rx m c (some (.skip c t))

/-- the slot of `c` only depends on the two topics of `c`. -/
theorem Slot.congr {rx : MsgReact Val} {m m' : MsgSt Val} {c : Comp} {o : Option (Dispatch Val)}
    (h : Slot rx m c o)
    (h1 : m'.log (.inT c) = m.log (.inT c)) (h2 : m'.log (.outT c) = m.log (.outT c))
    (h3 : m'.cur (.inT c) = m.cur (.inT c)) (h4 : m'.cur (.outT c) = m.cur (.outT c)) :
    Slot rx m' c o := by
  cases h with
  | idle a b => exact .idle (by rw [h3, h1]; exact a) (by rw [h4, h2]; exact b)
  | inputWaiting t ins a b d =>
    exact .inputWaiting t ins (by rw [h3, h1]; exact a) (by simpa [MsgSt.next, h1, h3] using b)
      (by rw [h4, h2]; exact d)
  | outputWaiting t ins a b d e =>
    exact .outputWaiting t ins (by rw [h3, h1]; exact a) (by rw [h1]; exact b)
      (by rw [h4, h2]; exact d) (by simpa [MsgSt.next, h2, h4] using e)
  | skipWaiting t a b d =>
    exact .skipWaiting t (by rw [h3, h1]; exact a) (by rw [h4, h2]; exact b)
      (by simpa [MsgSt.next, h2, h4] using d)

theorem Slot.comp_eq {rx : MsgReact Val} {m : MsgSt Val} {c : Comp} {d : Dispatch Val}
    (h : Slot rx m c (some d)) : d.comp = c := by
  cases h <;> rfl

/-- the explicit abstraction function computes the slot. -/
theorem Slot.inflight_eq {rx : MsgReact Val} {m : MsgSt Val} {c : Comp} {o : Option (Dispatch Val)}
    (h : Slot rx m c o) : m.inflight c = o := by
  have hnone : ∀ T, m.cur T = (m.log T).length → m.next T = none := by
    intro T hT; simp [MsgSt.next, hT]
  cases h with
  | idle a b => simp [MsgSt.inflight, hnone _ a, hnone _ b]
  | inputWaiting t ins a b d => simp [MsgSt.inflight, b]
  | outputWaiting t ins a b d e => simp [MsgSt.inflight, hnone _ a, e, b]
  | skipWaiting t a b d => simp [MsgSt.inflight, hnone _ a, d]

/-- sending a dispatch to another component does not move the slot of `c`. -/
theorem Slot.send_other {rx : MsgReact Val} {m : MsgSt Val} {c : Comp} {o : Option (Dispatch Val)}
    {d : Dispatch Val} (h : Slot rx m c o) (hne : d.comp ≠ c) : Slot rx (m.send d) c o := by
  refine h.congr ?_ ?_ rfl rfl
  · simp [Dispatch.topic_ne_inT hne]
  · simp [Dispatch.topic_ne_outT hne]

/-- sending a dispatch to an idle component puts it in flight. -/
theorem Slot.send_self {rx : MsgReact Val} {m : MsgSt Val} {d : Dispatch Val}
    (h : Slot rx m d.comp none) : Slot rx (m.send d) d.comp (some d) := by
  cases h with
  | idle a b =>
    cases d with
    | input c t ins =>
      simp only [Dispatch.comp] at a b ⊢
      refine .inputWaiting t ins ?_ ?_ ?_
      · simp [Dispatch.topic, a]
      · simp [MsgSt.next, Dispatch.topic, a]
      · simp [Dispatch.topic, b]
    | skip c t =>
      simp only [Dispatch.comp] at a b ⊢
      refine .skipWaiting t ?_ ?_ ?_
      · simp [Dispatch.topic, a]
      · simp [Dispatch.topic, b]
      · simp [MsgSt.next, Dispatch.topic, b]

/-- **the pending dispatches are the messages in flight**: for every component, the pending
dispatches addressed to it are exactly the content of its slot. -/
def SlotRel (rx : MsgReact Val) (m : MsgSt Val) (P : List (Dispatch Val)) : Prop :=
  ∀ c, ∃ o, Slot rx m c o ∧ ∀ d, (d ∈ P ∧ d.comp = c) ↔ o = some d

theorem SlotRel.congr {rx : MsgReact Val} {m m' : MsgSt Val} {P : List (Dispatch Val)}
    (h : SlotRel rx m P) (h1 : ∀ T, m'.log T = m.log T) (h2 : ∀ T, m'.cur T = m.cur T) :
    SlotRel rx m' P := by
  intro c
  obtain ⟨o, ho, hp⟩ := h c
  exact ⟨o, ho.congr (h1 _) (h1 _) (h2 _) (h2 _), hp⟩

/-- a batch of dispatches to distinct components none of which has anything pending: all of
them are in flight afterwards, nothing else moves. -/
theorem SlotRel.sendAll {rx : MsgReact Val} (ds : List (Dispatch Val)) :
    ∀ {m : MsgSt Val} {P : List (Dispatch Val)}, SlotRel rx m P →
      ((P ++ ds).map Dispatch.comp).Nodup → SlotRel rx (m.sendAll ds) (P ++ ds) := by
  induction ds with
  | nil => intro m P h _; simpa using h
  | cons d ds ih =>
    intro m P h hn
    have hn' : (((P ++ [d]) ++ ds).map Dispatch.comp).Nodup := by
      simpa [List.append_assoc] using hn
    have key : SlotRel rx (m.send d) (P ++ [d]) := by
      have hdP : ∀ d' ∈ P, d'.comp ≠ d.comp := by
        intro d' hd' heq
        simp only [List.map_append, List.map_cons] at hn
        have := (List.nodup_append.1 hn).2.2 _ (List.mem_map.2 ⟨d', hd', rfl⟩) d.comp
          (List.mem_cons_self)
        exact this heq
      intro c
      obtain ⟨o, ho, hp⟩ := h c
      by_cases hc : d.comp = c
      · subst hc
        have hnone : o = none := by
          cases o with
          | none => rfl
          | some d0 =>
            have := (hp d0).2 rfl
            exact absurd this.2 (hdP d0 this.1)
        subst hnone
        refine ⟨some d, ho.send_self, fun d' => ?_⟩
        constructor
        · rintro ⟨hm, hc'⟩
          rcases List.mem_append.1 hm with hm | hm
          · exact absurd hc' (hdP d' hm)
          · simp at hm; rw [hm]
        · intro he; cases he; exact ⟨by simp, rfl⟩
      · refine ⟨o, ho.send_other hc, fun d' => ?_⟩
        rw [← hp d']
        constructor
        · rintro ⟨hm, hc'⟩
          rcases List.mem_append.1 hm with hm | hm
          · exact ⟨hm, hc'⟩
          · simp at hm; subst hm; exact absurd hc' hc
        · rintro ⟨hm, hc'⟩; exact ⟨List.mem_append_left _ hm, hc'⟩
    have := ih key hn'
    simpa [List.append_assoc] using this

/-- whatever component `c` can be delivered from `in c` is its pending `Input`; after the
delivery (the component reacts and produces its `Output`) the same dispatch is still in flight. -/
theorem SlotRel.deliverIn {rx : MsgReact Val} {m : MsgSt Val} {P : List (Dispatch Val)}
    (h : SlotRel rx m P) {c : Comp} {μ : BusMsg Val} (hμ : m.next (.inT c) = some μ) :
    ∃ t ins, μ = .disp (.input c t ins) ∧ Dispatch.input c t ins ∈ P ∧
      SlotRel rx (((m.advance (.inT c)).produce (.outT c)
        (.output c t (rx c t ins).1 (rx c t ins).2)).record (.react c t ins)) P := by
  obtain ⟨o, ho, hp⟩ := h c
  have hlt : m.cur (.inT c) < (m.log (.inT c)).length := by
    simp only [MsgSt.next] at hμ
    exact (List.getElem?_eq_some_iff.1 hμ).1
  cases ho with
  | idle a b => omega
  | outputWaiting t ins a b d e => omega
  | skipWaiting t a b d => omega
  | inputWaiting t ins a b d =>
    rw [b] at hμ
    cases hμ
    refine ⟨t, ins, rfl, ((hp _).2 rfl).1, fun c' => ?_⟩
    by_cases hc : c' = c
    · subst hc
      refine ⟨some (.input c' t ins), ?_, hp⟩
      refine .outputWaiting t ins ?_ ?_ ?_ ?_
      · simp [a]
      · simp only [MsgSt.log_record, MsgSt.log_produce, MsgSt.log_advance]
        simp only [MsgSt.next] at b
        rw [if_neg (by simp), List.getLast?_eq_getElem?, ← a]
        simpa using b
      · simp [d]
      · simp [MsgSt.next, d]
    · obtain ⟨o', ho', hp'⟩ := h c'
      refine ⟨o', ho'.congr ?_ ?_ ?_ ?_, hp'⟩
      · simp
      · simp [Ne.symm hc]
      · simp [Ne.symm hc]
      · simp

/-- whatever the scheduler can be delivered from `out c` is the answer to the pending dispatch
of `c`: same source, same time, the changes `answerOf` prescribes; after the delivery `c` has
nothing in flight and nothing else has moved. -/
theorem SlotRel.deliverOut {rx : MsgReact Val} {m : MsgSt Val} {P : List (Dispatch Val)}
    (h : SlotRel rx m P) (hn : (P.map Dispatch.comp).Nodup) {c : Comp} {μ : BusMsg Val}
    (hμ : m.next (.outT c) = some μ) :
    ∃ d i, P[i]? = some d ∧ d.comp = c ∧
      ((∃ ca, μ = .output c d.time (answerOf (rx.at d.time) d) ca) ∨
        (μ = .disp (.skip c d.time) ∧ answerOf (rx.at d.time) d = [])) ∧
      SlotRel rx (m.advance (.outT c)) (P.eraseIdx i) := by
  obtain ⟨o, ho, hp⟩ := h c
  have hlt : m.cur (.outT c) < (m.log (.outT c)).length := by
    simp only [MsgSt.next] at hμ
    exact (List.getElem?_eq_some_iff.1 hμ).1
  -- common part: once the pending dispatch `d` of `c` is known
  have fin : ∀ d, o = some d → m.cur (.inT c) = (m.log (.inT c)).length →
      m.cur (.outT c) + 1 = (m.log (.outT c)).length →
      ∃ i, P[i]? = some d ∧ d.comp = c ∧ SlotRel rx (m.advance (.outT c)) (P.eraseIdx i) := by
    intro d hd a b
    obtain ⟨hdP, hdc⟩ := (hp d).2 hd
    obtain ⟨i, hi⟩ := List.getElem?_of_mem hdP
    obtain ⟨p1, p2, hP, hE⟩ := getElem?_split hi
    refine ⟨i, hi, hdc, fun c' => ?_⟩
    rw [hE]
    rw [hP, List.map_append, List.map_cons] at hn
    have hn1 := List.nodup_append.1 hn
    have hd1 : ∀ d' ∈ p1, d'.comp ≠ d.comp := fun d' hd' =>
      hn1.2.2 _ (List.mem_map.2 ⟨d', hd', rfl⟩) _ List.mem_cons_self
    have hd2 : ∀ d' ∈ p2, d'.comp ≠ d.comp := fun d' hd' heq =>
      (List.nodup_cons.1 hn1.2.1).1 (heq ▸ List.mem_map.2 ⟨d', hd', rfl⟩)
    by_cases hc : c' = c
    · subst hc
      refine ⟨none, .idle (by simpa using a) (by simp [b]), fun d' => ?_⟩
      constructor
      · rintro ⟨hm, hc'⟩
        rcases List.mem_append.1 hm with hm | hm
        · exact absurd (hc'.trans hdc.symm) (hd1 d' hm)
        · exact absurd (hc'.trans hdc.symm) (hd2 d' hm)
      · intro he; cases he
    · obtain ⟨o', ho', hp'⟩ := h c'
      refine ⟨o', ho'.congr rfl rfl ?_ ?_, fun d' => ?_⟩
      · simp
      · simp [Ne.symm hc]
      · rw [← hp' d', hP]
        constructor
        · rintro ⟨hm, hc'⟩
          rcases List.mem_append.1 hm with hm | hm
          · exact ⟨by simp [hm], hc'⟩
          · exact ⟨by simp [hm], hc'⟩
        · rintro ⟨hm, hc'⟩
          simp only [List.mem_append, List.mem_cons] at hm
          rcases hm with hm | rfl | hm
          · exact ⟨by simp [hm], hc'⟩
          · exact absurd (hc'.symm.trans hdc) hc
          · exact ⟨by simp [hm], hc'⟩
  cases ho with
  | idle a b => omega
  | inputWaiting t ins a b d => omega
  | outputWaiting t ins a b d e =>
    rw [e] at hμ
    cases hμ
    obtain ⟨i, hi, hdc, hrel⟩ := fin _ rfl a d
    exact ⟨_, i, hi, hdc, Or.inl ⟨_, rfl⟩, hrel⟩
  | skipWaiting t a b d =>
    rw [d] at hμ
    cases hμ
    obtain ⟨i, hi, hdc, hrel⟩ := fin _ rfl a b
    exact ⟨_, i, hi, hdc, Or.inr ⟨rfl, rfl⟩, hrel⟩

end Tickit
