/-
Helper lemmas for C09, part 23 (external stimuli): the tick equations for a tick of the nested
master that starts from a state with pending interrupts.
-/
import TickitModel.Lemmas.FlattenStim
import TickitModel.Lemmas.FlattenGen

namespace Tickit

/-- a mock component is on no path from a device -/
theorem Static.Valid.onPath_parent {S : Static} (hS : S.Valid) {I : List Comp}
    (hI : ∀ x ∈ I, S.isDevice x) {c : Comp} (h : S.OnPath I c) : (alookup S.parent c).isSome = true := by
  obtain ⟨x, hx, ho⟩ := h
  rcases ho with rfl | ⟨hne, hb⟩
  · exact (hI _ hx).1
  · rcases hb.isSys hS.toWF with h' | h'
    · exact absurd h' hne
    · exact hS.sys_parent c h'

theorem Static.OnPath.up {S : Static} {I : List Comp} {c P : Comp} (hP : alookup S.parent c = some P)
    (hPne : P ≠ "") (hcne : c ≠ "") (h : S.OnPath I c) : S.OnPath I P := by
  obtain ⟨x, hx, ho⟩ := h
  refine ⟨x, hx, Or.inr ⟨hPne, ?_⟩⟩
  rcases ho with rfl | ⟨_, hb⟩
  · exact .direct hP
  · exact hb.lift hP hcne

/-- with pending interrupts, the next tick happens at their stamp -/
theorem CorrP.tick_time {S : Static} (hS : S.Valid) {orc : Oracle} {I : List Comp} {τ : SimTime}
    {st st' : SimSt} (hc : CorrP S orc I τ st st') {comps : List Comp} {t : SimTime}
    (hfw : firstWakeups (st.sched "").wake = (comps, some t)) (hI : I ≠ []) : t = τ := by
  obtain ⟨_, hmin, ⟨a, ha⟩, _⟩ := firstWakeups_spec _ (hc.wake_unique "") comps t hfw
  obtain ⟨x, hx⟩ := List.exists_mem_of_ne_nil I hI
  obtain ⟨c, hcp, hown⟩ := (Static.below_master hS.toWF (hc.int_dev x hx).1).top
  have h1 := hmin c τ (hc.wake_top c hcp ⟨x, hx, hown⟩)
  have h2 := hc.ge hI "" a t ha
  exact Int.le_antisymm h1 h2

/-- **the tick equations of a nested tick with pending interrupts**: the roots are the components
with a due callback and those on the way to an interrupted device -/
theorem tick_eqsP {S : Static} (hS : S.Valid) {orc : Oracle} {n : Nat} (hst : S.ResolveStable n)
    {fuel : Nat} {I : List Comp} {τ : SimTime} {σ₀ σ₀' : SimSt} (hc : CorrP S orc I τ σ₀ σ₀')
    {t : SimTime} {comps : List Comp}
    (hfw : firstWakeups (σ₀.sched "").wake = (comps, some t)) {σ' : SimSt} {out : List (Port × V)}
    (ht : tickLevel S orc fuel "" t comps [] (σ₀.delWake comps) = .ok (σ', out)) :
    ∃ new, TickEqs S orc n σ₀ t (fun c => S.DueAt σ₀ t c ∨ S.OnPath I c) (S.DueAt σ₀ t) σ' new ∧
      SchedOK S σ' := by
  obtain ⟨L, hL, _⟩ := tickLevel_ok_roots ht
  obtain ⟨hL1, hL2⟩ := Static.level_some hL
  have U := hc.wake_unique
  have K := hc.wake_keys
  obtain ⟨hcs, hmin, _, _⟩ := firstWakeups_spec _ (U "") comps t hfw
  have htτ : ∀ c, S.OnPath I c → t = τ := by
    rintro c ⟨x, hx, _⟩
    exact hc.tick_time hS hfw (List.ne_nil_of_mem hx)
  have hdue : ∀ s c, c ∈ nestedDue (σ₀.sched s).wake t ↔
      ∃ t', alookup (σ₀.sched s).wake c = some t' ∧ t' ≤ t :=
    fun s c => nestedDue_spec _ (U s) t c
  have hnone : ∀ p, S.resolve n "" pseudoExternal p = none := by
    intro p
    rw [← hst, Static.resolve_succ]
    simp
  have hdue_root : ∀ s c, c ∈ nestedDue (σ₀.sched s).wake t → S.DueAt σ₀ t c := by
    intro s c h
    obtain ⟨t', hl, hle⟩ := (hdue s c).1 h
    exact ⟨s, t', K s c (mem_akeys_of_alookup_eq_some hl), hl, hle⟩
  -- a due callback inside a system makes the system due
  have hdue_up : ∀ c P, alookup S.parent c = some P → P ≠ "" → S.DueAt σ₀ t c → S.DueAt σ₀ t P := by
    rintro c P hP hPne ⟨P', w, hP', hw, hle⟩
    rw [hP] at hP'; cases hP'
    obtain ⟨_, _, _, hsys⟩ := hS.parent_level c P hP
    have hsysP : S.isSys P = true := by
      rcases hsys with h' | h'
      · exact absurd h' hPne
      · exact h'
    obtain ⟨PP, hPP⟩ := Option.isSome_iff_exists.1 (hS.sys_parent P hsysP)
    by_cases hex : PP = "" ∧ S.OnPath I P
    · obtain ⟨rfl, hon⟩ := hex
      exact ⟨"", τ, hPP, hc.wake_top P hPP hon, by rw [htτ P hon]; exact Int.le_refl _⟩
    · have hm := hc.wake_sys P PP hsysP hPP hex
      cases hfw' : (firstWakeups (σ₀.sched P).wake).2 with
      | none =>
        rw [firstWakeups_none] at hfw'
        rw [hfw'] at hw
        simp at hw
      | some m =>
        obtain ⟨_, hle'⟩ := system_callback_is_min _ (U P) m hfw'
        rw [hfw'] at hm
        exact ⟨PP, m, hPP, hm, Int.le_trans (hle' c w hw) hle⟩
  have ctx : TickCtx S σ₀ t (fun c => S.DueAt σ₀ t c ∨ S.OnPath I c) :=
    { root_up := by
        rintro c P hP hPne (hd | hon)
        · exact Or.inl (hdue_up c P hP hPne hd)
        · exact Or.inr (hon.up hP hPne (hS.child_ne_master hP))
      roots_sys := by
        intro s Ls hsys hLs c hcm hne
        obtain ⟨hLs1, hLs2⟩ := Static.level_some hLs
        rw [hc.first_done s hsys]
        simp only [if_true, mem_sunion, List.mem_singleton, hne, or_false, List.not_mem_nil]
        rw [hc.ints s c hsys]
        have hps : (alookup S.parent c).isSome = true → alookup S.parent c = some s := by
          intro hsome
          rcases hS.members Ls hLs1 c hcm with h' | ⟨_, h' | h'⟩
          · rw [hLs2] at h'; exact h'
          · exact absurd h' hne
          · rw [h', hS.pseudo_fresh.2.1] at hsome; cases hsome
        constructor
        · rintro (⟨_, hon⟩ | hd)
          · exact Or.inr hon
          · exact Or.inl (hdue_root s c hd)
        · rintro (⟨P, w, hP, hw, hle⟩ | hon)
          · have := hps (by rw [hP]; rfl)
            rw [this] at hP; cases hP
            exact Or.inr ((hdue s c).2 ⟨w, hw, hle⟩)
          · exact Or.inl ⟨hps (hS.onPath_parent hc.int_dev hon), hon⟩ }
  have sctx : SchedCtx S σ₀ t (fun c => S.DueAt σ₀ t c ∨ S.OnPath I c) (S.DueAt σ₀ t) :=
    { due_sub := fun _ h => Or.inl h
      due_up := hdue_up
      due_root := fun s c _ h => hdue_root s c h
      root_due := by
        rintro s c _ ⟨P, w, hP, hw, hle⟩
        by_cases hPs : P = s
        · subst hPs
          exact Or.inl ((hdue P c).2 ⟨w, hw, hle⟩)
        · right
          cases hl : alookup (σ₀.sched s).wake c with
          | none => rfl
          | some x =>
            have := K s c (mem_akeys_of_alookup_eq_some hl)
            rw [hP] at this; cases this
            exact absurd rfl hPs
      keys₀ := K
      unique₀ := U
      min₀ := by
        intro s P hs hP hnd
        refine hc.wake_sys s P hs hP ?_
        rintro ⟨rfl, hon⟩
        exact hnd ⟨"", τ, hP, hc.wake_top s hP hon, by rw [htτ s hon]; exact Int.le_refl _⟩
      started₀ := by
        intro s hs hnr
        refine ⟨hc.first_done s hs, ?_⟩
        cases hi : (σ₀.sched s).interrupts with
        | nil => rfl
        | cons c _ =>
          exfalso
          obtain ⟨hp, hon⟩ := (hc.ints s c hs).1 (by rw [hi]; simp)
          have hsne : s ≠ "" := by
            intro h0
            have := hS.sys_parent s hs
            rw [h0, hS.master_fresh] at this
            cases this
          exact hnr (Or.inr (hon.up hp hsne (hS.child_ne_master hp))) }
  have hroots : ∀ c ∈ L.wiring.components, c ≠ pseudoExternal →
      (c ∈ comps ↔ (S.DueAt σ₀ t c ∨ S.OnPath I c)) := by
    intro c hcm _
    have hp0 : (alookup S.parent c).isSome = true → alookup S.parent c = some "" := by
      intro _
      rcases hS.members L hL1 c hcm with h' | ⟨h', _⟩
      · rw [hL2] at h'; exact h'
      · exact absurd hL2 h'
    constructor
    · intro hm
      have hl := (hcs c).1 hm
      exact Or.inl ⟨"", t, K "" c (mem_akeys_of_alookup_eq_some hl), hl, Int.le_refl _⟩
    · rintro (⟨P, w, hP, hw, hle⟩ | hon)
      · have := hp0 (by rw [hP]; rfl)
        rw [this] at hP; cases hP
        have hwt : w = t := Int.le_antisymm hle (hmin c w hw)
        rw [hwt] at hw
        exact (hcs c).2 hw
      · have hp := hp0 (hS.onPath_parent hc.int_dev hon)
        have := hc.wake_top c hp hon
        rw [← htτ c hon] at this
        exact (hcs c).2 this
  have hbelow_ne : ∀ s, S.Below "" s → s ≠ "" := by
    intro s hb
    cases hb with
    | direct h => exact hS.child_ne_master h
    | step h _ _ => exact hS.child_ne_master h
  have hown_wake : ∀ c, (S.DueAt σ₀ t c → alookup ((σ₀.delWake comps).sched "").wake c = none) ∧
      (¬ S.DueAt σ₀ t c → alookup ((σ₀.delWake comps).sched "").wake c = alookup (σ₀.sched "").wake c) := by
    intro c
    rw [SimSt.delWake_sched_master, delWakeups_lookup _ (U "")]
    constructor
    · rintro ⟨P, w, hP, hw, hle⟩
      by_cases hm : c ∈ comps
      · simp [hm]
      · simp only [hm, if_false]
        cases hl : alookup (σ₀.sched "").wake c with
        | none => rfl
        | some x =>
          exfalso
          have := K "" c (mem_akeys_of_alookup_eq_some hl)
          rw [hP] at this; cases this
          rw [hw] at hl; cases hl
          have hwt : w = t := Int.le_antisymm hle (hmin c w hw)
          rw [hwt] at hw
          exact hm ((hcs c).2 hw)
    · intro hnr
      have hm : c ∉ comps := by
        intro hm
        have hl := (hcs c).1 hm
        exact hnr ⟨"", t, K "" c (mem_akeys_of_alookup_eq_some hl), hl, Int.le_refl _⟩
      simp [hm]
  refine tick_eqs_of hS hst ctx sctx hL ?_ ?_ (fun L' h => σ₀.delWake_sched_ne comps h) ht
  · exact
      { hroots := hroots
        ext_root := fun h => absurd rfl h
        obs_eq := by simp [SimSt.delWake]
        fresh_obs := by simp
        fresh_dev := fun _ _ => ⟨rfl, rfl⟩
        fresh_sched := fun s hb => σ₀.delWake_sched_ne comps (hbelow_ne s hb)
        in_nodup := by simp
        in_ok := by
          intro p v
          constructor
          · intro h; simp at h
          · rintro ⟨a₀, p₀, hr, _⟩
            rw [hnone p] at hr; cases hr
        in_dec := by
          intro p a₀ p₀ hr
          rw [hnone p] at hr; cases hr
        d0_out := fun _ h => h.elim }
  · exact
      { hroots := hroots
        fresh_obs := by simp
        fresh_count := fun _ _ => rfl
        fresh_sched := fun s hb => σ₀.delWake_sched_ne comps (hbelow_ne s hb)
        own_wake := hown_wake
        own_unique := by
          rw [SimSt.delWake_sched_master]
          exact delWakeups_unique _ (U "") _
        own_keys := by
          intro c hk
          have hl := alookup_ne_none_iff.2 hk
          rw [SimSt.delWake_sched_master, delWakeups_lookup _ (U "")] at hl
          split at hl
          · exact absurd rfl hl
          · exact K "" c (alookup_ne_none_iff.1 hl) }

end Tickit
