/-
Any-order nested tick, part 8: whole runs.  `MasterRunAny` (the master loop of `Core/Sim.lean` with
every tick replaced by any `TickLevelAny` execution) contains the FIFO run `masterRun`, and is
deterministic up to state equivalence: two runs from equivalent master states handle the same
stimuli, do the same ticks (same times, same real times, root sets equal as sets) and end in
equivalent states.
-/
import TickitModel.Lemmas.AnyDet
import TickitModel.Lemmas.FlattenStimRun

namespace Tickit

/-! ### the FIFO run is one of the runs -/

theorem nextStim_eq_stimFirst (m : MasterSt) (s : Speed) (whenT : Option SimTime) (stims : List Stim) :
    nextStim m s whenT stims = stimFirst m s whenT stims := by
  cases stims <;> rfl

theorem stimStep_eq_afterStim (S : Static) (fuel : Nat) (s : Speed) (m : MasterSt) (st : Stim) :
    stimStep S fuel s m st = m.afterStim S fuel s st := rfl

theorem tickStart_eq_delWake (sim : SimSt) (comps : List Comp) : tickStart sim comps = sim.delWake comps :=
  rfl

/-- **the FIFO run is one of the any-order runs** -/
theorem masterRun_any (S : Static) (orc : Oracle) (fuel : Nat) (s : Speed) :
    ∀ (steps nTicks : Nat) (m : MasterSt) (stims : List Stim) (acc : List TickRec)
      (r : MasterSt × List TickRec),
      masterRun S orc fuel s steps nTicks m stims acc = .ok r →
        MasterRunAny S orc fuel s steps nTicks m stims acc r := by
  intro steps
  induction steps with
  | zero =>
    intro nTicks m stims acc r h
    rw [masterRun] at h
    cases h
    exact .outOfSteps
  | succ steps ih =>
    intro nTicks m stims acc r h
    cases nTicks with
    | zero =>
      have hz : masterRun S orc fuel s (steps + 1) 0 m stims acc = .ok (m, acc) := by
        rw [masterRun]
        intro h0; cases h0
      rw [hz] at h
      cases h
      exact .ticksDone
    | succ nTicks =>
      rw [masterRun_unfold] at h
      cases hsf : stimFirst m s (firstWakeups (m.sim.sched "").wake).2 stims with
      | some p =>
        obtain ⟨st, rest⟩ := p
        rw [hsf] at h
        simp only at h
        refine .stim (st := st) (rest := rest) (by rw [nextStim_eq_stimFirst]; exact hsf) ?_
        rw [stimStep_eq_afterStim]
        exact ih _ _ _ _ _ h
      | none =>
        rw [hsf] at h
        simp only at h
        cases hfw : firstWakeups (m.sim.sched "").wake with
        | mk comps whenT =>
          rw [hfw] at h
          cases whenT with
          | none =>
            simp only at h
            cases h
            exact .idle (by rw [nextStim_eq_stimFirst]; exact hsf) (by rw [hfw])
          | some w =>
            simp only at h
            split at h
            · cases h
            · rename_i sim2 out htl
              refine .tick (by rw [nextStim_eq_stimFirst]; exact hsf) hfw (sim2 := sim2) (out := out) ?_ ?_
              · rw [tickStart_eq_delWake]
                exact tickLevel_any _ _ _ _ _ _ _ htl
              · exact ih _ _ _ _ _ h

theorem masterInitial_any (S : Static) (orc : Oracle) (fuel : Nat) (t0 : SimTime) (now : Int)
    (r : MasterSt × TickRec) (h : masterInitial S orc fuel t0 now = .ok r) :
    MasterInitialAny S orc t0 now r := by
  unfold masterInitial at h
  split at h
  · cases h
  · rename_i L hL
    simp only [] at h
    split at h
    · cases h
    · rename_i st out hr
      cases h
      exact .mk hL (tickLevel_any _ _ _ _ _ _ _ hr)

/-! ### equivalence of master states and tick records -/

structure MasterSt.Equiv (a b : MasterSt) : Prop where
  sim : SimSt.Equiv a.sim b.sim
  tickerTime : a.tickerTime = b.tickerTime
  lastReal : a.lastReal = b.lastReal
  now : a.now = b.now

/-- the same tick: same simulation time, same real time, the same set of roots -/
def TickRec.Equiv (a b : TickRec) : Prop :=
  a.time = b.time ∧ a.real = b.real ∧ ∀ c, c ∈ a.roots ↔ c ∈ b.roots

theorem dueReal_equiv {a b : MasterSt} (h : a.Equiv b) (s : Speed) (w : SimTime) :
    dueReal a s w = dueReal b s w := by
  unfold dueReal
  rw [h.tickerTime, h.lastReal, h.now]

theorem nextStim_equiv {a b : MasterSt} (h : a.Equiv b) (s : Speed) (whenT : Option SimTime)
    (stims : List Stim) : nextStim a s whenT stims = nextStim b s whenT stims := by
  cases stims with
  | nil => rfl
  | cons st rest =>
    cases whenT with
    | none => rfl
    | some w => simp only [nextStim, Option.map_some, dueReal_equiv h]

/-- queueing an interrupt at one nested level keeps states equivalent -/
theorem simEquiv_queue {a b : SimSt} (h : SimSt.Equiv a b) (p c : Comp) :
    SimSt.Equiv
      { a with scheds := upsert a.scheds p { a.sched p with interrupts := sinsert (a.sched p).interrupts c } }
      { b with scheds := upsert b.scheds p { b.sched p with interrupts := sinsert (b.sched p).interrupts c } } := by
  intro x
  have hx := h x
  refine ⟨hx.ins, hx.outs, hx.cnt, ?_, hx.ob⟩
  show SchedSt.Equiv (SimSt.sched _ x) (SimSt.sched _ x)
  rw [SimSt.sched_upsert, SimSt.sched_upsert]
  by_cases hp : p = x
  · subst hp
    rw [if_pos rfl, if_pos rfl]
    have hs := hx.sch
    refine ⟨hs.wake, hs.ua, hs.ub, ?_, hs.first⟩
    intro y
    show y ∈ sinsert _ c ↔ y ∈ sinsert _ c
    rw [mem_sinsert, mem_sinsert]
    have := hs.ints y
    exact ⟨fun h => h.imp this.1 id, fun h => h.imp this.2 id⟩
  · rw [if_neg hp, if_neg hp]
    exact hx.sch

theorem raiseInterrupt_equiv (S : Static) :
    ∀ (fuel : Nat) (c : Comp) (a b : SimSt), SimSt.Equiv a b →
      (raiseInterrupt S fuel c a).2 = (raiseInterrupt S fuel c b).2 ∧
        SimSt.Equiv (raiseInterrupt S fuel c a).1 (raiseInterrupt S fuel c b).1 := by
  intro fuel
  induction fuel with
  | zero => intro c a b h; exact ⟨rfl, h⟩
  | succ fuel ih =>
    intro c a b h
    simp only [raiseInterrupt]
    cases hp : alookup S.parent c with
    | none => exact ⟨rfl, h⟩
    | some p =>
      simp only []
      by_cases hpe : (p == "") = true
      · simp only [hpe, if_true]
        refine ⟨?_, h⟩
        first | rfl | trivial
      · simp only [hpe, Bool.false_eq_true, if_false]
        exact ih p _ _ (simEquiv_queue h p c)

/-- handling a stimulus keeps master states equivalent -/
theorem stimStep_equiv (S : Static) (fuel : Nat) (s : Speed) {a b : MasterSt} (h : a.Equiv b)
    (st : Stim) : (stimStep S fuel s a st).Equiv (stimStep S fuel s b st) := by
  obtain ⟨htop, hsim⟩ := raiseInterrupt_equiv S fuel st.comp a.sim b.sim h.sim
  have h0 : ((raiseInterrupt S fuel st.comp a.sim).1.sched "").Equiv
      ((raiseInterrupt S fuel st.comp b.sim).1.sched "") := (hsim "").sch
  have hnow : a.stimNow st = b.stimNow st := by unfold MasterSt.stimNow; rw [h.now]
  have hstamp : a.stimStamp s st = b.stimStamp s st := by
    unfold MasterSt.stimStamp; rw [hnow, h.tickerTime, h.lastReal]
  rw [stimStep_eq_afterStim, stimStep_eq_afterStim]
  refine ⟨?_, h.tickerTime, h.lastReal, hnow⟩
  show SimSt.Equiv (SimSt.addMasterWake _ _ _) (SimSt.addMasterWake _ _ _)
  rw [hstamp, htop]
  have hwhen : (raiseInterrupt S fuel st.comp a.sim).1.stimWhen (raiseInterrupt S fuel st.comp b.sim).2
        (b.stimStamp s st) =
      (raiseInterrupt S fuel st.comp b.sim).1.stimWhen (raiseInterrupt S fuel st.comp b.sim).2
        (b.stimStamp s st) := by
    unfold SimSt.stimWhen
    rw [h0.wake _]
  rw [hwhen]
  intro x
  have hx := hsim x
  refine ⟨hx.ins, hx.outs, hx.cnt, ?_, hx.ob⟩
  show SchedSt.Equiv (SimSt.sched _ x) (SimSt.sched _ x)
  unfold SimSt.addMasterWake
  simp only []
  rw [SimSt.sched_upsert, SimSt.sched_upsert]
  by_cases hp : "" = x
  · subst hp
    rw [if_pos rfl, if_pos rfl]
    exact ⟨mapEq_addWakeup h0.wake _ _, addWakeup_unique _ h0.ua _ _, addWakeup_unique _ h0.ub _ _,
      h0.ints, h0.first⟩
  · rw [if_neg hp, if_neg hp]
    exact hx.sch

/-- removing the served wakeups keeps states equivalent -/
theorem tickStart_equiv {a b : SimSt} (h : SimSt.Equiv a b) {cs cs' : List Comp}
    (hcs : ∀ c, c ∈ cs ↔ c ∈ cs') : SimSt.Equiv (tickStart a cs) (tickStart b cs') := by
  intro x
  have hx := h x
  refine ⟨hx.ins, hx.outs, hx.cnt, ?_, hx.ob⟩
  show SchedSt.Equiv (SimSt.sched _ x) (SimSt.sched _ x)
  unfold tickStart
  simp only []
  rw [SimSt.sched_upsert, SimSt.sched_upsert]
  by_cases hp : "" = x
  · subst hp
    rw [if_pos rfl, if_pos rfl]
    have h0 := hx.sch
    exact ⟨mapEq_delWakeups h0.ua h0.ub h0.wake hcs, delWakeups_unique' _ h0.ua _,
      delWakeups_unique' _ h0.ub _, h0.ints, h0.first⟩
  · rw [if_neg hp, if_neg hp]
    exact hx.sch

/-- the first wakeups of equivalent scheduler states: the same time, the same set of components -/
theorem firstWakeups_equiv {w1 w2 : Wakeups} (h1 : UniqueKeys w1) (h2 : UniqueKeys w2)
    (h : MapEq w1 w2) {cs1 cs2 : List Comp} {m1 m2 : SimTime}
    (hf1 : firstWakeups w1 = (cs1, some m1)) (hf2 : firstWakeups w2 = (cs2, some m2)) :
    m1 = m2 ∧ ∀ c, c ∈ cs1 ↔ c ∈ cs2 := by
  have hsnd := firstWakeups_snd_congr h1 h2 h
  rw [hf1, hf2] at hsnd
  have hm : m1 = m2 := Option.some.inj hsnd
  subst hm
  obtain ⟨hc1, _, _, _⟩ := firstWakeups_spec' w1 h1 cs1 m1 hf1
  obtain ⟨hc2, _, _, _⟩ := firstWakeups_spec' w2 h2 cs2 m1 hf2
  exact ⟨rfl, fun c => by rw [hc1, hc2, h c]⟩

/-- the tick-list relation -/
inductive TicksEquiv : List TickRec → List TickRec → Prop
  | nil : TicksEquiv [] []
  | cons {a b : TickRec} {l l' : List TickRec} : a.Equiv b → TicksEquiv l l' → TicksEquiv (a :: l) (b :: l')

theorem TicksEquiv.append {l1 l1' l2 l2' : List TickRec} (h1 : TicksEquiv l1 l1')
    (h2 : TicksEquiv l2 l2') : TicksEquiv (l1 ++ l2) (l1' ++ l2') := by
  induction h1 with
  | nil => exact h2
  | cons h _ ih => exact .cons h ih

theorem TicksEquiv.refl (l : List TickRec) : TicksEquiv l l := by
  induction l with
  | nil => exact .nil
  | cons a l ih => exact .cons ⟨rfl, rfl, fun _ => Iff.rfl⟩ ih

theorem TicksEquiv.times {l l' : List TickRec} (h : TicksEquiv l l') :
    l.map (·.time) = l'.map (·.time) ∧ l.map (·.real) = l'.map (·.real) := by
  induction h with
  | nil => exact ⟨rfl, rfl⟩
  | cons h _ ih => simp [h.1, h.2.1, ih.1, ih.2]

/-! ### determinism of runs -/

/-- **whole runs are determined up to equivalence**: the same stimuli, ticks and end state whatever
the answer orders inside the ticks at whatever depth. -/
theorem masterRunAny_det {S : Static} (hS : S.Valid) {orc : Oracle} {fuel : Nat} {s : Speed}
    {steps nTicks : Nat} {m : MasterSt} {stims : List Stim} {acc : List TickRec}
    {r : MasterSt × List TickRec} (h1 : MasterRunAny S orc fuel s steps nTicks m stims acc r) :
    ∀ {m' : MasterSt} {acc' : List TickRec} {r' : MasterSt × List TickRec}, m.Equiv m' →
      TicksEquiv acc acc' → MasterRunAny S orc fuel s steps nTicks m' stims acc' r' →
      r.1.Equiv r'.1 ∧ TicksEquiv r.2 r'.2 := by
  induction h1 with
  | outOfSteps =>
    intro m' acc' r' hm hacc h2
    cases h2
    exact ⟨hm, hacc⟩
  | ticksDone =>
    intro m' acc' r' hm hacc h2
    cases h2
    exact ⟨hm, hacc⟩
  | @stim steps nTicks m stims acc st rest r hs _ ih =>
    intro m' acc' r' hm hacc h2
    have h0 : (m.sim.sched "").Equiv (m'.sim.sched "") := (hm.sim "").sch
    have hw := firstWakeups_snd_congr h0.ua h0.ub h0.wake
    have hs' : nextStim m' s (firstWakeups (m'.sim.sched "").wake).2 stims = some (st, rest) := by
      rw [← nextStim_equiv hm, ← hw]; exact hs
    cases h2 with
    | stim hs2 hr2 =>
      rw [hs'] at hs2
      cases hs2
      exact ih (stimStep_equiv S fuel s hm st) hacc hr2
    | tick hs2 _ _ _ => rw [hs'] at hs2; cases hs2
    | idle hs2 _ => rw [hs'] at hs2; cases hs2
  | @tick steps nTicks m stims acc comps w sim2 out r hs hfw htl _ ih =>
    intro m' acc' r' hm hacc h2
    have h0 : (m.sim.sched "").Equiv (m'.sim.sched "") := (hm.sim "").sch
    have hw := firstWakeups_snd_congr h0.ua h0.ub h0.wake
    have hs' : nextStim m' s (firstWakeups (m'.sim.sched "").wake).2 stims = none := by
      rw [← nextStim_equiv hm, ← hw]; exact hs
    cases h2 with
    | stim hs2 _ => rw [hs'] at hs2; cases hs2
    | idle _ hn2 =>
      rw [← hw, hfw] at hn2
      cases hn2
    | @tick _ _ _ _ _ comps' w' sim2' out' _ _ hfw2 htl2 hr2 =>
      obtain ⟨hww, hcs⟩ := firstWakeups_equiv h0.ua h0.ub h0.wake hfw hfw2
      subst hww
      have hdet := tickLevelAny_det hS htl comps' [] _ _ hcs (mapEq_refl _) (by simp) (by simp)
        (fun x _ => tickStart_equiv hm.sim hcs x) htl2
      have hsim : SimSt.Equiv sim2 sim2' := by
        intro x
        by_cases hx : AtOrBelow S "" x
        · exact hdet.1 x hx
        · have hne : x ≠ "" := fun h => hx (Or.inl h)
          have hnb : ¬ S.Below "" x := fun h => hx (Or.inr h)
          have f1 := (tickLevelAny_post1 hS htl).frame x hne hnb
          have f2 := (tickLevelAny_post1 hS htl2).frame x hne hnb
          simp only at f1 f2
          rw [f1, f2]
          exact tickStart_equiv hm.sim hcs x
      have hdr := dueReal_equiv hm s w
      refine ih (m' := { sim := sim2', tickerTime := w, lastReal := dueReal m' s w, now := dueReal m' s w })
        ⟨hsim, rfl, hdr, hdr⟩ (hacc.append (.cons (a := ⟨w, dueReal m s w, comps⟩) (b := ⟨w, dueReal m' s w, comps'⟩)
          ⟨rfl, hdr, hcs⟩ .nil)) hr2
  | @idle steps nTicks m stims acc hs hn =>
    intro m' acc' r' hm hacc h2
    have h0 : (m.sim.sched "").Equiv (m'.sim.sched "") := (hm.sim "").sch
    have hw := firstWakeups_snd_congr h0.ua h0.ub h0.wake
    have hs' : nextStim m' s (firstWakeups (m'.sim.sched "").wake).2 stims = none := by
      rw [← nextStim_equiv hm, ← hw]; exact hs
    cases h2 with
    | stim hs2 _ => rw [hs'] at hs2; cases hs2
    | tick _ hfw2 _ _ =>
      rw [hw, hfw2] at hn
      cases hn
    | idle _ _ => exact ⟨hm, hacc⟩

/-- the initial tick: all executions end equivalently, with the same tick record -/
theorem masterInitialAny_det {S : Static} (hS : S.Valid) {orc : Oracle} {t0 : SimTime} {now : Int}
    {r r' : MasterSt × TickRec} (h1 : MasterInitialAny S orc t0 now r)
    (h2 : MasterInitialAny S orc t0 now r') : r.1.Equiv r'.1 ∧ r.2 = r'.2 := by
  cases h1 with
  | @mk L st out hL htl =>
    cases h2 with
    | @mk L' st' out' hL' htl' =>
      rw [hL] at hL'
      cases hL'
      have h0 : SimSt.Equiv ({} : SimSt) {} :=
        fun x => SLoc.Equiv.refl (by simp [SimSt.loc, SimSt.sched, agetD, UniqueKeys])
      have hdet := tickLevelAny_det hS htl _ [] _ _ (fun _ => Iff.rfl) (mapEq_refl _) (by simp)
        (by simp) (fun x _ => h0 x) htl'
      refine ⟨⟨?_, rfl, rfl, rfl⟩, rfl⟩
      intro x
      by_cases hx : AtOrBelow S "" x
      · exact hdet.1 x hx
      · have hne : x ≠ "" := fun h => hx (Or.inl h)
        have hnb : ¬ S.Below "" x := fun h => hx (Or.inr h)
        have f1 := (tickLevelAny_post1 hS htl).frame x hne hnb
        have f2 := (tickLevelAny_post1 hS htl').frame x hne hnb
        simp only at f1 f2
        show SLoc.Equiv (st.loc x) (st'.loc x)
        rw [f1, f2]
        exact h0 x

end Tickit
