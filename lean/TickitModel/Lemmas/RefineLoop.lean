/-
Refinement, part 1: one tick of the whole-simulation model on a FLAT configuration (one level
`""`, no system components) is a complete run `TickRun` of the closed tick system of
`Core/Flat.lean`, in lockstep: `tickLoop` answers the pending dispatches first-in first-out, i.e.
it always takes `TickSys.step … 0`.

Devices: the whole-simulation model reads the `k`-th recorded response of a device, where `k` is
the number of its updates so far.  A device is dispatched at most once per tick, so during a tick
the count it sees is the PRE-tick count: `devOf orc sim0` (pre-tick state `sim0`) is the device
function of the tick.
-/
import TickitModel.Core.Flat
import TickitModel.Lemmas.SimLoop

namespace Tickit.Refine

open Tickit

/-- the device function of the tick that starts in `st`: the next recorded response -/
def devOf (orc : Oracle) (st : SimSt) : DevFn V := fun c _ _ =>
  match (agetD orc c [])[agetD st.count c 0]? with
  | some r => ⟨r.outs, r.callAt⟩
  | none => ⟨[], none⟩

/-- the simulation relation: the flat state is the whole-simulation state (the ghost log
`reported` has no counterpart and is unconstrained) -/
structure R (sim : SimSt) (fl : FlatSt V) : Prop where
  comps : fl.comps = sim.devs
  wake : fl.wake = (sim.sched "").wake
  obs : fl.obs = sim.obs.map (fun o => (o.comp, o.time, o.inputs))

/-- component `c` has not been updated since `sim0` -/
def Untouched (sim0 sim : SimSt) (c : Comp) : Prop :=
  agetD sim.devs c {} = agetD sim0.devs c {} ∧ agetD sim.count c 0 = agetD sim0.count c 0

theorem R.empty : R {} {} := ⟨rfl, rfl, rfl⟩

theorem simWake_devs (st : SimSt) (lvl c : Comp) (callAt : Option SimTime) :
    (simWake st lvl c callAt).devs = st.devs := rfl

theorem simWake_count (st : SimSt) (lvl c : Comp) (callAt : Option SimTime) :
    (simWake st lvl c callAt).count = st.count := rfl

theorem simWake_obs (st : SimSt) (lvl c : Comp) (callAt : Option SimTime) :
    (simWake st lvl c callAt).obs = st.obs := rfl

theorem simWake_wake (st : SimSt) (lvl c : Comp) (callAt : Option SimTime) :
    ((simWake st lvl c callAt).sched lvl).wake =
      match callAt with
      | some w => addWakeup (st.sched lvl).wake c w
      | none => (st.sched lvl).wake := by
  unfold simWake
  simp only []
  rw [SimSt.sched_upsert, if_pos rfl]
  cases callAt <;> rfl

/-- the answer of the whole-simulation model to one dispatch at the (only) level of a flat
configuration is the reaction of the flat system, and its effect on the state is `absorb`. -/
theorem simAnswer_flat {S : Static} (hsys : S.systems = []) {orc : Oracle} {fuel : Nat} {L : Level}
    (hname : L.name = "") {inCh : List (Port × V)} {sim0 sim : SimSt} {fl0 fl : FlatSt V}
    {out0 : List (Port × V)} {d : Dispatch V} (t : SimTime)
    (hR0 : fl0.comps = sim0.devs) (hR : R sim fl) (hun : Untouched sim0 sim d.comp)
    {st' : SimSt} {outCh' changes : List (Port × V)} {callAt : Option SimTime}
    (h : simAnswer S orc fuel L inCh sim out0 d = .ok (st', outCh', changes, callAt)) :
    changes = answerOf (fl0.react (devOf orc sim0) t) d ∧
      R (simWake st' "" d.comp callAt) (fl.absorb (devOf orc sim0) d) ∧
      ∀ c, c ≠ d.comp → agetD st'.devs c {} = agetD sim.devs c {} ∧
        agetD st'.count c 0 = agetD sim.count c 0 := by
  cases d with
  | skip c t' =>
    simp only [simAnswer, Except.ok.injEq, Prod.mk.injEq] at h
    obtain ⟨rfl, _, rfl, rfl⟩ := h
    refine ⟨rfl, ⟨hR.comps, ?_, hR.obs⟩, fun c _ => ⟨rfl, rfl⟩⟩
    show fl.wake = _
    rw [simWake_wake]
    exact hR.wake
  | input c t' ins =>
    have hs : S.isSys c = false := by simp [Static.isSys, hsys]
    simp only [simAnswer, hname, bne_self_eq_false, Bool.false_and, Bool.false_eq_true, if_false,
      hs] at h
    simp only [Dispatch.comp] at hun ⊢
    obtain ⟨hun1, hun2⟩ := hun
    split at h
    · cases h
    · rename_i resp hresp
      split at h
      · cases h
      · simp only [Except.ok.injEq, Prod.mk.injEq] at h
        obtain ⟨rfl, _, rfl, rfl⟩ := h
        have hdev : ∀ t'' given, devOf orc sim0 c t'' given = ⟨resp.outs, resp.callAt⟩ := by
          intro t'' given
          simp only [devOf]
          rw [← hun2, hresp]
        have hcomp : fl.comp c = agetD sim.devs c {} := by
          simp only [FlatSt.comp, hR.comps]
        have hcomp0 : fl0.comp c = agetD sim.devs c {} := by
          simp only [FlatSt.comp, hR0, hun1]
        refine ⟨?_, ⟨?_, ?_, ?_⟩, ?_⟩
        · simp only [answerOf, FlatSt.react, hdev, hcomp0, DevComp.onTick]
        · simp only [FlatSt.absorb, hdev, hcomp, simWake_devs, DevComp.onTick, hR.comps]
        · show (fl.absorb (devOf orc sim0) (.input c t' ins)).wake = _
          rw [simWake_wake]
          simp only [FlatSt.absorb, hdev, hR.wake]
          cases resp.callAt <;> rfl
        · simp only [FlatSt.absorb, hdev, hcomp, simWake_obs, hR.obs, List.map_append,
            List.map_cons, List.map_nil]
        · intro c' hc'
          simp only [sim_agetD_upsert, if_neg (Ne.symm hc')]
          exact ⟨trivial, trivial⟩

/-- folding `absorb` over a list of dispatches -/
def absorbAll (dev : DevFn V) (fl : FlatSt V) (ds : List (Dispatch V)) : FlatSt V :=
  ds.foldl (fun st d => st.absorb dev d) fl

theorem afterTick_append (fl : FlatSt V) (dev : DevFn V) (tr1 tr2 : List (Ev V)) :
    fl.afterTick dev (tr1 ++ tr2) = (fl.afterTick dev tr1).afterTick dev tr2 := by
  simp only [FlatSt.afterTick, List.foldl_append]

theorem afterTick_dispatches (fl : FlatSt V) (dev : DevFn V) (ds : List (Dispatch V)) :
    fl.afterTick dev (ds.map Ev.dispatch) = absorbAll dev fl ds := by
  simp only [FlatSt.afterTick, absorbAll, List.foldl_map]

theorem afterTick_answer (fl : FlatSt V) (dev : DevFn V) (c : Comp) (ch : List (Port × V)) :
    fl.afterTick dev [Ev.answer c ch] = fl := rfl

theorem absorbAll_append (dev : DevFn V) (fl : FlatSt V) (ds1 ds2 : List (Dispatch V)) :
    absorbAll dev fl (ds1 ++ ds2) = absorbAll dev (absorbAll dev fl ds1) ds2 := by
  simp only [absorbAll, List.foldl_append]

/-- **the loop in lockstep** with the closed tick system: FIFO answering is the run that always
answers pending dispatch number 0. -/
theorem tickLoop_flat {S : Static} (hsys : S.systems = []) {orc : Oracle} {fuel : Nat} {L : Level}
    (hname : L.name = "") {inCh : List (Port × V)} {sim0 : SimSt} {fl0 : FlatSt V}
    (hR0 : fl0.comps = sim0.devs) {t : SimTime} {roots : List Comp}
    {st' : SimSt} {out : List (Port × V)} :
    ∀ (steps : Nat) (ls : LoopSt) (s : TickSys V) (fl : FlatSt V),
      s.Reachable L.wiring (fl0.react (devOf orc sim0) t) t roots →
      s.tk = ls.tk → s.pending = ls.pending → R ls.st fl →
      fl0.afterTick (devOf orc sim0) s.trace = absorbAll (devOf orc sim0) fl ls.pending →
      (∀ c, alookup ls.tk.toUpdate c ≠ none → Untouched sim0 ls.st c) →
      tickLoop S orc fuel steps L inCh ls = .ok (st', out) →
      ∃ s' : TickSys V, s'.Reachable L.wiring (fl0.react (devOf orc sim0) t) t roots ∧
        s'.tk.toUpdate = [] ∧ R st' (fl0.afterTick (devOf orc sim0) s'.trace) := by
  intro steps
  induction steps with
  | zero =>
    intro ls s fl _ _ _ _ _ _ h
    rw [tickLoop_zero] at h; cases h
  | succ steps ih =>
    intro ls s fl hreach htk hpend hR hfold hun h
    cases hp : ls.pending with
    | nil =>
      rw [tickLoop_nil _ _ _ _ _ _ _ hp] at h
      split at h
      · rename_i he
        simp only [Except.ok.injEq, Prod.mk.injEq] at h
        obtain ⟨rfl, _⟩ := h
        refine ⟨s, hreach, by rw [htk]; simpa using he, ?_⟩
        rw [hfold, hp]
        exact hR
      · cases h
    | cons d rest =>
      rw [tickLoop_cons _ _ _ _ _ _ _ _ _ hp] at h
      split at h
      · cases h
      · rename_i st1 outCh1 changes callAt ha
        split at h
        · cases h
        · rename_i tk' ds hprop
          have inv := hreach.inv.pre
          rw [htk, hpend] at inv
          have hdm : d ∈ ls.pending := by rw [hp]; simp
          have h0 : alookup ls.tk.toUpdate d.comp = some true := (inv.pend_flag _).1 ⟨d, hdm, rfl⟩
          have hund : Untouched sim0 ls.st d.comp := hun _ (by rw [h0]; simp)
          obtain ⟨hch, hR', hframe⟩ := simAnswer_flat hsys hname t hR0 hR hund ha
          obtain ⟨hne, htime, hsl, htu, _, _⟩ := sim_propagate_eq_ok hprop
          have hnone : ∀ x, alookup tk'.toUpdate x = none ↔
              x = d.comp ∨ alookup ls.tk.toUpdate x = none := by
            intro x
            rw [htu, alookup_markDispatched_eq_none, alookup_aerase inv.nodup]
            by_cases hx : x = d.comp <;> simp [hx]
          -- the corresponding step of the closed system
          let s' : TickSys V := ⟨tk', rest ++ ds,
            s.trace ++ [Ev.answer d.comp changes] ++ ds.map Ev.dispatch⟩
          have hstep : s.step L.wiring (fl0.react (devOf orc sim0) t) 0 = some (.ok s') := by
            have hd0 : s.pending[0]? = some d := by rw [hpend, hp]; rfl
            have he : s.pending.eraseIdx 0 = rest := by rw [hpend, hp]; rfl
            simp only [TickSys.step, hd0, ← hch, htk, hprop, Except.map, he, s']
          refine ih ⟨tk', rest ++ ds, outCh1, simWake st1 L.name d.comp callAt⟩ s'
            (fl.absorb (devOf orc sim0) d) (.step hreach hstep) rfl rfl ?_ ?_ ?_ h
          · rw [hname]; exact hR'
          · show fl0.afterTick (devOf orc sim0)
              (s.trace ++ [Ev.answer d.comp changes] ++ ds.map Ev.dispatch) = _
            rw [afterTick_append, afterTick_append, afterTick_answer, afterTick_dispatches, hfold,
              hp, absorbAll_append]
            rfl
          · intro c hc
            have hc' : ¬ (c = d.comp ∨ alookup ls.tk.toUpdate c = none) :=
              fun h' => hc ((hnone c).2 h')
            have hcd : c ≠ d.comp := fun h' => hc' (Or.inl h')
            have hcu : alookup ls.tk.toUpdate c ≠ none := fun h' => hc' (Or.inr h')
            obtain ⟨u1, u2⟩ := hun c hcu
            obtain ⟨f1, f2⟩ := hframe c hcd
            exact ⟨by rw [simWake_devs, f1, u1], by rw [simWake_count, f2, u2]⟩

/-- **one tick of a flat configuration is a `TickRun`** of the flat system, for the device function
given by the pre-tick state. -/
theorem tickLevel_flat {S : Static} (hsys : S.systems = []) {orc : Oracle} {fuel : Nat} {L : Level}
    (hL : S.level "" = some L) {inCh : List (Port × V)} {sim0 sim' : SimSt} {fl0 : FlatSt V}
    (hR : R sim0 fl0) {t : SimTime} {roots : List Comp} {out : List (Port × V)}
    (h : tickLevel S orc fuel "" t roots inCh sim0 = .ok (sim', out)) :
    ∃ fl', TickRun L.wiring (devOf orc sim0) fl0 t roots fl' ∧ R sim' fl' := by
  cases fuel with
  | zero => rw [tickLevel] at h; cases h
  | succ fuel =>
    rw [tickLevel.eq_2, hL] at h
    simp only [] at h
    split at h
    · cases h
    · rename_i tk ds hcall
      have hname : L.name = "" := (Static.level_some hL).2
      let s : TickSys V := ⟨tk, ds, ds.map Ev.dispatch⟩
      have hinit : TickSys.init L.wiring t roots = .ok s := by
        simp only [TickSys.init, hcall, Except.map, s]
      obtain ⟨s', hreach, hfin, hR'⟩ := tickLoop_flat hsys hname hR.comps _ ⟨tk, ds, [], sim0⟩ s fl0
        (.init hinit) rfl rfl hR (afterTick_dispatches _ _ _) (fun c _ => ⟨rfl, rfl⟩) h
      exact ⟨_, ⟨s', hreach, hfin, rfl⟩, hR'⟩

end Tickit.Refine
