/-
Helper lemmas for C10 over many ticks (`Props/C10Run.lean`): a part of a flat simulation that
no wire connects to the rest observes, in every run of the whole, exactly what it observes in
a run of the part alone.

The invariant carried between a state `st` of the whole and a state `sa` of the part is
  * `(loc st c).Equiv (loc sa c)` for every `c` of the part (component state, pending wakeup,
    observation sequence — `Tickit.Det.Loc`), and
  * `alookup sa.wake c = none` for every `c` outside the part.
-/
import TickitModel.Lemmas.PartLemmas
import TickitModel.Props.C01Live
import TickitModel.Props.C06

namespace Tickit.PartRun

open Tickit Tickit.Det

set_option linter.unusedSectionVars false

variable {Val : Type}

/-! ### one tick: reactions outside the extent do not matter -/

/-- a run of a tick is a run for every reaction function that agrees on the extent. -/
theorem reachable_congr {w : Wiring} {react react' : React Val} {t : SimTime} {roots : List Comp}
    (h : ∀ c ∈ extent w roots, ∀ ins, react c ins = react' c ins) {s : TickSys Val}
    (hs : s.Reachable w react t roots) : s.Reachable w react' t roots := by
  induction hs with
  | init h0 => exact .init h0
  | @step s s' i hprev hstep ih =>
    refine .step (i := i) ih ?_
    have heq : s.step w react' i = s.step w react i := by
      unfold TickSys.step
      cases hd : s.pending[i]? with
      | none => rfl
      | some d =>
        have hmem : d ∈ s.pending := List.mem_of_getElem? hd
        have hext := (hprev.inv.pre.disp_ext d (hprev.inv.pre.pend_trace d hmem)).1
        have : answerOf react' d = answerOf react d := by
          cases d with
          | input c t' ins => exact (h c hext ins).symm
          | skip c t' => rfl
        simp only [this]
    rw [heq]
    exact hstep

/-! ### extents stay on their side of the border -/

/-- roots outside `A` never drag in anything inside `A`. -/
theorem extent_outside {w wa : Wiring} {A : Comp → Prop} (hp : IsPart w wa A) (hwf : w.WF)
    {roots : List Comp} (hroots : ∀ r ∈ roots, ¬ A r) {c : Comp} (hc : c ∈ extent w roots) :
    ¬ A c := by
  obtain ⟨r, hr, hcr⟩ := (mem_extent_iff w roots c).1 hc
  exact dependants_inside (A := fun x => ¬ A x) hwf
    (fun a p b q h ha hb => ha ((hp.closed a p b q h).2 hb)) (hroots r hr) c hcr

/-- in the part alone, roots inside `A` only drag in components of `A`. -/
theorem extent_part_inside {w wa : Wiring} {A : Comp → Prop} (hp : IsPart w wa A) (hwfa : wa.WF)
    {rootsA : List Comp} (hroots : ∀ r ∈ rootsA, A r) {c : Comp} (hc : c ∈ extent wa rootsA) :
    A c := by
  obtain ⟨r, hr, hcr⟩ := (mem_extent_iff wa rootsA c).1 hc
  exact dependants_inside hwfa (fun a p b q h _ => (hp.inside a p b q h).2) (hroots r hr) c hcr

variable [DecidableEq Val]

/-! ### the reaction of one component depends on its own state only -/

theorem react_loc {a b : FlatSt Val} {dev : DevFn Val} (hdev : DevExt dev) (t : SimTime) {c : Comp}
    (h : (loc a c).Equiv (loc b c)) (ins : List (Port × Val)) :
    a.react dev t c ins = b.react dev t c ins := by
  have h1 : MapEq (a.comp c).deviceInputs (b.comp c).deviceInputs := h.ins
  have h2 : MapEq (a.comp c).lastOutputs (b.comp c).lastOutputs := h.outs
  simp only [FlatSt.react, DevComp.merge]
  rw [hdev c t _ _ (mapEq_aupdate_left h1 ins), outChanges_congr h2]

/-- serving wakeups of other components does not touch `c`. -/
theorem loc_delWakeups (st : FlatSt Val) (hu : UniqueKeys st.wake) {cs : List Comp} {c : Comp}
    (hc : c ∉ cs) : loc { st with wake := delWakeups st.wake cs } c = loc st c := by
  simp only [loc, Loc.mk.injEq]
  refine ⟨rfl, ?_, rfl⟩
  rw [delWakeups_lookup _ hu, if_neg hc]

/-! ### one tick of the whole against one tick of the part -/

/-- **a tick with a root in the part.**  From states that agree on the part, a complete tick of
the whole is matched by a complete tick of the part alone (roots = the roots that lie in `A`),
and the states agree on the part again. -/
theorem tick_step {w wa : Wiring} {A : Comp → Prop} (hp : IsPart w wa A)
    (hw : RouterOK w) (hwa : RouterOK wa) (hwfa : wa.WF) (hacyca : wa.Acyclic)
    (hupsA : ∀ c, A c → (wa.ups c).isSome)
    {dev : DevFn Val} (hdev : DevExt dev) {a b a' : FlatSt Val} {t : SimTime}
    {roots rootsA : List Comp} (hroots : ∀ r, r ∈ rootsA ↔ r ∈ roots ∧ A r)
    (hab : ∀ c, A c → (loc a c).Equiv (loc b c))
    (hnb : ∀ c, ¬ A c → alookup b.wake c = none)
    (ha : TickRun w dev a t roots a') :
    ∃ b', TickRun wa dev b t rootsA b' ∧ (∀ c, A c → (loc a' c).Equiv (loc b' c)) ∧
      (∀ c, ¬ A c → alookup b'.wake c = none) := by
  have hin : ∀ c ∈ extent wa rootsA, A c := fun c hc =>
    extent_part_inside hp hwfa (fun r hr => ((hroots r).1 hr).2) hc
  obtain ⟨b', s2, h2, hf2, rfl⟩ :=
    tickRun_exists wa hacyca dev b t rootsA (fun c hc => hupsA c (hin c hc))
  obtain ⟨s1, h1, hf1, rfl⟩ := ha
  refine ⟨_, ⟨s2, h2, hf2, rfl⟩, fun c hc => ?_, fun c hc => ?_⟩
  · have h2' : s2.Reachable wa (a.react dev t) t rootsA :=
      reachable_congr (fun x hx ins => (react_loc hdev t (hab x (hin x hx)) ins).symm) h2
    have hsame := hp.tick_same hw hwa hacyca (react_wf a dev t) (react_extN a hdev t) hroots
      h1 h2' hf1 hf2 c hc
    rw [loc_afterTick dev (fun c => (h1.inv.pre.count c).1),
      loc_afterTick dev (fun c => (h2.inv.pre.count c).1)]
    exact (hab c hc).absorb hdev c hsame
      (fun d hd => (reachable_insInv hw h1).2 d (dispatchOf_eq_some hd).1)
      (fun d hd => (reachable_insInv hwa h2).2 d (dispatchOf_eq_some hd).1)
  · have hnone : dispatchOf s2.trace c = none :=
      (dispatchOf_eq_none_iff_of_complete hwa (react_wf b dev t) h2 hf2 c).2
        (fun h => hc (hin c h))
    have := loc_afterTick dev (fun c => (h2.inv.pre.count c).1) b c
    rw [hnone] at this
    have hwk := congrArg Loc.wk this
    simp only [loc, Loc.absorb] at hwk
    rw [hwk]
    exact hnb c hc

/-- **a tick without a root in the part** leaves the part untouched. -/
theorem tick_stutter {w wa : Wiring} {A : Comp → Prop} (hp : IsPart w wa A)
    (hw : RouterOK w) (hwf : w.WF) {dev : DevFn Val} {a a' : FlatSt Val} {t : SimTime}
    {roots : List Comp} (hroots : ∀ r ∈ roots, ¬ A r) (ha : TickRun w dev a t roots a')
    {c : Comp} (hc : A c) : loc a' c = loc a c := by
  obtain ⟨s1, h1, hf1, rfl⟩ := ha
  have hnone : dispatchOf s1.trace c = none :=
    (dispatchOf_eq_none_iff_of_complete hw (react_wf a dev t) h1 hf1 c).2
      (fun h => extent_outside hp hwf hroots h hc)
  rw [loc_afterTick dev (fun c => (h1.inv.pre.count c).1), hnone]
  rfl

/-! ### many ticks -/

/-- a flat run of `m` callback ticks only looks at the device behaviours `0 … m`. -/
theorem flatRun_congr {w : Wiring} {devs devs' : DevSeq Val} {t0 : SimTime} {m : Nat}
    {st : FlatSt Val} {times : List SimTime} (h : FlatRun w devs t0 m st times) :
    (∀ j, j ≤ m → devs j = devs' j) → FlatRun w devs' t0 m st times := by
  induction h with
  | initial hr => intro he; exact .initial (he 0 (Nat.le_refl _) ▸ hr)
  | @tick n st st' times cs mt hprev hf hr ih =>
    intro he
    exact .tick (ih (fun j hj => he j (Nat.le_succ_of_le hj))) hf (he (n + 1) (Nat.le_refl _) ▸ hr)

/-- the first wakeups of the part are the first wakeups of the whole that lie in the part, as
soon as one of them does. -/
theorem firstWakeups_part {A : Comp → Prop} {wk wkA : Wakeups} (hu : UniqueKeys wk)
    (huA : UniqueKeys wkA) (hA : ∀ c, A c → alookup wk c = alookup wkA c)
    (hnA : ∀ c, ¬ A c → alookup wkA c = none) {cs : List Comp} {m : SimTime}
    (hf : firstWakeups wk = (cs, some m)) {r : Comp} (hr : r ∈ cs) (hAr : A r) :
    ∃ csA, firstWakeups wkA = (csA, some m) ∧ ∀ c, c ∈ csA ↔ c ∈ cs ∧ A c := by
  classical
  obtain ⟨hcs, hle, _, _⟩ := firstWakeups_spec wk hu cs m hf
  have hrA : alookup wkA r = some m := (hA r hAr).symm.trans ((hcs r).1 hr)
  cases hfa : firstWakeups wkA with
  | mk csA o =>
    cases o with
    | none =>
      have : wkA = [] := (firstWakeups_none wkA).1 (by rw [hfa])
      rw [this] at hrA
      simp [alookup] at hrA
    | some mA =>
      obtain ⟨hcsA, hleA, ⟨x, hx⟩, _⟩ := firstWakeups_spec wkA huA csA mA hfa
      have hAx : A x := by
        by_cases hAx : A x
        · exact hAx
        · rw [hnA x hAx] at hx; cases hx
      have hm : mA = m :=
        Int.le_antisymm (hleA r m hrA) (hle x mA ((hA x hAx).trans hx))
      subst hm
      refine ⟨csA, rfl, fun c => ?_⟩
      rw [hcsA, hcs]
      constructor
      · intro h
        have hAc : A c := by
          by_cases hAc : A c
          · exact hAc
          · rw [hnA c hAc] at h; cases h
        exact ⟨(hA c hAc).trans h, hAc⟩
      · rintro ⟨h, hAc⟩
        exact (hA c hAc).symm.trans h

/-- **the multi-tick invariant.**  For every run of the whole there is a run of the part with
the ticks of the whole in which the part had a root, whose state agrees with the whole on every
component of the part. -/
theorem run_inv {w wa : Wiring} {A : Comp → Prop} (hp : IsPart w wa A)
    (hw : RouterOK w) (hwa : RouterOK wa) (hwf : w.WF) (hwfa : wa.WF) (hacyca : wa.Acyclic)
    (hcomp : ∀ c, c ∈ wa.components ↔ c ∈ w.components ∧ A c)
    (hupsA : ∀ c, A c → (wa.ups c).isSome)
    {devs : DevSeq Val} (hext : ∀ k, DevExt (devs k)) {t0 : SimTime} {n : Nat} {st : FlatSt Val}
    {times : List SimTime} (h : FlatRun w devs t0 n st times) :
    ∃ (idx : Nat → Nat) (m : Nat) (sa : FlatSt Val) (timesA : List SimTime),
      idx 0 = 0 ∧ (∀ j, j < m → idx j < idx (j + 1)) ∧ idx m ≤ n ∧
      FlatRun wa (fun j => devs (idx j)) t0 m sa timesA ∧
      timesA.Sublist times ∧
      (∀ c, A c → (loc st c).Equiv (loc sa c)) ∧
      (∀ c, ¬ A c → alookup sa.wake c = none) := by
  classical
  induction h with
  | @initial st hr =>
    obtain ⟨sa, hra, hloc, hnone⟩ := tick_step hp hw hwa hwfa hacyca hupsA (hext 0)
      (a := {}) (b := {}) hcomp
      (fun c _ => ⟨fun _ => rfl, fun _ => rfl, rfl, obsEq_refl _⟩) (fun c _ => rfl) hr
    exact ⟨fun j => j, 0, sa, [t0], rfl, fun j hj => absurd hj (Nat.not_lt_zero _),
      Nat.le_refl _, .initial hra, List.Sublist.refl _, hloc, hnone⟩
  | @tick n st st' times cs mt hprev hf hr ih =>
    obtain ⟨idx, m, sa, timesA, h0, hmono, hle, hrunA, hsub, hloc, hnone⟩ := ih
    have hu := flatRun_uniqueKeys hprev
    have huA := flatRun_uniqueKeys hrunA
    by_cases hex : ∃ r, r ∈ cs ∧ A r
    · -- some first wakeup belongs to the part: the part ticks too
      obtain ⟨r, hr_cs, hAr⟩ := hex
      obtain ⟨csA, hfA, hcsA⟩ := firstWakeups_part hu huA (fun c hc => (hloc c hc).wk) hnone
        hf hr_cs hAr
      have hab : ∀ c, A c → (loc { st with wake := delWakeups st.wake cs } c).Equiv
          (loc { sa with wake := delWakeups sa.wake csA } c) := by
        intro c hc
        refine ⟨(hloc c hc).ins, (hloc c hc).outs, ?_, (hloc c hc).ob⟩
        show alookup (delWakeups st.wake cs) c = alookup (delWakeups sa.wake csA) c
        rw [delWakeups_lookup _ hu, delWakeups_lookup _ huA]
        by_cases hcc : c ∈ cs
        · rw [if_pos hcc, if_pos ((hcsA c).2 ⟨hcc, hc⟩)]
        · rw [if_neg hcc, if_neg (fun h => hcc ((hcsA c).1 h).1)]
          exact (hloc c hc).wk
      have hnb : ∀ c, ¬ A c → alookup (delWakeups sa.wake csA) c = none := by
        intro c hc
        rw [delWakeups_lookup _ huA]
        split
        · rfl
        · exact hnone c hc
      obtain ⟨sa', hra, hloc', hnone'⟩ := tick_step hp hw hwa hwfa hacyca hupsA (hext (n + 1))
        (b := { sa with wake := delWakeups sa.wake csA }) hcsA hab hnb hr
      refine ⟨fun j => if j ≤ m then idx j else n + 1, m + 1, sa', mt :: timesA, ?_, ?_, ?_, ?_,
        hsub.cons_cons _, hloc', hnone'⟩
      · simp [h0]
      · intro j hj
        by_cases hjm : j + 1 ≤ m
        · simp only [if_pos hjm, if_pos (Nat.le_of_succ_le hjm)]
          exact hmono j hjm
        · have : j = m := by omega
          subst this
          simp only [Nat.le_refl, if_true, if_neg hjm]
          omega
      · show (if m + 1 ≤ m then idx (m + 1) else n + 1) ≤ n + 1
        rw [if_neg (by omega)]
        exact Nat.le_refl _
      · have hrunA' : FlatRun wa (fun j => devs (if j ≤ m then idx j else n + 1)) t0 m sa timesA :=
          flatRun_congr hrunA (fun j hj => by
            show devs (idx j) = devs (if j ≤ m then idx j else n + 1)
            rw [if_pos hj])
        refine FlatRun.tick hrunA' hfA ?_
        have e : (if m + 1 ≤ m then idx (m + 1) else n + 1) = n + 1 := if_neg (by omega)
        show TickRun wa (devs (if m + 1 ≤ m then idx (m + 1) else n + 1)) _ mt csA sa'
        rw [e]
        exact hra
    · -- no first wakeup belongs to the part: the part stutters
      have hroots : ∀ r ∈ cs, ¬ A r := fun r hr hA => hex ⟨r, hr, hA⟩
      refine ⟨idx, m, sa, timesA, h0, hmono, Nat.le_succ_of_le hle, hrunA, hsub.cons _,
        fun c hc => ?_, hnone⟩
      have hcs : c ∉ cs := fun h => hroots c h hc
      rw [tick_stutter hp hw hwf hroots hr hc, loc_delWakeups st hu hcs]
      exact hloc c hc

/-- `ObsEq` is transitive. -/
theorem obsEq_trans :
    ∀ {a b c : List (SimTime × List (Port × Val))}, ObsEq a b → ObsEq b c → ObsEq a c
  | [], [], [], _, _ => trivial
  | [], [], _ :: _, _, h => h.elim
  | [], _ :: _, _, h, _ => h.elim
  | _ :: _, [], _, h, _ => h.elim
  | _ :: _, _ :: _, [], _, h => h.elim
  | (_, _) :: _, (_, _) :: _, (_, _) :: _, h1, h2 =>
    ⟨h1.1.trans h2.1, fun k => (h1.2.1 k).trans (h2.2.1 k), obsEq_trans h1.2.2 h2.2.2⟩

/-- the multi-tick invariant, for `A` = the components of `wa`. -/
theorem run_inv_components {w wa : Wiring} {A : Comp → Prop} (hp : IsPart w wa A)
    (hw : RouterOK w) (hwa : RouterOK wa) (hwf : w.WF) (hwfa : wa.WF) (hacyca : wa.Acyclic)
    (hA : ∀ c, A c ↔ c ∈ wa.components)
    {devs : DevSeq Val} (hext : ∀ k, DevExt (devs k)) {t0 : SimTime} {n : Nat} {st : FlatSt Val}
    {times : List SimTime} (h : FlatRun w devs t0 n st times) :
    ∃ (idx : Nat → Nat) (m : Nat) (sa : FlatSt Val) (timesA : List SimTime),
      idx 0 = 0 ∧ (∀ j, j < m → idx j < idx (j + 1)) ∧ idx m ≤ n ∧
      FlatRun wa (fun j => devs (idx j)) t0 m sa timesA ∧
      timesA.Sublist times ∧
      (∀ c, A c → (loc st c).Equiv (loc sa c)) ∧
      (∀ c, ¬ A c → alookup sa.wake c = none) := by
  have hupsA : ∀ c, A c → (wa.ups c).isSome := fun c hc =>
    (Wiring.ups_isSome_iff' wa c).2 ((hA c).1 hc)
  have hcomp : ∀ c, c ∈ wa.components ↔ c ∈ w.components ∧ A c := by
    intro c
    constructor
    · intro hc
      have hAc := (hA c).2 hc
      exact ⟨(Wiring.ups_isSome_iff' w c).1 ((hp.ups_some c hAc).2 (hupsA c hAc)), hAc⟩
    · exact fun h => (hA c).1 h.2
  exact run_inv hp hw hwa hwf hwfa hacyca hcomp hupsA hext h

/-! ### the union of two wirings over disjoint component sets -/

/-- one source per input port is inherited by the union of two well-formed wirings over
disjoint component sets. -/
theorem oneSource_append {wa wb : Wiring} (hwb : wb.WF) (hwaf : wa.WF)
    (hdisj : ∀ c, c ∈ wa.components → c ∉ wb.components)
    (h1a : wa.OneSource) (h1b : wb.OneSource) : (wa ++ wb).OneSource := by
  have htgt : ∀ {w : Wiring}, w.WF → ∀ {a p b q}, w.Conn a p b q → b ∈ w.components :=
    fun {w} hw {a p b q} h => (Wiring.mem_components_iff' hw b).2 (Or.inr ⟨a, p, q, h⟩)
  intro a p a' p' b q h h'
  rcases Wiring.conn_append.1 h with h | ⟨_, h⟩ <;> rcases Wiring.conn_append.1 h' with h' | ⟨_, h'⟩
  · exact h1a a p a' p' b q h h'
  · exact absurd (htgt hwb h') (hdisj b (htgt hwaf h))
  · exact absurd (htgt hwb h) (hdisj b (htgt hwaf h'))
  · exact h1b a p a' p' b q h h'

end Tickit.PartRun
