/-
Helper lemmas for C09, part 9: the device-level tick equations of a (callback) tick, the
uniqueness of their solution along the acyclic device-level graph, and the preservation of the
nested/flat correspondence `Corr` by two ticks that both satisfy the equations.
-/
import TickitModel.Lemmas.FlattenCorrDef
import TickitModel.Lemmas.FlatDetLemmas

namespace Tickit

/-- the oracle response device `c` will give when updated from state `σ` -/
def stepResp (orc : Oracle) (σ : SimSt) (c : Comp) : Option DevResp :=
  (agetD orc c [])[agetD σ.count c 0]?

/-- the `Output.changes` device `c` will report when updated from state `σ` (they do not depend
on the inputs it is given: responses are indexed by the update count) -/
def stepChg (orc : Oracle) (σ : SimSt) (c : Comp) : List (Port × V) :=
  match stepResp orc σ c with
  | some r => outChanges (agetD σ.devs c {}).lastOutputs (normDict r.outs)
  | none => []

theorem flt_nodup_stepChg (orc : Oracle) (σ : SimSt) (c : Comp) : (akeys (stepChg orc σ c)).Nodup := by
  unfold stepChg
  split
  · unfold outChanges normDict
    exact List.Sublist.nodup (List.Sublist.map _ List.filter_sublist)
      (nodup_akeys_aupdate (by simp) _)
  · simp

/-- input port `q` of device `d` is given `v` in this tick: the device driving it was updated
(it is among `new`) and reported `v` as a change -/
def Static.DevIn (S : Static) (orc : Oracle) (n : Nat) (σ : SimSt) (new : List Obs) (d : Comp)
    (q : Port) (v : V) : Prop :=
  ∃ a₀ p₀, alookup (S.flatInputs n d) q = some (a₀, p₀) ∧ a₀ ∈ new.map Obs.comp ∧
    alookup (stepChg orc σ a₀) p₀ = some v

/-- component `c` has a callback due at `t` in its own scheduler -/
def Static.DueAt (S : Static) (σ : SimSt) (t : SimTime) (c : Comp) : Prop :=
  ∃ P w, alookup S.parent c = some P ∧ alookup (σ.sched P).wake c = some w ∧ w ≤ t

/-- **the device-level tick equations**: `σ₀` is the state before the tick (before the master
removes the served wakeups), `σ'` the state after it, `new` the observations made. -/
structure TickEqs (S : Static) (orc : Oracle) (n : Nat) (σ₀ : SimSt) (t : SimTime)
    (Root Due : Comp → Prop) (σ' : SimSt) (new : List Obs) : Prop where
  obs_eq : σ'.obs = σ₀.obs ++ new
  nodup : (new.map Obs.comp).Nodup
  dev : ∀ o ∈ new, o.time = t ∧ S.isDevice o.comp
  /-- who is updated: the roots and the devices with a changed input -/
  upd_iff : ∀ d, S.isDevice d →
    (d ∈ new.map Obs.comp ↔ Root d ∨ ∃ q v, S.DevIn orc n σ₀ new d q v)
  /-- what an updated device is given, answers, and becomes -/
  upd : ∀ o ∈ new, ∃ ins r, (akeys ins).Nodup ∧
    o.inputs = (agetD σ₀.devs o.comp {}).merge ins ∧
    (∀ q v, alookup ins q = some v ↔ S.DevIn orc n σ₀ new o.comp q v) ∧
    stepResp orc σ₀ o.comp = some r ∧ r.raises = false ∧
    agetD σ'.devs o.comp {} = ⟨o.inputs, normDict r.outs⟩ ∧
    agetD σ'.count o.comp 0 = agetD σ₀.count o.comp 0 + 1 ∧
    (∀ P, alookup S.parent o.comp = some P →
      (∀ w, r.callAt = some w → alookup (σ'.sched P).wake o.comp = some w) ∧
      (r.callAt = none → Due o.comp → alookup (σ'.sched P).wake o.comp = none) ∧
      (r.callAt = none → ¬ Due o.comp →
        alookup (σ'.sched P).wake o.comp = alookup (σ₀.sched P).wake o.comp))
  /-- everything else is untouched -/
  frame : ∀ d, S.isDevice d → d ∉ new.map Obs.comp →
    agetD σ'.devs d {} = agetD σ₀.devs d {} ∧ agetD σ'.count d 0 = agetD σ₀.count d 0 ∧
    ∀ P, alookup S.parent d = some P → alookup (σ'.sched P).wake d = alookup (σ₀.sched P).wake d

/-! ### same state, same response -/

theorem DevCorr.stepResp_eq {S : Static} {st st' : SimSt} (hc : DevCorr S st st') (orc : Oracle) {d : Comp}
    (hd : S.isDevice d) : stepResp orc st d = stepResp orc st' d := by
  unfold stepResp
  rw [hc.count d hd]

theorem DevCorr.stepChg_eq {S : Static} {st st' : SimSt} (hc : DevCorr S st st') (orc : Oracle) {d : Comp}
    (hd : S.isDevice d) : stepChg orc st d = stepChg orc st' d := by
  unfold stepChg
  rw [hc.stepResp_eq orc hd, (hc.devs d hd).1]

/-! ### observation sequences -/

theorem SimSt.obsOf_append {st st' : SimSt} {new : List Obs} (h : st'.obs = st.obs ++ new) (c : Comp) :
    st'.obsOf c = st.obsOf c ++
      ((new.filter (fun o => o.comp == c)).map (fun o => (o.time, o.inputs))) := by
  unfold SimSt.obsOf
  rw [h, List.filter_append, List.map_append]

/-! ### uniqueness and preservation of the correspondence -/

/-- **two ticks satisfying the same equations update the same devices** (induction along the
acyclic device-level graph) -/
theorem tickEqs_same_updates {S : Static} (hS : S.Valid) {orc : Oracle} {n : Nat}
    (hrank : S.FlatRank n) (hS' : (S.flatten n).Valid) {σ₀ σ₀' σ' σ'' : SimSt}
    (hchg : ∀ d, S.isDevice d → stepChg orc σ₀ d = stepChg orc σ₀' d)
    {t : SimTime} {Root Root' Due Due' : Comp → Prop} (hroot : ∀ d, S.isDevice d → (Root d ↔ Root' d))
    {new new' : List Obs} (E : TickEqs S orc n σ₀ t Root Due σ' new)
    (E' : TickEqs (S.flatten n) orc 2 σ₀' t Root' Due' σ'' new') :
    ∀ d, S.isDevice d → (d ∈ new.map Obs.comp ↔ d ∈ new'.map Obs.comp) := by
  obtain ⟨rank, hr⟩ := hrank
  have hdev' : ∀ x, (S.flatten n).isDevice x ↔ S.isDevice x := by
    intro x
    rw [← Static.mem_devices_iff, ← Static.mem_devices_iff, S.flatten_devices_eq]
  have key : ∀ k d, rank d < k → S.isDevice d → (d ∈ new.map Obs.comp ↔ d ∈ new'.map Obs.comp) := by
    intro k
    induction k with
    | zero => intro d h; omega
    | succ k ih =>
      intro d hk hd
      have hdm := Static.mem_devices_iff.2 hd
      rw [E.upd_iff d hd, E'.upd_iff d ((hdev' d).2 hd), hroot d hd]
      apply or_congr Iff.rfl
      constructor
      · rintro ⟨q, v, a₀, p₀, hfi, ha, hv⟩
        have had := Static.mem_devices_iff.1 (hS.flatInputs_device hfi)
        refine ⟨q, v, a₀, p₀, ?_, ?_, ?_⟩
        · rw [hS.flatten_flatInputs hS' hdm q]; exact hfi
        · exact (ih a₀ (by have := hr d q a₀ p₀ hdm hfi; omega) had).1 ha
        · rw [← hchg _ had]; exact hv
      · rintro ⟨q, v, a₀, p₀, hfi, ha, hv⟩
        rw [hS.flatten_flatInputs hS' hdm q] at hfi
        have had := Static.mem_devices_iff.1 (hS.flatInputs_device hfi)
        refine ⟨q, v, a₀, p₀, hfi, ?_, ?_⟩
        · exact (ih a₀ (by have := hr d q a₀ p₀ hdm hfi; omega) had).2 ha
        · rw [hchg _ had]; exact hv
  exact fun d hd => key (rank d + 1) d (Nat.lt_succ_self _) hd

/-- the values given to a device are the same in both ticks -/
theorem tickEqs_devIn_iff {S : Static} (hS : S.Valid) {orc : Oracle} {n : Nat}
    (hS' : (S.flatten n).Valid) {σ₀ σ₀' : SimSt}
    (hchg : ∀ d, S.isDevice d → stepChg orc σ₀ d = stepChg orc σ₀' d) {new new' : List Obs}
    (hsame : ∀ d, S.isDevice d → (d ∈ new.map Obs.comp ↔ d ∈ new'.map Obs.comp))
    {d : Comp} (hd : S.isDevice d) (q : Port) (v : V) :
    S.DevIn orc n σ₀ new d q v ↔ (S.flatten n).DevIn orc 2 σ₀' new' d q v := by
  have hdm := Static.mem_devices_iff.2 hd
  constructor
  · rintro ⟨a₀, p₀, hfi, ha, hv⟩
    have had := Static.mem_devices_iff.1 (hS.flatInputs_device hfi)
    refine ⟨a₀, p₀, ?_, (hsame a₀ had).1 ha, ?_⟩
    · rw [hS.flatten_flatInputs hS' hdm q]; exact hfi
    · rw [← hchg _ had]; exact hv
  · rintro ⟨a₀, p₀, hfi, ha, hv⟩
    rw [hS.flatten_flatInputs hS' hdm q] at hfi
    have had := Static.mem_devices_iff.1 (hS.flatInputs_device hfi)
    exact ⟨a₀, p₀, hfi, (hsame a₀ had).2 ha, by rw [hchg _ had]; exact hv⟩

/-- **the correspondence is preserved** by a nested and a flat tick that satisfy the tick
equations for corresponding root sets -/
theorem corr_of_tickEqs {S : Static} (hS : S.Valid) {orc : Oracle} {n : Nat}
    (hrank : S.FlatRank n) (hS' : (S.flatten n).Valid) {σ₀ σ₀' σ' σ'' : SimSt} (hc : DevCorr S σ₀ σ₀')
    {t : SimTime} {Root Root' : Comp → Prop} (hroot : ∀ d, S.isDevice d → (Root d ↔ Root' d))
    {new new' : List Obs} (E : TickEqs S orc n σ₀ t Root Root σ' new)
    (E' : TickEqs (S.flatten n) orc 2 σ₀' t Root' Root' σ'' new')
    (hsch : SchedOK S σ') (hsch' : SchedOK (S.flatten n) σ'') : Corr S σ' σ'' := by
  have hsame := tickEqs_same_updates hS hrank hS' (fun d hd => hc.stepChg_eq orc hd) hroot E E'
  have hdev' : ∀ x, (S.flatten n).isDevice x ↔ S.isDevice x := by
    intro x
    rw [← Static.mem_devices_iff, ← Static.mem_devices_iff, S.flatten_devices_eq]
  have hpar' : ∀ d, S.isDevice d → alookup (S.flatten n).parent d = some "" := by
    intro d hd
    rw [S.flatten_parent, if_pos (Static.mem_devices_iff.2 hd)]
  -- an updated device: the two observations and the resulting states
  have hupd : ∀ o ∈ new, ∀ o' ∈ new', o.comp = o'.comp →
      o.time = o'.time ∧ MapEq o.inputs o'.inputs ∧
      (agetD σ'.devs o.comp {}).lastOutputs = (agetD σ''.devs o.comp {}).lastOutputs ∧
      MapEq (agetD σ'.devs o.comp {}).deviceInputs (agetD σ''.devs o.comp {}).deviceInputs ∧
      agetD σ'.count o.comp 0 = agetD σ''.count o.comp 0 ∧
      ∀ P, alookup S.parent o.comp = some P →
        alookup (σ''.sched "").wake o.comp = alookup (σ'.sched P).wake o.comp := by
    intro o ho o' ho' hoo
    obtain ⟨ht, hd⟩ := E.dev o ho
    obtain ⟨ht', _⟩ := E'.dev o' ho'
    obtain ⟨ins, r, hn, hin, hiv, hr, _, hdv, hcn, hwk⟩ := E.upd o ho
    obtain ⟨ins', r', hn', hin', hiv', hr', _, hdv', hcn', hwk'⟩ := E'.upd o' ho'
    rw [← hoo] at hin' hiv' hr' hdv' hcn' hwk'
    have hrr : r = r' := by
      rw [hc.stepResp_eq orc hd, hr'] at hr
      exact (Option.some.inj hr).symm
    subst hrr
    have hmi : MapEq ins ins' := by
      intro q
      apply option_ext_some
      intro v
      rw [hiv q v, hiv' q v]
      exact tickEqs_devIn_iff hS hS' (fun d hd => hc.stepChg_eq orc hd) hsame hd q v
    have hmo : MapEq o.inputs o'.inputs := by
      rw [hin, hin']
      exact Det.mapEq_aupdate (hc.devs _ hd).2 hn hn' hmi
    refine ⟨ht.trans ht'.symm, hmo, ?_, ?_, ?_, ?_⟩
    · rw [hdv, hdv']
    · rw [hdv, hdv']; exact hmo
    · rw [hcn, hcn', hc.count _ hd]
    · intro P hP
      obtain ⟨w1, w2, w3⟩ := hwk P hP
      obtain ⟨w1', w2', w3'⟩ := hwk' "" (hpar' _ hd)
      cases hca : r.callAt with
      | some w => rw [w1 w hca, w1' w hca]
      | none =>
        by_cases hro : Root o.comp
        · rw [w2 hca hro, w2' hca ((hroot _ hd).1 hro)]
        · rw [w3 hca hro, w3' hca (fun h => hro ((hroot _ hd).2 h))]
          exact hc.wake_dev _ P hd hP
  exact
    { devs := by
        intro d hd
        by_cases hm : d ∈ new.map Obs.comp
        · obtain ⟨o, ho, rfl⟩ := List.mem_map.1 hm
          obtain ⟨o', ho', hoo⟩ := List.mem_map.1 ((hsame _ hd).1 hm)
          obtain ⟨_, _, h3, h4, _, _⟩ := hupd o ho o' ho' hoo.symm
          exact ⟨h3, h4⟩
        · have hm' : d ∉ new'.map Obs.comp := fun h => hm ((hsame d hd).2 h)
          rw [(E.frame d hd hm).1, (E'.frame d ((hdev' d).2 hd) hm').1]
          exact hc.devs d hd
      count := by
        intro d hd
        by_cases hm : d ∈ new.map Obs.comp
        · obtain ⟨o, ho, rfl⟩ := List.mem_map.1 hm
          obtain ⟨o', ho', hoo⟩ := List.mem_map.1 ((hsame _ hd).1 hm)
          exact (hupd o ho o' ho' hoo.symm).2.2.2.2.1
        · have hm' : d ∉ new'.map Obs.comp := fun h => hm ((hsame d hd).2 h)
          rw [(E.frame d hd hm).2.1, (E'.frame d ((hdev' d).2 hd) hm').2.1]
          exact hc.count d hd
      obs := by
        intro d
        rw [SimSt.obsOf_append E.obs_eq d, SimSt.obsOf_append E'.obs_eq d]
        refine Det.obsEq_append (hc.obs d) ?_
        by_cases hd : S.isDevice d
        · by_cases hm : d ∈ new.map Obs.comp
          · obtain ⟨o, ho, rfl⟩ := List.mem_map.1 hm
            obtain ⟨o', ho', hoo⟩ := List.mem_map.1 ((hsame _ hd).1 hm)
            rw [flt_filter_comp_singleton E.nodup ho, ← hoo, flt_filter_comp_singleton E'.nodup ho']
            obtain ⟨h1, h2, _⟩ := hupd o ho o' ho' hoo.symm
            exact ⟨h1, h2, trivial⟩
          · have hm' : d ∉ new'.map Obs.comp := fun h => hm ((hsame d hd).2 h)
            have e1 : new.filter (fun o => o.comp == d) = [] := by
              rw [List.filter_eq_nil_iff]
              intro o ho h'
              exact hm (List.mem_map.2 ⟨o, ho, by simpa using h'⟩)
            have e2 : new'.filter (fun o => o.comp == d) = [] := by
              rw [List.filter_eq_nil_iff]
              intro o ho h'
              exact hm' (List.mem_map.2 ⟨o, ho, by simpa using h'⟩)
            rw [e1, e2]
            trivial
        · have e1 : new.filter (fun o => o.comp == d) = [] := by
            rw [List.filter_eq_nil_iff]
            intro o ho h'
            have : o.comp = d := by simpa using h'
            exact hd (this ▸ (E.dev o ho).2)
          have e2 : new'.filter (fun o => o.comp == d) = [] := by
            rw [List.filter_eq_nil_iff]
            intro o ho h'
            have : o.comp = d := by simpa using h'
            exact hd ((hdev' d).1 (this ▸ (E'.dev o ho).2))
          rw [e1, e2]
          trivial
      started := hsch.started
      wake_dev := by
        intro d P hd hP
        by_cases hm : d ∈ new.map Obs.comp
        · obtain ⟨o, ho, rfl⟩ := List.mem_map.1 hm
          obtain ⟨o', ho', hoo⟩ := List.mem_map.1 ((hsame _ hd).1 hm)
          exact (hupd o ho o' ho' hoo.symm).2.2.2.2.2 P hP
        · have hm' : d ∉ new'.map Obs.comp := fun h => hm ((hsame d hd).2 h)
          rw [(E.frame d hd hm).2.2 P hP, (E'.frame d ((hdev' d).2 hd) hm').2.2 "" (hpar' d hd)]
          exact hc.wake_dev d P hd hP
      wake_sys := hsch.wake_sys
      wake_keys := hsch.wake_keys
      wake_unique := hsch.wake_unique
      flat_sched := hsch'.flatten_fuel 0 }

end Tickit
