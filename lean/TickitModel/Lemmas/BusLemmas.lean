/-
Helper lemmas for M6 (in-memory bus) and topic naming.
-/
import TickitModel.Core.Bus
import TickitModel.Gen.Constants

namespace Tickit

/-- `input_topic` / `output_topic` of `utils/topic_naming.py` over the generated constants. -/
def inputTopic (c : Comp) : Topic := Gen.topicPrefix ++ c ++ Gen.inSuffix
def outputTopic (c : Comp) : Topic := Gen.topicPrefix ++ c ++ Gen.outSuffix

/-- the topics consumer `k` subscribes to anywhere in the history -/
def subscribedTopics (ops : List BusOp) (k : Cid) : List Topic :=
  ops.flatMap (fun op => match op with
    | .subscribe k' Ts => if k' = k then Ts else []
    | .produce _ _ => [])

/-- every (consumer, topic) pair is subscribed at most once in the history. -/
def SubscribeOnce (ops : List BusOp) : Prop := ∀ k, (subscribedTopics ops k).Nodup

/-- handlers publish only "downstream": to topics of strictly larger rank than every topic
the publishing consumer ever subscribes to.  In particular a handler never publishes to a
topic that is being delivered further down the call stack, nor to one of its own. -/
def Stratified (h : Handler) (ops : List BusOp) (rank : Topic → Nat) : Prop :=
  ∀ k v T' v', (T', v') ∈ h k v → ∀ T ∈ subscribedTopics ops k, rank T < rank T'

end Tickit
