/-
Helper lemmas for M6 (in-memory bus) and topic naming.
-/
import TickitModel.Core.Bus
import TickitModel.Gen.Constants

namespace Tickit

/-- `input_topic` / `output_topic` of `utils/topic_naming.py` over the generated constants. -/
def inputTopic (c : Comp) : Topic := Gen.topicPrefix ++ c ++ Gen.inSuffix
def outputTopic (c : Comp) : Topic := Gen.topicPrefix ++ c ++ Gen.outSuffix

/-- the topics consumer `k` subscribes to anywhere in the history -/
def subscribedTopics (ops : List BusOp) (k : Cid) : List Topic :=
  ops.flatMap (fun op => match op with
    | .subscribe k' Ts => if k' = k then Ts else []
    | .produce _ _ => [])

/-- every (consumer, topic) pair is subscribed at most once in the history. -/
def SubscribeOnce (ops : List BusOp) : Prop := ∀ k, (subscribedTopics ops k).Nodup

/-- handlers publish only "downstream": reacting to a value that arrived on topic `T`, a
handler publishes only to topics of strictly larger rank than `T`.  In particular a handler
never publishes to a topic that is being delivered further down the call stack (the reading of
"handlers publish to OTHER topics"); it MAY publish to a topic its own consumer subscribes to. -/
def Stratified (h : Handler) (rank : Topic → Nat) : Prop :=
  ∀ k T v T' v', (T', v') ∈ h k T v → rank T < rank T'

/-! ## topic naming: general string lemmas -/

/-- same prefix, same suffix: the middle parts are equal. -/
theorem topic_cancel (p a b s : String) (h : p ++ a ++ s = p ++ b ++ s) : a = b := by
  have h' := congrArg String.toList h
  simp only [String.toList_append, List.append_assoc, List.append_cancel_left_eq,
    List.append_cancel_right_eq] at h'
  exact String.toList_inj.mp h'

/-- same prefix, suffixes neither of which is a suffix of the other: never equal, whatever
the middle parts.  (This is exact: if one suffix is a suffix of the other, two names collide.) -/
theorem topic_ne_of_suffix (p a b s₁ s₂ : String)
    (h₁ : ¬ s₁.toList <:+ s₂.toList) (h₂ : ¬ s₂.toList <:+ s₁.toList) :
    p ++ a ++ s₁ ≠ p ++ b ++ s₂ := by
  intro h
  have h' := congrArg String.toList h
  simp only [String.toList_append, List.append_assoc, List.append_cancel_left_eq] at h'
  rcases List.append_eq_append_iff.mp h' with ⟨c, _, hc⟩ | ⟨c, _, hc⟩
  · exact h₂ ⟨c, hc.symm⟩
  · exact h₁ ⟨c, hc.symm⟩

/-! ## association maps -/

theorem bus_alookup_upsert {κ β : Type} [DecidableEq κ] (m : List (κ × β)) (x y : κ) (v : β) :
    alookup (upsert m x v) y = if x = y then some v else alookup m y := by
  induction m with
  | nil => simp [upsert, alookup]
  | cons p t ih =>
    obtain ⟨k, w⟩ := p
    by_cases hkx : k = x
    · subst hkx
      by_cases hky : k = y <;> simp [upsert, alookup, hky]
    · by_cases hky : k = y
      · subst hky
        simp [upsert, alookup, hkx, Ne.symm hkx]
      · simp [upsert, alookup, hkx, hky, ih]

theorem agetD_upsert {κ β : Type} [DecidableEq κ] (m : List (κ × β)) (x y : κ) (v d : β) :
    agetD (upsert m x v) y d = if x = y then v else agetD m y d := by
  unfold agetD
  rw [bus_alookup_upsert]
  split <;> rfl

theorem mem_sinsert {α : Type} [DecidableEq α] (s : List α) (x y : α) :
    y ∈ sinsert s x ↔ y ∈ s ∨ y = x := by
  unfold sinsert
  split
  · constructor
    · exact Or.inl
    · rintro (h | rfl) <;> assumption
  · simp

theorem bus_nodup_sinsert {α : Type} [DecidableEq α] (s : List α) (x : α) (h : s.Nodup) :
    (sinsert s x).Nodup := by
  unfold sinsert
  split
  · exact h
  · rename_i hx
    rw [List.nodup_append]
    refine ⟨h, by simp, ?_⟩
    intro a ha b hb
    simp at hb
    subst hb
    rintro rfl
    exact hx ha

/-! ## the ghost delivery log -/

/-- append ghost deliveries -/
def Bus.addRecv (b : Bus) (es : List (Cid × Topic × Int)) : Bus := { b with recv := b.recv ++ es }

/-- the values of the `(k, T)` entries of a delivery list -/
def recvOf (es : List (Cid × Topic × Int)) (k : Cid) (T : Topic) : List Int :=
  (es.filter (fun e => e.1 == k && e.2.1 == T)).map (·.2.2)

theorem Bus.received_addRecv (b : Bus) (es : List (Cid × Topic × Int)) (k : Cid) (T : Topic) :
    (b.addRecv es).received k T = b.received k T ++ recvOf es k T := by
  simp [Bus.received, Bus.addRecv, recvOf]

@[simp] theorem Bus.addRecv_subs (b : Bus) (es) : (b.addRecv es).subs = b.subs := rfl
@[simp] theorem Bus.addRecv_topics (b : Bus) (es) : (b.addRecv es).topics = b.topics := rfl
@[simp] theorem Bus.addRecv_subsOf (b : Bus) (es) (T : Topic) :
    (b.addRecv es).subsOf T = b.subsOf T := rfl
@[simp] theorem Bus.addRecv_log (b : Bus) (es) (T : Topic) : (b.addRecv es).log T = b.log T := rfl

@[simp] theorem Bus.addRecv_nil (b : Bus) : b.addRecv [] = b := by
  simp [Bus.addRecv]

theorem Bus.addRecv_addRecv (b : Bus) (es es') :
    (b.addRecv es).addRecv es' = b.addRecv (es ++ es') := by
  simp [Bus.addRecv]

theorem recvOf_eq_nil (es : List (Cid × Topic × Int)) (k : Cid) (T : Topic)
    (h : ∀ e ∈ es, e.2.1 ≠ T) : recvOf es k T = [] := by
  unfold recvOf
  rw [List.map_eq_nil_iff, List.filter_eq_nil_iff]
  intro e he
  simp [h e he]

theorem recvOf_cons (e : Cid × Topic × Int) (es : List (Cid × Topic × Int)) (k : Cid) (T : Topic) :
    recvOf (e :: es) k T = (if e.1 = k ∧ e.2.1 = T then [e.2.2] else []) ++ recvOf es k T := by
  unfold recvOf
  by_cases hc : e.1 = k ∧ e.2.1 = T
  · simp [hc]
  · simp [hc]

theorem recvOf_map_cid (ks : List Cid) (T : Topic) (v : Int) (k : Cid) (T' : Topic)
    (hnd : ks.Nodup) :
    recvOf (ks.map (fun k' => (k', T, v))) k T' = if T = T' ∧ k ∈ ks then [v] else [] := by
  induction ks with
  | nil => simp [recvOf]
  | cons a ks ih =>
    rw [List.nodup_cons] at hnd
    rw [List.map_cons, recvOf_cons, ih hnd.2]
    by_cases hT : T = T'
    · by_cases hak : a = k
      · subst hak; simp [hT, hnd.1]
      · have hka : ¬ k = a := fun h => hak h.symm
        simp [hT, hak, hka]
    · simp [hT]

theorem recvOf_map_val (vs : List Int) (k : Cid) (T : Topic) (k' : Cid) (T' : Topic) :
    recvOf (vs.map (fun v => (k, T, v))) k' T' = if k = k' ∧ T = T' then vs else [] := by
  induction vs with
  | nil => simp [recvOf]
  | cons a vs ih =>
    rw [List.map_cons, recvOf_cons, ih]
    by_cases hc : k = k' ∧ T = T' <;> simp [hc]

/-! ## the effect relation -/

/-- `b'` is reached from `b` by publications to topics of rank `≥ r` only, each of them
delivered exactly to the subscribers, in publication order: every topic log gets a suffix
`s` appended (empty below rank `r`), every subscriber of that topic receives exactly `s`
from it, non-subscribers nothing; subscriptions are unchanged. -/
structure Bus.Step (rank : Topic → Nat) (r : Nat) (b b' : Bus) : Prop where
  subs : b'.subs = b.subs
  eff : ∀ T, ∃ s, b'.log T = b.log T ++ s ∧ (rank T < r → s = []) ∧
      ∀ k, b'.received k T = b.received k T ++ (if k ∈ b.subsOf T then s else [])

theorem Bus.Step.subsOf {rank r b b'} (h : Bus.Step rank r b b') (T : Topic) :
    b'.subsOf T = b.subsOf T := by
  unfold Bus.subsOf; rw [h.subs]

theorem Bus.Step.refl (rank r b) : Bus.Step rank r b b :=
  ⟨rfl, fun _ => ⟨[], by simp⟩⟩

theorem Bus.Step.trans {rank r b b' b''} (h₁ : Bus.Step rank r b b') (h₂ : Bus.Step rank r b' b'') :
    Bus.Step rank r b b'' := by
  refine ⟨h₂.subs.trans h₁.subs, fun T => ?_⟩
  obtain ⟨s₁, hl₁, hr₁, hk₁⟩ := h₁.eff T
  obtain ⟨s₂, hl₂, hr₂, hk₂⟩ := h₂.eff T
  refine ⟨s₁ ++ s₂, by rw [hl₂, hl₁, List.append_assoc], fun hlt => by simp [hr₁ hlt, hr₂ hlt],
    fun k => ?_⟩
  rw [hk₂, hk₁, h₁.subsOf]
  split <;> simp

theorem Bus.Step.mono {rank r r' b b'} (h : Bus.Step rank r b b') (hr : r' ≤ r) :
    Bus.Step rank r' b b' := by
  refine ⟨h.subs, fun T => ?_⟩
  obtain ⟨s, hl, hr', hk⟩ := h.eff T
  exact ⟨s, hl, fun hlt => hr' (by omega), hk⟩

/-- ghost deliveries on topics below `r` commute with a step. -/
theorem Bus.Step.addRecv {rank r b b'} (h : Bus.Step rank r b b') (es : List (Cid × Topic × Int))
    (hes : ∀ e ∈ es, rank e.2.1 < r) : Bus.Step rank r (b.addRecv es) (b'.addRecv es) := by
  refine ⟨h.subs, fun T => ?_⟩
  obtain ⟨s, hl, hr, hk⟩ := h.eff T
  refine ⟨s, hl, hr, fun k => ?_⟩
  rw [Bus.received_addRecv, Bus.received_addRecv, hk, Bus.addRecv_subsOf]
  by_cases hlt : rank T < r
  · simp [hr hlt]
  · rw [recvOf_eq_nil es k T (fun e he heq => hlt (heq ▸ hes e he))]
    simp

/-! ## well-formedness of the subscription table -/

/-- subscriber lists are duplicate free and only contain consumers that subscribe to the
topic somewhere in the history `ops`. -/
def Bus.WF (ops : List BusOp) (b : Bus) : Prop :=
  (∀ T, (b.subsOf T).Nodup) ∧ ∀ k T, k ∈ b.subsOf T → T ∈ subscribedTopics ops k

theorem Bus.WF.of_subs_eq {ops b b'} (h : Bus.WF ops b) (hs : b'.subs = b.subs) : Bus.WF ops b' := by
  unfold Bus.WF Bus.subsOf at *
  rw [hs]; exact h

/-! ## the mutual block -/

section Mutual
variable {h : Handler} {ops : List BusOp} {rank : Topic → Nat}

/-- the statement proved about `push` by strong induction on the fuel. -/
def PushOK (h : Handler) (ops : List BusOp) (rank : Topic → Nat) (n : Nat) : Prop :=
  ∀ b T v, Bus.WF ops b → Bus.Step rank (rank T) b (Bus.push h n b T v)

theorem pushAll_step (n : Nat) (ih : ∀ m < n, PushOK h ops rank m) (r : Nat)
    (ps : List (Topic × Int)) (b : Bus) (hwf : Bus.WF ops b) (hps : ∀ p ∈ ps, r ≤ rank p.1) :
    Bus.Step rank r b (Bus.pushAll h n ps b) := by
  induction ps generalizing b with
  | nil => rw [Bus.pushAll.eq_1]; exact Bus.Step.refl ..
  | cons p ps ihps =>
    obtain ⟨T, v⟩ := p
    cases n with
    | zero => rw [Bus.pushAll.eq_2 h _ b (by simp)]; exact Bus.Step.refl ..
    | succ n =>
      rw [Bus.pushAll.eq_3]
      have h1 : Bus.Step rank (rank T) b (Bus.push h n b T v) := ih n (by omega) b T v hwf
      have h1' := h1.mono (hps (T, v) (by simp))
      exact h1'.trans (ihps _ (hwf.of_subs_eq h1.subs) (fun p hp => hps p (by simp [hp])))

theorem deliver_step (hstrat : Stratified h rank) (n : Nat) (ih : ∀ m < n, PushOK h ops rank m)
    (b : Bus) (k : Cid) (T : Topic) (v : Int) (hwf : Bus.WF ops b) :
    Bus.Step rank (rank T + 1) (b.addRecv [(k, T, v)]) (Bus.deliver h n b k T v) := by
  rw [Bus.deliver.eq_1]
  exact pushAll_step n ih _ _ _ (hwf.of_subs_eq rfl)
    (fun p hp => hstrat k T v p.1 p.2 hp)

theorem deliverAll_step (hstrat : Stratified h rank) (n : Nat)
    (ih : ∀ m < n, PushOK h ops rank m) (T : Topic) (v : Int) (ks : List Cid) (b : Bus)
    (hwf : Bus.WF ops b) :
    Bus.Step rank (rank T + 1) (b.addRecv (ks.map (fun k => (k, T, v))))
      (Bus.deliverAll h n T v ks b) := by
  induction ks generalizing b with
  | nil => rw [Bus.deliverAll.eq_1, List.map_nil, Bus.addRecv_nil]; exact Bus.Step.refl ..
  | cons k ks ihks =>
    rw [Bus.deliverAll.eq_2]
    have h1 := deliver_step hstrat n ih b k T v hwf
    have hwf1 : Bus.WF ops (Bus.deliver h n b k T v) := hwf.of_subs_eq h1.subs
    have h2 := ihks _ hwf1
    have h3 := h1.addRecv (ks.map (fun k => (k, T, v))) (by simp)
    rw [Bus.addRecv_addRecv] at h3
    exact h3.trans h2

theorem replay_step (hstrat : Stratified h rank) (n : Nat)
    (ih : ∀ m < n, PushOK h ops rank m) (k : Cid) (T : Topic) (vs : List Int) (b : Bus)
    (hwf : Bus.WF ops b) :
    Bus.Step rank (rank T + 1) (b.addRecv (vs.map (fun v => (k, T, v))))
      (Bus.replay h n k T vs b) := by
  induction vs generalizing b with
  | nil => rw [Bus.replay, List.map_nil, Bus.addRecv_nil]; exact Bus.Step.refl ..
  | cons v vs ihvs =>
    rw [Bus.replay]
    have h1 := deliver_step hstrat n ih b k T v hwf
    have hwf1 : Bus.WF ops (Bus.deliver h n b k T v) := hwf.of_subs_eq h1.subs
    have h2 := ihvs _ hwf1
    have h3 := h1.addRecv (vs.map (fun v => (k, T, v))) (by simp)
    rw [Bus.addRecv_addRecv] at h3
    exact h3.trans h2

theorem push_step (hstrat : Stratified h rank) (n : Nat) : PushOK h ops rank n := by
  induction n using Nat.strongRecOn with
  | _ n ih =>
    intro b T v hwf
    cases n with
    | zero => rw [Bus.push.eq_1]; exact Bus.Step.refl ..
    | succ n =>
      rw [Bus.push.eq_2]
      let b1 : Bus := { b with topics := upsert b.topics T (b.log T ++ [v]) }
      show Bus.Step rank (rank T) b (Bus.deliverAll h n T v (b.subsOf T) b1)
      have hwf1 : Bus.WF ops b1 := hwf.of_subs_eq rfl
      have h2 := deliverAll_step hstrat n (fun m hm => ih m (by omega)) T v (b.subsOf T) b1 hwf1
      refine Bus.Step.trans ?_ (h2.mono (Nat.le_succ _))
      refine ⟨rfl, fun T' => ?_⟩
      by_cases hT : T = T'
      · subst hT
        refine ⟨[v], ?_, fun hlt => absurd hlt (Nat.lt_irrefl _), fun k => ?_⟩
        · simp [Bus.log, agetD_upsert, b1]
        · rw [Bus.received_addRecv, recvOf_map_cid _ _ _ _ _ (hwf.1 T)]
          simp [Bus.received, b1]
      · refine ⟨[], ?_, fun _ => rfl, fun k => ?_⟩
        · simp [Bus.log, agetD_upsert, hT, b1]
        · rw [Bus.received_addRecv, recvOf_map_cid _ _ _ _ _ (hwf.1 T)]
          simp [Bus.received, hT, b1]

end Mutual

/-! ## the invariant and the history fold -/

/-- exactly once, in order, with replay, nothing from other topics. -/
def Bus.Inv (b : Bus) : Prop :=
  ∀ k T, b.received k T = if k ∈ b.subsOf T then b.log T else []

theorem Bus.Step.inv {rank r b b'} (h : Bus.Step rank r b b') (hi : b.Inv) : b'.Inv := by
  intro k T
  obtain ⟨s, hl, _, hk⟩ := h.eff T
  rw [hk, h.subsOf, hl, hi k T]
  split <;> simp

theorem subscribedTopics_append (xs ys : List BusOp) (k : Cid) :
    subscribedTopics (xs ++ ys) k = subscribedTopics xs k ++ subscribedTopics ys k := by
  simp [subscribedTopics]

theorem subscribedTopics_subscribe (k' : Cid) (Ts : List Topic) (xs : List BusOp) (k : Cid) :
    subscribedTopics (.subscribe k' Ts :: xs) k =
      (if k' = k then Ts else []) ++ subscribedTopics xs k := by
  simp [subscribedTopics]

theorem subscribedTopics_produce (T : Topic) (v : Int) (xs : List BusOp) (k : Cid) :
    subscribedTopics (.produce T v :: xs) k = subscribedTopics xs k := by
  simp [subscribedTopics]

section Fold
variable {h : Handler} {ops : List BusOp} {rank : Topic → Nat}

theorem subscribe_inv (hstrat : Stratified h rank) (n : Nat) (k : Cid) (Ts : List Topic)
    (b : Bus) (hinv : b.Inv) (hwf : Bus.WF ops b)
    (hTs : ∀ T ∈ Ts, T ∈ subscribedTopics ops k) (hnd : Ts.Nodup)
    (hnew : ∀ T ∈ Ts, k ∉ b.subsOf T) :
    (Bus.subscribe h n k Ts b).Inv ∧ Bus.WF ops (Bus.subscribe h n k Ts b) ∧
      ∀ k' T, k' ∈ (Bus.subscribe h n k Ts b).subsOf T → k' ∈ b.subsOf T ∨ (k' = k ∧ T ∈ Ts) := by
  induction Ts generalizing b with
  | nil => rw [Bus.subscribe]; exact ⟨hinv, hwf, fun _ _ hk => Or.inl hk⟩
  | cons T Ts ihTs =>
    rw [Bus.subscribe]
    rw [List.nodup_cons] at hnd
    let b1 : Bus := { b with subs := upsert b.subs T (sinsert (b.subsOf T) k) }
    show (Bus.subscribe h n k Ts (Bus.replay h n k T (b.log T) b1)).Inv ∧
      Bus.WF ops (Bus.subscribe h n k Ts (Bus.replay h n k T (b.log T) b1)) ∧
      ∀ k' T', k' ∈ (Bus.subscribe h n k Ts (Bus.replay h n k T (b.log T) b1)).subsOf T' →
        k' ∈ b.subsOf T' ∨ (k' = k ∧ T' ∈ T :: Ts)
    have hsub1 : ∀ T', b1.subsOf T' = if T = T' then sinsert (b.subsOf T) k else b.subsOf T' := by
      intro T'
      simp only [Bus.subsOf, b1, agetD_upsert]
    have hkT : k ∉ b.subsOf T := hnew T (by simp)
    have hwf1 : Bus.WF ops b1 := by
      constructor
      · intro T'
        rw [hsub1]
        split
        · exact bus_nodup_sinsert _ _ (hwf.1 T)
        · exact hwf.1 T'
      · intro k' T'
        rw [hsub1]
        split
        · rename_i hTT
          subst hTT
          rw [mem_sinsert]
          rintro (hk' | rfl)
          · exact hwf.2 k' T hk'
          · exact hTs T (by simp)
        · exact hwf.2 k' T'
    have hstep := replay_step hstrat n (fun m _ => push_step hstrat m) k T (b.log T) b1 hwf1
    have hinv1 : (b1.addRecv ((b.log T).map (fun v => (k, T, v)))).Inv := by
      intro k' T'
      rw [Bus.received_addRecv, recvOf_map_val, Bus.addRecv_subsOf, hsub1]
      have hr : b1.received k' T' = b.received k' T' := rfl
      have hl : (b1.addRecv ((b.log T).map (fun v => (k, T, v)))).log T' = b.log T' := rfl
      rw [hr, hl, hinv k' T']
      by_cases hT : T = T'
      · subst hT
        by_cases hk : k = k'
        · subst hk
          simp [hkT, mem_sinsert]
        · have hk' : ¬ k' = k := fun e => hk e.symm
          simp [hk, hk', mem_sinsert]
      · simp [hT]
    have hinv2 := hstep.inv hinv1
    have hwf2 : Bus.WF ops (Bus.replay h n k T (b.log T) b1) := hwf1.of_subs_eq hstep.subs
    have hsub2 : ∀ T', (Bus.replay h n k T (b.log T) b1).subsOf T' = b1.subsOf T' :=
      fun T' => hstep.subsOf T'
    have hnew2 : ∀ T' ∈ Ts, k ∉ (Bus.replay h n k T (b.log T) b1).subsOf T' := by
      intro T' hT'
      rw [hsub2, hsub1]
      have hne : ¬ T = T' := fun e => hnd.1 (e ▸ hT')
      rw [if_neg hne]
      exact hnew T' (by simp [hT'])
    obtain ⟨r1, r2, r3⟩ := ihTs _ hinv2 hwf2 (fun T' hT' => hTs T' (by simp [hT'])) hnd.2 hnew2
    refine ⟨r1, r2, fun k' T' hk' => ?_⟩
    rcases r3 k' T' hk' with hk'' | ⟨rfl, hT'⟩
    · rw [hsub2, hsub1] at hk''
      split at hk''
      · rename_i hTT
        subst hTT
        rw [mem_sinsert] at hk''
        rcases hk'' with hk'' | rfl
        · exact Or.inl hk''
        · exact Or.inr ⟨rfl, by simp⟩
      · exact Or.inl hk''
    · exact Or.inr ⟨rfl, by simp [hT']⟩

theorem fold_inv (hstrat : Stratified h rank) (honce : SubscribeOnce ops) (n : Nat)
    (post pre : List BusOp) (b : Bus) (heq : pre ++ post = ops) (hinv : b.Inv)
    (hwf : Bus.WF ops b) (hpre : ∀ k T, k ∈ b.subsOf T → T ∈ subscribedTopics pre k) :
    (post.foldl (Bus.apply h n) b).Inv := by
  induction post generalizing pre b with
  | nil => exact hinv
  | cons op post ihp =>
    rw [List.foldl_cons]
    have heq' : (pre ++ [op]) ++ post = ops := by simpa using heq
    cases op with
    | produce T v =>
      have hstep := push_step hstrat n b T v hwf
      refine ihp (pre ++ [.produce T v]) _ heq' (hstep.inv hinv) (hwf.of_subs_eq hstep.subs) ?_
      intro k T' hk
      rw [show Bus.apply h n b (.produce T v) = Bus.push h n b T v from rfl, hstep.subsOf] at hk
      rw [subscribedTopics_append]
      exact List.mem_append_left _ (hpre k T' hk)
    | subscribe k Ts =>
      have hall : subscribedTopics ops k =
          subscribedTopics pre k ++ (Ts ++ subscribedTopics post k) := by
        rw [← heq, subscribedTopics_append, subscribedTopics_subscribe, if_pos rfl]
      have hnd := honce k
      rw [hall, List.nodup_append] at hnd
      obtain ⟨_, hnd2, hdisj⟩ := hnd
      rw [List.nodup_append] at hnd2
      have hTs : ∀ T ∈ Ts, T ∈ subscribedTopics ops k := by
        intro T hT
        rw [hall]
        simp [hT]
      have hnew : ∀ T ∈ Ts, k ∉ b.subsOf T := by
        intro T hT hk
        exact hdisj T (hpre k T hk) T (by simp [hT]) rfl
      obtain ⟨r1, r2, r3⟩ := subscribe_inv hstrat n k Ts b hinv hwf hTs hnd2.1 hnew
      refine ihp (pre ++ [.subscribe k Ts]) _ heq' r1 r2 ?_
      intro k' T' hk'
      rw [subscribedTopics_append, subscribedTopics_subscribe]
      rcases r3 k' T' hk' with hk'' | ⟨rfl, hT'⟩
      · exact List.mem_append_left _ (hpre k' T' hk'')
      · simp [hT']

theorem bus_inv_of_history (hstrat : Stratified h rank) (honce : SubscribeOnce ops) (n : Nat) :
    (ops.foldl (Bus.apply h n) {}).Inv := by
  refine fold_inv hstrat honce n ops [] {} rfl ?_ ?_ ?_
  · intro k T; simp [Bus.received, Bus.subsOf, agetD, alookup]
  · constructor
    · intro T; simp [Bus.subsOf, agetD, alookup]
    · intro k T; simp [Bus.subsOf, agetD, alookup]
  · intro k T; simp [Bus.subsOf, agetD, alookup]

end Fold

/-! ## no handlers: the logs are the produced values -/

section NoHandlers

/-- the handler that never publishes -/
abbrev noHandler : Handler := fun _ _ _ => []

theorem deliver_noHandler (n : Nat) (b : Bus) (k : Cid) (T : Topic) (v : Int) :
    Bus.deliver noHandler n b k T v = b.addRecv [(k, T, v)] := by
  rw [Bus.deliver.eq_1, Bus.pushAll.eq_1]; rfl

theorem deliverAll_noHandler_topics (n : Nat) (T : Topic) (v : Int) (ks : List Cid) (b : Bus) :
    (Bus.deliverAll noHandler n T v ks b).topics = b.topics := by
  induction ks generalizing b with
  | nil => rw [Bus.deliverAll.eq_1]
  | cons k ks ih => rw [Bus.deliverAll.eq_2, ih, deliver_noHandler]; rfl

theorem replay_noHandler_topics (n : Nat) (k : Cid) (T : Topic) (vs : List Int) (b : Bus) :
    (Bus.replay noHandler n k T vs b).topics = b.topics := by
  induction vs generalizing b with
  | nil => rw [Bus.replay]
  | cons v vs ih => rw [Bus.replay, ih, deliver_noHandler]; rfl

theorem subscribe_noHandler_topics (n : Nat) (k : Cid) (Ts : List Topic) (b : Bus) :
    (Bus.subscribe noHandler n k Ts b).topics = b.topics := by
  induction Ts generalizing b with
  | nil => rw [Bus.subscribe]
  | cons T Ts ih => rw [Bus.subscribe, ih, replay_noHandler_topics]

theorem push_noHandler_log (n : Nat) (b : Bus) (T : Topic) (v : Int) (T' : Topic) :
    (Bus.push noHandler (n + 1) b T v).log T' = if T = T' then b.log T ++ [v] else b.log T' := by
  rw [Bus.push.eq_2]
  unfold Bus.log
  rw [deliverAll_noHandler_topics]
  simp only [agetD_upsert]

theorem fold_noHandler_log (ops : List BusOp) (n : Nat) (b : Bus) (T : Topic) :
    (ops.foldl (Bus.apply noHandler (n + 1)) b).log T =
      b.log T ++ ops.filterMap (fun op => match op with
        | .produce T' v => if T' = T then some v else none
        | .subscribe _ _ => none) := by
  induction ops generalizing b with
  | nil => simp
  | cons op ops ih =>
    rw [List.foldl_cons, ih]
    cases op with
    | produce T' v =>
      rw [show Bus.apply noHandler (n + 1) b (.produce T' v) = Bus.push noHandler (n + 1) b T' v
        from rfl, push_noHandler_log]
      by_cases hT : T' = T
      · subst hT; simp
      · simp [hT]
    | subscribe k Ts =>
      rw [show Bus.apply noHandler (n + 1) b (.subscribe k Ts) = Bus.subscribe noHandler (n + 1) k Ts b
        from rfl]
      unfold Bus.log
      rw [subscribe_noHandler_topics]
      simp

end NoHandlers

end Tickit

/-! ## nothing is dropped: logs only grow, and every recorded delivery's publications are logged -/

namespace Tickit

/-- subscriptions unchanged, logs only grow (unconditional: any handler, any fuel). -/
structure Bus.Le (b b' : Bus) : Prop where
  subs : b'.subs = b.subs
  logs : ∀ T x, x ∈ b.log T → x ∈ b'.log T

theorem Bus.Le.refl (b : Bus) : Bus.Le b b := ⟨rfl, fun _ _ hx => hx⟩

theorem Bus.Le.trans {b b' b'' : Bus} (h₁ : Bus.Le b b') (h₂ : Bus.Le b' b'') : Bus.Le b b'' :=
  ⟨h₂.subs.trans h₁.subs, fun T x hx => h₂.logs T x (h₁.logs T x hx)⟩

theorem Bus.log_setTopic (b : Bus) (T : Topic) (l : List Int) (T' : Topic) :
    ({ b with topics := upsert b.topics T l } : Bus).log T' = if T = T' then l else b.log T' := by
  simp only [Bus.log, agetD_upsert]

theorem Bus.le_setTopic (b : Bus) (T : Topic) (v : Int) :
    Bus.Le b { b with topics := upsert b.topics T (b.log T ++ [v]) } := by
  refine ⟨rfl, fun T' x hx => ?_⟩
  rw [Bus.log_setTopic]
  split
  · rename_i hT
    subst hT
    exact List.mem_append_left _ hx
  · exact hx

section LogsGrow
variable {h : Handler}

def PushLe (h : Handler) (n : Nat) : Prop := ∀ b T v, Bus.Le b (Bus.push h n b T v)

theorem pushAll_le (n : Nat) (ih : ∀ m < n, PushLe h m) (ps : List (Topic × Int)) (b : Bus) :
    Bus.Le b (Bus.pushAll h n ps b) := by
  induction ps generalizing b with
  | nil => rw [Bus.pushAll.eq_1]; exact Bus.Le.refl _
  | cons p ps ihps =>
    obtain ⟨T, v⟩ := p
    cases n with
    | zero => rw [Bus.pushAll.eq_2 h _ b (by simp)]; exact Bus.Le.refl _
    | succ n =>
      rw [Bus.pushAll.eq_3]
      exact (ih n (by omega) b T v).trans (ihps _)

theorem deliver_le (n : Nat) (ih : ∀ m < n, PushLe h m) (b : Bus) (k : Cid) (T : Topic) (v : Int) :
    Bus.Le b (Bus.deliver h n b k T v) := by
  rw [Bus.deliver.eq_1]
  have h2 := pushAll_le n ih (h k T v) { b with recv := b.recv ++ [(k, T, v)] }
  exact ⟨h2.subs, h2.logs⟩

theorem deliverAll_le (n : Nat) (ih : ∀ m < n, PushLe h m) (T : Topic) (v : Int) (ks : List Cid)
    (b : Bus) : Bus.Le b (Bus.deliverAll h n T v ks b) := by
  induction ks generalizing b with
  | nil => rw [Bus.deliverAll.eq_1]; exact Bus.Le.refl _
  | cons k ks ihks =>
    rw [Bus.deliverAll.eq_2]
    exact (deliver_le n ih b k T v).trans (ihks _)

theorem push_le (n : Nat) : PushLe h n := by
  induction n using Nat.strongRecOn with
  | _ n ih =>
    intro b T v
    cases n with
    | zero => rw [Bus.push.eq_1]; exact Bus.Le.refl _
    | succ n =>
      rw [Bus.push.eq_2]
      exact (Bus.le_setTopic b T v).trans
        (deliverAll_le n (fun m hm => ih m (by omega)) T v _ _)

/-- a `push` with fuel `≥ 1` logs its value. -/
theorem push_succ_mem (n : Nat) (b : Bus) (T : Topic) (v : Int) :
    v ∈ (Bus.push h (n + 1) b T v).log T := by
  rw [Bus.push.eq_2]
  refine (deliverAll_le n (fun m _ => push_le m) T v _ _).logs T v ?_
  rw [Bus.log_setTopic, if_pos rfl]
  simp

theorem replay_le (n : Nat) (k : Cid) (T : Topic) (vs : List Int) (b : Bus) :
    Bus.Le b (Bus.replay h n k T vs b) := by
  induction vs generalizing b with
  | nil => rw [Bus.replay]; exact Bus.Le.refl _
  | cons v vs ihvs =>
    rw [Bus.replay]
    exact (deliver_le n (fun m _ => push_le m) b k T v).trans (ihvs _)

theorem subscribe_logs (n : Nat) (k : Cid) (Ts : List Topic) (b : Bus) (T' : Topic) (x : Int)
    (hx : x ∈ b.log T') : x ∈ (Bus.subscribe h n k Ts b).log T' := by
  induction Ts generalizing b with
  | nil => rw [Bus.subscribe]; exact hx
  | cons T Ts ihTs =>
    rw [Bus.subscribe]
    refine ihTs _ ?_
    exact (replay_le n k T _ _).logs T' x hx

theorem apply_logs (n : Nat) (b : Bus) (op : BusOp) (T' : Topic) (x : Int) (hx : x ∈ b.log T') :
    x ∈ (Bus.apply h n b op).log T' := by
  cases op with
  | subscribe k Ts => exact subscribe_logs n k Ts b T' x hx
  | produce T v => exact (push_le n b T v).logs T' x hx

theorem fold_logs (n : Nat) (ops : List BusOp) (b : Bus) (T' : Topic) (x : Int)
    (hx : x ∈ b.log T') : x ∈ (ops.foldl (Bus.apply h n) b).log T' := by
  induction ops generalizing b with
  | nil => exact hx
  | cons op ops ih => rw [List.foldl_cons]; exact ih _ (apply_logs n b op T' x hx)

theorem fold_produced_logged (n : Nat) (ops : List BusOp) (b : Bus) (T : Topic) (v : Int)
    (hp : BusOp.produce T v ∈ ops) : v ∈ (ops.foldl (Bus.apply h (n + 1)) b).log T := by
  induction ops generalizing b with
  | nil => cases hp
  | cons op ops ih =>
    rw [List.foldl_cons]
    rcases List.mem_cons.mp hp with rfl | hp
    · exact fold_logs _ _ _ _ _ (push_succ_mem n b T v)
    · exact ih _ hp

end LogsGrow

/-- every recorded delivery's handler publications are in the logs. -/
def Bus.Closed (h : Handler) (b : Bus) : Prop :=
  ∀ e ∈ b.recv, ∀ p ∈ h e.1 e.2.1 e.2.2, p.2 ∈ b.log p.1

/-- `Le`, and every NEW recorded delivery has its handler's publications logged. -/
structure Bus.Grow (h : Handler) (b b' : Bus) : Prop where
  le : Bus.Le b b'
  recv : ∀ e ∈ b'.recv, e ∈ b.recv ∨ ∀ p ∈ h e.1 e.2.1 e.2.2, p.2 ∈ b'.log p.1

theorem Bus.Grow.refl (h : Handler) (b : Bus) : Bus.Grow h b b :=
  ⟨Bus.Le.refl b, fun _ he => Or.inl he⟩

theorem Bus.Grow.trans {h : Handler} {b b' b'' : Bus} (h₁ : Bus.Grow h b b')
    (h₂ : Bus.Grow h b' b'') : Bus.Grow h b b'' := by
  refine ⟨h₁.le.trans h₂.le, fun e he => ?_⟩
  rcases h₂.recv e he with he' | hc
  · rcases h₁.recv e he' with he'' | hc
    · exact Or.inl he''
    · exact Or.inr (fun p hp => h₂.le.logs _ _ (hc p hp))
  · exact Or.inr hc

theorem Bus.Grow.closed {h : Handler} {b b' : Bus} (hg : Bus.Grow h b b') (hc : b.Closed h) :
    b'.Closed h := by
  intro e he p hp
  rcases hg.recv e he with he' | hc'
  · exact hg.le.logs _ _ (hc e he' p hp)
  · exact hc' p hp

section Logged
variable {h : Handler} {rank : Topic → Nat} {N : Nat}

/-- a push to `T` with fuel `n` is deep enough when `2 * (N - rank T) ≤ n`: the nesting depth of a
push is at most the rank of its topic, and every level costs two units of fuel. -/
def PushG (h : Handler) (rank : Topic → Nat) (N n : Nat) : Prop :=
  ∀ b T v, 2 * N ≤ n + 2 * rank T → Bus.Grow h b (Bus.push h n b T v)

theorem pushAll_grow (hN : ∀ T, rank T < N) (n : Nat) (ih : ∀ m < n, PushG h rank N m)
    (ps : List (Topic × Int)) (b : Bus)
    (hps : ∀ p ∈ ps, 2 * N + 1 ≤ n + 2 * rank p.1) :
    Bus.Grow h b (Bus.pushAll h n ps b) ∧ ∀ p ∈ ps, p.2 ∈ (Bus.pushAll h n ps b).log p.1 := by
  induction ps generalizing b with
  | nil => rw [Bus.pushAll.eq_1]; exact ⟨Bus.Grow.refl h b, by simp⟩
  | cons p ps ihps =>
    obtain ⟨T, v⟩ := p
    have hT : 2 * N + 1 ≤ n + 2 * rank T := hps (T, v) (by simp)
    have hNT := hN T
    cases n with
    | zero => omega
    | succ n =>
      rw [Bus.pushAll.eq_3]
      have h1 : Bus.Grow h b (Bus.push h n b T v) := ih n (by omega) b T v (by omega)
      have hv : v ∈ (Bus.push h n b T v).log T := by
        obtain ⟨m, rfl⟩ : ∃ m, n = m + 1 := ⟨n - 1, by omega⟩
        exact push_succ_mem m b T v
      obtain ⟨h2, hall⟩ := ihps _ (fun p hp => hps p (by simp [hp]))
      refine ⟨h1.trans h2, fun p hp => ?_⟩
      rcases List.mem_cons.mp hp with rfl | hp
      · exact h2.le.logs _ _ hv
      · exact hall p hp

theorem deliver_grow (hstrat : Stratified h rank) (hN : ∀ T, rank T < N) (n : Nat)
    (ih : ∀ m < n, PushG h rank N m) (b : Bus) (k : Cid) (T : Topic) (v : Int)
    (hf : 2 * N ≤ n + 1 + 2 * rank T) : Bus.Grow h b (Bus.deliver h n b k T v) := by
  rw [Bus.deliver.eq_1]
  obtain ⟨hg, hall⟩ := pushAll_grow hN n ih (h k T v) { b with recv := b.recv ++ [(k, T, v)] }
    (fun p hp => by have := hstrat k T v p.1 p.2 hp; omega)
  refine ⟨⟨hg.le.subs, hg.le.logs⟩, fun e he => ?_⟩
  rcases hg.recv e he with he' | hc
  · simp only [List.mem_append, List.mem_singleton] at he'
    rcases he' with he' | rfl
    · exact Or.inl he'
    · exact Or.inr hall
  · exact Or.inr hc

theorem deliverAll_grow (hstrat : Stratified h rank) (hN : ∀ T, rank T < N) (n : Nat)
    (ih : ∀ m < n, PushG h rank N m) (T : Topic) (v : Int) (ks : List Cid) (b : Bus)
    (hf : 2 * N ≤ n + 1 + 2 * rank T) : Bus.Grow h b (Bus.deliverAll h n T v ks b) := by
  induction ks generalizing b with
  | nil => rw [Bus.deliverAll.eq_1]; exact Bus.Grow.refl h b
  | cons k ks ihks =>
    rw [Bus.deliverAll.eq_2]
    exact (deliver_grow hstrat hN n ih b k T v hf).trans (ihks _)

theorem push_grow (hstrat : Stratified h rank) (hN : ∀ T, rank T < N) (n : Nat) :
    PushG h rank N n := by
  induction n using Nat.strongRecOn with
  | _ n ih =>
    intro b T v hf
    have hNT := hN T
    cases n with
    | zero => omega
    | succ n =>
      rw [Bus.push.eq_2]
      have h1 : Bus.Grow h b { b with topics := upsert b.topics T (b.log T ++ [v]) } :=
        ⟨Bus.le_setTopic b T v, fun _ he => Or.inl he⟩
      refine h1.trans ?_
      exact deliverAll_grow hstrat hN n (fun m hm => ih m (by omega)) T v _ _ (by omega)

theorem replay_grow (hstrat : Stratified h rank) (hN : ∀ T, rank T < N) (n : Nat) (k : Cid)
    (T : Topic) (vs : List Int) (b : Bus) (hf : 2 * N ≤ n + 1 + 2 * rank T) :
    Bus.Grow h b (Bus.replay h n k T vs b) := by
  induction vs generalizing b with
  | nil => rw [Bus.replay]; exact Bus.Grow.refl h b
  | cons v vs ihvs =>
    rw [Bus.replay]
    exact (deliver_grow hstrat hN n (fun m _ => push_grow hstrat hN m) b k T v hf).trans (ihvs _)

theorem subscribe_closed (hstrat : Stratified h rank) (hN : ∀ T, rank T < N) (n : Nat)
    (hf : 2 * N ≤ n + 1) (k : Cid) (Ts : List Topic) (b : Bus) (hc : b.Closed h) :
    (Bus.subscribe h n k Ts b).Closed h := by
  induction Ts generalizing b with
  | nil => rw [Bus.subscribe]; exact hc
  | cons T Ts ihTs =>
    rw [Bus.subscribe]
    let b1 : Bus := { b with subs := upsert b.subs T (sinsert (b.subsOf T) k) }
    show (Bus.subscribe h n k Ts (Bus.replay h n k T (b.log T) b1)).Closed h
    have hc1 : b1.Closed h := fun e he p hp => hc e he p hp
    have hg := replay_grow hstrat hN n k T (b.log T) b1 (by omega)
    exact ihTs _ (hg.closed hc1)

theorem fold_closed (hstrat : Stratified h rank) (hN : ∀ T, rank T < N) (n : Nat)
    (hf : 2 * N ≤ n) (ops : List BusOp) (b : Bus) (hc : b.Closed h) :
    (ops.foldl (Bus.apply h n) b).Closed h := by
  induction ops generalizing b with
  | nil => exact hc
  | cons op ops ihp =>
    rw [List.foldl_cons]
    cases op with
    | produce T v =>
      have hg : Bus.Grow h b (Bus.push h n b T v) := push_grow hstrat hN n b T v (by omega)
      exact ihp _ (hg.closed hc)
    | subscribe k Ts =>
      exact ihp _ (subscribe_closed hstrat hN n (by omega) k Ts b hc)

theorem closed_of_history (hstrat : Stratified h rank) (hN : ∀ T, rank T < N) (n : Nat)
    (hf : 2 * N ≤ n) (ops : List BusOp) : (ops.foldl (Bus.apply h n) {}).Closed h := by
  refine fold_closed hstrat hN n hf ops {} ?_
  intro e he; simp at he

end Logged

end Tickit
