/-
Helper lemmas for C09, part 21 (external stimuli): vocabulary — interrupt-safe oracles, timely
stimuli, the correspondence `CorrP` with pending interrupts — and the fuel needed to raise an
interrupt (not more than a completed tick has used).
-/
import TickitModel.Lemmas.FlattenCorr

namespace Tickit

/-! ### hypotheses on the stimuli -/

/-- device `d` never requests a callback -/
def Oracle.Quiet (orc : Oracle) (d : Comp) : Prop := ∀ r ∈ agetD orc d [], r.callAt = none

/-- device `d` requests a callback at every update -/
def Oracle.Periodic (orc : Oracle) (d : Comp) : Prop := ∀ r ∈ agetD orc d [], r.callAt.isSome = true

/-- every interrupted device either re-requests a callback at every update or never requests one -/
def Oracle.InterruptSafe (orc : Oracle) (stims : List Stim) : Prop :=
  ∀ st ∈ stims, orc.Quiet st.comp ∨ orc.Periodic st.comp

/-- the stimuli are *timely* along the (nested) run: the stamp of an interrupt is not later than
the earliest pending wakeup, and all interrupts raised between two ticks carry the same stamp
(`pending` = an interrupt has been raised since the last tick).  Mirrors `masterRun`. -/
def stimsTimely (S : Static) (orc : Oracle) (fuel : Nat) (s : Speed) :
    Nat → Nat → Bool → MasterSt → List Stim → Bool
  | 0, _, _, _, _ => true
  | _, 0, _, _, _ => true
  | steps + 1, nTicks + 1, pending, m, stims =>
    let wake := (m.sim.sched "").wake
    let (comps, whenT) := firstWakeups wake
    let due : Option Int := whenT.map (dueReal m s)
    let stimFirst : Option (Stim × List Stim) := match stims with
      | [] => none
      | st :: rest => match due with
        | none => some (st, rest)
        | some d => if st.real ≤ d then some (st, rest) else none
    match stimFirst with
    | some (st, rest) =>
      let now := if st.real < m.now then m.now else st.real
      let (sim', top) := raiseInterrupt S fuel st.comp m.sim
      let stamp := interruptStamp m.tickerTime now m.lastReal s
      let sc := sim'.sched ""
      -- as in `masterRun`: an earlier wakeup of `top` is kept (under the condition checked below
      -- there is none, `when = stamp`)
      let when := match alookup sc.wake top with
        | some w => if w < stamp then w else stamp
        | none => stamp
      let sim'' := { sim' with scheds := upsert sim'.scheds "" { sc with wake := addWakeup sc.wake top when } }
      (match whenT with
        | none => true
        | some w => if pending then decide (stamp = w) else decide (stamp ≤ w)) &&
      stimsTimely S orc fuel s steps (nTicks + 1) true { m with sim := sim'', now := now } rest
    | none =>
      match whenT, due with
      | some w, some d =>
        let sc := m.sim.sched ""
        let sim1 := { m.sim with scheds := upsert m.sim.scheds "" { sc with wake := delWakeups sc.wake comps } }
        match tickLevel S orc fuel "" w comps [] sim1 with
        | .error _ => true
        | .ok (sim2, _) =>
          stimsTimely S orc fuel s steps nTicks false { sim := sim2, tickerTime := w, lastReal := d, now := d } stims
      | _, _ => true

/-! ### how far below a level a component lies -/

/-- `S.Up lvl c k`: `c` lies `k` levels below scheduler level `lvl` -/
inductive Static.Up (S : Static) (lvl : Comp) : Comp → Nat → Prop
  | direct {c : Comp} : alookup S.parent c = some lvl → Static.Up S lvl c 1
  | step {c p : Comp} {k : Nat} : alookup S.parent c = some p → p ≠ "" → Static.Up S lvl p k →
      Static.Up S lvl c (k + 1)

theorem Static.Up.lift {S : Static} {lvl c x : Comp} {k : Nat} (hc : alookup S.parent c = some lvl)
    (hne : c ≠ "") (h : S.Up c x k) : S.Up lvl x (k + 1) := by
  induction h with
  | direct h => exact .step h hne (.direct hc)
  | step h hp _ ih => exact .step h hp ih

theorem Static.Up.pos {S : Static} {lvl x : Comp} {k : Nat} (h : S.Up lvl x k) : 1 ≤ k := by
  cases h <;> omega

/-- the observations made by a tick with `f` units of fuel lie at most `f` levels below it -/
def FuelPost (S : Static) (lvl : Comp) (f : Nat) (st st' : SimSt) : Prop :=
  ∃ new, st'.obs = st.obs ++ new ∧ ∀ o ∈ new, ∃ k, S.Up lvl o.comp k ∧ k ≤ f

theorem simAnswer_fuel {S : Static} (hS : S.WF) {orc : Oracle} {fuel : Nat}
    (IH : ∀ lvl t roots inCh st st' out,
      tickLevel S orc fuel lvl t roots inCh st = .ok (st', out) → FuelPost S lvl fuel st st')
    {L : Level} (hL : L ∈ S.levels) {inCh : List (Port × V)} {st : SimSt} {outCh0 : List (Port × V)}
    {d : Dispatch V} (hc : d.comp ∈ L.wiring.components)
    {st' : SimSt} {outCh' changes : List (Port × V)} {callAt : Option SimTime}
    (h : simAnswer S orc fuel L inCh st outCh0 d = .ok (st', outCh', changes, callAt)) :
    FuelPost S L.name (fuel + 1) st st' := by
  cases d with
  | skip c t =>
    simp only [simAnswer, Except.ok.injEq, Prod.mk.injEq] at h
    obtain ⟨rfl, _⟩ := h
    exact ⟨[], by simp, by simp⟩
  | input c t ins =>
    simp only [Dispatch.comp] at hc
    have hmem := hS.members L hL c hc
    simp only [simAnswer] at h
    split at h
    · simp only [Except.ok.injEq, Prod.mk.injEq] at h
      obtain ⟨rfl, _⟩ := h
      exact ⟨[], by simp, by simp⟩
    · rename_i hx
      split at h
      · simp only [Except.ok.injEq, Prod.mk.injEq] at h
        obtain ⟨rfl, _⟩ := h
        exact ⟨[], by simp, by simp⟩
      · rename_i hy
        have hpar : alookup S.parent c = some L.name := by
          rcases hmem with h' | ⟨hne, h' | h'⟩
          · exact h'
          · exact absurd (by simp [hne, h']) hx
          · exact absurd (by simp [hne, h']) hy
        split at h
        · split at h
          · cases h
          · rename_i st2 outCh hr
            simp only [Except.ok.injEq, Prod.mk.injEq] at h
            obtain ⟨rfl, _⟩ := h
            obtain ⟨new, hobs, hk⟩ := IH _ _ _ _ _ _ _ hr
            obtain ⟨Lc, hLc, hroots⟩ := tickLevel_ok_roots hr
            obtain ⟨hLc1, hLc2⟩ := Static.level_some hLc
            have hcne : c ≠ "" := by
              have hext : pseudoExternal ∈ Lc.wiring.components :=
                hroots _ (by simp [mem_sunion])
              rcases hS.members Lc hLc1 _ hext with h' | ⟨hne, _⟩
              · rw [hS.pseudo_fresh.1] at h'; cases h'
              · rwa [hLc2] at hne
            refine ⟨new, hobs, fun o ho => ?_⟩
            obtain ⟨k, hu, hle⟩ := hk o ho
            exact ⟨k + 1, hu.lift hpar hcne, by omega⟩
        · split at h
          · cases h
          · split at h
            · cases h
            · simp only [Except.ok.injEq, Prod.mk.injEq] at h
              obtain ⟨rfl, _⟩ := h
              refine ⟨[_], rfl, fun o ho => ?_⟩
              simp only [List.mem_singleton] at ho
              subst ho
              exact ⟨1, .direct hpar, by omega⟩

theorem tickLoop_fuel {S : Static} (hS : S.WF) {orc : Oracle} {fuel : Nat}
    (IH : ∀ lvl t roots inCh st st' out,
      tickLevel S orc fuel lvl t roots inCh st = .ok (st', out) → FuelPost S lvl fuel st st')
    {L : Level} (hL : L ∈ S.levels) {inCh : List (Port × V)} {st0 : SimSt} :
    ∀ (steps : Nat) (ls : LoopSt), (∀ d ∈ ls.pending, d.comp ∈ L.wiring.components) →
      FuelPost S L.name (fuel + 1) st0 ls.st →
      ∀ st' out, tickLoop S orc fuel steps L inCh ls = .ok (st', out) →
        FuelPost S L.name (fuel + 1) st0 st' := by
  intro steps
  induction steps with
  | zero =>
    intro ls _ _ st' out h
    rw [tickLoop_zero] at h; cases h
  | succ steps ih =>
    intro ls hpc hf st' out h
    cases hp : ls.pending with
    | nil =>
      rw [tickLoop_nil _ _ _ _ _ _ _ hp] at h
      split at h
      · simp only [Except.ok.injEq, Prod.mk.injEq] at h
        obtain ⟨rfl, _⟩ := h
        exact hf
      · cases h
    | cons d rest =>
      rw [tickLoop_cons _ _ _ _ _ _ _ _ _ hp] at h
      split at h
      · cases h
      · rename_i st1 outCh1 changes callAt ha
        split at h
        · cases h
        · rename_i tk' ds hprop
          obtain ⟨_, _, hsl, _, _, _⟩ := sim_propagate_eq_ok hprop
          have hdc : d.comp ∈ L.wiring.components := hpc d (by rw [hp]; simp)
          obtain ⟨new1, hobs1, hk1⟩ := simAnswer_fuel hS IH hL hdc ha
          obtain ⟨new0, hobs0, hk0⟩ := hf
          refine ih ⟨tk', rest ++ ds, outCh1, simWake st1 L.name d.comp callAt⟩ ?_ ?_ st' out h
          · intro d' hd'
            rcases List.mem_append.1 hd' with hd' | hd'
            · exact hpc d' (by rw [hp]; exact List.mem_cons_of_mem _ hd')
            · exact (sim_scheduleLoop_mem hsl hd').1
          · refine ⟨new0 ++ new1, ?_, ?_⟩
            · show (simWake st1 L.name d.comp callAt).obs = _
              rw [simWake_obs, hobs1, hobs0, List.append_assoc]
            · intro o ho
              rcases List.mem_append.1 ho with ho | ho
              · exact hk0 o ho
              · exact hk1 o ho

theorem tickLevel_fuel {S : Static} (hS : S.WF) (orc : Oracle) :
    ∀ (fuel : Nat) (lvl : Comp) (t : SimTime) (roots : List Comp) (inCh : List (Port × V))
      (st st' : SimSt) (out : List (Port × V)),
      tickLevel S orc fuel lvl t roots inCh st = .ok (st', out) → FuelPost S lvl fuel st st' := by
  intro fuel
  induction fuel with
  | zero =>
    intro lvl t roots inCh st st' out h
    rw [tickLevel] at h; cases h
  | succ fuel IH =>
    intro lvl t roots inCh st st' out h
    rw [tickLevel.eq_2] at h
    split at h
    · cases h
    · rename_i L hLv
      split at h
      · cases h
      · rename_i tk ds hcall
        obtain ⟨hs, _, _, _⟩ := sim_call_eq_ok hcall
        obtain ⟨hL, hname⟩ := Static.level_some hLv
        subst hname
        exact tickLoop_fuel hS IH hL _ ⟨tk, ds, [], st⟩
          (fun d hd => (sim_scheduleLoop_mem hs hd).1) ⟨[], by simp, by simp⟩ st' out h

/-- after a completed initial tick, every device lies at most `fuel` levels below the master -/
theorem masterInitial_fuel {S : Static} (hS : S.Valid) {orc : Oracle} {n : Nat}
    (hst : S.ResolveStable n) {fuel : Nat} {t0 : SimTime} {now : Int} {m : MasterSt} {tr : TickRec}
    (h : masterInitial S orc fuel t0 now = .ok (m, tr)) :
    ∀ d, S.isDevice d → ∃ k, S.Up "" d k ∧ k ≤ fuel := by
  intro d hd
  have hf := masterInitial_facts hS hst h
  obtain ⟨L, out, hL, ht⟩ := masterInitial_tick h
  obtain ⟨new, hobs, hk⟩ := tickLevel_fuel hS.toWF orc _ _ _ _ _ _ _ _ ht
  have hnew : m.sim.obs = new := by simpa using hobs
  obtain ⟨o, ho, rfl⟩ := List.mem_map.1 (hf.all d hd)
  exact hk o (hnew ▸ ho)

end Tickit
