/-
Helper lemmas for C09, part 10: a (callback) tick of a configuration without system simulations
cannot fail, provided the oracle has non-raising responses for a set `U` of devices that
contains the roots and is closed under "an input changes".
-/
import TickitModel.Lemmas.FlattenEqs
import TickitModel.Lemmas.FlattenRun

namespace Tickit

/-- the answer of a device whose state is still that of `σ`, in a level without mock components -/
theorem flt_simAnswer_gen {S : Static} (hnosys : ∀ c, S.isSys c = false) {orc : Oracle} (fuel : Nat)
    {L : Level} (hname : L.name = "") (inCh : List (Port × V)) {σ : SimSt} (st : SimSt)
    (out0 : List (Port × V)) (d : Dispatch V)
    (horc : (∃ ins, d = .input d.comp d.time ins) → ∃ r, stepResp orc σ d.comp = some r ∧ r.raises = false)
    (hfresh : agetD st.devs d.comp {} = agetD σ.devs d.comp {} ∧
      agetD st.count d.comp 0 = agetD σ.count d.comp 0) :
    ∃ st' out' ch callAt, simAnswer S orc fuel L inCh st out0 d = .ok (st', out', ch, callAt) ∧
      (ch = [] ∨ ((∃ ins, d = .input d.comp d.time ins) ∧ ch = stepChg orc σ d.comp)) ∧
      ∀ x, x ≠ d.comp → agetD st'.devs x {} = agetD st.devs x {} ∧
        agetD st'.count x 0 = agetD st.count x 0 := by
  cases d with
  | skip c t => exact ⟨st, out0, [], none, rfl, Or.inl rfl, fun _ _ => ⟨rfl, rfl⟩⟩
  | input c t ins =>
    obtain ⟨r, hr, hraise⟩ := horc ⟨ins, rfl⟩
    simp only [Dispatch.comp] at hr hfresh hraise ⊢
    have hr' : (agetD orc c [])[agetD st.count c 0]? = some r := by
      rw [hfresh.2]; exact hr
    simp only [simAnswer, hname, bne_self_eq_false, Bool.false_and, Bool.false_eq_true, if_false,
      hnosys c, hr', hraise]
    refine ⟨_, _, _, _, rfl, Or.inr ⟨⟨ins, rfl⟩, ?_⟩, fun x hx => ?_⟩
    · unfold stepChg
      rw [hr, hfresh.1]
      rfl
    · simp [sim_agetD_upsert, Ne.symm hx]

/-- **no failure of a flat callback tick** -/
theorem flat_tickLoop_gen {S : Static} (hnosys : ∀ c, S.isSys c = false) {orc : Oracle} (fuel : Nat)
    {L : Level} (hname : L.name = "") (hw : RouterOK L.wiring) (hacyc : L.wiring.Acyclic)
    {t : SimTime} {roots : List Comp}
    (hups : ∀ c ∈ extent L.wiring roots, (L.wiring.ups c).isSome = true) {σ : SimSt}
    (U : Comp → Prop)
    (hUorc : ∀ c, U c → ∃ r, stepResp orc σ c = some r ∧ r.raises = false)
    (hUroot : ∀ c ∈ roots, U c)
    (hUfed : ∀ c a p q v, L.wiring.Conn a p c q → U a → alookup (stepChg orc σ a) p = some v → U c)
    (inCh : List (Port × V)) :
    ∀ (k steps : Nat) (ls : LoopSt) (trace : List (Ev V)),
      PreInv L.wiring t roots ls.tk.toUpdate ls.pending trace → Complete L.wiring ls.tk.toUpdate →
      ls.tk.time = t → ls.tk.roots = roots → InputsInv L.wiring ls.tk.inputs trace →
      (∀ a chs, Ev.answer a chs ∈ trace → chs = [] ∨ (U a ∧ chs = stepChg orc σ a)) →
      (∀ d ∈ ls.pending, (∃ ins, d = .input d.comp d.time ins) → U d.comp) →
      (∀ c, alookup ls.tk.toUpdate c ≠ none →
        agetD ls.st.devs c {} = agetD σ.devs c {} ∧ agetD ls.st.count c 0 = agetD σ.count c 0) →
      ls.tk.toUpdate.length = k → k + 1 ≤ steps →
      ∃ r, tickLoop S orc fuel steps L inCh ls = .ok r := by
  intro k
  induction k with
  | zero =>
    intro steps ls trace hp _ _ _ _ _ _ _ hk hsteps
    have htu : ls.tk.toUpdate = [] := List.eq_nil_of_length_eq_zero hk
    obtain ⟨steps', rfl⟩ : ∃ s', steps = s' + 1 := ⟨steps - 1, by omega⟩
    have hpend : ls.pending = [] := by
      cases hpd : ls.pending with
      | nil => rfl
      | cons d rest =>
        have := (hp.pend_flag d.comp).1 ⟨d, by rw [hpd]; simp, rfl⟩
        rw [htu] at this; cases this
    rw [tickLoop_nil _ _ _ _ _ _ _ hpend, htu]
    exact ⟨_, rfl⟩
  | succ k ih =>
    intro steps ls trace hp hc ht hro hin hans hpU hfresh hk hsteps
    obtain ⟨steps', rfl⟩ : ∃ s', steps = s' + 1 := ⟨steps - 1, by omega⟩
    have hne : ls.tk.toUpdate ≠ [] := by
      intro h; rw [h] at hk; cases hk
    cases hpd : ls.pending with
    | nil => exact absurd hpd (flt_progress hacyc hp hc hne)
    | cons d rest =>
      have hdm : d ∈ ls.pending := by rw [hpd]; simp
      have hd0 : ls.pending[0]? = some d := by rw [hpd]; rfl
      have h0 : alookup ls.tk.toUpdate d.comp = some true := (hp.pend_flag _).1 ⟨d, hdm, rfl⟩
      have hne0 : alookup ls.tk.toUpdate d.comp ≠ none := by rw [h0]; simp
      have hdt : d.time = ls.tk.time := (hp.disp_ext d (hp.pend_trace d hdm)).2.trans ht.symm
      obtain ⟨st', out', ch, callAt, ha, hch, hframe⟩ :=
        flt_simAnswer_gen hnosys fuel hname inCh (σ := σ) ls.st ls.outCh d
          (fun hi => hUorc _ (hpU d hdm hi)) (hfresh _ hne0)
      obtain ⟨tk', ds, hprop⟩ := flt_propagate_ok (w := L.wiring) ch hne0 hdt
        (fun e he _ => hups e.1 (hp.keys_ext e.1 (alookup_ne_none_iff.2
          (mem_akeys_of_mem_akeys_aerase (mem_akeys_of_mem he)))))
      obtain ⟨_, _, hsl, htu, htk, hro'⟩ := sim_propagate_eq_ok hprop
      have hinp := flt_propagate_inputs hprop
      have hpA := hp.answer hd0 ch
      have hS := hpA.schedule (tk := ls.tk.afterAnswer L.wiring d.comp ch) ht hsl
      have hchn : (akeys ch).Nodup := by
        rcases hch with h | ⟨_, h⟩
        · rw [h]; simp
        · rw [h]; exact flt_nodup_stepChg _ _ _
      have hfr : ∀ ch', Ev.answer d.comp ch' ∉ trace := by
        intro ch' hm
        have := (hp.resolved d.comp (hp.keys_ext _ hne0)).2 ⟨ch', hm⟩
        rw [h0] at this; cases this
      have hinA : InputsInv L.wiring (addInputs ls.tk.inputs (L.wiring.route d.comp ch))
          (trace ++ [Ev.answer d.comp ch]) := hin.answer hw hchn hfr
      have hansA : ∀ a chs, Ev.answer a chs ∈ trace ++ [Ev.answer d.comp ch] →
          chs = [] ∨ (U a ∧ chs = stepChg orc σ a) := by
        intro a chs hm
        simp only [List.mem_append, List.mem_singleton, Ev.answer.injEq] at hm
        rcases hm with hm | ⟨rfl, rfl⟩
        · exact hans a chs hm
        · rcases hch with h | ⟨hi, h⟩
          · exact Or.inl h
          · exact Or.inr ⟨hpU d hdm hi, h⟩
      rw [tickLoop_cons _ _ _ _ _ _ _ _ _ hpd, ha]
      simp only [hprop]
      refine ih steps' ⟨tk', rest ++ ds, out', simWake st' L.name d.comp callAt⟩
        (trace ++ [Ev.answer d.comp ch] ++ ds.map Ev.dispatch) ?_ ?_ (htk.trans ht)
        (hro'.trans hro) ?_ ?_ ?_ ?_ ?_ (by omega)
      · have := hS.1
        rw [hpd] at this
        show PreInv L.wiring t roots tk'.toUpdate (rest ++ ds) _
        rw [htu]; exact this
      · show Complete L.wiring tk'.toUpdate
        rw [htu]; exact hS.2
      · show InputsInv L.wiring tk'.inputs _
        rw [hinp]
        exact hinA.congr (by simp)
      · intro a chs hm
        apply hansA
        simpa using hm
      · intro d' hd' hi'
        show U d'.comp
        rcases List.mem_append.1 hd' with hd' | hd'
        · exact hpU d' (by rw [hpd]; exact List.mem_cons_of_mem _ hd') hi'
        · -- a freshly scheduled `Input`: a root, or some input changed
          have hdec : d' = (ls.tk.afterAnswer L.wiring d.comp ch).decide d'.comp := by
            have := (scheduleLoop_spec hsl).1
            rw [this] at hd'
            obtain ⟨e, _, rfl⟩ := List.mem_map.1 hd'
            simp
          rcases (ls.tk.afterAnswer L.wiring d.comp ch).decide_cases d'.comp with
            ⟨_, h2⟩ | ⟨h1, _⟩
          · rcases h2 with h2 | h2
            · obtain ⟨q, v, hq⟩ := ne_nil_iff_exists_alookup.1 h2
              obtain ⟨a, chs, p, hm, hconn, hv⟩ := (hinA d'.comp q v).1 hq
              rcases hansA a chs hm with h | ⟨hUa, h⟩
              · rw [h] at hv; simp at hv
              · rw [h] at hv
                exact hUfed _ a p q v hconn hUa hv
            · exact hUroot _ (by
                have : (ls.tk.afterAnswer L.wiring d.comp ch).roots = roots := hro
                rw [← this]; exact h2)
          · obtain ⟨ins', hi'⟩ := hi'
            rw [← hdec] at h1
            rw [h1] at hi'
            cases hi'
      · intro c hcne
        show agetD (simWake st' L.name d.comp callAt).devs c {} = _ ∧
          agetD (simWake st' L.name d.comp callAt).count c 0 = _
        rw [simWake_devs, simWake_count]
        have hcne' : alookup tk'.toUpdate c ≠ none := hcne
        rw [htu, Ne, alookup_markDispatched_eq_none, alookup_aerase hp.nodup] at hcne'
        by_cases hcd : c = d.comp
        · simp [hcd] at hcne'
        · simp only [hcd, if_false] at hcne'
          obtain ⟨f1, f2⟩ := hframe c hcd
          obtain ⟨g1, g2⟩ := hfresh c hcne'
          exact ⟨f1.trans g1, f2.trans g2⟩
      · show tk'.toUpdate.length = k
        rw [htu, length_markDispatched]
        have := length_aerase (alookup_ne_none_iff.1 hne0)
        omega

/-- a callback tick of a flat, acyclic configuration succeeds -/
theorem flat_tickLevel_gen {S : Static} (hnosys : ∀ c, S.isSys c = false) {orc : Oracle}
    {L : Level} (hLv : S.level "" = some L) (hw : RouterOK L.wiring) (hacyc : L.wiring.Acyclic)
    (t : SimTime) {roots : List Comp} (hroots : ∀ r ∈ roots, r ∈ L.wiring.components) (σ : SimSt)
    (U : Comp → Prop)
    (hUorc : ∀ c, U c → ∃ r, stepResp orc σ c = some r ∧ r.raises = false)
    (hUroot : ∀ c ∈ roots, U c)
    (hUfed : ∀ c a p q v, L.wiring.Conn a p c q → U a → alookup (stepChg orc σ a) p = some v → U c)
    (fuel : Nat) :
    ∃ r, tickLevel S orc (fuel + 1) "" t roots [] σ = .ok r := by
  have hname : L.name = "" := (Static.level_some hLv).2
  have hsub : ∀ c ∈ extent L.wiring roots, c ∈ L.wiring.components := by
    intro c hc
    obtain ⟨r, hr, hcr⟩ := (sim_mem_extent_iff L.wiring roots c).1 hc
    unfold Wiring.dependants at hcr
    refine bfs_sound L.wiring.children (· ∈ L.wiring.components) ?_ L.wiring.bfsFuel [r] [] ?_
      (by simp) c hcr
    · intro d ch _ hch b hb
      exact (Wiring.mem_components L.wiring b).2 (Or.inl (Wiring.children_subset_inputs hch b hb))
    · intro x hx
      rw [List.mem_singleton] at hx
      exact hx ▸ hroots r hr
  have hups : ∀ c ∈ extent L.wiring roots, (L.wiring.ups c).isSome = true :=
    fun c hc => (Wiring.ups_isSome_iff' L.wiring c).2 (hsub c hc)
  obtain ⟨tk, ds, hcall⟩ := flt_call_ok (w := L.wiring) t hups
  obtain ⟨hs, htu, htime, hro⟩ := sim_call_eq_ok hcall
  have hinp := flt_call_inputs hcall
  have hpre := (PreInv.start (Val := V) L.wiring t roots).schedule rfl hs
  rw [tickLevel.eq_2, hLv]
  simp only [hcall]
  have hnd : (akeys tk.toUpdate).Nodup := by
    rw [htu]; simpa using hpre.1.nodup
  have hlen : tk.toUpdate.length ≤ L.wiring.components.length := by
    rw [← length_akeys]
    refine flt_length_le_of_nodup_subset hnd (fun x hx => hsub x ?_)
    have := alookup_ne_none_iff.2 hx
    rw [htu] at this
    exact hpre.1.keys_ext x this
  refine flat_tickLoop_gen hnosys fuel hname hw hacyc hups U hUorc hUroot hUfed []
    tk.toUpdate.length _ ⟨tk, ds, [], σ⟩ (ds.map Ev.dispatch) ?_ ?_ htime hro ?_ ?_ ?_ ?_ rfl ?_
  · show PreInv L.wiring t roots tk.toUpdate ds _
    rw [htu]; simpa using hpre.1
  · show Complete L.wiring tk.toUpdate
    rw [htu]; exact hpre.2
  · show InputsInv L.wiring tk.inputs _
    rw [hinp]
    exact (InputsInv.nil (Val := V) L.wiring).congr (by simp)
  · intro a chs hm; simp at hm
  · intro d hd hi
    show U d.comp
    have hdec : d = (Ticker.startTick L.wiring t roots : Ticker V).decide d.comp := by
      have := (scheduleLoop_spec hs).1
      rw [this] at hd
      obtain ⟨e, _, rfl⟩ := List.mem_map.1 hd
      simp
    rcases (Ticker.startTick L.wiring t roots : Ticker V).decide_cases d.comp with ⟨_, h2⟩ | ⟨h1, _⟩
    · rcases h2 with h2 | h2
      · exfalso; apply h2; simp [Ticker.startTick, agetD]
      · exact hUroot _ h2
    · obtain ⟨ins', hi'⟩ := hi
      rw [← hdec] at h1
      rw [h1] at hi'
      cases hi'
  · intro c _; exact ⟨rfl, rfl⟩
  · omega

end Tickit
