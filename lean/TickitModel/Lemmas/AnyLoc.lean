/-
Any-order nested tick, part 2: the state of the whole-simulation model seen component by
component (`SimSt.loc`), the equivalence of such local states (maps compared as mappings,
observations compared with `ObsEq`), and the effect of the primitive updates on the local view.
-/
import TickitModel.Lemmas.AnyBasic
import TickitModel.Lemmas.FlatDetLemmas
import TickitModel.Core.Flatten
import TickitModel.Props.C06

namespace Tickit

/-- everything the whole-simulation state holds under the key `x`: the device component state,
the update count, the scheduler state (of the level / system named `x`) and the observations made
by `x`. -/
structure SLoc where
  dev : DevComp V
  cnt : Nat
  sch : SchedSt
  ob : List (SimTime × List (Port × V))

def SimSt.loc (st : SimSt) (x : Comp) : SLoc :=
  ⟨agetD st.devs x {}, agetD st.count x 0, st.sched x, st.obsOf x⟩

/-- scheduler states that are the same up to the order of the wakeup entries / queued interrupts;
both wakeup maps are dicts -/
structure SchedSt.Equiv (a b : SchedSt) : Prop where
  wake : MapEq a.wake b.wake
  ua : UniqueKeys a.wake
  ub : UniqueKeys b.wake
  ints : ∀ c, c ∈ a.interrupts ↔ c ∈ b.interrupts
  first : a.firstDone = b.firstDone

/-- local states that are the same up to the order of keys inside their maps -/
structure SLoc.Equiv (a b : SLoc) : Prop where
  ins : MapEq a.dev.deviceInputs b.dev.deviceInputs
  outs : MapEq a.dev.lastOutputs b.dev.lastOutputs
  cnt : a.cnt = b.cnt
  sch : a.sch.Equiv b.sch
  ob : ObsEq a.ob b.ob

/-- two whole-simulation states are the same on the keys satisfying `P` -/
def EqOn (P : Comp → Prop) (a b : SimSt) : Prop := ∀ x, P x → (a.loc x).Equiv (b.loc x)

/-- all wakeup maps of a state are dicts -/
def SimSt.WakeWF (st : SimSt) : Prop := ∀ s, UniqueKeys (st.sched s).wake

theorem mapEq_refl {κ β : Type} [DecidableEq κ] (a : List (κ × β)) : MapEq a a := fun _ => rfl

theorem MapEq.symm {κ β : Type} [DecidableEq κ] {a b : List (κ × β)} (h : MapEq a b) : MapEq b a :=
  fun k => (h k).symm

theorem MapEq.trans {κ β : Type} [DecidableEq κ] {a b c : List (κ × β)} (h : MapEq a b)
    (h' : MapEq b c) : MapEq a c := fun k => (h k).trans (h' k)

theorem obsEq_symm {a b : List (SimTime × List (Port × V))} (h : ObsEq a b) : ObsEq b a := by
  induction a generalizing b with
  | nil =>
    cases b with
    | nil => trivial
    | cons y b => simp [ObsEq] at h
  | cons x a ih =>
    cases b with
    | nil => simp [ObsEq] at h
    | cons y b =>
      obtain ⟨t1, i1⟩ := x
      obtain ⟨t2, i2⟩ := y
      simp only [ObsEq] at h ⊢
      exact ⟨h.1.symm, h.2.1.symm, ih h.2.2⟩

theorem obsEq_trans {a b c : List (SimTime × List (Port × V))} (h : ObsEq a b) (h' : ObsEq b c) :
    ObsEq a c := by
  induction a generalizing b c with
  | nil =>
    cases b with
    | nil => exact h'
    | cons y b => simp [ObsEq] at h
  | cons x a ih =>
    cases b with
    | nil => simp [ObsEq] at h
    | cons y b =>
      cases c with
      | nil => simp [ObsEq] at h'
      | cons z c =>
        obtain ⟨t1, i1⟩ := x
        obtain ⟨t2, i2⟩ := y
        obtain ⟨t3, i3⟩ := z
        simp only [ObsEq] at h h' ⊢
        exact ⟨h.1.trans h'.1, h.2.1.trans h'.2.1, ih h.2.2 h'.2.2⟩

theorem SchedSt.Equiv.refl {a : SchedSt} (h : UniqueKeys a.wake) : a.Equiv a :=
  ⟨mapEq_refl _, h, h, fun _ => Iff.rfl, rfl⟩

theorem SchedSt.Equiv.symm {a b : SchedSt} (h : a.Equiv b) : b.Equiv a :=
  ⟨h.wake.symm, h.ub, h.ua, fun c => (h.ints c).symm, h.first.symm⟩

theorem SchedSt.Equiv.trans {a b c : SchedSt} (h : a.Equiv b) (h' : b.Equiv c) : a.Equiv c :=
  ⟨h.wake.trans h'.wake, h.ua, h'.ub, fun x => (h.ints x).trans (h'.ints x), h.first.trans h'.first⟩

theorem SLoc.Equiv.refl {a : SLoc} (h : UniqueKeys a.sch.wake) : a.Equiv a :=
  ⟨mapEq_refl _, mapEq_refl _, rfl, .refl h, Det.obsEq_refl _⟩

theorem SLoc.Equiv.symm {a b : SLoc} (h : a.Equiv b) : b.Equiv a :=
  ⟨h.ins.symm, h.outs.symm, h.cnt.symm, h.sch.symm, obsEq_symm h.ob⟩

theorem SLoc.Equiv.trans {a b c : SLoc} (h : a.Equiv b) (h' : b.Equiv c) : a.Equiv c :=
  ⟨h.ins.trans h'.ins, h.outs.trans h'.outs, h.cnt.trans h'.cnt, h.sch.trans h'.sch,
    obsEq_trans h.ob h'.ob⟩

/-- two whole-simulation states are the same up to the order of keys inside their maps and the
interleaving of the observations of different devices -/
def SimSt.Equiv (a b : SimSt) : Prop := ∀ x, (a.loc x).Equiv (b.loc x)

/-- a state whose wakeup maps are dicts is equivalent to itself -/
theorem SimSt.Equiv.refl {a : SimSt} (h : a.WakeWF) : a.Equiv a :=
  fun x => SLoc.Equiv.refl (h x)

theorem SimSt.Equiv.symm {a b : SimSt} (h : a.Equiv b) : b.Equiv a := fun x => (h x).symm

theorem SimSt.Equiv.trans {a b c : SimSt} (h : a.Equiv b) (h' : b.Equiv c) : a.Equiv c :=
  fun x => (h x).trans (h' x)

theorem SimSt.wakeWF_empty : ({} : SimSt).WakeWF := by
  intro s
  simp [SimSt.sched, agetD, UniqueKeys]

/-! ### the primitive updates, seen locally -/

theorem SLoc.ext' {a b : SLoc} (h1 : a.dev = b.dev) (h2 : a.cnt = b.cnt) (h3 : a.sch = b.sch)
    (h4 : a.ob = b.ob) : a = b := by
  cases a; cases b; simp_all

theorem SimSt.obsOf_append_one (st : SimSt) (c : Comp) (t : SimTime) (m : List (Port × V)) (x : Comp)
    (devs : List (Comp × DevComp V)) (count : List (Comp × Nat)) (scheds : List (Comp × SchedSt)) :
    ({ devs := devs, count := count, scheds := scheds, obs := st.obs ++ [(⟨c, t, m⟩ : Obs)] } : SimSt).obsOf x =
      if c = x then st.obsOf x ++ [(t, m)] else st.obsOf x := by
  unfold SimSt.obsOf
  simp only [List.filter_append, List.map_append]
  by_cases h : c = x
  · simp [h]
  · simp [h]

/-- `add_wakeup` on one scheduler state -/
def wakeUpd (sc : SchedSt) (c : Comp) (ca : Option SimTime) : SchedSt :=
  match ca with
  | some w => { sc with wake := addWakeup sc.wake c w }
  | none => sc

theorem wakeUpd_interrupts (sc : SchedSt) (c : Comp) (ca : Option SimTime) :
    (wakeUpd sc c ca).interrupts = sc.interrupts := by cases ca <;> rfl

theorem wakeUpd_firstDone (sc : SchedSt) (c : Comp) (ca : Option SimTime) :
    (wakeUpd sc c ca).firstDone = sc.firstDone := by cases ca <;> rfl

theorem wakeUpd_lookup (sc : SchedSt) (c : Comp) (ca : Option SimTime) (a : Comp) :
    alookup (wakeUpd sc c ca).wake a =
      if a = c then ca.orElse (fun _ => alookup sc.wake a) else alookup sc.wake a := by
  cases ca with
  | none => simp [wakeUpd]
  | some w =>
    simp only [wakeUpd, addWakeup_lookup]
    split <;> simp

theorem wakeUpd_unique {sc : SchedSt} (h : UniqueKeys sc.wake) (c : Comp) (ca : Option SimTime) :
    UniqueKeys (wakeUpd sc c ca).wake := by
  cases ca with
  | none => exact h
  | some w => exact addWakeup_unique _ h _ _

theorem sched_anyWake_self (st : SimSt) (lvl c : Comp) (ca : Option SimTime) :
    (anyWake st lvl c ca).sched lvl = wakeUpd (st.sched lvl) c ca := by
  unfold anyWake
  simp only []
  rw [SimSt.sched_upsert, if_pos rfl]
  cases ca <;> rfl

theorem sched_anyWake_ne (st : SimSt) (lvl c : Comp) (ca : Option SimTime) {s : Comp} (h : s ≠ lvl) :
    (anyWake st lvl c ca).sched s = st.sched s := by
  unfold anyWake
  simp only []
  rw [SimSt.sched_upsert, if_neg (Ne.symm h)]

theorem loc_anyWake_ne (st : SimSt) (lvl c : Comp) (ca : Option SimTime) {x : Comp} (h : x ≠ lvl) :
    (anyWake st lvl c ca).loc x = st.loc x :=
  SLoc.ext' rfl rfl (sched_anyWake_ne st lvl c ca h) rfl

theorem loc_anyWake_self (st : SimSt) (lvl c : Comp) (ca : Option SimTime) :
    (anyWake st lvl c ca).loc lvl = { st.loc lvl with sch := wakeUpd (st.sched lvl) c ca } :=
  SLoc.ext' rfl rfl (sched_anyWake_self st lvl c ca) rfl

/-- the scheduler state of system `c` when its inner tick starts -/
def sysPreSched (sc : SchedSt) (t : SimTime) : SchedSt :=
  { wake := delWakeups sc.wake (nestedDue sc.wake t), interrupts := [], firstDone := true }

theorem sched_sysPre_self (st : SimSt) (c : Comp) (t : SimTime) :
    (sysPre st c t).sched c = sysPreSched (st.sched c) t := by
  unfold sysPre
  simp only []
  rw [SimSt.sched_upsert, if_pos rfl]
  rfl

theorem sched_sysPre_ne (st : SimSt) (c : Comp) (t : SimTime) {s : Comp} (h : s ≠ c) :
    (sysPre st c t).sched s = st.sched s := by
  unfold sysPre
  simp only []
  rw [SimSt.sched_upsert, if_neg (Ne.symm h)]

theorem loc_sysPre_ne (st : SimSt) (c : Comp) (t : SimTime) {x : Comp} (h : x ≠ c) :
    (sysPre st c t).loc x = st.loc x :=
  SLoc.ext' rfl rfl (sched_sysPre_ne st c t h) rfl

theorem loc_sysPre_self (st : SimSt) (c : Comp) (t : SimTime) :
    (sysPre st c t).loc c = { st.loc c with sch := sysPreSched (st.sched c) t } :=
  SLoc.ext' rfl rfl (sched_sysPre_self st c t) rfl

theorem loc_devAfter_ne (st : SimSt) (c : Comp) (t : SimTime) (ins : List (Port × V)) (resp : DevResp)
    {x : Comp} (h : x ≠ c) : (devAfter st c t ins resp).1.loc x = st.loc x := by
  have hc : c ≠ x := Ne.symm h
  apply SLoc.ext'
  · show agetD (upsert st.devs c _) x {} = _
    rw [sim_agetD_upsert, if_neg hc]
    rfl
  · show agetD (upsert st.count c _) x 0 = _
    rw [sim_agetD_upsert, if_neg hc]
    rfl
  · rfl
  · show SimSt.obsOf _ x = _
    unfold devAfter
    simp only [DevComp.onTick]
    rw [SimSt.obsOf_append_one, if_neg hc]
    rfl

theorem loc_devAfter_self (st : SimSt) (c : Comp) (t : SimTime) (ins : List (Port × V)) (resp : DevResp) :
    (devAfter st c t ins resp).1.loc c =
      ⟨⟨(agetD st.devs c {}).merge ins, normDict resp.outs⟩, agetD st.count c 0 + 1, st.sched c,
        st.obsOf c ++ [(t, (agetD st.devs c {}).merge ins)]⟩ := by
  apply SLoc.ext'
  · show agetD (upsert st.devs c _) c {} = _
    rw [sim_agetD_upsert, if_pos rfl]
  · show agetD (upsert st.count c _) c 0 = _
    rw [sim_agetD_upsert, if_pos rfl]
  · rfl
  · show SimSt.obsOf _ c = _
    unfold devAfter
    simp only [DevComp.onTick]
    rw [SimSt.obsOf_append_one, if_pos rfl]

theorem devAfter_changes (st : SimSt) (c : Comp) (t : SimTime) (ins : List (Port × V)) (resp : DevResp) :
    (devAfter st c t ins resp).2 = outChanges (agetD st.devs c {}).lastOutputs (normDict resp.outs) := rfl

theorem devAfter_sched (st : SimSt) (c : Comp) (t : SimTime) (ins : List (Port × V)) (resp : DevResp)
    (s : Comp) : (devAfter st c t ins resp).1.sched s = st.sched s := rfl

/-! ### wakeup maps compared as mappings -/

theorem mapEq_addWakeup {w1 w2 : Wakeups} (h : MapEq w1 w2) (c : Comp) (t : SimTime) :
    MapEq (addWakeup w1 c t) (addWakeup w2 c t) := by
  intro x
  rw [addWakeup_lookup, addWakeup_lookup, h x]

theorem mem_nestedDue_congr {w1 w2 : Wakeups} (h1 : UniqueKeys w1) (h2 : UniqueKeys w2)
    (h : MapEq w1 w2) (t : SimTime) (c : Comp) : c ∈ nestedDue w1 t ↔ c ∈ nestedDue w2 t := by
  rw [nestedDue_spec' w1 h1, nestedDue_spec' w2 h2, h c]

theorem mapEq_delWakeups {w1 w2 : Wakeups} (h1 : UniqueKeys w1) (h2 : UniqueKeys w2)
    (h : MapEq w1 w2) {cs1 cs2 : List Comp} (hcs : ∀ c, c ∈ cs1 ↔ c ∈ cs2) :
    MapEq (delWakeups w1 cs1) (delWakeups w2 cs2) := by
  intro x
  rw [delWakeups_lookup' w1 h1, delWakeups_lookup' w2 h2, h x]
  by_cases hx : x ∈ cs1
  · rw [if_pos hx, if_pos ((hcs x).1 hx)]
  · rw [if_neg hx, if_neg (fun h' => hx ((hcs x).2 h'))]

/-- the minimum of a dict's values depends on it as a mapping only -/
theorem firstWakeups_snd_congr {w1 w2 : Wakeups} (h1 : UniqueKeys w1) (h2 : UniqueKeys w2)
    (h : MapEq w1 w2) : (firstWakeups w1).2 = (firstWakeups w2).2 := by
  have key : ∀ {wa wb : Wakeups}, UniqueKeys wa → UniqueKeys wb → MapEq wa wb →
      ∀ m, (firstWakeups wa).2 = some m → ∃ m', (firstWakeups wb).2 = some m' ∧ m' ≤ m := by
    intro wa wb ha hb hab m hm
    have hfa : firstWakeups wa = ((firstWakeups wa).1, some m) := by rw [← hm]
    obtain ⟨_, _, ⟨x, hx⟩, _⟩ := firstWakeups_spec' wa ha _ m hfa
    have hxb : alookup wb x = some m := (hab x).symm.trans hx
    cases hb2 : (firstWakeups wb).2 with
    | none =>
      rw [firstWakeups_none] at hb2
      subst hb2
      simp at hxb
    | some m' =>
      have hfb : firstWakeups wb = ((firstWakeups wb).1, some m') := by rw [← hb2]
      obtain ⟨_, hle, _, _⟩ := firstWakeups_spec' wb hb _ m' hfb
      exact ⟨m', rfl, hle x m hxb⟩
  cases ha : (firstWakeups w1).2 with
  | none =>
    cases hb : (firstWakeups w2).2 with
    | none => rfl
    | some m' =>
      obtain ⟨m, hm, _⟩ := key h2 h1 h.symm m' hb
      rw [ha] at hm; cases hm
  | some m =>
    obtain ⟨m', hm', hle⟩ := key h1 h2 h m ha
    obtain ⟨m'', hm'', hle'⟩ := key h2 h1 h.symm m' hm'
    rw [ha] at hm''
    cases hm''
    rw [hm']
    congr 1
    exact Int.le_antisymm hle' hle

end Tickit
