/-
Helper lemmas for M1: `Wiring.add/touch`, `InvWiring.set/touch`, the two conversions
`Wiring.fromInverse` / `InvWiring.fromWiring`, and `Wiring.route`.
-/
import TickitModel.Lemmas.RouterAssoc

namespace Tickit

/-! ## reading a wiring -/

/-- `wiring[a][p]` read with defaults (no mutation). -/
def Wiring.get (w : Wiring) (a : Comp) (p : Port) : List CPort := (get2 w a p).getD []

theorem Wiring.conn_iff_get {w : Wiring} {a : Comp} {p : Port} {b : Comp} {q : Port} :
    w.Conn a p b q ↔ (b, q) ∈ w.get a p := by
  unfold Wiring.Conn Wiring.get
  cases h : get2 w a p with
  | none =>
    simp only [Option.getD_none, List.not_mem_nil, iff_false]
    rintro ⟨ports, ins, h1, h2, _⟩
    have : get2 w a p = some ins := get2_eq_some_iff.2 ⟨ports, h1, h2⟩
    simp [h] at this
  | some ins =>
    obtain ⟨ports, h1, h2⟩ := get2_eq_some_iff.1 h
    simp only [Option.getD_some]
    constructor
    · rintro ⟨ports', ins', h1', h2', hm⟩
      rw [h1] at h1'
      cases h1'
      rw [h2] at h2'
      cases h2'
      exact hm
    · intro hm
      exact ⟨ports, ins, h1, h2, hm⟩

theorem InvWiring.conn_iff_get2 {iw : InvWiring} {a : Comp} {p : Port} {b : Comp} {q : Port} :
    iw.Conn a p b q ↔ get2 iw b q = some (a, p) := by
  rw [get2_eq_some_iff]
  rfl

theorem Wiring.mem_akeys_of_conn {w : Wiring} {a : Comp} {p : Port} {b : Comp} {q : Port}
    (h : w.Conn a p b q) : a ∈ akeys w := by
  obtain ⟨ports, _, h1, _⟩ := h
  exact mem_akeys_of_alookup h1

theorem InvWiring.mem_akeys_of_conn {iw : InvWiring} {a : Comp} {p : Port} {b : Comp} {q : Port}
    (h : iw.Conn a p b q) : b ∈ akeys iw := by
  obtain ⟨ports, h1, _⟩ := h
  exact mem_akeys_of_alookup h1

/-- membership reading of the connections of a wiring (`l` is a list of entries). -/
def Wiring.Writes (l : Wiring) (b : Comp) (q : Port) (ap : CPort) : Prop :=
  ∃ ent ∈ l, ∃ pe ∈ ent.2, (b, q) ∈ pe.2 ∧ ap = (ent.1, pe.1)

theorem Wiring.writes_iff_conn {w : Wiring} (h : w.WF) {a : Comp} {p : Port} {b : Comp} {q : Port} :
    w.Writes b q (a, p) ↔ w.Conn a p b q := by
  constructor
  · rintro ⟨⟨a', ports⟩, hent, ⟨p', ins⟩, hpe, hm, heq⟩
    simp only [Prod.mk.injEq] at heq
    obtain ⟨rfl, rfl⟩ := heq
    exact ⟨ports, ins, alookup_of_mem h.1 hent, alookup_of_mem (h.2 _ hent).1 hpe, hm⟩
  · rintro ⟨ports, ins, h1, h2, hm⟩
    exact ⟨(a, ports), mem_of_alookup h1, (p, ins), mem_of_alookup h2, hm, rfl⟩

/-- membership reading of the connections of an inverse wiring. -/
theorem InvWiring.conn_iff_mem {iw : InvWiring} (h : iw.WF) {a : Comp} {p : Port} {b : Comp} {q : Port} :
    iw.Conn a p b q ↔ ∃ ent ∈ iw, ∃ pe ∈ ent.2, pe.2.1 = a ∧ pe.2.2 = p ∧ (b, q) = (ent.1, pe.1) := by
  constructor
  · rintro ⟨ports, h1, h2⟩
    exact ⟨(b, ports), mem_of_alookup h1, (q, (a, p)), mem_of_alookup h2, rfl, rfl, rfl⟩
  · rintro ⟨⟨b', ports⟩, hent, ⟨q', a', p'⟩, hpe, h1, h2, heq⟩
    simp only [Prod.mk.injEq] at heq
    obtain ⟨rfl, rfl⟩ := heq
    simp only at h1 h2
    subst h1 h2
    exact ⟨ports, alookup_of_mem h.1 hent, alookup_of_mem (h.2 _ hent) hpe⟩

/-! ## `Wiring.add` / `Wiring.touch` -/

theorem Wiring.add_eq (w : Wiring) (a : Comp) (p : Port) (bq : CPort) :
    w.add a p bq = set2 w a p (sinsert (w.get a p) bq) := rfl

theorem Wiring.mem_get_add {w : Wiring} {a : Comp} {p : Port} {bq : CPort} {a' : Comp} {p' : Port}
    {x : CPort} :
    x ∈ (w.add a p bq).get a' p' ↔ x ∈ w.get a' p' ∨ (a = a' ∧ p = p' ∧ x = bq) := by
  rw [Wiring.add_eq]
  unfold Wiring.get
  rw [get2_set2]
  by_cases h : a = a' ∧ p = p'
  · obtain ⟨rfl, rfl⟩ := h
    simp
  · simp only [h, if_false]
    constructor
    · exact Or.inl
    · rintro (h' | ⟨h1, h2, _⟩)
      · exact h'
      · exact absurd ⟨h1, h2⟩ h

theorem Wiring.get_touch (w : Wiring) (c : Comp) (a : Comp) (p : Port) :
    (w.touch c).get a p = w.get a p := by
  unfold Wiring.get Wiring.touch
  rw [get2_atouch]

theorem Wiring.mem_akeys_add {w : Wiring} {a : Comp} {p : Port} {bq : CPort} {c : Comp} :
    c ∈ akeys (w.add a p bq) ↔ c ∈ akeys w ∨ c = a := rt_mem_akeys_upsert

theorem Wiring.mem_akeys_touch {w : Wiring} {b c : Comp} :
    c ∈ akeys (w.touch b) ↔ c ∈ akeys w ∨ c = b := mem_akeys_atouch

theorem Wiring.WF_nil : Wiring.WF [] := ⟨DictWF_nil, by simp⟩

theorem Wiring.WF.nodup_get {w : Wiring} (h : w.WF) (a : Comp) (p : Port) : (w.get a p).Nodup := by
  unfold Wiring.get
  cases hg : get2 w a p with
  | none => simp
  | some ins =>
    obtain ⟨ports, h1, h2⟩ := get2_eq_some_iff.1 hg
    exact (h.2 _ (mem_of_alookup h1)).2 _ (mem_of_alookup h2)

theorem Wiring.WF.wf2 {w : Wiring} (h : w.WF) : WF2 w := ⟨h.1, fun e he => (h.2 e he).1⟩

theorem Wiring.WF_add {w : Wiring} (h : w.WF) (a : Comp) (p : Port) (bq : CPort) :
    (w.add a p bq).WF := by
  rw [Wiring.add_eq]
  refine ⟨(WF2_set2 h.wf2 _ _ _).1, ?_⟩
  intro e he
  refine ⟨(WF2_set2 h.wf2 _ _ _).2 e he, ?_⟩
  intro pe hpe
  rcases mem_upsert he with rfl | he
  · rcases mem_upsert hpe with rfl | hpe
    · exact nodup_sinsert (h.nodup_get a p)
    · rcases agetD_mem_or (m := w) (k := a) (d := []) with h' | h'
      · rw [h'] at hpe
        simp at hpe
      · exact (h.2 _ h').2 pe hpe
  · exact (h.2 e he).2 pe hpe

theorem Wiring.WF_touch {w : Wiring} (h : w.WF) (c : Comp) : (w.touch c).WF := by
  refine ⟨DictWF_atouch h.1 _ _, ?_⟩
  intro e he
  rcases mem_atouch he with rfl | he
  · exact ⟨DictWF_nil, by simp⟩
  · exact h.2 e he

/-! ## `Wiring.fromInverse` -/

theorem Wiring.mem_get_fromInverse (iw : InvWiring) (a : Comp) (p : Port) (x : CPort) :
    x ∈ (Wiring.fromInverse iw).get a p ↔
      ∃ ent ∈ iw, ∃ pe ∈ ent.2, pe.2.1 = a ∧ pe.2.2 = p ∧ x = (ent.1, pe.1) := by
  unfold Wiring.fromInverse
  have key := foldl_view_iff (σ := Wiring) (γ := Comp × Port × CPort)
    (view := fun w c => c.2.2 ∈ w.get c.1 c.2.1)
    (f := fun w (ent : Comp × List (Port × CPort)) =>
      ent.2.foldl (fun w (pe : Port × CPort) => w.add pe.2.1 pe.2.2 (ent.1, pe.1)) (w.touch ent.1))
    (P := fun ent c => ∃ pe ∈ ent.2, pe.2.1 = c.1 ∧ pe.2.2 = c.2.1 ∧ c.2.2 = (ent.1, pe.1))
    iw ?_ [] (a, p, x)
  · simpa [Wiring.get] using key
  · intro ent _ w c
    have inner := foldl_view_iff (σ := Wiring) (γ := Comp × Port × CPort)
      (view := fun w c => c.2.2 ∈ w.get c.1 c.2.1)
      (f := fun w (pe : Port × CPort) => w.add pe.2.1 pe.2.2 (ent.1, pe.1))
      (P := fun pe c => pe.2.1 = c.1 ∧ pe.2.2 = c.2.1 ∧ c.2.2 = (ent.1, pe.1))
      ent.2 (fun pe _ w c => Wiring.mem_get_add) (w.touch ent.1) c
    simp only [Wiring.get_touch] at inner
    exact inner

theorem Wiring.conn_fromInverse' (iw : InvWiring) (h : iw.WF) (a : Comp) (p : Port) (b : Comp) (q : Port) :
    (Wiring.fromInverse iw).Conn a p b q ↔ iw.Conn a p b q := by
  rw [Wiring.conn_iff_get, Wiring.mem_get_fromInverse, InvWiring.conn_iff_mem h]

theorem Wiring.mem_akeys_fromInverse (iw : InvWiring) (c : Comp) :
    c ∈ akeys (Wiring.fromInverse iw) ↔ ∃ ent ∈ iw, (c = ent.1 ∨ ∃ pe ∈ ent.2, c = pe.2.1) := by
  unfold Wiring.fromInverse
  have key := foldl_view_iff (σ := Wiring) (γ := Comp)
    (view := fun w c => c ∈ akeys w)
    (f := fun w (ent : Comp × List (Port × CPort)) =>
      ent.2.foldl (fun w (pe : Port × CPort) => w.add pe.2.1 pe.2.2 (ent.1, pe.1)) (w.touch ent.1))
    (P := fun ent c => c = ent.1 ∨ ∃ pe ∈ ent.2, c = pe.2.1)
    iw ?_ [] c
  · simpa using key
  · intro ent _ w c
    have inner := foldl_view_iff (σ := Wiring) (γ := Comp)
      (view := fun w c => c ∈ akeys w)
      (f := fun w (pe : Port × CPort) => w.add pe.2.1 pe.2.2 (ent.1, pe.1))
      (P := fun pe c => c = pe.2.1)
      ent.2 (fun pe _ w c => Wiring.mem_akeys_add) (w.touch ent.1) c
    simp only [Wiring.mem_akeys_touch, or_assoc] at inner
    exact inner

theorem Wiring.keys_fromInverse' (iw : InvWiring) (h : iw.WF) (c : Comp) :
    c ∈ akeys (Wiring.fromInverse iw) ↔ c ∈ akeys iw ∨ ∃ p b q, iw.Conn c p b q := by
  rw [Wiring.mem_akeys_fromInverse]
  constructor
  · rintro ⟨ent, hent, rfl | ⟨pe, hpe, rfl⟩⟩
    · exact Or.inl (rt_mem_akeys_of_mem hent)
    · refine Or.inr ⟨pe.2.2, ent.1, pe.1, ?_⟩
      rw [InvWiring.conn_iff_mem h]
      exact ⟨ent, hent, pe, hpe, rfl, rfl, rfl⟩
  · rintro (hk | ⟨p, b, q, hc⟩)
    · obtain ⟨v, hv⟩ := mem_akeys.1 hk
      exact ⟨(c, v), hv, Or.inl rfl⟩
    · rw [InvWiring.conn_iff_mem h] at hc
      obtain ⟨ent, hent, pe, hpe, h1, _, _⟩ := hc
      exact ⟨ent, hent, Or.inr ⟨pe, hpe, h1.symm⟩⟩

theorem Wiring.wf_fromInverse' (iw : InvWiring) : (Wiring.fromInverse iw).WF := by
  unfold Wiring.fromInverse
  refine foldl_inv Wiring.WF _ iw ?_ [] Wiring.WF_nil
  intro ent _ w hw
  exact foldl_inv Wiring.WF _ ent.2 (fun pe _ w hw => Wiring.WF_add hw _ _ _) _ (Wiring.WF_touch hw _)

theorem Wiring.oneSource_fromInverse (iw : InvWiring) (h : iw.WF) : (Wiring.fromInverse iw).OneSource := by
  intro a p a' p' b q h1 h2
  rw [Wiring.conn_fromInverse' iw h, InvWiring.conn_iff_get2] at h1 h2
  rw [h1] at h2
  simpa using h2

/-! ## `InvWiring.fromWiring` -/

theorem InvWiring.set_eq (iw : InvWiring) (b : Comp) (q : Port) (ap : CPort) :
    iw.set b q ap = set2 iw b q ap := rfl

theorem InvWiring.wf_iff_wf2 {iw : InvWiring} : iw.WF ↔ WF2 iw := Iff.rfl

/-- the step of `fromWiring` for one entry of the wiring. -/
def InvWiring.stepEnt (iw : InvWiring) (ent : Comp × List (Port × List CPort)) : InvWiring :=
  ent.2.foldl (fun iw (pe : Port × List CPort) =>
    pe.2.foldl (fun iw (bq : CPort) => iw.set bq.1 bq.2 (ent.1, pe.1)) iw) (iw.touch ent.1)

theorem InvWiring.fromWiring_eq (w : Wiring) : InvWiring.fromWiring w = w.foldl InvWiring.stepEnt [] := rfl

theorem InvWiring.spec_stepEnt (ent : Comp × List (Port × List CPort))
    (hf : ∀ b q v v', Wiring.Writes [ent] b q v → Wiring.Writes [ent] b q v' → v = v') :
    Spec2 (fun iw => InvWiring.stepEnt iw ent)
      (fun b q v => ∃ pe ∈ ent.2, (b, q) ∈ pe.2 ∧ v = (ent.1, pe.1)) := by
  have inner := Spec2_foldl (κ := Comp) (κ' := Port) (β := CPort)
    (fun iw (pe : Port × List CPort) =>
      pe.2.foldl (fun iw (bq : CPort) => set2 iw bq.1 bq.2 (ent.1, pe.1)) iw)
    (fun pe b q v => (b, q) ∈ pe.2 ∧ v = (ent.1, pe.1)) ent.2
    (fun pe _ => Spec2_foldl_set2 pe.2 (ent.1, pe.1)) ?_
  · intro m b q v
    have := inner (atouch m ent.1 []) b q v
    rw [get2_atouch] at this
    exact this
  · intro pe hpe pe' hpe' b q v v' ⟨hm, hv⟩ ⟨hm', hv'⟩
    exact hf b q v v' ⟨ent, List.mem_singleton.2 rfl, pe, hpe, hm, hv⟩
      ⟨ent, List.mem_singleton.2 rfl, pe', hpe', hm', hv'⟩

theorem InvWiring.spec_fromWiring (l : Wiring)
    (hf : ∀ b q v v', l.Writes b q v → l.Writes b q v' → v = v') :
    Spec2 (fun iw => l.foldl InvWiring.stepEnt iw) l.Writes := by
  refine Spec2_foldl InvWiring.stepEnt
    (fun ent b q v => ∃ pe ∈ ent.2, (b, q) ∈ pe.2 ∧ v = (ent.1, pe.1)) l ?_ ?_
  · intro ent hent
    apply InvWiring.spec_stepEnt
    rintro b q v v' ⟨e, he, hw⟩ ⟨e', he', hw'⟩
    rw [List.mem_singleton] at he he'
    subst he he'
    exact hf b q v v' ⟨_, hent, hw⟩ ⟨_, hent, hw'⟩
  · intro ent hent ent' hent' b q v v' hw hw'
    exact hf b q v v' ⟨ent, hent, hw⟩ ⟨ent', hent', hw'⟩

theorem InvWiring.conn_fromWiring' (w : Wiring) (h : w.WF) (h1 : w.OneSource)
    (a : Comp) (p : Port) (b : Comp) (q : Port) :
    (InvWiring.fromWiring w).Conn a p b q ↔ w.Conn a p b q := by
  have hf : ∀ b q v v', w.Writes b q v → w.Writes b q v' → v = v' := by
    rintro b q ⟨a, p⟩ ⟨a', p'⟩ hw hw'
    rw [Wiring.writes_iff_conn h] at hw hw'
    obtain ⟨rfl, rfl⟩ := h1 _ _ _ _ _ _ hw hw'
    rfl
  rw [InvWiring.conn_iff_get2, InvWiring.fromWiring_eq, InvWiring.spec_fromWiring w hf [] b q (a, p),
    Wiring.writes_iff_conn h]
  simp

theorem InvWiring.mem_akeys_fromWiring (w : Wiring) (c : Comp) :
    c ∈ akeys (InvWiring.fromWiring w) ↔
      ∃ ent ∈ w, (c = ent.1 ∨ ∃ pe ∈ ent.2, ∃ bq ∈ pe.2, c = bq.1) := by
  unfold InvWiring.fromWiring
  have key := foldl_view_iff (σ := InvWiring) (γ := Comp)
    (view := fun w c => c ∈ akeys w)
    (f := fun iw (ent : Comp × List (Port × List CPort)) =>
      ent.2.foldl (fun iw (pe : Port × List CPort) =>
        pe.2.foldl (fun iw (bq : CPort) => iw.set bq.1 bq.2 (ent.1, pe.1)) iw) (iw.touch ent.1))
    (P := fun ent c => c = ent.1 ∨ ∃ pe ∈ ent.2, ∃ bq ∈ pe.2, c = bq.1)
    w ?_ [] c
  · simpa using key
  · intro ent _ iw c
    have mid := foldl_view_iff (σ := InvWiring) (γ := Comp)
      (view := fun w c => c ∈ akeys w)
      (f := fun iw (pe : Port × List CPort) =>
        pe.2.foldl (fun iw (bq : CPort) => iw.set bq.1 bq.2 (ent.1, pe.1)) iw)
      (P := fun pe c => ∃ bq ∈ pe.2, c = bq.1)
      ent.2 ?_ (iw.touch ent.1) c
    · simp only [InvWiring.touch, mem_akeys_atouch, or_assoc] at mid
      exact mid
    · intro pe _ iw c
      exact foldl_view_iff (σ := InvWiring) (γ := Comp)
        (view := fun w c => c ∈ akeys w)
        (f := fun iw (bq : CPort) => iw.set bq.1 bq.2 (ent.1, pe.1))
        (P := fun bq c => c = bq.1)
        pe.2 (fun bq _ iw c => mem_akeys_set2) iw c

theorem InvWiring.keys_fromWiring' (w : Wiring) (h : w.WF) (c : Comp) :
    c ∈ akeys (InvWiring.fromWiring w) ↔ c ∈ akeys w ∨ ∃ a p q, w.Conn a p c q := by
  rw [InvWiring.mem_akeys_fromWiring]
  constructor
  · rintro ⟨ent, hent, rfl | ⟨pe, hpe, bq, hbq, rfl⟩⟩
    · exact Or.inl (rt_mem_akeys_of_mem hent)
    · refine Or.inr ⟨ent.1, pe.1, bq.2, ?_⟩
      rw [← Wiring.writes_iff_conn h]
      exact ⟨ent, hent, pe, hpe, hbq, rfl⟩
  · rintro (hk | ⟨a, p, q, hc⟩)
    · obtain ⟨v, hv⟩ := mem_akeys.1 hk
      exact ⟨(c, v), hv, Or.inl rfl⟩
    · rw [← Wiring.writes_iff_conn h] at hc
      obtain ⟨ent, hent, pe, hpe, hm, _⟩ := hc
      exact ⟨ent, hent, Or.inr ⟨pe, hpe, (c, q), hm, rfl⟩⟩

theorem InvWiring.wf_fromWiring' (w : Wiring) : (InvWiring.fromWiring w).WF := by
  unfold InvWiring.fromWiring
  refine foldl_inv (σ := InvWiring) WF2 _ w ?_ [] WF2_nil
  intro ent _ iw hiw
  refine foldl_inv (σ := InvWiring) WF2 _ ent.2 ?_ _ (WF2_atouch hiw _)
  intro pe _ iw hiw
  exact foldl_inv (σ := InvWiring) WF2 _ pe.2 (fun bq _ iw hiw => WF2_set2 hiw _ _ _) _ hiw

/-! ## `Wiring.route` -/

theorem Wiring.route_eq {Val : Type} (w : Wiring) (src : Comp) (ch : List (Port × Val)) :
    w.route src ch = ch.foldl (fun r (pv : Port × Val) =>
      (w.get src pv.1).foldl (fun r (bq : CPort) => set2 r bq.1 bq.2 pv.2) r) [] := rfl

theorem Wiring.route_spec {Val : Type} (w : Wiring) (h1 : w.OneSource) (src : Comp)
    (ch : List (Port × Val)) (hch : DictWF ch) :
    Spec2 (fun r => ch.foldl (fun r (pv : Port × Val) =>
      (w.get src pv.1).foldl (fun r (bq : CPort) => set2 r bq.1 bq.2 pv.2) r) r)
      (fun b q v => ∃ pv ∈ ch, (b, q) ∈ w.get src pv.1 ∧ v = pv.2) := by
  refine Spec2_foldl (κ := Comp) (κ' := Port) (β := Val) _
    (fun pv b q v => (b, q) ∈ w.get src pv.1 ∧ v = pv.2) ch
    (fun pv _ => Spec2_foldl_set2 (w.get src pv.1) pv.2) ?_
  rintro ⟨p, v0⟩ hpv ⟨p', v0'⟩ hpv' b q v v' ⟨hm, rfl⟩ ⟨hm', rfl⟩
  simp only at hm hm' ⊢
  rw [← Wiring.conn_iff_get] at hm hm'
  obtain ⟨_, rfl⟩ := h1 _ _ _ _ _ _ hm hm'
  have e1 := alookup_of_mem hch hpv
  have e2 := alookup_of_mem hch hpv'
  rw [e1] at e2
  exact Option.some.inj e2

theorem Wiring.route_exact' {Val : Type} (w : Wiring) (h1 : w.OneSource) (a : Comp)
    (ch : List (Port × Val)) (hch : DictWF ch) (b : Comp) (q : Port) (v : Val) :
    (∃ m, alookup (w.route a ch) b = some m ∧ alookup m q = some v) ↔
      ∃ p, alookup ch p = some v ∧ w.Conn a p b q := by
  rw [← get2_eq_some_iff, Wiring.route_eq, Wiring.route_spec w h1 a ch hch [] b q v]
  simp only [get2_nil, reduceCtorEq, and_false, or_false]
  constructor
  · rintro ⟨⟨p, v'⟩, hpv, hm, rfl⟩
    exact ⟨p, alookup_of_mem hch hpv, Wiring.conn_iff_get.2 hm⟩
  · rintro ⟨p, hp, hc⟩
    exact ⟨(p, v), mem_of_alookup hp, Wiring.conn_iff_get.1 hc, rfl⟩

theorem Wiring.route_noEmpty {Val : Type} (w : Wiring) (src : Comp) (ch : List (Port × Val)) :
    NoEmpty2 (w.route src ch) := by
  rw [Wiring.route_eq]
  refine foldl_inv NoEmpty2 _ ch ?_ [] (by intro k inner h; simp at h)
  intro pv _ r hr
  exact foldl_inv NoEmpty2 _ _ (fun bq _ r hr => NoEmpty2_set2 hr _ _ _) r hr

theorem Wiring.route_wf2 {Val : Type} (w : Wiring) (src : Comp) (ch : List (Port × Val)) :
    WF2 (w.route src ch) := by
  rw [Wiring.route_eq]
  refine foldl_inv WF2 _ ch ?_ [] WF2_nil
  intro pv _ r hr
  exact foldl_inv WF2 _ _ (fun bq _ r hr => WF2_set2 hr _ _ _) r hr

end Tickit
