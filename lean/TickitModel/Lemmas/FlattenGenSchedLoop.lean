/-
Helper lemmas for C09, part 18: the loop invariant about the schedulers' bookkeeping, one step.
-/
import TickitModel.Lemmas.FlattenGenSched
import TickitModel.Lemmas.FlattenGenLoop

namespace Tickit

/-- a skipped component, and the mock components, change nothing and request no callback -/
theorem simAnswer_skip_same {S : Static} {orc : Oracle} {fuel : Nat} {L : Level}
    {inCh : List (Port × V)} {st : SimSt} {out0 : List (Port × V)} {c : Comp} {t : SimTime}
    {st' : SimSt} {out' ch : List (Port × V)} {callAt : Option SimTime}
    (h : simAnswer S orc fuel L inCh st out0 (.skip c t) = .ok (st', out', ch, callAt)) :
    st' = st ∧ callAt = none := by
  simp only [simAnswer, Except.ok.injEq, Prod.mk.injEq] at h
  exact ⟨h.1.symm, h.2.2.2.symm⟩

theorem simAnswer_pseudo_same {S : Static} {orc : Oracle} {fuel : Nat} {L : Level}
    {inCh : List (Port × V)} {st : SimSt} {out0 : List (Port × V)} {c : Comp} {t : SimTime}
    {ins : List (Port × V)} (hne : L.name ≠ "") (hps : c = pseudoExternal ∨ c = pseudoExpose)
    {st' : SimSt} {out' ch : List (Port × V)} {callAt : Option SimTime}
    (h : simAnswer S orc fuel L inCh st out0 (.input c t ins) = .ok (st', out', ch, callAt)) :
    st' = st ∧ callAt = none := by
  simp only [simAnswer] at h
  rcases hps with rfl | rfl
  · simp [hne] at h
    exact ⟨h.1.symm, h.2.2.2.symm⟩
  · have : pseudoExpose ≠ pseudoExternal := by decide
    simp [hne, this] at h
    exact ⟨h.1.symm, h.2.2.2.symm⟩

/-- a component that is closed without having been ticked -/
theorem childOK_unticked {S : Static} (hS : S.Valid) {orc : Oracle} {σ₀ : SimSt} {t : SimTime}
    {Root Due : Comp → Prop} (ctx : TickCtx S σ₀ t Root) (sctx : SchedCtx S σ₀ t Root Due) {L : Level}
    {c : Comp} (hpar : alookup S.parent c = some L.name) (hnr : ¬ Root c) {st : SimSt}
    {mobs : List Obs}
    (hW : alookup (st.sched L.name).wake c = alookup (σ₀.sched L.name).wake c)
    (hsame : ∀ s, S.Own c s → st.sched s = σ₀.sched s)
    (hunobs : ∀ x, S.Own c x → x ∉ mobs.map Obs.comp) :
    ChildOK S orc σ₀ Due L st mobs c :=
  { dev := fun _ => ⟨fun hin => absurd hin (hunobs c (Static.Own.refl S c)),
      fun _ => ⟨fun hr => absurd (sctx.due_sub c hr) hnr, fun _ => hW⟩⟩
    sys := fun hsys => by
      rw [hW, hsame c (Static.Own.refl S c)]
      exact sctx.min₀ c L.name hsys hpar (fun hd => hnr (sctx.due_sub c hd))
    below := unticked_sched hS ctx sctx hnr hsame hunobs
    persist := fun _ h => by rw [hW]; exact h }

theorem GenSched.step {S : Static} (hS : S.Valid) {orc : Oracle} {σ₀ : SimSt} {t : SimTime}
    {Root Due : Comp → Prop} (ctx : TickCtx S σ₀ t Root) (sctx : SchedCtx S σ₀ t Root Due) {fuel : Nat}
    (IH : SchedIH S orc σ₀ t Root Due fuel) {L : Level} (hL : L ∈ S.levels) {roots : List Comp}
    {st0 : SimSt} {mobs0 : List Obs} (hpre0 : SchedPre S σ₀ Root Due L.name L roots st0 mobs0)
    {inCh : List (Port × V)} {ls : LoopSt} {tr_ : List (Ev V)} {new_ : List Obs}
    (linv : LoopInv S L t roots st0 ls tr_ new_)
    (iv : GenSched S orc σ₀ Due L st0 mobs0 ls new_)
    {d : Dispatch V} {rest : List (Dispatch V)} (hp : ls.pending = d :: rest)
    {st' : SimSt} {outCh' changes : List (Port × V)} {callAt : Option SimTime}
    (ha : simAnswer S orc fuel L inCh ls.st ls.outCh d = .ok (st', outCh', changes, callAt))
    {tk' : Ticker V} {ds : List (Dispatch V)}
    (hprop : ls.tk.propagate L.wiring d.comp d.time changes = .ok (tk', ds)) :
    ∃ new1, st'.obs = ls.st.obs ++ new1 ∧ GenSched S orc σ₀ Due L st0 mobs0
      ⟨tk', rest ++ ds, outCh', simWake st' L.name d.comp callAt⟩ (new_ ++ new1) := by
  obtain ⟨hne, htime, hsl, htu, htk, hroots'⟩ := sim_propagate_eq_ok hprop
  have hdm : d ∈ ls.pending := by rw [hp]; simp
  have h0 : alookup ls.tk.toUpdate d.comp = some true := (linv.pre.pend_flag _).1 ⟨d, hdm, rfl⟩
  have hopen : alookup ls.tk.toUpdate d.comp ≠ none := by rw [h0]; simp
  have hdc : d.comp ∈ L.wiring.components := linv.pend_comp d hdm
  have hdt : d.time = t := htime.trans linv.time
  have hnone : ∀ x, alookup tk'.toUpdate x = none ↔ x = d.comp ∨ alookup ls.tk.toUpdate x = none := by
    intro x
    rw [htu, alookup_markDispatched_eq_none, alookup_aerase linv.pre.nodup]
    by_cases hx : x = d.comp <;> simp [hx]
  have IHpost : ∀ lvl t roots inCh st st' out,
      tickLevel S orc fuel lvl t roots inCh st = .ok (st', out) → LevelPost S lvl t roots st st' :=
    fun lvl t roots inCh st st' out => tickLevel_post hS.toWF orc fuel lvl t roots inCh st st' out
  have IHframe : ∀ lvl t roots inCh st st' out,
      tickLevel S orc fuel lvl t roots inCh st = .ok (st', out) → FrameL S lvl st st' :=
    fun lvl t roots inCh st st' out => tickLevel_frame hS.toWF orc fuel lvl t roots inCh st st' out
  obtain ⟨newA, hobsA, _, hownA, _, _⟩ := simAnswer_spec hS.toWF IHpost hL hdc ha
  have hfa := simAnswer_frame hS.toWF IHframe ha
  -- the level's own scheduler is not touched by the answer itself, and mock components and
  -- skipped components request no callback
  have hmock : alookup S.parent d.comp ≠ some L.name → st' = ls.st ∧ callAt = none := by
    intro hnp
    rcases hS.members L hL _ hdc with h' | ⟨hnn, hps⟩
    · exact absurd h' hnp
    · cases d with
      | skip c t' => exact simAnswer_skip_same ha
      | input c t' ins => exact simAnswer_pseudo_same hnn hps ha
  have hLsame : st'.sched L.name = ls.st.sched L.name := by
    by_cases hpar : alookup S.parent d.comp = some L.name
    · exact hfa.sched L.name (hS.own_not_parent hpar)
    · rw [(hmock hpar).1]
  have hWs : ∀ w, callAt = some w → ∀ x,
      alookup ((simWake st' L.name d.comp callAt).sched L.name).wake x =
        if x = d.comp then some w else alookup (ls.st.sched L.name).wake x := by
    intro w hw x
    rw [simWake_wake_lookup, hLsame, hw]
  have hWn : callAt = none → ∀ x,
      alookup ((simWake st' L.name d.comp callAt).sched L.name).wake x =
        alookup (ls.st.sched L.name).wake x := by
    intro hw x
    rw [simWake_wake_lookup, hLsame, hw]
  have hWne : ∀ x, x ≠ d.comp → alookup ((simWake st' L.name d.comp callAt).sched L.name).wake x =
      alookup (ls.st.sched L.name).wake x := by
    intro x hx
    cases hca : callAt with
    | none => rw [← hca]; exact hWn hca x
    | some w => rw [← hca, hWs w hca x, if_neg hx]
  have hdisj : ∀ c, alookup S.parent c = some L.name → c ≠ d.comp → ∀ x, S.Own c x → ¬ S.Own d.comp x :=
    fun c hc hne x ho => hS.own_disjoint hL hc hdc hne ho
  have hnotA : ∀ c, alookup S.parent c = some L.name → c ≠ d.comp → ∀ x, S.Own c x →
      x ∉ newA.map Obs.comp := by
    intro c hc hne x hx hm
    obtain ⟨o, ho, rfl⟩ := List.mem_map.1 hm
    exact hdisj c hc hne _ hx (hownA o ho).2.2.2
  have hassoc : mobs0 ++ (new_ ++ newA) = (mobs0 ++ new_) ++ newA := (List.append_assoc _ _ _).symm
  -- the addressed component, if it is a child of the level
  have hchild : alookup S.parent d.comp = some L.name →
      ChildOK S orc σ₀ Due L (simWake st' L.name d.comp callAt) ((mobs0 ++ new_) ++ newA) d.comp := by
    intro hpar
    have hcne : d.comp ≠ "" := hS.child_ne_master hpar
    have hcx : d.comp ≠ pseudoExternal := by
      intro he; rw [he, hS.pseudo_fresh.1] at hpar; cases hpar
    have hce : d.comp ≠ pseudoExpose := by
      intro he; rw [he, hS.pseudo_fresh.2.1] at hpar; cases hpar
    obtain ⟨hof, hos⟩ := iv.open_fresh d.comp hpar hopen
    have hW0 := iv.open_w d.comp hpar hopen
    have hown_wake := hpre0.own_wake d.comp
    have hsne : ∀ s, S.Own d.comp s → s ≠ L.name := fun s hs h' => hS.own_not_parent hpar (h' ▸ hs)
    have hsch : ∀ s', S.Own d.comp s' →
        (simWake st' L.name d.comp callAt).sched s' = st'.sched s' :=
      fun s' hs' => simWake_sched _ _ _ _ _ (hsne s' hs')
    -- the entry of the addressed component after the answer
    have hWc : alookup ((simWake st' L.name d.comp callAt).sched L.name).wake d.comp =
        (callAt.orElse (fun _ => alookup (st0.sched L.name).wake d.comp)) := by
      cases hca : callAt with
      | none =>
        have := hWn hca d.comp
        rw [hca] at this
        rw [this, hW0]; rfl
      | some w =>
        have := hWs w hca d.comp
        rw [hca] at this
        rw [this, if_pos rfl]; rfl
    have hpersist : ¬ Due d.comp → (alookup (σ₀.sched L.name).wake d.comp).isSome = true →
        (alookup ((simWake st' L.name d.comp callAt).sched L.name).wake d.comp).isSome = true := by
      intro hnr' hsome
      rw [hWc]
      cases callAt with
      | some w => rfl
      | none =>
        simp only [Option.orElse_none]
        rw [hown_wake.2 hnr']
        exact hsome
    cases d with
    | skip c t' =>
      simp only [Dispatch.comp] at hpar hcne hcx hce hof hos hW0 hown_wake hsne hdc hsch hWc hpersist ⊢
      obtain ⟨hst', hca⟩ := simAnswer_skip_same ha
      have hnA : newA = [] := by
        rw [hst'] at hobsA
        have : ls.st.obs ++ [] = ls.st.obs ++ newA := by simpa using hobsA
        exact (List.append_cancel_left this).symm
      subst hnA
      have hnr : ¬ Root c := by
        intro hr
        obtain ⟨ins, hi⟩ := linv.pend_input _ hdm ((hpre0.hroots c hdc hcx).2 hr)
        cases hi
      refine childOK_unticked hS ctx sctx hpar hnr ?_ ?_ ?_
      · rw [hWc, hca]
        simp only [Option.orElse_none]
        exact hown_wake.2 (fun hd => hnr (sctx.due_sub c hd))
      · intro s hs
        rw [hsch s hs, hst']
        exact hos s hs
      · intro x hx
        simpa using (hof x hx).1
    | input c t' ins =>
      simp only [Dispatch.comp] at hpar hcne hcx hce hof hos hW0 hown_wake hsne hdc hownA hfa hsch hWc hpersist ⊢
      simp only [Dispatch.time] at hdt
      subst hdt
      simp only [simAnswer] at ha
      have hx1 : ¬ ((L.name != "" && c == pseudoExternal) = true) := by simp [hcx]
      have hx2 : ¬ ((L.name != "" && c == pseudoExpose) = true) := by simp [hce]
      rw [if_neg hx1, if_neg hx2] at ha
      split at ha
      · -- a system component
        rename_i hsys
        split at ha
        · cases ha
        · rename_i st2 outCh hr
          simp only [Except.ok.injEq, Prod.mk.injEq] at ha
          obtain ⟨hst2, _, _, hcall⟩ := ha
          subst hst2
          obtain ⟨Lc, hLc, _⟩ := tickLevel_ok_roots hr
          have hirr : ¬ S.Below c c := Static.Below.irrefl hS.toWF hcne
          have hsc : ls.st.sched c = σ₀.sched c := hos c (Static.Own.refl S c)
          have hfun := IH _ _ _ _ _ _ _ (mobs0 ++ new_) newA hr hLc hobsA
          have hdel : ∀ c', alookup (delWakeups (σ₀.sched c).wake (nestedDue (σ₀.sched c).wake t')) c' =
              if c' ∈ nestedDue (σ₀.sched c).wake t' then none else alookup (σ₀.sched c).wake c' :=
            fun c' => delWakeups_lookup _ (sctx.unique₀ c) _ c'
          have hpost := hfun
            { hroots := by
                intro c' hc' hne'
                have := ctx.roots_sys c Lc hsys hLc c' hc' hne'
                rw [← hsc] at this
                simpa [hLc] using this
              fresh_obs := fun x hb => (hof x (Or.inr ⟨hcne, hb⟩)).1
              fresh_count := fun x hb => (hof x (Or.inr ⟨hcne, hb⟩)).2
              fresh_sched := by
                intro s hb
                have hsc' : c ≠ s := fun h => hirr (h ▸ hb)
                rw [SimSt.sched_upsert, if_neg hsc']
                exact hos s (Or.inr ⟨hcne, hb⟩)
              own_wake := by
                intro c'
                rw [SimSt.sched_upsert, if_pos rfl]
                simp only []
                rw [hsc, hdel c']
                constructor
                · intro hr'
                  rcases sctx.root_due c c' hsys hr' with h' | h'
                  · simp [h']
                  · split
                    · rfl
                    · exact h'
                · intro hnr'
                  have : c' ∉ nestedDue (σ₀.sched c).wake t' := fun h' => hnr' (sctx.due_root c c' hsys h')
                  simp [this]
              own_unique := by
                rw [SimSt.sched_upsert, if_pos rfl]
                simp only []
                rw [hsc]
                exact delWakeups_unique _ (sctx.unique₀ c) _
              own_keys := by
                intro c' hk
                rw [SimSt.sched_upsert, if_pos rfl] at hk
                simp only [] at hk
                rw [hsc] at hk
                have hl := alookup_ne_none_iff.2 hk
                rw [hdel c'] at hl
                split at hl
                · exact absurd rfl hl
                · exact sctx.keys₀ c c' (alookup_ne_none_iff.1 hl) }
          obtain ⟨hlvl, hbel, hsame⟩ := hpost
          rw [SimSt.sched_upsert, if_pos rfl] at hsame
          simp only [] at hsame
          have hint : (st2.sched c).interrupts.isEmpty = true := by rw [hsame.2]; rfl
          rw [hint] at hcall
          simp only [if_true] at hcall
          exact
            { dev := fun hd => absurd hsys (by simp [hd.2])
              sys := by
                intro _
                rw [hWc, hsch c (Static.Own.refl S c), ← hcall]
                cases hca : (firstWakeups (st2.sched c).wake).2 with
                | some w => rfl
                | none =>
                  simp only [Option.orElse_none]
                  by_cases hr' : Due c
                  · exact hown_wake.1 hr'
                  · rw [hown_wake.2 hr']
                    exact sys_entry_none hS sctx hsys hpar hlvl hca hr'
              below := by
                intro s hso hss
                have hsne0 : s ≠ "" := by
                  intro h0
                  have := hS.sys_parent s hss
                  rw [h0, hS.master_fresh] at this
                  cases this
                have hch : ∀ x, alookup S.parent x = some s → S.Own c x := by
                  intro x hx
                  rcases hso with rfl | ⟨_, hb⟩
                  · exact Or.inr ⟨hsne0, .direct hx⟩
                  · exact Or.inr ⟨hcne, .step hx hsne0 hb⟩
                rcases hso with rfl | ⟨_, hb⟩
                · refine ⟨hlvl.transport (hsch s (Static.Own.refl S s))
                    (fun c' _ hp' => hsch c' (hch c' hp')) (fun _ _ _ => Iff.rfl), ?_⟩
                  rw [hsch s (Static.Own.refl S s)]
                  exact hsame
                · obtain ⟨h1, h2⟩ := hbel s hss hb
                  refine ⟨h1.transport (hsch s (Or.inr ⟨hcne, hb⟩))
                    (fun c' _ hp' => hsch c' (hch c' hp')) (fun _ _ _ => Iff.rfl), ?_⟩
                  rw [hsch s (Or.inr ⟨hcne, hb⟩)]
                  exact h2
              persist := hpersist }
      · -- a device
        rename_i hsys
        have hsys' : S.isSys c = false := by simpa using hsys
        have hk0 := (hof c (Static.Own.refl S c)).2
        rw [hk0] at ha
        split at ha
        · cases ha
        · rename_i resp hresp
          split at ha
          · cases ha
          · simp only [Except.ok.injEq, Prod.mk.injEq] at ha
            obtain ⟨hst2, _, _, hcall⟩ := ha
            have hsr : stepResp orc σ₀ c = some resp := hresp
            have hnA : newA = [⟨c, t', (agetD ls.st.devs c {}).merge ins⟩] := by
              rw [← hst2] at hobsA
              have : ls.st.obs ++ [(⟨c, t', (agetD ls.st.devs c {}).merge ins⟩ : Obs)] =
                  ls.st.obs ++ newA := hobsA
              exact (List.append_cancel_left this).symm
            subst hnA
            have hcin : c ∈ ((mobs0 ++ new_) ++
                [(⟨c, t', (agetD ls.st.devs c {}).merge ins⟩ : Obs)]).map Obs.comp := by simp
            exact
              { dev := by
                  intro _
                  refine ⟨fun _ r hr' => ?_, fun hno => absurd hcin hno⟩
                  rw [hsr] at hr'
                  cases hr'
                  rw [hWc, ← hcall]
                  refine ⟨fun w hw => by rw [hw]; rfl, fun hn hr'' => ?_, fun hn hnr'' => ?_⟩
                  · rw [hn]
                    simp only [Option.orElse_none]
                    exact hown_wake.1 hr''
                  · rw [hn]
                    simp only [Option.orElse_none]
                    exact hown_wake.2 hnr''
                sys := fun h' => absurd h' hsys
                below := by
                  intro s hso hss
                  exfalso
                  rcases hso with rfl | ⟨_, hb⟩
                  · exact hsys hss
                  · rcases hb.isSys hS.toWF with h' | h'
                    · exact hcne h'
                    · exact hsys h'
                persist := hpersist }
  refine ⟨newA, hobsA, ?_⟩
  exact
    { own_same := by
        show ((simWake st' L.name d.comp callAt).sched L.name).firstDone = _ ∧
          ((simWake st' L.name d.comp callAt).sched L.name).interrupts = _
        rw [simWake_sched_self, hLsame]
        cases callAt <;> exact iv.own_same
      own_unique := by
        show UniqueKeys ((simWake st' L.name d.comp callAt).sched L.name).wake
        rw [simWake_sched_self, hLsame]
        cases callAt with
        | none => exact iv.own_unique
        | some w => exact addWakeup_unique _ iv.own_unique _ _
      own_keys := by
        intro c hk
        have hk' : c ∈ akeys ((simWake st' L.name d.comp callAt).sched L.name).wake := hk
        rw [simWake_sched_self, hLsame] at hk'
        cases hca : callAt with
        | none =>
          rw [hca] at hk'
          exact iv.own_keys c hk'
        | some w =>
          rw [hca] at hk'
          simp only [addWakeup] at hk'
          rcases mem_akeys_upsert.1 hk' with rfl | hk''
          · apply Classical.byContradiction
            intro hnp
            have := (hmock hnp).2
            rw [hca] at this
            cases this
          · exact iv.own_keys c hk''
      open_w := by
        intro c hc hcn
        have hcd : c ≠ d.comp := fun h' => hcn ((hnone c).2 (Or.inl h'))
        have hcn' : alookup ls.tk.toUpdate c ≠ none := fun h' => hcn ((hnone c).2 (Or.inr h'))
        show alookup ((simWake st' L.name d.comp callAt).sched L.name).wake c = _
        rw [hWne c hcd]
        exact iv.open_w c hc hcn'
      open_fresh := by
        intro c hc hcn
        have hcd : c ≠ d.comp := fun h' => hcn ((hnone c).2 (Or.inl h'))
        have hcn' : alookup ls.tk.toUpdate c ≠ none := fun h' => hcn ((hnone c).2 (Or.inr h'))
        obtain ⟨hof, hos⟩ := iv.open_fresh c hc hcn'
        refine ⟨fun x hx => ?_, fun s hs => ?_⟩
        · have hno := hdisj c hc hcd x hx
          obtain ⟨f1, f2⟩ := hof x hx
          refine ⟨?_, (hfa.count x hno).trans f2⟩
          show x ∉ (mobs0 ++ (new_ ++ newA)).map Obs.comp
          rw [hassoc, List.map_append, List.mem_append, not_or]
          exact ⟨f1, hnotA c hc hcd x hx⟩
        · have hno := hdisj c hc hcd s hs
          have hsl' : s ≠ L.name := fun h' => hS.own_not_parent hc (h' ▸ hs)
          rw [simWake_sched _ _ _ _ _ hsl', hfa.sched s hno]
          exact hos s hs
      closed := by
        intro c hc hcn
        show ChildOK S orc σ₀ Due L (simWake st' L.name d.comp callAt) (mobs0 ++ (new_ ++ newA)) c
        rw [hassoc]
        rcases (hnone c).1 hcn with rfl | hcn'
        · exact hchild hc
        · have hcd : c ≠ d.comp := by
            intro h'; rw [h'] at hcn'; exact hopen hcn'
          refine (iv.closed c hc hcn').transport hS hc (hWne c hcd) ?_ ?_
          · intro s hs
            have hsl' : s ≠ L.name := fun h' => hS.own_not_parent hc (h' ▸ hs)
            rw [simWake_sched _ _ _ _ _ hsl']
            exact hfa.sched s (hdisj c hc hcd s hs)
          · intro x hx
            exact flt_mem_map_append_iff (hnotA c hc hcd x hx) }

end Tickit
