/-
Interleaved nested tick, part 3: every interleaved run is simulated by ATOMIC executions.

For every active level of a configuration a ghost VIRTUAL state is kept (`IVirt`): the state an
atomic execution of that level's loop is in after exactly the answers the level has propagated so
far — the inner ticks of its system components are executed atomically at the moment they CLOSE.
The virtual state has the same key-wise view as the real shared state on everything at or below the
level that is not at or below one of its open inner levels; on the region of an open inner level
it still has the view the real state had when that inner tick was opened.  One interleaved step
changes the real state only inside the footprint of the stepping level, so the invariant of all
other levels survives (`IVirt.frame`), and the stepping level's virtual loop takes the same step
(`IStep.sim`); when an inner level closes, its accumulated atomic loop is a complete
`TickLevelAny` execution from the view at its opening, which is transplanted
(`tickLevelAny_transplant`) to the parent's current virtual state.
-/
import TickitModel.Lemmas.InterBasic
import TickitModel.Lemmas.InterLoc

namespace Tickit

variable {S : Static} {orc : Oracle}

/-! ### zero or more answers of the (atomic) loop of one level -/

/-- `ls1` is reached from `ls` by answering pending dispatches of level `L`, one after the other,
inner ticks atomic (`LoopP.step` iterated, last answer last) -/
inductive LoopReach (S : Static) (orc : Oracle) (L : Level) (inCh : List (Port × V)) :
    LoopSt → LoopSt → Prop
  | refl {ls : LoopSt} : LoopReach S orc L inCh ls ls
  | snoc {ls ls1 : LoopSt} {i : Nat} {d : Dispatch V} {st' : SimSt} {ch : List (Port × V)}
      {ca : Option SimTime} {tk' : Ticker V} {ds : List (Dispatch V)} :
      LoopReach S orc L inCh ls ls1 → ls1.pending[i]? = some d →
      AnsP S orc (TickLevelAny S orc) L inCh ls1.st d (st', ch, ca) →
      ls1.tk.propagate L.wiring d.comp d.time ch = .ok (tk', ds) →
      LoopReach S orc L inCh ls
        ⟨tk', ls1.pending.eraseIdx i ++ ds, (exposeIns L d).getD ls1.outCh,
          anyWake st' L.name d.comp ca⟩

theorem LoopReach.loopP {L : Level} {inCh : List (Port × V)} {ls ls1 : LoopSt}
    (h : LoopReach S orc L inCh ls ls1) :
    ∀ {r : SimSt × List (Port × V)}, LoopP S orc (TickLevelAny S orc) L inCh ls1 r →
      LoopP S orc (TickLevelAny S orc) L inCh ls r := by
  induction h with
  | refl => intro r h; exact h
  | snoc _ h1 h2 h3 ih => intro r h; exact ih (.step h1 h2 h3 h)

theorem LoopReach.inv1 (hS : S.Valid) {L : Level} (hL : L ∈ S.levels) {inCh : List (Port × V)}
    {ls ls1 : LoopSt} (h : LoopReach S orc L inCh ls ls1) {st0 : SimSt} (inv : Inv1 S L st0 ls) :
    Inv1 S L st0 ls1 := by
  induction h with
  | refl => exact inv
  | snoc _ h1 h2 h3 ih =>
    exact ih.step hS (fun _ _ _ _ _ _ h => tickLevelAny_post1 hS h) hL h1 h2 h3

/-! ### lists of open inner levels -/

/-- the open inner levels of a level have different names -/
def NamesInj (kids : List ITree) : Prop :=
  ∀ (i1 i2 : Nat) (k1 k2 : ITree), kids[i1]? = some k1 → kids[i2]? = some k2 → k1.name = k2.name → i1 = i2

theorem NamesInj.nil : NamesInj [] := by
  intro i1 i2 k1 k2 h1
  simp at h1

theorem NamesInj.eraseIdx {kids : List ITree} (h : NamesInj kids) (j : Nat) :
    NamesInj (kids.eraseIdx j) := by
  intro i1 i2 k1 k2 h1 h2 hn
  rw [List.getElem?_eraseIdx] at h1 h2
  split at h1 <;> split at h2
  · exact h _ _ _ _ h1 h2 hn
  · have := h _ _ _ _ h1 h2 hn; omega
  · have := h _ _ _ _ h1 h2 hn; omega
  · have := h _ _ _ _ h1 h2 hn; omega

theorem NamesInj.set {kids : List ITree} (h : NamesInj kids) {j : Nat} {k k' : ITree}
    (hj : kids[j]? = some k) (hn : k'.name = k.name) : NamesInj (kids.set j k') := by
  intro i1 i2 k1 k2 h1 h2 hnn
  rw [List.getElem?_set] at h1 h2
  split at h1 <;> split at h2
  · omega
  · rename_i e1 e2
    subst e1
    split at h1
    · cases h1
      have := h _ _ _ _ hj h2 (hn ▸ hnn)
      exact this
    · cases h1
  · rename_i e1 e2
    subst e2
    split at h2
    · cases h2
      have := h _ _ _ _ h1 hj (hnn.trans hn)
      exact this
    · cases h2
  · exact h _ _ _ _ h1 h2 hnn

theorem NamesInj.snoc {kids : List ITree} (h : NamesInj kids) {k : ITree}
    (hk : ∀ k0 ∈ kids, k0.name ≠ k.name) : NamesInj (kids ++ [k]) := by
  intro i1 i2 k1 k2 h1 h2 hn
  rw [List.getElem?_append] at h1 h2
  split at h1 <;> split at h2
  · exact h _ _ _ _ h1 h2 hn
  · rename_i e1 e2
    have hk2 : k2 = k := by
      cases hi : i2 - kids.length with
      | zero => rw [hi] at h2; simpa using h2.symm
      | succ n => rw [hi] at h2; simp at h2
    exact absurd (hn.trans (hk2 ▸ rfl)) (hk k1 (List.mem_of_getElem? h1))
  · rename_i e1 e2
    have hk1 : k1 = k := by
      cases hi : i1 - kids.length with
      | zero => rw [hi] at h1; simpa using h1.symm
      | succ n => rw [hi] at h1; simp at h1
    exact absurd ((hk1 ▸ hn).symm) (hk k2 (List.mem_of_getElem? h2))
  · rename_i e1 e2
    cases hi1 : i1 - kids.length with
    | succ n => rw [hi1] at h1; simp at h1
    | zero =>
      cases hi2 : i2 - kids.length with
      | succ n => rw [hi2] at h2; simp at h2
      | zero => omega

/-- an element of a list is the `j`-th one or survives erasing the `j`-th one -/
theorem mem_eraseIdx_or_eq {α : Type} {l : List α} {a b : α} {j : Nat} (ha : a ∈ l)
    (hj : l[j]? = some b) : a = b ∨ a ∈ l.eraseIdx j := by
  obtain ⟨i, hi⟩ := List.mem_iff_getElem?.1 ha
  by_cases hij : i = j
  · subst hij
    rw [hj] at hi
    exact Or.inl (Option.some.inj hi).symm
  · exact Or.inr (List.mem_eraseIdx_iff_getElem?.2 ⟨i, hij, hi⟩)

/-! ### the invariant -/

/-- **the virtual state of an active level** (and, recursively, of the open inner levels below it):
`IVirt st T roots σ0 σ` — in the configuration with shared state `st` and tree `T`, the level at the
root of `T`, whose tick was started with `roots` in (a state with the view of) `σ0`, has the virtual
state `σ`.  `kr` / `kv` give the start / virtual states of the open inner levels, by name. -/
inductive IVirt (S : Static) (orc : Oracle) (st : SimSt) :
    ITree → List Comp → SimSt → SimSt → Prop
  | mk {fr : IFrame} {kids : List ITree} {roots : List Comp} {σ0 σ : SimSt} {tk0 : Ticker V}
      {ds0 : List (Dispatch V)} (kr kv : Comp → SimSt)
      (hL : fr.L ∈ S.levels)
      (hcall : (Ticker.call fr.L.wiring fr.t roots :
        Except TickErr (Ticker V × List (Dispatch V))) = .ok (tk0, ds0))
      (hreach : LoopReach S orc fr.L fr.inCh ⟨tk0, ds0, [], σ0⟩ ⟨fr.tk, fr.pending, fr.outCh, σ⟩)
      (hown : ∀ x, AtOrBelow S fr.L.name x → (∀ k ∈ kids, ¬ AtOrBelow S k.name x) →
        σ.loc x = st.loc x)
      (hinj : NamesInj kids)
      (hkid : ∀ k ∈ kids, S.isSys k.name = true ∧ alookup S.parent k.name = some fr.L.name ∧
        LocOn (AtOrBelow S k.name) (kr k.name) (sysPre σ k.name k.fr.t))
      (hrec : ∀ k ∈ kids, IVirt S orc st k (sysRoots S σ k.name k.fr.t) (kr k.name) (kv k.name)) :
      IVirt S orc st (.node fr kids) roots σ0 σ

/-- the invariant of a subtree depends on the shared state only through its view at and below the
subtree's level -/
theorem IVirt.frame (hS : S.Valid) {st : SimSt} {T : ITree} {roots : List Comp} {σ0 σ : SimSt}
    (h : IVirt S orc st T roots σ0 σ) :
    ∀ st' : SimSt, (∀ x, AtOrBelow S T.name x → st'.loc x = st.loc x) →
      IVirt S orc st' T roots σ0 σ := by
  induction h with
  | @mk fr kids roots σ0 σ tk0 ds0 kr kv hL hcall hreach hown hinj hkid _ ih =>
    intro st' hst
    refine .mk kr kv hL hcall hreach ?_ hinj hkid ?_
    · intro x hx hk
      rw [hown x hx hk]
      exact (hst x hx).symm
    · intro k hk
      refine ih k hk st' ?_
      intro x hx
      exact hst x (Or.inr (atOrBelow_child (hkid k hk).2.1 (hS.sys_ne_master (hkid k hk).1) hx))

/-- the configuration in which a tick starts -/
theorem IVirt.init {L : Level} (hL : L ∈ S.levels) {t : SimTime} {roots : List Comp}
    {inCh : List (Port × V)} {tk : Ticker V} {ds : List (Dispatch V)}
    (hcall : (Ticker.call L.wiring t roots : Except TickErr (Ticker V × List (Dispatch V))) = .ok (tk, ds))
    (st : SimSt) : IVirt S orc st (.node ⟨L, t, inCh, tk, ds, []⟩ []) roots st st :=
  .mk (fun _ => st) (fun _ => st) hL hcall .refl (fun _ _ _ => rfl) .nil (by simp) (by simp)

/-- a key at or below an open inner level is not the level itself -/
theorem kid_region_ne_level (hS : S.Valid) {L : Level} {c x : Comp}
    (hpar : alookup S.parent c = some L.name) (hsys : S.isSys c = true) (hx : AtOrBelow S c x) :
    x ≠ L.name :=
  Foot.ne_level hS (foot_of_atOrBelow hpar (hS.sys_ne_master hsys) hx)

/-- **the level at the root answers one dispatch** (a complete answer, or the closing of an inner
level): its virtual loop takes the same step.  `hA`: the new virtual state and the new shared state
have the same view on what is not at or below the remaining open inner levels; `hB`: the regions
of those are untouched. -/
theorem IVirt.parent_step (hS : S.Valid) {st st1 : SimSt} {fr : IFrame} {kids kids' : List ITree}
    {roots : List Comp} {σ0 σ : SimSt} {tk0 : Ticker V} {ds0 : List (Dispatch V)}
    (kr kv : Comp → SimSt) (hL : fr.L ∈ S.levels)
    (hcall : (Ticker.call fr.L.wiring fr.t roots :
      Except TickErr (Ticker V × List (Dispatch V))) = .ok (tk0, ds0))
    (hreach : LoopReach S orc fr.L fr.inCh ⟨tk0, ds0, [], σ0⟩ ⟨fr.tk, fr.pending, fr.outCh, σ⟩)
    (hinj' : NamesInj kids') (hsub : ∀ k ∈ kids', k ∈ kids)
    (hkid : ∀ k ∈ kids, S.isSys k.name = true ∧ alookup S.parent k.name = some fr.L.name ∧
      LocOn (AtOrBelow S k.name) (kr k.name) (sysPre σ k.name k.fr.t))
    (hrec : ∀ k ∈ kids, IVirt S orc st k (sysRoots S σ k.name k.fr.t) (kr k.name) (kv k.name))
    {i : Nat} {d : Dispatch V} {σ2 : SimSt} {ch : List (Port × V)} {ca : Option SimTime}
    {tk' : Ticker V} {ds : List (Dispatch V)} (h1 : fr.pending[i]? = some d)
    (ha : AnsP S orc (TickLevelAny S orc) fr.L fr.inCh σ d (σ2, ch, ca))
    (h3 : fr.tk.propagate fr.L.wiring d.comp d.time ch = .ok (tk', ds))
    (hA : ∀ x, AtOrBelow S fr.L.name x → (∀ k ∈ kids', ¬ AtOrBelow S k.name x) →
      σ2.loc x = st1.loc x)
    (hB : ∀ k ∈ kids', ∀ x, AtOrBelow S k.name x → σ2.loc x = σ.loc x ∧ st1.loc x = st.loc x) :
    IVirt S orc (anyWake st1 fr.L.name d.comp ca)
      (.node ⟨fr.L, fr.t, fr.inCh, tk', fr.pending.eraseIdx i ++ ds,
        (exposeIns fr.L d).getD fr.outCh⟩ kids') roots σ0 (anyWake σ2 fr.L.name d.comp ca) := by
  refine .mk kr kv hL hcall (hreach.snoc h1 ha h3) ?_ hinj' ?_ ?_
  · intro x hx hk
    exact loc_anyWake_congr (hA x hx hk) _ _ _
  · intro k hk
    obtain ⟨k1, k2, k3⟩ := hkid k (hsub k hk)
    refine ⟨k1, k2, ?_⟩
    intro x hx
    rw [k3 x hx]
    apply loc_sysPre_congr
    rw [loc_anyWake_ne _ _ _ _ (kid_region_ne_level hS k2 k1 hx)]
    exact ((hB k hk x hx).1).symm
  · intro k hk
    obtain ⟨k1, k2, _⟩ := hkid k (hsub k hk)
    have hkk : AtOrBelow S k.name k.name := Or.inl rfl
    have hsch : (anyWake σ2 fr.L.name d.comp ca).sched k.name = σ.sched k.name := by
      apply sched_of_loc
      rw [loc_anyWake_ne _ _ _ _ (kid_region_ne_level hS k2 k1 hkk)]
      exact (hB k hk _ hkk).1
    rw [sysRoots_of_sched hsch]
    refine (hrec k (hsub k hk)).frame hS _ ?_
    intro x hx
    rw [loc_anyWake_ne _ _ _ _ (kid_region_ne_level hS k2 k1 hx)]
    exact (hB k hk x hx).2

/-- a one-step answer either leaves the state alone, whatever it is, or is a device's -/
theorem AnswerNow.same_or_dev {L : Level} {inCh : List (Port × V)} {st : SimSt}
    {o : List (Port × V)} {d : Dispatch V} {st' : SimSt} {o' ch : List (Port × V)}
    {ca : Option SimTime} (a : AnswerNow S orc L inCh st o d (st', o', ch, ca)) :
    (st' = st ∧ ∀ (inner : LevelRel) (σ : SimSt), AnsP S orc inner L inCh σ d (σ, ch, ca)) ∨
      S.isSys d.comp = false := by
  cases a with
  | skip => exact Or.inl ⟨rfl, fun _ _ => .skip⟩
  | external h1 => exact Or.inl ⟨rfl, fun _ _ => .external h1⟩
  | expose h1 h2 => exact Or.inl ⟨rfl, fun _ _ => .expose h1 h2⟩
  | dev _ _ h3 _ _ => exact Or.inr h3

end Tickit
