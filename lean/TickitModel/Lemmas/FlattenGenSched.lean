/-
Helper lemmas for C09, part 17: the schedulers' bookkeeping (wakeups, `firstDone`, interrupts)
after an arbitrary tick of a nested configuration — vocabulary and the answer to one dispatch.
-/
import TickitModel.Lemmas.FlattenGenDefs
import TickitModel.Props.C06

namespace Tickit

/-- what is fixed during one tick of the master, about the schedulers -/
structure SchedCtx (S : Static) (σ₀ : SimSt) (t : SimTime) (Root Due : Comp → Prop) : Prop where
  /-- `Due`: the component's own wakeup entry is served (removed) in this tick; `Root`: it is a
  root of its level's tick (due, interrupted, or initial tick) -/
  due_sub : ∀ c, Due c → Root c
  due_up : ∀ c P, alookup S.parent c = some P → P ≠ "" → Due c → Due P
  due_root : ∀ s c, S.isSys s = true → c ∈ nestedDue (σ₀.sched s).wake t → Due c
  root_due : ∀ s c, S.isSys s = true → Due c →
    c ∈ nestedDue (σ₀.sched s).wake t ∨ alookup (σ₀.sched s).wake c = none
  keys₀ : ∀ L c, c ∈ akeys (σ₀.sched L).wake → alookup S.parent c = some L
  unique₀ : ∀ L, UniqueKeys (σ₀.sched L).wake
  min₀ : ∀ s P, S.isSys s = true → alookup S.parent s = some P → ¬ Due s →
    alookup (σ₀.sched P).wake s = (firstWakeups (σ₀.sched s).wake).2
  started₀ : ∀ s, S.isSys s = true → ¬ Root s →
    (σ₀.sched s).firstDone = true ∧ (σ₀.sched s).interrupts = []

/-- the wakeup entry `val` of device `d` in its scheduler `P` after the tick -/
def WakeRes (S : Static) (orc : Oracle) (σ₀ : SimSt) (Root : Comp → Prop) (P d : Comp)
    (inNew : Prop) (val : Option SimTime) : Prop :=
  (inNew → ∀ r, stepResp orc σ₀ d = some r →
    (∀ w, r.callAt = some w → val = some w) ∧ (r.callAt = none → Root d → val = none) ∧
    (r.callAt = none → ¬ Root d → val = alookup (σ₀.sched P).wake d)) ∧
  (¬ inNew → (Root d → val = none) ∧ (¬ Root d → val = alookup (σ₀.sched P).wake d))

theorem WakeRes.congr {S : Static} {orc : Oracle} {σ₀ : SimSt} {Root : Comp → Prop} {P d : Comp}
    {p1 p2 : Prop} {val : Option SimTime} (h : WakeRes S orc σ₀ Root P d p1 val) (hp : p1 ↔ p2) :
    WakeRes S orc σ₀ Root P d p2 val :=
  ⟨fun h2 => h.1 (hp.2 h2), fun h2 => h.2 (fun h1 => h2 (hp.1 h1))⟩

/-- the scheduler of level `s` is in order after the tick; `mobs` are the observations of the tick -/
structure LvlOK (S : Static) (orc : Oracle) (σ₀ : SimSt) (Root : Comp → Prop) (s : Comp)
    (st : SimSt) (mobs : List Obs) : Prop where
  unique : UniqueKeys (st.sched s).wake
  keys : ∀ c, c ∈ akeys (st.sched s).wake → alookup S.parent c = some s
  dev : ∀ d, S.isDevice d → alookup S.parent d = some s →
    WakeRes S orc σ₀ Root s d (d ∈ mobs.map Obs.comp) (alookup (st.sched s).wake d)
  sys : ∀ c, S.isSys c = true → alookup S.parent c = some s →
    alookup (st.sched s).wake c = (firstWakeups (st.sched c).wake).2
  persist : ∀ c, ¬ Root c → (alookup (σ₀.sched s).wake c).isSome = true →
    (alookup (st.sched s).wake c).isSome = true

/-- `LvlOK` only looks at the scheduler of `s`, those of its system components, and at which of
its device components have been observed -/
theorem LvlOK.transport {S : Static} {orc : Oracle} {σ₀ : SimSt} {Root : Comp → Prop} {s : Comp}
    {st st' : SimSt} {mobs mobs' : List Obs} (h : LvlOK S orc σ₀ Root s st mobs)
    (hs : st'.sched s = st.sched s)
    (hc : ∀ c, S.isSys c = true → alookup S.parent c = some s → st'.sched c = st.sched c)
    (hm : ∀ d, S.isDevice d → alookup S.parent d = some s →
      (d ∈ mobs.map Obs.comp ↔ d ∈ mobs'.map Obs.comp)) :
    LvlOK S orc σ₀ Root s st' mobs' :=
  { unique := by rw [hs]; exact h.unique
    keys := by rw [hs]; exact h.keys
    dev := by
      intro d hd hp
      rw [hs]
      exact (h.dev d hd hp).congr (hm d hd hp)
    sys := by
      intro c hcs hp
      rw [hs, hc c hcs hp]
      exact h.sys c hcs hp
    persist := by rw [hs]; exact h.persist }

/-- the subtree of a component that is not ticked keeps its schedulers, which are in order -/
theorem unticked_sched {S : Static} (hS : S.Valid) {orc : Oracle} {σ₀ : SimSt} {t : SimTime}
    {Root Due : Comp → Prop} (ctx : TickCtx S σ₀ t Root) (sctx : SchedCtx S σ₀ t Root Due) {c : Comp}
    (hnr : ¬ Root c) {st : SimSt} {mobs : List Obs}
    (hsame : ∀ s, S.Own c s → st.sched s = σ₀.sched s)
    (hunobs : ∀ x, S.Own c x → x ∉ mobs.map Obs.comp) :
    ∀ s, S.Own c s → S.isSys s = true →
      LvlOK S orc σ₀ Due s st mobs ∧
        ((st.sched s).firstDone = true ∧ (st.sched s).interrupts = []) := by
  intro s hs hsys
  have hsne : s ≠ "" := by
    intro h0
    have := hS.sys_parent s hsys
    rw [h0, hS.master_fresh] at this
    cases this
  have hchild : ∀ x, alookup S.parent x = some s → S.Own c x := by
    intro x hx
    rcases hs with rfl | ⟨hcne, hb⟩
    · exact Or.inr ⟨hsne, .direct hx⟩
    · exact Or.inr ⟨hcne, .step hx hsne hb⟩
  have hnrs : ¬ Root s := fun hr => hnr (ctx.root_up_own hs hr)
  refine ⟨?_, by rw [hsame s hs]; exact sctx.started₀ s hsys hnrs⟩
  exact
    { unique := by rw [hsame s hs]; exact sctx.unique₀ s
      keys := by rw [hsame s hs]; exact sctx.keys₀ s
      dev := by
        intro d _ hp
        have hod := hchild d hp
        have hnrd : ¬ Root d := fun hr => hnr (ctx.root_up_own hod hr)
        refine ⟨fun hin => absurd hin (hunobs d hod),
          fun _ => ⟨fun hr => absurd (sctx.due_sub d hr) hnrd, fun _ => ?_⟩⟩
        rw [hsame s hs]
      sys := by
        intro c' hcs hp
        rw [hsame s hs, hsame c' (hchild c' hp)]
        exact sctx.min₀ c' s hcs hp
          (fun hd => hnr (ctx.root_up_own (hchild c' hp) (sctx.due_sub c' hd)))
      persist := by
        intro c' _ h
        rw [hsame s hs]; exact h }

/-! ### one tick of one level: what the caller guarantees, what is achieved -/

structure SchedPre (S : Static) (σ₀ : SimSt) (Root Due : Comp → Prop) (lvl : Comp) (L : Level)
    (roots : List Comp) (st : SimSt) (mobs : List Obs) : Prop where
  hroots : ∀ c ∈ L.wiring.components, c ≠ pseudoExternal → (c ∈ roots ↔ Root c)
  fresh_obs : ∀ x, S.Below lvl x → x ∉ mobs.map Obs.comp
  fresh_count : ∀ x, S.Below lvl x → agetD st.count x 0 = agetD σ₀.count x 0
  fresh_sched : ∀ s, S.Below lvl s → st.sched s = σ₀.sched s
  own_wake : ∀ c, (Due c → alookup (st.sched lvl).wake c = none) ∧
    (¬ Due c → alookup (st.sched lvl).wake c = alookup (σ₀.sched lvl).wake c)
  own_unique : UniqueKeys (st.sched lvl).wake
  own_keys : ∀ c, c ∈ akeys (st.sched lvl).wake → alookup S.parent c = some lvl

structure SchedPost (S : Static) (orc : Oracle) (σ₀ : SimSt) (Root : Comp → Prop) (lvl : Comp)
    (st st' : SimSt) (mobs' : List Obs) : Prop where
  lvl_ok : LvlOK S orc σ₀ Root lvl st' mobs'
  below_ok : ∀ s, S.isSys s = true → S.Below lvl s →
    LvlOK S orc σ₀ Root s st' mobs' ∧
      ((st'.sched s).firstDone = true ∧ (st'.sched s).interrupts = [])
  own_same : (st'.sched lvl).firstDone = (st.sched lvl).firstDone ∧
    (st'.sched lvl).interrupts = (st.sched lvl).interrupts

/-- the induction hypothesis on the nesting depth -/
def SchedIH (S : Static) (orc : Oracle) (σ₀ : SimSt) (t : SimTime) (Root Due : Comp → Prop)
    (fuel : Nat) : Prop :=
  ∀ lvl L roots inCh st st' out mobs new,
    tickLevel S orc fuel lvl t roots inCh st = .ok (st', out) → S.level lvl = some L →
    st'.obs = st.obs ++ new → SchedPre S σ₀ Root Due lvl L roots st mobs →
    SchedPost S orc σ₀ Due lvl st st' (mobs ++ new)

/-! ### small facts -/

/-- a system without due callback whose scheduler ends up without wakeups had none before -/
theorem sys_entry_none {S : Static} (hS : S.Valid) {orc : Oracle} {σ₀ : SimSt} {t : SimTime}
    {Root Due : Comp → Prop} (sctx : SchedCtx S σ₀ t Root Due) {c P : Comp}
    (hsys : S.isSys c = true) (hpar : alookup S.parent c = some P) {st2 : SimSt} {mobs : List Obs}
    (hlvl : LvlOK S orc σ₀ Due c st2 mobs)
    (hnone : (firstWakeups (st2.sched c).wake).2 = none) (hnr : ¬ Due c) :
    alookup (σ₀.sched P).wake c = none := by
  rw [sctx.min₀ c P hsys hpar hnr]
  cases hm : (firstWakeups (σ₀.sched c).wake).2 with
  | none => rfl
  | some m =>
    exfalso
    obtain ⟨⟨c', hc'⟩, _⟩ := system_callback_is_min _ (sctx.unique₀ c) m hm
    have hpc' := sctx.keys₀ c c' (mem_akeys_of_alookup_eq_some hc')
    have hcne : c ≠ "" := hS.child_ne_master hpar
    have hnr' : ¬ Due c' := fun hr => hnr (sctx.due_up c' c hpc' hcne hr)
    have := hlvl.persist c' hnr' (by rw [hc']; rfl)
    rw [firstWakeups_none] at hnone
    rw [hnone] at this
    simp at this

theorem simWake_sched_self (st : SimSt) (lvl c : Comp) (callAt : Option SimTime) :
    (simWake st lvl c callAt).sched lvl =
      match callAt with
      | some w => { st.sched lvl with wake := addWakeup (st.sched lvl).wake c w }
      | none => st.sched lvl := by
  unfold simWake
  simp only []
  rw [SimSt.sched_upsert, if_pos rfl]
  cases callAt <;> rfl

theorem simWake_wake_lookup (st : SimSt) (lvl c : Comp) (callAt : Option SimTime) (x : Comp) :
    alookup ((simWake st lvl c callAt).sched lvl).wake x =
      match callAt with
      | some w => if x = c then some w else alookup (st.sched lvl).wake x
      | none => alookup (st.sched lvl).wake x := by
  rw [simWake_sched_self]
  cases callAt with
  | none => rfl
  | some w => exact addWakeup_lookup _ _ _ _

/-- what is known about a closed component `c` of level `L` -/
structure ChildOK (S : Static) (orc : Oracle) (σ₀ : SimSt) (Root : Comp → Prop) (L : Level)
    (st : SimSt) (mobs : List Obs) (c : Comp) : Prop where
  dev : S.isDevice c → WakeRes S orc σ₀ Root L.name c (c ∈ mobs.map Obs.comp)
    (alookup (st.sched L.name).wake c)
  sys : S.isSys c = true → alookup (st.sched L.name).wake c = (firstWakeups (st.sched c).wake).2
  below : ∀ s, S.Own c s → S.isSys s = true → LvlOK S orc σ₀ Root s st mobs ∧
    ((st.sched s).firstDone = true ∧ (st.sched s).interrupts = [])
  persist : ¬ Root c → (alookup (σ₀.sched L.name).wake c).isSome = true →
    (alookup (st.sched L.name).wake c).isSome = true

theorem ChildOK.transport {S : Static} (hS : S.Valid) {orc : Oracle} {σ₀ : SimSt}
    {Root : Comp → Prop} {L : Level} {st st' : SimSt} {mobs mobs' : List Obs} {c : Comp}
    (hc : alookup S.parent c = some L.name) (h : ChildOK S orc σ₀ Root L st mobs c)
    (hw : alookup (st'.sched L.name).wake c = alookup (st.sched L.name).wake c)
    (hs : ∀ s, S.Own c s → st'.sched s = st.sched s)
    (hm : ∀ x, S.Own c x → (x ∈ mobs.map Obs.comp ↔ x ∈ mobs'.map Obs.comp)) :
    ChildOK S orc σ₀ Root L st' mobs' c := by
  have hcne : c ≠ "" := hS.child_ne_master hc
  exact
    { dev := fun hd => by
        rw [hw]; exact (h.dev hd).congr (hm c (Static.Own.refl S c))
      sys := fun hsys => by
        rw [hw, hs c (Static.Own.refl S c)]; exact h.sys hsys
      below := by
        intro s hso hsys
        obtain ⟨h1, h2⟩ := h.below s hso hsys
        have hsne : s ≠ "" := by
          intro h0
          have := hS.sys_parent s hsys
          rw [h0, hS.master_fresh] at this
          cases this
        have hchild : ∀ x, alookup S.parent x = some s → S.Own c x := by
          intro x hx
          rcases hso with rfl | ⟨_, hb⟩
          · exact Or.inr ⟨hsne, .direct hx⟩
          · exact Or.inr ⟨hcne, .step hx hsne hb⟩
        refine ⟨h1.transport (hs s hso) (fun c' _ hp => hs c' (hchild c' hp))
          (fun d _ hp => hm d (hchild d hp)), ?_⟩
        rw [hs s hso]; exact h2
      persist := by rw [hw]; exact h.persist }

/-- invariant of `tickLoop` about the schedulers (complements `LoopInv`) -/
structure GenSched (S : Static) (orc : Oracle) (σ₀ : SimSt) (Root : Comp → Prop) (L : Level)
    (st0 : SimSt) (mobs0 : List Obs) (ls : LoopSt) (new : List Obs) : Prop where
  own_same : (ls.st.sched L.name).firstDone = (st0.sched L.name).firstDone ∧
    (ls.st.sched L.name).interrupts = (st0.sched L.name).interrupts
  own_unique : UniqueKeys (ls.st.sched L.name).wake
  own_keys : ∀ c, c ∈ akeys (ls.st.sched L.name).wake → alookup S.parent c = some L.name
  open_w : ∀ c, alookup S.parent c = some L.name → alookup ls.tk.toUpdate c ≠ none →
    alookup (ls.st.sched L.name).wake c = alookup (st0.sched L.name).wake c
  open_fresh : ∀ c, alookup S.parent c = some L.name → alookup ls.tk.toUpdate c ≠ none →
    (∀ x, S.Own c x → x ∉ (mobs0 ++ new).map Obs.comp ∧
      agetD ls.st.count x 0 = agetD σ₀.count x 0) ∧
    (∀ s, S.Own c s → ls.st.sched s = σ₀.sched s)
  closed : ∀ c, alookup S.parent c = some L.name → alookup ls.tk.toUpdate c = none →
    ChildOK S orc σ₀ Root L ls.st (mobs0 ++ new) c

end Tickit
