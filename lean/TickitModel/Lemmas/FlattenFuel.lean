/-
Helper lemmas for C09, part 6: a computable amount of fuel that is enough for `Static.resolve`.

Every step of a resolution chain sits at a pair (level, component of that level), and in a valid
configuration no pair is visited twice: inside one level the chain walks strictly upstream (the
level is acyclic), an excursion into a system stays inside that system until it leaves it through
`external` — strictly upstream of the system — and never comes back.  Hence the number of pairs,
`Σ_L |components L|`, bounds the length of every chain.  The proof lays the pairs out on the
naturals (depth-first, upstream first) so that every step goes down.
-/
import TickitModel.Lemmas.FlattenLemmas

namespace Tickit

/-! ### `resolve`, one step at a time -/

theorem Static.resolve_zero (S : Static) (lvl a : Comp) (p : Port) : S.resolve 0 lvl a p = none := by
  rw [Static.resolve]

theorem Static.resolve_ext_master (S : Static) (k : Nat) (p : Port) :
    S.resolve k "" pseudoExternal p = none := by
  cases k with
  | zero => exact S.resolve_zero _ _ _
  | succ k => rw [Static.resolve_succ]; simp

theorem Static.resolve_ext_eq (S : Static) (k : Nat) {lvl P : Comp} {LP : Level} (hne : lvl ≠ "")
    (hP : alookup S.parent lvl = some P) (hLP : S.level P = some LP) (p : Port) :
    S.resolve (k + 1) lvl pseudoExternal p =
      (LP.wiring.sourceOf lvl p).bind (fun ap => S.resolve k P ap.1 ap.2) := by
  rw [Static.resolve_succ]
  simp only [beq_self_eq_true, if_true, beq_iff_eq, hne, if_false, hP, hLP]
  cases LP.wiring.sourceOf lvl p with
  | none => rfl
  | some ap => rfl

theorem Static.resolve_sys_eq (S : Static) (k : Nat) (lvl : Comp) {a : Comp} {La : Level}
    (hne : a ≠ pseudoExternal) (hs : S.isSys a = true) (hLa : S.level a = some La) (p : Port) :
    S.resolve (k + 1) lvl a p =
      (La.wiring.sourceOf pseudoExpose p).bind (fun ap => S.resolve k a ap.1 ap.2) := by
  rw [Static.resolve_succ]
  simp only [beq_iff_eq, hne, if_false, hs, if_true, hLa]
  cases La.wiring.sourceOf pseudoExpose p with
  | none => rfl
  | some ap => rfl

theorem Static.resolve_dev_eq (S : Static) (k : Nat) (lvl : Comp) {a : Comp}
    (hne : a ≠ pseudoExternal) (hs : S.isSys a = false) (p : Port) :
    S.resolve (k + 1) lvl a p = some (a, p) := by
  rw [Static.resolve_succ]
  simp [hne, hs]

/-- a successful resolution stays successful with more fuel -/
theorem Static.resolve_mono (S : Static) :
    ∀ (k : Nat) (lvl a : Comp) (p : Port) (y : CPort), S.resolve k lvl a p = some y →
      S.resolve (k + 1) lvl a p = some y := by
  intro k
  induction k with
  | zero => intro lvl a p y h; rw [S.resolve_zero] at h; cases h
  | succ k ih =>
    intro lvl a p y h
    rw [Static.resolve_succ] at h ⊢
    by_cases hx : a = pseudoExternal
    · simp only [hx, beq_self_eq_true, if_true, beq_iff_eq] at h ⊢
      split
      · rename_i hl; simp [hl] at h
      · rename_i hl
        simp only [hl, if_false] at h
        split
        · rename_i hp; simp [hp] at h
        · rename_i P hp
          simp only [hp] at h
          split
          · rename_i hL; simp [hL] at h
          · rename_i LP hL
            simp only [hL] at h
            split
            · rename_i hs; simp [hs] at h
            · rename_i a' p' hs
              simp only [hs] at h
              exact ih _ _ _ _ h
    · simp only [beq_iff_eq, hx, if_false] at h ⊢
      split
      · rename_i hsys
        simp only [hsys, if_true] at h
        split
        · rename_i hL; simp [hL] at h
        · rename_i La hL
          simp only [hL] at h
          split
          · rename_i hs; simp [hs] at h
          · rename_i a' p' hs
            simp only [hs] at h
            exact ih _ _ _ _ h
      · rename_i hsys
        simp only [hsys, if_false] at h
        exact h

theorem Static.resolve_mono_le (S : Static) {k k' : Nat} (hk : k ≤ k') {lvl a : Comp} {p : Port}
    {y : CPort} (h : S.resolve k lvl a p = some y) : S.resolve k' lvl a p = some y := by
  induction hk with
  | refl => exact h
  | step _ ih => exact S.resolve_mono _ _ _ _ _ ih

/-- `k` units of fuel are enough at `(lvl, a, p)`: whatever can be resolved at all is resolved -/
def Static.Suff (S : Static) (k : Nat) (lvl a : Comp) (p : Port) : Prop :=
  ∀ k' y, S.resolve k' lvl a p = some y → S.resolve k lvl a p = some y

theorem Static.Suff.mono {S : Static} {k k' : Nat} {lvl a : Comp} {p : Port} (h : S.Suff k lvl a p)
    (hk : k ≤ k') : S.Suff k' lvl a p :=
  fun k'' y hy => S.resolve_mono_le hk (h k'' y hy)

theorem Static.suff_of_none {S : Static} {lvl a : Comp} {p : Port}
    (h : ∀ k, S.resolve k lvl a p = none) (k : Nat) : S.Suff k lvl a p := by
  intro k' y hy
  rw [h k'] at hy
  cases hy

theorem Static.resolveStable_of_suff {S : Static} {n : Nat} (h : ∀ lvl a p, S.Suff n lvl a p) :
    S.ResolveStable n := by
  intro lvl a p
  cases hr : S.resolve (n + 1) lvl a p with
  | some y => exact (h lvl a p _ y hr).symm
  | none =>
    cases hr' : S.resolve n lvl a p with
    | none => rfl
    | some y =>
      rw [S.resolve_mono _ _ _ _ _ hr'] at hr
      cases hr

theorem Static.suff_dev (S : Static) (lvl : Comp) {a : Comp} (hne : a ≠ pseudoExternal)
    (hs : S.isSys a = false) (p : Port) : S.Suff 1 lvl a p := by
  intro k' y hy
  cases k' with
  | zero => rw [S.resolve_zero] at hy; cases hy
  | succ k' =>
    rw [S.resolve_dev_eq _ _ hne hs] at hy ⊢
    exact hy

theorem Static.suff_sys {S : Static} {k : Nat} (lvl : Comp) {a : Comp} {La : Level}
    (hne : a ≠ pseudoExternal) (hs : S.isSys a = true) (hLa : S.level a = some La) (p : Port)
    (h : ∀ a' p', La.wiring.sourceOf pseudoExpose p = some (a', p') → S.Suff k a a' p') :
    S.Suff (k + 1) lvl a p := by
  intro k' y hy
  cases k' with
  | zero => rw [S.resolve_zero] at hy; cases hy
  | succ k' =>
    rw [S.resolve_sys_eq _ _ hne hs hLa] at hy ⊢
    cases hsrc : La.wiring.sourceOf pseudoExpose p with
    | none => rw [hsrc] at hy; cases hy
    | some ap =>
      obtain ⟨a', p'⟩ := ap
      rw [hsrc] at hy
      exact h a' p' hsrc k' y hy

theorem Static.suff_ext {S : Static} {k : Nat} {lvl P : Comp} {LP : Level} (hne : lvl ≠ "")
    (hP : alookup S.parent lvl = some P) (hLP : S.level P = some LP) (p : Port)
    (h : ∀ a' p', LP.wiring.sourceOf lvl p = some (a', p') → S.Suff k P a' p') :
    S.Suff (k + 1) lvl pseudoExternal p := by
  intro k' y hy
  cases k' with
  | zero => rw [S.resolve_zero] at hy; cases hy
  | succ k' =>
    rw [S.resolve_ext_eq _ hne hP hLP] at hy ⊢
    cases hsrc : LP.wiring.sourceOf lvl p with
    | none => rw [hsrc] at hy; cases hy
    | some ap =>
      obtain ⟨a', p'⟩ := ap
      rw [hsrc] at hy
      exact h a' p' hsrc k' y hy

theorem Static.resolve_ext_noparent (S : Static) (k : Nat) {lvl : Comp}
    (hP : alookup S.parent lvl = none) (p : Port) : S.resolve k lvl pseudoExternal p = none := by
  cases k with
  | zero => exact S.resolve_zero _ _ _
  | succ k =>
    rw [Static.resolve_succ]
    simp only [beq_self_eq_true, if_true, hP]
    split <;> rfl

theorem Static.resolve_ext_nolevel (S : Static) (k : Nat) {lvl P : Comp}
    (hP : alookup S.parent lvl = some P) (hL : S.level P = none) (p : Port) :
    S.resolve k lvl pseudoExternal p = none := by
  cases k with
  | zero => exact S.resolve_zero _ _ _
  | succ k =>
    rw [Static.resolve_succ]
    simp only [beq_self_eq_true, if_true, hP, hL]
    split <;> rfl

theorem Static.resolve_sys_nolevel (S : Static) (k : Nat) (lvl : Comp) {a : Comp}
    (hne : a ≠ pseudoExternal) (hs : S.isSys a = true) (hL : S.level a = none) (p : Port) :
    S.resolve k lvl a p = none := by
  cases k with
  | zero => exact S.resolve_zero _ _ _
  | succ k =>
    rw [Static.resolve_succ]
    simp [hne, hs, hL]

/-! ### sums over lists -/

/-- `Σ_{x ∈ l} f x` -/
def lsum {α : Type} (l : List α) (f : α → Nat) : Nat := (l.map f).sum

section LSum
variable {α β : Type}

@[simp] theorem lsum_nil (f : α → Nat) : lsum [] f = 0 := rfl

@[simp] theorem lsum_cons (x : α) (l : List α) (f : α → Nat) : lsum (x :: l) f = f x + lsum l f := by
  simp [lsum]

theorem lsum_le_lsum {l : List α} {f g : α → Nat} (h : ∀ x ∈ l, f x ≤ g x) : lsum l f ≤ lsum l g := by
  induction l with
  | nil => simp
  | cons x l ih =>
    have h1 := h x (by simp)
    have h2 := ih (fun y hy => h y (List.mem_cons_of_mem _ hy))
    simp only [lsum_cons]
    omega

theorem lsum_add (l : List α) (f g : α → Nat) :
    lsum l (fun x => f x + g x) = lsum l f + lsum l g := by
  induction l with
  | nil => simp
  | cons x l ih => simp only [lsum_cons, ih]; omega

theorem lsum_zero (l : List α) : lsum l (fun _ => 0) = 0 := by
  induction l with
  | nil => simp
  | cons x l ih => simp [ih]

theorem lsum_one (l : List α) : lsum l (fun _ => 1) = l.length := by
  induction l with
  | nil => simp
  | cons x l ih => simp only [lsum_cons, ih, List.length_cons]; omega

theorem lsum_comm (l : List α) (m : List β) (f : α → β → Nat) :
    lsum l (fun x => lsum m (fun y => f x y)) = lsum m (fun y => lsum l (fun x => f x y)) := by
  induction l with
  | nil => simp [lsum_zero]
  | cons x l ih => simp only [lsum_cons, ih, lsum_add]

theorem lsum_mem_le {l : List α} {x : α} (h : x ∈ l) (f : α → Nat) : f x ≤ lsum l f := by
  induction l with
  | nil => simp at h
  | cons y l ih =>
    simp only [lsum_cons]
    rcases List.mem_cons.1 h with rfl | h
    · omega
    · have := ih h; omega

/-- a sum with at most one non-zero term -/
theorem lsum_le_of_at_most_one {l : List α} (hn : l.Nodup) {g : α → Nat} {M : Nat}
    (h1 : ∀ x ∈ l, ∀ y ∈ l, g x ≠ 0 → g y ≠ 0 → x = y) (hM : ∀ x ∈ l, g x ≤ M) : lsum l g ≤ M := by
  induction l with
  | nil => simp
  | cons x l ih =>
    simp only [List.nodup_cons] at hn
    simp only [lsum_cons]
    by_cases hx : g x = 0
    · have := ih hn.2 (fun a ha b hb => h1 a (List.mem_cons_of_mem _ ha) b (List.mem_cons_of_mem _ hb))
        (fun a ha => hM a (List.mem_cons_of_mem _ ha))
      omega
    · have hz : lsum l g = 0 := by
        have : ∀ y ∈ l, g y = 0 := by
          intro y hy
          apply Classical.byContradiction
          intro hy0
          have := h1 x (by simp) y (List.mem_cons_of_mem _ hy) hx hy0
          exact hn.1 (this ▸ hy)
        rw [show lsum l g = lsum l (fun _ => 0) from by
          unfold lsum; congr 1; exact List.map_congr_left this]
        exact lsum_zero l
      have := hM x (by simp)
      omega

variable [DecidableEq α]

/-- the terms strictly below `a`, plus `a` itself, are among all terms -/
theorem lsum_below_add_le {l : List α} {a : α} (ha : a ∈ l) (rk : α → Nat) (w : α → Nat) :
    lsum l (fun x => if rk x < rk a then w x else 0) + w a ≤ lsum l w := by
  induction l with
  | nil => simp at ha
  | cons x l ih =>
    simp only [lsum_cons]
    by_cases hx : x = a
    · subst hx
      have : lsum l (fun y => if rk y < rk x then w y else 0) ≤ lsum l w :=
        lsum_le_lsum (fun y _ => by split <;> omega)
      simp only [Nat.lt_irrefl, if_false]
      omega
    · have ha' : a ∈ l := by
        rcases List.mem_cons.1 ha with h | h
        · exact absurd h.symm hx
        · exact h
      have := ih ha'
      split <;> omega

/-- … and if `a''` lies strictly below `a`, they are among the terms strictly below `a` -/
theorem lsum_below_add_le_below {l : List α} {a a'' : α} (ha : a'' ∈ l) (rk : α → Nat)
    (hr : rk a'' < rk a) (w : α → Nat) :
    lsum l (fun x => if rk x < rk a'' then w x else 0) + w a'' ≤
      lsum l (fun x => if rk x < rk a then w x else 0) := by
  induction l with
  | nil => simp at ha
  | cons x l ih =>
    simp only [lsum_cons]
    by_cases hx : x = a''
    · subst hx
      have : lsum l (fun y => if rk y < rk x then w y else 0) ≤
          lsum l (fun y => if rk y < rk a then w y else 0) :=
        lsum_le_lsum (fun y _ => by
          by_cases h1 : rk y < rk x
          · have : rk y < rk a := by omega
            simp [h1, this]
          · simp [h1])
      simp only [Nat.lt_irrefl, if_false, hr, if_true]
      omega
    · have ha' : a'' ∈ l := by
        rcases List.mem_cons.1 ha with h | h
        · exact absurd h.symm hx
        · exact h
      have := ih ha'
      by_cases h1 : rk x < rk a''
      · have : rk x < rk a := by omega
        simp only [h1, this, if_true]
        omega
      · simp only [h1, if_false]
        split <;> omega

end LSum

end Tickit
