/-
Helper lemmas for C12 with processing costs (`Props/C12Cost.lean`), part 2:

* `RunC` — the branches of `masterRunC` as an inductive relation, with the log of the stimuli it
  handles, between ticks and in the middle of a tick (`masterRunC_runLogC`);
* `LinkC` — how the real time of a tick record follows from the previous record and its cost;
* indexed list lemmas (`ConsecI`, telescoping) and the invariants of a run.

Core Lean only.
-/
import TickitModel.Lemmas.CostBasic

namespace Tickit
namespace CostRun

open TimeMono Pacing

/-! ## handled stimuli -/

/-- a stimulus handled by the master loop with costs: as `Pacing.StimEv` (master state `m` in
which it is handled, the stimulus, the number `k` of tick records written so far), and whether
it was handled in the middle of tick number `k - 1` (`mid = true`) or between ticks. -/
structure StimEvC extends StimEv where
  mid : Bool

/-- the stimuli handled in the middle of a tick, alongside `midTick` -/
def midLog (S : Static) (fuel : Nat) (s : Speed) (e : Int) (k : Nat) :
    MasterSt → List Stim → List StimEvC
  | _, [] => []
  | m, st :: rest =>
    if m.lastReal < st.real ∧ st.real < e then
      ⟨⟨m, st, k⟩, true⟩ :: midLog S fuel s e k (stimStepC S fuel s m st) rest
    else []

/-- the stimuli handled in the middle of the tick that `endTick` ends -/
def endLog (S : Static) (fuel : Nat) (s : Speed) (sim : SimSt) (w : SimTime) (d e : Int) (k : Nat)
    (stims : List Stim) : List StimEvC :=
  midLog S fuel s e k { sim := sim, tickerTime := w, lastReal := d, now := d } stims

theorem midLog_stims (S : Static) (fuel : Nat) (s : Speed) (e : Int) (k : Nat) (m : MasterSt)
    (stims : List Stim) :
    stims = (midLog S fuel s e k m stims).map (·.st) ++ (midTick S fuel s e m stims).2 := by
  induction stims generalizing m with
  | nil => rfl
  | cons st rest ih =>
    rw [midTick, midLog]
    split
    · simp only [List.map_cons, List.cons_append]
      rw [← ih]
    · rfl

/-- every stimulus handled in the middle of a tick: the master still has the ticker time and the
start of that tick, the stimulus lies strictly inside the tick, and so does the real time at
which it is handled. -/
theorem midLog_events (S : Static) (fuel : Nat) (s : Speed) (e : Int) (k : Nat) (m : MasterSt)
    (stims : List Stim) (hm : m.lastReal ≤ m.now) (hme : m.lastReal < e → m.now < e) :
    ∀ ev ∈ midLog S fuel s e k m stims,
      ev.k = k ∧ ev.mid = true ∧ ev.m.tickerTime = m.tickerTime ∧ ev.m.lastReal = m.lastReal ∧
      ev.m.lastReal ≤ ev.m.now ∧ m.lastReal < ev.st.real ∧ ev.st.real < e ∧ ev.now < e := by
  induction stims generalizing m with
  | nil => intro ev hev; cases hev
  | cons st rest ih =>
    intro ev hev
    rw [midLog] at hev
    split at hev
    · rename_i hg
      have hnow : m.now < e := hme (by omega)
      rcases List.mem_cons.1 hev with hev | hev
      · subst hev
        refine ⟨rfl, rfl, rfl, rfl, hm, hg.1, hg.2, ?_⟩
        show (if st.real < m.now then m.now else st.real) < e
        split <;> omega
      · have hnow' : (stimStepC S fuel s m st).now < e := by
          rw [stimStepC_now]; split <;> omega
        have := ih (stimStepC S fuel s m st)
          (by rw [stimStepC_lastReal, stimStepC_now]; split <;> omega)
          (fun _ => hnow') ev hev
        rw [stimStepC_tickerTime, stimStepC_lastReal] at this
        exact this
    · cases hev

/-! ## the run as a relation -/

/-- `RunC S orc fuel sp cost m stims acc m2 ticks log`: started in master state `m` with pending
stimuli `stims` and tick records `acc`, the master loop with costs stops in `m2` with tick records
`ticks`, having handled the stimuli recorded in `log` (in this order).  The three constructors are
the branches of `masterRunC`: stop; handle the first stimulus (`stimStepC`); run the tick of the
first wakeups, started at real time `dueReal m sp w` and ended `cost acc.length` later
(`endTick`, which handles the stimuli that fall inside the tick). -/
inductive RunC (S : Static) (orc : Oracle) (fuel : Nat) (sp : Speed) (cost : Nat → Nat) :
    MasterSt → List Stim → List TickRec → MasterSt → List TickRec → List StimEvC → Prop
  | stop (m : MasterSt) (stims : List Stim) (acc : List TickRec) :
      RunC S orc fuel sp cost m stims acc m acc []
  | stim {m : MasterSt} {stims : List Stim} {acc : List TickRec} {st : Stim} {rest : List Stim}
      {m2 : MasterSt} {ticks : List TickRec} {log : List StimEvC}
      (hsel : stimFirstC m sp (firstWakeups (m.sim.sched "").wake).2 stims = some (st, rest))
      (hrun : RunC S orc fuel sp cost (stimStepC S fuel sp m st) rest acc m2 ticks log) :
      RunC S orc fuel sp cost m stims acc m2 ticks (⟨⟨m, st, acc.length⟩, false⟩ :: log)
  | tick {m : MasterSt} {stims : List Stim} {acc : List TickRec} {comps : List Comp} {w : SimTime}
      {sim2 : SimSt} {out : List (Port × V)}
      {m2 : MasterSt} {ticks : List TickRec} {log : List StimEvC}
      (hsel : stimFirstC m sp (firstWakeups (m.sim.sched "").wake).2 stims = none)
      (hfw : firstWakeups (m.sim.sched "").wake = (comps, some w))
      (htick : tickLevel S orc fuel "" w comps [] (delMasterC m.sim comps) = .ok (sim2, out))
      (hrun : RunC S orc fuel sp cost
        (endTick S fuel sp sim2 w (dueReal m sp w) (dueReal m sp w + cost acc.length) stims).1
        (endTick S fuel sp sim2 w (dueReal m sp w) (dueReal m sp w + cost acc.length) stims).2
        (acc ++ [⟨w, dueReal m sp w, comps⟩]) m2 ticks log) :
      RunC S orc fuel sp cost m stims acc m2 ticks
        (endLog S fuel sp sim2 w (dueReal m sp w) (dueReal m sp w + cost acc.length)
          (acc.length + 1) stims ++ log)

/-- the log of handled stimuli, computed alongside `masterRunC` (`k`: number of tick records
written so far) -/
def runLogC (S : Static) (orc : Oracle) (fuel : Nat) (sp : Speed) (cost : Nat → Nat) :
    Nat → Nat → MasterSt → List Stim → Nat → List StimEvC
  | 0, _, _, _, _ => []
  | steps + 1, nTicks, m, stims, k =>
    match nTicks with
    | 0 => []
    | nTicks + 1 =>
      match stimFirstC m sp (firstWakeups (m.sim.sched "").wake).2 stims with
      | some (st, rest) =>
        ⟨⟨m, st, k⟩, false⟩ ::
          runLogC S orc fuel sp cost steps (nTicks + 1) (stimStepC S fuel sp m st) rest k
      | none =>
        match firstWakeups (m.sim.sched "").wake with
        | (comps, some w) =>
          match tickLevel S orc fuel "" w comps [] (delMasterC m.sim comps) with
          | .error _ => []
          | .ok (sim2, _) =>
            endLog S fuel sp sim2 w (dueReal m sp w) (dueReal m sp w + cost k) (k + 1) stims ++
            runLogC S orc fuel sp cost steps nTicks
              (endTick S fuel sp sim2 w (dueReal m sp w) (dueReal m sp w + cost k) stims).1
              (endTick S fuel sp sim2 w (dueReal m sp w) (dueReal m sp w + cost k) stims).2
              (k + 1)
        | (_, none) => []

/-- every successful `masterRunC` is a `RunC`, with the log `runLogC`. -/
theorem masterRunC_runLogC (S : Static) (orc : Oracle) (fuel : Nat) (sp : Speed) (cost : Nat → Nat) :
    ∀ (steps nTicks : Nat) (m : MasterSt) (stims : List Stim) (acc : List TickRec)
      (m2 : MasterSt) (ticks : List TickRec),
      masterRunC S orc fuel sp cost steps nTicks m stims acc = .ok (m2, ticks) →
      RunC S orc fuel sp cost m stims acc m2 ticks
        (runLogC S orc fuel sp cost steps nTicks m stims acc.length) := by
  intro steps
  induction steps with
  | zero =>
    intro nTicks m stims acc m2 ticks h
    rw [masterRunC] at h
    simp only [Except.ok.injEq, Prod.mk.injEq] at h
    obtain ⟨rfl, rfl⟩ := h
    exact RunC.stop _ _ _
  | succ steps ih =>
    intro nTicks m stims acc m2 ticks h
    cases nTicks with
    | zero =>
      rw [masterRunC_zero_ticks] at h
      simp only [Except.ok.injEq, Prod.mk.injEq] at h
      obtain ⟨rfl, rfl⟩ := h
      exact RunC.stop _ _ _
    | succ nTicks =>
      rw [masterRunC_unfold] at h
      rw [runLogC]
      split at h
      · rename_i st rest hsel
        rw [hsel]
        exact RunC.stim hsel (ih _ _ _ _ _ _ h)
      · rename_i hsel
        rw [hsel]
        simp only []
        split at h
        · rename_i comps w hfw
          rw [hfw]
          simp only []
          split at h
          · cases h
          · rename_i sim2 out hr
            rw [hr]
            have := ih _ _ _ _ _ _ h
            simp only [List.length_append, List.length_singleton] at this
            exact RunC.tick hsel hfw hr this
        · simp only [Except.ok.injEq, Prod.mk.injEq] at h
          obtain ⟨rfl, rfl⟩ := h
          rename_i hnone
          rw [hnone]
          exact RunC.stop _ _ _

theorem RunC.prefix {S : Static} {orc : Oracle} {fuel : Nat} {sp : Speed} {cost : Nat → Nat}
    {m : MasterSt} {stims : List Stim} {acc : List TickRec} {m2 : MasterSt} {ticks : List TickRec}
    {log : List StimEvC} (h : RunC S orc fuel sp cost m stims acc m2 ticks log) :
    ∃ tail, ticks = acc ++ tail := by
  induction h with
  | stop => exact ⟨[], by simp⟩
  | stim _ _ ih => exact ih
  | tick _ _ _ _ ih =>
    obtain ⟨t, ht⟩ := ih
    exact ⟨[_] ++ t, by rw [ht, List.append_assoc]⟩

/-- the handled stimuli are an initial segment of the given ones, in order -/
theorem RunC.log_stims {S : Static} {orc : Oracle} {fuel : Nat} {sp : Speed} {cost : Nat → Nat}
    {m : MasterSt} {stims : List Stim} {acc : List TickRec} {m2 : MasterSt} {ticks : List TickRec}
    {log : List StimEvC} (h : RunC S orc fuel sp cost m stims acc m2 ticks log) :
    ∃ rest, stims = log.map (·.st) ++ rest := by
  induction h with
  | stop m stims acc => exact ⟨stims, by simp⟩
  | @stim m stims acc st rest m2 ticks log hsel _ ih =>
    obtain ⟨r, hr⟩ := ih
    rw [stimFirstC_eq] at hsel
    exact ⟨r, by rw [stimSel_mem hsel, hr]; simp⟩
  | @tick m stims acc comps w sim2 out m2 ticks log hsel hfw htick _ ih =>
    obtain ⟨r, hr⟩ := ih
    refine ⟨r, ?_⟩
    have := midLog_stims S fuel sp (dueReal m sp w + cost acc.length) (acc.length + 1)
      { sim := sim2, tickerTime := w, lastReal := dueReal m sp w, now := dueReal m sp w } stims
    rw [List.map_append, List.append_assoc, ← hr]
    exact this

/-! ## indexed lists of tick records -/

/-- `R i` holds between the records number `i` and `i + 1` of `l`, for every `i` -/
def ConsecI (R : Nat → TickRec → TickRec → Prop) (l : List TickRec) : Prop :=
  ∀ (i : Nat) (a b : TickRec), l[i]? = some a → l[i + 1]? = some b → R i a b

theorem consecI_single (R : Nat → TickRec → TickRec → Prop) (x : TickRec) : ConsecI R [x] := by
  intro i a b _ hb
  simp at hb

theorem consecI_snoc {R : Nat → TickRec → TickRec → Prop} {l : List TickRec} {x : TickRec}
    (h : ConsecI R l) (hx : ∀ z, l.getLast? = some z → R (l.length - 1) z x) :
    ConsecI R (l ++ [x]) := by
  intro i a b ha hb
  by_cases hlt : i + 1 < l.length
  · rw [List.getElem?_append_left (by omega)] at ha
    rw [List.getElem?_append_left hlt] at hb
    exact h i a b ha hb
  · have hlen : i + 1 < (l ++ [x]).length := (List.getElem?_eq_some_iff.1 hb).1
    simp only [List.length_append, List.length_singleton] at hlen
    have hil : i + 1 = l.length := by omega
    rw [List.getElem?_append_left (by omega)] at ha
    rw [List.getElem?_append_right (by omega)] at hb
    have hb' : x = b := by
      have : i + 1 - l.length = 0 := by omega
      rw [this] at hb
      simpa using hb
    subst hb'
    have hi : i = l.length - 1 := by omega
    rw [hi]
    apply hx
    rw [List.getLast?_eq_getElem?, ← hi]
    exact ha

/-- telescoping along consecutive records, with a potential that depends on the index -/
theorem telescopeI (l : List TickRec) (f : Nat → TickRec → Int) (c : Int)
    (h : ConsecI (fun i a b => f (i + 1) b ≤ f i a + c) l) :
    ∀ (k : Nat) (x0 x : TickRec), l[0]? = some x0 → l[k]? = some x →
      f k x ≤ f 0 x0 + (k : Int) * c := by
  intro k
  induction k with
  | zero =>
    intro x0 x h0 hk
    rw [h0] at hk
    cases hk
    simp
  | succ k ih =>
    intro x0 x h0 hk
    have hlen : k + 1 < l.length := (List.getElem?_eq_some_iff.1 hk).1
    have hy : l[k]? = some l[k] := List.getElem?_eq_getElem (by omega)
    have h1 := ih x0 _ h0 hy
    have h2 := h k _ _ hy hk
    have e : ((k + 1 : Nat) : Int) * c = (k : Int) * c + c := by
      rw [Int.natCast_succ, Int.add_mul, Int.one_mul]
    rw [e]
    omega

/-! ## one link: the real time of a tick from the previous record and its cost -/

/-- record `b` follows record number `i`, `a`: the tick `a` ended at `a.real + cost i`, and the
tick for `b.time` was started at `dueReal ⟨a.time, a.real + cost i, N⟩ sp b.time`, where
`N ≥ a.real + cost i` is the real time reached meanwhile (stimuli move it forward); with
callbacks only (`cb`) nothing happens in between: `N = a.real + cost i`. -/
def LinkC (sp : Speed) (cost : Nat → Nat) (cb : Prop) (i : Nat) (a b : TickRec) : Prop :=
  ∃ N : Int, a.real + cost i ≤ N ∧ (cb → N = a.real + cost i) ∧
    b.real = dueReal { tickerTime := a.time, lastReal := a.real + cost i, now := N } sp b.time

/-- a link with costs is a zero-cost link from the END of the previous tick -/
theorem LinkC.link {sp : Speed} {cost : Nat → Nat} {cb : Prop} {i : Nat} {a b : TickRec}
    (h : LinkC sp cost cb i a b) : Link sp cb ⟨a.time, a.real + cost i, a.roots⟩ b := h

theorem LinkC.never_early {sp : Speed} {cost : Nat → Nat} {cb : Prop} {i : Nat} {a b : TickRec}
    (hs : 0 < sp.num) (h : LinkC sp cost cb i a b) :
    a.real + cost i ≤ b.real ∧ (b.time - a.time) * sp.den ≤ (b.real - (a.real + cost i)) * sp.num :=
  h.link.never_early hs

theorem LinkC.lag {sp : Speed} {cost : Nat → Nat} {cb : Prop} {i : Nat} {a b : TickRec}
    (hs : 0 < sp.num) (hcb : cb) (h : LinkC sp cost cb i a b) (hm : a.time ≤ b.time) :
    (b.real - (a.real + cost i)) * sp.num ≤ (b.time - a.time) * sp.den + (sp.num - 1) :=
  h.link.lag hs hcb hm

theorem LinkC.exact {sp : Speed} {cost : Nat → Nat} {cb : Prop} {i : Nat} {a b : TickRec}
    (hcb : cb) (h : LinkC sp cost cb i a b) (hm : a.time ≤ b.time)
    (hdiv : (sp.num : Int) ∣ (b.time - a.time) * sp.den) :
    (b.real - (a.real + cost i)) * sp.num = (b.time - a.time) * sp.den :=
  h.link.exact hcb hm hdiv

/-- with callbacks only, the start of the next tick as the code computes it: the end of the
previous tick plus the sleep `(b.time - a.time)/speed`, rounded up to a whole nanosecond; no
sleep at all when that is not positive. -/
theorem LinkC.computed {sp : Speed} {cost : Nat → Nat} {cb : Prop} {i : Nat} {a b : TickRec}
    (hcb : cb) (h : LinkC sp cost cb i a b) :
    b.real = a.real + cost i +
      (if (b.time - a.time) * sp.den ≤ 0 then 0 else ceilDiv ((b.time - a.time) * sp.den) sp.num) := by
  obtain ⟨N, _, h2, h3⟩ := h
  have hN := h2 hcb
  subst hN
  rw [dueReal_eq, sleepNumer_eq] at h3
  simp only [Int.sub_self, Int.zero_mul, Int.sub_zero] at h3
  rw [h3]
  split <;> omega

/-! ## the records of a run are linked -/

theorem RunC.links {S : Static} {orc : Oracle} {fuel : Nat} {sp : Speed} {cost : Nat → Nat}
    {cb : Prop} {m : MasterSt} {stims : List Stim} {acc : List TickRec} {m2 : MasterSt}
    {ticks : List TickRec} {log : List StimEvC}
    (h : RunC S orc fuel sp cost m stims acc m2 ticks log) :
    ∀ z, acc.getLast? = some z → z.time = m.tickerTime →
      z.real + cost (acc.length - 1) = m.lastReal →
      m.lastReal ≤ m.now → (cb → stims = [] ∧ m.now = m.lastReal) →
      ConsecI (LinkC sp cost cb) acc → ConsecI (LinkC sp cost cb) ticks := by
  induction h with
  | stop => intro z _ _ _ _ _ hc; exact hc
  | @stim m stims acc st rest m2 ticks log hsel _ ih =>
    intro z hz hzt hzr hLN hcb hc
    refine ih z hz hzt hzr ?_ ?_ hc
    · show m.lastReal ≤ (if st.real < m.now then m.now else st.real)
      split <;> omega
    · intro hc'
      have := (hcb hc').1
      rw [stimFirstC_eq] at hsel
      rw [stimSel_mem hsel] at this
      cases this
  | @tick m stims acc comps w sim2 out m2 ticks log hsel hfw htick _ ih =>
    intro z hz hzt hzr hLN hcb hc
    obtain ⟨e1, e2, e3⟩ := endTick_fst S fuel sp sim2 w (dueReal m sp w)
      (dueReal m sp w + cost acc.length) stims
    refine ih ⟨w, dueReal m sp w, comps⟩ (by simp) (by rw [e1]) ?_ (by rw [e2, e3]; exact Int.le_refl _)
      (fun hc' => ⟨?_, by rw [e2, e3]⟩) ?_
    · rw [e2]
      simp only [List.length_append, List.length_singleton, Nat.add_sub_cancel]
    · rw [(hcb hc').1]; rfl
    · refine consecI_snoc hc ?_
      intro z' hz'
      rw [hz] at hz'
      cases hz'
      refine ⟨m.now, by omega, fun hc' => by rw [(hcb hc').2, hzr], ?_⟩
      show dueReal m sp w =
          dueReal { tickerTime := z.time, lastReal := z.real + cost (acc.length - 1), now := m.now } sp w
      rw [hzt, hzr]
      rfl

/-! ## stimuli -/

/-- if some wakeup of the master has been reached in real time (and is `≤ bound` in simulation
time), the next tick record — if there is one — is started at the present real time `m.now`,
for a simulation time `≤ bound`. -/
theorem RunC.next_real {S : Static} {orc : Oracle} {fuel : Nat} {sp : Speed} {cost : Nat → Nat}
    {m : MasterSt} {stims : List Stim} {acc : List TickRec} {m2 : MasterSt} {ticks : List TickRec}
    {log : List StimEvC} (h : RunC S orc fuel sp cost m stims acc m2 ticks log) (hd : 0 < sp.den)
    (top : Comp) (bound : SimTime) :
    m.lastReal ≤ m.now →
    (∃ e ∈ (m.sim.sched "").wake, e.1 = top ∧ e.2 ≤ bound ∧
      (e.2 - m.tickerTime) * sp.den ≤ (m.now - m.lastReal) * sp.num) →
    ∀ x, ticks[acc.length]? = some x →
      x.real = m.now ∧ x.time ≤ bound ∧ (x.time = bound → top ∈ x.roots) := by
  induction h with
  | stop m stims acc =>
    intro _ _ x hx
    have := (List.getElem?_eq_some_iff.1 hx).1
    omega
  | @stim m stims acc st rest m2 ticks log hsel _ ih =>
    intro hLN ⟨e, he, het, heb, hes⟩ x hx
    rw [stimFirstC_eq] at hsel
    rw [stimStepC_eq] at ih
    obtain ⟨w, hw, hwe⟩ := firstWakeups_some_of_mem _ e he
    rw [hw] at hsel
    have hdue := stimSel_due hsel
    rw [dueReal_now_of_reached m sp w e.2 hwe hes] at hdue
    have hnow : (if st.real < m.now then m.now else st.real) = m.now := by
      split <;> omega
    have hnow' : (stimStep S fuel sp m st).now = m.now := hnow
    have hres := ih (by show m.lastReal ≤ (stimStep S fuel sp m st).now; rw [hnow']; exact hLN) ?_ x hx
    · rw [hnow'] at hres; exact hres
    · rw [stimStep_wake]
      show ∃ e' ∈ addWakeup _ _ _, e'.1 = top ∧ e'.2 ≤ bound ∧
        (e'.2 - m.tickerTime) * sp.den ≤ ((stimStep S fuel sp m st).now - m.lastReal) * sp.num
      rw [hnow']
      rcases upsert_keeps (m.sim.sched "").wake (raiseInterrupt S fuel st.comp m.sim).2
        (stimWhen (m.sim.sched "").wake (raiseInterrupt S fuel st.comp m.sim).2
          (interruptStamp m.tickerTime (if st.real < m.now then m.now else st.real) m.lastReal sp))
        e he with hk | hk
      · exact ⟨e, hk, het, heb, hes⟩
      · obtain ⟨hk1, hk⟩ := hk
        refine ⟨_, upsert_self_mem _ _ _, by rw [← hk1]; exact het, ?_, ?_⟩
        · exact Int.le_trans (stimWhen_le_old _ _ _ _ hk) heb
        · have h1 := stimWhen_le_old _ _ (interruptStamp m.tickerTime
            (if st.real < m.now then m.now else st.real) m.lastReal sp) _ hk
          have : (stimWhen (m.sim.sched "").wake (raiseInterrupt S fuel st.comp m.sim).2
              (interruptStamp m.tickerTime (if st.real < m.now then m.now else st.real) m.lastReal sp)
              - m.tickerTime) * (sp.den : Int) ≤ (e.2 - m.tickerTime) * (sp.den : Int) :=
            Int.mul_le_mul_of_nonneg_right (by simp only [SimTime] at *; omega) (by omega)
          exact Int.le_trans this hes
  | @tick m stims acc comps w sim2 out m2 ticks log hsel hfw htick hrun ih =>
    intro hLN ⟨e, he, het, heb, hes⟩ x hx
    obtain ⟨t, ht⟩ := hrun.prefix
    rw [ht, List.append_assoc, List.getElem?_append_right (Nat.le_refl _), Nat.sub_self] at hx
    simp only [List.singleton_append, List.getElem?_cons_zero, Option.some.injEq] at hx
    subst hx
    have hsnd : (firstWakeups (m.sim.sched "").wake).2 = some w := by rw [hfw]
    have hwe := (firstWakeups_mem _ _ hsnd).2 e he
    refine ⟨dueReal_now_of_reached m sp w e.2 hwe hes, Int.le_trans hwe heb, fun hwb => ?_⟩
    have hwb : w = bound := hwb
    have hew : e.2 = w := by simp only [SimTime] at *; omega
    have hcs := ((firstWakeups_eq _ _ _).1 hfw).2
    show top ∈ comps
    rw [hcs]
    exact List.mem_map.2 ⟨e, List.mem_filter.2 ⟨he, by simp [hew]⟩, het⟩

/-- every stimulus handled BETWEEN ticks: the tick record that follows it — if there is one — is
started at the real time `ev.now` at which the stimulus was handled, for a simulation time
`≤ ev.when` (`≤` its stamp); if it is the tick for `ev.when`, the interrupting component is among
its roots. -/
theorem RunC.served {S : Static} {orc : Oracle} {fuel : Nat} {sp : Speed} {cost : Nat → Nat}
    {m : MasterSt} {stims : List Stim} {acc : List TickRec} {m2 : MasterSt} {ticks : List TickRec}
    {log : List StimEvC} (h : RunC S orc fuel sp cost m stims acc m2 ticks log) (hd : 0 < sp.den) :
    m.lastReal ≤ m.now →
    ∀ ev ∈ log, ev.mid = false → ∀ x, ticks[ev.k]? = some x →
      x.real = ev.now ∧ x.time ≤ ev.when S fuel sp ∧
        (x.time = ev.when S fuel sp → ev.top S fuel ∈ x.roots) := by
  induction h with
  | stop => intro _ ev hev; cases hev
  | @stim m stims acc st rest m2 ticks log hsel hrun ih =>
    intro hLN ev hev hmid x hx
    have hLN' : m.lastReal ≤ (if st.real < m.now then m.now else st.real) := by
      split <;> omega
    rcases List.mem_cons.1 hev with hev | hev
    · subst hev
      refine hrun.next_real hd _ _ hLN' ?_ x hx
      rw [stimStepC_eq, stimStep_wake]
      refine ⟨_, upsert_self_mem _ _ _, rfl, Int.le_refl _, ?_⟩
      have h1 := stimWhen_le_stamp (m.sim.sched "").wake (raiseInterrupt S fuel st.comp m.sim).2
        (interruptStamp m.tickerTime (if st.real < m.now then m.now else st.real) m.lastReal sp)
      have h2 := (stamp_law' m.tickerTime (if st.real < m.now then m.now else st.real) m.lastReal sp
        hd hLN').1
      have : (stimWhen (m.sim.sched "").wake (raiseInterrupt S fuel st.comp m.sim).2
          (interruptStamp m.tickerTime (if st.real < m.now then m.now else st.real) m.lastReal sp)
          - m.tickerTime) * (sp.den : Int) ≤
          (interruptStamp m.tickerTime (if st.real < m.now then m.now else st.real) m.lastReal sp
            - m.tickerTime) * (sp.den : Int) :=
        Int.mul_le_mul_of_nonneg_right (by simp only [SimTime] at *; omega) (by omega)
      exact Int.le_trans this h2
    · exact ih hLN' ev hev hmid x hx
  | @tick m stims acc comps w sim2 out m2 ticks log hsel hfw htick _ ih =>
    intro _ ev hev hmid x hx
    obtain ⟨_, e2, e3⟩ := endTick_fst S fuel sp sim2 w (dueReal m sp w)
      (dueReal m sp w + cost acc.length) stims
    rcases List.mem_append.1 hev with hev | hev
    · have := (midLog_events S fuel sp _ _ _ stims (Int.le_refl _) (fun h => h) ev hev).2.1
      rw [this] at hmid
      cases hmid
    · exact ih (by rw [e2, e3]; exact Int.le_refl _) ev hev hmid x hx

/-- what the run guarantees for every handled stimulus `ev`, where `z` is the last tick record
written before it (`ticks[ev.k - 1]`):
* between ticks (`mid = false`): the master has the time of `z` and the END of `z` as
  `lastReal`;
* in the middle of tick `z` (`mid = true`): the master has the time of `z` and the START of `z`
  as `lastReal`, and the stimulus is handled strictly inside the tick;
and in both cases real time has not run backwards, and simulation time was not ahead of real
time when `z` started. -/
theorem RunC.events {S : Static} {orc : Oracle} {fuel : Nat} {sp : Speed} {cost : Nat → Nat}
    {m : MasterSt} {stims : List Stim} {acc : List TickRec} {m2 : MasterSt} {ticks : List TickRec}
    {log : List StimEvC} (h : RunC S orc fuel sp cost m stims acc m2 ticks log) (hs : 0 < sp.num)
    (t0 : SimTime) (now0 : Int) :
    ∀ z, acc.getLast? = some z → z.time = m.tickerTime →
      z.real + cost (acc.length - 1) = m.lastReal →
      m.lastReal ≤ m.now →
      (z.time - t0) * sp.den ≤ (z.real - now0) * sp.num →
      ∀ ev ∈ log, ev.m.lastReal ≤ ev.m.now ∧
        1 ≤ ev.k ∧ ∃ z', ticks[ev.k - 1]? = some z' ∧ z'.time = ev.m.tickerTime ∧
          (z'.time - t0) * sp.den ≤ (z'.real - now0) * sp.num ∧
          (ev.mid = false → z'.real + cost (ev.k - 1) = ev.m.lastReal) ∧
          (ev.mid = true → z'.real = ev.m.lastReal ∧ z'.real < ev.st.real ∧
            ev.st.real < z'.real + cost (ev.k - 1) ∧ ev.now < z'.real + cost (ev.k - 1)) := by
  induction h with
  | stop => intro _ _ _ _ _ _ ev hev; cases hev
  | @stim m stims acc st rest m2 ticks log hsel hrun ih =>
    intro z hz hzt hzr hLN hinv ev hev
    rcases List.mem_cons.1 hev with hev | hev
    · subst hev
      obtain ⟨t, ht⟩ := hrun.prefix
      have hlen : 1 ≤ acc.length := by
        cases acc with
        | nil => simp at hz
        | cons _ _ => simp
      refine ⟨hLN, hlen, z, ?_, hzt, hinv, fun _ => hzr, fun hmid => (by cases hmid)⟩
      show ticks[acc.length - 1]? = some z
      rw [ht, List.getElem?_append_left (by omega), ← List.getLast?_eq_getElem?]
      exact hz
    · refine ih z hz hzt hzr ?_ hinv ev hev
      show m.lastReal ≤ (if st.real < m.now then m.now else st.real)
      split <;> omega
  | @tick m stims acc comps w sim2 out m2 ticks log hsel hfw htick hrun ih =>
    intro z hz hzt hzr hLN hinv ev hev
    obtain ⟨e1, e2, e3⟩ := endTick_fst S fuel sp sim2 w (dueReal m sp w)
      (dueReal m sp w + cost acc.length) stims
    have hinv' : (w - t0) * (sp.den : Int) ≤ (dueReal m sp w - now0) * (sp.num : Int) := by
      have h1 := (never_early' m sp hs w).2
      have hc : (0 : Int) ≤ (cost (acc.length - 1) : Int) * (sp.num : Int) :=
        Int.mul_nonneg (by omega) (by omega)
      rw [← hzt, ← hzr] at h1
      generalize dueReal m sp w = D at *
      simp only [SimTime] at *
      simp only [Int.sub_mul, Int.add_mul] at *
      omega
    rcases List.mem_append.1 hev with hev | hev
    · obtain ⟨k1, k2, k3, k4, k5, k6, k7, k8⟩ :=
        midLog_events S fuel sp (dueReal m sp w + cost acc.length) (acc.length + 1)
          { sim := sim2, tickerTime := w, lastReal := dueReal m sp w, now := dueReal m sp w }
          stims (Int.le_refl _) (fun h => h) ev hev
      obtain ⟨t, ht⟩ := hrun.prefix
      refine ⟨k5, by omega, ⟨w, dueReal m sp w, comps⟩, ?_, by rw [k3], hinv',
        fun hmid => (by rw [k2] at hmid; cases hmid), fun _ => ?_⟩
      · rw [k1, ht, List.append_assoc,
          List.getElem?_append_right (by simp only [Nat.add_sub_cancel]; exact Nat.le_refl _)]
        simp
      · rw [k1, k4]
        simp only [Nat.add_sub_cancel, true_and]
        exact ⟨k6, k7, k8⟩
    · refine ih ⟨w, dueReal m sp w, comps⟩ (by simp) (by rw [e1]) ?_
        (by rw [e2, e3]; exact Int.le_refl _) hinv' ev hev
      rw [e2]
      simp only [List.length_append, List.length_singleton, Nat.add_sub_cancel]

/-! ## from the initial tick -/

theorem masterInitialC_shape {S : Static} {orc : Oracle} {fuel : Nat} {sp : Speed}
    {cost : Nat → Nat} {t0 : SimTime} {now0 : Int} {stims0 stims : List Stim}
    {m : MasterSt} {tr : TickRec}
    (h : masterInitialC S orc fuel sp cost t0 now0 stims0 = .ok (m, tr, stims)) :
    tr.time = t0 ∧ tr.real = now0 ∧ m.tickerTime = t0 ∧ m.lastReal = now0 + cost 0 ∧
    m.now = now0 + cost 0 ∧ (stims0 = [] → stims = []) ∧
    ∃ sim, stims0 = (endLog S fuel sp sim t0 now0 (now0 + cost 0) 1 stims0).map (·.st) ++ stims := by
  unfold masterInitialC at h
  split at h
  · cases h
  · simp only [] at h
    split at h
    · cases h
    · rename_i st out _
      simp only [Except.ok.injEq, Prod.mk.injEq] at h
      obtain ⟨rfl, rfl, rfl⟩ := h
      obtain ⟨e1, e2, e3⟩ := endTick_fst S fuel sp st t0 now0 (now0 + cost 0) stims0
      refine ⟨rfl, rfl, e1, e2, e3, fun h0 => by rw [h0]; rfl, st, ?_⟩
      exact midLog_stims S fuel sp _ _ _ stims0

/-- the stimuli handled in the middle of the initial tick, alongside `masterInitialC` -/
def initLogC (S : Static) (orc : Oracle) (fuel : Nat) (sp : Speed) (cost : Nat → Nat)
    (t0 : SimTime) (now0 : Int) (stims0 : List Stim) : List StimEvC :=
  match S.level "" with
  | none => []
  | some L =>
    match tickLevel S orc fuel "" t0 L.wiring.components [] {} with
    | .error _ => []
    | .ok (st, _) => endLog S fuel sp st t0 now0 (now0 + cost 0) 1 stims0

/-- the stimuli handled in the middle of the initial tick: they lie strictly inside it, and the
master has the initial time and the START of the initial tick; the others are left. -/
theorem masterInitialC_log {S : Static} {orc : Oracle} {fuel : Nat} {sp : Speed}
    {cost : Nat → Nat} {t0 : SimTime} {now0 : Int} {stims0 stims : List Stim}
    {m : MasterSt} {tr : TickRec}
    (h : masterInitialC S orc fuel sp cost t0 now0 stims0 = .ok (m, tr, stims)) :
    stims0 = (initLogC S orc fuel sp cost t0 now0 stims0).map (·.st) ++ stims ∧
    ∀ ev ∈ initLogC S orc fuel sp cost t0 now0 stims0,
      ev.k = 1 ∧ ev.mid = true ∧ ev.m.tickerTime = t0 ∧ ev.m.lastReal = now0 ∧
      ev.m.lastReal ≤ ev.m.now ∧ now0 < ev.st.real ∧ ev.st.real < now0 + cost 0 ∧
      ev.now < now0 + cost 0 := by
  unfold masterInitialC at h
  unfold initLogC
  cases hL : S.level "" with
  | none => rw [hL] at h; cases h
  | some L =>
    rw [hL] at h
    simp only [] at h ⊢
    cases hT : tickLevel S orc fuel "" t0 L.wiring.components [] {} with
    | error e => rw [hT] at h; cases h
    | ok r =>
      obtain ⟨st, out⟩ := r
      rw [hT] at h
      simp only [Except.ok.injEq, Prod.mk.injEq] at h ⊢
      obtain ⟨rfl, rfl, rfl⟩ := h
      exact ⟨midLog_stims S fuel sp _ _ _ stims0,
        midLog_events S fuel sp (now0 + cost 0) 1
          { sim := st, tickerTime := t0, lastReal := now0, now := now0 } stims0
          (Int.le_refl _) (fun h => h)⟩

/-- initial tick + run with costs: the run is a `RunC` with the log `runLogC`, the first record is
the initial tick `(t0, now0)`, and every record is linked to the previous one and its cost. -/
theorem initial_runC {S : Static} {orc : Oracle} {fuel : Nat} {t0 : SimTime} {now0 : Int}
    {sp : Speed} {cost : Nat → Nat} {steps nTicks : Nat} {stims0 stims : List Stim}
    {m m2 : MasterSt} {tr : TickRec} {ticks : List TickRec}
    (h : masterInitialC S orc fuel sp cost t0 now0 stims0 = .ok (m, tr, stims))
    (h2 : masterRunC S orc fuel sp cost steps nTicks m stims [tr] = .ok (m2, ticks)) :
    RunC S orc fuel sp cost m stims [tr] m2 ticks (runLogC S orc fuel sp cost steps nTicks m stims 1) ∧
      ConsecI (LinkC sp cost (stims0 = [])) ticks ∧ ticks[0]? = some tr ∧ tr.time = t0 ∧
      tr.real = now0 := by
  have hrun := masterRunC_runLogC S orc fuel sp cost steps nTicks m stims [tr] m2 ticks h2
  obtain ⟨h1, h2', h3, h4, h5, h6, _⟩ := masterInitialC_shape h
  refine ⟨hrun, ?_, ?_, h1, h2'⟩
  · refine hrun.links tr rfl (by rw [h1, h3]) (by rw [h2', h4]; rfl) (by omega)
      (fun hc => ⟨h6 hc, by omega⟩) (consecI_single _ _)
  · obtain ⟨t, ht⟩ := hrun.prefix
    rw [ht]; rfl

end CostRun
end Tickit
