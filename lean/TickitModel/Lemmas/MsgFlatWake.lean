/-
The scheduler's `wakeups` dict during a message-level tick: the entry of a component changes
exactly when the scheduler consumes that component's `Output`, to the `call_at` the component
put into it (if any).
-/
import TickitModel.Lemmas.MsgFlatLive
import TickitModel.Props.C06

set_option autoImplicit false

namespace Tickit

variable {Val : Type}

/-- the message with which dispatch `d` is answered: the component's `Output` for an `Input`,
the `Skip` itself for a `Skip`. -/
def answerMsg (rx : MsgReact Val) : Dispatch Val → BusMsg Val
  | .input c t ins => .output c t (rx c t ins).1 (rx c t ins).2
  | .skip c t => .disp (.skip c t)

/-- what waits in `out c` is the answer to the pending dispatch of `c`. -/
theorem SlotRel.next_out {rx : MsgReact Val} {m : MsgSt Val} {P : List (Dispatch Val)}
    (h : SlotRel rx m P) {c : Comp} {μ : BusMsg Val} (hμ : m.next (.outT c) = some μ) :
    ∃ d, d ∈ P ∧ d.comp = c ∧ μ = answerMsg rx d := by
  obtain ⟨o, ho, hp⟩ := h c
  have hlt : m.cur (.outT c) < (m.log (.outT c)).length := by
    simp only [MsgSt.next] at hμ
    exact (List.getElem?_eq_some_iff.1 hμ).1
  cases ho with
  | idle a b => omega
  | inputWaiting t ins a b d => omega
  | outputWaiting t ins a b d e =>
    rw [e] at hμ; cases hμ
    exact ⟨_, ((hp _).2 rfl).1, rfl, rfl⟩
  | skipWaiting t a b d =>
    rw [d] at hμ; cases hμ
    exact ⟨_, ((hp _).2 rfl).1, rfl, rfl⟩

/-- the wakeup entry of a component after its dispatch has been answered: the `call_at` of its
`Output` if it has one, else what was there. -/
def wkOf (rx : MsgReact Val) (w0 : Option SimTime) : Option (Dispatch Val) → Option SimTime
  | some (.input c t ins) =>
    match (rx c t ins).2 with
    | some x => some x
    | none => w0
  | _ => w0

theorem alookup_wake_noteWakeup (m : MsgSt Val) (c c' : Comp) (ca : Option SimTime) :
    alookup (m.noteWakeup c ca).wake c' =
      if c' = c then (match ca with | some x => some x | none => alookup m.wake c')
      else alookup m.wake c' := by
  cases ca with
  | none => simp [MsgSt.noteWakeup]
  | some x => simp only [MsgSt.noteWakeup]; rw [addWakeup_lookup]

theorem dispatchOf_append_of_some {tr ext : List (Ev Val)} {c : Comp} {d : Dispatch Val}
    (h : dispatchOf tr c = some d) : dispatchOf (tr ++ ext) c = some d := by
  simp only [dispatchOf, List.findSome?_append] at h ⊢
  rw [h]; rfl

theorem dispatched_of_answered {w : Wiring} {t : SimTime} {roots : List Comp}
    {tu : List (Comp × Bool)} {P : List (Dispatch Val)} {tr : List (Ev Val)}
    (h : PreInv w t roots tu P tr) {c : Comp} {ch : List (Port × Val)}
    (ha : Ev.answer c ch ∈ tr) : ∃ d, dispatchOf tr c = some d := by
  have h1 : 0 < (tr.filter (Ev.isAnswerOf c)).length :=
    List.length_pos_of_mem (List.mem_filter.2 ⟨ha, by simp [Ev.isAnswerOf]⟩)
  have h2 := (h.count c).2
  cases hd : dispatchOf tr c with
  | some d => exact ⟨d, rfl⟩
  | none =>
    have := filter_isDispatchOf_eq_nil (tr := tr) (c := c)
      (fun d hd' => dispatchOf_eq_none_iff.1 hd d hd')
    rw [this, List.length_nil] at h2
    omega

/-- the `wakeups` dict in a message-level tick begun from `m0` -/
structure WakeInv (rx : MsgReact Val) (m0 m : MsgSt Val) : Prop where
  /-- no `Output`/`Skip` of `c` consumed yet: the entry of `c` is untouched -/
  untouched : ∀ c, (∀ ch, Ev.answer c ch ∉ m.trace) → alookup m.wake c = alookup m0.wake c
  /-- consumed: the entry is the `call_at` of `c`'s `Output`, if it has one -/
  answered : ∀ c ch, Ev.answer c ch ∈ m.trace →
    alookup m.wake c = wkOf rx (alookup m0.wake c) (dispatchOf m.trace c)
  unique : UniqueKeys m0.wake → UniqueKeys m.wake

theorem UniqueKeys_noteWakeup {m : MsgSt Val} (h : UniqueKeys m.wake) (c : Comp)
    (ca : Option SimTime) : UniqueKeys (m.noteWakeup c ca).wake := by
  cases ca with
  | none => exact h
  | some x => exact addWakeup_unique _ h c x

theorem WakeInv.congr {rx : MsgReact Val} {m0 m m' : MsgSt Val} (h : WakeInv rx m0 m)
    (hw : m'.wake = m.wake) (ht : m'.trace = m.trace) : WakeInv rx m0 m' :=
  ⟨fun c hc => by rw [hw]; exact h.untouched c (ht ▸ hc),
   fun c ch hc => by rw [hw, ht]; exact h.answered c ch (ht ▸ hc),
   fun hu => hw ▸ h.unique hu⟩

theorem MsgSt.Reach.wakeInv {w : Wiring} {rx : MsgReact Val} {t : SimTime} {roots : List Comp}
    {m0 m : MsgSt Val} (h0 : m0.Idle) (h : MsgSt.Reach w rx t roots m0 m) : WakeInv rx m0 m := by
  induction h with
  | init =>
    refine ⟨fun _ _ => rfl, fun c ch hc => ?_, fun hu => hu⟩
    simp [MsgSt.trace, h0.2.1] at hc
  | @step m m' a hreach hstep ih =>
    cases a with
    | startSched =>
      obtain ⟨htk, r, _, rfl⟩ := MsgSt.step_startSched_ok hstep
      have htr : m.trace = [] := by
        rcases hreach.sim h0 with ⟨hI, _, _⟩ | ⟨s, _, hs⟩
        · simp [MsgSt.trace, hI.2.1]
        · rw [hs.tk] at htk; cases htk
      refine ⟨fun c _ => ?_, fun c ch hc => ?_, fun hu => by simpa using ih.unique hu⟩
      · simpa using ih.untouched c (by simp [htr])
      · simp [htr] at hc
    | startComp c =>
      obtain ⟨_, rfl⟩ := MsgSt.step_startComp_ok hstep
      exact ih.congr rfl rfl
    | deliverIn c =>
      obtain ⟨hc, μ, hμ⟩ := MsgSt.step_deliverIn_enabled hstep
      obtain ⟨t', ins, rfl, _⟩ := hreach.next_in h0 hμ
      rw [MsgSt.step_deliverIn_input hc hμ] at hstep
      simp only [Option.some.injEq, Except.ok.injEq] at hstep
      subst hstep
      exact ih.congr rfl (by simp [MsgEv.toEv])
    | deliverOut c =>
      obtain ⟨tk, μ, htk, hμ, ⟨src, t', ch, ca, r, hform, _, rfl⟩ | ⟨hjunk, rfl⟩⟩ :=
        MsgSt.step_deliverOut_ok hstep
      · rcases hreach.sim h0 with ⟨hI, _, _⟩ | ⟨s, hr, hs⟩
        · rw [hI.1] at htk; cases htk
        · have hpre := hr.inv.pre
          obtain ⟨d, hdP, hdc, hans⟩ := hs.slot.next_out hμ
          -- source and call_at of the consumed message
          have hsrc : src = c ∧ ca = (match d with
              | .input c' t'' ins => (rx c' t'' ins).2
              | .skip _ _ => none) := by
            cases d with
            | input c' t'' ins =>
              simp only [Dispatch.comp] at hdc; subst hdc
              rcases hform with rfl | ⟨rfl, _, _⟩
              · simp only [answerMsg, BusMsg.output.injEq] at hans
                exact ⟨hans.1, hans.2.2.2⟩
              · simp [answerMsg] at hans
            | skip c' t'' =>
              simp only [Dispatch.comp] at hdc; subst hdc
              rcases hform with rfl | ⟨rfl, _, hca⟩
              · simp [answerMsg] at hans
              · simp only [answerMsg, BusMsg.disp.injEq, Dispatch.skip.injEq] at hans
                exact ⟨hans.1, hca⟩
          obtain ⟨rfl, hca⟩ := hsrc
          have htr : ∀ m1 : MsgSt Val, m1 = ((((m.advance (.outT src)).record
              (.answer src ch)).setTk r.1).sendAll r.2).noteWakeup src ca →
              m1.trace = m.trace ++ ([Ev.answer src ch] ++ r.2.map Ev.dispatch) := by
            intro m1 hm1; subst hm1
            simp [MsgEv.toEv]
          have htr' := htr _ rfl
          -- `src` had not answered before; its dispatch is `d`
          have hflag : alookup s.tk.toUpdate src = some true :=
            (hpre.pend_flag src).1 ⟨d, hdP, hdc⟩
          have hnoans : ∀ ch', Ev.answer src ch' ∉ m.trace := by
            intro ch' hm
            rw [hs.trace] at hm
            have hext := hpre.keys_ext src (by rw [hflag]; simp)
            have := (hpre.resolved src hext).2 ⟨ch', hm⟩
            rw [hflag] at this; cases this
          have hdisp : dispatchOf m.trace src = some d := by
            rw [hs.trace]
            have := dispatchOf_eq_of_mem (hpre.count d.comp).1 (hpre.pend_trace d hdP)
            rwa [hdc] at this
          refine ⟨fun c' hc' => ?_, fun c' ch' hc' => ?_, fun hu =>
            UniqueKeys_noteWakeup (by simpa using ih.unique hu) _ _⟩
          · have hne : c' ≠ src := by
              rintro rfl
              exact hc' ch (by rw [htr']; simp)
            rw [alookup_wake_noteWakeup, if_neg hne]
            simp only [MsgSt.wake_sendAll, MsgSt.wake_setTk, MsgSt.wake_record, MsgSt.wake_advance]
            apply ih.untouched
            intro ch'' hm
            exact hc' ch'' (by rw [htr']; exact List.mem_append_left _ hm)
          · rw [htr'] at hc' ⊢
            rw [alookup_wake_noteWakeup]
            simp only [MsgSt.wake_sendAll, MsgSt.wake_setTk, MsgSt.wake_record, MsgSt.wake_advance]
            by_cases hcs : c' = src
            · subst hcs
              rw [if_pos rfl, dispatchOf_append_of_some hdisp, ih.untouched c' hnoans, hca]
              cases d with
              | input c'' t'' ins => simp only [wkOf]
              | skip c'' t'' => simp only [wkOf]
            · rw [if_neg hcs]
              have hin : Ev.answer c' ch' ∈ m.trace := by
                simp only [List.mem_append, List.mem_cons, Ev.answer.injEq, List.mem_map,
                  List.not_mem_nil, or_false] at hc'
                rcases hc' with h | ⟨h, _⟩ | ⟨_, _, h⟩
                · exact h
                · exact absurd h hcs
                · cases h
              obtain ⟨d', hd'⟩ := dispatched_of_answered (hs.trace ▸ hpre) hin
              rw [dispatchOf_append_of_some hd', ← hd']
              exact ih.answered c' ch' hin
      · exact ih.congr rfl rfl

end Tickit
