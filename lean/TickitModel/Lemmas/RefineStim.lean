/-
Refinement, part 3: a whole run WITH EXTERNAL STIMULI (initial tick, callback ticks, interrupts
raised between ticks) of the whole-simulation model on a flat configuration is a `FlatRunI` of
`Core/FlatInt.lean`.

The induction is over `Pacing.Run` (the branches of `masterRun` as a relation, with the log of the
handled stimuli; `Pacing.masterRun_runLog`), following `Refine.masterRun_flat`:

* tick branch — `Refine.tickLevel_flat`, as for callbacks;
* stimulus branch — on a flat configuration the interrupting component is a child of the master
  (`alookup S.parent c = some ""`), so `raiseInterrupt` returns the component itself and leaves the
  state alone (`raiseInterrupt_top`); the wakeup written by `stimStep`
  (`addWakeup wake c (stimWhen wake c stamp)`) is literally `intWake wake c stamp`
  (`intWake_eq_stimWhen`), so the relation `Refine.R` is preserved (`R_stimStep`); the stamp is
  `interruptStamp tickerTime now lastReal ≥ tickerTime` = the time of the last tick
  (`interruptStamp_ge`, invariant `lastReal ≤ now`), which is `StampsTimely`.
-/
import TickitModel.Core.FlatInt
import TickitModel.Lemmas.FlatIntLemmas
import TickitModel.Lemmas.RefineRun
import TickitModel.Lemmas.PacingLemmas

namespace Tickit

/-- the interrupt recorded by a script action, if it is one -/
def FAct.interruptOf : FAct → Option (Comp × SimTime)
  | .tick => none
  | .interrupt c stamp => some (c, stamp)

/-- the interrupts of a script, each with its position in the history: `(k, c, stamp)` says the
interrupt of `c` stamped `stamp` comes when `k` ticks have happened, where `k0` ticks have happened
before the script starts (with `k0 = 1` — the initial tick — for the script of a whole
`FlatRunI`). -/
def interruptsAt : List FAct → Nat → List (Nat × Comp × SimTime)
  | [], _ => []
  | .tick :: rest, k => interruptsAt rest (k + 1)
  | .interrupt c stamp :: rest, k => (k, c, stamp) :: interruptsAt rest k

/-- forgetting the positions -/
theorem interruptsAt_forget (sc : List FAct) (k : Nat) :
    sc.filterMap FAct.interruptOf = (interruptsAt sc k).map (·.2) := by
  induction sc generalizing k with
  | nil => rfl
  | cons a sc ih =>
    cases a with
    | tick => simp only [List.filterMap_cons, FAct.interruptOf, interruptsAt]; exact ih _
    | interrupt c stamp =>
      simp only [List.filterMap_cons, FAct.interruptOf, interruptsAt, List.map_cons]
      rw [ih k]

theorem interruptsAt_append (sc1 sc2 : List FAct) (k : Nat) :
    interruptsAt (sc1 ++ sc2) k =
      interruptsAt sc1 k ++ interruptsAt sc2 (k + sc1.count FAct.tick) := by
  induction sc1 generalizing k with
  | nil => simp [interruptsAt]
  | cons a sc1 ih =>
    cases a with
    | tick =>
      simp only [List.cons_append, interruptsAt, List.count_cons_self]
      rw [ih (k + 1)]
      congr 2
      omega
    | interrupt c stamp =>
      have hne : (FAct.interrupt c stamp == FAct.tick) = false := by
        simp
      simp only [List.cons_append, interruptsAt, List.count_cons, hne, Bool.false_eq_true,
        if_false, Nat.add_zero]
      rw [ih k]

/-- the positions are non-decreasing and start at `k0` -/
theorem interruptsAt_ge (sc : List FAct) (k0 : Nat) :
    ∀ e ∈ interruptsAt sc k0, k0 ≤ e.1 := by
  induction sc generalizing k0 with
  | nil => intro e he; cases he
  | cons a sc ih =>
    cases a with
    | tick =>
      intro e he
      have := ih (k0 + 1) e he
      omega
    | interrupt c stamp =>
      intro e he
      simp only [interruptsAt, List.mem_cons] at he
      rcases he with rfl | he
      · exact Nat.le_refl _
      · exact ih k0 e he

namespace RefineStim

open Tickit Refine Pacing TimeMono

/-! ### the stimulus branch on a flat configuration -/

/-- an interrupt of a child of the master is seen by the master as coming from that child; no
nested scheduler is involved -/
theorem raiseInterrupt_top (S : Static) (fuel : Nat) {c : Comp} (st : SimSt)
    (h : alookup S.parent c = some "") : raiseInterrupt S fuel c st = (st, c) := by
  cases fuel with
  | zero => rfl
  | succ fuel =>
    rw [raiseInterrupt, h]
    simp

/-- the wakeup written by the master for an interrupt is `intWake` -/
theorem intWake_eq_stimWhen (wake : Wakeups) (c : Comp) (stamp : SimTime) :
    intWake wake c stamp = addWakeup wake c (stimWhen wake c stamp) := rfl

/-- the simulation time stamped on the interrupt of stimulus `st` handled in master state `m` -/
def stampOf (sp : Speed) (m : MasterSt) (st : Stim) : SimTime :=
  interruptStamp m.tickerTime (if st.real < m.now then m.now else st.real) m.lastReal sp

theorem stampOf_eq (sp : Speed) (m : MasterSt) (st : Stim) (k : Nat) :
    stampOf sp m st = (⟨m, st, k⟩ : StimEv).stamp sp := rfl

theorem stimStep_clock (S : Static) (fuel : Nat) (sp : Speed) (m : MasterSt) (st : Stim) :
    (stimStep S fuel sp m st).tickerTime = m.tickerTime ∧
    (stimStep S fuel sp m st).lastReal = m.lastReal ∧
    (stimStep S fuel sp m st).now = (if st.real < m.now then m.now else st.real) :=
  ⟨rfl, rfl, rfl⟩

/-- the stamp is not before the time of the last tick -/
theorem stampOf_ge (sp : Speed) (m : MasterSt) (st : Stim) (h : m.lastReal ≤ m.now) :
    m.tickerTime ≤ stampOf sp m st := by
  unfold stampOf
  apply interruptStamp_ge
  split <;> omega

/-- **the stimulus branch preserves the simulation relation**: the master's `stimStep` is the flat
system's `intWake` -/
theorem R_stimStep {S : Static} (fuel : Nat) (sp : Speed) {m : MasterSt} {fl : FlatSt V}
    (hR : R m.sim fl) {st : Stim} (hpar : alookup S.parent st.comp = some "") :
    R (stimStep S fuel sp m st).sim
      { fl with wake := intWake fl.wake st.comp (stampOf sp m st) } := by
  unfold stimStep
  simp only [raiseInterrupt_top S fuel m.sim hpar]
  refine ⟨hR.comps, ?_, hR.obs⟩
  show intWake fl.wake st.comp (stampOf sp m st) = _
  rw [SimSt.sched_upsert, if_pos rfl, hR.wake]
  rfl

/-! ### `FlatRunI` and its device functions -/

/-- a `FlatRunI` with `n` ticks after the initial one only looks at the device functions
`0 … n` -/
theorem flatRunI_congr {w : Wiring} {devs devs' : DevSeq V} {t0 : SimTime} {sc : List FAct}
    {n : Nat} {st : FlatSt V} {times : List SimTime} (h : FlatRunI w devs t0 sc n st times)
    (heq : ∀ k, k ≤ n → devs' k = devs k) : FlatRunI w devs' t0 sc n st times := by
  induction h with
  | initial ht =>
    refine .initial ?_
    rw [heq 0 (Nat.le_refl _)]
    exact ht
  | @tick sc n st st' times cs m _ hfw ht ih =>
    refine .tick (ih (fun k hk => heq k (Nat.le_succ_of_le hk))) hfw ?_
    rw [heq (n + 1) (Nat.le_refl _)]
    exact ht
  | @interrupt sc n st times c stamp _ hc ih =>
    exact .interrupt (ih heq) hc

/-! ### the run -/

/-- what the run of the flat system has to do with the state of the master loop -/
structure Inv (L : Level) (t0 : SimTime) (m : MasterSt) (acc : List TickRec) (devs : DevSeq V)
    (sc : List FAct) (n : Nat) (fl : FlatSt V) (times : List SimTime) : Prop where
  run : FlatRunI L.wiring devs t0 sc n fl times
  ext : ∀ k, DevExt (devs k)
  rel : R m.sim fl
  len : acc.length = n + 1
  times_eq : times = (acc.map (·.time)).reverse
  /-- the ticker time is the time of the last tick -/
  last : times.head? = some m.tickerTime
  /-- real time has not run backwards since the last tick -/
  real : m.lastReal ≤ m.now
  timely : StampsTimely sc times

/-- the initial tick (cf. `Refine.masterInitial_flat`) -/
theorem masterInitial_flatI {S : Static} (hsys : S.systems = []) {L : Level}
    (hL : S.level "" = some L) {orc : Oracle} {fuel : Nat} {t0 : SimTime} {now : Int}
    {m : MasterSt} {tr : TickRec} (h : masterInitial S orc fuel t0 now = .ok (m, tr)) :
    ∃ fl, Inv L t0 m [tr] (fun _ => devOf orc {}) [] 0 fl [t0] := by
  obtain ⟨L', out, hL', ht⟩ := masterInitial_tick h
  rw [hL] at hL'; cases hL'
  obtain ⟨fl, hrun, hR⟩ := tickLevel_flat hsys hL R.empty ht
  obtain ⟨c1, c2, c3, c4, _⟩ := masterInitial_clock h
  exact ⟨fl, ⟨.initial hrun, fun _ => devOf_ext orc {}, hR, rfl, by simp [c4], by simp [c1],
    by omega, FlatInt.stampsTimely_nil _⟩⟩

/-- **the master loop with stimuli, on a flat configuration, in lockstep with `FlatRunI`**: every
`Pacing.Run` (= every successful `masterRun`) that starts in a master state related to a
`FlatRunI` extends that `FlatRunI` by a script `sc2` whose ticks are the run's new ticks and whose
interrupts are exactly the handled stimuli `log`, at the same points of the history, with the
stamps computed by the master. -/
theorem run_flatI {S : Static} (hsys : S.systems = []) {L : Level} (hL : S.level "" = some L)
    {orc : Oracle} {fuel : Nat} {sp : Speed} {t0 : SimTime} {m : MasterSt} {stims : List Stim}
    {acc : List TickRec} {m2 : MasterSt} {ticks : List TickRec} {log : List StimEv}
    (hrun : Run S orc fuel sp m stims acc m2 ticks log) :
    ∀ (devs : DevSeq V) (sc : List FAct) (n : Nat) (fl : FlatSt V) (times : List SimTime),
      Inv L t0 m acc devs sc n fl times →
      (∀ st ∈ stims, st.comp ∈ L.wiring.components ∧ alookup S.parent st.comp = some "") →
      ∃ (devs' : DevSeq V) (sc2 : List FAct) (fl' : FlatSt V) (times' : List SimTime),
        Inv L t0 m2 ticks devs' (sc ++ sc2) (ticks.length - 1) fl' times' ∧
        interruptsAt sc2 acc.length = log.map (fun ev => (ev.k, ev.st.comp, ev.stamp sp)) := by
  induction hrun with
  | stop m stims acc =>
    intro devs sc n fl times hinv _
    refine ⟨devs, [], fl, times, ?_, rfl⟩
    rw [List.append_nil, hinv.len]
    exact hinv
  | @stim m stims acc st rest m2 ticks log hsel _ ih =>
    intro devs sc n fl times hinv hst
    have hstims := stimSel_mem hsel
    subst hstims
    obtain ⟨hc, hpar⟩ := hst st (by simp)
    obtain ⟨_, _, hnow⟩ := stimStep_clock S fuel sp m st
    have hinv' : Inv L t0 (stimStep S fuel sp m st) acc devs
        (sc ++ [.interrupt st.comp (stampOf sp m st)]) n
        { fl with wake := intWake fl.wake st.comp (stampOf sp m st) } times := by
      refine ⟨.interrupt hinv.run hc, hinv.ext, R_stimStep fuel sp hinv.rel hpar, hinv.len,
        hinv.times_eq, hinv.last, ?_, ?_⟩
      · rw [hnow]
        show m.lastReal ≤ _
        have := hinv.real
        split <;> omega
      · rw [FlatInt.stampsTimely_snoc_interrupt]
        refine ⟨fun tl htl => ?_, hinv.timely⟩
        rw [hinv.last] at htl
        cases htl
        exact stampOf_ge sp m st hinv.real
    obtain ⟨devs', sc2, fl', times', hinv2, hlog⟩ := ih devs _ n _ times hinv'
      (fun s hs => hst s (List.mem_cons_of_mem _ hs))
    refine ⟨devs', .interrupt st.comp (stampOf sp m st) :: sc2, fl', times', ?_, ?_⟩
    · have : sc ++ FAct.interrupt st.comp (stampOf sp m st) :: sc2 =
          (sc ++ [.interrupt st.comp (stampOf sp m st)]) ++ sc2 := by simp
      rw [this]
      exact hinv2
    · simp only [interruptsAt, List.map_cons, hlog]
      rfl
  | @tick m stims acc comps w sim2 out m2 ticks log hsel hfw htick _ ih =>
    intro devs sc n fl times hinv hst
    obtain ⟨fl2, hrun2, hR2⟩ := tickLevel_flat hsys hL (hinv.rel.delWake comps) htick
    let devs' : DevSeq V := fun k => if k = n + 1 then devOf orc (m.sim.delWake comps) else devs k
    have hfw' : firstWakeups fl.wake = (comps, some w) := by rw [hinv.rel.wake]; exact hfw
    have hrun' : FlatRunI L.wiring devs' t0 (sc ++ [.tick]) (n + 1) fl2 (w :: times) := by
      refine .tick (flatRunI_congr hinv.run (fun k hk => ?_)) hfw' ?_
      · simp only [devs']
        rw [if_neg (by omega)]
      · simp only [devs', if_true]
        exact hrun2
    have hext' : ∀ k, DevExt (devs' k) := by
      intro k
      simp only [devs']
      split
      · exact devOf_ext _ _
      · exact hinv.ext k
    have hinv' : Inv L t0
        { sim := sim2, tickerTime := w, lastReal := dueReal m sp w, now := dueReal m sp w }
        (acc ++ [⟨w, dueReal m sp w, comps⟩]) devs' (sc ++ [.tick]) (n + 1) fl2 (w :: times) := by
      refine ⟨hrun', hext', hR2, by simp [hinv.len], by simp [hinv.times_eq], rfl,
        Int.le_refl _, ?_⟩
      rw [FlatInt.stampsTimely_snoc_tick]
      exact hinv.timely
    obtain ⟨devs2, sc2, fl', times', hinv2, hlog⟩ := ih devs' _ (n + 1) fl2 (w :: times) hinv' hst
    refine ⟨devs2, .tick :: sc2, fl', times', ?_, ?_⟩
    · have : sc ++ FAct.tick :: sc2 = (sc ++ [.tick]) ++ sc2 := by simp
      rw [this]
      exact hinv2
    · simp only [interruptsAt]
      rw [← hlog]
      simp

/-! ### the log of handled stimuli is determined by the tick records

Two runs of the master loop — of ANY two configurations — with the same budgets, the same clock at
the start, the same stimuli and the same `(time, real)` tick records handle the same stimuli at
the same points with the same stamps: whether the next stimulus is handled before the next tick is
visible in the real time of that tick. -/

/-- what a script records of a handled stimulus: position, component, stamp -/
def evKey (sp : Speed) (ev : StimEv) : Nat × Comp × SimTime := (ev.k, ev.st.comp, ev.stamp sp)

theorem ceilDiv_nonneg' (N : Int) (n : Nat) (hN : 0 ≤ N) : 0 ≤ ceilDiv N n := by
  unfold ceilDiv
  have : (-N) / (n : Int) ≤ 0 := by
    rcases Nat.eq_zero_or_pos n with h | h
    · subst h; simp
    · rcases Int.lt_or_eq_of_le hN with h' | h'
      · exact Int.le_of_lt (Int.ediv_neg_of_neg_of_pos (by omega) (by omega))
      · rw [← h']; simp
  omega

/-- a tick is never started before the present real time -/
theorem dueReal_ge_now (m : MasterSt) (sp : Speed) (w : SimTime) : m.now ≤ dueReal m sp w := by
  rw [dueReal_eq]
  split
  · exact Int.le_refl _
  · have := ceilDiv_nonneg' (sleepNumer w m.tickerTime m.now m.lastReal sp) sp.num (by omega)
    omega

/-- the next tick record, if there is one, is not started before the present real time -/
theorem Run.next_real_ge {S : Static} {orc : Oracle} {fuel : Nat} {sp : Speed} {m : MasterSt}
    {stims : List Stim} {acc : List TickRec} {m2 : MasterSt} {ticks : List TickRec}
    {log : List StimEv} (h : Run S orc fuel sp m stims acc m2 ticks log) :
    ∀ x, ticks[acc.length]? = some x → m.now ≤ x.real := by
  induction h with
  | stop m stims acc =>
    intro x hx
    have := (List.getElem?_eq_some_iff.1 hx).1
    omega
  | @stim m stims acc st rest m2 ticks log hsel _ ih =>
    intro x hx
    have h1 := ih x hx
    have h2 : (stimStep S fuel sp m st).now = (if st.real < m.now then m.now else st.real) := rfl
    rw [h2] at h1
    split at h1 <;> omega
  | @tick m stims acc comps w sim2 out m2 ticks log hsel hfw htick hrun ih =>
    intro x hx
    obtain ⟨t, ht⟩ := hrun.prefix
    rw [ht, List.append_assoc, List.getElem?_append_right (Nat.le_refl _), Nat.sub_self] at hx
    simp only [List.singleton_append, List.getElem?_cons_zero, Option.some.injEq] at hx
    subst hx
    exact dueReal_ge_now m sp w

/-- the tick branch of `masterRun`: what it yields -/
theorem masterRun_tick_branch {S : Static} {orc : Oracle} {fuel : Nat} {sp : Speed}
    {steps nTicks : Nat} {m : MasterSt} {stims : List Stim} {acc : List TickRec}
    {m2 : MasterSt} {ticks : List TickRec}
    (hsel : stimSel m sp (firstWakeups (m.sim.sched "").wake).2 stims = none)
    (h : masterRun S orc fuel sp (steps + 1) (nTicks + 1) m stims acc = .ok (m2, ticks)) :
    (∃ comps w sim2 out, firstWakeups (m.sim.sched "").wake = (comps, some w) ∧
      tickLevel S orc fuel "" w comps [] (delMaster m.sim comps) = .ok (sim2, out) ∧
      masterRun S orc fuel sp steps nTicks
        { sim := sim2, tickerTime := w, lastReal := dueReal m sp w, now := dueReal m sp w } stims
        (acc ++ [⟨w, dueReal m sp w, comps⟩]) = .ok (m2, ticks)) ∨
    ((firstWakeups (m.sim.sched "").wake).2 = none ∧ m2 = m ∧ ticks = acc) := by
  rw [masterRun_unfold, hsel] at h
  simp only [] at h
  split at h
  · rename_i comps w hfw
    split at h
    · cases h
    · rename_i sim2 out htick
      exact Or.inl ⟨comps, w, sim2, out, hfw, htick, h⟩
  · rename_i hnone
    simp only [Except.ok.injEq, Prod.mk.injEq] at h
    refine Or.inr ⟨?_, h.1.symm, h.2.symm⟩
    rw [hnone]

/-- the tick records of a continued run extend the given ones -/
theorem masterRun_prefix {S : Static} {orc : Oracle} {fuel : Nat} {sp : Speed}
    {steps nTicks : Nat} {m : MasterSt} {stims : List Stim} {acc : List TickRec}
    {m2 : MasterSt} {ticks : List TickRec}
    (h : masterRun S orc fuel sp steps nTicks m stims acc = .ok (m2, ticks)) :
    ∃ tail, ticks = acc ++ tail :=
  (masterRun_runLog S orc fuel sp steps nTicks m stims acc m2 ticks h).prefix

/-- one run handles a stimulus where the other one (same clock, same stimuli) starts a tick: the
real times of their next tick records differ -/
theorem stim_vs_tick {S S' : Static} {orc orc' : Oracle} {fuel fuel' : Nat} {sp : Speed}
    {steps nTicks : Nat} {m m' : MasterSt} {st : Stim} {rest : List Stim}
    {acc acc' : List TickRec} {m2 m2' : MasterSt} {ticks ticks' : List TickRec}
    (hA : masterRun S orc fuel sp steps (nTicks + 1) (stimStep S fuel sp m st) rest acc =
      .ok (m2, ticks))
    (hselB : stimSel m' sp (firstWakeups (m'.sim.sched "").wake).2 (st :: rest) = none)
    (hB : masterRun S' orc' fuel' sp (steps + 1) (nTicks + 1) m' (st :: rest) acc' =
      .ok (m2', ticks'))
    (hnow : m.now = m'.now) (hlen : acc.length = acc'.length)
    (hreal : ticks.map (·.real) = ticks'.map (·.real)) : False := by
  -- B: the tick is due strictly before the stimulus
  have hB' := masterRun_tick_branch hselB hB
  cases hw : (firstWakeups (m'.sim.sched "").wake).2 with
  | none =>
    rw [hw] at hselB
    simp [stimSel] at hselB
  | some w' =>
    rw [hw] at hselB
    simp only [stimSel, Option.map_some] at hselB
    split at hselB
    · cases hselB
    · rename_i hlt
      rcases hB' with ⟨comps, w, sim2, out, hfw, _, hrunB⟩ | ⟨hnone, _, _⟩
      · rw [hfw] at hw
        simp only [Option.some.injEq] at hw
        subst hw
        obtain ⟨tail, htail⟩ := masterRun_prefix hrunB
        have hx' : (ticks'.map (·.real))[acc'.length]? = some (dueReal m' sp w) := by
          rw [htail, List.append_assoc, List.map_append,
            List.getElem?_append_right (by simp)]
          simp
        rw [← hreal, ← hlen, List.getElem?_map] at hx'
        cases hx : ticks[acc.length]? with
        | none => rw [hx] at hx'; cases hx'
        | some x =>
          rw [hx] at hx'
          simp only [Option.map_some, Option.some.injEq] at hx'
          have hge := Run.next_real_ge (masterRun_runLog _ _ _ _ _ _ _ _ _ _ _ hA) x hx
          have h2 : (stimStep S fuel sp m st).now = (if st.real < m.now then m.now else st.real) :=
            rfl
          rw [h2] at hge
          split at hge <;> omega
      · rw [hnone] at hw; cases hw

/-- **the handled stimuli are determined by the tick records.** -/
theorem runLog_agree {S S' : Static} {orc orc' : Oracle} {fuel fuel' : Nat} (sp : Speed) :
    ∀ (steps nTicks : Nat) (m m' : MasterSt) (stims : List Stim) (acc acc' : List TickRec)
      (m2 m2' : MasterSt) (ticks ticks' : List TickRec),
      m.SameClock m' → acc.length = acc'.length →
      masterRun S orc fuel sp steps nTicks m stims acc = .ok (m2, ticks) →
      masterRun S' orc' fuel' sp steps nTicks m' stims acc' = .ok (m2', ticks') →
      ticks.map (·.time) = ticks'.map (·.time) → ticks.map (·.real) = ticks'.map (·.real) →
      (runLog S orc fuel sp steps nTicks m stims acc.length).map (evKey sp) =
        (runLog S' orc' fuel' sp steps nTicks m' stims acc'.length).map (evKey sp) := by
  intro steps
  induction steps with
  | zero => intros; rfl
  | succ steps ih =>
    intro nTicks m m' stims acc acc' m2 m2' ticks ticks' hclk hlen hA hB htime hreal
    cases nTicks with
    | zero => rw [runLog, runLog]
    | succ nTicks =>
      rw [runLog, runLog]
      cases hselA : stimSel m sp (firstWakeups (m.sim.sched "").wake).2 stims with
      | some pA =>
        obtain ⟨st, rest⟩ := pA
        have hstims := stimSel_mem hselA
        subst hstims
        have hA' := hA
        rw [masterRun_unfold, hselA] at hA'
        simp only [] at hA'
        cases hselB : stimSel m' sp (firstWakeups (m'.sim.sched "").wake).2 (st :: rest) with
        | some pB =>
          obtain ⟨st', rest'⟩ := pB
          have hstims := stimSel_mem hselB
          simp only [List.cons.injEq] at hstims
          obtain ⟨rfl, rfl⟩ := hstims
          have hB' := hB
          rw [masterRun_unfold, hselB] at hB'
          simp only [] at hB'
          obtain ⟨c1, c2, c3⟩ := hclk
          have hclk' : (stimStep S fuel sp m st).SameClock (stimStep S' fuel' sp m' st) := by
            refine ⟨c1, c2, ?_⟩
            show (if st.real < m.now then m.now else st.real) =
              (if st.real < m'.now then m'.now else st.real)
            rw [c3]
          simp only [List.map_cons]
          rw [ih (nTicks + 1) _ _ rest acc acc' m2 m2' ticks ticks' hclk' hlen hA' hB' htime hreal]
          congr 1
          simp only [evKey, StimEv.stamp, StimEv.now, c1, c2, c3, hlen]
        | none =>
          exact (stim_vs_tick hA' hselB hB hclk.2.2 hlen hreal).elim
      | none =>
        cases hselB : stimSel m' sp (firstWakeups (m'.sim.sched "").wake).2 stims with
        | some pB =>
          obtain ⟨st, rest⟩ := pB
          have hstims := stimSel_mem hselB
          subst hstims
          have hB' := hB
          rw [masterRun_unfold, hselB] at hB'
          simp only [] at hB'
          exact (stim_vs_tick hB' hselA hA hclk.2.2.symm hlen.symm hreal.symm).elim
        | none =>
          simp only []
          rcases masterRun_tick_branch hselA hA with ⟨comps, w, sim2, out, hfw, htick, hrunA⟩ |
            ⟨hnone, _, hta⟩
          · rw [hfw]
            simp only [htick]
            obtain ⟨tailA, htailA⟩ := masterRun_prefix hrunA
            rcases masterRun_tick_branch hselB hB with
              ⟨comps', w', sim2', out', hfw', htick', hrunB⟩ | ⟨hnone', _, htb⟩
            · rw [hfw']
              simp only [htick']
              obtain ⟨tailB, htailB⟩ := masterRun_prefix hrunB
              have hw : w = w' := by
                have h1 : (ticks.map (·.time))[acc.length]? = some w := by
                  rw [htailA, List.append_assoc, List.map_append,
                    List.getElem?_append_right (by simp)]
                  simp
                have h2 : (ticks'.map (·.time))[acc'.length]? = some w' := by
                  rw [htailB, List.append_assoc, List.map_append,
                    List.getElem?_append_right (by simp)]
                  simp
                rw [htime, hlen, h2] at h1
                simpa using h1.symm
              subst hw
              have hd := dueReal_congr hclk sp w
              have := ih nTicks
                { sim := sim2, tickerTime := w, lastReal := dueReal m sp w, now := dueReal m sp w }
                { sim := sim2', tickerTime := w, lastReal := dueReal m' sp w,
                  now := dueReal m' sp w } stims
                (acc ++ [⟨w, dueReal m sp w, comps⟩]) (acc' ++ [⟨w, dueReal m' sp w, comps'⟩])
                m2 m2' ticks ticks' ⟨rfl, hd, hd⟩
                (by simp [hlen]) hrunA hrunB htime hreal
              simpa using this
            · exfalso
              have h1 := congrArg List.length hreal
              rw [htailA, htb] at h1
              simp at h1
              omega
          · rcases masterRun_tick_branch hselB hB with
              ⟨comps', w', sim2', out', hfw', htick', hrunB⟩ | ⟨hnone', _, htb⟩
            · exfalso
              obtain ⟨tailB, htailB⟩ := masterRun_prefix hrunB
              have h1 := congrArg List.length hreal
              rw [htailB, hta] at h1
              simp at h1
              omega
            · cases hfw : firstWakeups (m.sim.sched "").wake with
              | mk a b =>
                rw [hfw] at hnone
                simp only [] at hnone
                subst hnone
                cases hfw' : firstWakeups (m'.sim.sched "").wake with
                | mk a' b' =>
                  rw [hfw'] at hnone'
                  simp only [] at hnone'
                  subst hnone'
                  rfl

end RefineStim
end Tickit
