/-
Any-order nested tick (`Core/SimAny.lean`), part 1: the relation unfolded one level at a time.

`LoopP inner` / `AnsP inner` are the loop and the answer of ONE scheduler level, with the ticks of
the system components inside it given by an arbitrary relation `inner`.  `TickLevelAny` is the
least relation closed under "a level whose inner ticks are `TickLevelAny` executions"; this gives
an induction principle (`TickLevelAny.strong_induct`) in which the induction hypothesis is
attached to every inner tick of a level execution.  Also: the FIFO model is one of the executions.
-/
import TickitModel.Core.SimAny
import TickitModel.Lemmas.SimLoop

namespace Tickit

/-- the type of "one tick of a level" relations -/
abbrev LevelRel := Comp → SimTime → List Comp → List (Port × V) → SimSt → SimSt × List (Port × V) → Prop

/-- what answering `d` does to the level's exposed output changes: `expose` stores its input -/
def exposeIns (L : Level) : Dispatch V → Option (List (Port × V))
  | .skip _ _ => none
  | .input c _ ins =>
    if (L.name != "" && c == pseudoExternal) then none
    else if (L.name != "" && c == pseudoExpose) then some ins else none

/-- the answer of the addressed component to one dispatch: new state, `Output.changes`, `call_at`;
the inner tick of a system component is any `inner` execution -/
inductive AnsP (S : Static) (orc : Oracle) (inner : LevelRel) (L : Level) (inCh : List (Port × V))
    (st : SimSt) : Dispatch V → SimSt × List (Port × V) × Option SimTime → Prop
  | skip {c : Comp} {t : SimTime} : AnsP S orc inner L inCh st (.skip c t) (st, [], none)
  | external {c : Comp} {t : SimTime} {ins : List (Port × V)} :
      (L.name != "" && c == pseudoExternal) = true →
      AnsP S orc inner L inCh st (.input c t ins) (st, inCh, none)
  | expose {c : Comp} {t : SimTime} {ins : List (Port × V)} :
      (L.name != "" && c == pseudoExternal) = false →
      (L.name != "" && c == pseudoExpose) = true →
      AnsP S orc inner L inCh st (.input c t ins) (st, [], none)
  | sys {c : Comp} {t : SimTime} {ins : List (Port × V)} {st2 : SimSt} {outCh : List (Port × V)} :
      (L.name != "" && c == pseudoExternal) = false →
      (L.name != "" && c == pseudoExpose) = false →
      S.isSys c = true →
      inner c t (sysRoots S st c t) ins (sysPre st c t) (st2, outCh) →
      AnsP S orc inner L inCh st (.input c t ins) (st2, outCh, sysCallAt st2 c t)
  | dev {c : Comp} {t : SimTime} {ins : List (Port × V)} {resp : DevResp} :
      (L.name != "" && c == pseudoExternal) = false →
      (L.name != "" && c == pseudoExpose) = false →
      S.isSys c = false →
      (agetD orc c [])[agetD st.count c 0]? = some resp →
      resp.raises = false →
      AnsP S orc inner L inCh st (.input c t ins)
        ((devAfter st c t ins resp).1, (devAfter st c t ins resp).2, resp.callAt)

/-- the loop of one level: any pending dispatch is answered next -/
inductive LoopP (S : Static) (orc : Oracle) (inner : LevelRel) (L : Level) (inCh : List (Port × V)) :
    LoopSt → SimSt × List (Port × V) → Prop
  | done {ls : LoopSt} : ls.pending = [] → ls.tk.toUpdate.isEmpty = true →
      LoopP S orc inner L inCh ls (ls.st, ls.outCh)
  | step {ls : LoopSt} {i : Nat} {d : Dispatch V} {st' : SimSt} {changes : List (Port × V)}
      {callAt : Option SimTime} {tk' : Ticker V} {ds : List (Dispatch V)}
      {r : SimSt × List (Port × V)} :
      ls.pending[i]? = some d →
      AnsP S orc inner L inCh ls.st d (st', changes, callAt) →
      ls.tk.propagate L.wiring d.comp d.time changes = .ok (tk', ds) →
      LoopP S orc inner L inCh
        ⟨tk', ls.pending.eraseIdx i ++ ds, (exposeIns L d).getD ls.outCh,
          anyWake st' L.name d.comp callAt⟩ r →
      LoopP S orc inner L inCh ls r

/-- one tick of a level whose inner ticks are `inner` executions -/
def LevelP (S : Static) (orc : Oracle) (inner : LevelRel) : LevelRel :=
  fun lvl t roots inCh st r =>
    ∃ L tk ds, S.level lvl = some L ∧
      (Ticker.call L.wiring t roots : Except TickErr (Ticker V × List (Dispatch V))) = .ok (tk, ds) ∧
      LoopP S orc inner L inCh ⟨tk, ds, [], st⟩ r

theorem AnsP.mono {S : Static} {orc : Oracle} {inner inner' : LevelRel}
    (h : ∀ c t ro i s r, inner c t ro i s r → inner' c t ro i s r) {L : Level}
    {inCh : List (Port × V)} {st : SimSt} {d : Dispatch V}
    {res : SimSt × List (Port × V) × Option SimTime} (a : AnsP S orc inner L inCh st d res) :
    AnsP S orc inner' L inCh st d res := by
  cases a with
  | skip => exact .skip
  | external h1 => exact .external h1
  | expose h1 h2 => exact .expose h1 h2
  | sys h1 h2 h3 h4 => exact .sys h1 h2 h3 (h _ _ _ _ _ _ h4)
  | dev h1 h2 h3 h4 h5 => exact .dev h1 h2 h3 h4 h5

theorem LoopP.mono {S : Static} {orc : Oracle} {inner inner' : LevelRel}
    (h : ∀ c t ro i s r, inner c t ro i s r → inner' c t ro i s r) {L : Level}
    {inCh : List (Port × V)} {ls : LoopSt} {r : SimSt × List (Port × V)}
    (a : LoopP S orc inner L inCh ls r) : LoopP S orc inner' L inCh ls r := by
  induction a with
  | done h1 h2 => exact .done h1 h2
  | step h1 h2 h3 _ ih => exact .step h1 (h2.mono h) h3 ih

/-- the effect of an answer on the exposed output changes, in `AnswerAny` -/
theorem answerAny_iff {S : Static} {orc : Oracle} {L : Level} {inCh : List (Port × V)} {st : SimSt}
    {o : List (Port × V)} {d : Dispatch V} {st' : SimSt} {o' ch : List (Port × V)}
    {ca : Option SimTime} :
    AnswerAny S orc L inCh st o d (st', o', ch, ca) ↔
      AnsP S orc (TickLevelAny S orc) L inCh st d (st', ch, ca) ∧ o' = (exposeIns L d).getD o := by
  constructor
  · intro a
    cases a with
    | skip => exact ⟨.skip, rfl⟩
    | external h1 => exact ⟨.external h1, by simp [exposeIns, h1]⟩
    | expose h1 h2 => exact ⟨.expose h1 h2, by simp [exposeIns, h1, h2]⟩
    | sys h1 h2 h3 h4 => exact ⟨.sys h1 h2 h3 h4, by simp [exposeIns, h1, h2]⟩
    | dev h1 h2 h3 h4 h5 => exact ⟨.dev h1 h2 h3 h4 h5, by simp [exposeIns, h1, h2]⟩
  · rintro ⟨a, rfl⟩
    cases a with
    | skip => exact .skip
    | external h1 => simpa [exposeIns, h1] using AnswerAny.external (outCh0 := o) h1
    | expose h1 h2 => simpa [exposeIns, h1, h2] using AnswerAny.expose (outCh0 := o) h1 h2
    | sys h1 h2 h3 h4 => simpa [exposeIns, h1, h2] using AnswerAny.sys (outCh0 := o) h1 h2 h3 h4
    | dev h1 h2 h3 h4 h5 =>
      simpa [exposeIns, h1, h2] using AnswerAny.dev (outCh0 := o) h1 h2 h3 h4 h5

/-- **induction over any-order executions**: to prove `Q` of every `TickLevelAny` execution it is
enough to prove it of a level execution in which every inner tick is a `TickLevelAny` execution
that satisfies `Q`. -/
theorem TickLevelAny.strong_induct {S : Static} {orc : Oracle} (Q : LevelRel)
    (hstep : ∀ lvl t roots inCh st r,
      LevelP S orc (fun c t ro i s r => TickLevelAny S orc c t ro i s r ∧ Q c t ro i s r)
        lvl t roots inCh st r → Q lvl t roots inCh st r)
    {lvl : Comp} {t : SimTime} {roots : List Comp} {inCh : List (Port × V)} {st : SimSt}
    {r : SimSt × List (Port × V)} (h : TickLevelAny S orc lvl t roots inCh st r) :
    Q lvl t roots inCh st r := by
  refine TickLevelAny.rec
    (motive_1 := fun lvl t roots inCh st r _ => Q lvl t roots inCh st r)
    (motive_2 := fun L inCh ls r _ =>
      LoopP S orc (fun c t ro i s r => TickLevelAny S orc c t ro i s r ∧ Q c t ro i s r) L inCh ls r)
    (motive_3 := fun L inCh st o d res _ =>
      AnsP S orc (fun c t ro i s r => TickLevelAny S orc c t ro i s r ∧ Q c t ro i s r) L inCh st d
        (res.1, res.2.2.1, res.2.2.2) ∧ res.2.1 = (exposeIns L d).getD o)
    ?_ ?_ ?_ ?_ ?_ ?_ ?_ ?_ h
  · intro lvl t roots inCh st L tk ds r hL hcall _ ih
    exact hstep _ _ _ _ _ _ ⟨L, tk, ds, hL, hcall, ih⟩
  · intro L inCh ls h1 h2
    exact .done h1 h2
  · intro L inCh ls i d st' outCh' changes callAt tk' ds r h1 _ h3 _ ih1 ih2
    obtain ⟨ia, io⟩ := ih1
    simp only at ia io
    subst io
    exact .step h1 ia h3 ih2
  · intro L inCh st o c t
    exact ⟨.skip, rfl⟩
  · intro L inCh st o c t ins h1
    exact ⟨.external h1, by simp [exposeIns, h1]⟩
  · intro L inCh st o c t ins h1 h2
    exact ⟨.expose h1 h2, by simp [exposeIns, h1, h2]⟩
  · intro L inCh st o c t ins st2 outCh h1 h2 h3 h4 ih
    exact ⟨.sys h1 h2 h3 ⟨h4, ih⟩, by simp [exposeIns, h1, h2]⟩
  · intro L inCh st o c t ins resp h1 h2 h3 h4 h5
    exact ⟨.dev h1 h2 h3 h4 h5, by simp [exposeIns, h1, h2]⟩

/-- a `TickLevelAny` execution is a level execution whose inner ticks are `TickLevelAny` executions -/
theorem TickLevelAny.unfold {S : Static} {orc : Oracle} {lvl : Comp} {t : SimTime} {roots : List Comp}
    {inCh : List (Port × V)} {st : SimSt} {r : SimSt × List (Port × V)}
    (h : TickLevelAny S orc lvl t roots inCh st r) :
    LevelP S orc (TickLevelAny S orc) lvl t roots inCh st r := by
  refine TickLevelAny.strong_induct (Q := LevelP S orc (TickLevelAny S orc)) ?_ h
  rintro lvl t roots inCh st r ⟨L, tk, ds, hL, hcall, hl⟩
  exact ⟨L, tk, ds, hL, hcall, hl.mono (fun _ _ _ _ _ _ h => h.1)⟩

theorem LoopP.toAny {S : Static} {orc : Oracle} {L : Level} {inCh : List (Port × V)} {ls : LoopSt}
    {r : SimSt × List (Port × V)} (a : LoopP S orc (TickLevelAny S orc) L inCh ls r) :
    TickLoopAny S orc L inCh ls r := by
  induction a with
  | done h1 h2 => exact .done h1 h2
  | step h1 h2 h3 _ ih => exact .step h1 (answerAny_iff.2 ⟨h2, rfl⟩) h3 ih

/-- `TickLevelAny` is exactly: a level execution whose inner ticks are `TickLevelAny` executions -/
theorem tickLevelAny_iff {S : Static} {orc : Oracle} {lvl : Comp} {t : SimTime} {roots : List Comp}
    {inCh : List (Port × V)} {st : SimSt} {r : SimSt × List (Port × V)} :
    TickLevelAny S orc lvl t roots inCh st r ↔
      LevelP S orc (TickLevelAny S orc) lvl t roots inCh st r :=
  ⟨TickLevelAny.unfold, fun ⟨_, _, _, hL, hcall, hl⟩ => .mk hL hcall hl.toAny⟩

/-! ### the FIFO model is one of the executions -/

theorem anyWake_eq_simWake (st : SimSt) (lvl c : Comp) (ca : Option SimTime) :
    anyWake st lvl c ca = simWake st lvl c ca := rfl

/-- the answer of the FIFO model is an `AnsP` answer -/
theorem simAnswer_ansP {S : Static} {orc : Oracle} {fuel : Nat} {inner : LevelRel}
    (IH : ∀ lvl t roots inCh st r, tickLevel S orc fuel lvl t roots inCh st = .ok r →
      inner lvl t roots inCh st r)
    {L : Level} {inCh : List (Port × V)} {st : SimSt} {o : List (Port × V)} {d : Dispatch V}
    {st' : SimSt} {o' ch : List (Port × V)} {ca : Option SimTime}
    (h : simAnswer S orc fuel L inCh st o d = .ok (st', o', ch, ca)) :
    AnsP S orc inner L inCh st d (st', ch, ca) ∧ o' = (exposeIns L d).getD o := by
  cases d with
  | skip c t =>
    simp only [simAnswer, Except.ok.injEq, Prod.mk.injEq] at h
    obtain ⟨rfl, rfl, rfl, rfl⟩ := h
    exact ⟨.skip, rfl⟩
  | input c t ins =>
    simp only [simAnswer] at h
    split at h
    · rename_i h1
      simp only [Except.ok.injEq, Prod.mk.injEq] at h
      obtain ⟨rfl, rfl, rfl, rfl⟩ := h
      exact ⟨.external h1, by simp [exposeIns, h1]⟩
    · rename_i h1
      have h1' : (L.name != "" && c == pseudoExternal) = false := by simpa using h1
      split at h
      · rename_i h2
        simp only [Except.ok.injEq, Prod.mk.injEq] at h
        obtain ⟨rfl, rfl, rfl, rfl⟩ := h
        exact ⟨.expose h1' h2, by simp [exposeIns, h1', h2]⟩
      · rename_i h2
        have h2' : (L.name != "" && c == pseudoExpose) = false := by simpa using h2
        split at h
        · rename_i h3
          split at h
          · cases h
          · rename_i st2 outCh hr
            simp only [Except.ok.injEq, Prod.mk.injEq] at h
            obtain ⟨rfl, rfl, rfl, rfl⟩ := h
            exact ⟨.sys h1' h2' h3 (IH _ _ _ _ _ _ hr), by simp [exposeIns, h1', h2']⟩
        · rename_i h3
          have h3' : S.isSys c = false := by simpa using h3
          split at h
          · cases h
          · rename_i resp hresp
            split at h
            · cases h
            · rename_i hraise
              have hraise' : resp.raises = false := by simpa using hraise
              simp only [Except.ok.injEq, Prod.mk.injEq] at h
              obtain ⟨rfl, rfl, rfl, rfl⟩ := h
              exact ⟨.dev h1' h2' h3' hresp hraise', by simp [exposeIns, h1', h2']⟩

theorem tickLoop_loopP {S : Static} {orc : Oracle} {fuel : Nat} {inner : LevelRel}
    (IH : ∀ lvl t roots inCh st r, tickLevel S orc fuel lvl t roots inCh st = .ok r →
      inner lvl t roots inCh st r)
    {L : Level} {inCh : List (Port × V)} :
    ∀ (steps : Nat) (ls : LoopSt) (r : SimSt × List (Port × V)),
      tickLoop S orc fuel steps L inCh ls = .ok r → LoopP S orc inner L inCh ls r := by
  intro steps
  induction steps with
  | zero =>
    intro ls r h
    rw [tickLoop_zero] at h; cases h
  | succ steps ih =>
    intro ls r h
    cases hp : ls.pending with
    | nil =>
      rw [tickLoop_nil _ _ _ _ _ _ _ hp] at h
      split at h
      · rename_i he
        cases h
        exact .done hp he
      · cases h
    | cons d rest =>
      rw [tickLoop_cons _ _ _ _ _ _ _ _ _ hp] at h
      split at h
      · cases h
      · rename_i st1 outCh1 changes callAt ha
        split at h
        · cases h
        · rename_i tk' ds hprop
          obtain ⟨ia, io⟩ := simAnswer_ansP IH ha
          subst io
          have h0 : ls.pending[0]? = some d := by rw [hp]; rfl
          refine .step h0 ia hprop ?_
          have he : ls.pending.eraseIdx 0 = rest := by rw [hp]; rfl
          rw [he]
          exact ih _ _ h

/-- **the FIFO model is one of the any-order executions** -/
theorem tickLevel_any {S : Static} {orc : Oracle} :
    ∀ (fuel : Nat) (lvl : Comp) (t : SimTime) (roots : List Comp) (inCh : List (Port × V))
      (st : SimSt) (r : SimSt × List (Port × V)),
      tickLevel S orc fuel lvl t roots inCh st = .ok r → TickLevelAny S orc lvl t roots inCh st r := by
  intro fuel
  induction fuel with
  | zero =>
    intro lvl t roots inCh st r h
    rw [tickLevel] at h; cases h
  | succ fuel IH =>
    intro lvl t roots inCh st r h
    rw [tickLevel.eq_2] at h
    split at h
    · cases h
    · rename_i L hLv
      split at h
      · cases h
      · rename_i tk ds hcall
        exact .mk hLv hcall (tickLoop_loopP IH _ _ _ h).toAny

end Tickit
