/-
The seeded variant of the stop protocol (`stopOnce = true`, `Core/StopProtocol.lean`): the state
reached by `stopOnceHistory`, and the fact that a run loop waiting for a wakeup with the flag
clear is moved by nothing but a new wakeup (in both variants: `_do_tick` does not look at
`error` while it waits).
-/
import TickitModel.Lemmas.StopProtocolLive

namespace Tickit

/-- the state after `stopOnceHistory` in the variant: everything the fail-stop property asks
for has happened (`error` set, every handler returned, every component stopped) - except that
the run loop is waiting for a wakeup. -/
def stopOnceBad : StopSt :=
  { pc := .waiting, error := true, finished := true, stopping := true, hasWakeups := false,
    newWakeup := false, toUpdate := ["a", "b"], failed := ["a", "b"],
    reports := [⟨"a", .done⟩, ⟨"b", .done⟩], inbox := [], stopSent := ["a", "b", "w"],
    stopped := ["w", "b", "a"] }

theorem stopOnce_exec_bad :
    (StopSt.init (stopOnceCfg true)).exec (stopOnceCfg true) stopOnceHistory = some stopOnceBad := by
  decide

theorem stopOnceBad_dead (a : StopAct) (h : a ≠ .wakeup) :
    stopOnceBad.step (stopOnceCfg true) a = none := by
  cases a with
  | wakeup => exact absurd rfl h
  | sleepExpires cs left => simp [StopSt.step, stopOnceBad]
  | loop => simp [StopSt.step, StopSt.loopStep, stopOnceBad]
  | answer c => simp [StopSt.step, stopOnceBad]; grind
  | fail c => simp [StopSt.step, stopOnceBad]; grind
  | handler i =>
    match i with
    | 0 => rfl
    | 1 => rfl
    | n + 2 => simp [StopSt.step, StopSt.handlerStep, stopOnceBad]
  | produceStop i c =>
    match i with
    | 0 => rfl
    | 1 => rfl
    | n + 2 => simp [StopSt.step, StopSt.produceStep, stopOnceBad]
  | deliverStop c => simp [StopSt.step, stopOnceBad]

/-- the run loop is suspended in `await self.new_wakeup.wait()` and the flag is clear. -/
def StopSt.parked (s : StopSt) : Prop := s.pc = .waiting ∧ s.newWakeup = false

/-- only `add_wakeup` un-parks the run loop - whatever `error` and `finished` are, in both
variants of the code. -/
theorem StopSt.parked_step {cfg : StopCfg} {s s' : StopSt} (a : StopAct) (ha : a ≠ .wakeup)
    (hs : s.step cfg a = some s') (h : s.parked) : s'.parked := by
  obtain ⟨hp, hw⟩ := h
  cases a with
  | wakeup => exact absurd rfl ha
  | sleepExpires cs left =>
    simp only [StopSt.step, hp] at hs
    simp at hs
  | loop => simp [StopSt.step, StopSt.loopStep, hp, hw] at hs
  | answer c =>
    simp only [StopSt.step] at hs
    split at hs <;> cases hs
    exact ⟨hp, hw⟩
  | fail c =>
    simp only [StopSt.step] at hs
    split at hs <;> cases hs
    exact ⟨hp, hw⟩
  | handler i =>
    simp only [StopSt.step, StopSt.handlerStep] at hs
    repeat' split at hs
    all_goals first | cases hs; exact ⟨hp, hw⟩ | cases hs
  | produceStop i c =>
    simp only [StopSt.step, StopSt.produceStep] at hs
    repeat' split at hs
    all_goals first | cases hs; exact ⟨hp, hw⟩ | cases hs
  | deliverStop c =>
    simp only [StopSt.step] at hs
    split at hs <;> cases hs
    exact ⟨hp, hw⟩

theorem StopSt.parked_exec {cfg : StopCfg} :
    ∀ (as : List StopAct) {s s' : StopSt}, StopAct.wakeup ∉ as → s.exec cfg as = some s' →
      s.parked → s'.parked
  | [], s, s', _, hs, h => by
    simp only [StopSt.exec, Option.some.injEq] at hs
    subst hs; exact h
  | a :: as, s, s', hw, hs, h => by
    simp only [StopSt.exec] at hs
    split at hs
    · rename_i s1 h1
      have ha : a ≠ .wakeup := fun e => hw (e ▸ List.mem_cons_self ..)
      exact StopSt.parked_exec as (fun hm => hw (List.mem_cons_of_mem _ hm)) hs
        (StopSt.parked_step a ha h1 h)
    · cases hs

theorem StopSt.parked_sched {cfg : StopCfg} {s : StopSt} (σ : Nat → StopAct)
    (hσ : ∀ n, σ n ≠ .wakeup) (h : s.parked) : ∀ n, (s.sched cfg σ n).parked
  | 0 => h
  | n + 1 => by
    have ih := StopSt.parked_sched (cfg := cfg) σ hσ h n
    rw [StopSt.sched_succ]
    cases hst : (s.sched cfg σ n).step cfg (σ n) with
    | none => exact ih
    | some s1 => exact StopSt.parked_step _ (hσ n) hst ih

/-- in ANY system with two distinct components the variant can park its run loop while a
shut-down is in progress. -/
theorem stopOnce_parks (cfg : StopCfg) (hcfg : cfg.stopOnce = true) (a b : Comp)
    (ha : a ∈ cfg.comps) (hb : b ∈ cfg.comps) (hab : a ≠ b) :
    (StopSt.init cfg).exec cfg (stopOncePrefix a b) = some (stopOnceParked cfg a b) := by
  have hba : ¬ b = a := fun e => hab e.symm
  simp [stopOncePrefix, StopSt.exec, StopSt.step, StopSt.init, StopSt.handlerStep,
    StopSt.loopStep, ha, hb, hba, hcfg, stopOnceParked]

/-- which steps can put the run loop inside a tick. -/
theorem StopSt.step_pc_ticking {cfg : StopCfg} {s s' : StopSt} (a : StopAct)
    (hs : s.step cfg a = some s') (hp : s'.pc = .ticking) :
    s.pc = .ticking ∨ ∃ cs left, a = .sleepExpires cs left := by
  cases a with
  | wakeup => simp only [StopSt.step, Option.some.injEq] at hs; subst hs; exact Or.inl hp
  | sleepExpires cs left => exact Or.inr ⟨cs, left, rfl⟩
  | loop =>
    simp only [StopSt.step, StopSt.loopStep] at hs
    repeat' split at hs
    all_goals first | (cases hs; cases hp) | (cases hs; exact Or.inl hp) | cases hs
  | answer c =>
    simp only [StopSt.step] at hs
    split at hs <;> cases hs
    exact Or.inl hp
  | fail c =>
    simp only [StopSt.step] at hs
    split at hs <;> cases hs
    exact Or.inl hp
  | handler i =>
    simp only [StopSt.step, StopSt.handlerStep] at hs
    repeat' split at hs
    all_goals first | cases hs; exact Or.inl hp | cases hs
  | produceStop i c =>
    simp only [StopSt.step, StopSt.produceStep] at hs
    repeat' split at hs
    all_goals first | cases hs; exact Or.inl hp | cases hs
  | deliverStop c =>
    simp only [StopSt.step] at hs
    split at hs <;> cases hs
    exact Or.inl hp

/-- which steps set the ticker's `finished` event. -/
theorem StopSt.step_sets_finished {cfg : StopCfg} {s s' : StopSt} (a : StopAct)
    (hs : s.step cfg a = some s') (h0 : s.finished = false) (h1 : s'.finished = true) :
    (∃ c, a = .answer c ∧ s'.toUpdate = []) ∨
    (∃ i r, a = .handler i ∧ s.reports[i]? = some r ∧ r.pc = .afterSuper) := by
  cases a with
  | wakeup =>
    simp only [StopSt.step, Option.some.injEq] at hs; subst hs
    rw [h0] at h1; cases h1
  | sleepExpires cs left =>
    simp only [StopSt.step] at hs
    split at hs <;> cases hs
    rw [h0] at h1; cases h1
  | loop =>
    simp only [StopSt.step, StopSt.loopStep] at hs
    repeat' split at hs
    all_goals first | (cases hs; simp_all) | cases hs
  | answer c =>
    simp only [StopSt.step] at hs
    split at hs <;> cases hs
    refine Or.inl ⟨c, rfl, ?_⟩
    simp only [h0, Bool.false_or, List.isEmpty_iff] at h1
    exact h1
  | fail c =>
    simp only [StopSt.step] at hs
    split at hs <;> cases hs
    rw [h0] at h1; cases h1
  | handler i =>
    simp only [StopSt.step, StopSt.handlerStep] at hs
    split at hs
    · cases hs
    · rename_i r hi
      split at hs
      · split at hs <;> cases hs <;> (rw [h0] at h1; cases h1)
      · cases hs; rw [h0] at h1; cases h1
      · cases hs
      · rename_i hpc
        exact Or.inr ⟨i, r, rfl, hi, hpc⟩
      · cases hs
  | produceStop i c =>
    simp only [StopSt.step, StopSt.produceStep] at hs
    repeat' split at hs
    all_goals first | (cases hs; rw [h0] at h1; cases h1) | cases hs
  | deliverStop c =>
    simp only [StopSt.step] at hs
    split at hs <;> cases hs
    rw [h0] at h1; cases h1

end Tickit
