/-
Any-order nested tick, part 12: the FIFO model completes every RUN (without external stimuli) that
has an any-order execution, for every sufficiently large fuel.
-/
import TickitModel.Lemmas.AnyLive
import TickitModel.Lemmas.AnyRun

namespace Tickit

variable {S : Static} {orc : Oracle}

/-- the state after a tick of the master level, in two executions from equivalent states -/
theorem master_tick_equiv (hS : S.Valid) {w : SimTime} {comps comps' : List Comp}
    (hcs : ∀ c, c ∈ comps ↔ c ∈ comps') {sim sim' : SimSt} (hsim : sim.Equiv sim')
    {r r' : SimSt × List (Port × V)}
    (h1 : TickLevelAny S orc "" w comps [] (tickStart sim comps) r)
    (h2 : TickLevelAny S orc "" w comps' [] (tickStart sim' comps') r') : r.1.Equiv r'.1 := by
  have hdet := tickLevelAny_det hS h1 comps' [] _ _ hcs (mapEq_refl _) (by simp) (by simp)
    (fun x _ => tickStart_equiv hsim hcs x) h2
  intro x
  by_cases hx : AtOrBelow S "" x
  · exact hdet.1 x hx
  · have hne : x ≠ "" := fun h => hx (Or.inl h)
    have hnb : ¬ S.Below "" x := fun h => hx (Or.inr h)
    rw [(tickLevelAny_post1 hS h1).frame x hne hnb, (tickLevelAny_post1 hS h2).frame x hne hnb]
    exact tickStart_equiv hsim hcs x

/-- **the FIFO run exists**: a run without external stimuli that has an any-order execution is
completed by `masterRun` from every equivalent master state, with every fuel from some bound on -/
theorem masterRunAny_live (hS : S.Valid) {fuel0 : Nat} {s : Speed} {steps nTicks : Nat} {m : MasterSt}
    {acc : List TickRec} {r : MasterSt × List TickRec}
    (h : MasterRunAny S orc fuel0 s steps nTicks m [] acc r) :
    ∃ F, ∀ (m' : MasterSt) (acc' : List TickRec), m.Equiv m' → ∀ fuel, F ≤ fuel →
      ∃ rf, masterRun S orc fuel s steps nTicks m' [] acc' = .ok rf := by
  generalize hst : ([] : List Stim) = stims at h
  induction h with
  | outOfSteps =>
    refine ⟨0, fun m' acc' _ fuel _ => ⟨(m', acc'), ?_⟩⟩
    rw [masterRun]
  | @ticksDone steps m stims acc =>
    refine ⟨0, fun m' acc' _ fuel _ => ⟨(m', acc'), ?_⟩⟩
    rw [masterRun]
    intro h0; cases h0
  | stim hs _ _ =>
    subst hst
    simp [nextStim] at hs
  | @tick steps nTicks m stims acc comps w sim2 out r hs hfw htl _ ih =>
    subst hst
    obtain ⟨F2, hF2⟩ := ih rfl
    obtain ⟨F1, hF1⟩ := tickLevelAny_live hS htl (by simp)
    refine ⟨max F1 F2, ?_⟩
    intro m' acc' hm fuel hfu
    have h0 : (m.sim.sched "").Equiv (m'.sim.sched "") := (hm.sim "").sch
    have hw2 := firstWakeups_snd_congr h0.ua h0.ub h0.wake
    rw [masterRun_unfold]
    have hsf : stimFirst m' s (firstWakeups (m'.sim.sched "").wake).2 [] = none := rfl
    rw [hsf]
    simp only
    cases hfw' : firstWakeups (m'.sim.sched "").wake with
    | mk comps' wt' =>
      rw [hfw, hfw'] at hw2
      simp only at hw2
      subst hw2
      obtain ⟨_, hcs⟩ := firstWakeups_equiv h0.ua h0.ub h0.wake hfw hfw'
      simp only
      obtain ⟨rf, hrf⟩ := hF1 comps' [] (tickStart m'.sim comps') hcs (mapEq_refl _) (by simp)
        (fun x _ => tickStart_equiv hm.sim hcs x) fuel (Nat.le_trans (Nat.le_max_left _ _) hfu)
      obtain ⟨sim2', out'⟩ := rf
      rw [tickStart_eq_delWake] at hrf
      rw [hrf]
      simp only
      have hsim : sim2.Equiv sim2' :=
        master_tick_equiv hS hcs hm.sim htl (by
          rw [tickStart_eq_delWake]; exact tickLevel_any _ _ _ _ _ _ _ hrf)
      have hdr := dueReal_equiv hm s w
      exact hF2 { sim := sim2', tickerTime := w, lastReal := dueReal m' s w, now := dueReal m' s w } _
        ⟨hsim, rfl, hdr, hdr⟩ fuel (Nat.le_trans (Nat.le_max_right _ _) hfu)
  | @idle steps nTicks m stims acc hs hn =>
    subst hst
    refine ⟨0, ?_⟩
    intro m' acc' hm fuel _
    have h0 : (m.sim.sched "").Equiv (m'.sim.sched "") := (hm.sim "").sch
    have hw2 := firstWakeups_snd_congr h0.ua h0.ub h0.wake
    rw [masterRun_unfold]
    have hsf : stimFirst m' s (firstWakeups (m'.sim.sched "").wake).2 [] = none := rfl
    rw [hsf]
    simp only
    cases hfw' : firstWakeups (m'.sim.sched "").wake with
    | mk comps' wt' =>
      rw [hn, hfw'] at hw2
      simp only at hw2
      subst hw2
      exact ⟨_, rfl⟩

/-- the initial tick -/
theorem masterInitialAny_live (hS : S.Valid) {t0 : SimTime} {now : Int} {r0 : MasterSt × TickRec}
    (h : MasterInitialAny S orc t0 now r0) :
    ∃ F, ∀ fuel, F ≤ fuel → ∃ rf, masterInitial S orc fuel t0 now = .ok rf := by
  cases h with
  | @mk L st out hL htl =>
    obtain ⟨F, hF⟩ := tickLevelAny_live hS htl (by simp)
    refine ⟨F, fun fuel hfu => ?_⟩
    obtain ⟨rf, hrf⟩ := hF L.wiring.components [] {} (fun _ => Iff.rfl) (mapEq_refl _) (by simp)
      (fun x _ => SLoc.Equiv.refl (SimSt.wakeWF_empty x)) fuel hfu
    obtain ⟨st', out'⟩ := rf
    unfold masterInitial
    rw [hL]
    simp only [hrf]
    exact ⟨_, rfl⟩

/-- **an any-order run (no stimuli) has a FIFO counterpart**: for every sufficiently large fuel the
FIFO model completes the initial tick and the run -/
theorem any_run_has_fifo (hS : S.Valid) {fuel0 : Nat} {t0 : SimTime} {now : Int} {sp : Speed}
    {steps nTicks : Nat} {r0 : MasterSt × TickRec} {r : MasterSt × List TickRec}
    (h1 : MasterInitialAny S orc t0 now r0)
    (h2 : MasterRunAny S orc fuel0 sp steps nTicks r0.1 [] [r0.2] r) :
    ∃ F, ∀ fuel, F ≤ fuel → ∃ m tr m2 ticks, masterInitial S orc fuel t0 now = .ok (m, tr) ∧
      masterRun S orc fuel sp steps nTicks m [] [tr] = .ok (m2, ticks) := by
  obtain ⟨Fi, hFi⟩ := masterInitialAny_live hS h1
  obtain ⟨Fr, hFr⟩ := masterRunAny_live hS h2
  refine ⟨max Fi Fr, fun fuel hfu => ?_⟩
  obtain ⟨⟨m, tr⟩, hmi⟩ := hFi fuel (Nat.le_trans (Nat.le_max_left _ _) hfu)
  obtain ⟨e1, _⟩ := masterInitialAny_det hS h1 (masterInitial_any S orc fuel t0 now _ hmi)
  obtain ⟨⟨m2, ticks⟩, hmr⟩ := hFr m [tr] e1 fuel (Nat.le_trans (Nat.le_max_right _ _) hfu)
  exact ⟨m, tr, m2, ticks, hmi, hmr⟩

/-- without external stimuli the `fuel` parameter of `MasterRunAny` (used only to walk up the
parent chain of an interrupting component) is irrelevant -/
theorem masterRunAny_fuel_irrel {fuel0 fuel : Nat} {s : Speed} {steps nTicks : Nat} {m : MasterSt}
    {acc : List TickRec} {r : MasterSt × List TickRec}
    (h : MasterRunAny S orc fuel0 s steps nTicks m [] acc r) :
    MasterRunAny S orc fuel s steps nTicks m [] acc r := by
  generalize hst : ([] : List Stim) = stims at h
  induction h with
  | outOfSteps => exact .outOfSteps
  | ticksDone => exact .ticksDone
  | stim hs _ _ =>
    subst hst
    simp [nextStim] at hs
  | tick hs hfw htl _ ih =>
    subst hst
    exact .tick hs hfw htl (ih rfl)
  | idle hs hn => exact .idle hs hn

end Tickit
