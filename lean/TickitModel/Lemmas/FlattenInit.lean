/-
Helper lemmas for C09, part 2: what the initial tick of a (nested) configuration hands to every
device — "tick equations at device level".  The induction is over the nesting depth (the fuel
of `tickLevel`) and, inside one level, over the steps of `tickLoop`.
-/
import TickitModel.Lemmas.FlattenLemmas

namespace Tickit

/-! ### ticker facts: the accumulator -/

theorem flt_propagate_inputs {w : Wiring} {tk tk' : Ticker V} {src : Comp} {t : SimTime}
    {changes : List (Port × V)} {ds : List (Dispatch V)}
    (h : tk.propagate w src t changes = .ok (tk', ds)) :
    tk'.inputs = addInputs tk.inputs (w.route src changes) := by
  simp only [Ticker.propagate] at h
  by_cases h1 : (alookup tk.toUpdate src).isNone = true
  · simp [h1] at h
  · simp only [h1, Bool.false_eq_true, if_false] at h
    by_cases h2 : t ≠ tk.time
    · simp [h2] at h
    · simp only [h2, if_false, Ticker.schedule] at h
      cases hr : Ticker.scheduleLoop w (tk.afterAnswer w src changes) (aerase tk.toUpdate src) with
      | error e =>
        simp only [Ticker.afterAnswer] at hr
        simp [hr, Except.map] at h
      | ok ds' =>
        simp only [Ticker.afterAnswer] at hr
        simp only [hr, Except.map, Except.ok.injEq] at h
        split at h <;> (cases h; rfl)

theorem flt_call_inputs {w : Wiring} {t : SimTime} {roots : List Comp} {tk : Ticker V}
    {ds : List (Dispatch V)} (h : Ticker.call w t roots = .ok (tk, ds)) : tk.inputs = [] := by
  simp only [Ticker.call, Ticker.schedule] at h
  cases hr : Ticker.scheduleLoop w (Ticker.startTick w t roots : Ticker V)
      (Ticker.startTick w t roots : Ticker V).toUpdate with
  | error e => simp [hr, Except.map] at h
  | ok ds' =>
    simp only [hr, Except.map, Except.ok.injEq, Prod.mk.injEq] at h
    obtain ⟨h1, _⟩ := h
    subst h1
    rfl

theorem flt_nodup_outC (orc : Oracle) (c : Comp) : (akeys (outC orc c)).Nodup := by
  unfold outC
  split
  · unfold outChanges normDict
    exact List.Sublist.nodup (List.Sublist.map _ List.filter_sublist)
      (nodup_akeys_aupdate (by simp) _)
  · simp

/-- `{**{}, **changes}` for a dict `changes` -/
theorem flt_alookup_merge_empty {ins : List (Port × V)} (hn : (akeys ins).Nodup) (q : Port) :
    alookup (({} : DevComp V).merge ins) q = alookup ins q := by
  unfold DevComp.merge
  rw [alookup_aupdate_of_nodup _ hn]
  cases alookup ins q <;> simp

/-! ### the device-level description -/

/-- the value carried in the initial tick by the output `(a, p)` named inside level `lvl` -/
def Static.ValAt (S : Static) (orc : Oracle) (n : Nat) (lvl a : Comp) (p : Port) (v : V) : Prop :=
  ∃ a₀ p₀, S.resolve n lvl a p = some (a₀, p₀) ∧ alookup (outC orc a₀) p₀ = some v

/-- the device ultimately driving `(a, p)` has been updated already -/
def Static.SeenAt (S : Static) (n : Nat) (obs : List Obs) (lvl a : Comp) (p : Port) : Prop :=
  ∀ a₀ p₀, S.resolve n lvl a p = some (a₀, p₀) → a₀ ∈ obs.map Obs.comp

theorem Static.SeenAt.mono {S : Static} {n : Nat} {obs obs' : List Obs} {lvl a : Comp} {p : Port}
    (h : S.SeenAt n obs lvl a p) (hsub : ∀ x ∈ obs.map Obs.comp, x ∈ obs'.map Obs.comp) :
    S.SeenAt n obs' lvl a p :=
  fun a₀ p₀ hr => hsub _ (h a₀ p₀ hr)

theorem Static.SeenAt.append {S : Static} {n : Nat} {obs : List Obs} {lvl a : Comp} {p : Port}
    (h : S.SeenAt n obs lvl a p) (new : List Obs) : S.SeenAt n (obs ++ new) lvl a p :=
  h.mono (fun x hx => by rw [List.map_append]; exact List.mem_append_left _ hx)

/-- the answer `chs` of component `a` of level `L` is what the resolved sources say -/
def Static.AnsOK (S : Static) (orc : Oracle) (n : Nat) (L : Level) (obs : List Obs) (a : Comp)
    (chs : List (Port × V)) : Prop :=
  (akeys chs).Nodup ∧ ∀ p b q, L.wiring.Conn a p b q →
    (∀ v, alookup chs p = some v ↔ S.ValAt orc n L.name a p v) ∧ S.SeenAt n obs L.name a p

/-- the input changes `ins` handed to component `c` of level `L` are what the resolved sources say -/
def Static.PendOK (S : Static) (orc : Oracle) (n : Nat) (L : Level) (obs : List Obs) (c : Comp)
    (ins : List (Port × V)) : Prop :=
  (akeys ins).Nodup ∧
  (∀ q v, alookup ins q = some v ↔ ∃ a p, L.wiring.Conn a p c q ∧ S.ValAt orc n L.name a p v) ∧
  (∀ q a p, L.wiring.Conn a p c q → S.SeenAt n obs L.name a p)

theorem Static.AnsOK.mono {S : Static} {orc : Oracle} {n : Nat} {L : Level} {obs obs' : List Obs}
    {a : Comp} {chs : List (Port × V)} (h : S.AnsOK orc n L obs a chs)
    (hsub : ∀ x ∈ obs.map Obs.comp, x ∈ obs'.map Obs.comp) : S.AnsOK orc n L obs' a chs :=
  ⟨h.1, fun p b q hc => ⟨(h.2 p b q hc).1, (h.2 p b q hc).2.mono hsub⟩⟩

theorem Static.PendOK.mono {S : Static} {orc : Oracle} {n : Nat} {L : Level} {obs obs' : List Obs}
    {c : Comp} {ins : List (Port × V)} (h : S.PendOK orc n L obs c ins)
    (hsub : ∀ x ∈ obs.map Obs.comp, x ∈ obs'.map Obs.comp) : S.PendOK orc n L obs' c ins :=
  ⟨h.1, h.2.1, fun q a p hc => (h.2.2 q a p hc).mono hsub⟩

/-- the observation made by a device in the initial tick: `{}` overlaid with the values of the
resolved sources of its input ports -/
def Static.ObsOK (S : Static) (orc : Oracle) (n : Nat) (o : Obs) : Prop :=
  OrcOK orc o.comp ∧ ∀ q v, alookup o.inputs q = some v ↔
    ∃ a₀ p₀, alookup (S.flatInputs n o.comp) q = some (a₀, p₀) ∧ alookup (outC orc a₀) p₀ = some v

/-- every device is observed after the devices driving its inputs -/
def Static.Ordered (S : Static) (n : Nat) (base new : List Obs) : Prop :=
  ∀ pre o post, new = pre ++ o :: post → ∀ q a₀ p₀,
    alookup (S.flatInputs n o.comp) q = some (a₀, p₀) → a₀ ∈ (base ++ pre).map Obs.comp

theorem Static.Ordered.nil (S : Static) (n : Nat) (base : List Obs) : S.Ordered n base [] := by
  intro pre o post h
  cases pre <;> simp at h

theorem Static.Ordered.append {S : Static} {n : Nat} {base new new1 : List Obs}
    (h : S.Ordered n base new) (h1 : S.Ordered n (base ++ new) new1) :
    S.Ordered n base (new ++ new1) := by
  intro pre o post he q a₀ p₀ hq
  rcases append_eq_append_cons he with ⟨post', h2, _⟩ | ⟨pre', h2, h3⟩
  · exact h pre o post' h2 q a₀ p₀ hq
  · have := h1 pre' o post h3 q a₀ p₀ hq
    rw [h2, ← List.append_assoc]
    exact this

/-- device states and update counts change only for observed devices -/
def DevFrame (st st' : SimSt) (new : List Obs) : Prop :=
  ∀ x, x ∉ new.map Obs.comp →
    agetD st'.devs x {} = agetD st.devs x {} ∧ agetD st'.count x 0 = agetD st.count x 0

theorem DevFrame.refl (st : SimSt) : DevFrame st st [] := fun _ _ => ⟨rfl, rfl⟩

theorem DevFrame.trans {st st' st'' : SimSt} {new new1 : List Obs} (h : DevFrame st st' new)
    (h1 : DevFrame st' st'' new1) : DevFrame st st'' (new ++ new1) := by
  intro x hx
  rw [List.map_append, List.mem_append, not_or] at hx
  exact ⟨(h1 x hx.2).1.trans (h x hx.1).1, (h1 x hx.2).2.trans (h x hx.1).2⟩

/-- what the enclosing tick guarantees when it starts the initial tick of level `lvl` -/
structure Static.InitPre (S : Static) (orc : Oracle) (n : Nat) (lvl : Comp) (L : Level)
    (roots : List Comp) (inCh : List (Port × V)) (st : SimSt) : Prop where
  hall : ∀ c ∈ L.wiring.components, c ∈ roots
  fresh_dev : ∀ x, S.Below lvl x → agetD st.devs x {} = {} ∧ agetD st.count x 0 = 0
  fresh_sys : ∀ s, S.Below lvl s → S.isSys s = true → (st.sched s).firstDone = false
  in_nodup : (akeys inCh).Nodup
  in_ok : ∀ p v, alookup inCh p = some v ↔ S.ValAt orc n lvl pseudoExternal p v
  in_seen : ∀ p, S.SeenAt n st.obs lvl pseudoExternal p

/-- what the initial tick of level `L` achieves -/
def Static.InitPost (S : Static) (orc : Oracle) (n : Nat) (L : Level) (st st' : SimSt)
    (out : List (Port × V)) : Prop :=
  ∃ new, st'.obs = st.obs ++ new ∧ (∀ o ∈ new, S.ObsOK orc n o) ∧ S.Ordered n st.obs new ∧
    DevFrame st st' new ∧ S.PendOK orc n L st'.obs pseudoExpose out

theorem flt_pseudo_ne : pseudoExpose ≠ pseudoExternal := by decide

/-! ### one answer -/

/-- the induction hypothesis on the nesting depth -/
def Static.InitIH (S : Static) (orc : Oracle) (n fuel : Nat) : Prop :=
  ∀ lvl L t roots inCh st st' out, tickLevel S orc fuel lvl t roots inCh st = .ok (st', out) →
    S.level lvl = some L → S.InitPre orc n lvl L roots inCh st → S.InitPost orc n L st st' out

theorem simAnswer_init {S : Static} (hS : S.Valid) {orc : Oracle} {n : Nat} (hst : S.ResolveStable n)
    {fuel : Nat} (IH : S.InitIH orc n fuel) {L : Level} (hL : L ∈ S.levels)
    {inCh : List (Port × V)} {st : SimSt} {outCh0 : List (Port × V)}
    (hin : S.AnsOK orc n L st.obs pseudoExternal inCh ∨ L.name = "")
    {c : Comp} {t : SimTime} {ins : List (Port × V)} (hc : c ∈ L.wiring.components)
    (hfd : alookup S.parent c = some L.name → ∀ x, S.Own c x →
      agetD st.devs x {} = {} ∧ agetD st.count x 0 = 0)
    (hfs : alookup S.parent c = some L.name → ∀ s, S.Own c s → S.isSys s = true →
      (st.sched s).firstDone = false)
    (hpend : S.PendOK orc n L st.obs c ins)
    {st' : SimSt} {outCh' changes : List (Port × V)} {callAt : Option SimTime}
    (h : simAnswer S orc fuel L inCh st outCh0 (.input c t ins) = .ok (st', outCh', changes, callAt)) :
    ∃ new1, st'.obs = st.obs ++ new1 ∧ (∀ o ∈ new1, S.ObsOK orc n o) ∧ S.Ordered n st.obs new1 ∧
      DevFrame st st' new1 ∧ S.AnsOK orc n L st'.obs c changes ∧
      ((c = pseudoExpose ∧ L.name ≠ "") → outCh' = ins) ∧
      (¬ (c = pseudoExpose ∧ L.name ≠ "") → outCh' = outCh0) := by
  obtain ⟨hwf, hos⟩ := hS.wiring_wf L hL
  have hLv : S.level L.name = some L := hS.level_of_mem hL
  simp only [simAnswer] at h
  have hmem := hS.members L hL c hc
  split at h
  · -- `external`
    rename_i hx
    simp only [Bool.and_eq_true, bne_iff_ne, ne_eq, beq_iff_eq] at hx
    simp only [Except.ok.injEq, Prod.mk.injEq] at h
    obtain ⟨rfl, rfl, rfl, _⟩ := h
    obtain ⟨hne, rfl⟩ := hx
    refine ⟨[], by simp, by simp, Static.Ordered.nil _ _ _, DevFrame.refl _, ?_, ?_, ?_⟩
    · rcases hin with hin | hin
      · exact hin
      · exact absurd hin hne
    · rintro ⟨h1, _⟩; exact absurd h1.symm flt_pseudo_ne
    · intro _; rfl
  · rename_i hx
    split at h
    · -- `expose`
      rename_i hy
      simp only [Bool.and_eq_true, bne_iff_ne, ne_eq, beq_iff_eq] at hy
      simp only [Except.ok.injEq, Prod.mk.injEq] at h
      obtain ⟨rfl, rfl, rfl, _⟩ := h
      obtain ⟨hne, rfl⟩ := hy
      refine ⟨[], by simp, by simp, Static.Ordered.nil _ _ _, DevFrame.refl _, ?_, ?_, ?_⟩
      · refine ⟨by simp, fun p b q hconn => ?_⟩
        exact absurd rfl (hS.pseudo_dir L hL _ _ _ _ hconn).2
      · intro _; rfl
      · intro hno; exact absurd ⟨rfl, hne⟩ hno
    · rename_i hy
      have hpar : alookup S.parent c = some L.name := by
        rcases hmem with h' | ⟨hne, h' | h'⟩
        · exact h'
        · exact absurd (by simp [hne, h']) hx
        · exact absurd (by simp [hne, h']) hy
      have hcx : c ≠ pseudoExternal := by
        intro he; rw [he, hS.pseudo_fresh.1] at hpar; cases hpar
      have hce : c ≠ pseudoExpose := by
        intro he; rw [he, hS.pseudo_fresh.2.1] at hpar; cases hpar
      have hout : ((c = pseudoExpose ∧ L.name ≠ "") → outCh0 = ins) ∧
          (¬ (c = pseudoExpose ∧ L.name ≠ "") → outCh0 = outCh0) :=
        ⟨fun h' => absurd h'.1 hce, fun _ => rfl⟩
      split at h
      · -- a system component
        rename_i hsys
        split at h
        · cases h
        · rename_i st2 outCh hr
          simp only [Except.ok.injEq, Prod.mk.injEq] at h
          obtain ⟨rfl, rfl, rfl, _⟩ := h
          obtain ⟨Lc, hLc, hroots⟩ := tickLevel_ok_roots hr
          obtain ⟨hLc1, hLc2⟩ := Static.level_some hLc
          have hcne : c ≠ "" := by
            have hext : pseudoExternal ∈ Lc.wiring.components :=
              hroots _ (by simp [mem_sunion])
            rcases hS.members Lc hLc1 _ hext with h' | ⟨hne, _⟩
            · rw [hS.pseudo_fresh.1] at h'; cases h'
            · rwa [hLc2] at hne
          have hirr : ¬ S.Below c c := Static.Below.irrefl hS.toWF hcne
          have hfdc : (st.sched c).firstDone = false := hfs hpar c (Static.Own.refl S c) hsys
          have hfun := IH _ _ _ _ _ _ _ _ hr hLc
          have hpost := hfun
            { hall := by
                intro x hx'
                rw [mem_sunion]; right
                rw [hfdc]; simpa [hLc] using hx'
              fresh_dev := fun x hb => hfd hpar x (Or.inr ⟨hcne, hb⟩)
              fresh_sys := by
                intro s hb hs
                have hsc : c ≠ s := fun h => hirr (h ▸ hb)
                rw [SimSt.sched_upsert, if_neg hsc]
                exact hfs hpar s (Or.inr ⟨hcne, hb⟩) hs
              in_nodup := hpend.1
              in_ok := by
                intro p v
                rw [hpend.2.1]
                unfold Static.ValAt
                constructor
                · rintro ⟨a, p', hconn, a₀, p₀, hr0, hv⟩
                  exact ⟨a₀, p₀, (hst.external hcne hpar hLv p _).2
                    ⟨a, p', (Wiring.sourceOf_eq_some hwf hos).2 hconn, hr0⟩, hv⟩
                · rintro ⟨a₀, p₀, hr0, hv⟩
                  obtain ⟨a, p', hsrc, hr1⟩ := (hst.external hcne hpar hLv p _).1 hr0
                  exact ⟨a, p', (Wiring.sourceOf_eq_some hwf hos).1 hsrc, a₀, p₀, hr1, hv⟩
              in_seen := by
                intro p a₀ p₀ hr0
                obtain ⟨a, p', hsrc, hr1⟩ := (hst.external hcne hpar hLv p _).1 hr0
                exact hpend.2.2 p a p' ((Wiring.sourceOf_eq_some hwf hos).1 hsrc) a₀ p₀ hr1 }
          obtain ⟨new1, hobs, hok, hord, hframe, hout2⟩ := hpost
          obtain ⟨hwfc, hosc⟩ := hS.wiring_wf Lc hLc1
          refine ⟨new1, hobs, hok, hord, hframe, ?_, hout.1, hout.2⟩
          refine ⟨hout2.1, fun p b q hconn => ⟨fun v => ?_, ?_⟩⟩
          · rw [hout2.2.1]
            unfold Static.ValAt
            constructor
            · rintro ⟨a, p', hconn', a₀, p₀, hr0, hv⟩
              rw [hLc2] at hr0
              exact ⟨a₀, p₀, (hst.system hcx hsys hLc p _).2
                ⟨a, p', (Wiring.sourceOf_eq_some hwfc hosc).2 hconn', hr0⟩, hv⟩
            · rintro ⟨a₀, p₀, hr0, hv⟩
              obtain ⟨a, p', hsrc, hr1⟩ := (hst.system hcx hsys hLc p _).1 hr0
              refine ⟨a, p', (Wiring.sourceOf_eq_some hwfc hosc).1 hsrc, a₀, p₀, ?_, hv⟩
              rw [hLc2]; exact hr1
          · intro a₀ p₀ hr0
            obtain ⟨a, p', hsrc, hr1⟩ := (hst.system hcx hsys hLc p _).1 hr0
            refine hout2.2.2 p a p' ((Wiring.sourceOf_eq_some hwfc hosc).1 hsrc) a₀ p₀ ?_
            rw [hLc2]; exact hr1
      · -- a device
        rename_i hsys
        have hsys' : S.isSys c = false := by simpa using hsys
        obtain ⟨hd0, hk0⟩ := hfd hpar c (Static.Own.refl S c)
        rw [hk0, hd0] at h
        split at h
        · cases h
        · rename_i resp hresp
          split at h
          · cases h
          · rename_i hraise
            simp only [Except.ok.injEq, Prod.mk.injEq] at h
            obtain ⟨rfl, rfl, rfl, _⟩ := h
            have hraise' : resp.raises = false := by simpa using hraise
            have hch : (({} : DevComp V).onTick ins (normDict resp.outs)).2 = outC orc c := by
              unfold outC
              rw [hresp]
              rfl
            refine ⟨[⟨c, t, ({} : DevComp V).merge ins⟩], rfl, ?_, ?_, ?_, ?_, hout.1, hout.2⟩
            · intro o ho
              simp only [List.mem_singleton] at ho
              subst ho
              refine ⟨⟨resp, hresp, hraise'⟩, fun q v => ?_⟩
              show alookup (({} : DevComp V).merge ins) q = some v ↔ _
              rw [flt_alookup_merge_empty hpend.1, hpend.2.1]
              constructor
              · rintro ⟨a, p, hconn, a₀, p₀, hr0, hv⟩
                exact ⟨a₀, p₀, (hS.flatInputs_spec n c q _).2 ⟨L.name, L, a, p, hpar, hLv, hconn, hr0⟩, hv⟩
              · rintro ⟨a₀, p₀, hfi, hv⟩
                obtain ⟨lvl, L', a, p, hp', hL', hconn, hr0⟩ := (hS.flatInputs_spec n c q _).1 hfi
                rw [hpar] at hp'; cases hp'
                rw [hLv] at hL'; cases hL'
                exact ⟨a, p, hconn, a₀, p₀, hr0, hv⟩
            · intro pre o post he q a₀ p₀ hfi
              have : pre = [] ∧ o = ⟨c, t, ({} : DevComp V).merge ins⟩ := by
                cases pre with
                | nil => simp at he; exact ⟨rfl, he.1.symm⟩
                | cons x pre => simp at he
              obtain ⟨rfl, rfl⟩ := this
              obtain ⟨lvl, L', a, p, hp', hL', hconn, hr0⟩ := (hS.flatInputs_spec n c q _).1 hfi
              rw [hpar] at hp'; cases hp'
              rw [hLv] at hL'; cases hL'
              simpa using hpend.2.2 q a p hconn a₀ p₀ hr0
            · intro x hx
              have hxc : c ≠ x := by
                intro h'; apply hx; simp [h']
              exact ⟨by simp [sim_agetD_upsert, hxc], by simp [sim_agetD_upsert, hxc]⟩
            · refine ⟨?_, fun p b q hconn => ⟨fun v => ?_, ?_⟩⟩
              · rw [hch]; exact flt_nodup_outC orc c
              · rw [hch]
                unfold Static.ValAt
                rw [hst.device hcx hsys' p]
                simp only [Option.some.injEq, Prod.mk.injEq]
                constructor
                · intro h'; exact ⟨_, _, ⟨rfl, rfl⟩, h'⟩
                · rintro ⟨_, _, ⟨rfl, rfl⟩, h'⟩; exact h'
              · intro a₀ p₀ hr0
                rw [hst.device hcx hsys' p] at hr0
                cases hr0
                simp

/-! ### one scheduling pass -/

/-- what `schedule_possible_updates` hands out in an initial tick: every component it selects
has all its sources answered, so its `Input` carries exactly the resolved-source values. -/
theorem flt_sched_pend_ok {S : Static} (hS : S.Valid) {orc : Oracle} {n : Nat} {L : Level}
    (hL : L ∈ S.levels) {tk1 : Ticker V} {trace1 : List (Ev V)} {obs : List Obs}
    {ds : List (Dispatch V)} (hnd : (akeys tk1.toUpdate).Nodup)
    (hin : InputsInv L.wiring tk1.inputs trace1)
    (hnod : ∀ c, (akeys (agetD tk1.inputs c [])).Nodup)
    (hans : ∀ a chs, Ev.answer a chs ∈ trace1 → S.AnsOK orc n L obs a chs)
    (hres : ∀ c ∈ L.wiring.components, alookup tk1.toUpdate c = none → ∃ ch, Ev.answer c ch ∈ trace1)
    (hsl : Ticker.scheduleLoop L.wiring tk1 tk1.toUpdate = .ok ds) :
    ∀ d ∈ ds, ∀ t ins, d = .input d.comp t ins → S.PendOK orc n L obs d.comp ins := by
  intro d hd t ins hdi
  have hw := hS.routerOK hL
  have hwf := (hS.wiring_wf L hL).1
  have hcm : d.comp ∈ ds.map Dispatch.comp := List.mem_map.2 ⟨d, hd, rfl⟩
  obtain ⟨_, us, hus, hall⟩ := (mem_scheduleLoop_comps hnd hsl).1 hcm
  have hdec : d = tk1.decide d.comp := by
    have := (scheduleLoop_spec hsl).1
    rw [this] at hd
    obtain ⟨e, _, rfl⟩ := List.mem_map.1 hd
    simp
  have hins : ins = agetD tk1.inputs d.comp [] := by
    rcases tk1.decide_cases d.comp with ⟨h1, _⟩ | ⟨h1, _⟩
    · rw [← hdec] at h1
      rw [h1] at hdi
      simp only [Dispatch.comp, Dispatch.input.injEq, true_and] at hdi
      exact hdi.2.symm
    · rw [← hdec] at h1
      rw [h1] at hdi
      cases hdi
  have hsrc : ∀ a p q, L.wiring.Conn a p d.comp q → ∃ ch, Ev.answer a ch ∈ trace1 := by
    intro a p q hconn
    have hau : a ∈ us := (hw.ups_edge _ us hus a).2 ⟨p, q, hconn⟩
    exact hres a (Wiring.conn_mem_components hwf hconn).1 (hall a hau)
  subst hins
  refine ⟨hnod _, fun q v => ?_, fun q a p hconn => ?_⟩
  · rw [hin d.comp q v]
    constructor
    · rintro ⟨a, chs, p, hm, hconn, hv⟩
      exact ⟨a, p, hconn, ((hans a chs hm).2 p _ _ hconn).1 v |>.1 hv⟩
    · rintro ⟨a, p, hconn, hv⟩
      obtain ⟨ch, hm⟩ := hsrc a p q hconn
      exact ⟨a, ch, p, hm, hconn, ((hans a ch hm).2 p _ _ hconn).1 v |>.2 hv⟩
  · obtain ⟨ch, hm⟩ := hsrc a p q hconn
    exact ((hans a ch hm).2 p _ _ hconn).2

/-! ### the loop invariant -/

theorem simWake_obs (st : SimSt) (lvl c : Comp) (callAt : Option SimTime) :
    (simWake st lvl c callAt).obs = st.obs := rfl

theorem simWake_devs (st : SimSt) (lvl c : Comp) (callAt : Option SimTime) :
    (simWake st lvl c callAt).devs = st.devs := rfl

theorem simWake_count (st : SimSt) (lvl c : Comp) (callAt : Option SimTime) :
    (simWake st lvl c callAt).count = st.count := rfl

/-- invariant of `tickLoop` in an initial tick of level `L` (complements `LoopInv`) -/
structure InitInv (S : Static) (orc : Oracle) (n : Nat) (L : Level) (t : SimTime)
    (roots : List Comp) (st0 : SimSt) (ls : LoopSt) (trace : List (Ev V)) (new : List Obs) : Prop where
  pre : PreInv L.wiring t roots ls.tk.toUpdate ls.pending trace
  obs_eq : ls.st.obs = st0.obs ++ new
  inputs : InputsInv L.wiring ls.tk.inputs trace
  ins_nodup : ∀ c, (akeys (agetD ls.tk.inputs c [])).Nodup
  ans_ok : ∀ a chs, Ev.answer a chs ∈ trace → S.AnsOK orc n L ls.st.obs a chs
  pend_ok : ∀ d ∈ ls.pending, ∀ ins, d = .input d.comp t ins → S.PendOK orc n L ls.st.obs d.comp ins
  obs_ok : ∀ o ∈ new, S.ObsOK orc n o
  ordered : S.Ordered n st0.obs new
  frame : DevFrame st0 ls.st new
  out_none : (∀ ch, Ev.answer pseudoExpose ch ∉ trace) → ls.outCh = []
  out_ok : (∃ ch, Ev.answer pseudoExpose ch ∈ trace) → S.PendOK orc n L ls.st.obs pseudoExpose ls.outCh

theorem flt_mem_extent_of_all {w : Wiring} {roots : List Comp}
    (hall : ∀ c ∈ w.components, c ∈ roots) {c : Comp} (hc : c ∈ w.components) : c ∈ extent w roots :=
  sim_root_mem_extent w (hall c hc)

theorem InitInv.step {S : Static} (hS : S.Valid) {orc : Oracle} {n : Nat} (hst : S.ResolveStable n)
    {fuel : Nat} (IH : S.InitIH orc n fuel) {L : Level} (hL : L ∈ S.levels) {t : SimTime}
    {roots : List Comp} {st0 : SimSt} {inCh : List (Port × V)}
    (hpre0 : S.InitPre orc n L.name L roots inCh st0)
    {ls : LoopSt} {tr_ : List (Ev V)} {new_ : List Obs} (linv : LoopInv S L t roots st0 ls tr_ new_)
    {trace : List (Ev V)} {new : List Obs} (iv : InitInv S orc n L t roots st0 ls trace new)
    {d : Dispatch V} {rest : List (Dispatch V)} (hp : ls.pending = d :: rest)
    {st' : SimSt} {outCh' changes : List (Port × V)} {callAt : Option SimTime}
    (ha : simAnswer S orc fuel L inCh ls.st ls.outCh d = .ok (st', outCh', changes, callAt))
    {tk' : Ticker V} {ds : List (Dispatch V)}
    (hprop : ls.tk.propagate L.wiring d.comp d.time changes = .ok (tk', ds)) :
    ∃ new1, InitInv S orc n L t roots st0
      ⟨tk', rest ++ ds, outCh', simWake st' L.name d.comp callAt⟩
      (trace ++ [Ev.answer d.comp changes] ++ ds.map Ev.dispatch) (new ++ new1) := by
  have hw := hS.routerOK hL
  have hwf := (hS.wiring_wf L hL).1
  obtain ⟨hne, htime, hsl, htu, htk, hroots⟩ := sim_propagate_eq_ok hprop
  have hinp := flt_propagate_inputs hprop
  have hdm : d ∈ ls.pending := by rw [hp]; simp
  have hsub : ∀ d' ∈ rest, d' ∈ ls.pending := by
    intro d' h'; rw [hp]; exact List.mem_cons_of_mem _ h'
  have hd0 : ls.pending[0]? = some d := by rw [hp]; rfl
  have h0 : alookup ls.tk.toUpdate d.comp = some true := (iv.pre.pend_flag _).1 ⟨d, hdm, rfl⟩
  have hdc : d.comp ∈ L.wiring.components := linv.pend_comp d hdm
  obtain ⟨ins, hdi⟩ := linv.pend_input d hdm (hpre0.hall _ hdc)
  have hnew : new_ = new := by
    have := linv.obs_eq.symm.trans iv.obs_eq
    exact List.append_cancel_left this
  subst hnew
  -- what belongs to the addressed child is still fresh
  have hfd : alookup S.parent d.comp = some L.name → ∀ x, S.Own d.comp x →
      agetD ls.st.devs x {} = {} ∧ agetD ls.st.count x 0 = 0 := by
    intro hpar x hx
    have hxn : x ∉ new_.map Obs.comp := by
      intro hm
      obtain ⟨o, ho, rfl⟩ := List.mem_map.1 hm
      obtain ⟨_, _, c', hc', hcn', hown'⟩ := linv.obs_own o ho
      have := Static.Own.unique hS.toWF hc' hpar hown' hx
      subst this
      rw [h0] at hcn'; cases hcn'
    obtain ⟨h1, h2⟩ := iv.frame x hxn
    obtain ⟨h3, h4⟩ := hpre0.fresh_dev x (hx.below hpar)
    exact ⟨h1.trans h3, h2.trans h4⟩
  have hfs : alookup S.parent d.comp = some L.name → ∀ s, S.Own d.comp s → S.isSys s = true →
      (ls.st.sched s).firstDone = false := by
    intro hpar s hso hss
    have : (ls.st.sched s).firstDone = (st0.sched s).firstDone := by
      apply Classical.byContradiction
      intro hne'
      obtain ⟨c', hc', hcn', hown'⟩ := linv.changed s hne'
      have := Static.Own.unique hS.toWF hc' hpar hown' hso
      subst this
      rw [h0] at hcn'; cases hcn'
    rw [this]
    exact hpre0.fresh_sys s (hso.below hpar) hss
  have hin : S.AnsOK orc n L ls.st.obs pseudoExternal inCh ∨ L.name = "" := by
    by_cases hn : L.name = ""
    · exact Or.inr hn
    · refine Or.inl ⟨hpre0.in_nodup, fun p b q _ => ⟨fun v => hpre0.in_ok p v, ?_⟩⟩
      rw [iv.obs_eq]
      exact (hpre0.in_seen p).append _
  have hpend := iv.pend_ok d hdm ins hdi
  rw [hdi] at ha
  obtain ⟨new1, hobs1, hok1, hord1, hframe1, hans1, hout1, hout2⟩ :=
    simAnswer_init hS hst IH hL hin hdc hfd hfs hpend ha
  have hmono : ∀ x ∈ ls.st.obs.map Obs.comp, x ∈ st'.obs.map Obs.comp := by
    intro x hx
    rw [hobs1, List.map_append]
    exact List.mem_append_left _ hx
  have hfresh : ∀ ch', Ev.answer d.comp ch' ∉ trace := by
    intro ch' hm
    have := (iv.pre.resolved d.comp (iv.pre.keys_ext _ (by rw [h0]; simp))).2 ⟨ch', hm⟩
    rw [h0] at this; cases this
  have hpreA := iv.pre.answer hd0 changes
  have hpreS := hpreA.schedule (tk := ls.tk.afterAnswer L.wiring d.comp changes) linv.time hsl
  have hinA : InputsInv L.wiring (addInputs ls.tk.inputs (L.wiring.route d.comp changes))
      (trace ++ [Ev.answer d.comp changes]) := iv.inputs.answer hw hans1.1 hfresh
  have hnodA : ∀ c, (akeys (agetD (addInputs ls.tk.inputs (L.wiring.route d.comp changes)) c [])).Nodup := by
    intro c
    rw [agetD_addInputs _ (hw.route_wf d.comp changes).1]
    exact nodup_akeys_aupdate (iv.ins_nodup c) _
  have hansA : ∀ a chs, Ev.answer a chs ∈ trace ++ [Ev.answer d.comp changes] →
      S.AnsOK orc n L st'.obs a chs := by
    intro a chs hm
    simp only [List.mem_append, List.mem_singleton, Ev.answer.injEq] at hm
    rcases hm with hm | ⟨rfl, rfl⟩
    · exact (iv.ans_ok a chs hm).mono hmono
    · exact hans1
  have hext : ∀ c ∈ L.wiring.components, c ∈ extent L.wiring roots :=
    fun c hc => flt_mem_extent_of_all hpre0.hall hc
  have hpendS := flt_sched_pend_ok hS hL (tk1 := ls.tk.afterAnswer L.wiring d.comp changes)
    (trace1 := trace ++ [Ev.answer d.comp changes]) (obs := st'.obs) hpreA.nodup hinA hnodA hansA
    (fun c hc hn => (hpreA.resolved c (hext c hc)).1 hn) hsl
  refine ⟨new1, ?_⟩
  exact
    { pre := by
        have := hpreS.1
        rw [hp] at this
        show PreInv L.wiring t roots tk'.toUpdate (rest ++ ds) _
        rw [htu]
        exact this
      obs_eq := by
        show (simWake st' L.name d.comp callAt).obs = _
        rw [simWake_obs, hobs1, iv.obs_eq, List.append_assoc]
      inputs := by
        show InputsInv L.wiring tk'.inputs _
        rw [hinp]
        exact hinA.congr (by simp)
      ins_nodup := by
        intro c
        show (akeys (agetD tk'.inputs c [])).Nodup
        rw [hinp]; exact hnodA c
      ans_ok := by
        intro a chs hm
        show S.AnsOK orc n L (simWake st' L.name d.comp callAt).obs a chs
        rw [simWake_obs]
        apply hansA
        simpa using hm
      pend_ok := by
        intro d' hd' ins' hdi'
        show S.PendOK orc n L (simWake st' L.name d.comp callAt).obs d'.comp ins'
        rw [simWake_obs]
        rcases List.mem_append.1 hd' with hd' | hd'
        · exact (iv.pend_ok d' (hsub d' hd') ins' hdi').mono hmono
        · exact hpendS d' hd' t ins' hdi'
      obs_ok := by
        intro o ho
        rcases List.mem_append.1 ho with ho | ho
        · exact iv.obs_ok o ho
        · exact hok1 o ho
      ordered := iv.ordered.append (by rw [← iv.obs_eq]; exact hord1)
      frame := by
        intro x hx
        have := (iv.frame.trans hframe1) x hx
        exact this
      out_none := by
        intro hno
        show outCh' = []
        have hne' : ¬ (d.comp = pseudoExpose ∧ L.name ≠ "") := by
          rintro ⟨he, _⟩
          exact hno changes (by rw [← he]; simp)
        rw [hout2 hne']
        exact iv.out_none (fun ch hm => hno ch (by simp [hm]))
      out_ok := by
        rintro ⟨ch, hm⟩
        show S.PendOK orc n L (simWake st' L.name d.comp callAt).obs pseudoExpose outCh'
        rw [simWake_obs]
        by_cases he : d.comp = pseudoExpose
        · have hnn : L.name ≠ "" := by
            rcases hS.members L hL _ hdc with h' | ⟨h', _⟩
            · rw [he, hS.pseudo_fresh.2.1] at h'; cases h'
            · exact h'
          rw [hout1 ⟨he, hnn⟩]
          rw [he] at hpend
          exact hpend.mono hmono
        · have hold : ∃ ch, Ev.answer pseudoExpose ch ∈ trace := by
            simp only [List.mem_append, List.mem_singleton, Ev.answer.injEq, List.mem_map,
              reduceCtorEq, and_false, exists_false, or_false] at hm
            rcases hm with hm | ⟨h1, _⟩
            · exact ⟨ch, hm⟩
            · exact absurd h1.symm he
          rw [hout2 (fun h' => he h'.1)]
          exact (iv.out_ok hold).mono hmono }

/-- a finished loop establishes the post-condition of the level's initial tick -/
theorem InitInv.finish {S : Static} (hS : S.Valid) {orc : Oracle} {n : Nat} {L : Level}
    (hL : L ∈ S.levels) {t : SimTime} {roots : List Comp} {st0 : SimSt}
    (hall : ∀ c ∈ L.wiring.components, c ∈ roots) {ls : LoopSt} {trace : List (Ev V)}
    {new : List Obs} (iv : InitInv S orc n L t roots st0 ls trace new) (htu : ls.tk.toUpdate = []) :
    S.InitPost orc n L st0 ls.st ls.outCh := by
  refine ⟨new, iv.obs_eq, iv.obs_ok, iv.ordered, iv.frame, ?_⟩
  by_cases hex : ∃ ch, Ev.answer pseudoExpose ch ∈ trace
  · exact iv.out_ok hex
  · have hnone := iv.out_none (fun ch hm => hex ⟨ch, hm⟩)
    rw [hnone]
    have hno : ∀ a p q, ¬ L.wiring.Conn a p pseudoExpose q := by
      intro a p q hconn
      have hc := (Wiring.conn_mem_components (hS.wiring_wf L hL).1 hconn).2
      have := (iv.pre.resolved _ (flt_mem_extent_of_all hall hc)).1 (by rw [htu]; rfl)
      exact hex this
    refine ⟨by simp, fun q v => ?_, fun q a p hconn => absurd hconn (hno a p q)⟩
    constructor
    · intro h; simp at h
    · rintro ⟨a, p, hconn, _⟩; exact absurd hconn (hno a p q)

theorem tickLoop_init {S : Static} (hS : S.Valid) {orc : Oracle} {n : Nat} (hst : S.ResolveStable n)
    {fuel : Nat} (IH : S.InitIH orc n fuel) {L : Level} (hL : L ∈ S.levels) {t : SimTime}
    {roots : List Comp} {st0 : SimSt} {inCh : List (Port × V)}
    (hpre0 : S.InitPre orc n L.name L roots inCh st0) :
    ∀ (steps : Nat) (ls : LoopSt) (tr_ : List (Ev V)) (new_ : List Obs) (trace : List (Ev V))
      (new : List Obs), LoopInv S L t roots st0 ls tr_ new_ → InitInv S orc n L t roots st0 ls trace new →
      ∀ st' out, tickLoop S orc fuel steps L inCh ls = .ok (st', out) →
        S.InitPost orc n L st0 st' out := by
  intro steps
  induction steps with
  | zero =>
    intro ls _ _ _ _ _ _ st' out h
    rw [tickLoop_zero] at h; cases h
  | succ steps ih =>
    intro ls tr_ new_ trace new linv iv st' out h
    cases hp : ls.pending with
    | nil =>
      rw [tickLoop_nil _ _ _ _ _ _ _ hp] at h
      split at h
      · rename_i he
        simp only [Except.ok.injEq, Prod.mk.injEq] at h
        obtain ⟨rfl, rfl⟩ := h
        exact iv.finish hS hL hpre0.hall (by simpa using he)
      · cases h
    | cons d rest =>
      rw [tickLoop_cons _ _ _ _ _ _ _ _ _ hp] at h
      split at h
      · cases h
      · rename_i st1 outCh1 changes callAt ha
        split at h
        · cases h
        · rename_i tk' ds hprop
          have IHpost : ∀ lvl t roots inCh st st' out,
              tickLevel S orc fuel lvl t roots inCh st = .ok (st', out) →
                LevelPost S lvl t roots st st' :=
            fun lvl t roots inCh st st' out => tickLevel_post hS.toWF orc fuel lvl t roots inCh st st' out
          obtain ⟨tr_', new_', linv'⟩ := linv.step hS.toWF IHpost hL hp ha hprop
          obtain ⟨new1, iv'⟩ := iv.step hS hst IH hL hpre0 linv hp ha hprop
          exact ih _ tr_' new_' _ _ linv' iv' st' out h

/-- **the initial tick at device level**: every device below the level observes `{}` overlaid
with the initial reports of the devices that drive its input ports through any number of system
boundaries, and it is observed after them. -/
theorem tickLevel_init {S : Static} (hS : S.Valid) (orc : Oracle) {n : Nat} (hst : S.ResolveStable n) :
    ∀ fuel, S.InitIH orc n fuel := by
  intro fuel
  induction fuel with
  | zero =>
    intro lvl L t roots inCh st st' out h
    rw [tickLevel] at h; cases h
  | succ fuel IH =>
    intro lvl L t roots inCh st st' out h hLv hpre0
    rw [tickLevel.eq_2] at h
    rw [hLv] at h
    simp only [] at h
    obtain ⟨hL, hname⟩ := Static.level_some hLv
    subst hname
    split at h
    · cases h
    · rename_i tk ds hcall
      obtain ⟨hs, htu, htime, hroots⟩ := sim_call_eq_ok hcall
      have hinp := flt_call_inputs hcall
      have hpre := (PreInv.start (Val := V) L.wiring t roots).schedule rfl hs
      have hnone : ∀ c ∈ extent L.wiring roots, alookup tk.toUpdate c ≠ none := by
        intro c hc
        rw [htu, Ne, alookup_markDispatched_eq_none, alookup_eq_none_iff, startTick_toUpdate]
        exact fun h => h hc
      have hP : PreInv L.wiring t roots tk.toUpdate ds (ds.map Ev.dispatch) := by
        rw [htu]
        simpa using hpre.1
      have linv : LoopInv S L t roots st ⟨tk, ds, [], st⟩ (ds.map Ev.dispatch) [] :=
        { pre := hP
          time := htime
          troots := hroots
          pend_comp := fun d hd => (sim_scheduleLoop_mem hs hd).1
          pend_input := fun d hd hr => (sim_scheduleLoop_mem hs hd).2 hr
          obs_eq := by simp
          obs_nodup := by simp
          obs_own := by simp
          changed := fun s hs => absurd rfl hs
          done := fun _ _ c hce hcn _ => absurd hcn (hnone c hce) }
      have hstart := (startTick_fresh (Val := V) L.wiring t roots)
      have hpend := flt_sched_pend_ok hS hL (orc := orc) (n := n)
        (tk1 := (Ticker.startTick L.wiring t roots : Ticker V)) (trace1 := []) (obs := st.obs)
        hstart.1 (by simpa [Ticker.startTick] using InputsInv.nil (Val := V) L.wiring)
        (by intro c; simp [Ticker.startTick, agetD]) (by simp)
        (by
          intro c hc hn
          exfalso
          have hce := flt_mem_extent_of_all hpre0.hall hc
          rw [alookup_eq_none_iff, startTick_toUpdate] at hn
          exact hn hce) hs
      have iv : InitInv S orc n L t roots st ⟨tk, ds, [], st⟩ (ds.map Ev.dispatch) [] :=
        { pre := hP
          obs_eq := by simp
          inputs := by
            show InputsInv L.wiring tk.inputs _
            rw [hinp]
            exact (InputsInv.nil (Val := V) L.wiring).congr (by simp)
          ins_nodup := by
            intro c
            show (akeys (agetD tk.inputs c [])).Nodup
            rw [hinp]; simp [agetD]
          ans_ok := by simp
          pend_ok := fun d hd ins hdi => hpend d hd t ins hdi
          obs_ok := by simp
          ordered := Static.Ordered.nil _ _ _
          frame := DevFrame.refl _
          out_none := fun _ => rfl
          out_ok := by simp }
      exact tickLoop_init hS hst IH hL hpre0 _ _ _ _ _ _ linv iv st' out h

end Tickit
