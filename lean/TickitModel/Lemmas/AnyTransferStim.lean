/-
Transfer of the whole-simulation theorems to any-order executions, part 4: runs WITH external
stimuli (interrupts raised between ticks).

`Lemmas/AnyLiveRun.lean` shows that the FIFO model completes every any-order run WITHOUT stimuli.
With stimuli one more thing has to match: `MasterRunAny S orc fuel0 …` walks up the parent chain of an
interrupting component with `raiseInterrupt S fuel0`, while the FIFO model `masterRun S orc fuel …`
uses its one fuel parameter both for `tickLevel` (has to be LARGE) and for `raiseInterrupt`.  The
code has no fuel (`raise_interrupt` of every enclosing `SystemComponent` is simply called), which
corresponds to a fuel that covers the nesting depth; from there on `raiseInterrupt` does not depend
on the fuel (`raiseInterrupt_stable_ge`).  Under that explicit hypothesis (`S.DepthLe fuel0`) the
FIFO model completes every any-order run with stimuli, with an equivalent result.
-/
import TickitModel.Lemmas.AnyTransferFifo
import TickitModel.Lemmas.FlattenStim

namespace Tickit

variable {S : Static} {orc : Oracle}

theorem Static.Below.toUp {lvl c : Comp} (h : S.Below lvl c) : ∃ k, S.Up lvl c k := by
  induction h with
  | direct h => exact ⟨1, .direct h⟩
  | step h hp _ ih =>
    obtain ⟨k, hk⟩ := ih
    exact ⟨k + 1, .step h hp hk⟩

/-- every component lies at most `f` scheduler levels below the master -/
def Static.DepthLe (S : Static) (f : Nat) : Prop := ∀ c k, S.Up "" c k → k ≤ f

/-- one more unit of fuel changes nothing once the fuel covers the depth of the component -/
theorem raiseInterrupt_stable (hS : S.Valid) :
    ∀ (f : Nat) (c : Comp) (st : SimSt), (∀ k, S.Up "" c k → k ≤ f) →
      raiseInterrupt S (f + 1) c st = raiseInterrupt S f c st := by
  intro f
  induction f with
  | zero =>
    intro c st hk
    rw [raiseInterrupt_succ]
    cases hp : alookup S.parent c with
    | none => rfl
    | some p =>
      exfalso
      obtain ⟨k, hu⟩ := (Static.below_master hS.toWF (c := c) (by rw [hp]; rfl)).toUp
      have := hk k hu
      have := hu.pos
      omega
  | succ f ih =>
    intro c st hk
    rw [raiseInterrupt_succ, raiseInterrupt_succ S f]
    cases hp : alookup S.parent c with
    | none => rfl
    | some p =>
      simp only []
      by_cases hpe : (p == "") = true
      · simp only [hpe, if_true]
      · simp only [hpe, Bool.false_eq_true, if_false]
        apply ih
        intro k hu
        have hne : p ≠ "" := by simpa using hpe
        have := hk (k + 1) (.step hp hne hu)
        omega

theorem raiseInterrupt_stable_ge (hS : S.Valid) {f0 : Nat} (hd : S.DepthLe f0) {f : Nat} (hf : f0 ≤ f)
    (c : Comp) (st : SimSt) : raiseInterrupt S f c st = raiseInterrupt S f0 c st := by
  induction f with
  | zero =>
    have : f0 = 0 := by omega
    subst this; rfl
  | succ f ih =>
    by_cases h : f0 = f + 1
    · subst h; rfl
    · have h' : f0 ≤ f := by omega
      rw [raiseInterrupt_stable hS f c st (fun k hu => Nat.le_trans (hd c k hu) h'), ih h']

theorem stimStep_stable (hS : S.Valid) {f0 : Nat} (hd : S.DepthLe f0) {f : Nat} (hf : f0 ≤ f) (s : Speed)
    (m : MasterSt) (st : Stim) : stimStep S f s m st = stimStep S f0 s m st := by
  unfold stimStep
  rw [raiseInterrupt_stable_ge hS hd hf]

/-- the fuel parameter of `MasterRunAny` matters only through `stimStep` -/
theorem MasterRunAny.fuel_change {f0 f : Nat} {s : Speed}
    (hst : ∀ m st, stimStep S f s m st = stimStep S f0 s m st) {steps nTicks : Nat} {m : MasterSt}
    {stims : List Stim} {acc : List TickRec} {r : MasterSt × List TickRec}
    (h : MasterRunAny S orc f0 s steps nTicks m stims acc r) :
    MasterRunAny S orc f s steps nTicks m stims acc r := by
  induction h with
  | outOfSteps => exact .outOfSteps
  | ticksDone => exact .ticksDone
  | stim hs _ ih => exact .stim hs (by rw [hst]; exact ih)
  | tick hs hfw htl _ ih => exact .tick hs hfw htl ih
  | idle hs hn => exact .idle hs hn

/-- **the FIFO run exists, with stimuli**: a run that has an any-order execution is completed by
`masterRun` from every equivalent master state, for every fuel from some bound on for which
`stimStep` agrees with the run's. -/
theorem masterRunAny_live_stims (hS : S.Valid) {fuel0 : Nat} {s : Speed} {steps nTicks : Nat}
    {m : MasterSt} {stims : List Stim} {acc : List TickRec} {r : MasterSt × List TickRec}
    (h : MasterRunAny S orc fuel0 s steps nTicks m stims acc r) :
    ∃ F, ∀ (m' : MasterSt) (acc' : List TickRec), m.Equiv m' → ∀ fuel, F ≤ fuel →
      (∀ m st, stimStep S fuel s m st = stimStep S fuel0 s m st) →
      ∃ rf, masterRun S orc fuel s steps nTicks m' stims acc' = .ok rf := by
  induction h with
  | outOfSteps =>
    refine ⟨0, fun m' acc' _ fuel _ _ => ⟨(m', acc'), ?_⟩⟩
    rw [masterRun]
  | @ticksDone steps m stims acc =>
    refine ⟨0, fun m' acc' _ fuel _ _ => ⟨(m', acc'), ?_⟩⟩
    rw [masterRun]
    intro h0; cases h0
  | @stim steps nTicks m stims acc st rest r hs _ ih =>
    obtain ⟨F, hF⟩ := ih
    refine ⟨F, ?_⟩
    intro m' acc' hm fuel hfu hstab
    have h0 : (m.sim.sched "").Equiv (m'.sim.sched "") := (hm.sim "").sch
    have hw := firstWakeups_snd_congr h0.ua h0.ub h0.wake
    have hs' : stimFirst m' s (firstWakeups (m'.sim.sched "").wake).2 stims = some (st, rest) := by
      rw [← nextStim_eq_stimFirst, ← nextStim_equiv hm, ← hw]; exact hs
    rw [masterRun_unfold, hs']
    simp only
    rw [← stimStep_eq_afterStim, hstab]
    exact hF _ acc' (stimStep_equiv S fuel0 s hm st) fuel hfu hstab
  | @tick steps nTicks m stims acc comps w sim2 out r hs hfw htl _ ih =>
    obtain ⟨F2, hF2⟩ := ih
    obtain ⟨F1, hF1⟩ := tickLevelAny_live hS htl (by simp)
    refine ⟨max F1 F2, ?_⟩
    intro m' acc' hm fuel hfu hstab
    have h0 : (m.sim.sched "").Equiv (m'.sim.sched "") := (hm.sim "").sch
    have hw2 := firstWakeups_snd_congr h0.ua h0.ub h0.wake
    have hs' : stimFirst m' s (firstWakeups (m'.sim.sched "").wake).2 stims = none := by
      rw [← nextStim_eq_stimFirst, ← nextStim_equiv hm, ← hw2]; exact hs
    rw [masterRun_unfold, hs']
    simp only
    cases hfw' : firstWakeups (m'.sim.sched "").wake with
    | mk comps' wt' =>
      rw [hfw, hfw'] at hw2
      simp only at hw2
      subst hw2
      obtain ⟨_, hcs⟩ := firstWakeups_equiv h0.ua h0.ub h0.wake hfw hfw'
      simp only
      obtain ⟨rf, hrf⟩ := hF1 comps' [] (tickStart m'.sim comps') hcs (mapEq_refl _) (by simp)
        (fun x _ => tickStart_equiv hm.sim hcs x) fuel (Nat.le_trans (Nat.le_max_left _ _) hfu)
      obtain ⟨sim2', out'⟩ := rf
      rw [tickStart_eq_delWake] at hrf
      rw [hrf]
      simp only
      have hsim : sim2.Equiv sim2' :=
        master_tick_equiv hS hcs hm.sim htl (by
          rw [tickStart_eq_delWake]; exact tickLevel_any _ _ _ _ _ _ _ hrf)
      have hdr := dueReal_equiv hm s w
      exact hF2 { sim := sim2', tickerTime := w, lastReal := dueReal m' s w, now := dueReal m' s w } _
        ⟨hsim, rfl, hdr, hdr⟩ fuel (Nat.le_trans (Nat.le_max_right _ _) hfu) hstab
  | @idle steps nTicks m stims acc hs hn =>
    refine ⟨0, ?_⟩
    intro m' acc' hm fuel _ _
    have h0 : (m.sim.sched "").Equiv (m'.sim.sched "") := (hm.sim "").sch
    have hw2 := firstWakeups_snd_congr h0.ua h0.ub h0.wake
    have hs' : stimFirst m' s (firstWakeups (m'.sim.sched "").wake).2 stims = none := by
      rw [← nextStim_eq_stimFirst, ← nextStim_equiv hm, ← hw2]; exact hs
    rw [masterRun_unfold, hs']
    simp only
    cases hfw' : firstWakeups (m'.sim.sched "").wake with
    | mk comps' wt' =>
      rw [hn, hfw'] at hw2
      simp only at hw2
      subst hw2
      exact ⟨_, rfl⟩

/-- **an any-order run with external stimuli has a FIFO counterpart**, provided the run's
interrupt-propagation fuel covers the nesting depth: for every sufficiently large fuel the FIFO
model completes the initial tick and the run, doing the same ticks and ending equivalently. -/
theorem masterRunAny_fifo_stims (hS : S.Valid) {fuel0 : Nat} (hd : S.DepthLe fuel0) {t0 : SimTime}
    {now : Int} {sp : Speed} {steps nTicks : Nat} {stims : List Stim} {r0 : MasterSt × TickRec}
    {r : MasterSt × List TickRec} (h1 : MasterInitialAny S orc t0 now r0)
    (h2 : MasterRunAny S orc fuel0 sp steps nTicks r0.1 stims [r0.2] r) :
    ∃ F, ∀ fuel, F ≤ fuel → ∃ m tr m2 ticks, masterInitial S orc fuel t0 now = .ok (m, tr) ∧
      masterRun S orc fuel sp steps nTicks m stims [tr] = .ok (m2, ticks) ∧
      r.1.Equiv m2 ∧ TicksEquiv r.2 ticks := by
  obtain ⟨Fi, hFi⟩ := masterInitialAny_fifo hS h1
  obtain ⟨Fr, hFr⟩ := masterRunAny_live_stims hS h2
  refine ⟨max (max Fi Fr) fuel0, fun fuel hfu => ?_⟩
  have hf0 : fuel0 ≤ fuel := Nat.le_trans (Nat.le_max_right _ _) hfu
  have hstab : ∀ m st, stimStep S fuel sp m st = stimStep S fuel0 sp m st :=
    fun m st => stimStep_stable hS hd hf0 sp m st
  obtain ⟨m, tr, hmi, e1, e2⟩ := hFi fuel
    (Nat.le_trans (Nat.le_trans (Nat.le_max_left _ _) (Nat.le_max_left _ _)) hfu)
  obtain ⟨⟨m2, ticks⟩, hmr⟩ := hFr m [tr] e1 fuel
    (Nat.le_trans (Nat.le_trans (Nat.le_max_right _ _) (Nat.le_max_left _ _)) hfu) hstab
  have a2 := masterRun_any S orc fuel sp steps nTicks m stims [tr] _ hmr
  have hacc : TicksEquiv [r0.2] [tr] := by rw [e2]; exact TicksEquiv.refl _
  obtain ⟨f1, f2⟩ := masterRunAny_det hS (h2.fuel_change hstab) e1 hacc a2
  exact ⟨m, tr, m2, ticks, hmi, hmr, f1, f2⟩

end Tickit
