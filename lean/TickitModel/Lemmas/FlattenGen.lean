/-
Helper lemmas for C09, part 11: **the device-level tick equations hold for every completed tick
of a (nested) configuration** — the operational core of the whole-run theorem.
-/
import TickitModel.Lemmas.FlattenEqs

namespace Tickit

/-- a completed callback tick of the master satisfies the device-level tick equations, with the
devices whose own callback is due as roots, and leaves the schedulers' bookkeeping in order -/
theorem tick_eqs {S : Static} (hS : S.Valid) {orc : Oracle} {n : Nat} (hst : S.ResolveStable n)
    {fuel : Nat} {σ₀ : SimSt} (hsch : SchedOK S σ₀) {t : SimTime} {comps : List Comp}
    (hfw : firstWakeups (σ₀.sched "").wake = (comps, some t)) {σ' : SimSt} {out : List (Port × V)}
    (ht : tickLevel S orc fuel "" t comps [] (σ₀.delWake comps) = .ok (σ', out)) :
    ∃ new, TickEqs S orc n σ₀ t (S.DueAt σ₀ t) σ' new ∧ SchedOK S σ' := by
  sorry

/-- the completed initial tick satisfies the device-level tick equations with every device a root -/
theorem tick_eqs_initial {S : Static} (hS : S.Valid) {orc : Oracle} {n : Nat} (hst : S.ResolveStable n)
    {fuel : Nat} {t0 : SimTime} {L : Level} (hL : S.level "" = some L) {σ' : SimSt}
    {out : List (Port × V)}
    (ht : tickLevel S orc fuel "" t0 L.wiring.components [] {} = .ok (σ', out)) :
    ∃ new, TickEqs S orc n {} t0 (fun _ => True) σ' new ∧ SchedOK S σ' := by
  sorry

end Tickit
