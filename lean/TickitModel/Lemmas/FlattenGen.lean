/-
Helper lemmas for C09, part 20: **the device-level tick equations hold for every completed tick
of a (nested) configuration** — the operational core of the whole-run theorem, assembled from
the post-conditions of `tickLevel` about observations (`LevelPost`), values (`GenPost`) and
schedulers (`SchedPost`).
-/
import TickitModel.Lemmas.FlattenGenLevel
import TickitModel.Lemmas.FlattenGenSchedLevel

namespace Tickit

/-- assembling the tick equations for a tick of the master -/
theorem tick_eqs_of {S : Static} (hS : S.Valid) {orc : Oracle} {n : Nat} (hst : S.ResolveStable n)
    {σ₀ : SimSt} {t : SimTime} {Root Due : Comp → Prop} (ctx : TickCtx S σ₀ t Root)
    (sctx : SchedCtx S σ₀ t Root Due) {fuel : Nat} {Lm : Level} (hLm : S.level "" = some Lm)
    {roots : List Comp} {st : SimSt}
    (hgen : GenPre S orc n σ₀ Root (fun _ => False) "" Lm roots [] st [])
    (hsp : SchedPre S σ₀ Root Due "" Lm roots st [])
    (hother : ∀ L, L ≠ "" → st.sched L = σ₀.sched L)
    {σ' : SimSt} {out : List (Port × V)}
    (ht : tickLevel S orc fuel "" t roots [] st = .ok (σ', out)) :
    ∃ new, TickEqs S orc n σ₀ t Root Due σ' new ∧ SchedOK S σ' := by
  obtain ⟨new, hobs, hnd, hown, _, _⟩ := tickLevel_post hS.toWF orc _ _ _ _ _ _ _ _ ht
  obtain ⟨new', hobs', hdev, _⟩ := tickLevel_gen hS orc hst ctx fuel _ _ _ _ _ _ _ _ _ ht hLm hgen
  have hnn : new' = new := List.append_cancel_left (hobs'.symm.trans hobs)
  subst hnn
  have hs := tickLevel_sched hS orc ctx sctx fuel "" Lm roots [] st σ' out [] new' ht hLm hobs hsp
  have hfr := tickLevel_frame hS.toWF orc fuel "" t roots [] st σ' out ht
  simp only [List.nil_append] at hdev hs
  have hobs0 : st.obs = σ₀.obs := by simpa using hgen.obs_eq
  have hLok : ∀ P, (P = "" ∨ S.isSys P = true) → LvlOK S orc σ₀ Due P σ' new' := by
    rintro P (rfl | hsys)
    · exact hs.lvl_ok
    · exact (hs.below_ok P hsys (Static.below_master hS.toWF (hS.sys_parent P hsys))).1
  have hdv : ∀ d, S.isDevice d → DevValOK S orc n σ₀ Root (fun a₀ => False ∨ S.Below "" a₀) new' σ' d :=
    fun d hd => hdev d hd (Static.below_master hS.toWF hd.1)
  have hpl : ∀ d P, alookup S.parent d = some P → P = "" ∨ S.isSys P = true := by
    intro d P hP
    obtain ⟨_, _, _, h⟩ := hS.parent_level d P hP
    exact h
  refine ⟨new', ?_, ?_⟩
  · exact
      { obs_eq := by rw [hobs, hobs0]
        nodup := hnd
        dev := fun o ho => ⟨(hown o ho).1, (hown o ho).2.1⟩
        upd_iff := fun d hd => (hdv d hd).upd_iff
        upd := by
          intro o ho
          have hd := (hown o ho).2.1
          obtain ⟨ins, r, h1, h2, h3, h4, h5, h6, h7⟩ := (hdv o.comp hd).upd o ho rfl
          refine ⟨ins, r, h1, h2, h3, h4, h5, h6, h7, ?_⟩
          intro P hP
          have hw := ((hLok P (hpl _ P hP)).dev o.comp hd hP).1 (List.mem_map.2 ⟨o, ho, rfl⟩) r h4
          exact hw
        frame := by
          intro d hd hnm
          obtain ⟨f1, f2⟩ := (hdv d hd).frame hnm
          refine ⟨f1, f2, fun P hP => ?_⟩
          have hnr : ¬ Root d := fun hr => hnm ((hdv d hd).upd_iff.2 (Or.inl hr))
          exact (((hLok P (hpl _ P hP)).dev d hd hP).2 hnm).2 (fun hdd => hnr (sctx.due_sub d hdd)) }
  · exact
      { started := fun s hsys =>
          (hs.below_ok s hsys (Static.below_master hS.toWF (hS.sys_parent s hsys))).2
        wake_sys := fun s P hsys hP => (hLok P (hpl _ P hP)).sys s hsys hP
        wake_keys := by
          intro L c hk
          by_cases hL : L = "" ∨ S.isSys L = true
          · exact (hLok L hL).keys c hk
          · have h1 : L ≠ "" := fun h => hL (Or.inl h)
            have h2 : S.isSys L = false := by
              cases h : S.isSys L with
              | false => rfl
              | true => exact absurd (Or.inr h) hL
            rw [hfr.sched_dev L h1 h2, hother L h1] at hk
            exact sctx.keys₀ L c hk
        wake_unique := by
          intro L
          by_cases hL : L = "" ∨ S.isSys L = true
          · exact (hLok L hL).unique
          · have h1 : L ≠ "" := fun h => hL (Or.inl h)
            have h2 : S.isSys L = false := by
              cases h : S.isSys L with
              | false => rfl
              | true => exact absurd (Or.inr h) hL
            rw [hfr.sched_dev L h1 h2, hother L h1]
            exact sctx.unique₀ L }

theorem SimSt.delWake_sched_ne (st : SimSt) (cs : List Comp) {L : Comp} (h : L ≠ "") :
    (st.delWake cs).sched L = st.sched L := by
  unfold SimSt.delWake
  simp only []
  rw [SimSt.sched_upsert, if_neg (Ne.symm h)]

theorem SimSt.delWake_sched_master (st : SimSt) (cs : List Comp) :
    ((st.delWake cs).sched "").wake = delWakeups (st.sched "").wake cs := by
  unfold SimSt.delWake
  simp only []
  rw [SimSt.sched_upsert, if_pos rfl]

/-- the completed initial tick satisfies the device-level tick equations with every device a root -/
theorem tick_eqs_initial {S : Static} (hS : S.Valid) {orc : Oracle} {n : Nat} (hst : S.ResolveStable n)
    {fuel : Nat} {t0 : SimTime} {L : Level} (hL : S.level "" = some L) {σ' : SimSt}
    {out : List (Port × V)}
    (ht : tickLevel S orc fuel "" t0 L.wiring.components [] {} = .ok (σ', out)) :
    ∃ new, TickEqs S orc n {} t0 (fun _ => True) (fun _ => True) σ' new ∧ SchedOK S σ' := by
  have hnone : ∀ p, S.resolve n "" pseudoExternal p = none := by
    intro p
    rw [← hst, Static.resolve_succ]
    simp
  have ctx : TickCtx S {} t0 (fun _ => True) :=
    { root_up := fun _ _ _ _ _ => trivial
      roots_sys := by
        intro s Ls _ _ c hc _
        refine ⟨fun _ => trivial, fun _ => ?_⟩
        rw [mem_sunion]; right
        rw [SimSt.sched_empty]
        exact hc }
  have sctx : SchedCtx S {} t0 (fun _ => True) (fun _ => True) :=
    { due_sub := fun _ _ => trivial
      due_up := fun _ _ _ _ _ => trivial
      due_root := fun _ _ _ _ => trivial
      root_due := fun _ _ _ _ => Or.inr rfl
      keys₀ := by intro L c h; simp [SimSt.sched, agetD] at h
      unique₀ := by intro L; simp [SimSt.sched, agetD, UniqueKeys]
      min₀ := fun _ _ _ _ _ => rfl
      started₀ := fun _ _ h => absurd trivial h }
  refine tick_eqs_of hS hst ctx sctx hL ?_ ?_ (fun _ _ => rfl) ht
  · exact
      { hroots := fun c hc _ => ⟨fun _ => trivial, fun _ => hc⟩
        ext_root := fun h => absurd rfl h
        obs_eq := rfl
        fresh_obs := by simp
        fresh_dev := fun _ _ => ⟨rfl, rfl⟩
        fresh_sched := fun _ _ => rfl
        in_nodup := by simp
        in_ok := by
          intro p v
          constructor
          · intro h; simp at h
          · rintro ⟨a₀, p₀, hr, _⟩
            rw [hnone p] at hr; cases hr
        in_dec := by
          intro p a₀ p₀ hr
          rw [hnone p] at hr; cases hr
        d0_out := fun _ h => h.elim }
  · exact
      { hroots := fun c hc _ => ⟨fun _ => trivial, fun _ => hc⟩
        fresh_obs := by simp
        fresh_count := fun _ _ => rfl
        fresh_sched := fun _ _ => rfl
        own_wake := fun _ => ⟨fun _ => rfl, fun h => absurd trivial h⟩
        own_unique := by simp [SimSt.sched, agetD, UniqueKeys]
        own_keys := by intro c h; simp [SimSt.sched, agetD] at h }

/-- a completed callback tick of the master satisfies the device-level tick equations, with the
devices whose own callback is due as roots, and leaves the schedulers' bookkeeping in order -/
theorem tick_eqs {S : Static} (hS : S.Valid) {orc : Oracle} {n : Nat} (hst : S.ResolveStable n)
    {fuel : Nat} {σ₀ : SimSt} (hsch : SchedOK S σ₀) {t : SimTime} {comps : List Comp}
    (hfw : firstWakeups (σ₀.sched "").wake = (comps, some t)) {σ' : SimSt} {out : List (Port × V)}
    (ht : tickLevel S orc fuel "" t comps [] (σ₀.delWake comps) = .ok (σ', out)) :
    ∃ new, TickEqs S orc n σ₀ t (S.DueAt σ₀ t) (S.DueAt σ₀ t) σ' new ∧ SchedOK S σ' := by
  obtain ⟨L, hL, _⟩ := tickLevel_ok_roots ht
  obtain ⟨hL1, hL2⟩ := Static.level_some hL
  have U := hsch.wake_unique
  have K := hsch.wake_keys
  obtain ⟨hcs, hmin, _, _⟩ := firstWakeups_spec _ (U "") comps t hfw
  have hdue : ∀ s c, c ∈ nestedDue (σ₀.sched s).wake t ↔
      ∃ t', alookup (σ₀.sched s).wake c = some t' ∧ t' ≤ t :=
    fun s c => nestedDue_spec _ (U s) t c
  have hnone : ∀ p, S.resolve n "" pseudoExternal p = none := by
    intro p
    rw [← hst, Static.resolve_succ]
    simp
  -- a due entry in scheduler `s` belongs to a component of `s`
  have hdue_root : ∀ s c, c ∈ nestedDue (σ₀.sched s).wake t → S.DueAt σ₀ t c := by
    intro s c h
    obtain ⟨t', hl, hle⟩ := (hdue s c).1 h
    exact ⟨s, t', K s c (mem_akeys_of_alookup_eq_some hl), hl, hle⟩
  have ctx : TickCtx S σ₀ t (S.DueAt σ₀ t) :=
    { root_up := by
        rintro c P hP hPne ⟨P', w, hP', hw, hle⟩
        rw [hP] at hP'; cases hP'
        obtain ⟨_, _, _, hsys⟩ := hS.parent_level c P hP
        have hsysP : S.isSys P = true := by
          rcases hsys with h' | h'
          · exact absurd h' hPne
          · exact h'
        obtain ⟨PP, hPP⟩ := Option.isSome_iff_exists.1 (hS.sys_parent P hsysP)
        have hm := hsch.wake_sys P PP hsysP hPP
        cases hfw' : (firstWakeups (σ₀.sched P).wake).2 with
        | none =>
          rw [firstWakeups_none] at hfw'
          rw [hfw'] at hw
          simp at hw
        | some m =>
          obtain ⟨_, hle'⟩ := system_callback_is_min _ (U P) m hfw'
          rw [hfw'] at hm
          exact ⟨PP, m, hPP, hm, Int.le_trans (hle' c w hw) hle⟩
      roots_sys := by
        intro s Ls hsys hLs c hc hne
        obtain ⟨hfd, hint⟩ := hsch.started s hsys
        obtain ⟨hLs1, hLs2⟩ := Static.level_some hLs
        rw [hfd, hint]
        simp only [if_true, mem_sunion, List.mem_singleton, hne, or_false, List.not_mem_nil, false_or]
        constructor
        · exact hdue_root s c
        · rintro ⟨P, w, hP, hw, hle⟩
          have hps : alookup S.parent c = some s := by
            rcases hS.members Ls hLs1 c hc with h' | ⟨_, h' | h'⟩
            · rw [hLs2] at h'; exact h'
            · exact absurd h' hne
            · rw [h', hS.pseudo_fresh.2.1] at hP; cases hP
          rw [hps] at hP; cases hP
          exact (hdue s c).2 ⟨w, hw, hle⟩ }
  have sctx : SchedCtx S σ₀ t (S.DueAt σ₀ t) (S.DueAt σ₀ t) :=
    { due_sub := fun _ h => h
      due_up := ctx.root_up
      due_root := fun s c _ h => hdue_root s c h
      root_due := by
        rintro s c _ ⟨P, w, hP, hw, hle⟩
        by_cases hPs : P = s
        · subst hPs
          exact Or.inl ((hdue P c).2 ⟨w, hw, hle⟩)
        · right
          cases hl : alookup (σ₀.sched s).wake c with
          | none => rfl
          | some x =>
            have := K s c (mem_akeys_of_alookup_eq_some hl)
            rw [hP] at this; cases this
            exact absurd rfl hPs
      keys₀ := K
      unique₀ := U
      min₀ := fun s P hs hP _ => hsch.wake_sys s P hs hP
      started₀ := fun s hs _ => hsch.started s hs }
  -- the roots of the master are the components with a due entry
  have hroots : ∀ c ∈ L.wiring.components, c ≠ pseudoExternal → (c ∈ comps ↔ S.DueAt σ₀ t c) := by
    intro c hc _
    constructor
    · intro hm
      have hl := (hcs c).1 hm
      exact ⟨"", t, K "" c (mem_akeys_of_alookup_eq_some hl), hl, Int.le_refl _⟩
    · rintro ⟨P, w, hP, hw, hle⟩
      have hp0 : alookup S.parent c = some "" := by
        rcases hS.members L hL1 c hc with h' | ⟨h', _⟩
        · rw [hL2] at h'; exact h'
        · exact absurd hL2 h'
      rw [hp0] at hP; cases hP
      have := hmin c w hw
      have hwt : w = t := Int.le_antisymm hle this
      rw [hwt] at hw
      exact (hcs c).2 hw
  have hbelow_ne : ∀ s, S.Below "" s → s ≠ "" := by
    intro s hb
    cases hb with
    | direct h => exact hS.child_ne_master h
    | step h _ _ => exact hS.child_ne_master h
  have hown_wake : ∀ c, (S.DueAt σ₀ t c → alookup ((σ₀.delWake comps).sched "").wake c = none) ∧
      (¬ S.DueAt σ₀ t c → alookup ((σ₀.delWake comps).sched "").wake c = alookup (σ₀.sched "").wake c) := by
    intro c
    rw [SimSt.delWake_sched_master, delWakeups_lookup _ (U "")]
    constructor
    · rintro ⟨P, w, hP, hw, hle⟩
      by_cases hm : c ∈ comps
      · simp [hm]
      · simp only [hm, if_false]
        cases hl : alookup (σ₀.sched "").wake c with
        | none => rfl
        | some x =>
          exfalso
          have := K "" c (mem_akeys_of_alookup_eq_some hl)
          rw [hP] at this; cases this
          rw [hw] at hl; cases hl
          have hwt : w = t := Int.le_antisymm hle (hmin c w hw)
          rw [hwt] at hw
          exact hm ((hcs c).2 hw)
    · intro hnr
      have hm : c ∉ comps := by
        intro hm
        have hl := (hcs c).1 hm
        exact hnr ⟨"", t, K "" c (mem_akeys_of_alookup_eq_some hl), hl, Int.le_refl _⟩
      simp [hm]
  refine tick_eqs_of hS hst ctx sctx hL ?_ ?_ (fun L' h => σ₀.delWake_sched_ne comps h) ht
  · exact
      { hroots := hroots
        ext_root := fun h => absurd rfl h
        obs_eq := by simp [SimSt.delWake]
        fresh_obs := by simp
        fresh_dev := fun _ _ => ⟨rfl, rfl⟩
        fresh_sched := fun s hb => σ₀.delWake_sched_ne comps (hbelow_ne s hb)
        in_nodup := by simp
        in_ok := by
          intro p v
          constructor
          · intro h; simp at h
          · rintro ⟨a₀, p₀, hr, _⟩
            rw [hnone p] at hr; cases hr
        in_dec := by
          intro p a₀ p₀ hr
          rw [hnone p] at hr; cases hr
        d0_out := fun _ h => h.elim }
  · exact
      { hroots := hroots
        fresh_obs := by simp
        fresh_count := fun _ _ => rfl
        fresh_sched := fun s hb => σ₀.delWake_sched_ne comps (hbelow_ne s hb)
        own_wake := hown_wake
        own_unique := by
          rw [SimSt.delWake_sched_master]
          exact delWakeups_unique _ (U "") _
        own_keys := by
          intro c hk
          have hl := alookup_ne_none_iff.2 hk
          rw [SimSt.delWake_sched_master, delWakeups_lookup _ (U "")] at hl
          split at hl
          · exact absurd rfl hl
          · exact K "" c (alookup_ne_none_iff.1 hl) }

end Tickit
