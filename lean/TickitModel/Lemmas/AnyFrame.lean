/-
Any-order nested tick, part 4: what EVERY execution of a tick of a level satisfies (whatever the
answer orders): it touches only what lies at or below the level, keeps the wakeup maps dicts, and
the exposed output changes form a dict.
-/
import TickitModel.Lemmas.AnyLoc
import TickitModel.Lemmas.FlattenGenLoop

namespace Tickit

/-- unary post-condition of one tick of level `lvl` -/
structure LevelPost1 (S : Static) (lvl : Comp) (st : SimSt) (r : SimSt × List (Port × V)) : Prop where
  /-- only what lies at or below the level is touched -/
  frame : ∀ x, x ≠ lvl → ¬ S.Below lvl x → r.1.loc x = st.loc x
  /-- wakeup maps stay dicts -/
  wf : st.WakeWF → r.1.WakeWF
  /-- the exposed output changes form a dict -/
  nodup : (akeys r.2).Nodup

theorem Static.Valid.sys_ne_master {S : Static} (hS : S.Valid) {c : Comp} (h : S.isSys c = true) :
    c ≠ "" := by
  intro hc
  have := hS.sys_parent c h
  rw [hc, hS.master_fresh] at this
  cases this

/-! ### ticker facts -/

theorem propagate_inputs {w : Wiring} {tk tk' : Ticker V} {src : Comp} {t : SimTime}
    {ch : List (Port × V)} {ds : List (Dispatch V)} (h : tk.propagate w src t ch = .ok (tk', ds)) :
    tk'.inputs = addInputs tk.inputs (w.route src ch) := by
  simp only [Ticker.propagate] at h
  by_cases h1 : (alookup tk.toUpdate src).isNone = true
  · simp [h1] at h
  · simp only [h1, Bool.false_eq_true, if_false] at h
    by_cases h2 : t ≠ tk.time
    · simp [h2] at h
    · simp only [h2, if_false, Ticker.schedule] at h
      cases hr : Ticker.scheduleLoop w
          ({ tk with toUpdate := aerase tk.toUpdate src,
                     inputs := addInputs tk.inputs (w.route src ch) } : Ticker V)
          (aerase tk.toUpdate src) with
      | error e => simp [hr, Except.map] at h
      | ok ds' =>
        simp only [hr, Except.map, Except.ok.injEq] at h
        split at h <;> (cases h; rfl)

/-- the dispatches handed out by one scheduling pass carry dicts and address known components -/
theorem scheduleLoop_facts {w : Wiring} {tk : Ticker V} {l : List (Comp × Bool)}
    {ds : List (Dispatch V)} (hn : ∀ c, (akeys (agetD tk.inputs c [])).Nodup)
    (h : Ticker.scheduleLoop w tk l = .ok ds) :
    ∀ d ∈ ds, Det.InsNodup d ∧ d.comp ∈ w.components := by
  intro d hd
  refine ⟨?_, (sim_scheduleLoop_mem h hd).1⟩
  rw [(scheduleLoop_spec h).1] at hd
  obtain ⟨e, _, rfl⟩ := List.mem_map.1 hd
  exact Det.insNodup_decide hn e.1

theorem propagate_facts {w : Wiring} (hw : RouterOK w) {tk tk' : Ticker V} {src : Comp} {t : SimTime}
    {ch : List (Port × V)} {ds : List (Dispatch V)} (h : tk.propagate w src t ch = .ok (tk', ds))
    (hn : ∀ c, (akeys (agetD tk.inputs c [])).Nodup) :
    (∀ c, (akeys (agetD tk'.inputs c [])).Nodup) ∧
      ∀ d ∈ ds, Det.InsNodup d ∧ d.comp ∈ w.components := by
  have hin := propagate_inputs h
  obtain ⟨_, _, hsl, _, _, _⟩ := sim_propagate_eq_ok h
  have hn' : ∀ c, (akeys (agetD (addInputs tk.inputs (w.route src ch)) c [])).Nodup := by
    intro c
    rw [agetD_addInputs _ (hw.route_wf src ch).1]
    exact nodup_akeys_aupdate (hn c) _
  refine ⟨fun c => by rw [hin]; exact hn' c, ?_⟩
  exact scheduleLoop_facts (tk := tk.afterAnswer w src ch) hn' hsl

theorem call_facts {w : Wiring} {t : SimTime} {roots : List Comp} {tk : Ticker V}
    {ds : List (Dispatch V)} (h : Ticker.call w t roots = .ok (tk, ds)) :
    tk.inputs = [] ∧ ∀ d ∈ ds, Det.InsNodup d ∧ d.comp ∈ w.components := by
  obtain ⟨hs, _, _, _⟩ := sim_call_eq_ok h
  have hin : tk.inputs = [] := by
    simp only [Ticker.call, Ticker.schedule] at h
    rw [hs] at h
    simp only [Except.map, Except.ok.injEq, Prod.mk.injEq] at h
    rw [← h.1]
    rfl
  refine ⟨hin, ?_⟩
  exact scheduleLoop_facts (tk := (Ticker.startTick w t roots : Ticker V))
    (fun c => by simp [Ticker.startTick, agetD]) hs

/-! ### one answer -/

section Answer

variable {S : Static} {orc : Oracle} {inner : LevelRel}

/-- the mock components change nothing -/
theorem AnsP.pseudo_same {L : Level} {inCh : List (Port × V)} {st : SimSt} {d : Dispatch V}
    {res : SimSt × List (Port × V) × Option SimTime} (a : AnsP S orc inner L inCh st d res)
    (hne : L.name ≠ "") (hp : d.comp = pseudoExternal ∨ d.comp = pseudoExpose) : res.1 = st := by
  cases a with
  | skip => rfl
  | external _ => rfl
  | expose _ _ => rfl
  | sys h1 h2 _ _ =>
    simp only [Dispatch.comp] at hp
    rcases hp with rfl | rfl
    · simp [hne] at h1
    · simp [hne] at h2
  | dev h1 h2 _ _ _ =>
    simp only [Dispatch.comp] at hp
    rcases hp with rfl | rfl
    · simp [hne] at h1
    · simp [hne] at h2

/-- an answer touches only what belongs to the addressed component -/
theorem AnsP.frame (hS : S.Valid)
    (hin : ∀ c t ro i s r, inner c t ro i s r → LevelPost1 S c s r)
    {L : Level} {inCh : List (Port × V)} {st : SimSt} {d : Dispatch V}
    {res : SimSt × List (Port × V) × Option SimTime} (a : AnsP S orc inner L inCh st d res)
    {x : Comp} (hx : ¬ S.Own d.comp x) : res.1.loc x = st.loc x := by
  cases a with
  | skip => rfl
  | external _ => rfl
  | expose _ _ => rfl
  | @sys c t ins st2 outCh _ _ h3 h4 =>
    have hcne : c ≠ "" := hS.sys_ne_master h3
    have hxc : x ≠ c := fun h => hx (Or.inl h)
    have hnb : ¬ S.Below c x := fun hb => hx (Or.inr ⟨hcne, hb⟩)
    show st2.loc x = st.loc x
    rw [(hin _ _ _ _ _ _ h4).frame x hxc hnb, loc_sysPre_ne _ _ _ hxc]
  | @dev c t ins resp _ _ _ _ _ =>
    have hxc : x ≠ c := fun h => hx (Or.inl h)
    exact loc_devAfter_ne _ _ _ _ _ hxc

theorem SimSt.WakeWF.sysPre {st : SimSt} (h : st.WakeWF) (c : Comp) (t : SimTime) :
    (sysPre st c t).WakeWF := by
  intro s
  by_cases hs : s = c
  · subst hs
    rw [sched_sysPre_self]
    exact delWakeups_unique' _ (h s) _
  · rw [sched_sysPre_ne _ _ _ hs]
    exact h s

theorem SimSt.WakeWF.anyWake {st : SimSt} (h : st.WakeWF) (lvl c : Comp) (ca : Option SimTime) :
    (anyWake st lvl c ca).WakeWF := by
  intro s
  by_cases hs : s = lvl
  · subst hs
    rw [sched_anyWake_self]
    exact wakeUpd_unique (h s) _ _
  · rw [sched_anyWake_ne _ _ _ _ hs]
    exact h s

theorem AnsP.wf (hin : ∀ c t ro i s r, inner c t ro i s r → LevelPost1 S c s r)
    {L : Level} {inCh : List (Port × V)} {st : SimSt} {d : Dispatch V}
    {res : SimSt × List (Port × V) × Option SimTime} (a : AnsP S orc inner L inCh st d res)
    (h : st.WakeWF) : res.1.WakeWF := by
  cases a with
  | skip => exact h
  | external _ => exact h
  | expose _ _ => exact h
  | sys _ _ _ h4 => exact (hin _ _ _ _ _ _ h4).wf (h.sysPre _ _)
  | dev _ _ _ _ _ => exact fun s => h s

theorem AnsP.nodup (hin : ∀ c t ro i s r, inner c t ro i s r → LevelPost1 S c s r)
    {L : Level} {inCh : List (Port × V)} {st : SimSt} {d : Dispatch V}
    {res : SimSt × List (Port × V) × Option SimTime} (a : AnsP S orc inner L inCh st d res)
    (h : (akeys inCh).Nodup) : (akeys res.2.1).Nodup := by
  cases a with
  | skip => simp
  | external _ => exact h
  | expose _ _ => simp
  | sys _ _ _ h4 => exact (hin _ _ _ _ _ _ h4).nodup
  | dev _ _ _ _ _ =>
    rw [devAfter_changes]
    exact Det.nodup_akeys_filter (Det.nodup_akeys_normDict _) _

/-- the components of a level: its children and (nested levels) the mock components; whatever
belongs to a child lies below the level -/
theorem Static.Valid.comp_cases {S : Static} (hS : S.Valid) {L : Level} (hL : L ∈ S.levels) {c : Comp}
    (hc : c ∈ L.wiring.components) :
    alookup S.parent c = some L.name ∨ (L.name ≠ "" ∧ (c = pseudoExternal ∨ c = pseudoExpose)) :=
  hS.members L hL c hc

end Answer

/-! ### the loop -/

/-- the light invariant of the loop of level `L` whose tick started in `st0` -/
structure Inv1 (S : Static) (L : Level) (st0 : SimSt) (ls : LoopSt) : Prop where
  pend_comp : ∀ d ∈ ls.pending, d.comp ∈ L.wiring.components
  frame : ∀ x, x ≠ L.name → ¬ S.Below L.name x → ls.st.loc x = st0.loc x
  wf : st0.WakeWF → ls.st.WakeWF
  insn : ∀ c, (akeys (agetD ls.tk.inputs c [])).Nodup
  pendn : ∀ d ∈ ls.pending, Det.InsNodup d
  outn : (akeys ls.outCh).Nodup

theorem exposeIns_nodup {L : Level} {d : Dispatch V} (h : Det.InsNodup d) {ins : List (Port × V)}
    (he : exposeIns L d = some ins) : (akeys ins).Nodup := by
  cases d with
  | skip c t => simp [exposeIns] at he
  | input c t i =>
    simp only [exposeIns] at he
    split at he
    · cases he
    · split at he
      · cases he; exact h
      · cases he

theorem Inv1.step {S : Static} (hS : S.Valid) {orc : Oracle} {inner : LevelRel}
    (hin : ∀ c t ro i s r, inner c t ro i s r → LevelPost1 S c s r)
    {L : Level} (hL : L ∈ S.levels) {inCh : List (Port × V)} {st0 : SimSt} {ls : LoopSt}
    (inv : Inv1 S L st0 ls) {i : Nat} {d : Dispatch V} (hd : ls.pending[i]? = some d)
    {st' : SimSt} {changes : List (Port × V)} {callAt : Option SimTime}
    (ha : AnsP S orc inner L inCh ls.st d (st', changes, callAt))
    {tk' : Ticker V} {ds : List (Dispatch V)}
    (hprop : ls.tk.propagate L.wiring d.comp d.time changes = .ok (tk', ds)) :
    Inv1 S L st0 ⟨tk', ls.pending.eraseIdx i ++ ds, (exposeIns L d).getD ls.outCh,
      anyWake st' L.name d.comp callAt⟩ := by
  have hdm : d ∈ ls.pending := List.mem_of_getElem? hd
  have hsub : ∀ d' ∈ ls.pending.eraseIdx i, d' ∈ ls.pending :=
    fun d' h => (List.eraseIdx_sublist _ _).subset h
  obtain ⟨hn', hds⟩ := propagate_facts (hS.routerOK hL) hprop inv.insn
  have hdc := inv.pend_comp d hdm
  exact
    { pend_comp := by
        intro d' hd'
        rcases List.mem_append.1 hd' with h | h
        · exact inv.pend_comp d' (hsub d' h)
        · exact (hds d' h).2
      frame := by
        intro x hx hnb
        show (anyWake st' L.name d.comp callAt).loc x = _
        rw [loc_anyWake_ne _ _ _ _ hx, ← inv.frame x hx hnb]
        rcases hS.comp_cases hL hdc with hpar | ⟨hne, hps⟩
        · exact ha.frame hS hin (fun ho => hnb (ho.below hpar))
        · have := ha.pseudo_same hne hps
          simp only at this
          rw [this]
      wf := fun h => (ha.wf hin (inv.wf h)).anyWake _ _ _
      insn := hn'
      pendn := by
        intro d' hd'
        rcases List.mem_append.1 hd' with h | h
        · exact inv.pendn d' (hsub d' h)
        · exact (hds d' h).1
      outn := by
        show (akeys ((exposeIns L d).getD ls.outCh)).Nodup
        cases he : exposeIns L d with
        | none => exact inv.outn
        | some ins => exact exposeIns_nodup (inv.pendn d hdm) he }

theorem LoopP.post1 {S : Static} (hS : S.Valid) {orc : Oracle} {inner : LevelRel}
    (hin : ∀ c t ro i s r, inner c t ro i s r → LevelPost1 S c s r)
    {L : Level} (hL : L ∈ S.levels) {inCh : List (Port × V)} {st0 : SimSt} {ls : LoopSt}
    {r : SimSt × List (Port × V)} (a : LoopP S orc inner L inCh ls r) (inv : Inv1 S L st0 ls) :
    LevelPost1 S L.name st0 r := by
  induction a with
  | done _ _ => exact ⟨inv.frame, inv.wf, inv.outn⟩
  | step h1 h2 h3 _ ih => exact ih (inv.step hS hin hL h1 h2 h3)

theorem LevelP.post1 {S : Static} (hS : S.Valid) {orc : Oracle} {inner : LevelRel}
    (hin : ∀ c t ro i s r, inner c t ro i s r → LevelPost1 S c s r)
    {lvl : Comp} {t : SimTime} {roots : List Comp} {inCh : List (Port × V)} {st : SimSt}
    {r : SimSt × List (Port × V)} (h : LevelP S orc inner lvl t roots inCh st r) :
    LevelPost1 S lvl st r := by
  obtain ⟨L, tk, ds, hLv, hcall, hl⟩ := h
  obtain ⟨hL, hname⟩ := Static.level_some hLv
  subst hname
  obtain ⟨hin0, hds⟩ := call_facts hcall
  refine hl.post1 hS hin hL ?_
  exact
    { pend_comp := fun d hd => (hds d hd).2
      frame := fun _ _ _ => rfl
      wf := fun h => h
      insn := fun c => by simp [hin0, agetD]
      pendn := fun d hd => (hds d hd).1
      outn := by simp }

/-- **every any-order execution** of a tick of a level touches only what lies at or below the
level, keeps all wakeup maps dicts and exposes a dict of output changes. -/
theorem tickLevelAny_post1 {S : Static} (hS : S.Valid) {orc : Oracle} {lvl : Comp} {t : SimTime}
    {roots : List Comp} {inCh : List (Port × V)} {st : SimSt} {r : SimSt × List (Port × V)}
    (h : TickLevelAny S orc lvl t roots inCh st r) : LevelPost1 S lvl st r := by
  refine TickLevelAny.strong_induct (Q := fun lvl _ _ _ st r => LevelPost1 S lvl st r) ?_ h
  intro lvl t roots inCh st r hl
  exact hl.post1 hS (fun _ _ _ _ _ _ h => h.2)

end Tickit
