/-
Helper lemmas for the whole-simulation model (M5/M7: nested schedulers, `tickLevel`).
-/
import TickitModel.Core.Sim
import TickitModel.Lemmas.TickerLemmas
import TickitModel.Lemmas.RouterBfs

namespace Tickit

/-- a structurally valid configuration tree, as `Static` encodes it -/
structure Static.WF (S : Static) : Prop where
  /-- every component has a parent level which exists, and is a member of its wiring -/
  parent_level : ∀ c p, alookup S.parent c = some p →
    ∃ L, S.level p = some L ∧ c ∈ L.wiring.components ∧ (p = "" ∨ S.isSys p = true)
  /-- the components of a level's wiring are its children and (nested levels) the two mock components -/
  members : ∀ L ∈ S.levels, ∀ c ∈ L.wiring.components,
    alookup S.parent c = some L.name ∨ (L.name ≠ "" ∧ (c = pseudoExternal ∨ c = pseudoExpose))
  /-- every system has a level of its own -/
  sys_level : ∀ c, S.isSys c = true → ∃ L, S.level c = some L ∧ L.name = c
  /-- the mock components are not real components -/
  pseudo_fresh : alookup S.parent pseudoExternal = none ∧ alookup S.parent pseudoExpose = none ∧
    S.isSys pseudoExternal = false ∧ S.isSys pseudoExpose = false
  /-- every system is itself a component somewhere, and nesting is well-founded -/
  sys_parent : ∀ c, S.isSys c = true → (alookup S.parent c).isSome
  nesting : ∃ depth : Comp → Nat, ∀ c p, alookup S.parent c = some p → p ≠ "" → depth p < depth c
  /-- the inverse tree is defined for every component of every level (always true for wirings
  built by `Wiring.fromInverse`; see C16 `ups_isSome_iff`) -/
  ups_defined : ∀ L ∈ S.levels, ∀ c ∈ L.wiring.components, (L.wiring.ups c).isSome

/-- a device: a real component that is not a system -/
def Static.isDevice (S : Static) (c : Comp) : Prop :=
  (alookup S.parent c).isSome ∧ S.isSys c = false

/-- how many times device `c` was updated -/
def SimSt.updates (st : SimSt) (c : Comp) : Nat := (st.obs.filter (fun o => o.comp == c)).length

/-! ### small facts about `Static`, `SimSt` -/

theorem Static.level_some {S : Static} {n : Comp} {L : Level} (h : S.level n = some L) :
    L ∈ S.levels ∧ L.name = n := by
  unfold Static.level at h
  refine ⟨List.mem_of_find?_eq_some h, ?_⟩
  have := List.find?_some h
  simpa using this

theorem sim_agetD_upsert {κ β : Type} [DecidableEq κ] (m : List (κ × β)) (k x : κ) (v d : β) :
    agetD (upsert m k v) x d = if k = x then v else agetD m x d := by
  unfold agetD
  rw [alookup_upsert]
  split <;> rfl

theorem SimSt.sched_upsert (st : SimSt) (k : Comp) (v : SchedSt) (s : Comp) :
    ({ st with scheds := upsert st.scheds k v } : SimSt).sched s = if k = s then v else st.sched s := by
  unfold SimSt.sched
  exact sim_agetD_upsert _ _ _ _ _

theorem SimSt.sched_empty (s : Comp) : (({} : SimSt).sched s).firstDone = false := rfl

/-! ### the nesting order

`S.Below lvl c`: component `c` lies strictly below scheduler level `lvl` (a chain of parents
leads from `c` to `lvl`; no intermediate element of the chain is the master `""`).
`S.Own c x`: `x` is `c` itself or lies below the (non-master) level `c`. -/

inductive Static.Below (S : Static) (lvl : Comp) : Comp → Prop
  | direct {c : Comp} : alookup S.parent c = some lvl → Static.Below S lvl c
  | step {c p : Comp} : alookup S.parent c = some p → p ≠ "" → Static.Below S lvl p →
      Static.Below S lvl c

def Static.Own (S : Static) (c x : Comp) : Prop := x = c ∨ (c ≠ "" ∧ S.Below c x)

theorem Static.Own.refl (S : Static) (c : Comp) : S.Own c c := Or.inl rfl

theorem Static.Below.depth_lt {S : Static} {depth : Comp → Nat}
    (hd : ∀ c p, alookup S.parent c = some p → p ≠ "" → depth p < depth c) {a b : Comp}
    (h : S.Below a b) (ha : a ≠ "") : depth a < depth b := by
  induction h with
  | direct h => exact hd _ _ h ha
  | step h hp _ ih => exact Nat.lt_trans ih (hd _ _ h hp)

theorem Static.Below.irrefl {S : Static} (hS : S.WF) {c : Comp} (hc : c ≠ "") : ¬ S.Below c c := by
  obtain ⟨depth, hd⟩ := hS.nesting
  intro h
  exact Nat.lt_irrefl _ (h.depth_lt hd hc)

theorem Static.Below.exists_child {S : Static} {a b : Comp} (h : S.Below a b) :
    ∃ y, alookup S.parent y = some a := by
  induction h with
  | direct h => exact ⟨_, h⟩
  | step _ _ _ ih => exact ih

/-- only the master and systems have anything below them -/
theorem Static.Below.isSys {S : Static} (hS : S.WF) {a b : Comp} (h : S.Below a b) :
    a = "" ∨ S.isSys a = true := by
  obtain ⟨y, hy⟩ := h.exists_child
  obtain ⟨_, _, _, h'⟩ := hS.parent_level y a hy
  exact h'

/-- parent chains are unique -/
theorem Static.Below.total {S : Static} {a b x : Comp} (ha : S.Below a x) (hb : S.Below b x) :
    a = b ∨ S.Below a b ∨ S.Below b a := by
  induction ha with
  | direct h =>
    cases hb with
    | direct h' => rw [h] at h'; cases h'; exact Or.inl rfl
    | step h' hp hb' => rw [h] at h'; cases h'; exact Or.inr (Or.inr hb')
  | step h hp ha' ih =>
    cases hb with
    | direct h' => rw [h] at h'; cases h'; exact Or.inr (Or.inl ha')
    | step h' hp' hb' => rw [h] at h'; cases h'; exact ih hb'

/-- what lies below a child of `lvl` lies below `lvl` -/
theorem Static.Below.lift {S : Static} {lvl c x : Comp} (hc : alookup S.parent c = some lvl)
    (hne : c ≠ "") (h : S.Below c x) : S.Below lvl x := by
  induction h with
  | direct h => exact .step h hne (.direct hc)
  | step h hp _ ih => exact .step h hp ih

theorem Static.Own.below {S : Static} {lvl c x : Comp} (hc : alookup S.parent c = some lvl)
    (h : S.Own c x) : S.Below lvl x := by
  rcases h with rfl | ⟨hne, h⟩
  · exact .direct hc
  · exact h.lift hc hne

/-- everything below `lvl` belongs to exactly one child of `lvl` -/
theorem Static.Below.top {S : Static} {lvl x : Comp} (h : S.Below lvl x) :
    ∃ c, alookup S.parent c = some lvl ∧ S.Own c x := by
  induction h with
  | direct h => exact ⟨_, h, Or.inl rfl⟩
  | step h hp _ ih =>
    obtain ⟨c, hc, hown⟩ := ih
    refine ⟨c, hc, Or.inr ?_⟩
    rcases hown with rfl | ⟨hne, hb⟩
    · exact ⟨hp, .direct h⟩
    · exact ⟨hne, .step h hp hb⟩

theorem Static.Own.unique {S : Static} (hS : S.WF) {lvl c1 c2 x : Comp}
    (h1 : alookup S.parent c1 = some lvl) (h2 : alookup S.parent c2 = some lvl)
    (o1 : S.Own c1 x) (o2 : S.Own c2 x) : c1 = c2 := by
  obtain ⟨depth, hd⟩ := hS.nesting
  -- a non-master child of `lvl` is not below another child of `lvl`
  have key : ∀ a b, alookup S.parent a = some lvl → alookup S.parent b = some lvl → a ≠ "" →
      ¬ S.Below a b := by
    intro a b ha hb hne hab
    cases hab with
    | direct h =>
      rw [hb] at h; cases h
      exact Nat.lt_irrefl _ (hd _ _ ha hne)
    | step h hp hb' =>
      rw [hb] at h; cases h
      exact Nat.lt_irrefl _ (Nat.lt_trans (hb'.depth_lt hd hne) (hd _ _ ha hp))
  rcases o1 with rfl | ⟨n1, b1⟩
  · rcases o2 with rfl | ⟨n2, b2⟩
    · rfl
    · exact absurd b2 (key _ _ h2 h1 n2)
  · rcases o2 with rfl | ⟨n2, b2⟩
    · exact absurd b1 (key _ _ h1 h2 n1)
    · rcases b1.total b2 with h | h | h
      · exact h
      · exact absurd h (key _ _ h1 h2 n1)
      · exact absurd h (key _ _ h2 h1 n2)

/-- every real component lies below the master -/
theorem Static.below_master {S : Static} (hS : S.WF) {c : Comp} (hc : (alookup S.parent c).isSome) :
    S.Below "" c := by
  obtain ⟨depth, hd⟩ := hS.nesting
  have key : ∀ n c, depth c < n → (alookup S.parent c).isSome → S.Below "" c := by
    intro n
    induction n with
    | zero => intro c h; omega
    | succ n ih =>
      intro c hlt hc
      obtain ⟨p, hp⟩ := Option.isSome_iff_exists.1 hc
      by_cases hpe : p = ""
      · subst hpe; exact .direct hp
      · obtain ⟨_, _, _, hsys⟩ := hS.parent_level c p hp
        rcases hsys with h | h
        · exact absurd h hpe
        · have := hd c p hp hpe
          exact .step hp hpe (ih p (by omega) (hS.sys_parent p h))
  exact key _ c (Nat.lt_succ_self _) hc

end Tickit
