/-
Helper lemmas for the whole-simulation model (M5/M7: nested schedulers, `tickLevel`).
-/
import TickitModel.Core.Sim
import TickitModel.Lemmas.TickerLemmas

namespace Tickit

/-- a structurally valid configuration tree, as `Static` encodes it -/
structure Static.WF (S : Static) : Prop where
  /-- every component has a parent level which exists, and is a member of its wiring -/
  parent_level : ∀ c p, alookup S.parent c = some p →
    ∃ L, S.level p = some L ∧ c ∈ L.wiring.components ∧ (p = "" ∨ S.isSys p = true)
  /-- the components of a level's wiring are its children and (nested levels) the two mock components -/
  members : ∀ L ∈ S.levels, ∀ c ∈ L.wiring.components,
    alookup S.parent c = some L.name ∨ (L.name ≠ "" ∧ (c = pseudoExternal ∨ c = pseudoExpose))
  /-- every system has a level of its own -/
  sys_level : ∀ c, S.isSys c = true → ∃ L, S.level c = some L ∧ L.name = c
  /-- the mock components are not real components -/
  pseudo_fresh : alookup S.parent pseudoExternal = none ∧ alookup S.parent pseudoExpose = none ∧
    S.isSys pseudoExternal = false ∧ S.isSys pseudoExpose = false
  /-- every system is itself a component somewhere, and nesting is well-founded -/
  sys_parent : ∀ c, S.isSys c = true → (alookup S.parent c).isSome
  nesting : ∃ depth : Comp → Nat, ∀ c p, alookup S.parent c = some p → p ≠ "" → depth p < depth c
  /-- the inverse tree is defined for every component of every level (always true for wirings
  built by `Wiring.fromInverse`; see C16 `ups_isSome_iff`) -/
  ups_defined : ∀ L ∈ S.levels, ∀ c ∈ L.wiring.components, (L.wiring.ups c).isSome

/-- a device: a real component that is not a system -/
def Static.isDevice (S : Static) (c : Comp) : Prop :=
  (alookup S.parent c).isSome ∧ S.isSys c = false

/-- how many times device `c` was updated -/
def SimSt.updates (st : SimSt) (c : Comp) : Nat := (st.obs.filter (fun o => o.comp == c)).length

end Tickit
