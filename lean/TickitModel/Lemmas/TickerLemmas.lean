/-
Helper lemmas for M2 (ticker) and the closed tick system.
-/
import TickitModel.Core.TickSys
import TickitModel.Lemmas.DictLemmas

namespace Tickit

/-- the wiring is acyclic: a rank strictly increasing along first-order dependencies. -/
def Wiring.Acyclic (w : Wiring) : Prop :=
  ∃ rank : Comp → Nat, ∀ c us u, w.ups c = some us → u ∈ us → rank u < rank c

end Tickit
