/-
Helper lemmas for M2 (ticker) and the closed tick system.
-/
import TickitModel.Core.TickSys
import TickitModel.Lemmas.DictLemmas

namespace Tickit

/-- the wiring is acyclic: a rank strictly increasing along first-order dependencies. -/
def Wiring.Acyclic (w : Wiring) : Prop :=
  ∃ rank : Comp → Nat, ∀ c us u, w.ups c = some us → u ∈ us → rank u < rank c

variable {Val : Type}

/-! ### `markDispatched` -/

@[simp] theorem akeys_markDispatched (tu : List (Comp × Bool)) (cs : List Comp) :
    akeys (markDispatched tu cs) = akeys tu := by
  induction tu with
  | nil => rfl
  | cons e tu ih =>
    simp only [markDispatched, List.map_cons, akeys_cons] at *
    rw [ih]; split <;> rfl

@[simp] theorem length_markDispatched (tu : List (Comp × Bool)) (cs : List Comp) :
    (markDispatched tu cs).length = tu.length := by simp [markDispatched]

theorem markDispatched_eq_nil {tu : List (Comp × Bool)} {cs : List Comp} :
    markDispatched tu cs = [] ↔ tu = [] := by simp [markDispatched]

theorem alookup_markDispatched (tu : List (Comp × Bool)) (cs : List Comp) (c : Comp) :
    alookup (markDispatched tu cs) c = (alookup tu c).map (fun b => b || decide (c ∈ cs)) := by
  induction tu with
  | nil => rfl
  | cons e tu ih =>
    obtain ⟨k, v⟩ := e
    simp only [markDispatched, List.map_cons] at *
    by_cases hk : k = c
    · subst hk
      by_cases hm : k ∈ cs <;> simp [hm, alookup_cons]
    · by_cases hm : k ∈ cs <;> simp [hm, alookup_cons, hk, ih]

theorem alookup_markDispatched_eq_none {tu : List (Comp × Bool)} {cs : List Comp} {c : Comp} :
    alookup (markDispatched tu cs) c = none ↔ alookup tu c = none := by
  simp [alookup_markDispatched]

theorem alookup_markDispatched_eq_true {tu : List (Comp × Bool)} {cs : List Comp} {c : Comp} :
    alookup (markDispatched tu cs) c = some true ↔
      alookup tu c = some true ∨ (alookup tu c = some false ∧ c ∈ cs) := by
  rw [alookup_markDispatched]
  cases h : alookup tu c with
  | none => simp
  | some b => cases b <;> simp

theorem alookup_markDispatched_eq_false {tu : List (Comp × Bool)} {cs : List Comp} {c : Comp} :
    alookup (markDispatched tu cs) c = some false ↔ alookup tu c = some false ∧ c ∉ cs := by
  rw [alookup_markDispatched]
  cases h : alookup tu c with
  | none => simp
  | some b => cases b <;> simp

/-! ### `startTick` -/

/-- a fresh `to_update`: unique keys, nothing dispatched. -/
def FreshTU (tu : List (Comp × Bool)) : Prop :=
  (akeys tu).Nodup ∧ ∀ c, alookup tu c ≠ some true

theorem FreshTU.upsert {tu : List (Comp × Bool)} (h : FreshTU tu) (c : Comp) :
    FreshTU (upsert tu c false) := by
  refine ⟨nodup_akeys_upsert h.1 c false, fun x => ?_⟩
  rw [alookup_upsert]
  split
  · simp
  · exact h.2 x

theorem FreshTU.foldl_upsert {tu : List (Comp × Bool)} (h : FreshTU tu) (cs : List Comp) :
    FreshTU (cs.foldl (fun acc c => Tickit.upsert acc c false) tu) := by
  induction cs generalizing tu with
  | nil => exact h
  | cons c cs ih => exact ih (h.upsert c)

theorem startTick_toUpdate (w : Wiring) (t : SimTime) (roots : List Comp) :
    akeys (Ticker.startTick w t roots : Ticker Val).toUpdate = extent w roots := rfl

theorem startTick_fresh (w : Wiring) (t : SimTime) (roots : List Comp) :
    FreshTU (Ticker.startTick w t roots : Ticker Val).toUpdate := by
  simp only [Ticker.startTick]
  suffices h : ∀ (rs : List Comp) (tu : List (Comp × Bool)), FreshTU tu →
      FreshTU (rs.foldl (fun acc r => (w.dependants r).foldl (fun acc c => upsert acc c false) acc) tu) from
    h roots [] ⟨by simp, by simp⟩
  intro rs
  induction rs with
  | nil => exact fun _ h => h
  | cons r rs ih => exact fun tu h => ih _ (h.foldl_upsert _)

/-! ### `scheduleLoop` -/

@[simp] theorem Ticker.decide_comp (tk : Ticker Val) (c : Comp) : (tk.decide c).comp = c := by
  unfold Ticker.decide; simp only []; split <;> rfl

@[simp] theorem Ticker.decide_time (tk : Ticker Val) (c : Comp) : (tk.decide c).time = tk.time := by
  unfold Ticker.decide; simp only []; split <;> rfl

theorem Ticker.blocked_eq_false {tk : Ticker Val} {us : List Comp} :
    tk.blocked us = false ↔ ∀ u ∈ us, alookup tk.toUpdate u = none := by
  simp [Ticker.blocked]

theorem Ticker.blocked_eq_true {tk : Ticker Val} {us : List Comp} :
    tk.blocked us = true ↔ ∃ u ∈ us, alookup tk.toUpdate u ≠ none := by
  simp [Ticker.blocked, Option.isSome_iff_ne_none]

/-- the selection made by one pass of `schedule_possible_updates`. -/
def Ticker.selects (w : Wiring) (tk : Ticker Val) (e : Comp × Bool) : Bool :=
  !e.2 && !tk.blocked ((w.ups e.1).getD [])

theorem scheduleLoop_spec {w : Wiring} {tk : Ticker Val} {l : List (Comp × Bool)}
    {ds : List (Dispatch Val)} (h : Ticker.scheduleLoop w tk l = .ok ds) :
    ds = (l.filter (tk.selects w)).map (fun e => tk.decide e.1) ∧
      ∀ e ∈ l, e.2 = false → (w.ups e.1).isSome = true := by
  induction l generalizing ds with
  | nil =>
    simp only [Ticker.scheduleLoop] at h
    cases h; simp
  | cons e l ih =>
    obtain ⟨c, flag⟩ := e
    simp only [Ticker.scheduleLoop] at h
    cases flag with
    | true =>
      simp only [if_true] at h
      obtain ⟨h1, h2⟩ := ih h
      refine ⟨?_, ?_⟩
      · simp [Ticker.selects, ← h1]
      · intro e he hf
        rcases List.mem_cons.1 he with rfl | he
        · simp at hf
        · exact h2 e he hf
    | false =>
      simp only [Bool.false_eq_true, if_false] at h
      cases hu : w.ups c with
      | none => simp [hu] at h
      | some ups =>
        simp only [hu] at h
        cases hb : tk.blocked ups with
        | true =>
          simp only [hb, if_true] at h
          obtain ⟨h1, h2⟩ := ih h
          refine ⟨?_, ?_⟩
          · simp [Ticker.selects, hu, hb, ← h1]
          · intro e he hf
            rcases List.mem_cons.1 he with rfl | he
            · simp [hu]
            · exact h2 e he hf
        | false =>
          simp only [hb, Bool.false_eq_true, if_false] at h
          cases hr : Ticker.scheduleLoop w tk l with
          | error err => simp [hr, Except.map] at h
          | ok ds' =>
            simp only [hr, Except.map, Except.ok.injEq] at h
            obtain ⟨h1, h2⟩ := ih hr
            refine ⟨?_, ?_⟩
            · simp [Ticker.selects, hu, hb, ← h1, ← h]
            · intro e he hf
              rcases List.mem_cons.1 he with rfl | he
              · simp [hu]
              · exact h2 e he hf

theorem scheduleLoop_ok {w : Wiring} (tk : Ticker Val) {l : List (Comp × Bool)}
    (h : ∀ e ∈ l, e.2 = false → (w.ups e.1).isSome = true) :
    ∃ ds, Ticker.scheduleLoop w tk l = .ok ds := by
  induction l with
  | nil => exact ⟨[], rfl⟩
  | cons e l ih =>
    obtain ⟨c, flag⟩ := e
    obtain ⟨ds, hds⟩ := ih (fun e he => h e (List.mem_cons_of_mem _ he))
    simp only [Ticker.scheduleLoop]
    cases flag with
    | true => exact ⟨ds, by simpa using hds⟩
    | false =>
      have := h (c, false) (by simp) rfl
      obtain ⟨ups, hu⟩ := Option.isSome_iff_exists.1 this
      simp only [Bool.false_eq_true, if_false, hu, hds]
      split
      · exact ⟨_, rfl⟩
      · exact ⟨_, rfl⟩

/-- components selected by one scheduling pass. -/
theorem scheduleLoop_comps {w : Wiring} {tk : Ticker Val} {l : List (Comp × Bool)}
    {ds : List (Dispatch Val)} (h : Ticker.scheduleLoop w tk l = .ok ds) :
    ds.map Dispatch.comp = (l.filter (tk.selects w)).map (·.1) := by
  rw [(scheduleLoop_spec h).1, List.map_map]
  apply List.map_congr_left
  intro e _; simp

theorem nodup_scheduleLoop_comps {w : Wiring} {tk : Ticker Val} {l : List (Comp × Bool)}
    {ds : List (Dispatch Val)} (hn : (akeys l).Nodup) (h : Ticker.scheduleLoop w tk l = .ok ds) :
    (ds.map Dispatch.comp).Nodup := by
  rw [scheduleLoop_comps h]
  exact List.Sublist.nodup (List.Sublist.map _ List.filter_sublist) hn

theorem mem_scheduleLoop_comps {w : Wiring} {tk : Ticker Val} {l : List (Comp × Bool)}
    {ds : List (Dispatch Val)} (hn : (akeys l).Nodup) (h : Ticker.scheduleLoop w tk l = .ok ds)
    {c : Comp} :
    c ∈ ds.map Dispatch.comp ↔
      alookup l c = some false ∧ ∃ us, w.ups c = some us ∧ ∀ u ∈ us, alookup tk.toUpdate u = none := by
  rw [scheduleLoop_comps h]
  have h2 := (scheduleLoop_spec h).2
  constructor
  · intro hc
    obtain ⟨e, he, rfl⟩ := List.mem_map.1 hc
    obtain ⟨he, hsel⟩ := List.mem_filter.1 he
    obtain ⟨c, b⟩ := e
    simp only [Ticker.selects, Bool.and_eq_true, Bool.not_eq_true'] at hsel
    obtain ⟨hb, hbl⟩ := hsel
    subst hb
    obtain ⟨us, hus⟩ := Option.isSome_iff_exists.1 (h2 _ he rfl)
    refine ⟨alookup_eq_some_of_mem hn he, us, hus, ?_⟩
    simp only [hus, Option.getD_some] at hbl
    exact Ticker.blocked_eq_false.1 hbl
  · rintro ⟨hl, us, hus, hall⟩
    refine List.mem_map.2 ⟨(c, false), List.mem_filter.2 ⟨mem_of_alookup_eq_some hl, ?_⟩, rfl⟩
    simp only [Ticker.selects, Bool.not_false, Bool.true_and, hus, Option.getD_some,
      Bool.not_eq_true']
    exact Ticker.blocked_eq_false.2 hall

theorem time_of_mem_scheduleLoop {w : Wiring} {tk : Ticker Val} {l : List (Comp × Bool)}
    {ds : List (Dispatch Val)} (h : Ticker.scheduleLoop w tk l = .ok ds) {d : Dispatch Val}
    (hd : d ∈ ds) : d.time = tk.time := by
  rw [(scheduleLoop_spec h).1] at hd
  obtain ⟨e, _, rfl⟩ := List.mem_map.1 hd
  simp

/-! ### traces -/

theorem append_eq_append_cons {α : Type} {l1 l2 pre post : List α} {x : α}
    (h : l1 ++ l2 = pre ++ x :: post) :
    (∃ post', l1 = pre ++ x :: post' ∧ post = post' ++ l2) ∨
      (∃ pre', pre = l1 ++ pre' ∧ l2 = pre' ++ x :: post) := by
  rcases List.append_eq_append_iff.1 h with ⟨as, h1, h2⟩ | ⟨bs, h1, h2⟩
  · exact Or.inr ⟨as, h1, h2⟩
  · cases bs with
    | nil =>
      refine Or.inr ⟨[], by simpa using h1.symm, by simpa using h2.symm⟩
    | cons b bs =>
      simp only [List.cons_append, List.cons.injEq] at h2
      obtain ⟨rfl, rfl⟩ := h2
      exact Or.inl ⟨bs, h1, rfl⟩

theorem getElem?_split {α : Type} {l : List α} {i : Nat} {d : α} (h : l[i]? = some d) :
    ∃ p1 p2, l = p1 ++ d :: p2 ∧ l.eraseIdx i = p1 ++ p2 := by
  induction l generalizing i with
  | nil => simp at h
  | cons a l ih =>
    cases i with
    | zero =>
      simp at h; subst h
      exact ⟨[], l, rfl, rfl⟩
    | succ i =>
      simp at h
      obtain ⟨p1, p2, h1, h2⟩ := ih h
      exact ⟨a :: p1, p2, by simp [h1], by simp [h2]⟩

theorem filter_isDispatchOf_eq_nil {tr : List (Ev Val)} {c : Comp}
    (h : ∀ d, Ev.dispatch d ∈ tr → d.comp ≠ c) : tr.filter (Ev.isDispatchOf c) = [] := by
  rw [List.filter_eq_nil_iff]
  intro e he
  cases e with
  | dispatch d => simpa [Ev.isDispatchOf] using h d he
  | answer c' ch => simp [Ev.isDispatchOf]

theorem filter_isAnswerOf_eq_nil {tr : List (Ev Val)} {c : Comp}
    (h : ∀ ch, Ev.answer c ch ∉ tr) : tr.filter (Ev.isAnswerOf c) = [] := by
  rw [List.filter_eq_nil_iff]
  intro e he
  cases e with
  | dispatch d => simp [Ev.isAnswerOf]
  | answer c' ch =>
    simp only [Ev.isAnswerOf, beq_iff_eq]
    intro hc; subst hc; exact h ch he

theorem one_le_filter_isDispatchOf {tr : List (Ev Val)} {d : Dispatch Val}
    (h : Ev.dispatch d ∈ tr) : 1 ≤ (tr.filter (Ev.isDispatchOf d.comp)).length :=
  List.length_pos_of_mem (List.mem_filter.2 ⟨h, by simp [Ev.isDispatchOf]⟩)

theorem filter_isAnswerOf_map_dispatch (ds : List (Dispatch Val)) (c : Comp) :
    (ds.map Ev.dispatch).filter (Ev.isAnswerOf c) = [] := by
  apply filter_isAnswerOf_eq_nil
  intro ch h
  simp at h

theorem filter_isDispatchOf_map_dispatch_of_not_mem {ds : List (Dispatch Val)} {c : Comp}
    (h : c ∉ ds.map Dispatch.comp) : (ds.map Ev.dispatch).filter (Ev.isDispatchOf c) = [] := by
  apply filter_isDispatchOf_eq_nil
  intro d hd hc
  simp only [List.mem_map, Ev.dispatch.injEq, exists_eq_right] at hd
  exact h (List.mem_map.2 ⟨d, hd, hc⟩)

theorem length_filter_isDispatchOf_map_dispatch {ds : List (Dispatch Val)}
    (hn : (ds.map Dispatch.comp).Nodup) (c : Comp) :
    ((ds.map Ev.dispatch).filter (Ev.isDispatchOf c)).length ≤ 1 := by
  induction ds with
  | nil => simp
  | cons d ds ih =>
    simp only [List.map_cons, List.nodup_cons] at hn
    simp only [List.map_cons, List.filter_cons]
    by_cases hc : d.comp = c
    · subst hc
      simp [Ev.isDispatchOf, filter_isDispatchOf_map_dispatch_of_not_mem hn.1]
    · simpa [Ev.isDispatchOf, hc] using ih hn.2

/-! ### the tick invariant -/

/-- The part of the tick invariant that relates `to_update`, the pending dispatches and the
trace; it also holds in the intermediate state between "answer removed from `to_update`" and
the following `schedule_possible_updates`. -/
structure PreInv (w : Wiring) (t : SimTime) (roots : List Comp) (tu : List (Comp × Bool))
    (pending : List (Dispatch Val)) (trace : List (Ev Val)) : Prop where
  /-- `to_update` is a dict -/
  nodup : (akeys tu).Nodup
  /-- pending ↔ flagged -/
  pend_flag : ∀ c, (∃ d ∈ pending, d.comp = c) ↔ alookup tu c = some true
  pend_nodup : (pending.map Dispatch.comp).Nodup
  pend_trace : ∀ d ∈ pending, Ev.dispatch d ∈ trace
  /-- gate: a flagged component has no unresolved upstream -/
  gate : ∀ c, alookup tu c = some true → ∀ us, w.ups c = some us → ∀ u ∈ us, alookup tu u = none
  keys_ext : ∀ c, alookup tu c ≠ none → c ∈ extent w roots
  /-- resolved = answered -/
  resolved : ∀ c ∈ extent w roots, (alookup tu c = none ↔ ∃ ch, Ev.answer c ch ∈ trace)
  disp_ext : ∀ d, Ev.dispatch d ∈ trace → d.comp ∈ extent w roots ∧ d.time = t
  /-- whatever was dispatched is flagged or resolved -/
  disp_flag : ∀ d, Ev.dispatch d ∈ trace → alookup tu d.comp ≠ some false
  /-- at every dispatch all in-extent upstreams have answered -/
  order : ∀ pre d post, trace = pre ++ Ev.dispatch d :: post → ∀ us, w.ups d.comp = some us →
    ∀ u ∈ us, u ∈ extent w roots → ∃ ch, Ev.answer u ch ∈ pre
  count : ∀ c, (trace.filter (Ev.isDispatchOf c)).length ≤ 1 ∧
    (trace.filter (Ev.isAnswerOf c)).length ≤ (trace.filter (Ev.isDispatchOf c)).length

/-- post-schedule completeness: every unflagged member of `to_update` is blocked. -/
def Complete (w : Wiring) (tu : List (Comp × Bool)) : Prop :=
  ∀ c, alookup tu c = some false → ∃ us, w.ups c = some us ∧ ∃ u ∈ us, alookup tu u ≠ none

theorem PreInv.start (w : Wiring) (t : SimTime) (roots : List Comp) :
    PreInv (Val := Val) w t roots (Ticker.startTick w t roots : Ticker Val).toUpdate [] [] := by
  have hf := startTick_fresh (Val := Val) w t roots
  have hk := startTick_toUpdate (Val := Val) w t roots
  exact
    { nodup := hf.1
      pend_flag := fun c => ⟨by simp, fun h => absurd h (hf.2 c)⟩
      pend_nodup := by simp
      pend_trace := by simp
      gate := fun c h => absurd h (hf.2 c)
      keys_ext := fun c h => hk ▸ alookup_ne_none_iff.1 h
      resolved := fun c hc => ⟨fun h => absurd (hk ▸ hc) (alookup_eq_none_iff.1 h), by simp⟩
      disp_ext := by simp
      disp_flag := by simp
      order := by simp
      count := by simp }

theorem PreInv.answer {w : Wiring} {t : SimTime} {roots : List Comp} {tu : List (Comp × Bool)}
    {pending : List (Dispatch Val)} {trace : List (Ev Val)} (h : PreInv w t roots tu pending trace)
    {i : Nat} {d : Dispatch Val} (hd : pending[i]? = some d) (ch : List (Port × Val)) :
    PreInv w t roots (aerase tu d.comp) (pending.eraseIdx i) (trace ++ [Ev.answer d.comp ch]) := by
  obtain ⟨p1, p2, hp, he⟩ := getElem?_split hd
  rw [he]
  have hdm : d ∈ pending := by rw [hp]; simp
  have h0 : alookup tu d.comp = some true := (h.pend_flag _).1 ⟨d, hdm, rfl⟩
  have hnd := h.pend_nodup
  rw [hp] at hnd
  simp only [List.map_append, List.map_cons, List.nodup_append, List.nodup_cons] at hnd
  obtain ⟨n1, ⟨na, n2⟩, ndis⟩ := hnd
  have hnd1 : d.comp ∉ (p1 ++ p2).map Dispatch.comp := by
    rw [List.map_append, List.mem_append]
    rintro (hm | hm)
    · exact ndis _ hm _ (List.mem_cons_self) rfl
    · exact na hm
  have hnd2 : ((p1 ++ p2).map Dispatch.comp).Nodup := by
    rw [List.map_append, List.nodup_append]
    exact ⟨n1, n2, fun a ha b hb => ndis a ha b (List.mem_cons_of_mem _ hb)⟩
  have hsub : ∀ d' ∈ p1 ++ p2, d' ∈ pending := by
    rw [hp]; intro d' h'
    simp only [List.mem_append, List.mem_cons] at h' ⊢
    rcases h' with h' | h'
    · exact Or.inl h'
    · exact Or.inr (Or.inr h')
  have hmem : ∀ d' ∈ pending, d' = d ∨ d' ∈ p1 ++ p2 := by
    rw [hp]; intro d' h'
    simp only [List.mem_append, List.mem_cons] at h' ⊢
    rcases h' with h' | h' | h'
    · exact Or.inr (Or.inl h')
    · exact Or.inl h'
    · exact Or.inr (Or.inr h')
  exact
    { nodup := nodup_akeys_aerase h.nodup _
      pend_flag := by
        intro c
        rw [alookup_aerase h.nodup]
        by_cases hc : c = d.comp
        · subst hc
          simp only [if_true]
          constructor
          · rintro ⟨d', hd', hc'⟩
            exact absurd (List.mem_map.2 ⟨d', hd', hc'⟩) hnd1
          · intro h'; cases h'
        · simp only [hc, if_false]
          rw [← h.pend_flag c]
          constructor
          · rintro ⟨d', hd', hc'⟩; exact ⟨d', hsub d' hd', hc'⟩
          · rintro ⟨d', hd', hc'⟩
            rcases hmem d' hd' with rfl | hm
            · exact absurd hc'.symm hc
            · exact ⟨d', hm, hc'⟩
      pend_nodup := hnd2
      pend_trace := fun d' hd' => List.mem_append_left _ (h.pend_trace d' (hsub d' hd'))
      gate := by
        intro c hc us hus u hu
        rw [alookup_aerase h.nodup] at hc
        split at hc
        · cases hc
        · exact alookup_aerase_eq_none (h.gate c hc us hus u hu)
      keys_ext := fun c hc => h.keys_ext c (fun hn => hc (alookup_aerase_eq_none hn))
      resolved := by
        intro c hc
        rw [alookup_aerase h.nodup]
        by_cases hcd : c = d.comp
        · subst hcd
          simp only [if_true, true_iff]
          exact ⟨ch, by simp⟩
        · simp only [hcd, if_false]
          rw [h.resolved c hc]
          constructor
          · rintro ⟨ch', h'⟩; exact ⟨ch', List.mem_append_left _ h'⟩
          · rintro ⟨ch', h'⟩
            simp only [List.mem_append, List.mem_singleton, Ev.answer.injEq] at h'
            rcases h' with h' | ⟨h1, _⟩
            · exact ⟨ch', h'⟩
            · exact absurd h1 hcd
      disp_ext := by
        intro d' hd'
        simp only [List.mem_append, List.mem_singleton, reduceCtorEq, or_false] at hd'
        exact h.disp_ext d' hd'
      disp_flag := by
        intro d' hd'
        simp only [List.mem_append, List.mem_singleton, reduceCtorEq, or_false] at hd'
        rw [alookup_aerase h.nodup]
        split
        · simp
        · exact h.disp_flag d' hd'
      order := by
        intro pre d' post htr us hus u hu hue
        rcases append_eq_append_cons htr with ⟨post', h1, _⟩ | ⟨pre', _, h2⟩
        · exact h.order pre d' post' h1 us hus u hu hue
        · cases pre' <;> simp at h2
      count := by
        intro c
        have hc := h.count c
        simp only [List.filter_append, List.length_append]
        by_cases hcd : d.comp = c
        · subst hcd
          have hans : trace.filter (Ev.isAnswerOf d.comp) = [] :=
            filter_isAnswerOf_eq_nil (fun ch' hm => by
              have := (h.resolved d.comp (h.keys_ext _ (by rw [h0]; simp))).2 ⟨ch', hm⟩
              rw [h0] at this; cases this)
          have hdis := one_le_filter_isDispatchOf (h.pend_trace d hdm)
          simp [Ev.isDispatchOf, Ev.isAnswerOf, hans]
          omega
        · simpa [Ev.isDispatchOf, Ev.isAnswerOf, hcd] using hc }

theorem PreInv.schedule {w : Wiring} {t : SimTime} {roots : List Comp} {tk : Ticker Val}
    {pending : List (Dispatch Val)} {trace : List (Ev Val)} {ds : List (Dispatch Val)}
    (h : PreInv w t roots tk.toUpdate pending trace) (ht : tk.time = t)
    (hs : Ticker.scheduleLoop w tk tk.toUpdate = .ok ds) :
    PreInv w t roots (markDispatched tk.toUpdate (ds.map Dispatch.comp)) (pending ++ ds)
        (trace ++ ds.map Ev.dispatch) ∧
      Complete w (markDispatched tk.toUpdate (ds.map Dispatch.comp)) := by
  have hmem : ∀ {c : Comp}, c ∈ ds.map Dispatch.comp ↔
      alookup tk.toUpdate c = some false ∧
        ∃ us, w.ups c = some us ∧ ∀ u ∈ us, alookup tk.toUpdate u = none :=
    mem_scheduleLoop_comps h.nodup hs
  have hnd := nodup_scheduleLoop_comps h.nodup hs
  refine ⟨?_, ?_⟩
  · exact
    { nodup := by simpa using h.nodup
      pend_flag := by
        intro c
        rw [alookup_markDispatched_eq_true]
        constructor
        · rintro ⟨d, hd, rfl⟩
          rcases List.mem_append.1 hd with hd | hd
          · exact Or.inl ((h.pend_flag _).1 ⟨d, hd, rfl⟩)
          · have hc : d.comp ∈ ds.map Dispatch.comp := List.mem_map.2 ⟨d, hd, rfl⟩
            exact Or.inr ⟨(hmem.1 hc).1, hc⟩
        · rintro (hc | ⟨_, hc⟩)
          · obtain ⟨d, hd, hdc⟩ := (h.pend_flag c).2 hc
            exact ⟨d, List.mem_append_left _ hd, hdc⟩
          · obtain ⟨d, hd, hdc⟩ := List.mem_map.1 hc
            exact ⟨d, List.mem_append_right _ hd, hdc⟩
      pend_nodup := by
        rw [List.map_append, List.nodup_append]
        refine ⟨h.pend_nodup, hnd, ?_⟩
        intro a ha b hb hab
        subst hab
        obtain ⟨d, hd, rfl⟩ := List.mem_map.1 ha
        have h1 := (h.pend_flag _).1 ⟨d, hd, rfl⟩
        have h2 := (hmem.1 hb).1
        rw [h1] at h2
        simp at h2
      pend_trace := by
        intro d hd
        rcases List.mem_append.1 hd with hd | hd
        · exact List.mem_append_left _ (h.pend_trace d hd)
        · exact List.mem_append_right _ (List.mem_map.2 ⟨d, hd, rfl⟩)
      gate := by
        intro c hc us hus u hu
        rw [alookup_markDispatched_eq_none]
        rcases alookup_markDispatched_eq_true.1 hc with hc | ⟨_, hc⟩
        · exact h.gate c hc us hus u hu
        · obtain ⟨_, us', hus', hall⟩ := hmem.1 hc
          rw [hus] at hus'; cases hus'
          exact hall u hu
      keys_ext := fun c hc => h.keys_ext c (fun hn => hc (alookup_markDispatched_eq_none.2 hn))
      resolved := by
        intro c hc
        rw [alookup_markDispatched_eq_none, h.resolved c hc]
        constructor
        · rintro ⟨ch, hm⟩; exact ⟨ch, List.mem_append_left _ hm⟩
        · rintro ⟨ch, hm⟩
          simp only [List.mem_append, List.mem_map, reduceCtorEq, and_false, exists_false,
            or_false] at hm
          exact ⟨ch, hm⟩
      disp_ext := by
        intro d hd
        rcases List.mem_append.1 hd with hd | hd
        · exact h.disp_ext d hd
        · simp only [List.mem_map, Ev.dispatch.injEq, exists_eq_right] at hd
          have hc : d.comp ∈ ds.map Dispatch.comp := List.mem_map.2 ⟨d, hd, rfl⟩
          exact ⟨h.keys_ext _ (by rw [(hmem.1 hc).1]; simp),
            (time_of_mem_scheduleLoop hs hd).trans ht⟩
      disp_flag := by
        intro d hd
        rw [Ne, alookup_markDispatched_eq_false]
        rintro ⟨hf, hnm⟩
        rcases List.mem_append.1 hd with hd | hd
        · exact h.disp_flag d hd hf
        · simp only [List.mem_map, Ev.dispatch.injEq, exists_eq_right] at hd
          exact hnm (List.mem_map.2 ⟨d, hd, rfl⟩)
      order := by
        intro pre d post htr us hus u hu hue
        rcases append_eq_append_cons htr with ⟨post', h1, _⟩ | ⟨pre', h1, h2⟩
        · exact h.order _ _ _ h1 us hus u hu hue
        · have hd : d ∈ ds := by
            have : Ev.dispatch d ∈ ds.map Ev.dispatch := by rw [h2]; simp
            simpa using this
          obtain ⟨_, us', hus', hall⟩ := hmem.1 (List.mem_map.2 ⟨d, hd, rfl⟩)
          rw [hus] at hus'; cases hus'
          obtain ⟨ch, hch⟩ := (h.resolved u hue).1 (hall u hu)
          exact ⟨ch, by rw [h1]; exact List.mem_append_left _ hch⟩
      count := by
        intro c
        obtain ⟨hc1, hc2⟩ := h.count c
        simp only [List.filter_append, List.length_append, filter_isAnswerOf_map_dispatch,
          List.length_nil, Nat.add_zero]
        by_cases hc : c ∈ ds.map Dispatch.comp
        · have h0 : trace.filter (Ev.isDispatchOf c) = [] :=
            filter_isDispatchOf_eq_nil (fun d hd hdc => h.disp_flag d hd (hdc ▸ (hmem.1 hc).1))
          have h1 := length_filter_isDispatchOf_map_dispatch hnd c
          rw [h0] at hc2 ⊢
          simp only [List.length_nil, Nat.le_zero_eq] at hc2
          simp only [List.length_nil, hc2]
          omega
        · rw [filter_isDispatchOf_map_dispatch_of_not_mem hc]
          simpa using ⟨hc1, hc2⟩ }
  · intro c hc
    obtain ⟨hf, hnm⟩ := alookup_markDispatched_eq_false.1 hc
    obtain ⟨us, hus⟩ := Option.isSome_iff_exists.1
      ((scheduleLoop_spec hs).2 (c, false) (mem_of_alookup_eq_some hf) rfl)
    refine ⟨us, hus, ?_⟩
    apply Classical.byContradiction
    intro hno
    apply hnm
    apply hmem.2
    refine ⟨hf, us, hus, fun u hu => ?_⟩
    apply Classical.byContradiction
    intro hne
    exact hno ⟨u, hu, fun h' => hne (alookup_markDispatched_eq_none.1 h')⟩

/-! ### the closed system: decomposition of `init` and `step` -/

/-- the ticker state inside `propagate` after the answer of `src` has been taken in and
before `schedule_possible_updates` runs. -/
def Ticker.afterAnswer (w : Wiring) (tk : Ticker Val) (src : Comp) (changes : List (Port × Val)) :
    Ticker Val :=
  { tk with toUpdate := aerase tk.toUpdate src, inputs := addInputs tk.inputs (w.route src changes) }

theorem TickSys.init_eq_ok {w : Wiring} {t : SimTime} {roots : List Comp} {s : TickSys Val}
    (h : TickSys.init w t roots = .ok s) :
    ∃ ds, Ticker.scheduleLoop w (Ticker.startTick w t roots : Ticker Val)
        (Ticker.startTick w t roots : Ticker Val).toUpdate = .ok ds ∧
      s.tk.toUpdate = markDispatched (Ticker.startTick w t roots : Ticker Val).toUpdate
        (ds.map Dispatch.comp) ∧
      s.tk.time = t ∧ s.tk.finished = false ∧ s.pending = ds ∧ s.trace = ds.map Ev.dispatch := by
  simp only [TickSys.init, Ticker.call, Ticker.schedule] at h
  cases hr : Ticker.scheduleLoop w (Ticker.startTick w t roots : Ticker Val)
      (Ticker.startTick w t roots : Ticker Val).toUpdate with
  | error e => simp [hr, Except.map] at h
  | ok ds =>
    simp only [hr, Except.map, Except.ok.injEq] at h
    subst h
    exact ⟨ds, rfl, rfl, rfl, rfl, rfl, rfl⟩

theorem TickSys.step_eq_ok {w : Wiring} {react : React Val} {s s' : TickSys Val} {i : Nat}
    (h : s.step w react i = some (.ok s')) :
    ∃ d ds, s.pending[i]? = some d ∧ alookup s.tk.toUpdate d.comp ≠ none ∧ d.time = s.tk.time ∧
      Ticker.scheduleLoop w (s.tk.afterAnswer w d.comp (answerOf react d))
        (aerase s.tk.toUpdate d.comp) = .ok ds ∧
      s'.tk.toUpdate = markDispatched (aerase s.tk.toUpdate d.comp) (ds.map Dispatch.comp) ∧
      s'.tk.time = s.tk.time ∧
      (s'.tk.finished = true ↔ s'.tk.toUpdate = [] ∨ s.tk.finished = true) ∧
      s'.pending = s.pending.eraseIdx i ++ ds ∧
      s'.trace = s.trace ++ [Ev.answer d.comp (answerOf react d)] ++ ds.map Ev.dispatch := by
  simp only [TickSys.step] at h
  cases hd : s.pending[i]? with
  | none => simp [hd] at h
  | some d =>
    simp only [hd, Option.some.injEq, Ticker.propagate] at h
    refine ⟨d, ?_⟩
    by_cases h1 : (alookup s.tk.toUpdate d.comp).isNone = true
    · simp [h1, Except.map] at h
    · simp only [h1, Bool.false_eq_true, if_false] at h
      by_cases h2 : d.time ≠ s.tk.time
      · simp [h2, Except.map] at h
      · simp only [h2, if_false, Ticker.schedule] at h
        cases hr : Ticker.scheduleLoop w (s.tk.afterAnswer w d.comp (answerOf react d))
            (aerase s.tk.toUpdate d.comp) with
        | error e =>
          simp only [Ticker.afterAnswer] at hr
          simp [hr, Except.map] at h
        | ok ds =>
          simp only [Ticker.afterAnswer] at hr
          simp only [hr, Except.map, Except.ok.injEq] at h
          subst h
          refine ⟨ds, rfl, ?_, ?_, rfl, ?_, ?_, ?_, ?_, ?_⟩
          · simpa using h1
          · simpa using h2
          · dsimp only; split <;> rfl
          · dsimp only; split <;> rfl
          · dsimp only
            split
            · rename_i he; simp at he; simp [he]
            · rename_i he; simp at he; simp [he]
          · dsimp only; split <;> rfl
          · dsimp only; split <;> rfl

/-- **The tick invariant** of the closed system. -/
structure TickInv (w : Wiring) (t : SimTime) (roots : List Comp) (s : TickSys Val) : Prop where
  pre : PreInv w t roots s.tk.toUpdate s.pending s.trace
  complete : Complete w s.tk.toUpdate
  time : s.tk.time = t
  fin : s.tk.finished = true → s.tk.toUpdate = []

theorem TickInv.init {w : Wiring} {t : SimTime} {roots : List Comp} {s : TickSys Val}
    (h : TickSys.init w t roots = .ok s) : TickInv w t roots s := by
  obtain ⟨ds, hs, htu, ht, hfin, hp, htr⟩ := TickSys.init_eq_ok h
  have := (PreInv.start (Val := Val) w t roots).schedule rfl hs
  refine ⟨?_, ?_, ht, by simp [hfin]⟩
  · rw [htu, hp, htr]; simpa using this.1
  · rw [htu]; exact this.2

theorem TickInv.step {w : Wiring} {react : React Val} {t : SimTime} {roots : List Comp}
    {s s' : TickSys Val} {i : Nat} (hs : TickInv w t roots s)
    (h : s.step w react i = some (.ok s')) : TickInv w t roots s' := by
  obtain ⟨d, ds, hd, hne, hdt, hsl, htu, ht, hfin, hp, htr⟩ := TickSys.step_eq_ok h
  have := PreInv.schedule (tk := s.tk.afterAnswer w d.comp (answerOf react d))
    (hs.pre.answer hd (answerOf react d)) hs.time hsl
  refine ⟨?_, ?_, ht.trans hs.time, ?_⟩
  · rw [htu, hp, htr]; exact this.1
  · rw [htu]; exact this.2
  · intro hf
    rcases hfin.1 hf with h' | h'
    · exact h'
    · have := hs.fin h'
      rw [this] at hne
      simp at hne

theorem TickSys.Reachable.inv {w : Wiring} {react : React Val} {t : SimTime} {roots : List Comp}
    {s : TickSys Val} (hs : s.Reachable w react t roots) : TickInv w t roots s := by
  induction hs with
  | init h => exact TickInv.init h
  | step _ h ih => exact ih.step h

/-! ### no failure, progress, measure -/

theorem TickSys.init_ok_of {w : Wiring} (t : SimTime) {roots : List Comp}
    (hroots : ∀ c ∈ extent w roots, (w.ups c).isSome) :
    ∃ s : TickSys Val, TickSys.init w t roots = .ok s := by
  obtain ⟨ds, hds⟩ := scheduleLoop_ok (w := w) (Ticker.startTick w t roots : Ticker Val)
    (l := (Ticker.startTick w t roots : Ticker Val).toUpdate)
    (fun e he _ => hroots e.1 (startTick_toUpdate (Val := Val) w t roots ▸ mem_akeys_of_mem he))
  simp only [TickSys.init, Ticker.call, Ticker.schedule, hds, Except.map]
  exact ⟨_, rfl⟩

theorem TickInv.step_ok {w : Wiring} {react : React Val} {t : SimTime} {roots : List Comp}
    (hroots : ∀ c ∈ extent w roots, (w.ups c).isSome)
    {s : TickSys Val} (hs : TickInv w t roots s) {i : Nat} (hi : i < s.pending.length) :
    ∃ s', s.step w react i = some (.ok s') := by
  have hd : s.pending[i]? = some s.pending[i] := List.getElem?_eq_getElem hi
  generalize s.pending[i] = d at hd
  have hdm : d ∈ s.pending := List.mem_of_getElem? hd
  have h0 : alookup s.tk.toUpdate d.comp = some true := (hs.pre.pend_flag _).1 ⟨d, hdm, rfl⟩
  have htime : d.time = s.tk.time :=
    (hs.pre.disp_ext d (hs.pre.pend_trace d hdm)).2.trans hs.time.symm
  obtain ⟨ds, hds⟩ := scheduleLoop_ok (w := w) (s.tk.afterAnswer w d.comp (answerOf react d))
    (l := aerase s.tk.toUpdate d.comp)
    (fun e he _ => hroots e.1 (hs.pre.keys_ext e.1 (alookup_ne_none_iff.2
      (mem_akeys_of_mem_akeys_aerase (mem_akeys_of_mem he)))))
  simp only [Ticker.afterAnswer] at hds
  simp only [TickSys.step, hd, Ticker.propagate, h0, Option.isNone_some, Bool.false_eq_true,
    if_false, htime, ne_eq, not_true_eq_false, Ticker.schedule, hds, Except.map]
  exact ⟨_, rfl⟩

theorem TickInv.progress {w : Wiring} (hacyc : w.Acyclic) {t : SimTime} {roots : List Comp}
    {s : TickSys Val} (hs : TickInv w t roots s) (hne : s.tk.toUpdate ≠ []) : s.pending ≠ [] := by
  obtain ⟨rank, hr⟩ := hacyc
  have key : ∀ n c, rank c < n → alookup s.tk.toUpdate c ≠ none → s.pending ≠ [] := by
    intro n
    induction n with
    | zero => intro c hc; omega
    | succ n ih =>
      intro c hc hcne
      cases hl : alookup s.tk.toUpdate c with
      | none => exact absurd hl hcne
      | some b =>
        cases b with
        | true =>
          obtain ⟨d, hd, _⟩ := (hs.pre.pend_flag c).2 hl
          exact List.ne_nil_of_mem hd
        | false =>
          obtain ⟨us, hus, u, hu, hune⟩ := hs.complete c hl
          have := hr c us u hus hu
          exact ih u (by omega) hune
  cases htu : s.tk.toUpdate with
  | nil => exact absurd htu hne
  | cons e rest =>
    refine key (rank e.1 + 1) e.1 (Nat.lt_succ_self _) ?_
    rw [htu, alookup_ne_none_iff]; simp

theorem TickSys.step_measure' {w : Wiring} {react : React Val} {s s' : TickSys Val} {i : Nat}
    (h : s.step w react i = some (.ok s')) :
    s'.tk.toUpdate.length + 1 = s.tk.toUpdate.length := by
  obtain ⟨d, ds, _, hne, _, _, htu, _⟩ := TickSys.step_eq_ok h
  rw [htu, length_markDispatched]
  exact length_aerase (alookup_ne_none_iff.1 hne)

theorem TickInv.finished_iff {w : Wiring} {react : React Val} {t : SimTime} {roots : List Comp}
    {s s' : TickSys Val} {i : Nat} (hs : TickInv w t roots s)
    (h : s.step w react i = some (.ok s')) :
    s'.tk.finished = true ↔ s'.tk.toUpdate = [] := by
  obtain ⟨d, ds, _, hne, _, _, _, _, hfin, _⟩ := TickSys.step_eq_ok h
  rw [hfin]
  constructor
  · rintro (h' | h')
    · exact h'
    · have := hs.fin h'
      rw [this] at hne
      simp at hne
  · exact Or.inl

end Tickit
