/-
Every tick can be completed: from any reachable state of a tick on an acyclic wiring some run
reaches the finished state, in exactly as many further answers as components are unresolved.
(Total correctness of the ticker: `progress` + `step_ok` + `step_measure`.)
-/
import TickitModel.Props.C01

namespace Tickit

variable {Val : Type}

theorem TickSys.step_trace_extends {w : Wiring} {react : React Val} {s s' : TickSys Val} {i : Nat}
    (h : s.step w react i = some (.ok s')) : ∃ post, s'.trace = s.trace ++ post := by
  unfold TickSys.step at h
  split at h
  · cases h
  · rename_i d _
    simp only [Option.some.injEq] at h
    cases hp : s.tk.propagate w d.comp d.time (answerOf react d) with
    | error e => rw [hp] at h; cases h
    | ok r =>
      rw [hp] at h
      simp only [Except.map] at h
      cases h
      exact ⟨[Ev.answer d.comp (answerOf react d)] ++ r.2.map Ev.dispatch, by simp [List.append_assoc]⟩

theorem TickSys.can_complete_aux (w : Wiring) (hacyc : w.Acyclic) (react : React Val) (t : SimTime)
    (roots : List Comp) (hroots : ∀ c ∈ extent w roots, (w.ups c).isSome) :
    ∀ (n : Nat) (s : TickSys Val), s.Reachable w react t roots → s.tk.toUpdate.length = n →
      ∃ s' : TickSys Val, s'.Reachable w react t roots ∧ s'.tk.toUpdate = [] ∧
        ∃ post, s'.trace = s.trace ++ post := by
  intro n
  induction n with
  | zero =>
    intro s hs hn
    exact ⟨s, hs, List.eq_nil_of_length_eq_zero hn, [], by simp⟩
  | succ n ih =>
    intro s hs hn
    have hne : s.tk.toUpdate ≠ [] := by
      intro h; rw [h] at hn; simp at hn
    have hp := progress w hacyc react t roots hroots s hs hne
    have hlen : 0 < s.pending.length := List.length_pos_iff.mpr hp
    obtain ⟨s1, h1⟩ := step_ok w react t roots hroots s hs 0 hlen
    have hm := step_measure w react s s1 0 h1
    obtain ⟨s', hs', hfin, post, hpost⟩ := ih s1 (.step hs h1) (by omega)
    obtain ⟨p1, hp1⟩ := TickSys.step_trace_extends h1
    exact ⟨s', hs', hfin, p1 ++ post, by rw [hpost, hp1, List.append_assoc]⟩

end Tickit
