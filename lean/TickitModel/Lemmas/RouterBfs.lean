/-
Helper lemmas for M1: the fuelled BFS `bfs` and `Wiring.dependants`.
-/
import TickitModel.Lemmas.RouterTree

namespace Tickit

/-! ## counting -/

theorem length_filter_le_of_imp {α : Type} (p q : α → Bool) (h : ∀ x, p x = true → q x = true)
    (l : List α) : (l.filter p).length ≤ (l.filter q).length := by
  induction l with
  | nil => simp
  | cons x l ih =>
    simp only [List.filter_cons]
    cases hp : p x
    · cases hq : q x
      · simpa using ih
      · simp only [Bool.false_eq_true, if_false, if_true, List.length_cons]
        omega
    · have hq := h x hp
      simp only [hq, if_true, List.length_cons]
      omega

theorem length_filter_lt_of_imp {α : Type} (p q : α → Bool) (h : ∀ x, p x = true → q x = true)
    (l : List α) (d : α) (hd : d ∈ l) (hqd : q d = true) (hpd : p d = false) :
    (l.filter p).length < (l.filter q).length := by
  induction l with
  | nil => simp at hd
  | cons x l ih =>
    simp only [List.filter_cons]
    rcases List.mem_cons.1 hd with rfl | hd
    · have := length_filter_le_of_imp p q h l
      simp only [hpd, hqd, Bool.false_eq_true, if_false, if_true, List.length_cons]
      omega
    · have := ih hd
      cases hp : p x
      · cases hq : q x
        · simpa using this
        · simp only [Bool.false_eq_true, if_false, if_true, List.length_cons]
          omega
      · have hq := h x hp
        simp only [hq, if_true, List.length_cons]
        omega

/-- visiting a fresh node of the universe shrinks the set of unvisited nodes. -/
theorem unvisited_lt (U vis : List Comp) (d : Comp) (hd : d ∈ U) (hv : d ∉ vis) :
    (U.filter (fun x => decide (x ∉ vis ++ [d]))).length <
      (U.filter (fun x => decide (x ∉ vis))).length := by
  apply length_filter_lt_of_imp _ _ _ U d hd
  · simpa using hv
  · simp
  · intro x hx
    simp only [List.mem_append, List.mem_singleton, not_or, decide_eq_true_eq] at hx ⊢
    exact hx.1

/-! ## the BFS loop -/

theorem bfs_zero (children : Comp → Option (List Comp)) (q vis : List Comp) :
    bfs children 0 q vis = vis := by
  simp [bfs]

theorem bfs_nil (children : Comp → Option (List Comp)) (fuel : Nat) (vis : List Comp) :
    bfs children fuel [] vis = vis := by
  cases fuel <;> simp [bfs]

theorem bfs_cons (children : Comp → Option (List Comp)) (fuel : Nat) (d : Comp) (q vis : List Comp) :
    bfs children (fuel + 1) (d :: q) vis =
      if d ∈ vis then bfs children fuel q vis
      else match children d with
        | some ch => bfs children fuel (q ++ ch.filter (fun x => decide (x ∉ vis ++ [d]))) (vis ++ [d])
        | none => bfs children fuel q (vis ++ [d]) := by
  simp only [bfs]
  congr

theorem nodup_snoc {vis : List Comp} {d : Comp} (h : vis.Nodup) (hd : d ∉ vis) : (vis ++ [d]).Nodup := by
  rw [List.nodup_append]
  refine ⟨h, by simp, ?_⟩
  intro a ha b hb
  simp only [List.mem_singleton] at hb
  subst hb
  rintro rfl
  exact hd ha

theorem bfs_nodup (children : Comp → Option (List Comp)) (fuel : Nat) :
    ∀ (q vis : List Comp), vis.Nodup → (bfs children fuel q vis).Nodup := by
  induction fuel with
  | zero => intro q vis h; rw [bfs_zero]; exact h
  | succ n ih =>
    intro q vis h
    cases q with
    | nil => rw [bfs_nil]; exact h
    | cons d q =>
      rw [bfs_cons]
      by_cases hd : d ∈ vis
      · simp only [hd, if_true]
        exact ih _ _ h
      · simp only [hd, if_false]
        cases children d with
        | none => exact ih _ _ (nodup_snoc h hd)
        | some ch => exact ih _ _ (nodup_snoc h hd)

/-- soundness: everything the BFS returns satisfies any property that holds of the start
states and is preserved by `children`. -/
theorem bfs_sound (children : Comp → Option (List Comp)) (P : Comp → Prop)
    (hch : ∀ d ch, P d → children d = some ch → ∀ b ∈ ch, P b) (fuel : Nat) :
    ∀ (q vis : List Comp), (∀ x ∈ q, P x) → (∀ x ∈ vis, P x) →
      ∀ x ∈ bfs children fuel q vis, P x := by
  induction fuel with
  | zero => intro q vis _ hv; rw [bfs_zero]; exact hv
  | succ n ih =>
    intro q vis hq hv
    cases q with
    | nil => rw [bfs_nil]; exact hv
    | cons d q =>
      have hPd : P d := hq d List.mem_cons_self
      have hq' : ∀ x ∈ q, P x := fun x hx => hq x (List.mem_cons_of_mem _ hx)
      have hv' : ∀ x ∈ vis ++ [d], P x := by
        intro x hx
        rcases List.mem_append.1 hx with hx | hx
        · exact hv x hx
        · rw [List.mem_singleton] at hx
          exact hx ▸ hPd
      rw [bfs_cons]
      by_cases hd : d ∈ vis
      · simp only [hd, if_true]
        exact ih _ _ hq' hv
      · simp only [hd, if_false]
        cases hc : children d with
        | none => exact ih _ _ hq' hv'
        | some ch =>
          refine ih _ _ ?_ hv'
          intro x hx
          rcases List.mem_append.1 hx with hx | hx
          · exact hq' x hx
          · exact hch d ch hPd hc x (List.mem_filter.1 hx).1

/-- completeness: with enough fuel the result contains the start states and is closed under
the edge relation `E` described by `children`. -/
theorem bfs_closed (children : Comp → Option (List Comp)) (E : Comp → Comp → Prop)
    (U : List Comp) (n : Nat)
    (hE : ∀ d b, E d b → ∃ ch, children d = some ch ∧ b ∈ ch)
    (hU : ∀ d ch, children d = some ch → (∀ b ∈ ch, b ∈ U) ∧ ch.length ≤ n) (fuel : Nat) :
    ∀ (q vis : List Comp), (∀ x ∈ q, x ∈ U) →
      (U.filter (fun x => decide (x ∉ vis))).length * (n + 1) + q.length ≤ fuel →
      (∀ d ∈ vis, ∀ b, E d b → b ∈ vis ∨ b ∈ q) →
      (∀ x ∈ vis, x ∈ bfs children fuel q vis) ∧ (∀ x ∈ q, x ∈ bfs children fuel q vis) ∧
        (∀ d ∈ bfs children fuel q vis, ∀ b, E d b → b ∈ bfs children fuel q vis) := by
  induction fuel with
  | zero =>
    intro q vis _ hf hcl
    have hq : q = [] := by
      cases q with
      | nil => rfl
      | cons d q => simp at hf
    subst hq
    rw [bfs_zero]
    refine ⟨fun x hx => hx, by simp, ?_⟩
    intro d hd b hb
    simpa using hcl d hd b hb
  | succ f ih =>
    intro q vis hqU hf hcl
    cases q with
    | nil =>
      rw [bfs_nil]
      refine ⟨fun x hx => hx, by simp, ?_⟩
      intro d hd b hb
      simpa using hcl d hd b hb
    | cons d q =>
      have hdU : d ∈ U := hqU d List.mem_cons_self
      have hqU' : ∀ x ∈ q, x ∈ U := fun x hx => hqU x (List.mem_cons_of_mem _ hx)
      simp only [List.length_cons] at hf
      rw [bfs_cons]
      by_cases hd : d ∈ vis
      · simp only [hd, if_true]
        have hcl' : ∀ d' ∈ vis, ∀ b, E d' b → b ∈ vis ∨ b ∈ q := by
          intro d' hd' b hb
          rcases hcl d' hd' b hb with h | h
          · exact Or.inl h
          · rcases List.mem_cons.1 h with rfl | h
            · exact Or.inl hd
            · exact Or.inr h
        obtain ⟨h1, h2, h3⟩ := ih q vis hqU' (by omega) hcl'
        refine ⟨h1, ?_, h3⟩
        intro x hx
        rcases List.mem_cons.1 hx with rfl | hx
        · exact h1 _ hd
        · exact h2 x hx
      · simp only [hd, if_false]
        have hlt := unvisited_lt U vis d hdU hd
        have hmul : ((U.filter (fun x => decide (x ∉ vis ++ [d]))).length + 1) * (n + 1) ≤
            (U.filter (fun x => decide (x ∉ vis))).length * (n + 1) :=
          Nat.mul_le_mul_right _ hlt
        rw [Nat.succ_mul] at hmul
        cases hc : children d with
        | none =>
          simp only
          have hcl' : ∀ d' ∈ vis ++ [d], ∀ b, E d' b → b ∈ vis ++ [d] ∨ b ∈ q := by
            intro d' hd' b hb
            rcases List.mem_append.1 hd' with hd' | hd'
            · rcases hcl d' hd' b hb with h | h
              · exact Or.inl (List.mem_append_left _ h)
              · rcases List.mem_cons.1 h with rfl | h
                · exact Or.inl (by simp)
                · exact Or.inr h
            · rw [List.mem_singleton] at hd'
              subst hd'
              obtain ⟨ch, hch, _⟩ := hE _ b hb
              rw [hc] at hch
              cases hch
          obtain ⟨h1, h2, h3⟩ := ih q (vis ++ [d]) hqU' (by omega) hcl'
          refine ⟨fun x hx => h1 x (List.mem_append_left _ hx), ?_, h3⟩
          intro x hx
          rcases List.mem_cons.1 hx with rfl | hx
          · exact h1 _ (by simp)
          · exact h2 x hx
        | some ch =>
          simp only
          obtain ⟨hchU, hchn⟩ := hU d ch hc
          have hlen : (ch.filter (fun x => decide (x ∉ vis ++ [d]))).length ≤ n :=
            Nat.le_trans (List.length_filter_le _ _) hchn
          have hqU'' : ∀ x ∈ q ++ ch.filter (fun x => decide (x ∉ vis ++ [d])), x ∈ U := by
            intro x hx
            rcases List.mem_append.1 hx with hx | hx
            · exact hqU' x hx
            · exact hchU x (List.mem_filter.1 hx).1
          have hcl' : ∀ d' ∈ vis ++ [d], ∀ b, E d' b →
              b ∈ vis ++ [d] ∨ b ∈ q ++ ch.filter (fun x => decide (x ∉ vis ++ [d])) := by
            intro d' hd' b hb
            rcases List.mem_append.1 hd' with hd' | hd'
            · rcases hcl d' hd' b hb with h | h
              · exact Or.inl (List.mem_append_left _ h)
              · rcases List.mem_cons.1 h with rfl | h
                · exact Or.inl (by simp)
                · exact Or.inr (List.mem_append_left _ h)
            · rw [List.mem_singleton] at hd'
              subst hd'
              obtain ⟨ch', hch', hb'⟩ := hE _ b hb
              rw [hc] at hch'
              cases hch'
              by_cases hbv : b ∈ vis ++ [d']
              · exact Or.inl hbv
              · refine Or.inr (List.mem_append_right _ (List.mem_filter.2 ⟨hb', ?_⟩))
                simpa using hbv
          obtain ⟨h1, h2, h3⟩ := ih _ (vis ++ [d]) hqU''
            (by rw [List.length_append]; omega) hcl'
          refine ⟨fun x hx => h1 x (List.mem_append_left _ hx), ?_, h3⟩
          intro x hx
          rcases List.mem_cons.1 hx with rfl | hx
          · exact h1 _ (by simp)
          · exact h2 x (List.mem_append_left _ hx)

/-! ## `Wiring.dependants` -/

theorem Wiring.dependants_nodup' (w : Wiring) (r : Comp) : (w.dependants r).Nodup :=
  bfs_nodup _ _ _ _ List.nodup_nil

/-- soundness of `dependants`, phrased without mentioning reachability. -/
theorem Wiring.dependants_sound {w : Wiring} (h : w.WF) (r : Comp) (P : Comp → Prop) (hr : P r)
    (hstep : ∀ a b, P a → w.Edge a b → P b) : ∀ c ∈ w.dependants r, P c := by
  unfold Wiring.dependants
  apply bfs_sound w.children P
  · intro d ch hPd hch b hb
    exact hstep d b hPd ((Wiring.mem_children_iff' h hch b).1 hb)
  · intro x hx
    rw [List.mem_singleton] at hx
    exact hx ▸ hr
  · simp

/-- completeness of `dependants`: contains the root and is closed under edges. -/
theorem Wiring.dependants_closed (w : Wiring) (r : Comp) :
    r ∈ w.dependants r ∧ ∀ d ∈ w.dependants r, ∀ b, w.Edge d b → b ∈ w.dependants r := by
  unfold Wiring.dependants
  have hU : ∀ d ch, w.children d = some ch →
      (∀ b ∈ ch, b ∈ r :: (akeys w ++ w.inputComponents)) ∧
        ch.length ≤ (akeys w).length + w.inputComponents.length + 1 := by
    intro d ch hch
    have hsub := Wiring.children_subset_inputs hch
    refine ⟨fun b hb => List.mem_cons_of_mem _ (List.mem_append_right _ (hsub b hb)), ?_⟩
    have := List.Nodup.length_le_of_subset (Wiring.children_nodup hch) hsub
    omega
  have hfuel : ((r :: (akeys w ++ w.inputComponents)).filter (fun x => decide (x ∉ ([] : List Comp)))).length *
      ((akeys w).length + w.inputComponents.length + 1 + 1) + [r].length ≤ w.bfsFuel := by
    have h1 : ((r :: (akeys w ++ w.inputComponents)).filter
        (fun x => decide (x ∉ ([] : List Comp)))).length ≤
        (akeys w).length + w.inputComponents.length + 1 := by
      refine Nat.le_trans (List.length_filter_le _ _) ?_
      simp only [List.length_cons, List.length_append]
      omega
    have h2 := Nat.mul_le_mul_right ((akeys w).length + w.inputComponents.length + 1 + 1) h1
    simp only [Wiring.bfsFuel, List.length_singleton]
    omega
  obtain ⟨_, h2, h3⟩ := bfs_closed w.children w.Edge (r :: (akeys w ++ w.inputComponents))
    ((akeys w).length + w.inputComponents.length + 1)
    (fun d b he => Wiring.children_of_edge he) hU w.bfsFuel [r] []
    (by intro x hx; rw [List.mem_singleton] at hx; subst hx; exact List.mem_cons_self)
    hfuel (by simp)
  exact ⟨h2 r (List.mem_singleton.2 rfl), h3⟩

end Tickit
