/-
Helper lemmas for the configuration codec and for "the internal bus refines the contract".
-/
import TickitModel.Core.ConfigCodec
import TickitModel.Core.Contract
import TickitModel.Lemmas.BusLemmas
import TickitModel.Lemmas.ContractLemmas

namespace Tickit

/-! ## Part 1: the configuration codec -/

theorem alookup_append_of_not_mem {κ β : Type} [DecidableEq κ] (m m' : List (κ × β)) (k : κ)
    (h : k ∉ akeys m) : alookup (m ++ m') k = alookup m' k := by
  induction m with
  | nil => rfl
  | cons e m ih =>
    obtain ⟨k', v⟩ := e
    simp only [akeys_cons, List.mem_cons, not_or] at h
    rw [List.cons_append, alookup_cons, if_neg (Ne.symm h.1), ih h.2]

theorem decPort_encPort (cp : CPort) : decPort (encPort cp) = some cp := by
  obtain ⟨c, p⟩ := cp
  simp [decPort, encPort, alookup]

theorem decInputs_map (inputs : List (Port × CPort)) :
    decInputs (inputs.map (fun e => (e.1, encPort e.2))) = some inputs := by
  induction inputs with
  | nil => rfl
  | cons e inputs ih =>
    obtain ⟨q, cp⟩ := e
    simp [decInputs, decPort_encPort, ih]

/-- the encoded fields are found in the item list -/
theorem alookup_encFields (fields : List (String × Int)) (rest : List (String × Data))
    (hnd : (fields.map (·.1)).Nodup) (f : String × Int) (hf : f ∈ fields) :
    alookup (fields.map (fun f => (f.1, Data.int f.2)) ++ rest) f.1 = some (.int f.2) := by
  induction fields with
  | nil => cases hf
  | cons g fields ih =>
    simp only [List.map_cons, List.nodup_cons] at hnd
    rw [List.map_cons, List.cons_append, alookup_cons]
    rcases List.mem_cons.mp hf with rfl | hf'
    · simp
    · have hne : g.1 ≠ f.1 := fun e => hnd.1 (e ▸ List.mem_map.mpr ⟨f, hf', rfl⟩)
      rw [if_neg hne]
      exact ih hnd.2 hf'

theorem decFields_map (items : List (String × Data)) (fs : List (String × Int))
    (h : ∀ f ∈ fs, alookup items f.1 = some (.int f.2)) :
    decFields items (fs.map (·.1)) = some fs := by
  induction fs with
  | nil => rfl
  | cons f fs ih =>
    rw [List.map_cons, decFields, h f (by simp), ih (fun g hg => h g (by simp [hg]))]

/-- the item list written by `Entry.encode` -/
def encItems (tag : String) (name : Comp) (inputs : List (Port × CPort)) (fields : List (String × Int))
    (kids : List Data) : List (String × Data) :=
  [("type", .str tag), ("name", .str name),
   ("inputs", .dict (inputs.map (fun e => (e.1, encPort e.2))))] ++
  fields.map (fun f => (f.1, Data.int f.2)) ++ [("components", .list kids)]

theorem Entry.encode_mk (tag name inputs fields children) :
    (Entry.mk tag name inputs fields children).encode =
      .dict (encItems tag name inputs fields (encodeAll children)) := by
  rw [Entry.encode]; rfl

theorem encItems_type (tag name inputs fields kids) :
    alookup (encItems tag name inputs fields kids) "type" = some (.str tag) := by
  simp [encItems, alookup]

theorem encItems_name (tag name inputs fields kids) :
    alookup (encItems tag name inputs fields kids) "name" = some (.str name) := by
  simp [encItems, alookup]

theorem encItems_inputs (tag name inputs fields kids) :
    alookup (encItems tag name inputs fields kids) "inputs" =
      some (.dict (inputs.map (fun e => (e.1, encPort e.2)))) := by
  simp [encItems, alookup]

theorem encItems_components (tag name inputs fields kids)
    (hres : ∀ f ∈ fields, f.1 ∉ reserved) :
    alookup (encItems tag name inputs fields kids) "components" = some (.list kids) := by
  have hnm : "components" ∉ akeys (fields.map (fun f => (f.1, Data.int f.2))) := by
    intro hm
    simp only [akeys, List.map_map, List.mem_map, Function.comp] at hm
    obtain ⟨f, hf, he⟩ := hm
    exact hres f hf (by rw [he]; decide)
  simp only [encItems, List.cons_append, List.nil_append, alookup_cons]
  rw [if_neg (by decide), if_neg (by decide), if_neg (by decide), alookup_append_of_not_mem _ _ _ hnm,
    alookup_cons, if_pos rfl]

theorem encItems_field (tag name inputs fields kids)
    (hnd : (fields.map (·.1)).Nodup) (hres : ∀ f ∈ fields, f.1 ∉ reserved) (f : String × Int)
    (hf : f ∈ fields) :
    alookup (encItems tag name inputs fields kids) f.1 = some (.int f.2) := by
  have hr := hres f hf
  simp only [reserved, List.mem_cons, List.not_mem_nil, or_false, not_or] at hr
  simp only [encItems, List.cons_append, List.nil_append, alookup_cons]
  rw [if_neg (Ne.symm hr.1), if_neg (Ne.symm hr.2.1), if_neg (Ne.symm hr.2.2.1)]
  exact alookup_encFields fields _ hnd f hf

theorem decode_encItems_succ (reg : List ClassSig) (fuel : Nat) (tag name inputs fields)
    (children : List Entry) (cls : ClassSig) (hd : dispatch reg tag = some cls)
    (hfs : fields.map (·.1) = cls.fields) (hnd : (fields.map (·.1)).Nodup)
    (hres : ∀ f ∈ fields, f.1 ∉ reserved)
    (hkids : decodeAll reg fuel (encodeAll children) = some children) :
    decode reg (fuel + 1) (Entry.mk tag name inputs fields children).encode =
      some (.mk tag name inputs fields children) := by
  rw [Entry.encode_mk, decode, encItems_type, encItems_name, encItems_inputs,
    encItems_components _ _ _ _ _ hres]
  simp only [hd, decInputs_map, hkids]
  rw [← hfs, decFields_map _ _ (fun f hf => encItems_field _ _ _ _ _ hnd hres f hf)]

mutual
theorem Entry.roundtrip (reg : List ClassSig) : ∀ (e : Entry), e.WFor reg → ∀ fuel, e.depth ≤ fuel →
    decode reg fuel e.encode = some e
  | .mk tag name inputs fields children, h, fuel, hf => by
    rw [Entry.WFor] at h
    obtain ⟨⟨cls, hd, hfs⟩, hnd, hres, _, hall⟩ := h
    rw [Entry.depth] at hf
    obtain ⟨n, rfl⟩ : ∃ n, fuel = n + 1 := ⟨fuel - 1, by omega⟩
    exact decode_encItems_succ reg n tag name inputs fields children cls hd hfs hnd hres
      (roundtripAll reg children hall n (by omega))
theorem roundtripAll (reg : List ClassSig) : ∀ (es : List Entry), allWFor reg es → ∀ fuel, depthAll es ≤ fuel →
    decodeAll reg fuel (encodeAll es) = some es
  | [], _, fuel, _ => by rw [encodeAll, decodeAll]
  | e :: es, h, fuel, hf => by
    rw [allWFor] at h
    rw [depthAll] at hf
    rw [encodeAll, decodeAll, Entry.roundtrip reg e h.1 fuel (by omega),
      roundtripAll reg es h.2 fuel (by omega)]
end

/-- an unregistered tag is rejected -/
theorem decode_unknown_tag (reg : List ClassSig) (fuel : Nat) (tag name inputs fields)
    (children : List Entry) (h : dispatch reg tag = none) :
    decode reg fuel (Entry.mk tag name inputs fields children).encode = none := by
  cases fuel with
  | zero => rw [decode]
  | succ n =>
    rw [Entry.encode_mk, decode, encItems_type]
    split
    · rename_i heq _ _ _
      cases heq
      simp only [h]
    · rfl

theorem decodeAll_congr (reg reg' : List ClassSig) (fuel : Nat)
    (h : ∀ d, decode reg fuel d = decode reg' fuel d) (ds : List Data) :
    decodeAll reg fuel ds = decodeAll reg' fuel ds := by
  induction ds with
  | nil => rw [decodeAll, decodeAll]
  | cons d ds ih => rw [decodeAll, decodeAll, h d, ih]

theorem decode_congr (reg reg' : List ClassSig)
    (h : ∀ tag, dispatch reg tag = dispatch reg' tag) (fuel : Nat) :
    ∀ d, decode reg fuel d = decode reg' fuel d := by
  induction fuel with
  | zero => intro d; rw [decode, decode]
  | succ n ih =>
    intro d
    cases d with
    | dict items =>
      rw [decode, decode]
      simp only [h, decodeAll_congr reg reg' n ih]
    | str s => simp [decode]
    | int s => simp [decode]
    | list s => simp [decode]

/-! ## Part 2: the synchronous bus refines the contract bus -/

/-- every list has a duplicate-free list with the same members -/
theorem exists_nodup_same_mem {α : Type} [DecidableEq α] (l : List α) :
    ∃ l' : List α, l'.Nodup ∧ ∀ x, x ∈ l' ↔ x ∈ l := by
  induction l with
  | nil => exact ⟨[], List.nodup_nil, fun _ => Iff.rfl⟩
  | cons a l ih =>
    obtain ⟨l', hnd, hmem⟩ := ih
    by_cases ha : a ∈ l'
    · refine ⟨l', hnd, fun x => ?_⟩
      rw [hmem, List.mem_cons]
      constructor
      · exact Or.inr
      · rintro (rfl | hx)
        · exact (hmem _).mp ha
        · exact hx
    · refine ⟨a :: l', List.nodup_cons.mpr ⟨ha, hnd⟩, fun x => ?_⟩
      rw [List.mem_cons, List.mem_cons, hmem]

/-- producing the values of `l` to `T`, one after the other -/
theorem CExec.produce_run (T : CTopic) (l : List Int) (c : CBus) :
    ∃ c', CExec c (l.map (CAct.produce T)) c' ∧ c'.cursors = c.cursors ∧
      ∀ T', c'.log T' = if T = T' then c.log T' ++ l else c.log T' := by
  induction l generalizing c with
  | nil => exact ⟨c, .nil c, rfl, fun T' => by simp⟩
  | cons v l ih =>
    obtain ⟨c', hex, hcur, hlog⟩ := ih { c with logs := upsert c.logs T (c.log T ++ [v]) }
    refine ⟨c', .cons rfl hex, hcur, fun T' => ?_⟩
    rw [hlog, CBus.log_produce]
    by_cases hT : T = T'
    · subst hT; simp
    · simp [hT]

/-- phase 1: for every topic of a duplicate-free list, produce its values -/
theorem CExec.produce_all (f : CTopic → List Int) (Ts : List CTopic) (hnd : Ts.Nodup) (c : CBus) :
    ∃ acts c', CExec c acts c' ∧ c'.cursors = c.cursors ∧
      ∀ T, c'.log T = c.log T ++ (if T ∈ Ts then f T else []) := by
  induction Ts generalizing c with
  | nil => exact ⟨[], c, .nil c, rfl, fun T => by simp⟩
  | cons T Ts ih =>
    rw [List.nodup_cons] at hnd
    obtain ⟨c1, hex1, hcur1, hlog1⟩ := CExec.produce_run T (f T) c
    obtain ⟨acts, c2, hex2, hcur2, hlog2⟩ := ih hnd.2 c1
    refine ⟨_, c2, hex1.append hex2, hcur2.trans hcur1, fun T' => ?_⟩
    rw [hlog2, hlog1]
    by_cases hT : T = T'
    · subst hT; simp [hnd.1]
    · have hT' : ¬ T' = T := fun e => hT e.symm
      simp [hT, hT']

theorem CBus.step_deliver_of {c : CBus} {k : Nat} {T : CTopic} {i : Nat}
    (hc : alookup c.cursors (k, T) = some i) (hlt : i < (c.log T).length) :
    c.step (.deliver k T) = some { c with cursors := upsert c.cursors (k, T) (i + 1),
                                          delivered := c.delivered ++ [(k, T, (c.log T)[i])] } := by
  simp [CBus.step, hc, List.getElem?_eq_getElem hlt]

/-- `m` deliveries to a subscriber whose cursor is `m` behind the end at least -/
theorem CExec.deliver_run (k : Nat) (T : CTopic) (m : Nat) (i : Nat) (c : CBus)
    (hc : alookup c.cursors (k, T) = some i) (hle : i + m ≤ (c.log T).length) :
    ∃ c', CExec c (List.replicate m (CAct.deliver k T)) c' ∧ c'.logs = c.logs ∧
      ∀ p, alookup c'.cursors p = if (k, T) = p then some (i + m) else alookup c.cursors p := by
  induction m generalizing i c with
  | zero =>
    refine ⟨c, .nil c, rfl, fun p => ?_⟩
    split
    · rename_i hp; subst hp; simpa using hc
    · rfl
  | succ m ih =>
    have hlt : i < (c.log T).length := by omega
    have hstep := CBus.step_deliver_of hc hlt
    obtain ⟨c', hex, hlogs, hcur⟩ := ih (i + 1)
      { c with cursors := upsert c.cursors (k, T) (i + 1),
               delivered := c.delivered ++ [(k, T, (c.log T)[i])] } (by
      show alookup (upsert c.cursors (k, T) (i + 1)) (k, T) = some (i + 1)
      rw [alookup_upsert, if_pos rfl]) (by
      show i + 1 + m ≤ (c.log T).length
      omega)
    refine ⟨c', ?_, hlogs, fun p => ?_⟩
    · rw [List.replicate_succ]; exact .cons hstep hex
    · rw [hcur]
      show (if (k, T) = p then some (i + 1 + m) else alookup (upsert c.cursors (k, T) (i + 1)) p) = _
      rw [alookup_upsert]
      split
      · congr 1; omega
      · rfl

/-- a fresh pair subscribes and is handed the whole log -/
theorem CExec.subscribe_run (k : Nat) (T : CTopic) (c : CBus) (hc : alookup c.cursors (k, T) = none) :
    ∃ acts c', CExec c acts c' ∧ c'.logs = c.logs ∧
      ∀ p, alookup c'.cursors p = if (k, T) = p then some (c.log T).length else alookup c.cursors p := by
  have hstep : c.step (.subscribe k T) = some { c with cursors := upsert c.cursors (k, T) 0 } := by
    simp [CBus.step, hc]
  obtain ⟨c', hex, hlogs, hcur⟩ := CExec.deliver_run k T (c.log T).length 0
    { c with cursors := upsert c.cursors (k, T) 0 } (by
      show alookup (upsert c.cursors (k, T) 0) (k, T) = some 0
      rw [alookup_upsert, if_pos rfl]) (by
      show 0 + (c.log T).length ≤ (c.log T).length
      omega)
  refine ⟨_, c', .cons hstep hex, hlogs, fun p => ?_⟩
  rw [hcur]
  show (if (k, T) = p then some (0 + (c.log T).length) else alookup (upsert c.cursors (k, T) 0) p) = _
  rw [alookup_upsert]
  split
  · simp
  · rfl

/-- phase 2: every pair of a duplicate-free list of fresh pairs subscribes and catches up -/
theorem CExec.subscribe_all (ps : List (Nat × CTopic)) (hnd : ps.Nodup) (c : CBus)
    (hfresh : ∀ p ∈ ps, alookup c.cursors p = none) :
    ∃ acts c', CExec c acts c' ∧ c'.logs = c.logs ∧
      ∀ p, alookup c'.cursors p = if p ∈ ps then some (c.log p.2).length else alookup c.cursors p := by
  induction ps generalizing c with
  | nil => exact ⟨[], c, .nil c, rfl, fun p => by simp⟩
  | cons q ps ih =>
    obtain ⟨k, T⟩ := q
    rw [List.nodup_cons] at hnd
    obtain ⟨a1, c1, hex1, hlogs1, hcur1⟩ := CExec.subscribe_run k T c (hfresh (k, T) (by simp))
    obtain ⟨a2, c2, hex2, hlogs2, hcur2⟩ := ih hnd.2 c1 (fun p hp => by
      rw [hcur1, if_neg (fun (e : (k, T) = p) => hnd.1 (e ▸ hp))]
      exact hfresh p (by simp [hp]))
    refine ⟨a1 ++ a2, c2, hex1.append hex2, hlogs2.trans hlogs1, fun p => ?_⟩
    have hlog : ∀ T', c1.log T' = c.log T' := fun T' => by unfold CBus.log; rw [hlogs1]
    rw [hcur2, hcur1, hlog]
    by_cases hp : p ∈ ps
    · simp [hp]
    · by_cases hq : (k, T) = p
      · subst hq; simp
      · have hq' : ¬ p = (k, T) := fun e => hq e.symm
        simp [hp, hq, hq']

/-- any bus state that satisfies the exactly-once invariant is the image of a contract execution -/
theorem contract_exec_of_inv (b : Bus) (hinv : b.Inv) :
    ∃ (acts : List CAct) (c : CBus), CExec {} acts c ∧
      (∀ T, c.log T = b.log T) ∧
      (∀ k T, c.deliveredTo k T = b.received k T) ∧
      (∀ k T, k ∈ b.subsOf T ↔ (alookup c.cursors (k, T)).isSome) := by
  -- phase 1: the logs
  obtain ⟨Ts, hTs, hTmem⟩ := exists_nodup_same_mem (akeys b.topics)
  obtain ⟨a1, c1, hex1, hcur1, hlog1⟩ := CExec.produce_all b.log Ts hTs {}
  have hlog1' : ∀ T, c1.log T = b.log T := by
    intro T
    rw [hlog1]
    by_cases hT : T ∈ Ts
    · simp [hT, CBus.log, agetD]
    · have : alookup b.topics T = none := alookup_eq_none_iff.mpr (fun h => hT ((hTmem T).mpr h))
      simp [hT, CBus.log, Bus.log, agetD, this]
  -- phase 2: the subscriptions
  obtain ⟨ps, hps, hpmem⟩ := exists_nodup_same_mem
    ((akeys b.subs).flatMap (fun T => (b.subsOf T).map (fun k => (k, T))))
  have hpmem' : ∀ k T, (k, T) ∈ ps ↔ k ∈ b.subsOf T := by
    intro k T
    rw [hpmem, List.mem_flatMap]
    constructor
    · rintro ⟨T', _, hm⟩
      rw [List.mem_map] at hm
      obtain ⟨k', hk', he⟩ := hm
      cases he
      exact hk'
    · intro hk
      refine ⟨T, ?_, List.mem_map.mpr ⟨k, hk, rfl⟩⟩
      refine Classical.byContradiction (fun hn => ?_)
      have : alookup b.subs T = none := alookup_eq_none_iff.mpr hn
      simp [Bus.subsOf, agetD, this] at hk
  obtain ⟨a2, c2, hex2, hlogs2, hcur2⟩ := CExec.subscribe_all ps hps c1 (fun p _ => by
    rw [hcur1]; rfl)
  have hlog2 : ∀ T, c2.log T = b.log T := fun T => by
    rw [← hlog1']; unfold CBus.log; rw [hlogs2]
  have hcur : ∀ k T, alookup c2.cursors (k, T) =
      if k ∈ b.subsOf T then some (b.log T).length else none := by
    intro k T
    rw [hcur2, hcur1]
    simp only [hpmem', hlog1']
    rfl
  have hex : CExec {} (a1 ++ a2) c2 := hex1.append hex2
  refine ⟨a1 ++ a2, c2, hex, hlog2, fun k T => ?_, fun k T => ?_⟩
  · obtain ⟨h1, h2⟩ := (hex.Inv CBus.Inv_empty) k T
    rw [hinv k T]
    by_cases hk : k ∈ b.subsOf T
    · rw [if_pos hk, (h1 _ (by rw [hcur, if_pos hk])).2, hlog2, List.take_length]
    · rw [if_neg hk]
      exact h2 (by rw [hcur, if_neg hk])
  · rw [hcur]
    split <;> simp [*]

end Tickit
