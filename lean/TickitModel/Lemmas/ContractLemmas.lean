/-
Helper lemmas for the contract bus and start-up.
-/
import TickitModel.Core.Contract
import TickitModel.Lemmas.DictLemmas

namespace Tickit

/-! ### generic -/

/-- two upserts on different keys commute when the first key is already present
(it is replaced in place; only an absent key is appended). -/
theorem upsert_comm_of_mem {κ β : Type} [DecidableEq κ] (m : List (κ × β)) {k₁ k₂ : κ} (v₁ v₂ : β)
    (hmem : k₁ ∈ akeys m) (hne : k₁ ≠ k₂) :
    upsert (upsert m k₁ v₁) k₂ v₂ = upsert (upsert m k₂ v₂) k₁ v₁ := by
  induction m with
  | nil => simp at hmem
  | cons e m ih =>
    obtain ⟨k, w⟩ := e
    by_cases h1 : k = k₁
    · subst h1
      simp [upsert, hne]
    · have hm : k₁ ∈ akeys m := by
        simp only [akeys_cons, List.mem_cons] at hmem
        rcases hmem with h | h
        · exact absurd h.symm h1
        · exact h
      by_cases h2 : k = k₂
      · subst h2
        simp [upsert, h1]
      · simp [upsert, h1, h2, ih hm]

/-! ### the bus: one step -/

theorem CBus.log_produce (b : CBus) (T' : CTopic) (v : Int) (T : CTopic) :
    ({ b with logs := upsert b.logs T' (b.log T' ++ [v]) } : CBus).log T =
      if T' = T then b.log T ++ [v] else b.log T := by
  simp only [CBus.log, agetD_eq, alookup_upsert]
  split
  · next h => subst h; rfl
  · rfl

theorem CBus.deliveredTo_append (b : CBus) (k' : Nat) (T' : CTopic) (v : Int) (cs : List ((Nat × CTopic) × Nat))
    (k : Nat) (T : CTopic) :
    ({ b with cursors := cs, delivered := b.delivered ++ [(k', T', v)] } : CBus).deliveredTo k T =
      b.deliveredTo k T ++ (if (k', T') = (k, T) then [v] else []) := by
  simp only [CBus.deliveredTo, List.filter_append, List.map_append]
  congr 1
  by_cases h : (k', T') = (k, T)
  · simp only [Prod.mk.injEq] at h
    simp [h.1, h.2]
  · rw [if_neg h]
    simp only [Prod.mk.injEq, not_and] at h
    by_cases hk : k' = k
    · simp [hk, h hk]
    · simp [hk]

/-- the replay invariant: a subscribed consumer has received exactly the first `cursor`
messages; an unsubscribed one nothing. -/
def CBus.Inv (b : CBus) : Prop :=
  ∀ k T,
    (∀ i, alookup b.cursors (k, T) = some i → i ≤ (b.log T).length ∧ b.deliveredTo k T = (b.log T).take i) ∧
    (alookup b.cursors (k, T) = none → b.deliveredTo k T = [])

theorem CBus.Inv_empty : CBus.Inv {} := by
  intro k T
  simp [CBus.deliveredTo]

theorem CBus.Inv_step {b b' : CBus} {a : CAct} (hI : b.Inv) (hs : b.step a = some b') : b'.Inv := by
  intro k T
  obtain ⟨h1, h2⟩ := hI k T
  cases a with
  | produce T' v =>
    simp only [CBus.step, Option.some.injEq] at hs
    subst hs
    rw [CBus.log_produce]
    refine ⟨fun i hi => ?_, fun hn => h2 hn⟩
    obtain ⟨hle, hd⟩ := h1 i hi
    change _ ∧ b.deliveredTo k T = _
    split
    · refine ⟨by simp; omega, ?_⟩
      rw [List.take_append_of_le_length hle]; exact hd
    · exact ⟨hle, hd⟩
  | subscribe k' T' =>
    simp only [CBus.step] at hs
    split at hs
    · cases hs
    · next hnone =>
      simp only [Option.some.injEq] at hs
      subst hs
      simp only [alookup_upsert]
      change (∀ i, _ → _ ∧ b.deliveredTo k T = _) ∧ (_ → b.deliveredTo k T = _)
      by_cases hkt : (k', T') = (k, T)
      · simp only [hkt, if_true, Option.some.injEq, reduceCtorEq, false_imp_iff, and_true]
        rw [hkt] at hnone
        intro i hi
        subst hi
        simp [h2 hnone]
      · simp only [hkt, if_false]
        exact ⟨h1, h2⟩
  | deliver k' T' =>
    simp only [CBus.step] at hs
    split at hs
    · cases hs
    · next i hi =>
      split at hs
      · cases hs
      · next v hv =>
        simp only [Option.some.injEq] at hs
        subst hs
        rw [CBus.deliveredTo_append]
        simp only [alookup_upsert]
        change (∀ j, _ → j ≤ (b.log T).length ∧ _ = (b.log T).take j) ∧ _
        by_cases hkt : (k', T') = (k, T)
        · simp only [hkt, if_true, Option.some.injEq, reduceCtorEq, false_imp_iff, and_true]
          obtain ⟨rfl, rfl⟩ := Prod.mk.inj hkt
          obtain ⟨hle, hd⟩ := h1 i hi
          intro j hj
          subst hj
          obtain ⟨hlt, hget⟩ := List.getElem?_eq_some_iff.1 hv
          refine ⟨hlt, ?_⟩
          rw [hd, List.take_add_one, hv]
          rfl
        · simp only [hkt, if_false, List.append_nil]
          exact ⟨h1, h2⟩

theorem CExec.Inv {b b' : CBus} {acts : List CAct} (h : CExec b acts b') (hI : b.Inv) : b'.Inv := by
  induction h with
  | nil => exact hI
  | cons hs _ ih => exact ih (CBus.Inv_step hI hs)

/-! ### executions -/

theorem CExec.append {b b' b'' : CBus} {as bs : List CAct} (h1 : CExec b as b') (h2 : CExec b' bs b'') :
    CExec b (as ++ bs) b'' := by
  induction h1 with
  | nil => exact h2
  | cons hs _ ih => exact .cons hs (ih h2)

/-- a subscription commutes to the left past any action that is not a subscription. -/
theorem CBus.step_swap_subscribe {b b₁ b₂ : CBus} {a : CAct} {k : Nat} {T : CTopic}
    (ha : a.isSubscribe = false) (h1 : b.step a = some b₁) (h2 : b₁.step (.subscribe k T) = some b₂) :
    ∃ c₁, b.step (.subscribe k T) = some c₁ ∧ c₁.step a = some b₂ := by
  cases a with
  | subscribe _ _ => simp [CAct.isSubscribe] at ha
  | produce T' v =>
    simp only [CBus.step, Option.some.injEq] at h1
    subst h1
    simp only [CBus.step] at h2 ⊢
    split at h2
    · cases h2
    · next hnone =>
      simp only [Option.some.injEq] at h2
      subst h2
      exact ⟨_, rfl, rfl⟩
  | deliver k' T' =>
    simp only [CBus.step] at h1
    split at h1
    · cases h1
    · next i hi =>
      split at h1
      · cases h1
      · next v hv =>
        simp only [Option.some.injEq] at h1
        subst h1
        simp only [CBus.step] at h2 ⊢
        split at h2
        · cases h2
        · next hnone =>
          simp only [Option.some.injEq] at h2
          subst h2
          simp only [alookup_upsert] at hnone
          have hne : (k', T') ≠ (k, T) := by
            intro h; simp [h] at hnone
          simp only [hne, if_false] at hnone
          simp only [hnone]
          refine ⟨_, rfl, ?_⟩
          have hi' : alookup (upsert b.cursors (k, T) 0) (k', T') = some i := by
            rw [alookup_upsert, if_neg (Ne.symm hne)]; exact hi
          simp only [hi']
          change (match (b.log T')[i]? with | none => none | some v => _) = _
          simp only [hv]
          rw [upsert_comm_of_mem _ _ _ (mem_akeys_of_alookup_eq_some hi) hne]

/-- moving one non-subscription past a block of subscriptions. -/
theorem CExec.move_past_subscribes {a : CAct} (ha : a.isSubscribe = false) (N : List CAct) :
    ∀ (S : List CAct), (∀ s ∈ S, s.isSubscribe = true) → ∀ {b b₁ b' : CBus},
      b.step a = some b₁ → CExec b₁ (S ++ N) b' → CExec b (S ++ a :: N) b' := by
  intro S
  induction S with
  | nil => intro _ b b₁ b' h1 h2; exact .cons h1 h2
  | cons s S ih =>
    intro hS b b₁ b' h1 h2
    cases h2 with
    | cons hs hrest =>
      have hsub : s.isSubscribe = true := hS s (List.mem_cons_self ..)
      cases s with
      | subscribe k T =>
        obtain ⟨c₁, hc1, hc2⟩ := CBus.step_swap_subscribe ha h1 hs
        exact .cons hc1 (ih (fun s hs => hS s (List.mem_cons_of_mem _ hs)) hc2 hrest)
      | produce _ _ => simp [CAct.isSubscribe] at hsub
      | deliver _ _ => simp [CAct.isSubscribe] at hsub

/-- all subscriptions first, everything else in the same order: same final state. -/
theorem CExec.subscribes_first {b b' : CBus} {acts : List CAct} (h : CExec b acts b') :
    CExec b (acts.filter CAct.isSubscribe ++ acts.filter (fun a => !a.isSubscribe)) b' := by
  induction h with
  | nil b => exact .nil b
  | @cons b b₁ b'' a as hs _ ih =>
    cases ha : a.isSubscribe with
    | true =>
      simp only [List.filter_cons, ha, if_true, Bool.not_true, Bool.false_eq_true, if_false, List.cons_append]
      exact .cons hs ih
    | false =>
      simp only [List.filter_cons, ha, Bool.false_eq_true, if_false, Bool.not_false, if_true]
      exact CExec.move_past_subscribes ha _ _ (fun s hs => (List.mem_filter.1 hs).2) hs ih

/-! ### component start-up -/

theorem CompSt.not_crashed_of_hasProducer (evs : List CompEv) :
    ∀ c : CompSt, c.crashed = false → c.hasProducer = true → (evs.foldl CompSt.step c).crashed = false := by
  induction evs with
  | nil => intro c h _; exact h
  | cons e evs ih =>
    intro c hc hp
    rw [List.foldl_cons]
    apply ih
    · cases e with
      | start s => cases s <;> simpa [CompSt.step] using hc
      | input =>
        simp only [CompSt.step, hp, if_true]
        split <;> simpa using hc
    · cases e with
      | start s => cases s <;> simp [CompSt.step, hp]
      | input =>
        simp only [CompSt.step, hp, if_true]
        split <;> simp [hp]

theorem CompSt.not_crashed_of_startOrder (evs : List CompEv) :
    ∀ c : CompSt, c.crashed = false → c.subscribed = false → RespectsStartOrder evs →
      (evs.foldl CompSt.step c).crashed = false := by
  induction evs with
  | nil => intro c h _ _; exact h
  | cons e evs ih =>
    intro c hc hs hr
    rw [List.foldl_cons]
    cases e with
    | input =>
      have : c.step .input = c := by simp [CompSt.step, hs]
      rw [this]
      exact ih c hc hs (by simpa [RespectsStartOrder] using hr)
    | start s =>
      cases s with
      | createProducer =>
        exact CompSt.not_crashed_of_hasProducer evs _ (by simpa [CompSt.step] using hc) (by simp [CompSt.step])
      | subscribe =>
        simp [RespectsStartOrder, startOrder, List.cons_prefix_cons] at hr

end Tickit
