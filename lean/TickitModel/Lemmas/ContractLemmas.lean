/-
Helper lemmas for the contract bus and start-up.
-/
import TickitModel.Core.Contract

namespace Tickit

end Tickit
