/-
M9c+ — the moves of one sender of `Core/Zmq.lean` as a relation (`ZStepCase`), equivalent to
the executable `Zmq.stepSender`; the cancellation cases (`ZCancelCase`) likewise.
-/
import TickitModel.Core.ZmqCancel
import TickitModel.Lemmas.ZmqLemmas

namespace Tickit

/-- a free lock may be taken by `i`: nobody queues or `i` is the head of the queue -/
def Zmq.mayTake (z : Zmq) (i : Nat) : Bool := z.waiters.head? == some i || z.waiters.isEmpty

inductive ZStepCase (z : Zmq) (i : Nat) (s : Sender) : Zmq → Prop where
  | takeQ (m : Nat) (q : List Nat) : i = 0 → s.pc = .idle → z.queue = m :: q →
      ZStepCase z i s (setSender { z with queue := q } i { s with pc := .wantLock, cur := some m })
  | takeT (m : Nat) (t : List Nat) : i ≠ 0 → s.pc = .idle → s.todo = m :: t →
      ZStepCase z i s (setSender z i { s with pc := .wantLock, cur := some m, todo := t })
  | wait : s.pc = .wantLock → i ∉ z.waiters → (z.lockHeld ≠ none ∨ z.mayTake i = false) →
      ZStepCase z i s { z with waiters := z.waiters ++ [i] }
  | pass : s.pc = .wantLock → z.lockHeld = none → z.mayTake i = true → z.socket = true →
      ZStepCase z i s (setSender { z with waiters := z.waiters.filter (· != i) } i { s with pc := .ready })
  | call : s.pc = .wantLock → z.lockHeld = none → z.mayTake i = true → z.socket = false →
      ZStepCase z i s (setSender
        { z with waiters := z.waiters.filter (· != i), lockHeld := some i, factoryCalls := z.factoryCalls + 1 }
        i { s with pc := .inFactory })
  | made : s.pc = .inFactory →
      ZStepCase z i s (setSender { z with socket := true, lockHeld := none } i { s with pc := .ready })
  | skip : s.pc = .ready → s.cur = none →
      ZStepCase z i s (setSender z i { s with pc := .idle })
  | write (m : Nat) : s.pc = .ready → s.cur = some m →
      ZStepCase z i s (setSender { z with writes := z.writes ++ [(i, m)] } i { s with pc := .draining })
  | drained : s.pc = .draining →
      ZStepCase z i s (setSender z i { s with pc := .idle, cur := none })

theorem stepSender_cases {z z' : Zmq} {i : Nat} (h : z.stepSender i = some z') :
    ∃ s, z.senders[i]? = some s ∧ ZStepCase z i s z' := by
  unfold Zmq.stepSender at h
  split at h
  · cases h
  rename_i s hs
  refine ⟨s, hs, ?_⟩
  split at h
  · rename_i hpc
    split at h
    · rename_i h0
      have h0 : i = 0 := by simpa using h0
      split at h
      · cases h
      · rename_i m q hq
        cases h
        exact .takeQ m q h0 hpc hq
    · rename_i h0
      have h0 : i ≠ 0 := by simpa using h0
      split at h
      · cases h
      · rename_i m t ht
        cases h
        exact .takeT m t h0 hpc ht
  · rename_i hpc
    split at h
    · rename_i x hl
      split at h
      · cases h
      · rename_i hw
        cases h
        exact .wait hpc hw (Or.inl (by simp [hl]))
    · rename_i hl
      split at h
      · rename_i hm
        dsimp only at h
        split at h
        · rename_i hsk
          cases h
          exact .pass hpc hl hm hsk
        · rename_i hsk
          cases h
          exact .call hpc hl hm (by simpa using hsk)
      · rename_i hm
        split at h
        · cases h
        · rename_i hw
          cases h
          exact .wait hpc hw (Or.inr (by simpa [Zmq.mayTake] using hm))
  · rename_i hpc
    cases h
    exact .made hpc
  · rename_i hpc
    split at h
    · rename_i hc
      cases h
      exact .skip hpc hc
    · rename_i m hc
      cases h
      exact .write m hpc hc
  · rename_i hpc
    cases h
    exact .drained hpc

theorem ZStepCase.sound {z z' : Zmq} {i : Nat} {s : Sender} (hs : z.senders[i]? = some s)
    (h : ZStepCase z i s z') : z.stepSender i = some z' := by
  unfold Zmq.stepSender
  rw [hs]
  cases h with
  | takeQ m q h0 hpc hq => subst h0; simp [hpc, hq]
  | takeT m t h0 hpc ht => simp [hpc, h0, ht]
  | wait hpc hw hor =>
    simp only [hpc]
    rcases hor with hl | hm
    · cases hlk : z.lockHeld with
      | none => exact absurd hlk hl
      | some x => simp [hw]
    · cases hlk : z.lockHeld with
      | none =>
        have : (z.waiters.head? == some i || z.waiters.isEmpty) = false := hm
        simp only [this]; simp [hw]
      | some x => simp [hw]
  | pass hpc hl hm hsk =>
    have : (z.waiters.head? == some i || z.waiters.isEmpty) = true := hm
    simp only [hpc, hl, this]; simp [hsk]
  | call hpc hl hm hsk =>
    have : (z.waiters.head? == some i || z.waiters.isEmpty) = true := hm
    simp only [hpc, hl, this]; simp [hsk]
  | made hpc => simp [hpc]
  | skip hpc hc => simp [hpc, hc]
  | write m hpc hc => simp [hpc, hc]
  | drained hpc => simp [hpc]

/-! cancellation cases -/

inductive ZCancelCase (z : Zmq) (k : Nat) (s : Sender) : Zmq × Bool → Prop where
  | waiting : s.pc = .wantLock →
      ZCancelCase z k s ({ z with waiters := z.waiters.filter (· != k) }, false)
  | holding : s.pc = .inFactory → ZCancelCase z k s ({ z with lockHeld := none }, true)
  | other : (s.pc = .idle ∨ s.pc = .ready ∨ s.pc = .draining) → ZCancelCase z k s (z, false)

theorem cancelSender_cases {z : Zmq} {k : Nat} {r : Zmq × Bool} (h : z.cancelSender k = some r) :
    ∃ s, z.senders[k]? = some s ∧ s.finished k = false ∧ ZCancelCase z k s r := by
  unfold Zmq.cancelSender at h
  split at h
  · cases h
  rename_i s hs
  split at h
  · cases h
  rename_i hf
  refine ⟨s, hs, by simpa using hf, ?_⟩
  split at h <;> cases h
  · exact .waiting ‹_›
  · exact .holding ‹_›
  · exact .other (Or.inl ‹_›)
  · exact .other (Or.inr (Or.inl ‹_›))
  · exact .other (Or.inr (Or.inr ‹_›))

theorem ZCancelCase.sound {z : Zmq} {k : Nat} {s : Sender} {r : Zmq × Bool}
    (hs : z.senders[k]? = some s) (hf : s.finished k = false) (h : ZCancelCase z k s r) :
    z.cancelSender k = some r := by
  unfold Zmq.cancelSender
  rw [hs]
  cases h with
  | waiting hpc => simp [hf, hpc]
  | holding hpc => simp [hf, hpc]
  | other hpc => rcases hpc with hpc | hpc | hpc <;> simp [hf, hpc]

end Tickit
