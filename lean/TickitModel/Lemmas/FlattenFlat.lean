/-
Helper lemmas for C09, part 4: the flattened configuration `S.flatten n` is a valid
configuration (one level, no systems), its wires are the resolved sources, and `resolve` is
trivial on it.
-/
import TickitModel.Lemmas.FlattenLemmas

namespace Tickit

/-- the wiring of the flattened configuration -/
def Static.flatW (S : Static) (n : Nat) : Wiring := Wiring.fromInverse (S.flatInverse n)

/-- the device-level graph (device → devices driving its inputs) is acyclic -/
def Static.FlatRank (S : Static) (n : Nat) : Prop :=
  ∃ rank : Comp → Nat, ∀ c q a p, c ∈ S.devices →
    alookup (S.flatInputs n c) q = some (a, p) → rank a < rank c

theorem Static.flatInverse_wf {S : Static} (hS : S.Valid) (n : Nat) : (S.flatInverse n).WF := by
  refine ⟨?_, ?_⟩
  · unfold DictWF Static.flatInverse
    rw [flt_akeys_map_mk]
    exact hS.devices_nodup
  · intro e he
    unfold Static.flatInverse at he
    obtain ⟨c, _, rfl⟩ := List.mem_map.1 he
    exact S.flatInputs_nodup n c

theorem Static.flatInverse_conn (S : Static) (n : Nat) (a : Comp) (p : Port) (c : Comp) (q : Port) :
    (S.flatInverse n).Conn a p c q ↔ c ∈ S.devices ∧ alookup (S.flatInputs n c) q = some (a, p) := by
  unfold InvWiring.Conn Static.flatInverse
  rw [flt_alookup_map_mk]
  by_cases hc : c ∈ S.devices
  · simp [hc]
  · simp [hc]

theorem Static.flatW_conn {S : Static} (hS : S.Valid) (n : Nat) (a : Comp) (p : Port) (c : Comp)
    (q : Port) :
    (S.flatW n).Conn a p c q ↔ c ∈ S.devices ∧ alookup (S.flatInputs n c) q = some (a, p) := by
  unfold Static.flatW
  rw [Wiring.conn_fromInverse' _ (S.flatInverse_wf hS n), S.flatInverse_conn]

/-- resolved sources are devices -/
theorem Static.Valid.flatInputs_device {S : Static} (hS : S.Valid) {n : Nat} {c : Comp} {q : Port}
    {a : Comp} {p : Port} (h : alookup (S.flatInputs n c) q = some (a, p)) : a ∈ S.devices := by
  obtain ⟨lvl, L, a', p', _, hL, hconn, hr⟩ := (hS.flatInputs_spec n c q _).1 h
  obtain ⟨hL1, hL2⟩ := Static.level_some hL
  rw [← hL2] at hr
  exact Static.mem_devices_iff.2 (hS.resolve_device n L hL1 a' p' c q hconn a p hr)

theorem Static.flatW_components {S : Static} (hS : S.Valid) (n : Nat) (c : Comp) :
    c ∈ (S.flatW n).components ↔ c ∈ S.devices := by
  have hwf : (S.flatW n).WF := Wiring.wf_fromInverse' _
  rw [Wiring.mem_components_iff' hwf]
  constructor
  · rintro (hk | ⟨a, p, q, hconn⟩)
    · unfold Static.flatW at hk
      rw [Wiring.keys_fromInverse' _ (S.flatInverse_wf hS n)] at hk
      rcases hk with hk | ⟨p, b, q, hconn⟩
      · unfold Static.flatInverse at hk
        rwa [flt_akeys_map_mk] at hk
      · rw [S.flatInverse_conn] at hconn
        exact hS.flatInputs_device hconn.2
    · exact ((S.flatW_conn hS n _ _ _ _).1 hconn).1
  · intro hc
    left
    unfold Static.flatW
    rw [Wiring.keys_fromInverse' _ (S.flatInverse_wf hS n)]
    left
    unfold Static.flatInverse
    rwa [flt_akeys_map_mk]

theorem Static.flatten_level (S : Static) (n : Nat) :
    (S.flatten n).level "" = some ⟨"", S.flatW n⟩ := rfl

theorem Static.flatten_levels (S : Static) (n : Nat) :
    (S.flatten n).levels = [⟨"", S.flatW n⟩] := rfl

theorem Static.flatten_isSys (S : Static) (n : Nat) (c : Comp) : (S.flatten n).isSys c = false := by
  simp [Static.flatten, Static.isSys]

theorem Static.flatten_parent (S : Static) (n : Nat) (c : Comp) :
    alookup (S.flatten n).parent c = if c ∈ S.devices then some "" else none := by
  unfold Static.flatten
  exact flt_alookup_map_mk S.devices (fun _ => "") c

theorem Static.Valid.external_not_device {S : Static} (hS : S.Valid) : pseudoExternal ∉ S.devices := by
  intro h
  have := (Static.mem_devices_iff.1 h).1
  rw [hS.pseudo_fresh.1] at this
  cases this

theorem Static.Valid.expose_not_device {S : Static} (hS : S.Valid) : pseudoExpose ∉ S.devices := by
  intro h
  have := (Static.mem_devices_iff.1 h).1
  rw [hS.pseudo_fresh.2.1] at this
  cases this

/-- **the flattened configuration is valid** -/
theorem Static.Valid.flatten {S : Static} (hS : S.Valid) {n : Nat} (hrank : S.FlatRank n) :
    (S.flatten n).Valid := by
  have hwf : (S.flatW n).WF := Wiring.wf_fromInverse' _
  have hlev : ∀ L ∈ (S.flatten n).levels, L = ⟨"", S.flatW n⟩ := by
    intro L hL
    rw [S.flatten_levels] at hL
    simpa using hL
  have hpar : ∀ c p, alookup (S.flatten n).parent c = some p → p = "" ∧ c ∈ S.devices := by
    intro c p h
    rw [S.flatten_parent] at h
    by_cases hc : c ∈ S.devices
    · simp only [hc, if_true, Option.some.injEq] at h
      exact ⟨h.symm, hc⟩
    · simp [hc] at h
  exact
    { parent_level := by
        intro c p h
        obtain ⟨rfl, hc⟩ := hpar c p h
        exact ⟨_, S.flatten_level n, (S.flatW_components hS n c).2 hc, Or.inl rfl⟩
      members := by
        intro L hL c hc
        rw [hlev L hL] at hc ⊢
        left
        rw [S.flatten_parent, if_pos ((S.flatW_components hS n c).1 hc)]
      sys_level := by
        intro c h; rw [S.flatten_isSys] at h; cases h
      pseudo_fresh := by
        refine ⟨?_, ?_, S.flatten_isSys n _, S.flatten_isSys n _⟩
        · rw [S.flatten_parent, if_neg hS.external_not_device]
        · rw [S.flatten_parent, if_neg hS.expose_not_device]
      sys_parent := by
        intro c h; rw [S.flatten_isSys] at h; cases h
      nesting := ⟨fun _ => 0, fun c p h hne => absurd (hpar c p h).1 hne⟩
      ups_defined := by
        intro L hL c hc
        exact (Wiring.ups_isSome_iff' L.wiring c).2 hc
      level_names := by
        rw [S.flatten_levels]; simp
      wiring_wf := by
        intro L hL
        rw [hlev L hL]
        exact ⟨hwf, Wiring.oneSource_fromInverse _ (S.flatInverse_wf hS n)⟩
      acyclic := by
        intro L hL
        rw [hlev L hL]
        obtain ⟨rank, hr⟩ := hrank
        refine ⟨rank, fun c us u hus hu => ?_⟩
        obtain ⟨p, q, hconn⟩ := (Wiring.mem_ups_iff' hwf hus u).1 hu
        obtain ⟨hc, hfi⟩ := (S.flatW_conn hS n _ _ _ _).1 hconn
        exact hr c q u p hc hfi
      parent_unique := by
        show (akeys (S.devices.map (fun c => (c, "")))).Nodup
        rw [flt_akeys_map_mk S.devices (fun _ => "")]
        exact hS.devices_nodup
      pseudo_dir := by
        intro L hL a p b q hconn
        rw [hlev L hL] at hconn
        obtain ⟨hb, hfi⟩ := (S.flatW_conn hS n _ _ _ _).1 hconn
        have ha := hS.flatInputs_device hfi
        exact ⟨fun h => hS.external_not_device (h ▸ hb), fun h => hS.expose_not_device (h ▸ ha)⟩
      master_fresh := by
        rw [S.flatten_parent, if_neg]
        intro h
        have := (Static.mem_devices_iff.1 h).1
        rw [hS.master_fresh] at this
        cases this }

/-- `resolve` on the flattened configuration, at the master level -/
theorem Static.flatten_resolve_master (S : Static) (n m : Nat) (a : Comp) (p : Port) :
    (S.flatten n).resolve (m + 1) "" a p = if a = pseudoExternal then none else some (a, p) := by
  rw [Static.resolve_succ]
  by_cases ha : a = pseudoExternal
  · simp [ha]
  · simp [ha, S.flatten_isSys]

theorem Static.flatten_resolveStable (S : Static) (n : Nat) : (S.flatten n).ResolveStable 2 := by
  intro lvl a p
  rw [Static.resolve_succ, Static.resolve_succ (n := 1)]
  by_cases ha : a = pseudoExternal
  · subst ha
    simp only [beq_self_eq_true, if_true]
    by_cases hl : lvl = ""
    · simp [hl]
    · simp only [beq_iff_eq, hl, if_false]
      rw [S.flatten_parent]
      by_cases hd : lvl ∈ S.devices
      · simp only [hd, if_true, S.flatten_level]
        cases hs : (S.flatW n).sourceOf lvl p with
        | none => rfl
        | some ap =>
          obtain ⟨a', p'⟩ := ap
          simp only []
          rw [S.flatten_resolve_master, S.flatten_resolve_master]
      · simp [hd]
  · simp [ha, S.flatten_isSys]

/-- the resolved sources of the flattened configuration are those of the nested one -/
theorem Static.Valid.flatten_flatInputs {S : Static} (hS : S.Valid) {n : Nat}
    (hS' : (S.flatten n).Valid) {c : Comp} (hc : c ∈ S.devices) (q : Port) :
    alookup ((S.flatten n).flatInputs 2 c) q = alookup (S.flatInputs n c) q := by
  apply option_ext_some
  rintro ⟨a, p⟩
  rw [hS'.flatInputs_spec 2 c q]
  constructor
  · rintro ⟨lvl, L, a', p', hp, hL, hconn, hr⟩
    rw [S.flatten_parent, if_pos hc] at hp
    cases hp
    rw [S.flatten_level] at hL
    cases hL
    obtain ⟨_, hfi⟩ := (S.flatW_conn hS n _ _ _ _).1 hconn
    have ha' : a' ≠ pseudoExternal :=
      fun h => hS.external_not_device (h ▸ hS.flatInputs_device hfi)
    rw [S.flatten_resolve_master, if_neg ha'] at hr
    cases hr
    exact hfi
  · intro hfi
    have ha' : a ≠ pseudoExternal :=
      fun h => hS.external_not_device (h ▸ hS.flatInputs_device hfi)
    refine ⟨"", ⟨"", S.flatW n⟩, a, p, ?_, S.flatten_level n, (S.flatW_conn hS n _ _ _ _).2 ⟨hc, hfi⟩, ?_⟩
    · rw [S.flatten_parent, if_pos hc]
    · rw [S.flatten_resolve_master, if_neg ha']

end Tickit
