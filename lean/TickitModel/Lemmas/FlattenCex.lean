/-
C09: a counterexample to the ORIGINAL fuel hypothesis `S.levels.length ≤ rfuel` of
`nesting_transparent_initial` (checked at build time with `#guard`).

Three pass-through systems in a row (`external.x → expose.y` inside each) between two devices:
`d0.o → s1.x`, `s1.y → s2.x`, `s2.y → s3.x`, `s3.y → d9.i`.  Resolving the source of `d9.i`
takes two steps per pass-through system (into the system through `expose`, out of it through
`external`) plus one: 7 steps, while the configuration has only 4 levels.  With `rfuel = 4` the
flattening silently drops the wire, and `d9` observes `{}` instead of `{i ↦ 7}`.
-/
import TickitModel.Core.Flatten
import TickitModel.Core.Flat

namespace Tickit.C09Cex

def passW : Wiring := Wiring.fromInverse [("external", []), ("expose", [("y", ("external", "x"))])]

def topW : Wiring := Wiring.fromInverse
  [("d0", []), ("s1", [("x", ("d0", "o"))]), ("s2", [("x", ("s1", "y"))]),
   ("s3", [("x", ("s2", "y"))]), ("d9", [("i", ("s3", "y"))])]

def S0 : Static :=
  { levels := [⟨"", topW⟩, ⟨"s1", passW⟩, ⟨"s2", passW⟩, ⟨"s3", passW⟩]
    systems := ["s1", "s2", "s3"]
    parent := [("d0", ""), ("s1", ""), ("s2", ""), ("s3", ""), ("d9", "")] }

def orc0 : Oracle := [("d0", [⟨[("o", 7)], none, false⟩]), ("d9", [⟨[], none, false⟩])]

def obsAfterInitial (S : Static) (c : Comp) : Option (List (SimTime × List (Port × V))) :=
  match masterInitial S orc0 10 0 0 with
  | .ok (m, _) => some (m.sim.obsOf c)
  | .error _ => none

-- `S0.levels.length = 4`
#guard S0.levels.length == 4
-- nested: `d9` is given `i ↦ 7` in the initial tick
#guard obsAfterInitial S0 "d9" == some [(0, [("i", 7)])]
-- flattened with `rfuel = 4` (and also with the `levels.length + 2 = 6` of the driver): wire lost
#guard obsAfterInitial (S0.flatten 4) "d9" == some [(0, [])]
#guard obsAfterInitial (S0.flatten 6) "d9" == some [(0, [])]
-- flattened with enough fuel: same observation as nested
#guard obsAfterInitial (S0.flatten 7) "d9" == some [(0, [("i", 7)])]
-- the resolution is stable from 7 on, not before
#guard S0.resolve 6 "" "s3" "y" == none
#guard S0.resolve 7 "" "s3" "y" == some ("d0", "o")
#guard S0.resolve 8 "" "s3" "y" == some ("d0", "o")
-- the number of (level, component) pairs: 5 + 2 + 2 + 2 = 11 ≥ 7; this bound (plus slack) is
-- `Static.resolveFuel`, proved sufficient in `Lemmas/FlattenFuelBound.lean`
#guard (S0.levels.map (fun L => L.wiring.components.length)).sum == 11

end Tickit.C09Cex
