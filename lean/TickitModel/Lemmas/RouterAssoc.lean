/-
Helper lemmas for M0 (association maps as Python dicts, duplicate-free lists as sets,
two-level dicts) together with the well-formedness predicates of M1.
-/
import TickitModel.Core.Router

namespace Tickit

/-- a Python dict: keys are unique. -/
def DictWF {κ β : Type} (m : List (κ × β)) : Prop := (akeys m).Nodup

/-- a `Wiring` as Python holds it: dict of dicts of sets. -/
def Wiring.WF (w : Wiring) : Prop :=
  DictWF w ∧ ∀ e ∈ w, DictWF e.2 ∧ ∀ pe ∈ e.2, pe.2.Nodup

def InvWiring.WF (iw : InvWiring) : Prop :=
  DictWF iw ∧ ∀ e ∈ iw, DictWF e.2

/-- each input port has at most one source. -/
def Wiring.OneSource (w : Wiring) : Prop :=
  ∀ a p a' p' b q, w.Conn a p b q → w.Conn a' p' b q → a = a' ∧ p = p'

/-! ## generic fold lemmas -/

/-- a fold whose every step adds `P x` to some "membership view" of the state. -/
theorem foldl_view_iff {σ α γ : Type} (view : σ → γ → Prop) (f : σ → α → σ) (P : α → γ → Prop)
    (l : List α) (hf : ∀ x ∈ l, ∀ s c, view (f s x) c ↔ view s c ∨ P x c) (s : σ) (c : γ) :
    view (l.foldl f s) c ↔ view s c ∨ ∃ x ∈ l, P x c := by
  induction l generalizing s with
  | nil => simp
  | cons x l ih =>
    rw [List.foldl_cons, ih (fun y hy => hf y (List.mem_cons_of_mem _ hy)),
      hf x List.mem_cons_self]
    simp [or_assoc]

/-- a fold whose every step preserves an invariant. -/
theorem foldl_inv {σ α : Type} (Inv : σ → Prop) (f : σ → α → σ) (l : List α)
    (hf : ∀ x ∈ l, ∀ s, Inv s → Inv (f s x)) (s : σ) (hs : Inv s) : Inv (l.foldl f s) := by
  induction l generalizing s with
  | nil => exact hs
  | cons x l ih =>
    rw [List.foldl_cons]
    exact ih (fun y hy => hf y (List.mem_cons_of_mem _ hy)) _ (hf x List.mem_cons_self s hs)

/-! ## sets -/
section Sets
variable {α : Type} [DecidableEq α]

@[simp] theorem mem_sinsert {s : List α} {x y : α} : y ∈ sinsert s x ↔ y ∈ s ∨ y = x := by
  unfold sinsert
  by_cases h : x ∈ s
  · simp only [h, if_true]
    constructor
    · exact Or.inl
    · rintro (h' | rfl)
      · exact h'
      · exact h
  · simp [h]

theorem nodup_sinsert {s : List α} {x : α} (h : s.Nodup) : (sinsert s x).Nodup := by
  unfold sinsert
  by_cases hx : x ∈ s
  · simpa [hx] using h
  · simp only [hx, if_false]
    rw [List.nodup_append]
    refine ⟨h, by simp, ?_⟩
    intro a ha b hb
    simp at hb
    subst hb
    intro hab
    exact hx (hab ▸ ha)

@[simp] theorem mem_sunion {s t : List α} {y : α} : y ∈ sunion s t ↔ y ∈ s ∨ y ∈ t := by
  unfold sunion
  rw [foldl_view_iff (fun (s : List α) y => y ∈ s) sinsert (fun x y => y = x) t
    (fun x _ s c => mem_sinsert)]
  simp

theorem nodup_sunion {s t : List α} (h : s.Nodup) : (sunion s t).Nodup := by
  unfold sunion
  exact foldl_inv List.Nodup sinsert t (fun x _ s hs => nodup_sinsert hs) s h

end Sets

/-! ## keys -/
section Keys
variable {κ β : Type}

@[simp] theorem akeys_nil : akeys ([] : List (κ × β)) = [] := rfl

@[simp] theorem akeys_cons (e : κ × β) (t : List (κ × β)) : akeys (e :: t) = e.1 :: akeys t := rfl

@[simp] theorem akeys_append (m n : List (κ × β)) : akeys (m ++ n) = akeys m ++ akeys n := by
  simp [akeys]

theorem mem_akeys {m : List (κ × β)} {k : κ} : k ∈ akeys m ↔ ∃ v, (k, v) ∈ m := by
  simp [akeys]

theorem rt_mem_akeys_of_mem {m : List (κ × β)} {e : κ × β} (h : e ∈ m) : e.1 ∈ akeys m :=
  mem_akeys.2 ⟨e.2, h⟩

@[simp] theorem DictWF_nil : DictWF ([] : List (κ × β)) := by simp [DictWF]

end Keys

/-! ## association lists -/
section Assoc
variable {κ β : Type} [DecidableEq κ]

@[simp] theorem alookup_nil (x : κ) : alookup ([] : List (κ × β)) x = none := rfl

@[simp] theorem alookup_cons (k : κ) (v : β) (t : List (κ × β)) (x : κ) :
    alookup ((k, v) :: t) x = if k = x then some v else alookup t x := rfl

theorem alookup_append (m n : List (κ × β)) (x : κ) :
    alookup (m ++ n) x = (alookup m x).or (alookup n x) := by
  induction m with
  | nil => simp
  | cons e t ih =>
    obtain ⟨k, v⟩ := e
    by_cases h : k = x <;> simp [h, ih]

theorem rt_alookup_eq_none_iff {m : List (κ × β)} {x : κ} : alookup m x = none ↔ x ∉ akeys m := by
  induction m with
  | nil => simp
  | cons e t ih =>
    obtain ⟨k, v⟩ := e
    by_cases h : k = x
    · simp [h]
    · simp [h, ih, Ne.symm h]

theorem rt_alookup_isSome_iff {m : List (κ × β)} {x : κ} : (alookup m x).isSome ↔ x ∈ akeys m := by
  have := rt_alookup_eq_none_iff (m := m) (x := x)
  cases h : alookup m x <;> simp_all

theorem mem_of_alookup {m : List (κ × β)} {k : κ} {v : β} (h : alookup m k = some v) : (k, v) ∈ m := by
  induction m with
  | nil => simp at h
  | cons e t ih =>
    obtain ⟨k', v'⟩ := e
    by_cases hk : k' = k
    · simp [hk] at h
      simp [hk, h]
    · simp [hk] at h
      exact List.mem_cons_of_mem _ (ih h)

theorem mem_akeys_of_alookup {m : List (κ × β)} {k : κ} {v : β} (h : alookup m k = some v) :
    k ∈ akeys m := mem_akeys.2 ⟨v, mem_of_alookup h⟩

theorem alookup_of_mem {m : List (κ × β)} (hm : DictWF m) {k : κ} {v : β} (h : (k, v) ∈ m) :
    alookup m k = some v := by
  induction m with
  | nil => simp at h
  | cons e t ih =>
    obtain ⟨k', v'⟩ := e
    simp only [DictWF, akeys_cons, List.nodup_cons] at hm
    rcases List.mem_cons.1 h with h | h
    · simp at h
      simp [h]
    · have hne : k' ≠ k := by
        rintro rfl
        exact hm.1 (mem_akeys.2 ⟨v, h⟩)
      simp [hne, ih hm.2 h]

theorem mem_iff_alookup {m : List (κ × β)} (hm : DictWF m) {k : κ} {v : β} :
    (k, v) ∈ m ↔ alookup m k = some v := ⟨alookup_of_mem hm, mem_of_alookup⟩

@[simp] theorem alookup_upsert (m : List (κ × β)) (k : κ) (v : β) (x : κ) :
    alookup (upsert m k v) x = if k = x then some v else alookup m x := by
  induction m with
  | nil => simp [upsert]
  | cons e t ih =>
    obtain ⟨k', v'⟩ := e
    simp only [upsert]
    by_cases h : k' = k
    · subst h
      by_cases h' : k' = x <;> simp [h']
    · by_cases h' : k' = x
      · subst h'
        simp [h, Ne.symm h]
      · simp [h, h', ih]

theorem rt_akeys_upsert (m : List (κ × β)) (k : κ) (v : β) :
    akeys (upsert m k v) = sinsert (akeys m) k := by
  induction m with
  | nil => simp [upsert, sinsert]
  | cons e t ih =>
    obtain ⟨k', v'⟩ := e
    simp only [upsert]
    by_cases h : k' = k
    · subst h
      simp [sinsert]
    · have h2 : ¬ k = k' := Ne.symm h
      simp only [h, if_false, akeys_cons, ih]
      unfold sinsert
      by_cases hk : k ∈ akeys t <;> simp [hk, h2]

theorem rt_mem_akeys_upsert {m : List (κ × β)} {k : κ} {v : β} {x : κ} :
    x ∈ akeys (upsert m k v) ↔ x ∈ akeys m ∨ x = k := by
  rw [rt_akeys_upsert, mem_sinsert]

theorem DictWF_upsert {m : List (κ × β)} (h : DictWF m) (k : κ) (v : β) : DictWF (upsert m k v) := by
  unfold DictWF
  rw [rt_akeys_upsert]
  exact nodup_sinsert h

theorem mem_upsert {m : List (κ × β)} {k : κ} {v : β} {e : κ × β} (h : e ∈ upsert m k v) :
    e = (k, v) ∨ e ∈ m := by
  induction m with
  | nil => simpa [upsert] using h
  | cons e' t ih =>
    obtain ⟨k', v'⟩ := e'
    simp only [upsert] at h
    by_cases hk : k' = k
    · simp only [hk, if_true] at h
      rcases List.mem_cons.1 h with h | h
      · exact Or.inl h
      · exact Or.inr (List.mem_cons_of_mem _ h)
    · simp only [hk, if_false] at h
      rcases List.mem_cons.1 h with h | h
      · exact Or.inr (h ▸ List.mem_cons_self)
      · rcases ih h with h | h
        · exact Or.inl h
        · exact Or.inr (List.mem_cons_of_mem _ h)

theorem upsert_ne_nil (m : List (κ × β)) (k : κ) (v : β) : upsert m k v ≠ [] := by
  cases m with
  | nil => simp [upsert]
  | cons e t =>
    obtain ⟨k', v'⟩ := e
    simp only [upsert]
    split <;> simp

theorem akeys_atouch (m : List (κ × β)) (k : κ) (d : β) :
    akeys (atouch m k d) = sinsert (akeys m) k := by
  unfold atouch sinsert
  cases h : alookup m k with
  | none => simp [rt_alookup_eq_none_iff.1 h]
  | some v => simp [mem_akeys_of_alookup h]

theorem mem_akeys_atouch {m : List (κ × β)} {k : κ} {d : β} {x : κ} :
    x ∈ akeys (atouch m k d) ↔ x ∈ akeys m ∨ x = k := by
  rw [akeys_atouch, mem_sinsert]

theorem DictWF_atouch {m : List (κ × β)} (h : DictWF m) (k : κ) (d : β) : DictWF (atouch m k d) := by
  unfold DictWF
  rw [akeys_atouch]
  exact nodup_sinsert h

theorem mem_atouch {m : List (κ × β)} {k : κ} {d : β} {e : κ × β} (h : e ∈ atouch m k d) :
    e = (k, d) ∨ e ∈ m := by
  unfold atouch at h
  cases h' : alookup m k with
  | none =>
    simp only [h'] at h
    rcases List.mem_append.1 h with h | h
    · exact Or.inr h
    · exact Or.inl (by simpa using h)
  | some v =>
    simp only [h'] at h
    exact Or.inr h

/-- touching with the default does not change defaulted reads. -/
@[simp] theorem agetD_atouch (m : List (κ × β)) (k : κ) (d : β) (x : κ) :
    agetD (atouch m k d) x d = agetD m x d := by
  unfold atouch agetD
  cases h : alookup m k with
  | some v => rfl
  | none =>
    simp only [alookup_append]
    cases h' : alookup m x with
    | some v => simp
    | none =>
      by_cases hk : k = x <;> simp [hk]

theorem agetD_mem_or {m : List (κ × β)} {k : κ} {d : β} :
    agetD m k d = d ∨ (k, agetD m k d) ∈ m := by
  unfold agetD
  cases h : alookup m k with
  | none => exact Or.inl rfl
  | some v => exact Or.inr (mem_of_alookup h)

theorem agetD_of_alookup {m : List (κ × β)} {k : κ} {d v : β} (h : alookup m k = some v) :
    agetD m k d = v := by simp [agetD, h]

end Assoc

/-- dict of dicts. -/
def WF2 {κ κ' β : Type} (m : List (κ × List (κ' × β))) : Prop := DictWF m ∧ ∀ e ∈ m, DictWF e.2

theorem WF2_nil {κ κ' β : Type} : WF2 ([] : List (κ × List (κ' × β))) := ⟨DictWF_nil, by simp⟩

/-! ## two-level dicts (`dict[k][k'] = v`) -/
section Two
variable {κ κ' β : Type} [DecidableEq κ] [DecidableEq κ']

/-- `m[k][k']`, `none` when either key is missing. -/
def get2 (m : List (κ × List (κ' × β))) (k : κ) (k' : κ') : Option β := alookup (agetD m k []) k'

/-- `m[k][k'] = v` on a defaultdict of dicts. -/
def set2 (m : List (κ × List (κ' × β))) (k : κ) (k' : κ') (v : β) : List (κ × List (κ' × β)) :=
  upsert m k (upsert (agetD m k []) k' v)

@[simp] theorem get2_nil (k : κ) (k' : κ') : get2 ([] : List (κ × List (κ' × β))) k k' = none := rfl

theorem get2_eq_some_iff {m : List (κ × List (κ' × β))} {k : κ} {k' : κ'} {v : β} :
    get2 m k k' = some v ↔ ∃ inner, alookup m k = some inner ∧ alookup inner k' = some v := by
  unfold get2 agetD
  cases h : alookup m k <;> simp

@[simp] theorem get2_set2 (m : List (κ × List (κ' × β))) (k : κ) (k' : κ') (v : β) (x : κ) (x' : κ') :
    get2 (set2 m k k' v) x x' = if k = x ∧ k' = x' then some v else get2 m x x' := by
  unfold get2 set2
  by_cases h : k = x
  · subst h
    by_cases h' : k' = x' <;> simp [agetD, h']
  · simp [agetD, h]

@[simp] theorem get2_atouch (m : List (κ × List (κ' × β))) (c : κ) (x : κ) (x' : κ') :
    get2 (atouch m c []) x x' = get2 m x x' := by
  simp [get2]

theorem akeys_set2 (m : List (κ × List (κ' × β))) (k : κ) (k' : κ') (v : β) :
    akeys (set2 m k k' v) = sinsert (akeys m) k := rt_akeys_upsert _ _ _

theorem mem_akeys_set2 {m : List (κ × List (κ' × β))} {k : κ} {k' : κ'} {v : β} {x : κ} :
    x ∈ akeys (set2 m k k' v) ↔ x ∈ akeys m ∨ x = k := rt_mem_akeys_upsert

omit [DecidableEq κ'] in
theorem DictWF_agetD {m : List (κ × List (κ' × β))} (h : ∀ e ∈ m, DictWF e.2) (k : κ) :
    DictWF (agetD m k []) := by
  rcases agetD_mem_or (m := m) (k := k) (d := []) with h' | h'
  · rw [h']; exact DictWF_nil
  · exact h _ h'

theorem WF2_set2 {m : List (κ × List (κ' × β))} (h : WF2 m) (k : κ) (k' : κ') (v : β) :
    WF2 (set2 m k k' v) := by
  refine ⟨DictWF_upsert h.1 _ _, ?_⟩
  intro e he
  rcases mem_upsert he with rfl | he
  · exact DictWF_upsert (DictWF_agetD h.2 k) _ _
  · exact h.2 e he

omit [DecidableEq κ'] in
theorem WF2_atouch {m : List (κ × List (κ' × β))} (h : WF2 m) (c : κ) : WF2 (atouch m c []) := by
  refine ⟨DictWF_atouch h.1 _ _, ?_⟩
  intro e he
  rcases mem_atouch he with rfl | he
  · exact DictWF_nil
  · exact h.2 e he

/-- overriding writes: after `F`, the cells described by `W` hold the written value and all
others are unchanged. -/
def Spec2 (F : List (κ × List (κ' × β)) → List (κ × List (κ' × β))) (W : κ → κ' → β → Prop) : Prop :=
  ∀ m k k' v, get2 (F m) k k' = some v ↔ W k k' v ∨ ((∀ v', ¬ W k k' v') ∧ get2 m k k' = some v)

theorem Spec2_set2 (k : κ) (k' : κ') (v : β) :
    Spec2 (fun m => set2 m k k' v) (fun x x' v' => x = k ∧ x' = k' ∧ v' = v) := by
  intro m x x' v'
  rw [get2_set2]
  by_cases h : k = x ∧ k' = x'
  · obtain ⟨rfl, rfl⟩ := h
    simp [eq_comm]
  · simp only [h, if_false]
    constructor
    · intro hg
      refine Or.inr ⟨?_, hg⟩
      rintro v'' ⟨rfl, rfl, _⟩
      exact h ⟨rfl, rfl⟩
    · rintro (⟨rfl, rfl, _⟩ | ⟨_, hg⟩)
      · exact absurd ⟨rfl, rfl⟩ h
      · exact hg

/-- a fold of overriding writes, provided that no cell is written with two different values. -/
theorem Spec2_foldl {α : Type} (f : List (κ × List (κ' × β)) → α → List (κ × List (κ' × β)))
    (W : α → κ → κ' → β → Prop) (l : List α)
    (hs : ∀ x ∈ l, Spec2 (fun m => f m x) (W x))
    (hf : ∀ x ∈ l, ∀ y ∈ l, ∀ k k' v v', W x k k' v → W y k k' v' → v = v') :
    Spec2 (fun m => l.foldl f m) (fun k k' v => ∃ x ∈ l, W x k k' v) := by
  induction l with
  | nil => intro m k k' v; simp
  | cons x l ih =>
    have ih' := ih (fun y hy => hs y (List.mem_cons_of_mem _ hy))
      (fun y hy z hz => hf y (List.mem_cons_of_mem _ hy) z (List.mem_cons_of_mem _ hz))
    have hx := hs x List.mem_cons_self
    intro m k k' v
    simp only [List.foldl_cons]
    rw [ih' (f m x) k k' v, hx m k k' v]
    constructor
    · rintro (⟨y, hy, hw⟩ | ⟨hno, hw | ⟨hno', hg⟩⟩)
      · exact Or.inl ⟨y, List.mem_cons_of_mem _ hy, hw⟩
      · exact Or.inl ⟨x, List.mem_cons_self, hw⟩
      · refine Or.inr ⟨?_, hg⟩
        rintro v' ⟨y, hy, hw⟩
        rcases List.mem_cons.1 hy with rfl | hy
        · exact hno' v' hw
        · exact hno v' ⟨y, hy, hw⟩
    · rintro (⟨y, hy, hw⟩ | ⟨hno, hg⟩)
      · rcases List.mem_cons.1 hy with rfl | hy
        · by_cases hex : ∃ v', ∃ z ∈ l, W z k k' v'
          · obtain ⟨v', z, hz, hw'⟩ := hex
            have : v = v' := hf y List.mem_cons_self z (List.mem_cons_of_mem _ hz) k k' v v' hw hw'
            subst this
            exact Or.inl ⟨z, hz, hw'⟩
          · refine Or.inr ⟨?_, Or.inl hw⟩
            intro v' hv'
            exact hex ⟨v', hv'⟩
        · exact Or.inl ⟨y, hy, hw⟩
      · refine Or.inr ⟨?_, Or.inr ⟨?_, hg⟩⟩
        · rintro v' ⟨y, hy, hw⟩
          exact hno v' ⟨y, List.mem_cons_of_mem _ hy, hw⟩
        · intro v' hw
          exact hno v' ⟨x, List.mem_cons_self, hw⟩

theorem Spec2_congr {F : List (κ × List (κ' × β)) → List (κ × List (κ' × β))}
    {W W' : κ → κ' → β → Prop} (h : ∀ k k' v, W k k' v ↔ W' k k' v) (hs : Spec2 F W) : Spec2 F W' := by
  have : W = W' := by
    funext k k' v
    exact propext (h k k' v)
  exact this ▸ hs

/-- writing the same value to a list of cells. -/
theorem Spec2_foldl_set2 (cells : List (κ × κ')) (v : β) :
    Spec2 (fun m => cells.foldl (fun m (c : κ × κ') => set2 m c.1 c.2 v) m)
      (fun k k' v' => (k, k') ∈ cells ∧ v' = v) := by
  refine Spec2_congr ?_ (Spec2_foldl (fun m (c : κ × κ') => set2 m c.1 c.2 v)
    (fun c k k' v' => k = c.1 ∧ k' = c.2 ∧ v' = v) cells (fun c _ => Spec2_set2 c.1 c.2 v) ?_)
  · intro k k' v'
    constructor
    · rintro ⟨c, hc, rfl, rfl, rfl⟩
      exact ⟨hc, rfl⟩
    · rintro ⟨hc, rfl⟩
      exact ⟨(k, k'), hc, rfl, rfl, rfl⟩
  · rintro x _ y _ k k' v1 v2 ⟨_, _, rfl⟩ ⟨_, _, rfl⟩
    rfl

/-- nothing stored is an empty inner dict. -/
def NoEmpty2 (m : List (κ × List (κ' × β))) : Prop := ∀ k inner, alookup m k = some inner → inner ≠ []

theorem NoEmpty2_set2 {m : List (κ × List (κ' × β))} (h : NoEmpty2 m) (k : κ) (k' : κ') (v : β) :
    NoEmpty2 (set2 m k k' v) := by
  intro x inner hx
  unfold set2 at hx
  rw [alookup_upsert] at hx
  by_cases hk : k = x
  · simp only [hk, if_true, Option.some.injEq] at hx
    subst hx
    exact upsert_ne_nil _ _ _
  · simp only [hk, if_false] at hx
    exact h x inner hx

end Two

end Tickit
