/-
Helper lemmas for the exception path (fail-stop).

`failIn`/`findChild` (and `pathTo`/`pathChild`) are mutually recursive over the nested
inductive `Tree`; `failIn` / `pathTo` are non-recursive wrappers around `findChild` /
`pathChild` on the *same* list, so every property is proved once for `findChild` /
`pathChild` by recursion on the list of trees (descending into the children of a `sys`
node and into the tail), and then transported through the wrapper.
-/
import TickitModel.Core.FailStop

namespace Tickit

/-! ### the wrappers, unfolded -/

theorem failIn_eq (lvl : Comp) (comps : List Tree) (target : Comp) (err : String) :
    failIn lvl comps target err =
      (findChild comps target err).map fun r =>
        { exc := r.exc, stopped := r.stopped ++ comps.map Tree.name,
          errored := r.errored ++ [lvl] } := by
  rw [failIn]; cases findChild comps target err <;> rfl

theorem pathTo_eq (lvl : Comp) (comps : List Tree) (target : Comp) :
    pathTo lvl comps target =
      (pathChild comps target).map fun p => p ++ [(lvl, comps.map Tree.name)] := by
  rw [pathTo]; cases pathChild comps target <;> rfl

theorem findChild_nil (target : Comp) (err : String) : findChild [] target err = none := by
  rw [findChild]

theorem findChild_dev (n : Comp) (rest : List Tree) (target : Comp) (err : String) :
    findChild (.dev n :: rest) target err =
      if n = target then some { exc := ⟨n, err⟩, stopped := [], errored := [] }
      else findChild rest target err := by
  rw [findChild]

theorem findChild_sys (n : Comp) (ch rest : List Tree) (target : Comp) (err : String) :
    findChild (.sys n ch :: rest) target err =
      match findChild ch target err with
      | some r => some { exc := r.exc, stopped := r.stopped ++ ch.map Tree.name,
                         errored := r.errored ++ [n] }
      | none => findChild rest target err := by
  rw [findChild, failIn_eq]; cases findChild ch target err <;> rfl

theorem pathChild_nil (target : Comp) : pathChild [] target = none := by
  rw [pathChild]

theorem pathChild_dev (n : Comp) (rest : List Tree) (target : Comp) :
    pathChild (.dev n :: rest) target =
      if n = target then some [] else pathChild rest target := by
  rw [pathChild]

theorem pathChild_sys (n : Comp) (ch rest : List Tree) (target : Comp) :
    pathChild (.sys n ch :: rest) target =
      match pathChild ch target with
      | some p => some (p ++ [(n, ch.map Tree.name)])
      | none => pathChild rest target := by
  rw [pathChild, pathTo_eq]; cases pathChild ch target <;> rfl

theorem devicesOf_nil : devicesOf [] = [] := by rw [devicesOf]

theorem devicesOf_dev (n : Comp) (rest : List Tree) :
    devicesOf (.dev n :: rest) = n :: devicesOf rest := by
  rw [devicesOf, Tree.devices]; rfl

theorem devicesOf_sys (n : Comp) (ch rest : List Tree) :
    devicesOf (.sys n ch :: rest) = devicesOf ch ++ devicesOf rest := by
  rw [devicesOf, Tree.devices]

/-! ### identity of the exception -/

theorem findChild_exc (target : Comp) (err : String) :
    ∀ (comps : List Tree) (r : Report), findChild comps target err = some r →
      r.exc = ⟨target, err⟩
  | [], r, h => by rw [findChild_nil] at h; cases h
  | .dev n :: rest, r, h => by
    rw [findChild_dev] at h
    split at h
    · next hn => cases h; rw [hn]
    · exact findChild_exc target err rest r h
  | .sys n ch :: rest, r, h => by
    rw [findChild_sys] at h
    split at h
    · next r' hc => cases h; exact findChild_exc target err ch r' hc
    · exact findChild_exc target err rest r h

/-! ### a report exists exactly for the devices of the configuration -/

theorem findChild_none_iff (target : Comp) (err : String) :
    ∀ (comps : List Tree), findChild comps target err = none ↔ target ∉ devicesOf comps
  | [] => by simp [findChild_nil, devicesOf_nil]
  | .dev n :: rest => by
    rw [findChild_dev, devicesOf_dev]
    have ih := findChild_none_iff target err rest
    by_cases hn : n = target
    · simp [hn]
    · have hn' : ¬ target = n := fun e => hn e.symm
      simp [hn, hn', ih]
  | .sys n ch :: rest => by
    rw [findChild_sys, devicesOf_sys]
    have ih₁ := findChild_none_iff target err ch
    have ih₂ := findChild_none_iff target err rest
    cases hc : findChild ch target err with
    | none => simp [ih₂, ih₁.mp hc]
    | some r' =>
      have : target ∈ devicesOf ch := by
        apply Classical.byContradiction; intro hn
        rw [ih₁.mpr hn] at hc; cases hc
      simp [this]

theorem pathChild_none_iff (target : Comp) :
    ∀ (comps : List Tree), pathChild comps target = none ↔ target ∉ devicesOf comps
  | [] => by simp [pathChild_nil, devicesOf_nil]
  | .dev n :: rest => by
    rw [pathChild_dev, devicesOf_dev]
    have ih := pathChild_none_iff target rest
    by_cases hn : n = target
    · simp [hn]
    · have hn' : ¬ target = n := fun e => hn e.symm
      simp [hn, hn', ih]
  | .sys n ch :: rest => by
    rw [pathChild_sys, devicesOf_sys]
    have ih₁ := pathChild_none_iff target ch
    have ih₂ := pathChild_none_iff target rest
    cases hc : pathChild ch target with
    | none => simp [ih₂, ih₁.mp hc]
    | some r' =>
      have : target ∈ devicesOf ch := by
        apply Classical.byContradiction; intro hn
        rw [ih₁.mpr hn] at hc; cases hc
      simp [this]

/-! ### the report covers the whole path -/

theorem findChild_path (target : Comp) (err : String) :
    ∀ (comps : List Tree) (r : Report), findChild comps target err = some r →
      ∃ p, pathChild comps target = some p ∧
        ∀ lvl ∈ p, lvl.1 ∈ r.errored ∧ ∀ c ∈ lvl.2, c ∈ r.stopped
  | [], r, h => by rw [findChild_nil] at h; cases h
  | .dev n :: rest, r, h => by
    rw [findChild_dev] at h
    rw [pathChild_dev]
    split at h
    · next hn => exact ⟨[], by simp [hn], by simp⟩
    · next hn =>
      simp only [hn, if_false]
      exact findChild_path target err rest r h
  | .sys n ch :: rest, r, h => by
    rw [findChild_sys] at h
    rw [pathChild_sys]
    split at h
    · next r' hc =>
      cases h
      obtain ⟨p, hp, hall⟩ := findChild_path target err ch r' hc
      refine ⟨p ++ [(n, ch.map Tree.name)], by rw [hp], ?_⟩
      intro lvl hl
      rcases List.mem_append.mp hl with hl | hl
      · obtain ⟨h1, h2⟩ := hall lvl hl
        exact ⟨List.mem_append_left _ h1, fun c hc' => List.mem_append_left _ (h2 c hc')⟩
      · simp only [List.mem_singleton] at hl
        subst hl
        exact ⟨by simp, fun c hc' => List.mem_append_right _ hc'⟩
    · next hc =>
      have hnone : pathChild ch target = none :=
        (pathChild_none_iff target ch).mpr ((findChild_none_iff target err ch).mp hc)
      rw [hnone]
      exact findChild_path target err rest r h

end Tickit
