/-
Helper lemmas for C09, part 15: the loop invariant of `tickLoop` for an arbitrary tick of a
nested configuration, at device level (complements `LoopInv`), and one scheduling pass.
-/
import TickitModel.Lemmas.FlattenGenAns

namespace Tickit

theorem flt_extent_closed {w : Wiring} {roots : List Comp} {a b : Comp} (ha : a ∈ extent w roots)
    (he : w.Edge a b) : b ∈ extent w roots := by
  rw [sim_mem_extent_iff] at *
  obtain ⟨r, hr, har⟩ := ha
  exact ⟨r, hr, (Wiring.dependants_closed w r).2 a har b he⟩

/-- a level is not at or below one of its own components -/
theorem Static.Valid.own_not_parent {S : Static} (hS : S.Valid) {c P : Comp}
    (hc : alookup S.parent c = some P) : ¬ S.Own c P := by
  obtain ⟨depth, hdepth⟩ := hS.nesting
  have hcne : c ≠ "" := hS.child_ne_master hc
  intro ho
  by_cases hP : P = ""
  · rcases ho with h | ⟨_, h⟩
    · exact hcne (h ▸ hP)
    · rw [hP] at h; exact hS.not_below_master _ h
  · have h1 := hdepth c P hc hP
    rcases ho with h | ⟨_, h⟩
    · rw [h] at h1; exact Nat.lt_irrefl _ h1
    · have h2 := h.depth_lt hdepth hcne
      omega

/-! ### one scheduling pass -/

/-- what `schedule_possible_updates` hands out: every component it selects has all its sources
closed (answered, or outside the tick), so an `Input` carries exactly the values of the resolved
sources that were updated, and a `Skip` means that none was -/
theorem gen_sched_pend_ok {S : Static} (hS : S.Valid) {orc : Oracle} {n : Nat} {σ₀ : SimSt}
    {Dec : Comp → Prop} {L : Level} (hL : L ∈ S.levels) {roots : List Comp} {t : SimTime}
    {tk1 : Ticker V} {trace1 : List (Ev V)} {mobs : List Obs} {ds : List (Dispatch V)}
    (hnd : (akeys tk1.toUpdate).Nodup) (hro : tk1.roots = roots) (hti : tk1.time = t)
    (hin : InputsInv L.wiring tk1.inputs trace1)
    (hnod : ∀ c, (akeys (agetD tk1.inputs c [])).Nodup)
    (hans : ∀ a chs, Ev.answer a chs ∈ trace1 → S.AnsOKG orc n σ₀ Dec L mobs a chs)
    (hout : ∀ a ∈ L.wiring.components, a ∉ extent L.wiring roots → S.AnsOKG orc n σ₀ Dec L mobs a [])
    (hres : ∀ c ∈ extent L.wiring roots, alookup tk1.toUpdate c = none → ∃ ch, Ev.answer c ch ∈ trace1)
    (hsl : Ticker.scheduleLoop L.wiring tk1 tk1.toUpdate = .ok ds) :
    ∀ d ∈ ds,
      (∀ ins, d = .input d.comp t ins →
        S.PendOKG orc n σ₀ Dec L mobs d.comp ins ∧ (d.comp ∈ roots ∨ ins ≠ [])) ∧
      (d = .skip d.comp t → d.comp ∉ roots ∧ S.SkipOKG orc n σ₀ Dec L mobs d.comp) := by
  intro d hd
  have hw := hS.routerOK hL
  have hwf := (hS.wiring_wf L hL).1
  have hcm : d.comp ∈ ds.map Dispatch.comp := List.mem_map.2 ⟨d, hd, rfl⟩
  obtain ⟨_, us, hus, hall⟩ := (mem_scheduleLoop_comps hnd hsl).1 hcm
  have hdec : d = tk1.decide d.comp := by
    have := (scheduleLoop_spec hsl).1
    rw [this] at hd
    obtain ⟨e, _, rfl⟩ := List.mem_map.1 hd
    simp
  -- every source of an input of `d.comp` is closed
  have hsrc : ∀ a p q, L.wiring.Conn a p d.comp q → ∃ chs, S.AnsOKG orc n σ₀ Dec L mobs a chs ∧
      (Ev.answer a chs ∈ trace1 ∨ chs = []) := by
    intro a p q hconn
    have hau : a ∈ us := (hw.ups_edge _ us hus a).2 ⟨p, q, hconn⟩
    have hac := (Wiring.conn_mem_components hwf hconn).1
    by_cases hae : a ∈ extent L.wiring roots
    · obtain ⟨ch, hm⟩ := hres a hae (hall a hau)
      exact ⟨ch, hans a ch hm, Or.inl hm⟩
    · exact ⟨[], hout a hac hae, Or.inr rfl⟩
  have hval : ∀ q v, alookup (agetD tk1.inputs d.comp []) q = some v ↔
      ∃ a p, L.wiring.Conn a p d.comp q ∧ S.ValG orc n σ₀ mobs L.name a p v := by
    intro q v
    rw [hin d.comp q v]
    constructor
    · rintro ⟨a, chs, p, hm, hconn, hv⟩
      exact ⟨a, p, hconn, ((hans a chs hm).2 p _ _ hconn).1 v |>.1 hv⟩
    · rintro ⟨a, p, hconn, hv⟩
      obtain ⟨chs, hok, hm | he⟩ := hsrc a p q hconn
      · exact ⟨a, chs, p, hm, hconn, ((hok.2 p _ _ hconn).1 v).2 hv⟩
      · have := ((hok.2 p _ _ hconn).1 v).2 hv
        rw [he] at this
        simp at this
  have hsd : ∀ q a p, L.wiring.Conn a p d.comp q → S.SrcDec n Dec L.name a p := by
    intro q a p hconn
    obtain ⟨chs, hok, _⟩ := hsrc a p q hconn
    exact (hok.2 p _ _ hconn).2
  rcases tk1.decide_cases d.comp with ⟨h1, h2⟩ | ⟨h1, h2, h3⟩
  · rw [← hdec, hti] at h1
    refine ⟨fun ins hdi => ?_, fun hsk => ?_⟩
    · rw [h1] at hdi
      simp only [Dispatch.comp, Dispatch.input.injEq, true_and] at hdi
      subst hdi
      refine ⟨⟨hnod _, hval, hsd⟩, ?_⟩
      rcases h2 with h2 | h2
      · exact Or.inr h2
      · exact Or.inl (hro ▸ h2)
    · rw [h1] at hsk; cases hsk
  · rw [← hdec, hti] at h1
    refine ⟨fun ins hdi => ?_, fun _ => ⟨fun hr => h3 (hro ▸ hr), fun q a p hconn => ⟨fun v hv => ?_, hsd q a p hconn⟩⟩⟩
    · rw [h1] at hdi; cases hdi
    · have := (hval q v).2 ⟨a, p, hconn, hv⟩
      rw [h2] at this
      simp at this

/-! ### the loop invariant -/

/-- invariant of `tickLoop` in an arbitrary tick of level `L` (complements `LoopInv`); `mobs0`
are the observations made in this master tick before the level's tick began -/
structure GenVal (S : Static) (orc : Oracle) (n : Nat) (σ₀ : SimSt) (t : SimTime)
    (Root : Comp → Prop) (D₀ : Comp → Prop) (L : Level) (roots : List Comp) (st0 : SimSt)
    (mobs0 : List Obs) (ls : LoopSt) (trace : List (Ev V)) (new : List Obs) : Prop where
  pre : PreInv L.wiring t roots ls.tk.toUpdate ls.pending trace
  obs_eq : ls.st.obs = st0.obs ++ new
  inputs : InputsInv L.wiring ls.tk.inputs trace
  ins_nodup : ∀ c, (akeys (agetD ls.tk.inputs c [])).Nodup
  ans_ext : ∀ a chs, Ev.answer a chs ∈ trace → a ∈ extent L.wiring roots
  ans_ok : ∀ a chs, Ev.answer a chs ∈ trace →
    S.AnsOKG orc n σ₀ (S.DecG D₀ L ls.tk.toUpdate) L (mobs0 ++ new) a chs
  out_ok : ∀ a ∈ L.wiring.components, a ∉ extent L.wiring roots →
    S.AnsOKG orc n σ₀ (S.DecG D₀ L ls.tk.toUpdate) L (mobs0 ++ new) a []
  pend_ok : ∀ d ∈ ls.pending,
    (∀ ins, d = .input d.comp t ins →
      S.PendOKG orc n σ₀ (S.DecG D₀ L ls.tk.toUpdate) L (mobs0 ++ new) d.comp ins ∧
        (d.comp ∈ roots ∨ ins ≠ [])) ∧
    (d = .skip d.comp t → d.comp ∉ roots ∧
      S.SkipOKG orc n σ₀ (S.DecG D₀ L ls.tk.toUpdate) L (mobs0 ++ new) d.comp)
  closed_dev : ∀ c, alookup S.parent c = some L.name → alookup ls.tk.toUpdate c = none →
    ∀ x, S.isDevice x → S.Own c x →
      DevValOK S orc n σ₀ Root (S.DecG D₀ L ls.tk.toUpdate) (mobs0 ++ new) ls.st x
  open_fresh : ∀ c, alookup S.parent c = some L.name → alookup ls.tk.toUpdate c ≠ none →
    (∀ x, S.Own c x → x ∉ (mobs0 ++ new).map Obs.comp ∧
      agetD ls.st.devs x {} = agetD σ₀.devs x {} ∧ agetD ls.st.count x 0 = agetD σ₀.count x 0) ∧
    (∀ s, S.Own c s → ls.st.sched s = σ₀.sched s)
  out_none : (∀ ch, Ev.answer pseudoExpose ch ∉ trace) → ls.outCh = []
  out_exp : (∃ ch, Ev.answer pseudoExpose ch ∈ trace) →
    S.PendOKG orc n σ₀ (S.DecG D₀ L ls.tk.toUpdate) L (mobs0 ++ new) pseudoExpose ls.outCh

/-- nothing belongs to a component without a parent (a mock component) except itself -/
theorem Static.Valid.own_noparent {S : Static} (hS : S.Valid) {a x : Comp}
    (ha : alookup S.parent a = none) (hns : S.isSys a = false) (h : S.Own a x) : x = a := by
  rcases h with h | ⟨hne, hb⟩
  · exact h
  · rcases hb.isSys hS.toWF with h' | h'
    · exact absurd h' hne
    · rw [hns] at h'; cases h'

/-- what belongs to two different components of a level is disjoint -/
theorem Static.Valid.own_disjoint {S : Static} (hS : S.Valid) {L : Level} (hL : L ∈ S.levels)
    {c dc x : Comp} (hc : alookup S.parent c = some L.name) (hdc : dc ∈ L.wiring.components)
    (hne : c ≠ dc) (ho : S.Own c x) : ¬ S.Own dc x := by
  intro ho'
  rcases hS.members L hL dc hdc with hp | ⟨_, hp⟩
  · exact hne (Static.Own.unique hS.toWF hc hp ho ho')
  · have hnp : alookup S.parent dc = none := by
      rcases hp with rfl | rfl
      · exact hS.pseudo_fresh.1
      · exact hS.pseudo_fresh.2.1
    have hns : S.isSys dc = false := by
      rcases hp with rfl | rfl
      · exact hS.pseudo_fresh.2.2.1
      · exact hS.pseudo_fresh.2.2.2
    have hx := hS.own_noparent hnp hns ho'
    subst hx
    rcases ho with h | ⟨_, hb⟩
    · rw [h, hc] at hnp; cases hnp
    · cases hb with
      | direct h' => rw [hnp] at h'; cases h'
      | step h' _ _ => rw [hnp] at h'; cases h'

theorem GenVal.step {S : Static} (hS : S.Valid) {orc : Oracle} {n : Nat} (hst : S.ResolveStable n)
    {σ₀ : SimSt} {t : SimTime} {Root : Comp → Prop} (ctx : TickCtx S σ₀ t Root) {fuel : Nat}
    (IH : GenIH S orc n σ₀ t Root fuel) {D₀ : Comp → Prop} {L : Level} (hL : L ∈ S.levels)
    {roots : List Comp} {st0 : SimSt} {mobs0 : List Obs} {inCh : List (Port × V)}
    (hpre0 : GenPre S orc n σ₀ Root D₀ L.name L roots inCh st0 mobs0)
    {ls : LoopSt} {tr_ : List (Ev V)} {new_ : List Obs} (linv : LoopInv S L t roots st0 ls tr_ new_)
    {trace : List (Ev V)} {new : List Obs}
    (iv : GenVal S orc n σ₀ t Root D₀ L roots st0 mobs0 ls trace new)
    {d : Dispatch V} {rest : List (Dispatch V)} (hp : ls.pending = d :: rest)
    {st' : SimSt} {outCh' changes : List (Port × V)} {callAt : Option SimTime}
    (ha : simAnswer S orc fuel L inCh ls.st ls.outCh d = .ok (st', outCh', changes, callAt))
    {tk' : Ticker V} {ds : List (Dispatch V)}
    (hprop : ls.tk.propagate L.wiring d.comp d.time changes = .ok (tk', ds)) :
    ∃ new1, GenVal S orc n σ₀ t Root D₀ L roots st0 mobs0
      ⟨tk', rest ++ ds, outCh', simWake st' L.name d.comp callAt⟩
      (trace ++ [Ev.answer d.comp changes] ++ ds.map Ev.dispatch) (new ++ new1) := by
  have hw := hS.routerOK hL
  have hwf := (hS.wiring_wf L hL).1
  obtain ⟨hne, htime, hsl, htu, htk, hroots'⟩ := sim_propagate_eq_ok hprop
  have hinp := flt_propagate_inputs hprop
  have hdm : d ∈ ls.pending := by rw [hp]; simp
  have hsub : ∀ d' ∈ rest, d' ∈ ls.pending := by
    intro d' h'; rw [hp]; exact List.mem_cons_of_mem _ h'
  have hd0 : ls.pending[0]? = some d := by rw [hp]; rfl
  have h0 : alookup ls.tk.toUpdate d.comp = some true := (iv.pre.pend_flag _).1 ⟨d, hdm, rfl⟩
  have hopen : alookup ls.tk.toUpdate d.comp ≠ none := by rw [h0]; simp
  have hdc : d.comp ∈ L.wiring.components := linv.pend_comp d hdm
  have hdt : d.time = t := htime.trans linv.time
  have hnew : new_ = new := List.append_cancel_left (linv.obs_eq.symm.trans iv.obs_eq)
  subst hnew
  have hnone : ∀ x, alookup tk'.toUpdate x = none ↔ x = d.comp ∨ alookup ls.tk.toUpdate x = none := by
    intro x
    rw [htu, alookup_markDispatched_eq_none, alookup_aerase iv.pre.nodup]
    by_cases hx : x = d.comp <;> simp [hx]
  have hmono : ∀ y, S.DecG D₀ L ls.tk.toUpdate y → S.DecG D₀ L tk'.toUpdate y :=
    fun y hy => hy.mono (fun c' hc' => (hnone c').2 (Or.inr hc'))
  have hd0' : ∀ x, D₀ x → ¬ S.Below L.name x := hpre0.d0_out
  have hobsm : ls.st.obs = σ₀.obs ++ (mobs0 ++ new_) := by
    rw [iv.obs_eq, hpre0.obs_eq, List.append_assoc]
  have IHpost : ∀ lvl t roots inCh st st' out,
      tickLevel S orc fuel lvl t roots inCh st = .ok (st', out) → LevelPost S lvl t roots st st' :=
    fun lvl t roots inCh st st' out => tickLevel_post hS.toWF orc fuel lvl t roots inCh st st' out
  have IHframe : ∀ lvl t roots inCh st st' out,
      tickLevel S orc fuel lvl t roots inCh st = .ok (st', out) → FrameL S lvl st st' :=
    fun lvl t roots inCh st st' out => tickLevel_frame hS.toWF orc fuel lvl t roots inCh st st' out
  obtain ⟨newA, hobsA, _, hownA, _, _⟩ := simAnswer_spec hS.toWF IHpost hL hdc ha
  have hfa := simAnswer_frame hS.toWF IHframe ha
  have hext_in : S.AnsOKG orc n σ₀ (S.DecG D₀ L ls.tk.toUpdate) L (mobs0 ++ new_) pseudoExternal inCh ∨
      L.name = "" := by
    by_cases hn : L.name = ""
    · exact Or.inr hn
    · refine Or.inl ⟨hpre0.in_nodup, fun p b q _ => ⟨fun v => ?_, fun a₀ p₀ hr => Or.inl (hpre0.in_dec p a₀ p₀ hr)⟩⟩
      rw [hpre0.in_ok p v]
      refine Static.ValG.congr (Dec := D₀) (hpre0.in_dec p) (fun y hy => ?_) v
      apply flt_mem_map_append_iff
      intro hm
      obtain ⟨o, ho, rfl⟩ := List.mem_map.1 hm
      obtain ⟨_, _, c', hc', _, hown'⟩ := linv.obs_own o ho
      exact hd0' _ hy (hown'.below hc')
  -- the record of this answer
  have hrec : ∃ new1, st'.obs = ls.st.obs ++ new1 ∧
      S.AnsOKG orc n σ₀ (S.DecG D₀ L tk'.toUpdate) L ((mobs0 ++ new_) ++ new1) d.comp changes ∧
      (alookup S.parent d.comp = some L.name → ∀ x, S.isDevice x → S.Own d.comp x →
        DevValOK S orc n σ₀ Root (S.DecG D₀ L tk'.toUpdate) ((mobs0 ++ new_) ++ new1) st' x) ∧
      ((∃ ins, d = .input pseudoExpose t ins) → L.name ≠ "" →
        S.PendOKG orc n σ₀ (S.DecG D₀ L tk'.toUpdate) L ((mobs0 ++ new_) ++ new1) pseudoExpose outCh') ∧
      (¬ ((∃ ins, d = .input pseudoExpose t ins) ∧ L.name ≠ "") → outCh' = ls.outCh) ∧
      (d = .skip pseudoExpose t →
        S.SkipOKG orc n σ₀ (S.DecG D₀ L tk'.toUpdate) L ((mobs0 ++ new_) ++ new1) pseudoExpose) := by
    cases d with
    | skip c t' =>
      simp only [Dispatch.time] at hdt
      subst hdt
      simp only [Dispatch.comp] at hdc hopen h0 hfa hnone hownA
      simp only [simAnswer, Except.ok.injEq, Prod.mk.injEq] at ha
      obtain ⟨rfl, rfl, rfl, _⟩ := ha
      obtain ⟨hnr0, hskip⟩ := (iv.pend_ok _ hdm).2 rfl
      simp only [Dispatch.comp] at hnr0 hskip
      have hskip' := hskip.transport hmono (fun _ _ => Iff.rfl)
      refine ⟨[], by simp, ?_, ?_, ?_, fun _ => rfl, ?_⟩
      · by_cases hpar : alookup S.parent c = some L.name
        · have hcx : c ≠ pseudoExternal := by
            intro he; rw [he, hS.pseudo_fresh.1] at hpar; cases hpar
          have hnr : ¬ Root c := fun hr => hnr0 ((hpre0.hroots c hdc hcx).2 hr)
          obtain ⟨hof, _⟩ := iv.open_fresh c hpar hopen
          simpa [Dispatch.comp] using (unticked_ok hS hst ctx hL (st := ls.st) hpar hnr ((hnone c).2 (Or.inl rfl)) hskip'
            (fun x hx => (hof x hx).1) (fun x hx => (hof x hx).2)).1
        · rcases hS.members L hL c hdc with h' | ⟨hnn, h' | h'⟩
          · exact absurd h' hpar
          · exact absurd (h' ▸ hpre0.ext_root hnn) hnr0
          · refine ⟨by simp, fun p b q hconn => ?_⟩
            exact absurd h' (hS.pseudo_dir L hL _ _ _ _ hconn).2
      · intro hpar0 x hxd hown
        have hpar : alookup S.parent c = some L.name := hpar0
        have hcx : c ≠ pseudoExternal := by
          intro he; rw [he, hS.pseudo_fresh.1] at hpar; cases hpar
        have hnr : ¬ Root c := fun hr => hnr0 ((hpre0.hroots c hdc hcx).2 hr)
        obtain ⟨hof, _⟩ := iv.open_fresh c hpar hopen
        simpa [Dispatch.comp] using (unticked_ok hS hst ctx hL (st := ls.st) hpar hnr ((hnone c).2 (Or.inl rfl)) hskip'
          (fun x hx => (hof x hx).1) (fun x hx => (hof x hx).2)).2 x hxd hown
      · rintro ⟨ins, hi⟩; cases hi
      · intro he
        simp only [Dispatch.skip.injEq] at he
        obtain ⟨rfl, _⟩ := he
        simpa using hskip'
    | input c t' ins =>
      simp only [Dispatch.time] at hdt
      subst hdt
      simp only [Dispatch.comp] at hdc hopen h0 hfa hnone hownA
      obtain ⟨hpend, hwhy⟩ := (iv.pend_ok _ hdm).1 ins rfl
      simp only [Dispatch.comp] at hpend hwhy
      obtain ⟨new1, hobs1, hans1, hdev1, hout1, hout2⟩ :=
        simAnswer_gen hS hst ctx IH hL hd0' hpre0.hroots hobsm hext_in hdc hopen hnone
          (fun hpar x hx => ((iv.open_fresh c hpar hopen).1 x hx).1)
          (fun hpar x hx => ((iv.open_fresh c hpar hopen).1 x hx).2)
          (fun hpar s hs => (iv.open_fresh c hpar hopen).2 s hs) hpend hwhy ha
      refine ⟨new1, hobs1, hans1, hdev1, ?_, ?_, ?_⟩
      · rintro ⟨ins', hi⟩ hnn
        simp only [Dispatch.input.injEq] at hi
        obtain ⟨rfl, _, rfl⟩ := hi
        rw [hout1 ⟨rfl, hnn⟩]
        have hn1 : new1 = [] := by
          have hnp : alookup S.parent pseudoExpose = none := hS.pseudo_fresh.2.1
          have : newA = new1 := List.append_cancel_left (hobsA.symm.trans hobs1)
          subst this
          cases hna : newA with
          | nil => rfl
          | cons o _ =>
            have := (hownA o (by rw [hna]; simp)).2.2.1
            rw [hnp] at this; cases this
        rw [hn1]
        simpa using hpend.transport hmono (fun _ _ => Iff.rfl)
      · intro hno
        apply hout2
        rintro ⟨he, hnn⟩
        exact hno ⟨⟨ins, by rw [he]⟩, hnn⟩
      · intro he; cases he
  obtain ⟨new1, hobs1, hans1, hdev1, hoe1, hoe2, hoe3⟩ := hrec
  have hnewA : newA = new1 := List.append_cancel_left (hobsA.symm.trans hobs1)
  subst hnewA
  -- observations of this answer belong to the addressed component, which was open
  have hnotdec : ∀ y, S.DecG D₀ L ls.tk.toUpdate y → y ∉ newA.map Obs.comp := by
    intro y hy hm
    obtain ⟨o, ho, rfl⟩ := List.mem_map.1 hm
    obtain ⟨_, _, hpar, hown⟩ := hownA o ho
    exact hy.not_own hd0' hpar hopen hown
  have hmm : ∀ y, S.DecG D₀ L ls.tk.toUpdate y →
      (y ∈ (mobs0 ++ new_).map Obs.comp ↔ y ∈ ((mobs0 ++ new_) ++ newA).map Obs.comp) :=
    fun y hy => flt_mem_map_append_iff (hnotdec y hy)
  have hassoc : mobs0 ++ (new_ ++ newA) = (mobs0 ++ new_) ++ newA := (List.append_assoc _ _ _).symm
  have hfresh : ∀ ch', Ev.answer d.comp ch' ∉ trace := by
    intro ch' hm
    have := (iv.pre.resolved d.comp (iv.pre.keys_ext _ hopen)).2 ⟨ch', hm⟩
    rw [h0] at this; cases this
  have hpreA := iv.pre.answer hd0 changes
  have hpreS := hpreA.schedule (tk := ls.tk.afterAnswer L.wiring d.comp changes) linv.time hsl
  have hinA : InputsInv L.wiring (addInputs ls.tk.inputs (L.wiring.route d.comp changes))
      (trace ++ [Ev.answer d.comp changes]) := iv.inputs.answer hw hans1.1 hfresh
  have hnodA : ∀ c, (akeys (agetD (addInputs ls.tk.inputs (L.wiring.route d.comp changes)) c [])).Nodup := by
    intro c
    rw [agetD_addInputs _ (hw.route_wf d.comp changes).1]
    exact nodup_akeys_aupdate (iv.ins_nodup c) _
  have hansA : ∀ a chs, Ev.answer a chs ∈ trace ++ [Ev.answer d.comp changes] →
      S.AnsOKG orc n σ₀ (S.DecG D₀ L tk'.toUpdate) L ((mobs0 ++ new_) ++ newA) a chs := by
    intro a chs hm
    simp only [List.mem_append, List.mem_singleton, Ev.answer.injEq] at hm
    rcases hm with hm | ⟨rfl, rfl⟩
    · exact (iv.ans_ok a chs hm).transport hmono hmm
    · exact hans1
  have houtA : ∀ a ∈ L.wiring.components, a ∉ extent L.wiring roots →
      S.AnsOKG orc n σ₀ (S.DecG D₀ L tk'.toUpdate) L ((mobs0 ++ new_) ++ newA) a [] :=
    fun a ha hae => (iv.out_ok a ha hae).transport hmono hmm
  have hpendS := gen_sched_pend_ok hS (orc := orc) (n := n) (σ₀ := σ₀)
    (Dec := S.DecG D₀ L tk'.toUpdate) hL (roots := roots) (t := t)
    (tk1 := ls.tk.afterAnswer L.wiring d.comp changes)
    (trace1 := trace ++ [Ev.answer d.comp changes]) (mobs := (mobs0 ++ new_) ++ newA)
    hpreA.nodup linv.troots linv.time hinA hnodA hansA houtA
    (fun c hc hn => (hpreA.resolved c hc).1 hn) hsl
  -- another open or closed component of the level has nothing in common with the addressed one
  have hdisj : ∀ c, alookup S.parent c = some L.name → c ≠ d.comp → ∀ x, S.Own c x → ¬ S.Own d.comp x :=
    fun c hc hne x ho => hS.own_disjoint hL hc hdc hne ho
  refine ⟨newA, ?_⟩
  exact
    { pre := by
        have := hpreS.1
        rw [hp] at this
        show PreInv L.wiring t roots tk'.toUpdate (rest ++ ds) _
        rw [htu]
        exact this
      obs_eq := by
        show (simWake st' L.name d.comp callAt).obs = _
        rw [simWake_obs, hobs1, iv.obs_eq, List.append_assoc]
      inputs := by
        show InputsInv L.wiring tk'.inputs _
        rw [hinp]
        exact hinA.congr (by simp)
      ins_nodup := by
        intro c
        show (akeys (agetD tk'.inputs c [])).Nodup
        rw [hinp]; exact hnodA c
      ans_ext := by
        intro a chs hm
        simp only [List.mem_append, List.mem_singleton, Ev.answer.injEq, List.mem_map,
          reduceCtorEq, and_false, exists_false, or_false] at hm
        rcases hm with hm | ⟨rfl, _⟩
        · exact iv.ans_ext a chs hm
        · exact iv.pre.keys_ext _ hopen
      ans_ok := by
        intro a chs hm
        show S.AnsOKG orc n σ₀ (S.DecG D₀ L tk'.toUpdate) L (mobs0 ++ (new_ ++ newA)) a chs
        rw [hassoc]
        apply hansA
        simpa using hm
      out_ok := by
        intro a ha hae
        show S.AnsOKG orc n σ₀ (S.DecG D₀ L tk'.toUpdate) L (mobs0 ++ (new_ ++ newA)) a []
        rw [hassoc]
        exact houtA a ha hae
      pend_ok := by
        intro d' hd'
        show (∀ ins, d' = .input d'.comp t ins →
          S.PendOKG orc n σ₀ (S.DecG D₀ L tk'.toUpdate) L (mobs0 ++ (new_ ++ newA)) d'.comp ins ∧ _) ∧
          (d' = .skip d'.comp t → d'.comp ∉ roots ∧
            S.SkipOKG orc n σ₀ (S.DecG D₀ L tk'.toUpdate) L (mobs0 ++ (new_ ++ newA)) d'.comp)
        rw [hassoc]
        rcases List.mem_append.1 hd' with hd' | hd'
        · obtain ⟨h1, h2⟩ := iv.pend_ok d' (hsub d' hd')
          exact ⟨fun ins hi => ⟨((h1 ins hi).1).transport hmono hmm, (h1 ins hi).2⟩,
            fun hs => ⟨(h2 hs).1, ((h2 hs).2).transport hmono hmm⟩⟩
        · exact hpendS d' hd'
      closed_dev := by
        intro c hc hcn x hxd hown
        show DevValOK S orc n σ₀ Root (S.DecG D₀ L tk'.toUpdate) (mobs0 ++ (new_ ++ newA))
          (simWake st' L.name d.comp callAt) x
        rw [hassoc]
        rcases (hnone c).1 hcn with rfl | hcn'
        · exact (hdev1 hc x hxd hown).transport (fun _ h => h) (fun o ho => ho)
            (fun o ho hno => absurd ho hno) ⟨rfl, rfl⟩
        · have hcd : c ≠ d.comp := by
            intro h'; rw [h'] at hcn'; exact hopen hcn'
          have hno := hdisj c hc hcd x hown
          refine (iv.closed_dev c hc hcn' x hxd hown).transport hmono
            (fun o ho => List.mem_append_left _ ho) ?_ ⟨hfa.devs x hno, hfa.count x hno⟩
          intro o ho hnm
          have hoA : o ∈ newA := by
            rcases List.mem_append.1 ho with h' | h'
            · exact absurd h' hnm
            · exact h'
          obtain ⟨_, _, hpar, hownd⟩ := hownA o hoA
          refine ⟨fun he => hno (he ▸ hownd), fun hdec => ?_⟩
          exact hnotdec _ hdec (List.mem_map.2 ⟨o, hoA, rfl⟩)
      open_fresh := by
        intro c hc hcn
        have hcd : c ≠ d.comp := fun h' => hcn ((hnone c).2 (Or.inl h'))
        have hcn' : alookup ls.tk.toUpdate c ≠ none := fun h' => hcn ((hnone c).2 (Or.inr h'))
        obtain ⟨hof, hos⟩ := iv.open_fresh c hc hcn'
        refine ⟨fun x hx => ?_, fun s hs => ?_⟩
        · have hno := hdisj c hc hcd x hx
          obtain ⟨f1, f2, f3⟩ := hof x hx
          refine ⟨?_, (hfa.devs x hno).trans f2, (hfa.count x hno).trans f3⟩
          show x ∉ (mobs0 ++ (new_ ++ newA)).map Obs.comp
          rw [hassoc, List.map_append, List.mem_append, not_or]
          refine ⟨f1, fun hm => ?_⟩
          obtain ⟨o, ho, rfl⟩ := List.mem_map.1 hm
          exact hno (hownA o ho).2.2.2
        · have hno := hdisj c hc hcd s hs
          have hsl' : s ≠ L.name := fun h' => hS.own_not_parent hc (h' ▸ hs)
          rw [simWake_sched _ _ _ _ _ hsl', hfa.sched s hno]
          exact hos s hs
      out_none := by
        intro hno
        show outCh' = []
        have hne' : ¬ ((∃ ins, d = .input pseudoExpose t ins) ∧ L.name ≠ "") := by
          rintro ⟨⟨ins, he⟩, _⟩
          refine hno changes ?_
          have : d.comp = pseudoExpose := by rw [he]; rfl
          rw [← this]; simp
        rw [hoe2 hne']
        exact iv.out_none (fun ch hm => hno ch (by simp [hm]))
      out_exp := by
        rintro ⟨ch, hm⟩
        show S.PendOKG orc n σ₀ (S.DecG D₀ L tk'.toUpdate) L (mobs0 ++ (new_ ++ newA)) pseudoExpose outCh'
        rw [hassoc]
        by_cases he : d.comp = pseudoExpose
        · have hnn : L.name ≠ "" := by
            rcases hS.members L hL _ hdc with h' | ⟨h', _⟩
            · rw [he, hS.pseudo_fresh.2.1] at h'; cases h'
            · exact h'
          cases d with
          | input c t' ins =>
            simp only [Dispatch.comp] at he
            simp only [Dispatch.time] at hdt
            subst he hdt
            exact hoe1 ⟨ins, rfl⟩ hnn
          | skip c t' =>
            simp only [Dispatch.comp] at he
            simp only [Dispatch.time] at hdt
            subst he hdt
            have hsk := hoe3 rfl
            have hold : ∀ ch, Ev.answer pseudoExpose ch ∉ trace := hfresh
            have hout0 : outCh' = [] := by
              rw [hoe2 (by rintro ⟨⟨ins, hi⟩, _⟩; cases hi)]
              exact iv.out_none hold
            rw [hout0]
            refine ⟨by simp, fun q v => ?_, fun q a p hconn => (hsk q a p hconn).2⟩
            constructor
            · intro h'; simp at h'
            · rintro ⟨a, p, hconn, hv⟩
              exact absurd hv ((hsk q a p hconn).1 v)
        · have hold : ∃ ch, Ev.answer pseudoExpose ch ∈ trace := by
            simp only [List.mem_append, List.mem_singleton, Ev.answer.injEq, List.mem_map,
              reduceCtorEq, and_false, exists_false, or_false] at hm
            rcases hm with hm | ⟨h1, _⟩
            · exact ⟨ch, hm⟩
            · exact absurd h1.symm he
          have hne' : ¬ ((∃ ins, d = .input pseudoExpose t ins) ∧ L.name ≠ "") := by
            rintro ⟨⟨ins, hi⟩, _⟩
            apply he; rw [hi]; rfl
          rw [hoe2 hne']
          exact (iv.out_exp hold).transport hmono hmm }

end Tickit
