/-
Helper lemmas for C03 (Synced invariant of the flat multi-tick system).
All declarations here live in namespace `Tickit.Sync` to avoid clashes.
-/
import TickitModel.Lemmas.FlatLemmas

set_option linter.unusedSectionVars false

namespace Tickit.Sync

open Tickit

variable {Val : Type} [DecidableEq Val]

/-! ### dictionaries -/

section Dict

variable {κ β : Type} [DecidableEq κ]

theorem nodup_akeys_filter {m : List (κ × β)} (hn : (akeys m).Nodup) (p : κ × β → Bool) :
    (akeys (m.filter p)).Nodup :=
  hn.sublist (List.Sublist.map _ List.filter_sublist)

theorem nodup_akeys_normDict (items : List (Port × Val)) : (akeys (normDict items)).Nodup :=
  nodup_akeys_aupdate (by simp) items

theorem nodup_akeys_outChanges {last outs : List (Port × Val)} (hn : (akeys outs).Nodup) :
    (akeys (outChanges last outs)).Nodup := by
  unfold outChanges
  exact nodup_akeys_filter hn _

/-- lookup in the `Output.changes`: the value reported now, provided it differs from the
previous report. -/
theorem alookup_outChanges {last outs : List (Port × Val)} (hn : (akeys outs).Nodup) (p : Port)
    (v : Val) :
    alookup (outChanges last outs) p = some v ↔ alookup outs p = some v ∧ alookup last p ≠ some v := by
  rw [alookup_eq_some_iff_mem (nodup_akeys_outChanges hn), changed_iff, alookup_eq_some_iff_mem hn]

/-- the ghost log after one report of component `c` with the dict `outs`. -/
theorem alookup_foldl_report (c : Comp) {outs : List (Port × Val)} (hn : (akeys outs).Nodup)
    (rep : List ((Comp × Port) × Val)) (a : Comp) (p : Port) :
    alookup (outs.foldl (fun acc pv => upsert acc (c, pv.1) pv.2) rep) (a, p) =
      if c = a then (alookup outs p).orElse (fun _ => alookup rep (a, p)) else alookup rep (a, p) := by
  induction outs generalizing rep with
  | nil => simp
  | cons e outs ih =>
    obtain ⟨k, v⟩ := e
    simp only [akeys_cons, List.nodup_cons] at hn
    rw [List.foldl_cons, ih hn.2, alookup_upsert, alookup_cons]
    by_cases hc : c = a
    · subst hc
      by_cases hk : k = p
      · subst hk
        have : alookup outs k = none := alookup_eq_none_iff.2 hn.1
        simp [this]
      · simp [hk]
    · simp [hc]

/-- keys after a sequence of `upsert`s. -/
theorem mem_akeys_foldl_upsert (cs : List κ) (b : β) (m : List (κ × β)) (x : κ) :
    x ∈ akeys (cs.foldl (fun acc c => upsert acc c b) m) ↔ x ∈ akeys m ∨ x ∈ cs := by
  induction cs generalizing m with
  | nil => simp
  | cons c cs ih =>
    rw [List.foldl_cons, ih, mem_akeys_upsert]
    simp only [List.mem_cons]
    constructor
    · rintro ((h | h) | h)
      · exact Or.inr (Or.inl h)
      · exact Or.inl h
      · exact Or.inr (Or.inr h)
    · rintro (h | h | h)
      · exact Or.inl (Or.inr h)
      · exact Or.inl (Or.inl h)
      · exact Or.inr h

end Dict

/-! ### the extent of a tick -/

theorem mem_extent_iff (w : Wiring) (roots : List Comp) (c : Comp) :
    c ∈ extent w roots ↔ ∃ r ∈ roots, c ∈ w.dependants r := by
  unfold extent Ticker.startTick
  simp only
  suffices h : ∀ (rs : List Comp) (tu : List (Comp × Bool)),
      c ∈ akeys (rs.foldl (fun acc r => (w.dependants r).foldl (fun acc c => upsert acc c false) acc) tu) ↔
        c ∈ akeys tu ∨ ∃ r ∈ rs, c ∈ w.dependants r by
    simpa using h roots []
  intro rs
  induction rs with
  | nil => intro tu; simp
  | cons r rs ih =>
    intro tu
    rw [List.foldl_cons, ih, mem_akeys_foldl_upsert]
    simp only [List.mem_cons, exists_eq_or_imp]
    exact or_assoc

/-- the extent is closed under wires. -/
theorem extent_closed {w : Wiring} {roots : List Comp} {a b : Comp} (ha : a ∈ extent w roots)
    (he : w.Edge a b) : b ∈ extent w roots := by
  rw [mem_extent_iff] at *
  obtain ⟨r, hr, har⟩ := ha
  exact ⟨r, hr, (Wiring.dependants_closed w r).2 a har b he⟩

/-- dependants of components are components. -/
theorem extent_sub_components {w : Wiring} {roots : List Comp} (hr : ∀ r ∈ roots, r ∈ w.components)
    {c : Comp} (hc : c ∈ extent w roots) : c ∈ w.components := by
  rw [mem_extent_iff] at hc
  obtain ⟨r, hrr, hcr⟩ := hc
  unfold Wiring.dependants at hcr
  refine bfs_sound w.children (· ∈ w.components) ?_ w.bfsFuel [r] [] ?_ (by simp) c hcr
  · intro d ch _ hch b hb
    exact (Wiring.mem_components w b).2 (Or.inl (Wiring.children_subset_inputs hch b hb))
  · intro x hx
    rw [List.mem_singleton] at hx
    exact hx ▸ hr r hrr

theorem hroots_of_components {w : Wiring} {roots : List Comp} (hr : ∀ r ∈ roots, r ∈ w.components) :
    ∀ c ∈ extent w roots, (w.ups c).isSome := by
  intro c hc
  exact (Wiring.ups_isSome_iff' w c).2 (extent_sub_components hr hc)

/-! ### the effect of one dispatch -/

theorem absorb_skip (st : FlatSt Val) (dev : DevFn Val) (c : Comp) (t : SimTime) :
    st.absorb dev (.skip c t) = st := rfl

/-- the outputs device `c` returns (as a dict) when updated from `st` with the changes `ins`. -/
def outsOf (st : FlatSt Val) (dev : DevFn Val) (c : Comp) (t : SimTime) (ins : List (Port × Val)) :
    List (Port × Val) :=
  normDict (dev c t ((st.comp c).merge ins)).outs

theorem nodup_akeys_outsOf (st : FlatSt Val) (dev : DevFn Val) (c : Comp) (t : SimTime)
    (ins : List (Port × Val)) : (akeys (outsOf st dev c t ins)).Nodup :=
  nodup_akeys_normDict _

theorem react_eq (st : FlatSt Val) (dev : DevFn Val) (t : SimTime) (c : Comp)
    (ins : List (Port × Val)) :
    st.react dev t c ins = outChanges (st.comp c).lastOutputs (outsOf st dev c t ins) := rfl

theorem reactWF (st : FlatSt Val) (dev : DevFn Val) (t : SimTime) : ReactWF (st.react dev t) :=
  fun c ins => nodup_akeys_outChanges (nodup_akeys_outsOf st dev c t ins)

theorem comp_absorb_input (st : FlatSt Val) (dev : DevFn Val) (c : Comp) (t : SimTime)
    (ins : List (Port × Val)) (x : Comp) :
    (st.absorb dev (.input c t ins)).comp x =
      if c = x then { deviceInputs := (st.comp c).merge ins, lastOutputs := outsOf st dev c t ins }
      else st.comp x := by
  show agetD (upsert st.comps c _) x {} = _
  rw [agetD, alookup_upsert]
  split
  · rfl
  · rfl

theorem reported_absorb_input (st : FlatSt Val) (dev : DevFn Val) (c : Comp) (t : SimTime)
    (ins : List (Port × Val)) (a : Comp) (p : Port) :
    alookup (st.absorb dev (.input c t ins)).reported (a, p) =
      if c = a then (alookup (outsOf st dev c t ins) p).orElse (fun _ => alookup st.reported (a, p))
      else alookup st.reported (a, p) :=
  alookup_foldl_report c (nodup_akeys_outsOf st dev c t ins) st.reported a p

theorem obs_absorb_input (st : FlatSt Val) (dev : DevFn Val) (c : Comp) (t : SimTime)
    (ins : List (Port × Val)) :
    (st.absorb dev (.input c t ins)).obs = st.obs ++ [(c, t, (st.comp c).merge ins)] := rfl

/-- two states look the same from component `c`: same component state, same reports of `c`. -/
def Agree (c : Comp) (s1 s2 : FlatSt Val) : Prop :=
  s1.comp c = s2.comp c ∧ ∀ p, alookup s1.reported (c, p) = alookup s2.reported (c, p)

theorem Agree.refl (c : Comp) (s : FlatSt Val) : Agree c s s := ⟨rfl, fun _ => rfl⟩

theorem Agree.trans {c : Comp} {s1 s2 s3 : FlatSt Val} (h1 : Agree c s1 s2) (h2 : Agree c s2 s3) :
    Agree c s1 s3 := ⟨h1.1.trans h2.1, fun p => (h1.2 p).trans (h2.2 p)⟩

/-- a dispatch to another component is invisible from `c`. -/
theorem absorb_agree_ne (st : FlatSt Val) (dev : DevFn Val) {d : Dispatch Val} {c : Comp}
    (h : d.comp ≠ c) : Agree c (st.absorb dev d) st := by
  cases d with
  | skip c' t => exact Agree.refl _ _
  | input c' t ins =>
    simp only [Dispatch.comp] at h
    refine ⟨?_, fun p => ?_⟩
    · rw [comp_absorb_input, if_neg h]
    · rw [reported_absorb_input, if_neg h]

/-- what a dispatch does to its component depends only on what is visible from it. -/
theorem absorb_congr (dev : DevFn Val) {s1 s2 : FlatSt Val} (d : Dispatch Val)
    (h : Agree d.comp s1 s2) : Agree d.comp (s1.absorb dev d) (s2.absorb dev d) := by
  cases d with
  | skip c' t => exact h
  | input c' t ins =>
    simp only [Dispatch.comp] at h ⊢
    refine ⟨?_, fun p => ?_⟩
    · rw [comp_absorb_input, comp_absorb_input, if_pos rfl, if_pos rfl, outsOf, outsOf, h.1]
    · rw [reported_absorb_input, reported_absorb_input, if_pos rfl, if_pos rfl, outsOf, outsOf,
        h.1, h.2]

/-! ### folding the dispatches of a trace -/

@[simp] theorem afterTick_nil (st : FlatSt Val) (dev : DevFn Val) : st.afterTick dev [] = st := rfl

theorem afterTick_cons_dispatch (st : FlatSt Val) (dev : DevFn Val) (d : Dispatch Val)
    (tr : List (Ev Val)) :
    st.afterTick dev (Ev.dispatch d :: tr) = (st.absorb dev d).afterTick dev tr := rfl

theorem afterTick_cons_answer (st : FlatSt Val) (dev : DevFn Val) (a : Comp)
    (ch : List (Port × Val)) (tr : List (Ev Val)) :
    st.afterTick dev (Ev.answer a ch :: tr) = st.afterTick dev tr := rfl

theorem count_tail {e : Ev Val} {tr : List (Ev Val)} {c : Comp}
    (h : ((e :: tr).filter (Ev.isDispatchOf c)).length ≤ 1) :
    (tr.filter (Ev.isDispatchOf c)).length ≤ 1 := by
  rw [List.filter_cons] at h
  split at h
  · simp only [List.length_cons] at h; omega
  · exact h

theorem count_head {d : Dispatch Val} {tr : List (Ev Val)}
    (h : ((Ev.dispatch d :: tr).filter (Ev.isDispatchOf d.comp)).length ≤ 1) :
    dispatchOf tr d.comp = none := by
  rw [List.filter_cons, if_pos (by simp [Ev.isDispatchOf])] at h
  simp only [List.length_cons] at h
  rw [dispatchOf_eq_none_iff]
  intro d' hd' hc
  have : Ev.dispatch d' ∈ tr.filter (Ev.isDispatchOf d.comp) :=
    List.mem_filter.2 ⟨hd', by simp [Ev.isDispatchOf, hc]⟩
  have := List.length_pos_of_mem this
  omega

/-- a component that is not dispatched is not touched. -/
theorem afterTick_agree_none (dev : DevFn Val) {tr : List (Ev Val)} {c : Comp}
    (h : dispatchOf tr c = none) (st : FlatSt Val) : Agree c (st.afterTick dev tr) st := by
  induction tr generalizing st with
  | nil => exact Agree.refl _ _
  | cons e tr ih =>
    cases e with
    | answer a ch =>
      rw [dispatchOf_cons_answer] at h
      exact ih h st
    | dispatch d =>
      rw [dispatchOf_cons_dispatch] at h
      by_cases hc : d.comp = c
      · simp [hc] at h
      · simp only [hc, if_false] at h
        rw [afterTick_cons_dispatch]
        exact (ih h _).trans (absorb_agree_ne st dev hc)

/-- a component dispatched (at most) once sees exactly the effect of that dispatch on its
pre-tick state. -/
theorem afterTick_agree_some (dev : DevFn Val) {tr : List (Ev Val)} {c : Comp} {d : Dispatch Val}
    (hcount : (tr.filter (Ev.isDispatchOf c)).length ≤ 1) (h : dispatchOf tr c = some d)
    (st : FlatSt Val) : Agree c (st.afterTick dev tr) (st.absorb dev d) := by
  induction tr generalizing st with
  | nil => simp at h
  | cons e tr ih =>
    cases e with
    | answer a ch =>
      rw [dispatchOf_cons_answer] at h
      exact ih (count_tail hcount) h st
    | dispatch d' =>
      rw [dispatchOf_cons_dispatch] at h
      rw [afterTick_cons_dispatch]
      by_cases hc : d'.comp = c
      · simp only [hc, if_true, Option.some.injEq] at h
        subst h
        subst hc
        exact afterTick_agree_none dev (count_head hcount) _
      · simp only [hc, if_false] at h
        have hdc : d.comp = c := (dispatchOf_eq_some h).2
        refine (ih (count_tail hcount) h _).trans ?_
        have := absorb_congr dev d (hdc ▸ absorb_agree_ne st dev hc)
        rw [hdc] at this
        exact this

/-- every observation logged during the tick comes from an `Input` dispatch, and shows the
pre-tick inputs overlaid with the changes. -/
theorem obs_afterTick (dev : DevFn Val) {tr : List (Ev Val)}
    (hcount : ∀ c, (tr.filter (Ev.isDispatchOf c)).length ≤ 1) (st : FlatSt Val)
    {o : Comp × SimTime × List (Port × Val)} (ho : o ∈ (st.afterTick dev tr).obs) :
    o ∈ st.obs ∨ ∃ c t ins, Ev.dispatch (.input c t ins) ∈ tr ∧ o = (c, t, (st.comp c).merge ins) := by
  induction tr generalizing st with
  | nil => exact Or.inl ho
  | cons e tr ih =>
    cases e with
    | answer a ch =>
      rw [afterTick_cons_answer] at ho
      rcases ih (fun c => count_tail (hcount c)) st ho with h | ⟨c, t, ins, hm, he⟩
      · exact Or.inl h
      · exact Or.inr ⟨c, t, ins, List.mem_cons_of_mem _ hm, he⟩
    | dispatch d =>
      rw [afterTick_cons_dispatch] at ho
      rcases ih (fun c => count_tail (hcount c)) _ ho with h | ⟨c, t, ins, hm, he⟩
      · cases d with
        | skip c' t' => exact Or.inl h
        | input c' t' ins' =>
          rw [obs_absorb_input, List.mem_append, List.mem_singleton] at h
          rcases h with h | h
          · exact Or.inl h
          · exact Or.inr ⟨c', t', ins', by simp, h⟩
      · refine Or.inr ⟨c, t, ins, List.mem_cons_of_mem _ hm, ?_⟩
        have hne : d.comp ≠ c := by
          intro hdc
          have := dispatchOf_eq_none_iff.1 (count_head (hcount d.comp)) _ hm
          exact this hdc.symm
        rw [he, (absorb_agree_ne st dev hne).1]

/-- wakeups are only added for dispatched components. -/
theorem wake_afterTick (dev : DevFn Val) (tr : List (Ev Val)) (st : FlatSt Val) {c : Comp}
    (hc : c ∈ akeys (st.afterTick dev tr).wake) :
    c ∈ akeys st.wake ∨ ∃ d, Ev.dispatch d ∈ tr ∧ d.comp = c := by
  induction tr generalizing st with
  | nil => exact Or.inl hc
  | cons e tr ih =>
    cases e with
    | answer a ch =>
      rw [afterTick_cons_answer] at hc
      rcases ih st hc with h | ⟨d, hm, he⟩
      · exact Or.inl h
      · exact Or.inr ⟨d, List.mem_cons_of_mem _ hm, he⟩
    | dispatch d =>
      rw [afterTick_cons_dispatch] at hc
      rcases ih _ hc with h | ⟨d', hm, he⟩
      · cases d with
        | skip c' t' => exact Or.inl h
        | input c' t' ins' =>
          have hw : (st.absorb dev (.input c' t' ins')).wake =
              match (dev c' t' ((st.comp c').merge ins')).callAt with
              | some w => addWakeup st.wake c' w
              | none => st.wake := rfl
          rw [hw] at h
          split at h
          · rw [addWakeup, mem_akeys_upsert] at h
            rcases h with h | h
            · exact Or.inr ⟨.input c' t' ins', by simp, h.symm⟩
            · exact Or.inl h
          · exact Or.inl h
      · exact Or.inr ⟨d', List.mem_cons_of_mem _ hm, he⟩

/-! ### `Input` changes are dicts -/

theorem sched_nodup {w : Wiring} {tk : Ticker Val} {l : List (Comp × Bool)}
    {ds : List (Dispatch Val)} (h : Ticker.scheduleLoop w tk l = .ok ds)
    (hin : ∀ c, (akeys (agetD tk.inputs c [])).Nodup) :
    ∀ c t ins, Dispatch.input c t ins ∈ ds → (akeys ins).Nodup := by
  intro c t ins hd
  rw [(scheduleLoop_spec h).1] at hd
  obtain ⟨e, _, he⟩ := List.mem_map.1 hd
  rcases tk.decide_cases e.1 with ⟨h1, _⟩ | ⟨h1, _⟩
  · rw [h1] at he; cases he; exact hin _
  · rw [h1] at he; cases he

/-- the accumulated inputs, and hence the changes carried by every `Input`, have unique keys. -/
theorem ins_nodup {w : Wiring} (hw : RouterOK w) {react : React Val} {t : SimTime}
    {roots : List Comp} {s : TickSys Val} (hs : s.Reachable w react t roots) :
    (∀ c, (akeys (agetD s.tk.inputs c [])).Nodup) ∧
      ∀ c t' ins, Ev.dispatch (.input c t' ins) ∈ s.trace → (akeys ins).Nodup := by
  induction hs with
  | init h =>
    obtain ⟨ds, hsl, _, _, _, _, htr⟩ := TickSys.init_eq_ok h
    obtain ⟨_, hin⟩ := TickSys.init_tk h
    refine ⟨fun c => by rw [hin]; simp [agetD], ?_⟩
    intro c t' ins hm
    rw [htr] at hm
    simp only [List.mem_map, Ev.dispatch.injEq, exists_eq_right] at hm
    exact sched_nodup hsl (fun c => by simp [Ticker.startTick, agetD]) c t' ins hm
  | @step s0 s1 i hs' h ih =>
    obtain ⟨d, ds, hd, _, _, hsl, _, _, _, _, htr⟩ := TickSys.step_eq_ok h
    obtain ⟨_, hin⟩ := TickSys.step_tk h hd
    have hin' : ∀ c, (akeys (agetD (addInputs s0.tk.inputs
        (w.route d.comp (answerOf react d))) c [])).Nodup := by
      intro c
      rw [agetD_addInputs _ (hw.route_wf _ _).1]
      exact nodup_akeys_aupdate (ih.1 c) _
    refine ⟨fun c => by rw [hin]; exact hin' c, ?_⟩
    intro c t' ins hm
    rw [htr] at hm
    simp only [List.mem_append, List.mem_singleton, reduceCtorEq, or_false, List.mem_map,
      Ev.dispatch.injEq, exists_eq_right] at hm
    rcases hm with hm | hm
    · exact ih.2 c t' ins hm
    · exact sched_nodup hsl hin' c t' ins hm

/-! ### a complete tick -/

/-- the value component `a` reports as changed on port `p` in the trace, if any. -/
def ansOf (react : React Val) (tr : List (Ev Val)) (a : Comp) (p : Port) : Option Val :=
  (dispatchOf tr a).bind (fun d => alookup (answerOf react d) p)

theorem fed_iff_ansOf {w : Wiring} (hw : RouterOK w) {react : React Val} {tr : List (Ev Val)}
    {a : Comp} {p : Port} {c : Comp} {q : Port} (hc : w.Conn a p c q) (v : Val) :
    Fed w react tr c q v ↔ ansOf react tr a p = some v := by
  constructor
  · rintro ⟨a', p', d, hc', hd, hv⟩
    obtain ⟨rfl, rfl⟩ := hw.oneSource _ _ _ _ _ _ hc hc'
    simp [ansOf, hd, hv]
  · intro h
    unfold ansOf at h
    cases hd : dispatchOf tr a with
    | none => simp [hd] at h
    | some d =>
      rw [hd] at h
      exact ⟨a, p, d, hc, hd, by simpa using h⟩

theorem dispatchOf_cases (tr : List (Ev Val)) (c : Comp) :
    dispatchOf tr c = none ∨ (∃ t, dispatchOf tr c = some (.skip c t)) ∨
      ∃ t ins, dispatchOf tr c = some (.input c t ins) := by
  cases h : dispatchOf tr c with
  | none => exact Or.inl rfl
  | some d =>
    have := (dispatchOf_eq_some h).2
    cases d with
    | skip c' t =>
      simp only [Dispatch.comp] at this; subst this; exact Or.inr (Or.inl ⟨t, rfl⟩)
    | input c' t ins =>
      simp only [Dispatch.comp] at this; subst this; exact Or.inr (Or.inr ⟨t, ins, rfl⟩)

theorem input_facts {w : Wiring} (hw : RouterOK w) {dev : DevFn Val} {st : FlatSt Val} {t : SimTime}
    {roots : List Comp} {s : TickSys Val} (hs : s.Reachable w (st.react dev t) t roots)
    {c : Comp} {t' : SimTime} {ins : List (Port × Val)}
    (hd : dispatchOf s.trace c = some (.input c t' ins)) :
    t' = t ∧ (akeys ins).Nodup ∧
      ∀ q v, alookup ins q = some v ↔ Fed w (st.react dev t) s.trace c q v := by
  obtain ⟨_, _, hsp⟩ := dispatch_spec hw (reactWF st dev t) hs hd
  have hn := (ins_nodup hw hs).2 c t' ins (dispatchOf_eq_some hd).1
  rcases hsp with ⟨ins', he, _, hfed⟩ | ⟨he, _⟩
  · cases he; exact ⟨rfl, hn, hfed⟩
  · cases he

theorem not_input_facts {w : Wiring} (hw : RouterOK w) {dev : DevFn Val} {st : FlatSt Val}
    {t : SimTime} {roots : List Comp} {s : TickSys Val}
    (hs : s.Reachable w (st.react dev t) t roots) (hf : s.tk.toUpdate = []) {c : Comp}
    (hd : dispatchOf s.trace c = none ∨ ∃ t', dispatchOf s.trace c = some (.skip c t')) :
    ∀ q v, ¬ Fed w (st.react dev t) s.trace c q v := by
  rcases hd with hd | ⟨t', hd⟩
  · rintro q v ⟨a, p, d, hc, hda, _⟩
    have hce := (dispatchOf_eq_none_iff_of_complete hw (reactWF st dev t) hs hf c).1 hd
    have hae := (dispatch_spec hw (reactWF st dev t) hs hda).1
    exact hce (extent_closed hae ⟨p, q, hc⟩)
  · obtain ⟨_, _, hsp⟩ := dispatch_spec hw (reactWF st dev t) hs hd
    rcases hsp with ⟨ins', he, _⟩ | ⟨_, _, hno⟩
    · cases he
    · exact hno

theorem after_input {dev : DevFn Val} {st : FlatSt Val} {tr : List (Ev Val)} {c : Comp}
    (hcount : (tr.filter (Ev.isDispatchOf c)).length ≤ 1) {t' : SimTime} {ins : List (Port × Val)}
    (hd : dispatchOf tr c = some (.input c t' ins)) :
    (st.afterTick dev tr).comp c =
        { deviceInputs := (st.comp c).merge ins, lastOutputs := outsOf st dev c t' ins } ∧
      ∀ p, alookup (st.afterTick dev tr).reported (c, p) =
        (alookup (outsOf st dev c t' ins) p).orElse (fun _ => alookup st.reported (c, p)) := by
  have := afterTick_agree_some dev hcount hd st
  refine ⟨?_, fun p => ?_⟩
  · rw [this.1, comp_absorb_input, if_pos rfl]
  · rw [this.2, reported_absorb_input, if_pos rfl]

theorem after_not_input {dev : DevFn Val} {st : FlatSt Val} {tr : List (Ev Val)} {c : Comp}
    (hcount : (tr.filter (Ev.isDispatchOf c)).length ≤ 1)
    (hd : dispatchOf tr c = none ∨ ∃ t', dispatchOf tr c = some (.skip c t')) :
    Agree c (st.afterTick dev tr) st := by
  rcases hd with hd | ⟨t', hd⟩
  · exact afterTick_agree_none dev hd st
  · exact afterTick_agree_some dev hcount hd st

theorem ansOf_input {dev : DevFn Val} {st : FlatSt Val} {t : SimTime} {tr : List (Ev Val)}
    {a : Comp} {ins : List (Port × Val)} (hd : dispatchOf tr a = some (.input a t ins)) (p : Port) :
    ansOf (st.react dev t) tr a p =
      alookup (outChanges (st.comp a).lastOutputs (outsOf st dev a t ins)) p := by
  rw [ansOf, hd]; rfl

theorem ansOf_not_input {react : React Val} {tr : List (Ev Val)} {a : Comp}
    (hd : dispatchOf tr a = none ∨ ∃ t', dispatchOf tr a = some (.skip a t')) (p : Port) :
    ansOf react tr a p = none := by
  rcases hd with hd | ⟨t', hd⟩ <;> rw [ansOf, hd] <;> rfl

/-- the ghost log after the tick: the value reported as changed in the tick, else the old one. -/
theorem reported_after {w : Wiring} (hw : RouterOK w) {dev : DevFn Val} {st : FlatSt Val}
    {t : SimTime} {roots : List Comp} {s : TickSys Val}
    (hs : s.Reachable w (st.react dev t) t roots) (hsy : Synced w st) (a : Comp) (p : Port) :
    alookup (st.afterTick dev s.trace).reported (a, p) =
      (ansOf (st.react dev t) s.trace a p).orElse (fun _ => alookup st.reported (a, p)) := by
  have hcount := (hs.inv.pre.count a).1
  rcases dispatchOf_cases s.trace a with hd | ⟨t', hd⟩ | ⟨t', ins, hd⟩
  · rw [(after_not_input hcount (Or.inl hd)).2, ansOf_not_input (Or.inl hd)]; rfl
  · rw [(after_not_input hcount (Or.inr ⟨t', hd⟩)).2, ansOf_not_input (Or.inr ⟨t', hd⟩)]; rfl
  · obtain ⟨rfl, _, _⟩ := input_facts hw hs hd
    rw [(after_input hcount hd).2, ansOf_input hd]
    have hno := nodup_akeys_outsOf st dev a t' ins
    cases hch : alookup (outChanges (st.comp a).lastOutputs (outsOf st dev a t' ins)) p with
    | some v =>
      rw [((alookup_outChanges hno p v).1 hch).1]
    | none =>
      cases ho : alookup (outsOf st dev a t' ins) p with
      | none => rfl
      | some v =>
        have hl : alookup (st.comp a).lastOutputs p = some v := by
          apply Classical.byContradiction
          intro hne
          have := (alookup_outChanges hno p v).2 ⟨ho, hne⟩
          rw [hch] at this; cases this
        simp [hsy.lastSub a p v hl]

/-- what a device is given on a wired port: the value reported as changed in the tick, else
what it had. -/
theorem given_value {w : Wiring} (hw : RouterOK w) {dev : DevFn Val} {st : FlatSt Val}
    {t : SimTime} {roots : List Comp} {s : TickSys Val}
    (hs : s.Reachable w (st.react dev t) t roots) {a : Comp} {p : Port} {c : Comp} {q : Port}
    (hc : w.Conn a p c q) {t' : SimTime} {ins : List (Port × Val)}
    (hd : dispatchOf s.trace c = some (.input c t' ins)) :
    alookup ((st.comp c).merge ins) q =
      (ansOf (st.react dev t) s.trace a p).orElse (fun _ => alookup (st.comp c).deviceInputs q) := by
  obtain ⟨_, hn, hfed⟩ := input_facts hw hs hd
  have : alookup ins q = ansOf (st.react dev t) s.trace a p :=
    option_ext_some (fun v => (hfed q v).trans (fed_iff_ansOf hw hc v))
  rw [DevComp.merge, alookup_aupdate_of_nodup _ hn, this]

theorem ansOf_none_of_not_input {w : Wiring} (hw : RouterOK w) {dev : DevFn Val} {st : FlatSt Val}
    {t : SimTime} {roots : List Comp} {s : TickSys Val}
    (hs : s.Reachable w (st.react dev t) t roots) (hf : s.tk.toUpdate = [])
    {a : Comp} {p : Port} {c : Comp} {q : Port} (hc : w.Conn a p c q)
    (hd : dispatchOf s.trace c = none ∨ ∃ t', dispatchOf s.trace c = some (.skip c t')) :
    ansOf (st.react dev t) s.trace a p = none := by
  cases h : ansOf (st.react dev t) s.trace a p with
  | none => rfl
  | some v => exact absurd ((fed_iff_ansOf hw hc v).2 h) (not_input_facts hw hs hf hd q v)

/-- **the core of C03**: what an updated device is given on a wired port is the latest report. -/
theorem wire_input {w : Wiring} (hw : RouterOK w) {dev : DevFn Val} {st : FlatSt Val}
    {t : SimTime} {roots : List Comp} {s : TickSys Val}
    (hs : s.Reachable w (st.react dev t) t roots) (hsy : Synced w st)
    {a : Comp} {p : Port} {c : Comp} {q : Port} (hc : w.Conn a p c q) {t' : SimTime}
    {ins : List (Port × Val)} (hd : dispatchOf s.trace c = some (.input c t' ins)) :
    alookup ((st.comp c).merge ins) q = alookup (st.afterTick dev s.trace).reported (a, p) := by
  rw [given_value hw hs hc hd, reported_after hw hs hsy, hsy.wired a p c q hc]

/-- a device that is not updated still holds the latest report on every wired port. -/
theorem wire_not_input {w : Wiring} (hw : RouterOK w) {dev : DevFn Val} {st : FlatSt Val}
    {t : SimTime} {roots : List Comp} {s : TickSys Val}
    (hs : s.Reachable w (st.react dev t) t roots) (hf : s.tk.toUpdate = []) (hsy : Synced w st)
    {a : Comp} {p : Port} {c : Comp} {q : Port} (hc : w.Conn a p c q)
    (hd : dispatchOf s.trace c = none ∨ ∃ t', dispatchOf s.trace c = some (.skip c t')) :
    alookup (st.comp c).deviceInputs q = alookup (st.afterTick dev s.trace).reported (a, p) := by
  rw [reported_after hw hs hsy, ansOf_none_of_not_input hw hs hf hc hd, hsy.wired a p c q hc]; rfl

theorem given_keys {w : Wiring} (hw : RouterOK w) {dev : DevFn Val} {st : FlatSt Val}
    {t : SimTime} {roots : List Comp} {s : TickSys Val}
    (hs : s.Reachable w (st.react dev t) t roots) (hsy : Synced w st) {c : Comp} {t' : SimTime}
    {ins : List (Port × Val)} (hd : dispatchOf s.trace c = some (.input c t' ins)) {q : Port}
    {v : Val} (h : alookup ((st.comp c).merge ins) q = some v) : ∃ a p, w.Conn a p c q := by
  obtain ⟨_, hn, hfed⟩ := input_facts hw hs hd
  rw [DevComp.merge, alookup_aupdate_of_nodup _ hn] at h
  cases hi : alookup ins q with
  | some v' =>
    obtain ⟨a, p, _, hc, _⟩ := (hfed q v').1 hi
    exact ⟨a, p, hc⟩
  | none =>
    rw [hi] at h
    exact hsy.noExtra c q v h

/-- the invariant is preserved by a complete tick. -/
theorem synced_afterTick {w : Wiring} (hw : RouterOK w) {dev : DevFn Val} {st : FlatSt Val}
    {t : SimTime} {roots : List Comp} {s : TickSys Val}
    (hs : s.Reachable w (st.react dev t) t roots) (hf : s.tk.toUpdate = []) (hsy : Synced w st) :
    Synced w (st.afterTick dev s.trace) := by
  have hcount := fun c => (hs.inv.pre.count c).1
  refine ⟨?_, ?_, ?_⟩
  · intro a p c q hc
    rcases dispatchOf_cases s.trace c with hd | ⟨t', hd⟩ | ⟨t', ins, hd⟩
    · rw [(after_not_input (hcount c) (Or.inl hd)).1]
      exact wire_not_input hw hs hf hsy hc (Or.inl hd)
    · rw [(after_not_input (hcount c) (Or.inr ⟨t', hd⟩)).1]
      exact wire_not_input hw hs hf hsy hc (Or.inr ⟨t', hd⟩)
    · rw [(after_input (hcount c) hd).1]
      exact wire_input hw hs hsy hc hd
  · intro c q v h
    rcases dispatchOf_cases s.trace c with hd | ⟨t', hd⟩ | ⟨t', ins, hd⟩
    · rw [(after_not_input (hcount c) (Or.inl hd)).1] at h
      exact hsy.noExtra c q v h
    · rw [(after_not_input (hcount c) (Or.inr ⟨t', hd⟩)).1] at h
      exact hsy.noExtra c q v h
    · rw [(after_input (hcount c) hd).1] at h
      exact given_keys hw hs hsy hd h
  · intro c p v h
    rcases dispatchOf_cases s.trace c with hd | ⟨t', hd⟩ | ⟨t', ins, hd⟩
    · have hag := after_not_input (st := st) (dev := dev) (hcount c) (Or.inl hd)
      rw [hag.1] at h
      rw [hag.2]
      exact hsy.lastSub c p v h
    · have hag := after_not_input (st := st) (dev := dev) (hcount c) (Or.inr ⟨t', hd⟩)
      rw [hag.1] at h
      rw [hag.2]
      exact hsy.lastSub c p v h
    · have hag := after_input (st := st) (dev := dev) (hcount c) hd
      rw [hag.1] at h
      rw [hag.2]
      simp only at h
      simp [h]

/-! ### whole runs -/

theorem synced_empty (w : Wiring) : Synced w ({} : FlatSt Val) := by
  refine ⟨fun a p c q _ => rfl, fun c q v h => ?_, fun c p v h => ?_⟩
  · exact absurd h (by simp [FlatSt.comp, agetD])
  · exact absurd h (by simp [FlatSt.comp, agetD])

theorem mem_akeys_delWakeups {wk : Wakeups} {cs : List Comp} {c : Comp}
    (h : c ∈ akeys (delWakeups wk cs)) : c ∈ akeys wk := by
  induction cs generalizing wk with
  | nil => exact h
  | cons x cs ih =>
    have : delWakeups wk (x :: cs) = delWakeups (aerase wk x) cs := rfl
    rw [this] at h
    exact mem_akeys_of_mem_akeys_aerase (ih h)

theorem firstWakeups_sub {wk : Wakeups} {cs : List Comp} {m : Option SimTime}
    (h : firstWakeups wk = (cs, m)) : ∀ c ∈ cs, c ∈ akeys wk := by
  unfold firstWakeups at h
  split at h
  · cases h; simp
  · cases h
    intro c hc
    obtain ⟨e, he, rfl⟩ := List.mem_map.1 hc
    exact List.mem_map.2 ⟨e, (List.mem_filter.1 he).1, rfl⟩

/-- after every tick of every run: the invariant holds and only components have wakeups. -/
theorem run_inv {w : Wiring} (hw : RouterOK w) {devs : DevSeq Val} {t0 : SimTime} {n : Nat}
    {st : FlatSt Val} {times : List SimTime} (hrun : FlatRun w devs t0 n st times) :
    Synced w st ∧ ∀ c ∈ akeys st.wake, c ∈ w.components := by
  induction hrun with
  | initial htick =>
    obtain ⟨s, hs, hf, rfl⟩ := htick
    refine ⟨synced_afterTick hw hs hf (synced_empty w), fun c hc => ?_⟩
    rcases wake_afterTick _ _ _ hc with h | ⟨d, hm, rfl⟩
    · simp at h
    · exact extent_sub_components (fun r h => h) (hs.inv.pre.disp_ext d hm).1
  | @tick n st st' times cs m _ hfw htick ih =>
    obtain ⟨s, hs, hf, rfl⟩ := htick
    have hsy : Synced w { st with wake := delWakeups st.wake cs } :=
      ⟨ih.1.wired, ih.1.noExtra, ih.1.lastSub⟩
    refine ⟨synced_afterTick hw hs hf hsy, fun c hc => ?_⟩
    rcases wake_afterTick _ _ _ hc with h | ⟨d, hm, rfl⟩
    · exact ih.2 c (mem_akeys_delWakeups h)
    · exact extent_sub_components (fun r h => ih.2 r (firstWakeups_sub hfw r h))
        (hs.inv.pre.disp_ext d hm).1

end Tickit.Sync
