/-
Helper lemmas for C03 (Synced invariant of the flat multi-tick system).
All declarations here live in namespace `Tickit.Sync` to avoid clashes.
-/
import TickitModel.Lemmas.FlatLemmas

namespace Tickit.Sync

end Tickit.Sync
