/-
The inductive invariant of the stop protocol (`Core/StopProtocol.lean`) for the code as it is
(`stopOnce = false`), and its preservation by every action.
-/
import TickitModel.Core.StopProtocol

namespace Tickit

/-! ### list helpers -/

theorem stop_ne_nil_of_getElem? {α : Type} {l : List α} {i : Nat} {r : α}
    (h : l[i]? = some r) : l ≠ [] := by
  intro he
  subst he
  simp at h

theorem stop_sum_map_set {α : Type} (f : α → Nat) :
    ∀ (l : List α) (i : Nat) (r r' : α), l[i]? = some r →
      ((l.set i r').map f).sum + f r = (l.map f).sum + f r'
  | [], _, _, _, h => by simp at h
  | x :: l, 0, r, r', h => by
    simp only [List.getElem?_cons_zero, Option.some.injEq] at h
    subst h
    simp only [List.set_cons_zero, List.map_cons, List.sum_cons]
    omega
  | x :: l, i + 1, r, r', h => by
    simp only [List.getElem?_cons_succ] at h
    have ih := stop_sum_map_set f l i r r' h
    simp only [List.set_cons_succ, List.map_cons, List.sum_cons]
    omega

theorem stop_map_set_same {α β : Type} (f : α → β) :
    ∀ (l : List α) (i : Nat) (r r' : α), l[i]? = some r → f r' = f r →
      (l.set i r').map f = l.map f
  | [], _, _, _, h, _ => by simp at h
  | x :: l, 0, r, r', h, hf => by
    simp only [List.getElem?_cons_zero, Option.some.injEq] at h
    subst h
    simp [hf]
  | x :: l, i + 1, r, r', h, hf => by
    simp only [List.getElem?_cons_succ] at h
    simp [stop_map_set_same f l i r r' h hf]

theorem stop_filter_len_mono {α : Type} (p q : α → Bool) (h : ∀ x, p x = true → q x = true) :
    ∀ l : List α, (l.filter p).length ≤ (l.filter q).length
  | [] => by simp
  | x :: l => by
    have ih := stop_filter_len_mono p q h l
    have hx := h x
    cases hp : p x <;> cases hq : q x <;> simp [hp, hq] <;> simp_all <;> omega

theorem stop_filter_len_strict {α : Type} (p q : α → Bool) (h : ∀ x, p x = true → q x = true)
    (c : α) (hp : p c = false) (hq : q c = true) :
    ∀ l : List α, c ∈ l → (l.filter p).length < (l.filter q).length
  | [], hc => by simp at hc
  | x :: l, hc => by
    have hm := stop_filter_len_mono p q h l
    have hx := h x
    rcases List.mem_cons.mp hc with hc | hc
    · subst hc
      simp [hp, hq]
      omega
    · have ih := stop_filter_len_strict p q h c hp hq l hc
      cases hp' : p x <;> cases hq' : q x <;> simp [hp', hq'] <;> simp_all <;> omega

/-- a component that fails leaves the set of components which may still fail. -/
theorem stop_filter_fail_lt (c : Comp) (f : List Comp) (l : List Comp) (hc : c ∈ l) (hf : c ∉ f) :
    (l.filter (· ∉ f ++ [c])).length < (l.filter (· ∉ f)).length := by
  apply stop_filter_len_strict _ _ _ c _ _ l hc
  · intro x; simp; intro h _; exact h
  · simp
  · simpa using hf

theorem stop_filter_filter_le (c : Comp) (f : List Comp) (l : List Comp) :
    ((l.filter (· ≠ c)).filter (· ∉ f)).length ≤ (l.filter (· ∉ f)).length := by
  rw [List.filter_filter]
  apply stop_filter_len_mono
  intro x; simp; intro h _; exact h

/-! ### the invariant -/

/-- the inductive invariant of the protocol of the code as it is (`stopOnce = false`). -/
structure StopInv (cfg : StopCfg) (s : StopSt) : Prop where
  /-- a handler past `super()` has executed `self.error.set()` -/
  errOfAfter : ∀ r ∈ s.reports, r.pc = .afterSuper ∨ r.pc = .done → s.error = true
  /-- a fan-out in progress: every component is still pending or was sent its `StopComponent` -/
  fanoutCover : ∀ r ∈ s.reports, ∀ p, r.pc = .fanout p → ∀ c ∈ cfg.comps, c ∈ p ∨ c ∈ s.stopSent
  /-- `error` is set only after a complete fan-out -/
  sentOfErr : s.error = true → ∀ c ∈ cfg.comps, c ∈ s.stopSent
  /-- a produced `StopComponent` is in flight or was handled -/
  sentTracked : ∀ c ∈ s.stopSent, c ∈ s.inbox ∨ c ∈ s.stopped
  /-- while a report exists and `error` is clear the run loop is held inside the tick -/
  inTick : s.reports ≠ [] → s.error = false → s.pc = .ticking ∧ s.finished = false
  /-- with `error` set the loop is in the failing tick, at its head, or out -/
  errPc : s.error = true → s.pc = .ticking ∨ s.pc = .top ∨ s.pc = .exited
  /-- without any report: `error` clear, components are awaited only inside a tick, no stale release -/
  quiet : s.reports = [] → s.error = false ∧ (s.toUpdate ≠ [] → s.pc = .ticking ∧ s.finished = false)
    ∧ (s.finished = true → s.pc = .ticking)
  /-- a handler that has returned has released the tick -/
  doneRel : s.pc = .ticking → s.finished = false → ∀ r ∈ s.reports, r.pc ≠ .done
  /-- one report per failure, carrying the failing component's identity, in order -/
  ident : s.reports.map (·.src) = s.failed
  tuComps : ∀ c ∈ s.toUpdate, c ∈ cfg.comps
  /-- a failed component stays awaited: it never answers -/
  failedTu : ∀ c ∈ s.failed, c ∈ s.toUpdate
  /-- no `StopComponent` without a report -/
  noSpurious : s.reports = [] → s.stopSent = []
  stoppedSent : ∀ c ∈ s.stopped, c ∈ s.stopSent
  inboxSent : ∀ c ∈ s.inbox, c ∈ s.stopSent

theorem StopInv.init (cfg : StopCfg) : StopInv cfg (StopSt.init cfg) := by
  refine ⟨?_, ?_, ?_, ?_, ?_, ?_, ?_, ?_, ?_, ?_, ?_, ?_, ?_, ?_⟩ <;> simp [StopSt.init]

variable {cfg : StopCfg} {s s' : StopSt}

theorem StopInv.failed_nil (h : StopInv cfg s) (hr : s.reports = []) : s.failed = [] := by
  have := h.ident
  rw [hr] at this
  simpa using this.symm

theorem StopInv.failed_ne_nil (h : StopInv cfg s) (hr : s.reports ≠ []) : s.failed ≠ [] := by
  intro hf
  have := h.ident
  rw [hf] at this
  exact hr (by simpa using this)

/-- with a report in flight the loop is never waiting for a wakeup or sleeping. -/
theorem StopInv.pc_of_reports (h : StopInv cfg s) (hr : s.reports ≠ []) :
    s.pc = .ticking ∨ s.pc = .top ∨ s.pc = .exited := by
  cases he : s.error with
  | true => exact h.errPc he
  | false => exact Or.inl (h.inTick hr he).1

theorem StopInv.reports_nil_of_pc (h : StopInv cfg s)
    (h1 : s.pc ≠ .ticking) (h2 : s.pc ≠ .top) (h3 : s.pc ≠ .exited) :
    s.reports = [] ∧ s.error = false := by
  have hr : s.reports = [] := by
    apply Classical.byContradiction
    intro hr
    rcases h.pc_of_reports hr with h | h | h <;> contradiction
  exact ⟨hr, (h.quiet hr).1⟩

theorem StopInv.wakeup (h : StopInv cfg s) :
    StopInv cfg { s with hasWakeups := true, newWakeup := true } :=
  ⟨h.errOfAfter, h.fanoutCover, h.sentOfErr, h.sentTracked, h.inTick, h.errPc, h.quiet, h.doneRel,
    h.ident, h.tuComps, h.failedTu, h.noSpurious, h.stoppedSent, h.inboxSent⟩

theorem StopInv.sleepExpires (h : StopInv cfg s) (hpc : s.pc = .sleeping) (cs : List Comp)
    (left : Bool) (hcs : ∀ c ∈ cs, c ∈ cfg.comps) :
    StopInv cfg { s with pc := .ticking, hasWakeups := left, toUpdate := cs, failed := [] } := by
  obtain ⟨hr, he⟩ := h.reports_nil_of_pc (by simp [hpc]) (by simp [hpc]) (by simp [hpc])
  have hfin : s.finished = false := by
    cases hf : s.finished with
    | false => rfl
    | true => have := (h.quiet hr).2.2 hf; rw [hpc] at this; cases this
  refine ⟨?_, ?_, ?_, h.sentTracked, ?_, ?_, ?_, ?_, ?_, hcs, ?_, h.noSpurious, h.stoppedSent,
    h.inboxSent⟩
  · simp [hr]
  · simp [hr]
  · simp [he]
  · simp [hr]
  · simp [he]
  · intro _; exact ⟨he, fun _ => ⟨rfl, hfin⟩, fun _ => rfl⟩
  · simp [hr]
  · simp [hr]
  · simp

theorem StopInv.loop (h : StopInv cfg s) (hs : s.loopStep = some s') : StopInv cfg s' := by
  unfold StopSt.loopStep at hs
  split at hs
  · -- top
    rename_i hpc
    split at hs
    · rename_i he
      cases hs
      have hr : s.reports ≠ [] := fun hr => by simp [(h.quiet hr).1] at he
      refine ⟨h.errOfAfter, h.fanoutCover, h.sentOfErr, h.sentTracked, ?_, ?_, ?_, ?_, h.ident,
        h.tuComps, h.failedTu, h.noSpurious, h.stoppedSent, h.inboxSent⟩
      · intro _ he'; simp [he] at he'
      · intro _; exact Or.inr (Or.inr rfl)
      · intro hr'; exact absurd hr' hr
      · intro hp; cases hp
    · rename_i he
      have he' : s.error = false := by simpa using he
      have hr : s.reports = [] := by
        apply Classical.byContradiction
        intro hr
        have := (h.inTick hr he').1
        rw [hpc] at this; cases this
      have hq := h.quiet hr
      have htu : s.toUpdate = [] := by
        apply Classical.byContradiction
        intro ht
        have := (hq.2.1 ht).1
        rw [hpc] at this; cases this
      have hfin : s.finished = false := by
        cases hf : s.finished with
        | false => rfl
        | true => have := hq.2.2 hf; rw [hpc] at this; cases this
      split at hs <;> cases hs
      all_goals
        refine ⟨h.errOfAfter, h.fanoutCover, h.sentOfErr, h.sentTracked, ?_, ?_, ?_, ?_, h.ident,
          h.tuComps, h.failedTu, h.noSpurious, h.stoppedSent, h.inboxSent⟩
        · intro hr'; exact absurd hr hr'
        · intro he''; simp [he'] at he''
        · intro _; exact ⟨he', fun ht => absurd htu ht, fun hf => by simp [hfin] at hf⟩
        · intro hp; cases hp
  · -- waiting
    rename_i hpc
    obtain ⟨hr, he⟩ := h.reports_nil_of_pc (by simp [hpc]) (by simp [hpc]) (by simp [hpc])
    have hq := h.quiet hr
    have htu : s.toUpdate = [] := by
      apply Classical.byContradiction
      intro ht
      have := (hq.2.1 ht).1
      rw [hpc] at this; cases this
    have hfin : s.finished = false := by
      cases hf : s.finished with
      | false => rfl
      | true => have := hq.2.2 hf; rw [hpc] at this; cases this
    split at hs
    · split at hs <;> cases hs
      · refine ⟨h.errOfAfter, h.fanoutCover, h.sentOfErr, h.sentTracked, ?_, ?_, ?_, ?_, h.ident,
          h.tuComps, h.failedTu, h.noSpurious, h.stoppedSent, h.inboxSent⟩
        · intro hr'; exact absurd hr hr'
        · intro he''; simp [he] at he''
        · intro _; exact ⟨he, fun ht => absurd htu ht, fun hf => by simp [hfin] at hf⟩
        · intro hp; cases hp
      · refine ⟨h.errOfAfter, h.fanoutCover, h.sentOfErr, h.sentTracked, ?_, ?_, ?_, ?_, h.ident,
          h.tuComps, h.failedTu, h.noSpurious, h.stoppedSent, h.inboxSent⟩
        · intro hr'; exact absurd hr hr'
        · intro he''; simp [he] at he''
        · intro _; exact ⟨he, fun ht => absurd htu ht, fun hf => by simp [hfin] at hf⟩
        · intro hp; simp [hpc] at hp
    · cases hs
  · -- sleeping
    rename_i hpc
    obtain ⟨hr, he⟩ := h.reports_nil_of_pc (by simp [hpc]) (by simp [hpc]) (by simp [hpc])
    have hq := h.quiet hr
    have htu : s.toUpdate = [] := by
      apply Classical.byContradiction
      intro ht
      have := (hq.2.1 ht).1
      rw [hpc] at this; cases this
    have hfin : s.finished = false := by
      cases hf : s.finished with
      | false => rfl
      | true => have := hq.2.2 hf; rw [hpc] at this; cases this
    split at hs
    · cases hs
      refine ⟨h.errOfAfter, h.fanoutCover, h.sentOfErr, h.sentTracked, ?_, ?_, ?_, ?_, h.ident,
        h.tuComps, h.failedTu, h.noSpurious, h.stoppedSent, h.inboxSent⟩
      · intro hr'; exact absurd hr hr'
      · intro he''; simp [he] at he''
      · intro _; exact ⟨he, fun ht => absurd htu ht, fun hf => by simp [hfin] at hf⟩
      · intro hp; cases hp
    · cases hs
  · -- ticking
    rename_i hpc
    split at hs
    · rename_i hfin
      cases hs
      refine ⟨h.errOfAfter, h.fanoutCover, h.sentOfErr, h.sentTracked, ?_, ?_, ?_, ?_, h.ident,
        h.tuComps, h.failedTu, h.noSpurious, h.stoppedSent, h.inboxSent⟩
      · intro hr he
        have := (h.inTick hr he).2
        simp [hfin] at this
      · intro _; exact Or.inr (Or.inl rfl)
      · intro hr
        have hq := h.quiet hr
        refine ⟨hq.1, fun ht => ?_, fun hf => by simp at hf⟩
        have := (hq.2.1 ht).2
        simp [hfin] at this
      · intro hp; cases hp
    · cases hs
  · cases hs

end Tickit
