/-
Helper lemmas for C07 at run level with processing costs (`Props/C07Cost.lean`), part 2:
a PENDING wakeup of a top-level component along a run of the master loop with costs (`RunC`).

* `PendC m top B` — the master holds a wakeup of `top` that is not after `B`;
  it survives every stimulus (`stimStepC_pend`: an interrupt of `top` itself can only LOWER it), the
  stimuli handled in the middle of a tick (`midTick_pend`) and every tick whose extent does not
  contain `top` (`tick_pend`, from `Lemmas/C07CostTick.lean`);
* `RunC.c07_serve` — the first tick whose extent contains `top` comes before any tick for a time
  later than the pending entry; until then every tick is for a strictly earlier time;
* `RunC.c07_next` — the next tick record is started no later than `dueReal m sp B`, the real time
  at which a tick for `B` is due in the present master state, and exactly then if it is for `B`;
* `RunC.c07_chain` — every later tick up to the serving one is started no later than the END of
  its predecessor plus the sleep for the simulated time that separates the predecessor from `B`;
* `RunC.c07_after` — the run that follows a handled stimulus, with its wakeup pending;
* `masterRunC_budget` — a run that has used neither all its `steps` nor all its `nTicks` has
  stopped because no wakeup is left.

Core Lean only.
-/
import TickitModel.Lemmas.C07CostTick
import TickitModel.Lemmas.CostRun

namespace Tickit
namespace CostRun

open TimeMono Pacing C07Cost

/-! ## arithmetic of `dueReal` -/

theorem ceilDiv_mono (N N' n : Int) (hn : 0 < n) (h : N ≤ N') : ceilDiv N n ≤ ceilDiv N' n := by
  unfold ceilDiv
  have := Int.ediv_le_ediv hn (by omega : -N' ≤ -N)
  omega

theorem ceilDiv_sub_mul (N k n : Int) (hn : 0 < n) : ceilDiv (N - k * n) n = ceilDiv N n - k := by
  unfold ceilDiv
  have e : -(N - k * n) = -N + k * n := by omega
  rw [e, Int.add_mul_ediv_right _ _ (Int.ne_of_gt hn)]
  omega

/-- a later simulation time is due later (or at the same real time) -/
theorem dueReal_mono_when (m : MasterSt) (sp : Speed) (hn : 0 < sp.num) (w B : SimTime)
    (h : w ≤ B) : dueReal m sp w ≤ dueReal m sp B := by
  have hnum : (0 : Int) < sp.num := by omega
  have hN : sleepNumer w m.tickerTime m.now m.lastReal sp ≤
      sleepNumer B m.tickerTime m.now m.lastReal sp := by
    rw [sleepNumer_eq, sleepNumer_eq]
    have : (w - m.tickerTime) * (sp.den : Int) ≤ (B - m.tickerTime) * (sp.den : Int) :=
      Int.mul_le_mul_of_nonneg_right (by simp only [SimTime] at *; omega) (by omega)
    simp only [SimTime] at *
    omega
  rw [dueReal_eq, dueReal_eq]
  generalize sleepNumer w m.tickerTime m.now m.lastReal sp = N at *
  generalize sleepNumer B m.tickerTime m.now m.lastReal sp = N' at *
  split <;> split
  · exact Int.le_refl _
  · have := ceilDiv_nonneg N' sp.num hnum (by omega)
    omega
  · omega
  · have := ceilDiv_mono N N' sp.num hnum hN
    omega

/-- real time moving forward, but not beyond the time at which `B` is due, does not change the
time at which `B` is due -/
theorem dueReal_now_shift (m m' : MasterSt) (sp : Speed) (hn : 0 < sp.num) (B : SimTime)
    (hT : m'.tickerTime = m.tickerTime) (hL : m'.lastReal = m.lastReal)
    (h1 : m.now ≤ m'.now) (h2 : m'.now ≤ dueReal m sp B) : dueReal m' sp B = dueReal m sp B := by
  have hnum : (0 : Int) < sp.num := by omega
  obtain ⟨δ, hδ⟩ : ∃ δ : Int, m'.now = m.now + δ := ⟨m'.now - m.now, by omega⟩
  have hδ0 : 0 ≤ δ := by omega
  have e : sleepNumer B m'.tickerTime m'.now m'.lastReal sp =
      sleepNumer B m.tickerTime m.now m.lastReal sp - δ * sp.num := by
    rw [sleepNumer_eq, sleepNumer_eq, hT, hL, hδ]
    have : (m.now + δ - m.lastReal) * (sp.num : Int) =
        (m.now - m.lastReal) * (sp.num : Int) + δ * (sp.num : Int) := by
      simp only [Int.add_mul, Int.sub_mul]; omega
    omega
  rw [dueReal_eq] at h2
  rw [dueReal_eq, dueReal_eq, e]
  generalize sleepNumer B m.tickerTime m.now m.lastReal sp = N at *
  by_cases hN : N ≤ 0
  · rw [if_pos hN] at h2 ⊢
    have : δ = 0 := by omega
    subst this
    rw [if_pos (by omega)]
    omega
  · rw [if_neg hN] at h2 ⊢
    have hc := ceilDiv_sub_mul N δ sp.num hnum
    have hlt := ceilDiv_mul_lt N sp.num hnum
    split
    · rename_i hle
      -- the sleep has expired exactly
      have : δ = ceilDiv N sp.num := by
        apply Decidable.byContradiction
        intro hne
        have h3 : δ + 1 ≤ ceilDiv N sp.num := by omega
        have h4 : (δ + 1) * (sp.num : Int) ≤ ceilDiv N sp.num * sp.num :=
          Int.mul_le_mul_of_nonneg_right h3 (by omega)
        rw [Int.add_mul, Int.one_mul] at h4
        omega
      omega
    · omega

/-- the time at which `B` is due right after a tick for `w` has ended at real time `e` -/
theorem dueReal_after_tick (sim : SimSt) (w : SimTime) (e : Int) (sp : Speed) (B : SimTime) :
    dueReal { sim := sim, tickerTime := w, lastReal := e, now := e } sp B =
      e + (if (B - w) * sp.den ≤ 0 then 0 else ceilDiv ((B - w) * sp.den) sp.num) := by
  rw [dueReal_eq, sleepNumer_eq]
  simp only [Int.sub_self, Int.zero_mul, Int.sub_zero]
  split <;> omega

/-! ## a pending wakeup -/

/-- the master holds a wakeup of the top-level component `top` that is not after `B` -/
def PendC (m : MasterSt) (top : Comp) (B : SimTime) : Prop :=
  ∃ e, alookup (m.sim.sched "").wake top = some e ∧ e ≤ B

/-- handling a stimulus never removes or raises a pending wakeup -/
theorem stimStepC_pend (S : Static) (fuel : Nat) (sp : Speed) (m : MasterSt) (st : Stim)
    (top : Comp) (B : SimTime) (h : PendC m top B) : PendC (stimStepC S fuel sp m st) top B := by
  obtain ⟨e, he, heB⟩ := h
  unfold PendC
  rw [stimStepC_eq, stimStep_wake]
  simp only [addWakeup]
  rw [alookup_upsert]
  split
  · rename_i htop
    refine ⟨_, rfl, ?_⟩
    rw [htop]
    exact Int.le_trans (stimWhen_le_old _ _ _ _ he) heB
  · exact ⟨e, he, heB⟩

/-- the stimulus writes the wakeup `ev.when` for `ev.top` -/
theorem stimStepC_pend_self (S : Static) (fuel : Nat) (sp : Speed) (m : MasterSt) (st : Stim)
    (k : Nat) (mid : Bool) :
    PendC (stimStepC S fuel sp m st) ((⟨⟨m, st, k⟩, mid⟩ : StimEvC).top S fuel)
      ((⟨⟨m, st, k⟩, mid⟩ : StimEvC).when S fuel sp) := by
  unfold PendC
  rw [stimStepC_eq, stimStep_wake]
  simp only [addWakeup]
  rw [alookup_upsert]
  exact ⟨_, if_pos rfl, Int.le_refl _⟩

theorem stimStepC_obs (S : Static) (fuel : Nat) (sp : Speed) (m : MasterSt) (st : Stim) :
    (stimStepC S fuel sp m st).sim.obs = m.sim.obs := stimStep_obs S fuel sp m st

theorem midTick_pend (S : Static) (fuel : Nat) (sp : Speed) (e : Int) (m : MasterSt)
    (stims : List Stim) (top : Comp) (B : SimTime) (h : PendC m top B) :
    PendC (midTick S fuel sp e m stims).1 top B := by
  induction stims generalizing m with
  | nil => exact h
  | cons st rest ih =>
    rw [midTick]
    split
    · exact ih _ (stimStepC_pend S fuel sp m st top B h)
    · exact h

theorem midTick_obs (S : Static) (fuel : Nat) (sp : Speed) (e : Int) (m : MasterSt)
    (stims : List Stim) : (midTick S fuel sp e m stims).1.sim.obs = m.sim.obs := by
  induction stims generalizing m with
  | nil => rfl
  | cons st rest ih =>
    rw [midTick]
    split
    · rw [ih, stimStepC_obs]
    · rfl

/-- every stimulus handled in the middle of a tick: its wakeup is pending when the tick ends -/
theorem midLog_pend (S : Static) (fuel : Nat) (sp : Speed) (e : Int) (k : Nat) (m : MasterSt)
    (stims : List Stim) :
    ∀ ev ∈ midLog S fuel sp e k m stims,
      PendC (midTick S fuel sp e m stims).1 (ev.top S fuel) (ev.when S fuel sp) ∧
      ev.m.sim.obs = m.sim.obs := by
  induction stims generalizing m with
  | nil => intro ev hev; cases hev
  | cons st rest ih =>
    intro ev hev
    rw [midLog] at hev
    rw [midTick]
    split at hev
    · rename_i hg
      rw [if_pos hg]
      rcases List.mem_cons.1 hev with hev | hev
      · subst hev
        exact ⟨midTick_pend S fuel sp e _ rest _ _ (stimStepC_pend_self S fuel sp m st k true), rfl⟩
      · obtain ⟨h1, h2⟩ := ih _ ev hev
        exact ⟨h1, by rw [h2, stimStepC_obs]⟩
    · cases hev

theorem endTick_sim (S : Static) (fuel : Nat) (sp : Speed) (sim : SimSt) (w : SimTime) (d e : Int)
    (stims : List Stim) :
    (endTick S fuel sp sim w d e stims).1.sim =
      (midTick S fuel sp e { sim := sim, tickerTime := w, lastReal := d, now := d } stims).1.sim :=
  rfl

theorem endTick_pend (S : Static) (fuel : Nat) (sp : Speed) (sim : SimSt) (w : SimTime) (d e : Int)
    (stims : List Stim) (top : Comp) (B : SimTime)
    (h : ∃ x, alookup (sim.sched "").wake top = some x ∧ x ≤ B) :
    PendC (endTick S fuel sp sim w d e stims).1 top B := by
  unfold PendC
  rw [endTick_sim]
  exact midTick_pend S fuel sp e { sim := sim, tickerTime := w, lastReal := d, now := d } stims
    top B h

theorem endTick_obs (S : Static) (fuel : Nat) (sp : Speed) (sim : SimSt) (w : SimTime) (d e : Int)
    (stims : List Stim) : (endTick S fuel sp sim w d e stims).1.sim.obs = sim.obs := by
  rw [endTick_sim, midTick_obs]

/-! ## the tick branch -/

theorem delWakeups_lookup_not_mem (w : Wakeups) (cs : List Comp) (c : Comp) (h : c ∉ cs) :
    alookup (delWakeups w cs) c = alookup w c := by
  induction cs generalizing w with
  | nil => rfl
  | cons k cs ih =>
    have e : delWakeups w (k :: cs) = delWakeups (aerase w k) cs := rfl
    rw [e, ih _ (fun hc => h (List.mem_cons_of_mem _ hc)),
      alookup_aerase_ne w (fun hck => h (by rw [hck]; exact List.mem_cons_self))]

theorem delMasterC_wake (st : SimSt) (cs : List Comp) :
    ((delMasterC st cs).sched "").wake = delWakeups (st.sched "").wake cs := by
  unfold delMasterC
  simp only []
  rw [SimSt.sched_upsert, if_pos rfl]

theorem delMasterC_obs (st : SimSt) (cs : List Comp) : (delMasterC st cs).obs = st.obs := rfl

/-- the first wakeups against a pending entry `e` of `top`: their time is `≤ e`, and `< e` unless
`top` is one of them -/
theorem firstWakeups_pend {wake : Wakeups} {comps : List Comp} {w : SimTime} {top : Comp}
    {e : SimTime} (hfw : firstWakeups wake = (comps, some w)) (he : alookup wake top = some e) :
    w ≤ e ∧ (top ∉ comps → w < e) := by
  have hmem := alookup_mem wake top e he
  have hsnd : (firstWakeups wake).2 = some w := by rw [hfw]
  have hle : w ≤ e := (firstWakeups_mem _ _ hsnd).2 (top, e) hmem
  refine ⟨hle, fun hnot => ?_⟩
  apply Decidable.byContradiction
  intro hlt
  have hew : e = w := by simp only [SimTime] at *; omega
  apply hnot
  rw [((firstWakeups_eq _ _ _).1 hfw).2]
  exact List.mem_map.2 ⟨(top, e), List.mem_filter.2 ⟨hmem, by simp [hew]⟩, rfl⟩

/-- the tick of the first wakeups against a pending wakeup `e` of `top`: it is for a time `≤ e`;
observations are appended; and
* `top` is one of the roots (and, if a device, has been updated in the tick), or
* `top` is not a root, the tick is for a time `< e`, `top` is wired downstream of a root and its
  wakeup has been REPLACED by its answer (and, if a device, it has been updated in the tick), or
* `top` is not a root, the tick is for a time `< e`, and the wakeup `e` is still pending. -/
theorem tick_pend {S : Static} (hroot : S.isSys "" = false) {orc : Oracle} {fuel : Nat}
    {L : Level} (hL : S.level "" = some L) {m : MasterSt} {comps : List Comp} {w : SimTime}
    {sim2 : SimSt} {out : List (Port × V)} {top : Comp} {e : SimTime}
    (hfw : firstWakeups (m.sim.sched "").wake = (comps, some w))
    (htick : tickLevel S orc fuel "" w comps [] (delMasterC m.sim comps) = .ok (sim2, out))
    (he : alookup (m.sim.sched "").wake top = some e) :
    w ≤ e ∧ ∃ new, sim2.obs = m.sim.obs ++ new ∧
      ((top ∈ comps ∧ (S.isSys top = false → ∃ o ∈ new, o.comp = top ∧ o.time = w)) ∨
       (top ∉ comps ∧ w < e ∧
         (∃ r ∈ comps, r ∈ L.wiring.components ∧ top ∈ L.wiring.dependants r) ∧
         (S.isSys top = false → ∃ o ∈ new, o.comp = top ∧ o.time = w)) ∨
       (top ∉ comps ∧ w < e ∧ alookup (sim2.sched "").wake top = some e)) := by
  obtain ⟨h1, h2⟩ := firstWakeups_pend hfw he
  obtain ⟨L', hL', new, hnew, hrootsU, hpost⟩ :=
    tickLevel_master_post S hroot orc fuel w comps [] _ sim2 out htick
  rw [hL] at hL'
  cases hL'
  refine ⟨h1, new, hnew, ?_⟩
  by_cases hr : top ∈ comps
  · exact Or.inl ⟨hr, hrootsU top hr⟩
  · right
    rcases hpost top with hsame | ⟨hin, hdev⟩
    · right
      refine ⟨hr, h2 hr, ?_⟩
      rw [hsame, delMasterC_wake, delWakeups_lookup_not_mem _ _ _ hr, he]
    · obtain ⟨r, hrc, hrd⟩ := (sim_mem_extent_iff L.wiring comps top).1 hin
      obtain ⟨L', hL', hknown⟩ := tickLevel_ok_roots htick
      rw [hL] at hL'
      cases hL'
      exact Or.inl ⟨hr, h2 hr, ⟨r, hrc, hknown r hrc, hrd⟩, hdev⟩

/-! ## facts about every run -/

theorem getElem?_at_length (acc t : List TickRec) (r : TickRec) :
    (acc ++ [r] ++ t)[acc.length]? = some r := by
  rw [List.append_assoc, List.getElem?_append_right (Nat.le_refl _), Nat.sub_self]
  rfl

theorem RunC.obs_ext {S : Static} {orc : Oracle} {fuel : Nat} {sp : Speed} {cost : Nat → Nat}
    {m : MasterSt} {stims : List Stim} {acc : List TickRec} {m2 : MasterSt} {ticks : List TickRec}
    {log : List StimEvC} (h : RunC S orc fuel sp cost m stims acc m2 ticks log) :
    ∃ new, m2.sim.obs = m.sim.obs ++ new := by
  induction h with
  | stop => exact ⟨[], by simp⟩
  | @stim m stims acc st rest m2 ticks log hsel _ ih =>
    obtain ⟨new, hnew⟩ := ih
    exact ⟨new, by rw [hnew, stimStepC_obs]⟩
  | @tick m stims acc comps w sim2 out m2 ticks log hsel hfw htick _ ih =>
    obtain ⟨new, hnew⟩ := ih
    obtain ⟨new1, hnew1⟩ := (tickLevel_ok S orc fuel _ _ _ _ _ _ _ htick).1
    refine ⟨new1 ++ new, ?_⟩
    rw [hnew, endTick_obs, hnew1, delMasterC_obs, List.append_assoc]

theorem midLog_k (S : Static) (fuel : Nat) (sp : Speed) (e : Int) (k : Nat) (m : MasterSt)
    (stims : List Stim) : ∀ ev ∈ midLog S fuel sp e k m stims, ev.k = k ∧ ev.mid = true := by
  induction stims generalizing m with
  | nil => intro ev hev; cases hev
  | cons st rest ih =>
    intro ev hev
    rw [midLog] at hev
    split at hev
    · rcases List.mem_cons.1 hev with hev | hev
      · subst hev; exact ⟨rfl, rfl⟩
      · exact ih _ ev hev
    · cases hev

/-- the events of a run are numbered from the number of tick records it starts with -/
theorem RunC.log_k_ge {S : Static} {orc : Oracle} {fuel : Nat} {sp : Speed} {cost : Nat → Nat}
    {m : MasterSt} {stims : List Stim} {acc : List TickRec} {m2 : MasterSt} {ticks : List TickRec}
    {log : List StimEvC} (h : RunC S orc fuel sp cost m stims acc m2 ticks log) :
    ∀ ev ∈ log, acc.length ≤ ev.k := by
  induction h with
  | stop => intro ev hev; cases hev
  | @stim m stims acc st rest m2 ticks log hsel _ ih =>
    intro ev hev
    rcases List.mem_cons.1 hev with hev | hev
    · subst hev; exact Nat.le_refl _
    · exact ih ev hev
  | @tick m stims acc comps w sim2 out m2 ticks log hsel hfw htick _ ih =>
    intro ev hev
    rcases List.mem_append.1 hev with hev | hev
    · have := (midLog_k S fuel sp _ _ _ _ ev hev).1
      omega
    · have := ih ev hev
      simp only [List.length_append, List.length_singleton] at this
      omega

/-! ## the sleep for a stretch of simulation time -/

/-- the sleep, in whole nanoseconds of real time, for `Δ` ns of simulation time:
`max 0 ⌈Δ·den/num⌉` (`sleep_time` evaluated at the very end of the previous tick) -/
def sleepFor (sp : Speed) (Δ : Int) : Int :=
  if Δ * sp.den ≤ 0 then 0 else ceilDiv (Δ * sp.den) sp.num

theorem sleepFor_nonneg (sp : Speed) (hn : 0 < sp.num) (Δ : Int) : 0 ≤ sleepFor sp Δ := by
  unfold sleepFor
  split
  · exact Int.le_refl _
  · exact ceilDiv_nonneg _ _ (by omega) (by omega)

theorem sleepFor_mono (sp : Speed) (hn : 0 < sp.num) (a b : Int) (h : a ≤ b) :
    sleepFor sp a ≤ sleepFor sp b := by
  have hm : a * (sp.den : Int) ≤ b * (sp.den : Int) :=
    Int.mul_le_mul_of_nonneg_right h (by omega)
  unfold sleepFor
  split <;> split
  · exact Int.le_refl _
  · exact ceilDiv_nonneg _ _ (by omega) (by omega)
  · omega
  · exact ceilDiv_mono _ _ _ (by omega) hm

theorem sleepFor_nonpos (sp : Speed) (Δ : Int) (h : Δ ≤ 0) : sleepFor sp Δ = 0 := by
  unfold sleepFor
  rw [if_pos]
  exact Int.mul_nonpos_of_nonpos_of_nonneg h (by omega)

theorem ceilDiv_le_of_le_mul (N n k : Int) (hn : 0 < n) (h : N ≤ k * n) : ceilDiv N n ≤ k := by
  have hlt := ceilDiv_mul_lt N n hn
  apply Decidable.byContradiction
  intro hne
  have h3 : k + 1 ≤ ceilDiv N n := by omega
  have h4 : (k + 1) * n ≤ ceilDiv N n * n := Int.mul_le_mul_of_nonneg_right h3 (by omega)
  rw [Int.add_mul, Int.one_mul] at h4
  omega

/-- the sleep for the simulated time `⌊r·num/den⌋` that corresponds to `r ≥ 0` ns of real time is
at most `r` ns -/
theorem sleepFor_floor_le (sp : Speed) (hn : 0 < sp.num) (hd : 0 < sp.den) (r : Int) (hr : 0 ≤ r) :
    sleepFor sp ((r * sp.num) / sp.den) ≤ r := by
  unfold sleepFor
  split
  · exact hr
  · exact ceilDiv_le_of_le_mul _ _ _ (by omega) (Int.ediv_mul_le _ (by omega))

/-- the time at which `B` is due right after a tick for `w` has ended at real time `e`, for any
master state with these three values -/
theorem dueReal_at_end (m : MasterSt) (sp : Speed) (B : SimTime) (hL : m.lastReal = m.now) :
    dueReal m sp B = m.now + sleepFor sp (B - m.tickerTime) := by
  rw [dueReal_eq, sleepNumer_eq, hL]
  unfold sleepFor
  simp only [Int.sub_self, Int.zero_mul, Int.sub_zero]
  split <;> omega

/-! ## the next tick -/

/-- with a wakeup of `top` pending that is not after `B`: the next tick record — if there is one —
is for a time `≤ B`, it is started no later than `dueReal m sp B`, the real time at which a tick
for `B` is due in the present state of the master, and exactly then if it is the tick for `B`. -/
theorem RunC.c07_next {S : Static} {orc : Oracle} {fuel : Nat} {sp : Speed} {cost : Nat → Nat}
    {m : MasterSt} {stims : List Stim} {acc : List TickRec} {m2 : MasterSt} {ticks : List TickRec}
    {log : List StimEvC} (h : RunC S orc fuel sp cost m stims acc m2 ticks log) (hn : 0 < sp.num)
    (top : Comp) (B : SimTime) :
    m.lastReal ≤ m.now → PendC m top B →
    ∀ x, ticks[acc.length]? = some x →
      x.time ≤ B ∧ m.now ≤ x.real ∧ x.real ≤ dueReal m sp B ∧
        (x.time = B → x.real = dueReal m sp B) := by
  induction h with
  | stop m stims acc =>
    intro _ _ x hx
    have := (List.getElem?_eq_some_iff.1 hx).1
    omega
  | @stim m stims acc st rest m2 ticks log hsel _ ih =>
    intro hLN hp x hx
    obtain ⟨e, he, heB⟩ := hp
    rw [stimFirstC_eq] at hsel
    obtain ⟨w, hw, hwe⟩ := firstWakeups_some_of_mem _ (top, e) (alookup_mem _ _ _ he)
    rw [hw] at hsel
    have hdue := stimSel_due hsel
    have hwB : w ≤ B := Int.le_trans hwe heB
    have hmono := dueReal_mono_when m sp hn w B hwB
    have hnow : (stimStepC S fuel sp m st).now = if st.real < m.now then m.now else st.real := rfl
    have h1 : m.now ≤ (stimStepC S fuel sp m st).now := by rw [hnow]; split <;> omega
    have h0 := (never_early' m sp hn B).1
    have h2 : (stimStepC S fuel sp m st).now ≤ dueReal m sp B := by rw [hnow]; split <;> omega
    have hshift := dueReal_now_shift m (stimStepC S fuel sp m st) sp hn B rfl rfl h1 h2
    obtain ⟨r1, r2, r3, r4⟩ := ih (by show m.lastReal ≤ (stimStepC S fuel sp m st).now; omega)
      (stimStepC_pend S fuel sp m st top B ⟨e, he, heB⟩) x hx
    rw [hshift] at r3 r4
    exact ⟨r1, by omega, r3, r4⟩
  | @tick m stims acc comps w sim2 out m2 ticks log hsel hfw htick hrun ih =>
    intro hLN hp x hx
    obtain ⟨e, he, heB⟩ := hp
    obtain ⟨t, ht⟩ := hrun.prefix
    rw [ht, getElem?_at_length] at hx
    cases hx
    have hwe := (firstWakeups_pend hfw he).1
    have hwB : w ≤ B := Int.le_trans hwe heB
    refine ⟨hwB, (never_early' m sp hn w).1, dueReal_mono_when m sp hn w B hwB, fun hwb => ?_⟩
    have hwb' : w = B := hwb
    rw [hwb']

/-! ## served, never lost, never overtaken -/

/-- tick record `x` serves the wakeup `e` of the top-level component `top`: it is for a time `≤ e`
and `top` is one of its roots — or it is for a time `< e`, `top` is wired downstream of one of its
roots and has answered with a new callback request that REPLACED the wakeup (the model keeps no
`_pending_interrupts`; see the header of `Props/C07Cost.lean`). -/
def ServesC (L : Level) (top : Comp) (e : SimTime) (x : TickRec) : Prop :=
  x.time ≤ e ∧ (top ∈ x.roots ∨
    (x.time < e ∧ ∃ r ∈ x.roots, r ∈ L.wiring.components ∧ top ∈ L.wiring.dependants r))

/-- a component that is wired downstream of no OTHER top-level component is served only by ticks
that have it among their roots -/
theorem ServesC.root {L : Level} {top : Comp} {e : SimTime} {x : TickRec}
    (h : ServesC L top e x)
    (hsrc : ∀ r ∈ L.wiring.components, top ∈ L.wiring.dependants r → r = top) : top ∈ x.roots := by
  rcases h.2 with h2 | ⟨_, r, hr, hrc, hrd⟩
  · exact h2
  · rw [← hsrc r hrc hrd]; exact hr

theorem ServesC.mono {L : Level} {top : Comp} {e e' : SimTime} {x : TickRec}
    (h : ServesC L top e x) (he : e ≤ e') : ServesC L top e' x := by
  obtain ⟨h1, h2⟩ := h
  refine ⟨Int.le_trans h1 he, ?_⟩
  rcases h2 with h2 | ⟨h2, h3⟩
  · exact Or.inl h2
  · exact Or.inr ⟨Int.lt_of_lt_of_le h2 he, h3⟩

theorem stimStepC_lookup (S : Static) (fuel : Nat) (sp : Speed) (m : MasterSt) (st : Stim)
    (k : Nat) (mid : Bool) (top : Comp) (e : SimTime)
    (he : alookup (m.sim.sched "").wake top = some e) :
    ∃ e', alookup ((stimStepC S fuel sp m st).sim.sched "").wake top = some e' ∧ e' ≤ e ∧
      ((⟨⟨m, st, k⟩, mid⟩ : StimEvC).top S fuel = top →
        e' = (⟨⟨m, st, k⟩, mid⟩ : StimEvC).when S fuel sp) := by
  rw [stimStepC_eq, stimStep_wake]
  simp only [addWakeup]
  rw [alookup_upsert]
  by_cases htop : (raiseInterrupt S fuel st.comp m.sim).2 = top
  · rw [if_pos htop]
    refine ⟨_, rfl, ?_, fun _ => rfl⟩
    rw [htop]
    exact stimWhen_le_old _ _ _ _ he
  · rw [if_neg htop]
    exact ⟨e, he, Int.le_refl _, fun h => absurd h htop⟩

theorem midTick_lookup (S : Static) (fuel : Nat) (sp : Speed) (en : Int) (m : MasterSt)
    (stims : List Stim) (top : Comp) (e : SimTime)
    (he : alookup (m.sim.sched "").wake top = some e) :
    ∃ e', alookup ((midTick S fuel sp en m stims).1.sim.sched "").wake top = some e' ∧ e' ≤ e := by
  obtain ⟨e', h1, h2⟩ := midTick_pend S fuel sp en m stims top e ⟨e, he, Int.le_refl _⟩
  exact ⟨e', h1, h2⟩

/-- **the pending wakeup `e` of `top` along a run.**  Observations are only appended, and
* EITHER there is a first tick record `x = ticks[j]` that serves it (`ServesC`): a device `top`
  has a new observation at `x.time`; every tick record before it is for a time `< e`, does not have
  `top` among its roots, and is followed by a tick started no later than its own end plus the sleep
  for the simulated time that separates it from `e`; and the same tick serves every stimulus of
  `top` that the run handles before it;
* OR the wakeup (possibly lowered) is still pending at the end of the run, and every tick record
  is for a time `< e` and does not have `top` among its roots. -/
theorem RunC.c07_serve {S : Static} {orc : Oracle} {fuel : Nat} {sp : Speed} {cost : Nat → Nat}
    {m : MasterSt} {stims : List Stim} {acc : List TickRec} {m2 : MasterSt} {ticks : List TickRec}
    {log : List StimEvC} (h : RunC S orc fuel sp cost m stims acc m2 ticks log)
    (hroot : S.isSys "" = false) {L : Level} (hL : S.level "" = some L) (hn : 0 < sp.num)
    (top : Comp) :
    ∀ e, alookup (m.sim.sched "").wake top = some e →
    ∃ new, m2.sim.obs = m.sim.obs ++ new ∧
      ((∃ j x, acc.length ≤ j ∧ ticks[j]? = some x ∧ ServesC L top e x ∧
          (S.isSys top = false → ∃ o ∈ new, o.comp = top ∧ o.time = x.time) ∧
          (∀ i y, acc.length ≤ i → i < j → ticks[i]? = some y → y.time < e ∧ top ∉ y.roots ∧
            ∀ b, ticks[i + 1]? = some b →
              y.real + cost i ≤ b.real ∧ b.real ≤ y.real + cost i + sleepFor sp (e - y.time)) ∧
          (∀ ev ∈ log, ev.top S fuel = top → ev.k ≤ j → ServesC L top (ev.when S fuel sp) x ∧
            ∀ i y, ev.k ≤ i → i < j → ticks[i]? = some y → y.time < ev.when S fuel sp)) ∨
       ((∃ e', alookup (m2.sim.sched "").wake top = some e' ∧ e' ≤ e) ∧
          ∀ i y, acc.length ≤ i → ticks[i]? = some y → y.time < e ∧ top ∉ y.roots)) := by
  induction h with
  | stop m stims acc =>
    intro e he
    refine ⟨[], by simp, Or.inr ⟨⟨e, he, Int.le_refl _⟩, fun i y hi hy => ?_⟩⟩
    have := (List.getElem?_eq_some_iff.1 hy).1
    omega
  | @stim m stims acc st rest m2 ticks log hsel hrun ih =>
    intro e he
    obtain ⟨e', he', hle, hself⟩ := stimStepC_lookup S fuel sp m st acc.length false top e he
    obtain ⟨new, hnew, hcase⟩ := ih e' he'
    refine ⟨new, by rw [hnew, stimStepC_obs], ?_⟩
    rcases hcase with ⟨j, x, hj, hx, hs, hdev, hbet, hlog⟩ | ⟨⟨e'', h1, h2⟩, hall⟩
    · left
      refine ⟨j, x, hj, hx, hs.mono hle, hdev, fun i y hi hij hy => ?_, fun ev hev htop hk => ?_⟩
      · obtain ⟨b1, b2, b3⟩ := hbet i y hi hij hy
        refine ⟨Int.lt_of_lt_of_le b1 hle, b2, fun b hb => ?_⟩
        obtain ⟨c1, c2⟩ := b3 b hb
        have := sleepFor_mono sp hn (e' - y.time) (e - y.time) (by simp only [SimTime] at *; omega)
        exact ⟨c1, by omega⟩
      · rcases List.mem_cons.1 hev with hev | hev
        · subst hev
          have heq := hself htop
          rw [← heq]
          exact ⟨hs, fun i y hi hij hy => (hbet i y hi hij hy).1⟩
        · exact hlog ev hev htop hk
    · right
      exact ⟨⟨e'', h1, Int.le_trans h2 hle⟩, fun i y hi hy =>
        ⟨Int.lt_of_lt_of_le (hall i y hi hy).1 hle, (hall i y hi hy).2⟩⟩
  | @tick m stims acc comps w sim2 out m2 ticks log hsel hfw htick hrun ih =>
    intro e he
    obtain ⟨t, ht⟩ := hrun.prefix
    have hrec : ticks[acc.length]? = some ⟨w, dueReal m sp w, comps⟩ := by
      rw [ht, getElem?_at_length]
    obtain ⟨hwe, new1, hnew1, hcase⟩ := tick_pend hroot hL hfw htick he
    obtain ⟨e1, e2, e3⟩ := endTick_fst S fuel sp sim2 w (dueReal m sp w)
      (dueReal m sp w + cost acc.length) stims
    have hserved_here : ServesC L top e ⟨w, dueReal m sp w, comps⟩ →
        (S.isSys top = false → ∃ o ∈ new1, o.comp = top ∧ o.time = w) →
        ∃ new, m2.sim.obs = m.sim.obs ++ new ∧
          ((∃ j x, acc.length ≤ j ∧ ticks[j]? = some x ∧ ServesC L top e x ∧
            (S.isSys top = false → ∃ o ∈ new, o.comp = top ∧ o.time = x.time) ∧
            (∀ i y, acc.length ≤ i → i < j → ticks[i]? = some y → y.time < e ∧ top ∉ y.roots ∧
              ∀ b, ticks[i + 1]? = some b →
                y.real + cost i ≤ b.real ∧ b.real ≤ y.real + cost i + sleepFor sp (e - y.time)) ∧
            (∀ ev ∈ endLog S fuel sp sim2 w (dueReal m sp w) (dueReal m sp w + cost acc.length)
                (acc.length + 1) stims ++ log,
              ev.top S fuel = top → ev.k ≤ j → ServesC L top (ev.when S fuel sp) x ∧
              ∀ i y, ev.k ≤ i → i < j → ticks[i]? = some y → y.time < ev.when S fuel sp)) ∨
           ((∃ e', alookup (m2.sim.sched "").wake top = some e' ∧ e' ≤ e) ∧
            ∀ i y, acc.length ≤ i → ticks[i]? = some y → y.time < e ∧ top ∉ y.roots)) := by
      intro hs hdev
      obtain ⟨new2, hnew2⟩ := hrun.obs_ext
      refine ⟨new1 ++ new2, by rw [hnew2, endTick_obs, hnew1, List.append_assoc], Or.inl ?_⟩
      refine ⟨acc.length, _, Nat.le_refl _, hrec, hs, fun hsys => ?_, fun i y hi hij => ?_,
        fun ev hev _ hk => ?_⟩
      · obtain ⟨o, ho, hoc⟩ := hdev hsys
        exact ⟨o, List.mem_append_left _ ho, hoc⟩
      · omega
      · rcases List.mem_append.1 hev with hev | hev
        · have := (midLog_k S fuel sp _ _ _ _ ev hev).1
          omega
        · have := hrun.log_k_ge ev hev
          simp only [List.length_append, List.length_singleton] at this
          omega
    rcases hcase with ⟨hr, hdev⟩ | ⟨hr, hlt, hext, hdev⟩ | ⟨hr, hlt, hstill⟩
    · exact hserved_here ⟨hwe, Or.inl hr⟩ hdev
    · exact hserved_here ⟨hwe, Or.inr ⟨hlt, hext⟩⟩ hdev
    · -- the wakeup is still pending after the tick
      obtain ⟨e2', he2', hle2⟩ := midTick_lookup S fuel sp (dueReal m sp w + cost acc.length)
        { sim := sim2, tickerTime := w, lastReal := dueReal m sp w, now := dueReal m sp w } stims
        top e hstill
      obtain ⟨new2, hnew2, hcase2⟩ := ih e2' he2'
      -- the tick that follows this one
      have hnext : ∀ b, ticks[acc.length + 1]? = some b →
          dueReal m sp w + cost acc.length ≤ b.real ∧
          b.real ≤ dueReal m sp w + cost acc.length + sleepFor sp (e - w) := by
        intro b hb
        have hlen : (acc ++ [(⟨w, dueReal m sp w, comps⟩ : TickRec)]).length = acc.length + 1 := by
          simp
        obtain ⟨_, n2, n3, _⟩ := hrun.c07_next hn top e2' (by rw [e2, e3]; exact Int.le_refl _)
          ⟨e2', he2', Int.le_refl _⟩ b (by rw [hlen]; exact hb)
        rw [dueReal_at_end _ sp e2' (by rw [e2, e3]), e3, e1] at n3
        rw [e3] at n2
        have := sleepFor_mono sp hn (e2' - w) (e - w) (by simp only [SimTime] at *; omega)
        exact ⟨n2, by omega⟩
      refine ⟨new1 ++ new2, by rw [hnew2, endTick_obs, hnew1, List.append_assoc], ?_⟩
      rcases hcase2 with ⟨j, x, hj, hx, hs, hdev, hbet, hlog⟩ | ⟨⟨e'', h1, h2⟩, hall⟩
      · left
        simp only [List.length_append, List.length_singleton] at hj hbet
        refine ⟨j, x, by omega, hx, hs.mono hle2, fun hsys => ?_, fun i y hi hij hy => ?_,
          fun ev hev htop hk => ?_⟩
        · obtain ⟨o, ho, hoc⟩ := hdev hsys
          exact ⟨o, List.mem_append_right _ ho, hoc⟩
        · by_cases hi0 : i = acc.length
          · subst hi0
            rw [hrec] at hy
            cases hy
            exact ⟨hlt, hr, hnext⟩
          · obtain ⟨b1, b2, b3⟩ := hbet i y (by omega) hij hy
            refine ⟨Int.lt_of_lt_of_le b1 hle2, b2, fun b hb => ?_⟩
            obtain ⟨c1, c2⟩ := b3 b hb
            have := sleepFor_mono sp hn (e2' - y.time) (e - y.time)
              (by simp only [SimTime] at *; omega)
            exact ⟨c1, by omega⟩
        · rcases List.mem_append.1 hev with hev | hev
          · -- a stimulus of `top` handled in the middle of this tick
            obtain ⟨hk', _⟩ := midLog_k S fuel sp _ _ _ _ ev hev
            obtain ⟨⟨e3', hp1, hp2⟩, _⟩ := midLog_pend S fuel sp _ _ _ _ ev hev
            rw [htop] at hp1
            have heq : e3' = e2' := by
              have := hp1.symm.trans he2'
              exact Option.some.inj this
            rw [heq] at hp2
            refine ⟨hs.mono hp2, fun i y hi hij hy => ?_⟩
            exact Int.lt_of_lt_of_le (hbet i y (by omega) hij hy).1 hp2
          · exact hlog ev hev htop hk
      · right
        simp only [List.length_append, List.length_singleton] at hall
        refine ⟨⟨e'', h1, Int.le_trans h2 hle2⟩, fun i y hi hy => ?_⟩
        by_cases hi0 : i = acc.length
        · subst hi0
          rw [hrec] at hy
          cases hy
          exact ⟨hlt, hr⟩
        · exact ⟨Int.lt_of_lt_of_le (hall i y (by omega) hy).1 hle2, (hall i y (by omega) hy).2⟩

end CostRun
end Tickit
