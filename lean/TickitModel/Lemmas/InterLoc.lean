/-
Interleaved nested tick, part 2: every primitive of a tick reads and writes the shared state only
through the key-wise view `SimSt.loc` of the keys in its footprint.  Hence an atomic execution of a
tick of level `lvl` can be TRANSPLANTED to any start state that has the same view at and below
`lvl`: same answers, same tickers, same exposed changes, same view of the result at and below `lvl`
(`tickLevelAny_transplant`).  This is the commutation of an inner tick with everything that
happens outside its footprint.
-/
import TickitModel.Lemmas.AnyDet

namespace Tickit

/-- two states have the same key-wise view on the keys satisfying `P` (EQUAL, not just equivalent) -/
def LocOn (P : Comp → Prop) (a b : SimSt) : Prop := ∀ x, P x → a.loc x = b.loc x

theorem LocOn.symm {P : Comp → Prop} {a b : SimSt} (h : LocOn P a b) : LocOn P b a :=
  fun x hx => (h x hx).symm

theorem sched_of_loc {a b : SimSt} {x : Comp} (h : a.loc x = b.loc x) : a.sched x = b.sched x :=
  congrArg SLoc.sch h

theorem sysRoots_of_sched {S : Static} {a b : SimSt} {c : Comp} (h : a.sched c = b.sched c)
    (t : SimTime) : sysRoots S a c t = sysRoots S b c t := by
  unfold sysRoots
  simp only []
  rw [h]

theorem sysCallAt_of_sched {a b : SimSt} {c : Comp} (h : a.sched c = b.sched c) (t : SimTime) :
    sysCallAt a c t = sysCallAt b c t := by
  unfold sysCallAt
  simp only []
  rw [h]

theorem loc_sysPre_congr {a b : SimSt} {x : Comp} (h : a.loc x = b.loc x) (c : Comp) (t : SimTime) :
    (sysPre a c t).loc x = (sysPre b c t).loc x := by
  by_cases hx : x = c
  · subst hx
    rw [loc_sysPre_self, loc_sysPre_self, h, sched_of_loc h]
  · rw [loc_sysPre_ne _ _ _ hx, loc_sysPre_ne _ _ _ hx, h]

theorem loc_anyWake_congr {a b : SimSt} {x : Comp} (h : a.loc x = b.loc x) (lvl c : Comp)
    (ca : Option SimTime) : (anyWake a lvl c ca).loc x = (anyWake b lvl c ca).loc x := by
  by_cases hx : x = lvl
  · subst hx
    rw [loc_anyWake_self, loc_anyWake_self, h, sched_of_loc h]
  · rw [loc_anyWake_ne _ _ _ _ hx, loc_anyWake_ne _ _ _ _ hx, h]

theorem loc_devAfter_congr {a b : SimSt} {x : Comp} (h : a.loc x = b.loc x) (c : Comp) (t : SimTime)
    (ins : List (Port × V)) (resp : DevResp) :
    (devAfter a c t ins resp).1.loc x = (devAfter b c t ins resp).1.loc x := by
  by_cases hx : x = c
  · subst hx
    have h1 : agetD a.devs x {} = agetD b.devs x {} := congrArg SLoc.dev h
    have h2 : agetD a.count x 0 = agetD b.count x 0 := congrArg SLoc.cnt h
    have h3 : a.sched x = b.sched x := congrArg SLoc.sch h
    have h4 : a.obsOf x = b.obsOf x := congrArg SLoc.ob h
    rw [loc_devAfter_self, loc_devAfter_self, h1, h2, h3, h4]
  · rw [loc_devAfter_ne _ _ _ _ _ hx, loc_devAfter_ne _ _ _ _ _ hx, h]

theorem devAfter_changes_congr {a b : SimSt} {c : Comp} (h : a.loc c = b.loc c) (t : SimTime)
    (ins : List (Port × V)) (resp : DevResp) :
    (devAfter a c t ins resp).2 = (devAfter b c t ins resp).2 := by
  have h1 : agetD a.devs c {} = agetD b.devs c {} := congrArg SLoc.dev h
  rw [devAfter_changes, devAfter_changes, h1]

section

variable {S : Static} {orc : Oracle}

/-- what is at or below a (non-master) child of `L` belongs to that child -/
theorem foot_of_atOrBelow {L : Level} {c x : Comp} (hpar : alookup S.parent c = some L.name)
    (hcne : c ≠ "") (h : AtOrBelow S c x) : Foot S L c x := by
  rcases h with rfl | hb
  · exact ⟨hpar, Or.inl rfl⟩
  · exact ⟨hpar, Or.inr ⟨hcne, hb⟩⟩

theorem atOrBelow_of_foot {L : Level} {c x : Comp} (h : Foot S L c x) : AtOrBelow S c x := by
  rcases h.2 with rfl | ⟨_, hb⟩
  · exact Or.inl rfl
  · exact Or.inr hb

/-- what is at or below a child of level `lvl` is below `lvl` -/
theorem atOrBelow_child {lvl c x : Comp} (hpar : alookup S.parent c = some lvl) (hcne : c ≠ "")
    (h : AtOrBelow S c x) : S.Below lvl x := by
  rcases h with rfl | hb
  · exact .direct hpar
  · exact hb.lift hpar hcne

/-- the regions of two different children of a level are disjoint -/
theorem child_regions_disjoint (hS : S.Valid) {lvl a b x : Comp}
    (ha : alookup S.parent a = some lvl) (hb : alookup S.parent b = some lvl) (hane : a ≠ "")
    (hbne : b ≠ "") (h1 : AtOrBelow S a x) (h2 : AtOrBelow S b x) : a = b := by
  have o1 : S.Own a x := by
    rcases h1 with rfl | h
    · exact Or.inl rfl
    · exact Or.inr ⟨hane, h⟩
  have o2 : S.Own b x := by
    rcases h2 with rfl | h
    · exact Or.inl rfl
    · exact Or.inr ⟨hbne, h⟩
  exact Static.Own.unique hS.toWF ha hb o1 o2

/-- a system component is not a mock component -/
theorem sys_not_pseudo (hS : S.Valid) {c : Comp} (h : S.isSys c = true) (n : Comp) :
    (n != "" && c == pseudoExternal) = false ∧ (n != "" && c == pseudoExpose) = false := by
  obtain ⟨_, _, h3, h4⟩ := hS.pseudo_fresh
  constructor
  · cases hc : (c == pseudoExternal) with
    | false => simp
    | true =>
      rw [beq_iff_eq] at hc
      rw [hc, h3] at h
      cases h
  · cases hc : (c == pseudoExpose) with
    | false => simp
    | true =>
      rw [beq_iff_eq] at hc
      rw [hc, h4] at h
      cases h

/-- the transplant property of ONE execution of a tick: from every start state with the same view
at and below the level there is an execution with the same exposed changes and the same view of
the result at and below the level -/
def Transplants (S : Static) (inner' : LevelRel) : LevelRel :=
  fun lvl t roots inCh st r =>
    ∀ st', LocOn (AtOrBelow S lvl) st' st →
      ∃ st2', inner' lvl t roots inCh st' (st2', r.2) ∧ LocOn (AtOrBelow S lvl) st2' r.1

/-- **one answer depends on the state only through the view of the addressed component's
footprint**: same `Output.changes`, same `call_at`, same view of the result on the footprint. -/
theorem AnsP.transplant (hS : S.Valid) {inner inner' : LevelRel}
    (hin : ∀ c t ro i s r, inner c t ro i s r → Transplants S inner' c t ro i s r)
    {L : Level} (hL : L ∈ S.levels) {inCh : List (Port × V)} {σ : SimSt} {d : Dispatch V}
    {res : SimSt × List (Port × V) × Option SimTime} (a : AnsP S orc inner L inCh σ d res)
    (hdc : d.comp ∈ L.wiring.components) {σ' : SimSt}
    (hσ : ∀ x, Foot S L d.comp x → σ'.loc x = σ.loc x) :
    ∃ σ2', AnsP S orc inner' L inCh σ' d (σ2', res.2.1, res.2.2) ∧
      ∀ x, Foot S L d.comp x → σ2'.loc x = res.1.loc x := by
  cases a with
  | skip => exact ⟨σ', .skip, hσ⟩
  | external h1 => exact ⟨σ', .external h1, hσ⟩
  | expose h1 h2 => exact ⟨σ', .expose h1 h2, hσ⟩
  | @sys c t ins st2 outCh e1 e2 e3 e4 =>
    simp only [Dispatch.comp] at hdc hσ ⊢
    have hpar := parent_of_not_pseudo hS hL hdc e1 e2
    have hcne : c ≠ "" := hS.sys_ne_master e3
    have hc : σ'.loc c = σ.loc c := hσ c ⟨hpar, Or.inl rfl⟩
    have hpre : LocOn (AtOrBelow S c) (sysPre σ' c t) (sysPre σ c t) :=
      fun x hx => loc_sysPre_congr (hσ x (foot_of_atOrBelow hpar hcne hx)) c t
    obtain ⟨s2', hi, hl⟩ := hin _ _ _ _ _ _ e4 _ hpre
    simp only at hi hl
    rw [← sysRoots_of_sched (S := S) (sched_of_loc hc) t] at hi
    refine ⟨s2', ?_, fun x hx => hl x (atOrBelow_of_foot hx)⟩
    have hca : sysCallAt st2 c t = sysCallAt s2' c t :=
      (sysCallAt_of_sched (sched_of_loc (hl c (Or.inl rfl))) t).symm
    rw [hca]
    exact .sys e1 e2 e3 hi
  | @dev c t ins resp e1 e2 e3 e4 e5 =>
    simp only [Dispatch.comp] at hdc hσ ⊢
    have hpar := parent_of_not_pseudo hS hL hdc e1 e2
    have hc : σ'.loc c = σ.loc c := hσ c ⟨hpar, Or.inl rfl⟩
    have hcnt : agetD σ'.count c 0 = agetD σ.count c 0 := congrArg SLoc.cnt hc
    refine ⟨(devAfter σ' c t ins resp).1, ?_, fun x hx => loc_devAfter_congr (hσ x hx) c t ins resp⟩
    rw [← devAfter_changes_congr hc t ins resp]
    exact .dev e1 e2 e3 (by rw [hcnt]; exact e4) e5

/-- the loop of one level, transplanted -/
theorem LoopP.transplant (hS : S.Valid) {L : Level} (hL : L ∈ S.levels) {inCh : List (Port × V)}
    {ls : LoopSt} {r : SimSt × List (Port × V)}
    (a : LoopP S orc (fun c t ro i s r => TickLevelAny S orc c t ro i s r ∧
      Transplants S (TickLevelAny S orc) c t ro i s r) L inCh ls r) :
    ∀ {st0 : SimSt}, Inv1 S L st0 ls → ∀ σ' : SimSt, LocOn (AtOrBelow S L.name) σ' ls.st →
      ∃ σ2', LoopP S orc (TickLevelAny S orc) L inCh ⟨ls.tk, ls.pending, ls.outCh, σ'⟩ (σ2', r.2) ∧
        LocOn (AtOrBelow S L.name) σ2' r.1 := by
  have hp1 : ∀ c t ro i s r, (TickLevelAny S orc c t ro i s r ∧
      Transplants S (TickLevelAny S orc) c t ro i s r) → LevelPost1 S c s r :=
    fun _ _ _ _ _ _ h => tickLevelAny_post1 hS h.1
  have hp2 : ∀ c t ro i s r, TickLevelAny S orc c t ro i s r → LevelPost1 S c s r :=
    fun _ _ _ _ _ _ h => tickLevelAny_post1 hS h
  induction a with
  | @done ls h1 h2 =>
    intro st0 _ σ' hσ
    exact ⟨σ', .done h1 h2, hσ⟩
  | @step ls i d st' changes callAt tk' ds r h1 ha h3 _ ih =>
    intro st0 inv σ' hσ
    have hdc : d.comp ∈ L.wiring.components := inv.pend_comp d (List.mem_of_getElem? h1)
    have hfoot : ∀ x, Foot S L d.comp x → σ'.loc x = ls.st.loc x :=
      fun x hx => hσ x (Or.inr hx.below)
    obtain ⟨σ2, ha', hl⟩ := ha.transplant hS (fun _ _ _ _ _ _ h => h.2) hL hdc hfoot
    simp only at ha' hl
    have hnew : LocOn (AtOrBelow S L.name) (anyWake σ2 L.name d.comp callAt)
        (anyWake st' L.name d.comp callAt) := by
      intro x hx
      apply loc_anyWake_congr
      by_cases hf : Foot S L d.comp x
      · exact hl x hf
      · have e1 : σ2.loc x = σ'.loc x := ha'.frame_foot hS hp2 hL hdc hf
        have e2 : st'.loc x = ls.st.loc x := ha.frame_foot hS hp1 hL hdc hf
        rw [e1, e2]
        exact hσ x hx
    obtain ⟨σ3, hloop, hfin⟩ := ih (inv.step hS hp1 hL h1 ha h3) _ hnew
    exact ⟨σ3, .step (ls := ⟨ls.tk, ls.pending, ls.outCh, σ'⟩) h1 ha' h3 hloop, hfin⟩

/-- the light invariant holds when the loop of a level starts -/
theorem Inv1.init {L : Level} {t : SimTime} {roots : List Comp} {tk : Ticker V}
    {ds : List (Dispatch V)}
    (hcall : (Ticker.call L.wiring t roots : Except TickErr (Ticker V × List (Dispatch V))) = .ok (tk, ds))
    (st : SimSt) : Inv1 S L st ⟨tk, ds, [], st⟩ := by
  obtain ⟨hin0, hds⟩ := call_facts hcall
  exact
    { pend_comp := fun d hd => (hds d hd).2
      frame := fun _ _ _ => rfl
      wf := fun h => h
      insn := fun c => by simp [hin0, agetD]
      pendn := fun d hd => (hds d hd).1
      outn := by simp }

/-- **an atomic execution of a tick depends on the start state only through its view at and below
the level**: transplanted to any state with the same view there, it gives the same exposed changes
and the same view of the result there (elsewhere nothing changes, `any_order_frame`). -/
theorem tickLevelAny_transplant (hS : S.Valid) {lvl : Comp} {t : SimTime} {roots : List Comp}
    {inCh : List (Port × V)} {st : SimSt} {r : SimSt × List (Port × V)}
    (h : TickLevelAny S orc lvl t roots inCh st r) :
    Transplants S (TickLevelAny S orc) lvl t roots inCh st r := by
  refine TickLevelAny.strong_induct (Q := Transplants S (TickLevelAny S orc)) ?_ h
  rintro lvl t roots inCh st r ⟨L, tk, ds, hLv, hcall, hloop⟩ st' hst'
  obtain ⟨hL, hname⟩ := Static.level_some hLv
  subst hname
  obtain ⟨σ2, hl, hfin⟩ := hloop.transplant hS hL (Inv1.init hcall st) st' hst'
  exact ⟨σ2, tickLevelAny_iff.2 ⟨L, tk, ds, hLv, hcall, hl⟩, hfin⟩

end

end Tickit
