/-
Lemmas for the HTTP adapter path (Core/Http.lean): first-match characterisation, soundness and
completeness of both resolvers, the exact rule of the indexed resolver, syntactic overlap,
permutation invariance on non-overlapping tables.
-/
import TickitModel.Core.Http

namespace Tickit
namespace Http

/-! ### generic list facts -/

/-- `findSome?` by position: the first element on which `f` is defined. -/
theorem findSome?_eq_some_iff_idx {α β : Type} (f : α → Option β) (l : List α) (b : β) :
    l.findSome? f = some b ↔
      ∃ (i : Nat) (a : α), l[i]? = some a ∧ f a = some b ∧
        ∀ j : Nat, j < i → ∀ a' : α, l[j]? = some a' → f a' = none := by
  induction l with
  | nil => simp
  | cons x t ih =>
    rw [List.findSome?_cons]
    cases hx : f x with
    | some y =>
      constructor
      · intro h
        refine ⟨0, x, by simp, ?_, by omega⟩
        simpa [hx] using h
      · rintro ⟨i, a, hi, hfa, hall⟩
        cases i with
        | zero =>
          simp at hi
          subst hi
          simp [hx] at hfa
          simp [hfa]
        | succ i =>
          have := hall 0 (by omega) x (by simp)
          simp [hx] at this
    | none =>
      simp only []
      rw [ih]
      constructor
      · rintro ⟨i, a, hi, hfa, hall⟩
        refine ⟨i + 1, a, by simpa using hi, hfa, ?_⟩
        intro j hj a' ha'
        cases j with
        | zero =>
          simp at ha'
          subst ha'
          exact hx
        | succ j => exact hall j (by omega) a' (by simpa using ha')
      · rintro ⟨i, a, hi, hfa, hall⟩
        cases i with
        | zero =>
          simp at hi
          subst hi
          simp [hx] at hfa
        | succ i =>
          refine ⟨i, a, by simpa using hi, hfa, ?_⟩
          intro j hj a' ha'
          exact hall (j + 1) (by omega) a' (by simpa using ha')

theorem findSome?_filter' {α β : Type} (q : α → Bool) (f : α → Option β) (l : List α) :
    (l.filter q).findSome? f = l.findSome? (fun x => if q x then f x else none) := by
  induction l with
  | nil => rfl
  | cons x t ih =>
    by_cases hq : q x = true
    · simp [hq, List.findSome?_cons, ih]
    · simp [hq, ih]

/-- walking `n, n-1, …, 0`: the largest `k ≤ n` on which `g` is defined. -/
theorem findSome?_countdown {β : Type} (g : Nat → Option β) (n : Nat) (b : β) :
    ((List.range (n + 1)).reverse).findSome? g = some b ↔
      ∃ k, k ≤ n ∧ g k = some b ∧ ∀ k', k < k' → k' ≤ n → g k' = none := by
  induction n with
  | zero =>
    simp only [Nat.zero_add, List.range_one, List.reverse_cons, List.reverse_nil, List.nil_append,
      List.findSome?_cons, List.findSome?_nil]
    constructor
    · intro h
      refine ⟨0, by omega, ?_, by omega⟩
      cases hg : g 0 <;> simp_all
    · rintro ⟨k, hk, hg, _⟩
      have : k = 0 := by omega
      subst this
      simp [hg]
  | succ n ih =>
    rw [List.range_succ, List.reverse_append]
    simp only [List.reverse_cons, List.reverse_nil, List.nil_append, List.singleton_append,
      List.findSome?_cons]
    cases hg : g (n + 1) with
    | some y =>
      simp only []
      constructor
      · intro h
        refine ⟨n + 1, by omega, ?_, by omega⟩
        simpa [hg] using h
      · rintro ⟨k, hk, hgk, hall⟩
        by_cases hkn : k = n + 1
        · subst hkn
          simp [hg] at hgk
          simp [hgk]
        · have := hall (n + 1) (by omega) (by omega)
          simp [hg] at this
    | none =>
      simp only []
      rw [ih]
      constructor
      · rintro ⟨k, hk, hgk, hall⟩
        refine ⟨k, by omega, hgk, ?_⟩
        intro k' h1 h2
        by_cases hkn : k' = n + 1
        · subst hkn; exact hg
        · exact hall k' h1 (by omega)
      · rintro ⟨k, hk, hgk, hall⟩
        have hkn : k ≠ n + 1 := by
          intro h; subst h; simp [hg] at hgk
        exact ⟨k, by omega, hgk, fun k' h1 h2 => hall k' h1 (by omega)⟩

theorem countdown_eq_none {β : Type} (g : Nat → Option β) (n : Nat) :
    ((List.range (n + 1)).reverse).findSome? g = none ↔ ∀ k, k ≤ n → g k = none := by
  rw [List.findSome?_eq_none_iff]
  constructor
  · intro h k hk
    exact h k (by simp; omega)
  · intro h k hk
    simp at hk
    exact h k (by omega)

/-! ### callables -/

theorem Endpoint.wrapped_call (e : Endpoint) (a : Args) :
    e.wrapped.call a =
      ([.effect e.handler a] ++ (if e.interrupt then [Event.interrupt] else []), e.handler) := by
  unfold Endpoint.wrapped
  cases e.interrupt <;> simp [Wrapped.call]

theorem Endpoint.wrapped_target (e : Endpoint) : e.wrapped.target = e.handler := by
  unfold Endpoint.wrapped
  cases e.interrupt <;> simp [Wrapped.target]

theorem Endpoint.define_accepts (e : Endpoint) (m : Method) (p : Path) :
    e.define.accepts m p = e.accepts m p := rfl

theorem createRouteDefinitions_getElem? (eps : List Endpoint) (i : Nat) :
    (createRouteDefinitions eps)[i]? = (eps[i]?).map Endpoint.define := by
  simp [createRouteDefinitions]

/-- awaiting the callable of `e`'s route and sending its response = `e.trace`. -/
theorem Endpoint.define_serve (e : Endpoint) (a : Args) :
    (e.define.handler.call a).1 ++ [Event.reply (e.define.handler.call a).2] = e.trace a := by
  show (e.wrapped.call a).1 ++ [Event.reply (e.wrapped.call a).2] = e.trace a
  rw [Endpoint.wrapped_call]
  simp [Endpoint.trace]

/-! ### resolvers -/

/-- a resolver only ever returns a registered route that accepts the request, with the variables
that route captures. -/
def Resolver.Sound (R : Resolver) : Prop :=
  ∀ routes m p r a, R routes m p = some (r, a) → r ∈ routes ∧ r.accepts m p = some a

/-- a resolver reports "no route" only when no registered route accepts the request. -/
def Resolver.Complete (R : Resolver) : Prop :=
  ∀ routes m p, R routes m p = none → ∀ r ∈ routes, r.accepts m p = none

theorem resolveFirst_eq_some_iff (routes : List RouteDef) (m : Method) (p : Path) (r : RouteDef)
    (a : Args) :
    resolveFirst routes m p = some (r, a) ↔
      ∃ i : Nat, routes[i]? = some r ∧ r.accepts m p = some a ∧
        ∀ j : Nat, j < i → ∀ r' : RouteDef, routes[j]? = some r' → r'.accepts m p = none := by
  unfold resolveFirst
  rw [findSome?_eq_some_iff_idx]
  constructor
  · rintro ⟨i, r0, hi, hf, hall⟩
    cases hacc : r0.accepts m p with
    | none => simp [hacc] at hf
    | some a0 =>
      simp [hacc] at hf
      obtain ⟨h1, h2⟩ := hf
      subst h1 h2
      refine ⟨i, hi, hacc, ?_⟩
      intro j hj r' hr'
      have := hall j hj r' hr'
      simpa using this
  · rintro ⟨i, hi, hacc, hall⟩
    refine ⟨i, r, hi, by simp [hacc], ?_⟩
    intro j hj r' hr'
    simp [hall j hj r' hr']

theorem resolveFirst_sound : Resolver.Sound resolveFirst := by
  intro routes m p r a h
  rw [resolveFirst_eq_some_iff] at h
  obtain ⟨i, hi, hacc, _⟩ := h
  exact ⟨List.mem_of_getElem? hi, hacc⟩

theorem resolveFirst_complete : Resolver.Complete resolveFirst := by
  intro routes m p h r hr
  unfold resolveFirst at h
  rw [List.findSome?_eq_none_iff] at h
  simpa using h r hr

/-! ### the index key is a prefix of every path the template matches -/

theorem stripTrailingEmpty_prefix (l : List String) : stripTrailingEmpty l <+: l := by
  unfold stripTrailingEmpty
  have h := List.dropWhile_suffix (l := l.reverse) (· == "")
  have := List.reverse_prefix.mpr h
  simpa using this

theorem litPrefix_of_match (t : List Seg) (p : Path) (h : (matchPath t p).isSome) :
    (t.takeWhile Seg.isLit).map Seg.text <+: p := by
  induction t generalizing p with
  | nil => simp
  | cons s t ih =>
    cases s with
    | var n => simp [Seg.isLit]
    | lit l =>
      cases p with
      | nil => simp [matchPath] at h
      | cons x p =>
        simp only [matchPath] at h
        split at h
        · rename_i hlx
          subst hlx
          simp only [List.takeWhile_cons, Seg.isLit, if_true, List.map_cons, Seg.text]
          exact (List.cons_prefix_cons).mpr ⟨rfl, ih p h⟩
        · simp at h

theorem indexKey_prefix (t : List Seg) (p : Path) (h : (matchPath t p).isSome) :
    indexKey t <+: p :=
  List.IsPrefix.trans (stripTrailingEmpty_prefix _) (litPrefix_of_match t p h)

theorem indexKey_eq_take (t : List Seg) (p : Path) (h : (matchPath t p).isSome) :
    indexKey t = p.take (indexKey t).length ∧ (indexKey t).length ≤ p.length := by
  have hp := indexKey_prefix t p h
  exact ⟨List.prefix_iff_eq_take.mp hp, hp.length_le⟩

theorem RouteDef.accepts_isSome_match (r : RouteDef) (m : Method) (p : Path)
    (h : (r.accepts m p).isSome) : (matchPath r.path p).isSome := by
  unfold RouteDef.accepts at h
  split at h
  · exact h
  · simp at h

/-! ### the indexed resolver -/

/-- guard form of `resolveAt` -/
theorem resolveAt_eq (routes : List RouteDef) (m : Method) (p : Path) (key : List String) :
    resolveAt routes m p key =
      routes.findSome? (fun r => if indexKey r.path == key
        then (r.accepts m p).map (fun a => (r, a)) else none) := by
  unfold resolveAt
  exact findSome?_filter' _ _ _

theorem resolveAt_eq_some_iff (routes : List RouteDef) (m : Method) (p : Path) (key : List String)
    (r : RouteDef) (a : Args) :
    resolveAt routes m p key = some (r, a) ↔
      ∃ i : Nat, routes[i]? = some r ∧ indexKey r.path = key ∧ r.accepts m p = some a ∧
        ∀ j : Nat, j < i → ∀ r' : RouteDef, routes[j]? = some r' → indexKey r'.path = key →
          r'.accepts m p = none := by
  rw [resolveAt_eq, findSome?_eq_some_iff_idx]
  constructor
  · rintro ⟨i, r0, hi, hf, hall⟩
    by_cases hk : indexKey r0.path = key
    · cases hacc : r0.accepts m p with
      | none => simp [hk, hacc] at hf
      | some a0 =>
        simp [hk, hacc] at hf
        obtain ⟨h1, h2⟩ := hf
        subst h1 h2
        refine ⟨i, hi, hk, hacc, ?_⟩
        intro j hj r' hr' hk'
        have := hall j hj r' hr'
        simpa [hk'] using this
    · simp [hk] at hf
  · rintro ⟨i, hi, hk, hacc, hall⟩
    refine ⟨i, r, hi, by simp [hk, hacc], ?_⟩
    intro j hj r' hr'
    by_cases hk' : indexKey r'.path = key
    · simp [hk', hall j hj r' hr' hk']
    · simp [hk']

theorem resolveAt_eq_none_iff (routes : List RouteDef) (m : Method) (p : Path) (key : List String) :
    resolveAt routes m p key = none ↔
      ∀ r ∈ routes, indexKey r.path = key → r.accepts m p = none := by
  rw [resolveAt_eq, List.findSome?_eq_none_iff]
  constructor
  · intro h r hr hk
    have := h r hr
    simpa [hk] using this
  · intro h r hr
    by_cases hk : indexKey r.path = key
    · simp [hk, h r hr hk]
    · simp [hk]

theorem resolveIndexed_sound : Resolver.Sound resolveIndexed := by
  intro routes m p r a h
  unfold resolveIndexed at h
  obtain ⟨k, _, hk⟩ := List.exists_of_findSome?_eq_some h
  rw [resolveAt_eq_some_iff] at hk
  obtain ⟨i, hi, _, hacc, _⟩ := hk
  exact ⟨List.mem_of_getElem? hi, hacc⟩

theorem resolveIndexed_complete : Resolver.Complete resolveIndexed := by
  intro routes m p h r hr
  unfold resolveIndexed at h
  rw [countdown_eq_none] at h
  cases hacc : r.accepts m p with
  | none => rfl
  | some a =>
    have hm := r.accepts_isSome_match m p (by simp [hacc])
    obtain ⟨hk, hle⟩ := indexKey_eq_take r.path p hm
    have := h _ hle
    rw [resolveAt_eq_none_iff] at this
    have := this r hr hk
    simp [hacc] at this

/-- **the exact rule of aiohttp's indexed resolution** (simple templates): the route served is an
accepting route of maximal specificity (length of the literal prefix of its template), and among
those of that specificity the first registered. -/
theorem resolveIndexed_eq_some_iff (routes : List RouteDef) (m : Method) (p : Path) (r : RouteDef)
    (a : Args) :
    resolveIndexed routes m p = some (r, a) ↔
      ∃ i : Nat, routes[i]? = some r ∧ r.accepts m p = some a ∧
        ∀ (j : Nat) (r' : RouteDef), routes[j]? = some r' → (r'.accepts m p).isSome →
          (indexKey r'.path).length < (indexKey r.path).length ∨
          ((indexKey r'.path).length = (indexKey r.path).length ∧ i ≤ j) := by
  unfold resolveIndexed
  rw [findSome?_countdown]
  constructor
  · rintro ⟨k, hk, hat, hlater⟩
    rw [resolveAt_eq_some_iff] at hat
    obtain ⟨i, hi, hkey, hacc, hbefore⟩ := hat
    have hlen : (indexKey r.path).length = k := by
      rw [hkey, List.length_take]; omega
    refine ⟨i, hi, hacc, ?_⟩
    intro j r' hr' hacc'
    have hm' := r'.accepts_isSome_match m p hacc'
    obtain ⟨hk', hle'⟩ := indexKey_eq_take r'.path p hm'
    rw [hlen]
    by_cases hgt : k < (indexKey r'.path).length
    · have := hlater _ hgt hle'
      rw [resolveAt_eq_none_iff] at this
      have := this r' (List.mem_of_getElem? hr') hk'
      simp [this] at hacc'
    · by_cases heq : (indexKey r'.path).length = k
      · right
        refine ⟨heq, ?_⟩
        by_cases hji : j < i
        · have := hbefore j hji r' hr' (by rw [hk', heq])
          simp [this] at hacc'
        · omega
      · left; omega
  · rintro ⟨i, hi, hacc, hall⟩
    have hm := r.accepts_isSome_match m p (by simp [hacc])
    obtain ⟨hk, hle⟩ := indexKey_eq_take r.path p hm
    refine ⟨(indexKey r.path).length, hle, ?_, ?_⟩
    · rw [resolveAt_eq_some_iff]
      refine ⟨i, hi, hk, hacc, ?_⟩
      intro j hj r' hr' hk'
      cases hacc' : r'.accepts m p with
      | none => rfl
      | some a' =>
        have hlen : (indexKey r'.path).length = (indexKey r.path).length := by
          rw [hk', List.length_take]; omega
        rcases hall j r' hr' (by simp [hacc']) with h | ⟨_, h⟩ <;> omega
    · intro k' hgt hle'
      rw [resolveAt_eq_none_iff]
      intro r' hr' hk'
      cases hacc' : r'.accepts m p with
      | none => rfl
      | some a' =>
        have hlen : (indexKey r'.path).length = k' := by
          rw [hk', List.length_take]; omega
        obtain ⟨j, hj⟩ := List.getElem?_of_mem hr'
        rcases hall j r' hj (by simp [hacc']) with h | ⟨h, _⟩ <;> omega

end Http
end Tickit
