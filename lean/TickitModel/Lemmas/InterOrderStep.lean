/-
Interleaved nested tick, part 7: one interleaved step and the order of updates (`IStep.ord`), runs
(`IRun.ord`), and the result: in every complete interleaved execution of a tick the new observations
are made below the level, in an order in which whatever feeds an updated device comes first
(`tickInter_ordered`).
-/
import TickitModel.Lemmas.InterOrder

namespace Tickit

variable {S : Static} {orc : Oracle}

/-- the structural content of the invariant at the root of a configuration -/
theorem IVirt.facts (hS : S.Valid) {st : SimSt} {fr : IFrame} {kids : List ITree}
    {roots : List Comp} {σ0 σ : SimSt} (hv : IVirt S orc st (.node fr kids) roots σ0 σ) :
    fr.L ∈ S.levels ∧ (∀ d ∈ fr.pending, d.comp ∈ fr.L.wiring.components) ∧ NamesInj kids ∧
      (∀ k ∈ kids, S.isSys k.name = true ∧ alookup S.parent k.name = some fr.L.name) ∧
      (∀ k ∈ kids, ∃ rk s0 s1, IVirt S orc st k rk s0 s1) := by
  cases hv with
  | mk kr kv hL hcall hreach hown hinj hkid hrec =>
    have inv1 := hreach.inv1 hS hL (Inv1.init hcall σ0)
    exact ⟨hL, inv1.pend_comp, hinj, fun k hk => ⟨(hkid k hk).1, (hkid k hk).2.1⟩,
      fun k hk => ⟨_, _, _, hrec k hk⟩⟩

/-- **a dispatched component has no live feeder**: if the component `cj` of the root level that
holds `y` is flagged (dispatched, not answered), then nothing that feeds `y` is live — provided
this is so inside the open inner level of `cj`, if there is one. -/
theorem no_live_feeder (hS : S.Valid) {st : SimSt} {fr : IFrame} {kids : List ITree}
    {roots : List Comp} {σ0 σ : SimSt} (hv : IVirt S orc st (.node fr kids) roots σ0 σ)
    (hk : IKids (.node fr kids)) {cj y : Comp} (hcj : Foot S fr.L cj y)
    (hflag : alookup fr.tk.toUpdate cj = some true)
    (hsub : ∀ k ∈ kids, k.name = cj → ∀ x, S.Feeds x y → ¬ ILive S k x)
    (hnot : (∀ k ∈ kids, k.name ≠ cj) → ∀ x, S.Own cj x → S.Feeds x y → False)
    {x : Comp} (hf : S.Feeds x y) : ¬ ILive S (.node fr kids) x := by
  obtain ⟨tr, hp⟩ := hv.preInv
  obtain ⟨hL, _, _, hkid, hrec⟩ := hv.facts hS
  have hw := hS.routerOK hL
  have hwf := (hS.wiring_wf _ hL).1
  have hud := hS.ups_defined _ hL
  cases hk with
  | mk hkp _ =>
    intro hl
    cases hl with
    | @here _ _ c' _ hpar' hown' htu' hnk' =>
      by_cases hcc : c' = cj
      · subst hcc
        exact hnot hnk' x hown' hf
      · have hpath := feeds_sep hS hL ⟨hpar', hown'⟩ hcj hcc hf
        exact htu' (hp.path_none hw hwf hud hpath hflag)
    | @inner _ _ k _ hk' hlk =>
      by_cases hkc : k.name = cj
      · exact hsub k hk' hkc x hf hlk
      · obtain ⟨k1, k2⟩ := hkid k hk'
        obtain ⟨rk, s0, s1, hvk⟩ := hrec k hk'
        have hb : S.Below k.name x := hlk.below_level hS hvk
        have hfoot : Foot S fr.L k.name x := ⟨k2, Or.inr ⟨hS.sys_ne_master k1, hb⟩⟩
        have hpath := feeds_sep hS hL hfoot hcj hkc hf
        have hnone := hp.path_none hw hwf hud hpath hflag
        have hfl : alookup fr.tk.toUpdate k.name = some true :=
          (hp.pend_flag k.name).1 ⟨_, hkp k hk', rfl⟩
        rw [hfl] at hnone
        cases hnone

/-- what one step does to the order invariants: the pending `Input`s of open inner levels stay
pending, no liveness is created, and if a device is updated then it was live and nothing that
feeds it is live -/
def StepOrd (S : Static) (a b : SimSt × ITree) : Prop :=
  IKids b.2 ∧ (∀ x, ILive S b.2 x → ILive S a.2 x) ∧
    (b.1.obs = a.1.obs ∨ ∃ o, b.1.obs = a.1.obs ++ [o] ∧ ILive S a.2 o.comp ∧
      ∀ x, S.Feeds x o.comp → ¬ ILive S a.2 x)

theorem ord_answer (hS : S.Valid) {st : SimSt} {fr : IFrame} {kids : List ITree}
    {roots : List Comp} {σ0 σ : SimSt} (hv : IVirt S orc st (.node fr kids) roots σ0 σ)
    (hk : IKids (.node fr kids)) {i : Nat} {d : Dispatch V} {st' : SimSt}
    {outCh' changes : List (Port × V)} {callAt : Option SimTime} {tk' : Ticker V}
    {ds : List (Dispatch V)} (h1 : fr.pending[i]? = some d)
    (hans : AnswerNow S orc fr.L fr.inCh st fr.outCh d (st', outCh', changes, callAt))
    (h3 : fr.tk.propagate fr.L.wiring d.comp d.time changes = .ok (tk', ds)) :
    StepOrd S (st, .node fr kids) (anyWake st' fr.L.name d.comp callAt,
      .node { fr with tk := tk', pending := fr.pending.eraseIdx i ++ ds, outCh := outCh' } kids) := by
  obtain ⟨tr, hp⟩ := hv.preInv
  obtain ⟨hL, hpc, _, hkid, _⟩ := hv.facts hS
  have hshr := propagate_shrinks h3 hp.nodup
  have hdm : d ∈ fr.pending := List.mem_of_getElem? h1
  have hk0 := hk
  cases hk with
  | mk hkp hkr =>
    refine ⟨.mk ?_ hkr, ?_, ?_⟩
    · -- the dispatches of the open inner levels are not the one answered now
      intro k hk'
      obtain ⟨k1, _⟩ := hkid k hk'
      obtain ⟨p1, p2⟩ := sys_not_pseudo hS k1 fr.L.name
      rcases mem_eraseIdx_or_eq (hkp k hk') h1 with heq | hmem
      · exfalso
        subst heq
        cases hans with
        | external e1 => rw [p1] at e1; cases e1
        | expose _ e2 => rw [p2] at e2; cases e2
        | dev _ _ e3 _ _ => rw [k1] at e3; cases e3
      · exact List.mem_append_left _ hmem
    · intro x hl
      cases hl with
      | here hpar hown htu hnk => exact .here hpar hown (hshr.1 _ htu) hnk
      | inner hk' hl' => exact .inner hk' hl'
    · cases hans with
      | skip => exact Or.inl rfl
      | external _ => exact Or.inl rfl
      | expose _ _ => exact Or.inl rfl
      | @dev c t ins resp e1 e2 e3 e4 e5 =>
        have hdc : c ∈ fr.L.wiring.components := hpc _ hdm
        have hpar := parent_of_not_pseudo hS hL hdc e1 e2
        have hflag : alookup fr.tk.toUpdate c = some true := (hp.pend_flag c).1 ⟨_, hdm, rfl⟩
        have hnk : ∀ k ∈ kids, k.name ≠ c := by
          intro k hk' hn
          have := (hkid k hk').1
          rw [hn, e3] at this
          cases this
        refine Or.inr ⟨⟨c, t, (agetD st.devs c {}).merge ins⟩, rfl, ?_, ?_⟩
        · exact .here hpar (Static.Own.refl S c) (by rw [hflag]; simp) hnk
        · intro x hf
          refine no_live_feeder hS hv hk0 (cj := c) (y := c) ⟨hpar, Or.inl rfl⟩ hflag ?_ ?_ hf
          · intro k hk' hn
            exact absurd hn (hnk k hk')
          · intro _ x' hown' hf'
            have hx : x' = c := own_of_device hS hpar e3 hown'
            subst hx
            exact hS.feeds_irrefl hf'

theorem ord_open (hS : S.Valid) {st : SimSt} {fr : IFrame} {kids : List ITree}
    {roots : List Comp} {σ0 σ : SimSt} (hv : IVirt S orc st (.node fr kids) roots σ0 σ)
    (hk : IKids (.node fr kids)) {i : Nat} {c : Comp} {t : SimTime} {ins : List (Port × V)}
    {Lc : Level} {tk : Ticker V} {ds : List (Dispatch V)}
    (h1 : fr.pending[i]? = some (.input c t ins))
    (e1 : (fr.L.name != "" && c == pseudoExternal) = false)
    (e2 : (fr.L.name != "" && c == pseudoExpose) = false) (e3 : S.isSys c = true)
    (hfresh : ∀ k ∈ kids, k.name ≠ c) (hLv : S.level c = some Lc) :
    StepOrd S (st, .node fr kids)
      (sysPre st c t, .node fr (kids ++ [.node ⟨Lc, t, ins, tk, ds, []⟩ []])) := by
  obtain ⟨tr, hp⟩ := hv.preInv
  obtain ⟨hL, hpc, _, _, _⟩ := hv.facts hS
  obtain ⟨_, hname⟩ := Static.level_some hLv
  subst hname
  have hdm : Dispatch.input Lc.name t ins ∈ fr.pending := List.mem_of_getElem? h1
  have hdc : Lc.name ∈ fr.L.wiring.components := hpc _ hdm
  have hpar := parent_of_not_pseudo hS hL hdc e1 e2
  have hflag : alookup fr.tk.toUpdate Lc.name = some true := (hp.pend_flag _).1 ⟨_, hdm, rfl⟩
  cases hk with
  | mk hkp hkr =>
    refine ⟨.mk ?_ ?_, ?_, Or.inl rfl⟩
    · intro k hk'
      rcases List.mem_append.1 hk' with h | h
      · exact hkp k h
      · simp only [List.mem_singleton] at h
        subst h
        exact hdm
    · intro k hk'
      rcases List.mem_append.1 hk' with h | h
      · exact hkr k h
      · simp only [List.mem_singleton] at h
        subst h
        exact .mk (by simp) (by simp)
    · intro x hl
      cases hl with
      | here hpar' hown' htu' hnk' =>
        exact .here hpar' hown' htu' (fun k hk' => hnk' k (List.mem_append_left _ hk'))
      | @inner _ _ k _ hk' hl' =>
        rcases List.mem_append.1 hk' with h | h
        · exact .inner h hl'
        · simp only [List.mem_singleton] at h
          subst h
          have hb : S.Below Lc.name x := by
            cases hl' with
            | here hp' ho' _ _ => exact ho'.below hp'
            | inner hk'' _ => simp at hk''
          exact .here hpar (Or.inr ⟨hS.sys_ne_master e3, hb⟩) (by rw [hflag]; simp) hfresh

theorem ord_close (hS : S.Valid) {st : SimSt} {fr : IFrame} {kids : List ITree}
    {roots : List Comp} {σ0 σ : SimSt} (hv : IVirt S orc st (.node fr kids) roots σ0 σ)
    (hk : IKids (.node fr kids)) {j : Nat} {g : IFrame} {i : Nat} {tk' : Ticker V}
    {ds : List (Dispatch V)} (hj : kids[j]? = some (.node g []))
    (h1 : fr.pending[i]? = some (.input g.L.name g.t g.inCh))
    (h3 : fr.tk.propagate fr.L.wiring g.L.name g.t g.outCh = .ok (tk', ds)) :
    StepOrd S (st, .node fr kids)
      (anyWake st fr.L.name g.L.name (sysCallAt st g.L.name g.t),
        .node { fr with tk := tk', pending := fr.pending.eraseIdx i ++ ds } (kids.eraseIdx j)) := by
  obtain ⟨tr, hp⟩ := hv.preInv
  obtain ⟨_, _, hinj, _, _⟩ := hv.facts hS
  have hshr := propagate_shrinks h3 hp.nodup
  have hsub : ∀ k ∈ kids.eraseIdx j, k ∈ kids := fun k hk' => (List.eraseIdx_sublist _ _).subset hk'
  cases hk with
  | mk hkp hkr =>
    refine ⟨.mk ?_ (fun k hk' => hkr k (hsub k hk')), ?_, Or.inl rfl⟩
    · intro k hk'
      obtain ⟨i', hne, hi'⟩ := List.mem_eraseIdx_iff_getElem?.1 hk'
      rcases mem_eraseIdx_or_eq (hkp k (hsub k hk')) h1 with heq | hmem
      · exfalso
        have hn : k.name = g.L.name := by
          have := congrArg Dispatch.comp heq
          exact this
        exact hne (hinj _ _ _ _ hi' hj hn)
      · exact List.mem_append_left _ hmem
    · intro x hl
      cases hl with
      | @here _ _ c' _ hpar' hown' htu' hnk' =>
        refine .here hpar' hown' (hshr.1 _ htu') ?_
        intro k hk' hn
        rcases mem_eraseIdx_or_eq hk' hj with rfl | h
        · -- the closing level's component has left `to_update`
          have : g.L.name = c' := hn
          rw [← this] at htu'
          exact htu' hshr.2
        · exact hnk' k h hn
      | inner hk' hl' => exact .inner (hsub _ hk') hl'

theorem ord_inner (hS : S.Valid) {st st' : SimSt} {fr : IFrame} {kids : List ITree}
    {roots : List Comp} {σ0 σ : SimSt} (hv : IVirt S orc st (.node fr kids) roots σ0 σ)
    (hk : IKids (.node fr kids)) {j : Nat} {k k' : ITree} (hj : kids[j]? = some k)
    (hsame : k'.fr.L = k.fr.L ∧ k'.fr.t = k.fr.t ∧ k'.fr.inCh = k.fr.inCh)
    (ih : ∀ rk s0 s1, IVirt S orc st k rk s0 s1 → IKids k → StepOrd S (st, k) (st', k')) :
    StepOrd S (st, .node fr kids) (st', .node fr (kids.set j k')) := by
  obtain ⟨tr, hp⟩ := hv.preInv
  obtain ⟨hL, _, hinj, hkid, hrec⟩ := hv.facts hS
  have hkm : k ∈ kids := List.mem_of_getElem? hj
  have hjl : j < kids.length := lt_length_of_getElem? hj
  obtain ⟨k1, k2⟩ := hkid k hkm
  obtain ⟨rk, s0, s1, hvk⟩ := hrec k hkm
  have hname : k'.name = k.name := congrArg Level.name hsame.1
  have hk0 := hk
  cases hk with
  | mk hkp hkr =>
    obtain ⟨ik, im, io⟩ := ih _ _ _ hvk (hkr k hkm)
    simp only at ik im io
    -- members of the new list of inner levels
    have hmem : ∀ k0 ∈ kids.set j k', k0 = k' ∨ k0 ∈ kids := by
      intro k0 hk0'
      rcases List.mem_or_eq_of_mem_set hk0' with h | h
      · exact Or.inr h
      · exact Or.inl h
    have hflag : alookup fr.tk.toUpdate k.name = some true :=
      (hp.pend_flag k.name).1 ⟨_, hkp k hkm, rfl⟩
    refine ⟨.mk ?_ ?_, ?_, ?_⟩
    · intro k0 hk0'
      rcases hmem k0 hk0' with rfl | h
      · rw [hname, hsame.2.1, hsame.2.2]
        exact hkp k hkm
      · exact hkp k0 h
    · intro k0 hk0'
      rcases hmem k0 hk0' with rfl | h
      · exact ik
      · exact hkr k0 h
    · intro x hl
      cases hl with
      | @here _ _ c' _ hpar' hown' htu' hnk' =>
        refine .here hpar' hown' htu' ?_
        intro k0 hk0' hn
        obtain ⟨i', hi'⟩ := List.mem_iff_getElem?.1 hk0'
        by_cases hij : i' = j
        · subst hij
          rw [hj] at hi'
          cases hi'
          exact hnk' k' (List.mem_set hjl k') (hname.trans hn)
        · have : k0 ∈ kids.set j k' :=
            List.mem_iff_getElem?.2 ⟨i', by rw [List.getElem?_set_ne (Ne.symm hij)]; exact hi'⟩
          exact hnk' k0 this hn
      | @inner _ _ k0 _ hk0' hl' =>
        rcases hmem k0 hk0' with rfl | h
        · exact .inner hkm (im x hl')
        · exact .inner h hl'
    · rcases io with h | ⟨o, ho, hlo, hfo⟩
      · exact Or.inl h
      · refine Or.inr ⟨o, ho, .inner hkm hlo, ?_⟩
        intro x hf
        have hb : S.Below k.name o.comp := hlo.below_level hS hvk
        have hfoot : Foot S fr.L k.name o.comp := ⟨k2, Or.inr ⟨hS.sys_ne_master k1, hb⟩⟩
        refine no_live_feeder hS hv hk0 hfoot hflag ?_ ?_ hf
        · intro k0 hk0' hn x' hf' hl'
          obtain ⟨i', hi'⟩ := List.mem_iff_getElem?.1 hk0'
          have hij : i' = j := hinj _ _ _ _ hi' hj hn
          subst hij
          rw [hj] at hi'
          cases hi'
          exact hfo x' hf' hl'
        · intro hno
          exact absurd rfl (hno k hkm)

/-- **one interleaved step and the order invariants** -/
theorem IStep.ord (hS : S.Valid) {a b : SimSt × ITree} (h : IStep S orc a b) :
    ∀ (roots : List Comp) (σ0 σ : SimSt), IVirt S orc a.1 a.2 roots σ0 σ → IKids a.2 →
      StepOrd S a b := by
  induction h with
  | answer h1 h2 h3 => intro roots σ0 σ hv hk; exact ord_answer hS hv hk h1 h2 h3
  | opn h1 e1 e2 e3 hf hLv _ => intro roots σ0 σ hv hk; exact ord_open hS hv hk h1 e1 e2 e3 hf hLv
  | close hj _ _ h1 h3 => intro roots σ0 σ hv hk; exact ord_close hS hv hk hj h1 h3
  | inner hj hs ih => intro roots σ0 σ hv hk; exact ord_inner hS hv hk hj hs.root_same ih

/-- the invariant of a run, relative to the observation list `base` at its start: the new
observations are made below the level, in an order that respects `Feeds`, and nothing that feeds an
updated device is live -/
structure RunOrd (S : Static) (base : List Obs) (c : SimSt × ITree) (new : List Obs) : Prop where
  obs_eq : c.1.obs = base ++ new
  below : ∀ o ∈ new, S.Below c.2.name o.comp
  ordered : ObsOrdered S new
  sealed : ∀ oy ∈ new, ∀ x, S.Feeds x oy.comp → ¬ ILive S c.2 x

theorem RunOrd.step (hS : S.Valid) {base : List Obs} {a b : SimSt × ITree} {new : List Obs}
    (h : RunOrd S base a new) {roots : List Comp} {σ0 σ : SimSt}
    (hv : IVirt S orc a.1 a.2 roots σ0 σ) (hn : b.2.name = a.2.name) (ho : StepOrd S a b) :
    ∃ new', RunOrd S base b new' := by
  obtain ⟨_, hmono, hobs⟩ := ho
  rcases hobs with he | ⟨o, he, hlo, hfo⟩
  · exact ⟨new, ⟨by rw [he]; exact h.obs_eq, fun o ho' => hn ▸ h.below o ho', h.ordered,
      fun oy hoy x hf hl => h.sealed oy hoy x hf (hmono x hl)⟩⟩
  · refine ⟨new ++ [o], ⟨?_, ?_, ?_, ?_⟩⟩
    · rw [he, h.obs_eq, List.append_assoc]
    · intro o' ho'
      rcases List.mem_append.1 ho' with h' | h'
      · exact hn ▸ h.below o' h'
      · simp only [List.mem_singleton] at h'
        subst h'
        rw [hn]
        exact hlo.below_level hS hv
    · intro pre oy post hsp ox hox hf
      rcases List.mem_append.1 hox with hx | hx
      · -- `ox` is an earlier observation
        cases post with
        | nil =>
          have := List.append_inj' hsp (by simp)
          rw [← this.1]
          exact hx
        | cons p post' =>
          -- `oy` is an earlier observation too: the old list was ordered
          have hsp' : new = pre ++ oy :: (p :: post').dropLast := by
            have h1 : (new ++ [o]).dropLast = (pre ++ oy :: p :: post').dropLast := by rw [hsp]
            rw [List.dropLast_concat] at h1
            rw [h1]
            simp [List.dropLast_append_of_ne_nil, List.dropLast_cons_of_ne_nil]
          exact h.ordered pre oy _ hsp' ox hx hf
      · -- `ox` is the observation made now
        simp only [List.mem_singleton] at hx
        subst hx
        cases post with
        | nil =>
          have := List.append_inj' hsp (by simp)
          have hoy : ox = oy := by simpa using this.2
          subst hoy
          exact absurd hf hS.feeds_irrefl
        | cons p post' =>
          exfalso
          have hoy : oy ∈ new := by
            have h1 : (new ++ [ox]).dropLast = (pre ++ oy :: p :: post').dropLast := by rw [hsp]
            rw [List.dropLast_concat] at h1
            rw [h1]
            simp [List.dropLast_append_of_ne_nil, List.dropLast_cons_of_ne_nil]
          exact h.sealed oy hoy ox.comp hf hlo
    · intro oy hoy x hf hl
      rcases List.mem_append.1 hoy with h' | h'
      · exact h.sealed oy h' x hf (hmono x hl)
      · simp only [List.mem_singleton] at h'
        subst h'
        exact hfo x hf (hmono x hl)

theorem IRun.ord (hS : S.Valid) {base : List Obs} {a b : SimSt × ITree} (h : IRun S orc a b) :
    ∀ (roots : List Comp) (σ0 σ : SimSt) (new : List Obs), IVirt S orc a.1 a.2 roots σ0 σ →
      IKids a.2 → RunOrd S base a new → ∃ new', RunOrd S base b new' := by
  induction h with
  | refl => intro roots σ0 σ new _ _ hr; exact ⟨new, hr⟩
  | @step a b c hs _ ih =>
    intro roots σ0 σ new hv hk hr
    have ho := hs.ord hS roots σ0 σ hv hk
    obtain ⟨σ1, hv1, _⟩ := hs.sim hS roots σ0 σ hv
    have hn : b.2.name = a.2.name := congrArg Level.name hs.root_same.1
    obtain ⟨new1, hr1⟩ := hr.step hS hv hn ho
    exact ih roots σ0 σ1 new1 hv1 ho.1 hr1

/-- **C01 through nesting, order, fully concurrent**: in every complete interleaved execution of a
tick the new observations are made below the level, in an order in which whatever feeds an updated
device comes first. -/
theorem tickInter_ordered (hS : S.Valid) {lvl : Comp} {t : SimTime} {roots : List Comp}
    {inCh : List (Port × V)} {st : SimSt} {r : SimSt × List (Port × V)}
    (h : TickInter S orc lvl t roots inCh st r) :
    ∃ new, r.1.obs = st.obs ++ new ∧ (∀ o ∈ new, S.Below lvl o.comp) ∧ ObsOrdered S new := by
  obtain ⟨L, tk, ds, fr, hLv, hcall, hrun, _, _, _⟩ := h.inv
  obtain ⟨hL, hname⟩ := Static.level_some hLv
  subst hname
  have h0 : RunOrd S st.obs (st, .node ⟨L, t, inCh, tk, ds, []⟩ []) [] :=
    ⟨by simp, by simp, obsOrdered_nil S, by simp⟩
  obtain ⟨new, hr⟩ := hrun.ord hS roots st st [] (IVirt.init hL hcall st) (.mk (by simp) (by simp)) h0
  have hn : (ITree.node fr []).name = L.name := congrArg Level.name hrun.root_same.1
  exact ⟨new, hr.obs_eq, fun o ho => hn ▸ hr.below o ho, hr.ordered⟩

end Tickit
