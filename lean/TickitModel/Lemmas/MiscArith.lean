/-
Helper lemmas for C12 (pacing arithmetic: `dueReal`, `ceilDiv`, `interruptStamp`).
Core Lean only (`omega` with products as atoms); no Mathlib import needed.
-/
import TickitModel.Core.Sim
import TickitModel.Core.Sched
namespace Tickit

theorem ceilDiv_mul_ge (N n : Int) (hn : 0 < n) : N ≤ ceilDiv N n * n := by
  unfold ceilDiv
  have h := Int.ediv_mul_le (-N) (Int.ne_of_gt hn)
  rw [Int.neg_mul]; omega

theorem ceilDiv_mul_lt (N n : Int) (hn : 0 < n) : ceilDiv N n * n < N + n := by
  unfold ceilDiv
  have h := Int.lt_ediv_add_one_mul_self (-N) hn
  rw [Int.add_mul, Int.one_mul] at h
  rw [Int.neg_mul]; omega

theorem ceilDiv_mul_eq (N n : Int) (hd : n ∣ N) : ceilDiv N n * n = N := by
  unfold ceilDiv
  have h := Int.ediv_mul_cancel (Int.dvd_neg.mpr hd)
  rw [Int.neg_mul]; omega

theorem ceilDiv_nonneg (N n : Int) (hn : 0 < n) (hN : 0 ≤ N) : 0 ≤ ceilDiv N n := by
  have h := ceilDiv_mul_ge N n hn
  have h0 : 0 ≤ ceilDiv N n * n := Int.le_trans hN h
  apply Decidable.byContradiction
  intro hneg
  have : ceilDiv N n * n < 0 := Int.mul_neg_of_neg_of_pos (by omega) hn
  omega

/-- `dueReal` spelled out on plain integers. -/
theorem dueReal_eq (m : MasterSt) (s : Speed) (W : SimTime) :
    dueReal m s W =
      if sleepNumer W m.tickerTime m.now m.lastReal s ≤ 0 then m.now
      else m.now + ceilDiv (sleepNumer W m.tickerTime m.now m.lastReal s) s.num := rfl

theorem sleepNumer_eq (W T : SimTime) (now last : Int) (s : Speed) :
    sleepNumer W T now last s = (W - T) * (s.den : Int) - (now - last) * (s.num : Int) := rfl

theorem never_early' (m : MasterSt) (s : Speed) (hs : 0 < s.num) (W : SimTime) :
    m.now ≤ dueReal m s W ∧
    (W - m.tickerTime) * s.den ≤ (dueReal m s W - m.lastReal) * s.num := by
  have hn : (0 : Int) < s.num := by omega
  rw [dueReal_eq]
  have hN := sleepNumer_eq W m.tickerTime m.now m.lastReal s
  generalize sleepNumer W m.tickerTime m.now m.lastReal s = N at *
  split
  · rename_i h
    refine ⟨Int.le_refl _, ?_⟩
    simp only [SimTime] at *
    omega
  · rename_i h
    have h1 := ceilDiv_nonneg N s.num hn (by omega)
    have h2 := ceilDiv_mul_ge N s.num hn
    refine ⟨by omega, ?_⟩
    have e : (m.now + ceilDiv N s.num - m.lastReal) * (s.num : Int)
        = (m.now - m.lastReal) * s.num + ceilDiv N s.num * s.num := by
      simp only [Int.add_mul, Int.sub_mul]; omega
    rw [e]
    simp only [SimTime] at *
    omega

theorem exact_when_free' (m : MasterSt) (s : Speed) (W : SimTime)
    (hnn : 0 ≤ sleepNumer W m.tickerTime m.now m.lastReal s)
    (hdiv : (s.num : Int) ∣ sleepNumer W m.tickerTime m.now m.lastReal s) :
    (dueReal m s W - m.lastReal) * s.num = (W - m.tickerTime) * s.den := by
  rw [dueReal_eq]
  have hN := sleepNumer_eq W m.tickerTime m.now m.lastReal s
  generalize sleepNumer W m.tickerTime m.now m.lastReal s = N at *
  split
  · simp only [SimTime] at *
    omega
  · have h2 := ceilDiv_mul_eq N s.num hdiv
    have e : (m.now + ceilDiv N s.num - m.lastReal) * (s.num : Int)
        = (m.now - m.lastReal) * s.num + ceilDiv N s.num * s.num := by
      simp only [Int.add_mul, Int.sub_mul]; omega
    rw [e]
    simp only [SimTime] at *
    omega

theorem truncDiv_nonneg_eq (X d : Int) (hX : 0 ≤ X) : truncDiv X d = X / d := by
  unfold truncDiv
  exact Int.tdiv_eq_ediv_of_nonneg hX

theorem interruptStamp_sub (t : SimTime) (now last : Int) (s : Speed) (hnow : last ≤ now) :
    interruptStamp t now last s - t = ((now - last) * (s.num : Int)) / (s.den : Int) := by
  unfold interruptStamp
  rw [truncDiv_nonneg_eq _ _ (Int.mul_nonneg (by omega) (by omega))]
  simp only [SimTime] at *
  omega

theorem stamp_law' (t : SimTime) (now last : Int) (s : Speed) (hs : 0 < s.den) (hnow : last ≤ now) :
    (interruptStamp t now last s - t) * s.den ≤ (now - last) * s.num ∧
    (now - last) * s.num < (interruptStamp t now last s - t + 1) * s.den := by
  have hd : (0 : Int) < s.den := by omega
  rw [interruptStamp_sub t now last s hnow]
  exact ⟨Int.ediv_mul_le _ (Int.ne_of_gt hd), Int.lt_ediv_add_one_mul_self _ hd⟩

theorem interrupt_due_now' (m : MasterSt) (s : Speed) (hs : 0 < s.den) (hnow : m.lastReal ≤ m.now) :
    dueReal m s (interruptStamp m.tickerTime m.now m.lastReal s) = m.now := by
  rw [dueReal_eq, if_pos]
  rw [sleepNumer_eq]
  have := (stamp_law' m.tickerTime m.now m.lastReal s hs hnow).1
  simp only [SimTime] at *
  omega

theorem linear_step_callback' (m : MasterSt) (s : Speed) (t0 : SimTime) (r0 : Int)
    (hinv : (m.tickerTime - t0) * s.den = (m.lastReal - r0) * s.num)
    (W : SimTime)
    (hnn : 0 ≤ sleepNumer W m.tickerTime m.now m.lastReal s)
    (hdiv : (s.num : Int) ∣ sleepNumer W m.tickerTime m.now m.lastReal s) :
    (W - t0) * s.den = (dueReal m s W - r0) * s.num := by
  have h := exact_when_free' m s W hnn hdiv
  generalize dueReal m s W = D at *
  simp only [SimTime] at *
  simp only [Int.sub_mul] at *
  omega

theorem linear_step_interrupt' (m : MasterSt) (s : Speed) (t0 : SimTime) (r0 : Int)
    (hinv : (m.tickerTime - t0) * s.den = (m.lastReal - r0) * s.num)
    (hnow : m.lastReal ≤ m.now)
    (hdiv : (s.den : Int) ∣ (m.now - m.lastReal) * s.num) :
    (interruptStamp m.tickerTime m.now m.lastReal s - t0) * s.den = (m.now - r0) * s.num := by
  have h1 := interruptStamp_sub m.tickerTime m.now m.lastReal s hnow
  have h2 := Int.ediv_mul_cancel hdiv
  rw [← h1] at h2
  generalize interruptStamp m.tickerTime m.now m.lastReal s = S at *
  simp only [SimTime] at *
  simp only [Int.sub_mul] at *
  omega

end Tickit
