/-
M9c× — the seeded variant (`Core/ZmqSharedFuture.lean`): once the shared connect future is
cancelled the stream is dead for good.
-/
import TickitModel.Core.ZmqSharedFuture

namespace Tickit

/-- the shared future is cancelled, no socket was ever stored, nothing was ever written and
nobody is past `_ensure_socket` -/
structure FDead (z : ZmqF) : Prop where
  fut : z.fut = .cancelled
  sock : z.socket = false
  wr : z.writes = []
  pcs : ∀ s ∈ z.senders, s.pc ≠ .ready ∧ s.pc ≠ .draining

theorem FDead.set {z : ZmqF} {i : Nat} {s' : Sender} (h : ∀ s ∈ z.senders, s.pc ≠ .ready ∧ s.pc ≠ .draining)
    (hs' : s'.pc ≠ .ready ∧ s'.pc ≠ .draining) :
    ∀ s ∈ z.senders.set i s', s.pc ≠ .ready ∧ s.pc ≠ .draining := by
  intro s hs
  rcases List.mem_or_eq_of_mem_set hs with hs | rfl
  · exact h s hs
  · exact hs'

theorem FDead.push {z : ZmqF} {t : Sender} (h : ∀ s ∈ z.senders, s.pc ≠ .ready ∧ s.pc ≠ .draining)
    (ht : t.pc ≠ .ready ∧ t.pc ≠ .draining) :
    ∀ s ∈ z.senders ++ [t], s.pc ≠ .ready ∧ s.pc ≠ .draining := by
  intro s hs
  rcases List.mem_append.1 hs with hs | hs
  · exact h s hs
  · simp at hs; subst hs; exact ht

theorem FDead.await {z z' : ZmqF} {i : Nat} {s : Sender} (h : FDead z) (ha : z.awaitFut i s = some z') :
    FDead z' := by
  unfold ZmqF.awaitFut at ha
  rw [h.fut] at ha
  cases ha
  exact ⟨rfl, h.sock, h.wr, h.pcs⟩

theorem FDead.step {z z' : ZmqF} {i : Nat} (h : FDead z) (hstep : z.stepSender i = some z') : FDead z' := by
  unfold ZmqF.stepSender at hstep
  split at hstep
  · cases hstep
  split at hstep
  · cases hstep
  rename_i s hs
  have hmem : s ∈ z.senders := List.mem_of_getElem? hs
  have hpcs := h.pcs s hmem
  split at hstep
  · split at hstep
    · split at hstep
      · cases hstep
      · cases hstep
        exact ⟨h.fut, h.sock, h.wr, FDead.set h.pcs (by simp)⟩
    · split at hstep
      · cases hstep
      · cases hstep
        exact ⟨h.fut, h.sock, h.wr, FDead.set h.pcs (by simp)⟩
  · split at hstep
    · rename_i hf; rw [h.fut] at hf; cases hf
    · exact h.await hstep
  · exact h.await hstep
  · rename_i hpc; exact absurd hpc hpcs.1
  · rename_i hpc; exact absurd hpc hpcs.2

theorem FDead.act {z z' : ZmqF} {a : ZFAct} (h : FDead z) (hact : z.act a = some z') : FDead z' := by
  cases a with
  | connected =>
    simp only [ZmqF.act, h.fut] at hact
    cases hact
  | cancel k =>
    simp only [ZmqF.act, h.fut] at hact
    split at hact
    · cases hact
    split at hact
    · cases hact
    split at hact
    · cases hact
    split at hact
    · rename_i hc; simp at hc
    · cases hact
      exact ⟨rfl, h.sock, h.wr, h.pcs⟩
  | base a =>
    cases a with
    | step i => exact h.step hact
    | enqueue m =>
      simp only [ZmqF.act] at hact; cases hact
      exact ⟨h.fut, h.sock, h.wr, h.pcs⟩
    | spawn msgs =>
      simp only [ZmqF.act] at hact; cases hact
      exact ⟨h.fut, h.sock, h.wr, FDead.push h.pcs (by simp)⟩
    | ensure =>
      simp only [ZmqF.act] at hact; cases hact
      exact ⟨h.fut, h.sock, h.wr, FDead.push h.pcs (by simp)⟩

theorem FDead.run {z : ZmqF} (h : FDead z) (acts : List ZFAct) : FDead (z.run acts) := by
  induction acts generalizing z with
  | nil => exact h
  | cons a as ih =>
    unfold ZmqF.run
    split
    · exact ih (h.act ‹_›)
    · exact ih h

theorem ZmqF.run_append (c : ZmqF) (as bs : List ZFAct) : c.run (as ++ bs) = (c.run as).run bs := by
  induction as generalizing c with
  | nil => rfl
  | cons a as ih =>
    simp only [List.cons_append, ZmqF.run]
    split <;> exact ih _

/-- in a dead stream every task that enters (or is inside) `_ensure_socket` and is scheduled
ends with a `CancelledError` it never asked for -/
theorem FDead.step_fails {z : ZmqF} {i : Nat} {s : Sender} (h : FDead z)
    (hi : i ∉ z.cancelled ∧ i ∉ z.failed) (hs : z.senders[i]? = some s)
    (hpc : s.pc = .wantLock ∨ s.pc = .inFactory) :
    z.stepSender i = some { z with failed := i :: z.failed } := by
  unfold ZmqF.stepSender
  rw [if_neg (by simp [hi.1, hi.2]), hs]
  rcases hpc with hpc | hpc <;> simp [hpc, h.fut, ZmqF.awaitFut]

end Tickit
