/-
One tick of the multi-tick message-level model (`Core/MsgFlatRun.lean`): while the tick is in
progress the bus evolves as the single-tick model `MsgSt.step` with the reaction function FIXED
at the pre-tick state of the components (every component reacts at most once), the state of
each component is its pre-tick state transformed by the `Input`s it has handled, and at the end
of the tick the whole state is — component by component — what `FlatSt.afterTick` computes.
-/
import TickitModel.Lemmas.MsgFlatWake
import TickitModel.Lemmas.FlatDetLemmas
import TickitModel.Props.C08Msg
import TickitModel.Core.MsgFlatRun

set_option autoImplicit false

namespace Tickit

open Tickit.Det

set_option linter.unusedSectionVars false

variable {Val : Type} [DecidableEq Val]

/-! ### the reaction function only matters at the component that reacts -/

theorem MsgSt.step_rx_irrel {w : Wiring} (rx rx' : MsgReact Val) {t : SimTime} {roots : List Comp}
    (m : MsgSt Val) {a : MsgAct} (ha : ∀ c, a ≠ .deliverIn c) :
    m.step w rx t roots a = m.step w rx' t roots a := by
  cases a with
  | startSched => rfl
  | startComp c => rfl
  | deliverIn c => exact absurd rfl (ha c)
  | deliverOut c => rfl

theorem MsgSt.step_deliverIn_congr {w : Wiring} {rx rx' : MsgReact Val} {t : SimTime}
    {roots : List Comp} (m : MsgSt Val) {c : Comp} (h : rx c = rx' c) :
    m.step w rx t roots (.deliverIn c) = m.step w rx' t roots (.deliverIn c) := by
  simp only [MsgSt.step, h]

theorem rxOf_congr {comps comps' : List (Comp × DevComp Val)} (dev : DevFn Val) {c : Comp}
    (h : agetD comps c {} = agetD comps' c {}) : rxOf comps dev c = rxOf comps' dev c := by
  funext t' ins
  simp only [rxOf, h]

theorem rxOf_at (F : FlatSt Val) (dev : DevFn Val) (t : SimTime) :
    (rxOf F.comps dev).at t = F.react dev t := rfl

/-! ### a component reacts at most once: nothing handled while its `Input` waits -/

theorem MsgSt.Reach.no_react_before_input {w : Wiring} {rx : MsgReact Val} {t : SimTime}
    {roots : List Comp} {m0 m : MsgSt Val} (h0 : m0.Idle) (h : MsgSt.Reach w rx t roots m0 m)
    {c : Comp} {μ : BusMsg Val} (hμ : m.next (.inT c) = some μ) : reactsOf c m.hist = [] := by
  have hinv := h.inv h0
  have hlt : m.cur (.inT c) < (m.log (.inT c)).length := by
    simp only [MsgSt.next] at hμ
    exact (List.getElem?_eq_some_iff.1 hμ).1
  have hcount : (m.trace.filter (Ev.isDispatchOf c)).length ≤ 1 :=
    msg_trace_transfer w rx t roots (fun tr => (tr.filter (Ev.isDispatchOf c)).length ≤ 1)
      (fun s hs => (hs.inv.pre.count c).1) (by simp) m0 m h0 h
  have h1 := congrArg List.length (hinv.handled c)
  have h2 := congrArg List.length (hinv.inLog c)
  have h3 : (inputsTo c m.trace).length ≤ 1 := by
    rw [inputsTo_eq_dispatchOf hcount]; split <;> simp
  simp only [List.length_take, List.length_append, reactMsgs, List.length_map] at h1 h2
  have : (reactsOf c m.hist).length = 0 := by omega
  exact List.eq_nil_of_length_eq_zero this

/-! ### the state of one component as a function of what it has handled -/

/-- `DeviceComponent.on_tick` on (state, observation log) of one component -/
def compStep (dev : DevFn Val) (c : Comp)
    (p : DevComp Val × List (SimTime × List (Port × Val))) (o : SimTime × List (Port × Val)) :
    DevComp Val × List (SimTime × List (Port × Val)) :=
  (⟨p.1.merge o.2, normDict (dev c o.1 (p.1.merge o.2)).outs⟩, p.2 ++ [(o.1, p.1.merge o.2)])

/-- **the in-tick invariant** of the multi-tick model: `F` is the pre-tick state (as a
`FlatSt`), `b0` the idle bus the tick was begun from. -/
structure TickTrack (w : Wiring) (dev : DevFn Val) (t : SimTime) (roots : List Comp)
    (F : FlatSt Val) (b0 : MsgSt Val) (M : MsgRunSt Val) : Prop where
  /-- the bus is a state of the single-tick model with the reactions of the pre-tick state -/
  reach : MsgSt.Reach w (rxOf F.comps dev) t roots b0 M.bus
  begun : M.bus.tk ≠ none
  /-- each component: pre-tick state transformed by the inputs it has handled -/
  comp : ∀ c, (M.flat.comp c, M.flat.obsOf c) =
    (reactsOf c M.bus.hist).foldl (compStep dev c) (F.comp c, F.obsOf c)
  time : M.tickTime = t
  roots : M.tickRoots = roots

theorem reactsOf_hist_of_not_deliverIn {w : Wiring} {rx : MsgReact Val} {t : SimTime}
    {roots : List Comp} {m m' : MsgSt Val} {a : MsgAct} (ha : ∀ c, a ≠ .deliverIn c)
    (h : m.step w rx t roots a = some (.ok m')) (c : Comp) :
    reactsOf c m'.hist = reactsOf c m.hist := by
  cases a with
  | startSched =>
    obtain ⟨_, r, _, rfl⟩ := MsgSt.step_startSched_ok h
    simp [reactsOf_append, reactsOf_map_dispatch]
  | startComp c' =>
    obtain ⟨_, rfl⟩ := MsgSt.step_startComp_ok h
    rfl
  | deliverIn c' => exact absurd rfl (ha c')
  | deliverOut c' =>
    obtain ⟨tk, μ, _, _, ⟨src, t', ch, ca, r, _, _, rfl⟩ | ⟨_, rfl⟩⟩ := MsgSt.step_deliverOut_ok h
    · simp only [MsgSt.hist_noteWakeup, MsgSt.hist_sendAll, MsgSt.hist_setTk, MsgSt.hist_record,
        MsgSt.hist_advance, reactsOf_append, reactsOf_answer, reactsOf_map_dispatch,
        List.append_nil]
    · rfl

/-- a bus action other than a component handling an `Input` keeps the in-tick invariant. -/
theorem TickTrack.step_other {w : Wiring} {dev : DevFn Val} {t : SimTime} {roots : List Comp}
    {F : FlatSt Val} {b0 : MsgSt Val} {M : MsgRunSt Val} (h : TickTrack w dev t roots F b0 M)
    {a : MsgAct} (ha : ∀ c, a ≠ .deliverIn c) {b : MsgSt Val}
    (hstep : M.bus.step w (rxOf M.comps dev) M.tickTime M.tickRoots a = some (.ok b)) :
    TickTrack w dev t roots F b0 { M with bus := b } := by
  rw [h.time, h.roots, MsgSt.step_rx_irrel _ (rxOf F.comps dev) _ ha] at hstep
  refine ⟨h.reach.step hstep, ?_, fun c => ?_, h.time, h.roots⟩
  · cases a with
    | startSched =>
      obtain ⟨_, r, _, rfl⟩ := MsgSt.step_startSched_ok hstep
      simp
    | startComp c =>
      obtain ⟨_, rfl⟩ := MsgSt.step_startComp_ok hstep
      exact h.begun
    | deliverIn c => exact absurd rfl (ha c)
    | deliverOut c =>
      obtain ⟨tk, μ, _, _, ⟨src, t', ch, ca, r, _, _, rfl⟩ | ⟨_, rfl⟩⟩ :=
        MsgSt.step_deliverOut_ok hstep
      · simp
      · exact h.begun
  · show (FlatSt.comp _ c, FlatSt.obsOf _ c) = _
    rw [reactsOf_hist_of_not_deliverIn ha hstep c, ← h.comp c]
    rfl

/-- a component handling its `Input`: it still was in its pre-tick state, so the message it
produces is the one the single-tick model prescribes; its state is updated. -/
theorem TickTrack.step_deliverIn {w : Wiring} {dev : DevFn Val} {t : SimTime} {roots : List Comp}
    {F : FlatSt Val} {b0 : MsgSt Val} (hb0 : b0.Idle) {M : MsgRunSt Val}
    (h : TickTrack w dev t roots F b0 M) {c : Comp} {b : MsgSt Val}
    (hstep : M.bus.step w (rxOf M.comps dev) M.tickTime M.tickRoots (.deliverIn c) = some (.ok b)) :
    TickTrack w dev t roots F b0 (M.handle dev c b (M.bus.next (.inT c))) := by
  obtain ⟨hc, μ, hμ⟩ := MsgSt.step_deliverIn_enabled hstep
  obtain ⟨t', ins, rfl, _⟩ := h.reach.next_in hb0 hμ
  have hnone := h.reach.no_react_before_input hb0 hμ
  have hpre : M.flat.comp c = F.comp c := by
    have := h.comp c
    rw [hnone] at this
    exact (Prod.ext_iff.1 this).1
  have hrx : rxOf M.comps dev c = rxOf F.comps dev c := rxOf_congr dev hpre
  rw [h.time, h.roots, MsgSt.step_deliverIn_congr _ hrx] at hstep
  have hreach := h.reach.step hstep
  rw [MsgSt.step_deliverIn_input hc hμ] at hstep
  simp only [Option.some.injEq, Except.ok.injEq] at hstep
  subst hstep
  rw [hμ]
  refine ⟨hreach, by simpa [MsgRunSt.handle] using h.begun, fun c' => ?_, h.time, h.roots⟩
  simp only [MsgRunSt.handle, MsgSt.hist_record, MsgSt.hist_produce, MsgSt.hist_advance,
    reactsOf_append, reactsOf_react, List.foldl_append]
  by_cases hcc : c = c'
  · subst hcc
    rw [if_pos rfl, ← h.comp c]
    simp only [List.foldl_cons, List.foldl_nil, compStep, MsgRunSt.flat, FlatSt.comp, FlatSt.obsOf,
      agetD, alookup_upsert, if_true, Option.getD_some, List.filter_append, List.map_append]
    simp
  · rw [if_neg hcc, List.foldl_nil, ← h.comp c']
    simp only [MsgRunSt.flat, FlatSt.comp, FlatSt.obsOf, agetD, alookup_upsert, if_neg hcc,
      List.filter_append]
    simp [hcc]

/-- the tick is begun from an idle bus: the in-tick invariant holds. -/
theorem TickTrack.start {w : Wiring} {dev : DevFn Val} {t : SimTime} {roots : List Comp}
    {b0 b : MsgSt Val} (hb0 : b0.Idle) (rx : MsgReact Val)
    (hstep : b0.step w rx t roots .startSched = some (.ok b)) (M' : MsgRunSt Val)
    (comps : List (Comp × DevComp Val)) (obs : List (Comp × SimTime × List (Port × Val)))
    (hbus : M'.bus = b) (hcomps : M'.comps = comps) (hobs : M'.obs = obs)
    (htime : M'.tickTime = t) (hroots : M'.tickRoots = roots) :
    TickTrack w dev t roots ⟨comps, b0.wake, [], obs⟩ b0 M' := by
  rw [MsgSt.step_rx_irrel rx (rxOf comps dev) _ (by simp)] at hstep
  refine ⟨hbus ▸ MsgSt.Reach.step .init hstep, ?_, fun c => ?_, htime, hroots⟩
  · obtain ⟨_, r, _, rfl⟩ := MsgSt.step_startSched_ok hstep
    rw [hbus]; simp
  · have : reactsOf c M'.bus.hist = [] := by
      rw [hbus, reactsOf_hist_of_not_deliverIn (by simp) hstep c, hb0.2.1]; rfl
    rw [this]
    simp only [List.foldl_nil, MsgRunSt.flat, FlatSt.comp, FlatSt.obsOf, hcomps, hobs]

/-! ### the end of the tick -/

/-- **At the end of a message-level tick the state is, component by component, the state the
atomic model computes**: there is a complete `TickSys` run `s` of the tick from the pre-tick
state `F` whose trace is the scheduler-side history, and the component state, the wakeup entry
and the observation log of every component are those of `F.afterTick dev s.trace`. -/
theorem TickTrack.complete {w : Wiring} {dev : DevFn Val} {t : SimTime} {roots : List Comp}
    {F : FlatSt Val} {b0 : MsgSt Val} (hb0 : b0.Idle) (hwake : b0.wake = F.wake)
    {M : MsgRunSt Val} (h : TickTrack w dev t roots F b0 M) (hc : M.bus.Complete) :
    ∃ s : TickSys Val, s.Reachable w (F.react dev t) t roots ∧ s.tk.toUpdate = [] ∧
      M.bus.trace = s.trace ∧ MsgSim (rxOf F.comps dev) M.bus s ∧
      ∀ c, loc M.flat c = loc (F.afterTick dev s.trace) c := by
  obtain ⟨s, hr, hs, hnil⟩ := hc.sim hb0 h.reach
  refine ⟨s, hr, hnil, hs.trace, hs, fun c => ?_⟩
  have hpre := hr.inv.pre
  rw [loc_afterTick dev (fun c => (hpre.count c).1)]
  have hobs := msg_observations_exact w _ t roots b0 M.bus hb0 h.reach hc c
  have hcomp := h.comp c
  rw [hobs, hs.trace] at hcomp
  obtain ⟨hwk1, hwk2, _⟩ := h.reach.wakeInv hb0
  rw [hs.trace] at hwk1 hwk2
  -- the three parts of `loc`
  have hparts : loc M.flat c = ⟨M.flat.comp c, alookup M.bus.wake c, M.flat.obsOf c⟩ := rfl
  rw [hparts]
  cases hd : dispatchOf s.trace c with
  | none =>
    rw [hd] at hcomp
    simp only [obsOfDispatch, List.foldl_nil, Prod.mk.injEq] at hcomp
    have hno : ∀ ch, Ev.answer c ch ∉ s.trace := by
      intro ch hm
      obtain ⟨d, hd'⟩ := dispatched_of_answered hpre hm
      rw [hd] at hd'; cases hd'
    simp only [Loc.absorb, loc, hcomp.1, hcomp.2, hwk1 c hno, hwake]
  | some d =>
    obtain ⟨hmem, hdc⟩ := dispatchOf_eq_some hd
    have hans : ∃ ch, Ev.answer c ch ∈ s.trace := by
      have hext := (hpre.disp_ext d hmem).1
      rw [hdc] at hext
      exact (hpre.resolved c hext).1 (by rw [hnil]; rfl)
    obtain ⟨ch, hch⟩ := hans
    have hw2 := hwk2 c ch hch
    rw [hd] at hcomp hw2
    cases d with
    | skip c' t' =>
      simp only [obsOfDispatch, List.foldl_nil, Prod.mk.injEq] at hcomp
      simp only [Loc.absorb, loc, hcomp.1, hcomp.2, hw2, wkOf, hwake]
    | input c' t' ins =>
      simp only [Dispatch.comp] at hdc
      subst hdc
      simp only [obsOfDispatch, List.foldl_cons, List.foldl_nil, compStep, Prod.mk.injEq] at hcomp
      obtain ⟨h1, h2⟩ := hcomp
      rw [h1, h2, hw2]
      simp only [Loc.absorb, loc, wkOf, hwake, rxOf, FlatSt.comp]
      congr 1

end Tickit
