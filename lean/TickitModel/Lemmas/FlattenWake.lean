/-
Helper lemmas for C09, part 8b: corresponding states pick the same next tick time — the
earliest wakeup of the nested master is the earliest wakeup of any device.
-/
import TickitModel.Lemmas.FlattenCorrDef
import TickitModel.Lemmas.FlattenFuelBound
import TickitModel.Props.C06

namespace Tickit

/-- a wakeup inside a system is represented, at every level above, by an entry that is not later -/
theorem Corr.wake_up {S : Static} (hS : S.Valid) {st st' : SimSt} (hc : Corr S st st') {c : Comp}
    (hb : S.Below "" c) :
    ∀ P w, alookup S.parent c = some P → alookup (st.sched P).wake c = some w →
      ∃ a w', alookup (st.sched "").wake a = some w' ∧ w' ≤ w := by
  induction hb with
  | direct h =>
    intro P w hP hw
    rw [h] at hP; cases hP
    exact ⟨_, w, hw, Int.le_refl _⟩
  | @step c p h hp _ ih =>
    intro P w hP hw
    rw [h] at hP; cases hP
    obtain ⟨_, _, _, hsys⟩ := hS.parent_level c p h
    have hsysP : S.isSys p = true := by
      rcases hsys with h' | h'
      · exact absurd h' hp
      · exact h'
    obtain ⟨PP, hPP⟩ := Option.isSome_iff_exists.1 (hS.sys_parent p hsysP)
    have hmin := hc.wake_sys p PP hsysP hPP
    cases hfw : (firstWakeups (st.sched p).wake).2 with
    | none =>
      rw [firstWakeups_none] at hfw
      rw [hfw] at hw
      simp at hw
    | some m =>
      obtain ⟨_, hle⟩ := system_callback_is_min _ (hc.wake_unique p) m hfw
      rw [hfw] at hmin
      obtain ⟨a, w', ha, hw'⟩ := ih PP m hPP hmin
      exact ⟨a, w', ha, Int.le_trans hw' (hle c w hw)⟩

/-- an entry at any level stands for a device wakeup at exactly that time -/
theorem Corr.wake_down {S : Static} (hS : S.Valid) {st st' : SimSt} (hc : Corr S st st') :
    ∀ c P m, alookup S.parent c = some P → alookup (st.sched P).wake c = some m →
      ∃ d, alookup (st'.sched "").wake d = some m := by
  obtain ⟨depth, hdepth⟩ := hS.nesting
  let D := 1 + lsum S.parent (fun e => depth e.1)
  have hD : ∀ c P, alookup S.parent c = some P → depth c < D := by
    intro c P h
    have := lsum_mem_le (mem_of_alookup_eq_some h) (fun e : Comp × Comp => depth e.1)
    show depth c < 1 + lsum S.parent (fun e => depth e.1)
    simp only at this
    omega
  have key : ∀ k c P m, D ≤ depth c + k → alookup S.parent c = some P →
      alookup (st.sched P).wake c = some m → ∃ d, alookup (st'.sched "").wake d = some m := by
    intro k
    induction k with
    | zero =>
      intro c P m hk hP _
      have := hD c P hP
      omega
    | succ k ih =>
      intro c P m hk hP hw
      by_cases hsys : S.isSys c = true
      · have hmin := hc.wake_sys c P hsys hP
        rw [hw] at hmin
        obtain ⟨⟨c', hc'⟩, _⟩ := system_callback_is_min _ (hc.wake_unique c) m hmin.symm
        have hpar' := hc.wake_keys c c' (mem_akeys_of_alookup_eq_some hc')
        have hcne : c ≠ "" := hS.child_ne_master hP
        have := hdepth c' c hpar' hcne
        exact ih c' c m (by omega) hpar' hc'
      · have hdev : S.isDevice c := ⟨by rw [hP]; rfl, by simpa using hsys⟩
        exact ⟨c, by rw [hc.wake_dev c P hdev hP]; exact hw⟩
  intro c P m hP hw
  exact key D c P m (by omega) hP hw

/-- **same next tick** -/
theorem Corr.firstWakeups_eq {S : Static} (hS : S.Valid) {st st' : SimSt} (hc : Corr S st st') :
    (firstWakeups (st.sched "").wake).2 = (firstWakeups (st'.sched "").wake).2 := by
  -- every flat entry is dominated by a master entry
  have hup : ∀ d w, alookup (st'.sched "").wake d = some w →
      ∃ a w', alookup (st.sched "").wake a = some w' ∧ w' ≤ w := by
    intro d w hw
    have hd := hc.wake_keys' d (mem_akeys_of_alookup_eq_some hw)
    obtain ⟨P, hP⟩ := Option.isSome_iff_exists.1 hd.1
    rw [hc.wake_dev d P hd hP] at hw
    exact hc.wake_up hS (Static.below_master hS.toWF hd.1) P w hP hw
  cases hm : (firstWakeups (st.sched "").wake).2 with
  | none =>
    rw [firstWakeups_none] at hm
    symm
    rw [firstWakeups_none]
    cases hw' : (st'.sched "").wake with
    | nil => rfl
    | cons e rest =>
      exfalso
      obtain ⟨d, w⟩ := e
      have : alookup (st'.sched "").wake d = some w := by rw [hw']; simp [alookup_cons]
      obtain ⟨a, w', ha, _⟩ := hup d w this
      rw [hm] at ha
      simp at ha
  | some m =>
    obtain ⟨⟨a, ha⟩, hle⟩ := system_callback_is_min _ (hc.wake_unique "") m hm
    have hpa := hc.wake_keys "" a (mem_akeys_of_alookup_eq_some ha)
    obtain ⟨d, hd⟩ := hc.wake_down hS a "" m hpa ha
    cases hm' : (firstWakeups (st'.sched "").wake).2 with
    | none =>
      rw [firstWakeups_none] at hm'
      rw [hm'] at hd
      simp at hd
    | some m' =>
      obtain ⟨⟨d', hd'⟩, hle'⟩ := system_callback_is_min _ hc.wake_unique' m' hm'
      obtain ⟨a', w', ha', hw'⟩ := hup d' m' hd'
      have h1 : m ≤ m' := Int.le_trans (hle a' w' ha') hw'
      have h2 : m' ≤ m := hle' d m hd
      rw [Int.le_antisymm h1 h2]

end Tickit
