/-
Helper lemmas for C09, part 14: the answer to one `Input` in an arbitrary tick of a nested
configuration (device, system component, `external`, `expose`), at device level.
-/
import TickitModel.Lemmas.FlattenGenDefs
import TickitModel.Lemmas.FlattenInit

namespace Tickit

/-! ### decidedness -/

theorem Static.DecG.mono {S : Static} {D₀ : Comp → Prop} {L : Level} {tu tu' : List (Comp × Bool)}
    {a₀ : Comp} (h : S.DecG D₀ L tu a₀) (htu : ∀ c, alookup tu c = none → alookup tu' c = none) :
    S.DecG D₀ L tu' a₀ := by
  rcases h with h | ⟨h1, h2⟩
  · exact Or.inl h
  · exact Or.inr ⟨h1, fun c hc ho => htu c (h2 c hc ho)⟩

/-- a decided device lies below no open component -/
theorem Static.DecG.not_own {S : Static} {D₀ : Comp → Prop} {L : Level} {tu : List (Comp × Bool)}
    {a₀ : Comp} (h : S.DecG D₀ L tu a₀) (hd0 : ∀ x, D₀ x → ¬ S.Below L.name x) {c : Comp}
    (hc : alookup S.parent c = some L.name) (hopen : alookup tu c ≠ none) : ¬ S.Own c a₀ := by
  intro ho
  rcases h with h | ⟨_, h2⟩
  · exact hd0 a₀ h (ho.below hc)
  · exact hopen (h2 c hc ho)

/-- whatever lies at or below a closed component is decided -/
theorem Static.DecG.of_own {S : Static} (hS : S.Valid) {D₀ : Comp → Prop} {L : Level}
    {tu : List (Comp × Bool)} {c a₀ : Comp} (hc : alookup S.parent c = some L.name)
    (hclosed : alookup tu c = none) (ho : S.Own c a₀) : S.DecG D₀ L tu a₀ := by
  refine Or.inr ⟨ho.below hc, fun c' hc' ho' => ?_⟩
  rw [Static.Own.unique hS.toWF hc' hc ho' ho]
  exact hclosed

/-! ### moving the descriptions to a later moment -/

theorem Static.AnsOKG.transport {S : Static} {orc : Oracle} {n : Nat} {σ₀ : SimSt}
    {Dec Dec' : Comp → Prop} {L : Level} {mobs mobs' : List Obs} {a : Comp} {chs : List (Port × V)}
    (h : S.AnsOKG orc n σ₀ Dec L mobs a chs) (hdec : ∀ y, Dec y → Dec' y)
    (hm : ∀ y, Dec y → (y ∈ mobs.map Obs.comp ↔ y ∈ mobs'.map Obs.comp)) :
    S.AnsOKG orc n σ₀ Dec' L mobs' a chs :=
  ⟨h.1, fun p b q hc => ⟨fun v => ((h.2 p b q hc).1 v).trans (Static.ValG.congr (h.2 p b q hc).2 hm v),
    (h.2 p b q hc).2.mono hdec⟩⟩

theorem Static.PendOKG.transport {S : Static} {orc : Oracle} {n : Nat} {σ₀ : SimSt}
    {Dec Dec' : Comp → Prop} {L : Level} {mobs mobs' : List Obs} {c : Comp} {ins : List (Port × V)}
    (h : S.PendOKG orc n σ₀ Dec L mobs c ins) (hdec : ∀ y, Dec y → Dec' y)
    (hm : ∀ y, Dec y → (y ∈ mobs.map Obs.comp ↔ y ∈ mobs'.map Obs.comp)) :
    S.PendOKG orc n σ₀ Dec' L mobs' c ins := by
  refine ⟨h.1, fun q v => ?_, fun q a p hc => (h.2.2 q a p hc).mono hdec⟩
  rw [h.2.1 q v]
  constructor
  · rintro ⟨a, p, hc, hv⟩
    exact ⟨a, p, hc, (Static.ValG.congr (h.2.2 q a p hc) hm v).1 hv⟩
  · rintro ⟨a, p, hc, hv⟩
    exact ⟨a, p, hc, (Static.ValG.congr (h.2.2 q a p hc) hm v).2 hv⟩

theorem Static.SkipOKG.transport {S : Static} {orc : Oracle} {n : Nat} {σ₀ : SimSt}
    {Dec Dec' : Comp → Prop} {L : Level} {mobs mobs' : List Obs} {c : Comp}
    (h : S.SkipOKG orc n σ₀ Dec L mobs c) (hdec : ∀ y, Dec y → Dec' y)
    (hm : ∀ y, Dec y → (y ∈ mobs.map Obs.comp ↔ y ∈ mobs'.map Obs.comp)) :
    S.SkipOKG orc n σ₀ Dec' L mobs' c :=
  fun q a p hc => ⟨fun v hv => (h q a p hc).1 v ((Static.ValG.congr (h q a p hc).2 hm v).2 hv),
    (h q a p hc).2.mono hdec⟩

/-! ### one tick of one level, in general -/

/-- what the enclosing tick guarantees when it starts the tick of level `lvl`; `mobs` are the
observations made since the master tick began, `D₀` the devices whose status the caller regards
as decided -/
structure GenPre (S : Static) (orc : Oracle) (n : Nat) (σ₀ : SimSt) (Root : Comp → Prop)
    (D₀ : Comp → Prop) (lvl : Comp) (L : Level) (roots : List Comp) (inCh : List (Port × V))
    (st : SimSt) (mobs : List Obs) : Prop where
  hroots : ∀ c ∈ L.wiring.components, c ≠ pseudoExternal → (c ∈ roots ↔ Root c)
  ext_root : lvl ≠ "" → pseudoExternal ∈ roots
  obs_eq : st.obs = σ₀.obs ++ mobs
  fresh_obs : ∀ x, S.Below lvl x → x ∉ mobs.map Obs.comp
  fresh_dev : ∀ x, S.Below lvl x →
    agetD st.devs x {} = agetD σ₀.devs x {} ∧ agetD st.count x 0 = agetD σ₀.count x 0
  fresh_sched : ∀ s, S.Below lvl s → st.sched s = σ₀.sched s
  in_nodup : (akeys inCh).Nodup
  in_ok : ∀ p v, alookup inCh p = some v ↔ S.ValG orc n σ₀ mobs lvl pseudoExternal p v
  in_dec : ∀ p, S.SrcDec n D₀ lvl pseudoExternal p
  d0_out : ∀ a₀, D₀ a₀ → ¬ S.Below lvl a₀

/-- what the tick of level `L` achieves -/
def GenPost (S : Static) (orc : Oracle) (n : Nat) (σ₀ : SimSt) (Root : Comp → Prop)
    (D₀ : Comp → Prop) (lvl : Comp) (L : Level) (st st' : SimSt) (out : List (Port × V))
    (mobs : List Obs) : Prop :=
  ∃ new, st'.obs = st.obs ++ new ∧
    (∀ x, S.isDevice x → S.Below lvl x →
      DevValOK S orc n σ₀ Root (fun a₀ => D₀ a₀ ∨ S.Below lvl a₀) (mobs ++ new) st' x) ∧
    S.PendOKG orc n σ₀ (fun a₀ => D₀ a₀ ∨ S.Below lvl a₀) L (mobs ++ new) pseudoExpose out

/-- the induction hypothesis on the nesting depth -/
def GenIH (S : Static) (orc : Oracle) (n : Nat) (σ₀ : SimSt) (t : SimTime) (Root : Comp → Prop)
    (fuel : Nat) : Prop :=
  ∀ D₀ lvl L roots inCh st st' out mobs,
    tickLevel S orc fuel lvl t roots inCh st = .ok (st', out) → S.level lvl = some L →
    GenPre S orc n σ₀ Root D₀ lvl L roots inCh st mobs →
    GenPost S orc n σ₀ Root D₀ lvl L st st' out mobs

theorem flt_mem_map_append_iff {mobs new1 : List Obs} {y : Comp}
    (h : y ∉ new1.map Obs.comp) : y ∈ mobs.map Obs.comp ↔ y ∈ (mobs ++ new1).map Obs.comp := by
  rw [List.map_append, List.mem_append]
  exact ⟨Or.inl, fun h' => h'.elim id (fun h'' => absurd h'' h)⟩

/-- **the answer to one `Input`** -/
theorem simAnswer_gen {S : Static} (hS : S.Valid) {orc : Oracle} {n : Nat} (hst : S.ResolveStable n)
    {σ₀ : SimSt} {t : SimTime} {Root : Comp → Prop} (ctx : TickCtx S σ₀ t Root) {fuel : Nat}
    (IH : GenIH S orc n σ₀ t Root fuel) {D₀ : Comp → Prop} {L : Level} (hL : L ∈ S.levels)
    (hd0 : ∀ x, D₀ x → ¬ S.Below L.name x) {roots : List Comp}
    (hroots : ∀ c ∈ L.wiring.components, c ≠ pseudoExternal → (c ∈ roots ↔ Root c))
    {tu tu' : List (Comp × Bool)} {inCh : List (Port × V)} {st : SimSt} {mobs : List Obs}
    {outCh0 : List (Port × V)} (hobs : st.obs = σ₀.obs ++ mobs)
    (hin : S.AnsOKG orc n σ₀ (S.DecG D₀ L tu) L mobs pseudoExternal inCh ∨ L.name = "")
    {c : Comp} {ins : List (Port × V)} (hc : c ∈ L.wiring.components)
    (hopen : alookup tu c ≠ none)
    (htu' : ∀ c', alookup tu' c' = none ↔ c' = c ∨ alookup tu c' = none)
    (hfo : alookup S.parent c = some L.name → ∀ x, S.Own c x → x ∉ mobs.map Obs.comp)
    (hfd : alookup S.parent c = some L.name → ∀ x, S.Own c x →
      agetD st.devs x {} = agetD σ₀.devs x {} ∧ agetD st.count x 0 = agetD σ₀.count x 0)
    (hfs : alookup S.parent c = some L.name → ∀ s, S.Own c s → st.sched s = σ₀.sched s)
    (hpend : S.PendOKG orc n σ₀ (S.DecG D₀ L tu) L mobs c ins)
    (hwhy : c ∈ roots ∨ ins ≠ [])
    {st' : SimSt} {outCh' changes : List (Port × V)} {callAt : Option SimTime}
    (h : simAnswer S orc fuel L inCh st outCh0 (.input c t ins) = .ok (st', outCh', changes, callAt)) :
    ∃ new1, st'.obs = st.obs ++ new1 ∧
      S.AnsOKG orc n σ₀ (S.DecG D₀ L tu') L (mobs ++ new1) c changes ∧
      (alookup S.parent c = some L.name → ∀ x, S.isDevice x → S.Own c x →
        DevValOK S orc n σ₀ Root (S.DecG D₀ L tu') (mobs ++ new1) st' x) ∧
      ((c = pseudoExpose ∧ L.name ≠ "") → outCh' = ins) ∧
      (¬ (c = pseudoExpose ∧ L.name ≠ "") → outCh' = outCh0) := by
  obtain ⟨hwf, hos⟩ := hS.wiring_wf L hL
  have hLv : S.level L.name = some L := hS.level_of_mem hL
  have hmono : ∀ y, S.DecG D₀ L tu y → S.DecG D₀ L tu' y :=
    fun y hy => hy.mono (fun c' hc' => (htu' c').2 (Or.inr hc'))
  simp only [simAnswer] at h
  have hmem := hS.members L hL c hc
  split at h
  · -- `external`
    rename_i hx
    simp only [Bool.and_eq_true, bne_iff_ne, ne_eq, beq_iff_eq] at hx
    simp only [Except.ok.injEq, Prod.mk.injEq] at h
    obtain ⟨rfl, rfl, rfl, _⟩ := h
    obtain ⟨hne, rfl⟩ := hx
    refine ⟨[], by simp, ?_, ?_, ?_, ?_⟩
    · rcases hin with hin | hin
      · simpa using hin.transport hmono (fun _ _ => Iff.rfl)
      · exact absurd hin hne
    · intro hp; rw [hS.pseudo_fresh.1] at hp; cases hp
    · rintro ⟨h1, _⟩; exact absurd h1.symm flt_pseudo_ne
    · intro _; rfl
  · rename_i hx
    split at h
    · -- `expose`
      rename_i hy
      simp only [Bool.and_eq_true, bne_iff_ne, ne_eq, beq_iff_eq] at hy
      simp only [Except.ok.injEq, Prod.mk.injEq] at h
      obtain ⟨rfl, rfl, rfl, _⟩ := h
      obtain ⟨hne, rfl⟩ := hy
      refine ⟨[], by simp, ?_, ?_, ?_, ?_⟩
      · refine ⟨by simp, fun p b q hconn => ?_⟩
        exact absurd rfl (hS.pseudo_dir L hL _ _ _ _ hconn).2
      · intro hp; rw [hS.pseudo_fresh.2.1] at hp; cases hp
      · intro _; rfl
      · intro hno; exact absurd ⟨rfl, hne⟩ hno
    · rename_i hy
      have hpar : alookup S.parent c = some L.name := by
        rcases hmem with h' | ⟨hne, h' | h'⟩
        · exact h'
        · exact absurd (by simp [hne, h']) hx
        · exact absurd (by simp [hne, h']) hy
      have hcx : c ≠ pseudoExternal := by
        intro he; rw [he, hS.pseudo_fresh.1] at hpar; cases hpar
      have hce : c ≠ pseudoExpose := by
        intro he; rw [he, hS.pseudo_fresh.2.1] at hpar; cases hpar
      have hcne : c ≠ "" := hS.child_ne_master hpar
      have hout : ((c = pseudoExpose ∧ L.name ≠ "") → outCh0 = ins) ∧
          (¬ (c = pseudoExpose ∧ L.name ≠ "") → outCh0 = outCh0) :=
        ⟨fun h' => absurd h'.1 hce, fun _ => rfl⟩
      have hclosed' : alookup tu' c = none := (htu' c).2 (Or.inl rfl)
      split at h
      · -- a system component
        rename_i hsys
        split at h
        · cases h
        · rename_i st2 outCh hr
          simp only [Except.ok.injEq, Prod.mk.injEq] at h
          obtain ⟨rfl, rfl, rfl, _⟩ := h
          obtain ⟨Lc, hLc, _⟩ := tickLevel_ok_roots hr
          obtain ⟨hLc1, hLc2⟩ := Static.level_some hLc
          obtain ⟨hwfc, hosc⟩ := hS.wiring_wf Lc hLc1
          have hirr : ¬ S.Below c c := Static.Below.irrefl hS.toWF hcne
          have hsc : st.sched c = σ₀.sched c := hfs hpar c (Static.Own.refl S c)
          have hfun := IH (S.DecG D₀ L tu) _ _ _ _ _ _ _ mobs hr hLc
          have hpost := hfun
            { hroots := by
                intro c' hc' hne'
                have := ctx.roots_sys c Lc hsys hLc c' hc' hne'
                rw [← hsc] at this
                simpa [hLc] using this
              ext_root := fun _ => by simp [mem_sunion]
              obs_eq := hobs
              fresh_obs := fun x hb => hfo hpar x (Or.inr ⟨hcne, hb⟩)
              fresh_dev := fun x hb => hfd hpar x (Or.inr ⟨hcne, hb⟩)
              fresh_sched := by
                intro s hb
                have hsc' : c ≠ s := fun h => hirr (h ▸ hb)
                rw [SimSt.sched_upsert, if_neg hsc']
                exact hfs hpar s (Or.inr ⟨hcne, hb⟩)
              in_nodup := hpend.1
              in_ok := by
                intro p v
                rw [hpend.2.1]
                unfold Static.ValG
                constructor
                · rintro ⟨a, p', hconn, a₀, p₀, hr0, hm, hv⟩
                  exact ⟨a₀, p₀, (hst.external hcne hpar hLv p _).2
                    ⟨a, p', (Wiring.sourceOf_eq_some hwf hos).2 hconn, hr0⟩, hm, hv⟩
                · rintro ⟨a₀, p₀, hr0, hm, hv⟩
                  obtain ⟨a, p', hsrc, hr1⟩ := (hst.external hcne hpar hLv p _).1 hr0
                  exact ⟨a, p', (Wiring.sourceOf_eq_some hwf hos).1 hsrc, a₀, p₀, hr1, hm, hv⟩
              in_dec := by
                intro p a₀ p₀ hr0
                obtain ⟨a, p', hsrc, hr1⟩ := (hst.external hcne hpar hLv p _).1 hr0
                exact hpend.2.2 p a p' ((Wiring.sourceOf_eq_some hwf hos).1 hsrc) a₀ p₀ hr1
              d0_out := by
                intro a₀ hdec hb
                exact hdec.not_own hd0 hpar hopen (Or.inr ⟨hcne, hb⟩) }
          obtain ⟨new1, hobs1, hdev, hout2⟩ := hpost
          -- from the callee's notion of "decided" to ours
          have hconv : ∀ y, (S.DecG D₀ L tu y ∨ S.Below c y) → S.DecG D₀ L tu' y := by
            rintro y (hy | hy)
            · exact hmono y hy
            · exact Static.DecG.of_own hS hpar hclosed' (Or.inr ⟨hcne, hy⟩)
          refine ⟨new1, hobs1, ?_, ?_, hout.1, hout.2⟩
          · refine ⟨hout2.1, fun p b q hconn => ⟨fun v => ?_, ?_⟩⟩
            · rw [hout2.2.1]
              unfold Static.ValG
              constructor
              · rintro ⟨a, p', hconn', a₀, p₀, hr0, hm, hv⟩
                rw [hLc2] at hr0
                exact ⟨a₀, p₀, (hst.system hcx hsys hLc p _).2
                  ⟨a, p', (Wiring.sourceOf_eq_some hwfc hosc).2 hconn', hr0⟩, hm, hv⟩
              · rintro ⟨a₀, p₀, hr0, hm, hv⟩
                obtain ⟨a, p', hsrc, hr1⟩ := (hst.system hcx hsys hLc p _).1 hr0
                refine ⟨a, p', (Wiring.sourceOf_eq_some hwfc hosc).1 hsrc, a₀, p₀, ?_, hm, hv⟩
                rw [hLc2]; exact hr1
            · intro a₀ p₀ hr0
              obtain ⟨a, p', hsrc, hr1⟩ := (hst.system hcx hsys hLc p _).1 hr0
              refine hconv _ (hout2.2.2 p a p' ((Wiring.sourceOf_eq_some hwfc hosc).1 hsrc) a₀ p₀ ?_)
              rw [hLc2]; exact hr1
          · intro _ x hxd hown
            have hxb : S.Below c x := by
              rcases hown with rfl | ⟨_, hb⟩
              · exact absurd hsys (by simp [hxd.2])
              · exact hb
            exact (hdev x hxd hxb).transport hconv (fun o ho => ho)
              (fun o ho hno => absurd ho hno) ⟨rfl, rfl⟩
      · -- a device
        rename_i hsys
        have hsys' : S.isSys c = false := by simpa using hsys
        have hdev : S.isDevice c := ⟨by rw [hpar]; rfl, hsys'⟩
        obtain ⟨hd0', hk0⟩ := hfd hpar c (Static.Own.refl S c)
        split at h
        · cases h
        · rename_i resp hresp
          split at h
          · cases h
          · rename_i hraise
            simp only [Except.ok.injEq, Prod.mk.injEq] at h
            obtain ⟨rfl, rfl, rfl, _⟩ := h
            have hraise' : resp.raises = false := by simpa using hraise
            have hsr : stepResp orc σ₀ c = some resp := by
              unfold stepResp; rw [← hk0]; exact hresp
            have hch : ((agetD st.devs c {}).onTick ins (normDict resp.outs)).2 = stepChg orc σ₀ c := by
              unfold stepChg
              rw [hsr, ← hd0']
              rfl
            have hcm : c ∉ mobs.map Obs.comp := hfo hpar c (Static.Own.refl S c)
            -- a decided device is not `c`
            have hdne : ∀ y, S.DecG D₀ L tu y → y ≠ c := by
              intro y hy hyc
              exact hy.not_own hd0 hpar hopen (Or.inl hyc)
            have hmm : ∀ y, S.DecG D₀ L tu y → (y ∈ mobs.map Obs.comp ↔
                y ∈ (mobs ++ [(⟨c, t, (agetD st.devs c {}).merge ins⟩ : Obs)]).map Obs.comp) := by
              intro y hy
              apply flt_mem_map_append_iff
              simpa using hdne y hy
            have hpend' := hpend.transport hmono hmm
            have hdevin : ∀ q v, alookup ins q = some v ↔ S.DevIn orc n σ₀
                (mobs ++ [(⟨c, t, (agetD st.devs c {}).merge ins⟩ : Obs)]) c q v := by
              intro q v
              rw [hpend'.2.1]
              constructor
              · rintro ⟨a, p, hconn, a₀, p₀, hr0, hm, hv⟩
                exact ⟨a₀, p₀, (hS.flatInputs_spec n c q _).2 ⟨L.name, L, a, p, hpar, hLv, hconn, hr0⟩,
                  hm, hv⟩
              · rintro ⟨a₀, p₀, hfi, hm, hv⟩
                obtain ⟨lvl, L', a, p, hp', hL', hconn, hr0⟩ := (hS.flatInputs_spec n c q _).1 hfi
                rw [hpar] at hp'; cases hp'
                rw [hLv] at hL'; cases hL'
                exact ⟨a, p, hconn, a₀, p₀, hr0, hm, hv⟩
            have hcdec : S.DecG D₀ L tu' c :=
              Static.DecG.of_own hS hpar hclosed' (Static.Own.refl S c)
            refine ⟨[⟨c, t, (agetD st.devs c {}).merge ins⟩], rfl, ?_, ?_, hout.1, hout.2⟩
            · refine ⟨?_, fun p b q hconn => ⟨fun v => ?_, ?_⟩⟩
              · rw [hch]; exact flt_nodup_stepChg orc σ₀ c
              · rw [hch]
                unfold Static.ValG
                rw [hst.device hcx hsys' p]
                constructor
                · intro hv
                  exact ⟨c, p, rfl, by simp, hv⟩
                · rintro ⟨a₀, p₀, he, _, hv⟩
                  cases he
                  exact hv
              · intro a₀ p₀ hr0
                rw [hst.device hcx hsys' p] at hr0
                cases hr0
                exact hcdec
            · intro _ x hxd hown
              have hxc : x = c := by
                rcases hown with rfl | ⟨_, hb⟩
                · rfl
                · rcases hb.isSys hS.toWF with h' | h'
                  · exact absurd h' hcne
                  · exact absurd h' hsys
              subst hxc
              exact
                { upd_iff := by
                    constructor
                    · intro _
                      rcases hwhy with hr | hne
                      · exact Or.inl ((hroots x hc hcx).1 hr)
                      · obtain ⟨q, v, hq⟩ := ne_nil_iff_exists_alookup.1 hne
                        exact Or.inr ⟨q, v, (hdevin q v).1 hq⟩
                    · intro _; simp
                  src := by
                    intro q a₀ p₀ hfi
                    obtain ⟨lvl, L', a, p, hp', hL', hconn, hr0⟩ := (hS.flatInputs_spec n x q _).1 hfi
                    rw [hpar] at hp'; cases hp'
                    rw [hLv] at hL'; cases hL'
                    exact hpend'.2.2 q a p hconn a₀ p₀ hr0
                  upd := by
                    intro o ho hox
                    have hoeq : o = ⟨x, t, (agetD st.devs x {}).merge ins⟩ := by
                      rcases List.mem_append.1 ho with ho | ho
                      · exact absurd (List.mem_map.2 ⟨o, ho, hox⟩) hcm
                      · simpa using ho
                    subst hoeq
                    refine ⟨ins, resp, hpend.1, ?_, hdevin, hsr, hraise', ?_, ?_⟩
                    · show (agetD st.devs x {}).merge ins = _
                      rw [hd0']
                    · simp [sim_agetD_upsert, DevComp.onTick, DevComp.merge]
                    · simp [sim_agetD_upsert, hk0]
                  frame := by
                    intro hx; exact absurd (by simp) hx }

end Tickit
