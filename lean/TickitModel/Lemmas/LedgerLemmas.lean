/-
Helper lemmas for the resource ledger (C14).
-/
import TickitModel.Core.Ledger

namespace Tickit

/-- one operation keeps tasks, retained tasks and timers and re-establishes the entry bound -/
theorem Ledger.apply_inv (ncomp : Nat) (l : Ledger) (op : LOp) (h : l.entries ≤ 2 * ncomp) :
    (l.apply ncomp op).live = l.live ∧ (l.apply ncomp op).retained = l.retained ∧
    (l.apply ncomp op).timers = l.timers ∧ (l.apply ncomp op).entries ≤ 2 * ncomp := by
  cases op <;> simp [Ledger.apply] <;> omega

theorem Ledger.run_inv (ncomp : Nat) (ops : List LOp) (l : Ledger) (h : l.entries ≤ 2 * ncomp) :
    (Ledger.run ncomp l ops).live = l.live ∧ (Ledger.run ncomp l ops).retained = l.retained ∧
    (Ledger.run ncomp l ops).timers = l.timers ∧ (Ledger.run ncomp l ops).entries ≤ 2 * ncomp := by
  induction ops generalizing l with
  | nil => simp [Ledger.run, h]
  | cons op ops ih =>
    have hstep := Ledger.apply_inv ncomp l op h
    have := ih (l.apply ncomp op) hstep.2.2.2
    simp only [Ledger.run, List.foldl_cons] at this ⊢
    obtain ⟨a, b, c, d⟩ := this
    exact ⟨a.trans hstep.1, b.trans hstep.2.1, c.trans hstep.2.2.1, d⟩

end Tickit
