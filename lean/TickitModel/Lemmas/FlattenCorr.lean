/-
Helper lemmas for C09, part 8c: the whole-run theorem from the correspondence `Corr`
(established after the initial tick, giving the same next tick time, preserved by one more tick).
-/
import TickitModel.Lemmas.FlattenEqs
import TickitModel.Lemmas.FlattenWake
import TickitModel.Lemmas.FlattenRunGen
import TickitModel.Lemmas.FlattenGen

namespace Tickit

/-! ### after the initial tick, and one more tick -/

theorem masterInitial_tick {S : Static} {orc : Oracle} {fuel : Nat} {t0 : SimTime} {now : Int}
    {m : MasterSt} {tr : TickRec} (h : masterInitial S orc fuel t0 now = .ok (m, tr)) :
    ∃ L out, S.level "" = some L ∧
      tickLevel S orc fuel "" t0 L.wiring.components [] {} = .ok (m.sim, out) := by
  unfold masterInitial at h
  split at h
  · cases h
  · rename_i L hL
    simp only [] at h
    split at h
    · cases h
    · rename_i st out hr
      simp only [Except.ok.injEq, Prod.mk.injEq] at h
      obtain ⟨rfl, _⟩ := h
      exact ⟨L, out, hL, hr⟩

/-- **after the initial tick** the two states correspond -/
theorem corr_initial {S : Static} (hS : S.Valid) {orc : Oracle} {n : Nat} (hst : S.ResolveStable n)
    (hrank : S.FlatRank n) {fuel fuel' : Nat} {t0 : SimTime} {now : Int} {m m' : MasterSt}
    {tr tr' : TickRec} (h : masterInitial S orc fuel t0 now = .ok (m, tr))
    (h' : masterInitial (S.flatten n) orc fuel' t0 now = .ok (m', tr')) :
    Corr S m.sim m'.sim := by
  have hS' : (S.flatten n).Valid := hS.flatten hrank
  obtain ⟨L, out, hL, ht⟩ := masterInitial_tick h
  obtain ⟨L', out', hL', ht'⟩ := masterInitial_tick h'
  obtain ⟨new, E, hsch⟩ := tick_eqs_initial hS hst hL ht
  obtain ⟨new', E', hsch'⟩ := tick_eqs_initial hS' (S.flatten_resolveStable n) hL' ht'
  exact corr_of_tickEqs hS hrank hS' (DevCorr.empty S) (fun _ _ => Iff.rfl) E E' hsch hsch'

theorem SimSt.delWake_devs (st : SimSt) (cs : List Comp) : (st.delWake cs).devs = st.devs := rfl
theorem SimSt.delWake_count (st : SimSt) (cs : List Comp) : (st.delWake cs).count = st.count := rfl

theorem stepResp_delWake (orc : Oracle) (st : SimSt) (cs : List Comp) (c : Comp) :
    stepResp orc (st.delWake cs) c = stepResp orc st c := rfl

theorem stepChg_delWake (orc : Oracle) (st : SimSt) (cs : List Comp) (c : Comp) :
    stepChg orc (st.delWake cs) c = stepChg orc st c := rfl

/-- **one more tick**: if the next tick of the nested simulation completes, so does the next
tick of the flat one, and the resulting states correspond again -/
theorem corr_tick {S : Static} (hS : S.Valid) {orc : Oracle} {n : Nat} (hst : S.ResolveStable n)
    (hrank : S.FlatRank n) {fuel : Nat} {st st' : SimSt} (hc : Corr S st st') {w : SimTime}
    {comps comps' : List Comp}
    (hfw : firstWakeups (st.sched "").wake = (comps, some w))
    (hfw' : firstWakeups (st'.sched "").wake = (comps', some w))
    {st2 : SimSt} {out : List (Port × V)}
    (ht : tickLevel S orc fuel "" w comps [] (st.delWake comps) = .ok (st2, out)) :
    ∃ st2' out', tickLevel (S.flatten n) orc 1 "" w comps' [] (st'.delWake comps') = .ok (st2', out') ∧
      Corr S st2 st2' := by
  have hS' : (S.flatten n).Valid := hS.flatten hrank
  have hmemL : (⟨"", S.flatW n⟩ : Level) ∈ (S.flatten n).levels := by
    rw [S.flatten_levels]; simp
  obtain ⟨new, E, hsch⟩ := tick_eqs hS hst hc.schedOK hfw ht
  obtain ⟨hcs', _, _, _⟩ := firstWakeups_spec _ hc.wake_unique' comps' w hfw'
  -- the devices with a due callback are the same on both sides
  have hroot : ∀ d, S.isDevice d → (S.DueAt st w d ↔ (S.flatten n).DueAt st' w d) := by
    intro d hd
    have hp' : alookup (S.flatten n).parent d = some "" := by
      rw [S.flatten_parent, if_pos (Static.mem_devices_iff.2 hd)]
    constructor
    · rintro ⟨P, w', hP, hw', hle⟩
      exact ⟨"", w', hp', by rw [hc.wake_dev d P hd hP]; exact hw', hle⟩
    · rintro ⟨P', w', hP', hw', hle⟩
      rw [hp'] at hP'; cases hP'
      obtain ⟨P, hP⟩ := Option.isSome_iff_exists.1 hd.1
      exact ⟨P, w', hP, by rw [← hc.wake_dev d P hd hP]; exact hw', hle⟩
  -- the flat tick cannot fail
  have hUroot : ∀ c ∈ comps', c ∈ new.map Obs.comp := by
    intro c hcm
    have hl := (hcs' c).1 hcm
    have hd := hc.wake_keys' c (mem_akeys_of_alookup_eq_some hl)
    have hp' : alookup (S.flatten n).parent c = some "" := by
      rw [S.flatten_parent, if_pos (Static.mem_devices_iff.2 hd)]
    exact (E.upd_iff c hd).2 (Or.inl ((hroot c hd).2 ⟨"", w, hp', hl, Int.le_refl _⟩))
  obtain ⟨⟨st2', out'⟩, hr⟩ := flat_tickLevel_gen (S := S.flatten n) (S.flatten_isSys n)
    (S.flatten_level n) (hS'.routerOK hmemL) (hS'.acyclic _ hmemL) w (roots := comps')
    (by
      intro r hr
      have hl := (hcs' r).1 hr
      have hd := hc.wake_keys' r (mem_akeys_of_alookup_eq_some hl)
      exact (S.flatW_components hS n r).2 (Static.mem_devices_iff.2 hd))
    (st'.delWake comps') (fun c => c ∈ new.map Obs.comp)
    (by
      intro c hcm
      obtain ⟨o, ho, rfl⟩ := List.mem_map.1 hcm
      obtain ⟨_, r, _, _, _, hr, hra, _⟩ := E.upd o ho
      refine ⟨r, ?_, hra⟩
      rw [stepResp_delWake, ← hc.devCorr.stepResp_eq orc (E.dev o ho).2]
      exact hr)
    hUroot
    (by
      intro c a p q v hconn ha hv
      obtain ⟨hcd, hfi⟩ := (S.flatW_conn hS n _ _ _ _).1 hconn
      have hd := Static.mem_devices_iff.1 hcd
      have had := Static.mem_devices_iff.1 (hS.flatInputs_device hfi)
      rw [stepChg_delWake, ← hc.devCorr.stepChg_eq orc had] at hv
      exact (E.upd_iff c hd).2 (Or.inr ⟨q, v, a, p, hfi, ha, hv⟩))
    0
  have hsch0' : SchedOK (S.flatten n) st' := hc.flat_sched.flatten_fuel n
  obtain ⟨new', E', hsch'⟩ := tick_eqs hS' (S.flatten_resolveStable n) hsch0' hfw' hr
  exact ⟨st2', out', hr, corr_of_tickEqs hS hrank hS' hc.devCorr hroot E E' hsch hsch'⟩

/-! ### the whole run -/

theorem masterRun_no_stims (S : Static) (orc : Oracle) (fuel : Nat) (s : Speed) (steps nTicks : Nat)
    (m : MasterSt) (acc : List TickRec) :
    masterRun S orc fuel s (steps + 1) (nTicks + 1) m [] acc =
      match firstWakeups (m.sim.sched "").wake with
      | (comps, some w) =>
        match tickLevel S orc fuel "" w comps [] (m.sim.delWake comps) with
        | .error e => .error e
        | .ok (sim2, _) =>
          masterRun S orc fuel s steps nTicks
            { sim := sim2, tickerTime := w, lastReal := dueReal m s w, now := dueReal m s w } []
            (acc ++ [⟨w, dueReal m s w, comps⟩])
      | (_, none) => .ok (m, acc) := by
  rw [masterRun]
  cases hfw : firstWakeups (m.sim.sched "").wake with
  | mk comps whenT =>
    cases whenT with
    | none => simp
    | some w => simp only [SimSt.delWake]; rfl

theorem dueReal_congr {m m' : MasterSt} (h : m.SameClock m') (s : Speed) (w : SimTime) :
    dueReal m s w = dueReal m' s w := by
  obtain ⟨h1, h2, h3⟩ := h
  simp [dueReal, h1, h2, h3]

theorem masterRun_corr {S : Static} (hS : S.Valid) {orc : Oracle} {n : Nat} (hst : S.ResolveStable n)
    (hrank : S.FlatRank n) {fuel : Nat} (sp : Speed) :
    ∀ (steps nTicks : Nat) (m m' : MasterSt) (acc acc' : List TickRec),
      Corr S m.sim m'.sim → m.SameClock m' →
      acc.map (·.time) = acc'.map (·.time) → acc.map (·.real) = acc'.map (·.real) →
      ∀ m2 ticks, masterRun S orc fuel sp steps nTicks m [] acc = .ok (m2, ticks) →
        ∃ m2' ticks', masterRun (S.flatten n) orc 1 sp steps nTicks m' [] acc' = .ok (m2', ticks') ∧
          ticks.map (·.time) = ticks'.map (·.time) ∧ ticks.map (·.real) = ticks'.map (·.real) ∧
          Corr S m2.sim m2'.sim := by
  intro steps
  induction steps with
  | zero =>
    intro nTicks m m' acc acc' hc _ ht hr m2 ticks h
    rw [masterRun] at h
    simp only [Except.ok.injEq, Prod.mk.injEq] at h
    obtain ⟨rfl, rfl⟩ := h
    exact ⟨m', acc', by rw [masterRun], ht, hr, hc⟩
  | succ steps ih =>
    intro nTicks m m' acc acc' hc hclk ht hr m2 ticks h
    cases nTicks with
    | zero =>
      rw [masterRun.eq_2 _ _ _ _ _ _ _ _ (by simp)] at h
      simp only [Except.ok.injEq, Prod.mk.injEq] at h
      obtain ⟨rfl, rfl⟩ := h
      exact ⟨m', acc', by rw [masterRun.eq_2 _ _ _ _ _ _ _ _ (by simp)], ht, hr, hc⟩
    | succ nTicks =>
      rw [masterRun_no_stims] at h ⊢
      have hmin := hc.firstWakeups_eq hS
      cases hfw : firstWakeups (m.sim.sched "").wake with
      | mk comps whenT =>
        cases hfw' : firstWakeups (m'.sim.sched "").wake with
        | mk comps' whenT' =>
          rw [hfw, hfw'] at hmin
          simp only [] at hmin
          subst hmin
          rw [hfw] at h
          cases whenT with
          | none =>
            simp only [Except.ok.injEq, Prod.mk.injEq] at h
            obtain ⟨rfl, rfl⟩ := h
            exact ⟨m', acc', rfl, ht, hr, hc⟩
          | some w =>
            simp only [] at h ⊢
            split at h
            · cases h
            · rename_i sim2 out htick
              obtain ⟨sim2', out', htick', hc2⟩ := corr_tick hS hst hrank hc hfw hfw' htick
              rw [htick']
              simp only []
              rw [← dueReal_congr hclk sp w]
              refine ih nTicks
                { sim := sim2, tickerTime := w, lastReal := dueReal m sp w, now := dueReal m sp w }
                { sim := sim2', tickerTime := w, lastReal := dueReal m sp w, now := dueReal m sp w }
                _ _ hc2 ⟨rfl, rfl, rfl⟩ ?_ ?_ m2 ticks h
              · simp [ht]
              · simp [hr]

end Tickit
