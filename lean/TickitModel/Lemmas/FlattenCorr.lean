/-
Helper lemmas for C09, part 8: the multi-tick correspondence between a nested simulation and
its flattening.  `Corr` relates the two simulation states between ticks; the whole-run theorem
follows from three facts about it (established after the initial tick, the same next tick time,
preserved by one more tick).
-/
import TickitModel.Lemmas.FlattenMain
import TickitModel.Lemmas.MiscLemmas

namespace Tickit

/-- the nested state `st` and the flat state `st'` correspond: same device states, same update
counts, same observations, same pending callbacks — a callback requested inside a system is
represented upwards, level by level, by the minimum of the inner wakeups. -/
structure Corr (S : Static) (st st' : SimSt) : Prop where
  devs : ∀ d, S.isDevice d →
    (agetD st.devs d {}).lastOutputs = (agetD st'.devs d {}).lastOutputs ∧
    MapEq (agetD st.devs d {}).deviceInputs (agetD st'.devs d {}).deviceInputs
  count : ∀ d, S.isDevice d → agetD st.count d 0 = agetD st'.count d 0
  obs : ∀ d, ObsEq (st.obsOf d) (st'.obsOf d)
  /-- every nested scheduler is past its initial tick and has no queued interrupt -/
  started : ∀ s, S.isSys s = true → (st.sched s).firstDone = true ∧ (st.sched s).interrupts = []
  /-- a device's pending callback: in its own scheduler / in the flat master -/
  wake_dev : ∀ d P, S.isDevice d → alookup S.parent d = some P →
    alookup (st'.sched "").wake d = alookup (st.sched P).wake d
  /-- a system's pending callback at its parent is the minimum of its inner wakeups -/
  wake_sys : ∀ s P, S.isSys s = true → alookup S.parent s = some P →
    alookup (st.sched P).wake s = (firstWakeups (st.sched s).wake).2
  wake_keys : ∀ L c, c ∈ akeys (st.sched L).wake → alookup S.parent c = some L
  wake_keys' : ∀ c, c ∈ akeys (st'.sched "").wake → S.isDevice c
  wake_unique : ∀ L, UniqueKeys (st.sched L).wake
  wake_unique' : UniqueKeys (st'.sched "").wake

/-- the master serves (removes) the wakeups of `cs` before the tick -/
def SimSt.delWake (st : SimSt) (cs : List Comp) : SimSt :=
  let sc := st.sched ""
  { st with scheds := upsert st.scheds "" { sc with wake := delWakeups sc.wake cs } }

/-- the state of the master scheduler apart from the simulation state -/
def MasterSt.SameClock (m m' : MasterSt) : Prop :=
  m.tickerTime = m'.tickerTime ∧ m.lastReal = m'.lastReal ∧ m.now = m'.now

/-! ### the three facts (the first two are open, see the report) -/

/-- **after the initial tick** the two states correspond -/
theorem corr_initial {S : Static} (hS : S.Valid) {orc : Oracle} {n : Nat} (hst : S.ResolveStable n)
    {fuel fuel' : Nat} {t0 : SimTime} {now : Int} {m m' : MasterSt} {tr tr' : TickRec}
    (h : masterInitial S orc fuel t0 now = .ok (m, tr))
    (h' : masterInitial (S.flatten n) orc fuel' t0 now = .ok (m', tr')) :
    Corr S m.sim m'.sim := by
  sorry

/-- **same next tick**: the earliest pending callback of the nested master is the earliest
pending callback of any device -/
theorem Corr.firstWakeups_eq {S : Static} (hS : S.Valid) {st st' : SimSt} (hc : Corr S st st') :
    (firstWakeups (st.sched "").wake).2 = (firstWakeups (st'.sched "").wake).2 := by
  sorry

/-- **one more tick**: if the next tick of the nested simulation completes, so does the next
tick of the flat one, and the resulting states correspond again -/
theorem corr_tick {S : Static} (hS : S.Valid) {orc : Oracle} {n : Nat} (hst : S.ResolveStable n)
    {fuel : Nat} {st st' : SimSt} (hc : Corr S st st') {w : SimTime} {comps comps' : List Comp}
    (hfw : firstWakeups (st.sched "").wake = (comps, some w))
    (hfw' : firstWakeups (st'.sched "").wake = (comps', some w))
    {st2 : SimSt} {out : List (Port × V)}
    (ht : tickLevel S orc fuel "" w comps [] (st.delWake comps) = .ok (st2, out)) :
    ∃ st2' out', tickLevel (S.flatten n) orc 1 "" w comps' [] (st'.delWake comps') = .ok (st2', out') ∧
      Corr S st2 st2' := by
  sorry

/-! ### the whole run -/

theorem masterRun_no_stims (S : Static) (orc : Oracle) (fuel : Nat) (s : Speed) (steps nTicks : Nat)
    (m : MasterSt) (acc : List TickRec) :
    masterRun S orc fuel s (steps + 1) (nTicks + 1) m [] acc =
      match firstWakeups (m.sim.sched "").wake with
      | (comps, some w) =>
        match tickLevel S orc fuel "" w comps [] (m.sim.delWake comps) with
        | .error e => .error e
        | .ok (sim2, _) =>
          masterRun S orc fuel s steps nTicks
            { sim := sim2, tickerTime := w, lastReal := dueReal m s w, now := dueReal m s w } []
            (acc ++ [⟨w, dueReal m s w, comps⟩])
      | (_, none) => .ok (m, acc) := by
  rw [masterRun]
  cases hfw : firstWakeups (m.sim.sched "").wake with
  | mk comps whenT =>
    cases whenT with
    | none => simp
    | some w => simp only [SimSt.delWake]; rfl

theorem dueReal_congr {m m' : MasterSt} (h : m.SameClock m') (s : Speed) (w : SimTime) :
    dueReal m s w = dueReal m' s w := by
  obtain ⟨h1, h2, h3⟩ := h
  simp [dueReal, h1, h2, h3]

theorem masterRun_corr {S : Static} (hS : S.Valid) {orc : Oracle} {n : Nat} (hst : S.ResolveStable n)
    {fuel : Nat} (sp : Speed) :
    ∀ (steps nTicks : Nat) (m m' : MasterSt) (acc acc' : List TickRec),
      Corr S m.sim m'.sim → m.SameClock m' →
      acc.map (·.time) = acc'.map (·.time) → acc.map (·.real) = acc'.map (·.real) →
      ∀ m2 ticks, masterRun S orc fuel sp steps nTicks m [] acc = .ok (m2, ticks) →
        ∃ m2' ticks', masterRun (S.flatten n) orc 1 sp steps nTicks m' [] acc' = .ok (m2', ticks') ∧
          ticks.map (·.time) = ticks'.map (·.time) ∧ ticks.map (·.real) = ticks'.map (·.real) ∧
          Corr S m2.sim m2'.sim := by
  intro steps
  induction steps with
  | zero =>
    intro nTicks m m' acc acc' hc _ ht hr m2 ticks h
    rw [masterRun] at h
    simp only [Except.ok.injEq, Prod.mk.injEq] at h
    obtain ⟨rfl, rfl⟩ := h
    exact ⟨m', acc', by rw [masterRun], ht, hr, hc⟩
  | succ steps ih =>
    intro nTicks m m' acc acc' hc hclk ht hr m2 ticks h
    cases nTicks with
    | zero =>
      rw [masterRun.eq_2 _ _ _ _ _ _ _ _ (by simp)] at h
      simp only [Except.ok.injEq, Prod.mk.injEq] at h
      obtain ⟨rfl, rfl⟩ := h
      exact ⟨m', acc', by rw [masterRun.eq_2 _ _ _ _ _ _ _ _ (by simp)], ht, hr, hc⟩
    | succ nTicks =>
      rw [masterRun_no_stims] at h ⊢
      have hmin := hc.firstWakeups_eq hS
      cases hfw : firstWakeups (m.sim.sched "").wake with
      | mk comps whenT =>
        cases hfw' : firstWakeups (m'.sim.sched "").wake with
        | mk comps' whenT' =>
          rw [hfw, hfw'] at hmin
          simp only [] at hmin
          subst hmin
          rw [hfw] at h
          cases whenT with
          | none =>
            simp only [Except.ok.injEq, Prod.mk.injEq] at h
            obtain ⟨rfl, rfl⟩ := h
            exact ⟨m', acc', rfl, ht, hr, hc⟩
          | some w =>
            simp only [] at h ⊢
            split at h
            · cases h
            · rename_i sim2 out htick
              obtain ⟨sim2', out', htick', hc2⟩ := corr_tick hS hst hc hfw hfw' htick
              rw [htick']
              simp only []
              rw [← dueReal_congr hclk sp w]
              refine ih nTicks
                { sim := sim2, tickerTime := w, lastReal := dueReal m sp w, now := dueReal m sp w }
                { sim := sim2', tickerTime := w, lastReal := dueReal m sp w, now := dueReal m sp w }
                _ _ hc2 ⟨rfl, rfl, rfl⟩ ?_ ?_ m2 ticks h
              · simp [ht]
              · simp [hr]

end Tickit
