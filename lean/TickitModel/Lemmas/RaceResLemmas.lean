/-
Lemmas for `Core/RaceRes.lean`: the resource invariants of the system component's tick/error
race and of the TCP io's reply tasks, and the growth of the pre-repair variants.
-/
import TickitModel.Core.RaceRes

namespace Tickit

/-! ### sums -/

theorem rr_sum_map_le {α : Type} (f : α → Nat) (k : Nat) (l : List α) (h : ∀ x ∈ l, f x ≤ k) :
    (l.map f).sum ≤ k * l.length := by
  induction l with
  | nil => simp
  | cons a l ih =>
    have h1 := h a List.mem_cons_self
    have h2 := ih (fun x hx => h x (List.mem_cons_of_mem _ hx))
    simp only [List.map_cons, List.sum_cons, List.length_cons, Nat.mul_succ]
    omega

theorem rr_sum_map_congr {α : Type} (f g : α → Nat) (l : List α) (h : ∀ x ∈ l, f x = g x) :
    (l.map f).sum = (l.map g).sum := by
  induction l with
  | nil => rfl
  | cons a l ih =>
    simp only [List.map_cons, List.sum_cons]
    rw [h a List.mem_cons_self, ih (fun x hx => h x (List.mem_cons_of_mem _ hx))]

theorem rr_sum_filter {α : Type} (f : α → Nat) (p : α → Bool) (l : List α)
    (h : ∀ x ∈ l, p x = false → f x = 0) : ((l.filter p).map f).sum = (l.map f).sum := by
  induction l with
  | nil => rfl
  | cons a l ih =>
    have ih' := ih (fun x hx => h x (List.mem_cons_of_mem _ hx))
    cases hp : p a with
    | true => simp [hp, ih']
    | false =>
      have := h a List.mem_cons_self hp
      simp [hp, ih', this]

theorem rr_forall_set {α : Type} (P : α → Prop) (l : List α) (i : Nat) (x : α)
    (hl : ∀ y ∈ l, P y) (hx : P x) : ∀ y ∈ l.set i x, P y := by
  intro y hy
  rcases List.mem_or_eq_of_mem_set hy with h | h
  · exact hl y h
  · exact h ▸ hx

/-! ## the system component's race -/

/-- the counters of the race in progress are a function of the control state. -/
structure SysInv (s : SysRaceSt) : Prop where
  tick : s.tickLive = if s.pc = .racing ∧ s.tickDone = false then 1 else 0
  err : s.errLive = if s.pc = .racing ∧ s.errDone = false then 1 else 0

theorem SysInv.init : SysInv {} := ⟨by simp, by simp⟩

theorem SysInv.step {fixed : Bool} {s s' : SysRaceSt} {a : SysRaceAct} (h : SysInv s)
    (hs : s.step fixed a = some s') : SysInv s' := by
  obtain ⟨h1, h2⟩ := h
  cases a with
  | input =>
    simp only [SysRaceSt.step] at hs
    split at hs
    · rename_i hpc
      simp only [Option.some.injEq] at hs; subst hs
      simp only [hpc] at h1 h2
      exact ⟨by simp [h1], by simp [h2]⟩
    · simp at hs
  | innerTickDone =>
    simp only [SysRaceSt.step] at hs
    split at hs
    · rename_i hc
      simp only [Option.some.injEq] at hs; subst hs
      exact ⟨by simp [h1, hc], by simpa using h2⟩
    · simp at hs
  | raiseError =>
    simp only [SysRaceSt.step, Option.some.injEq] at hs; subst hs
    exact ⟨h1, h2⟩
  | errTaskRuns =>
    simp only [SysRaceSt.step] at hs
    split at hs
    · rename_i hc
      simp only [Option.some.injEq] at hs; subst hs
      exact ⟨by simpa using h1, by simp [h2, hc]⟩
    · simp at hs
  | resume =>
    simp only [SysRaceSt.step] at hs
    split at hs
    · rename_i hc
      obtain ⟨hpc, hd⟩ := hc
      simp only [hpc, true_and] at h1 h2
      split at hs
      · rename_i he
        simp only [he] at h2
        split at hs
        · rename_i ht
          simp only [ht] at h1
          simp only [Option.some.injEq] at hs; subst hs
          exact ⟨by simp [h1], by simp [h2]⟩
        · rename_i ht
          simp only [Bool.not_eq_true] at ht
          simp only [ht] at h1
          split at hs <;>
          · simp only [Option.some.injEq] at hs; subst hs
            exact ⟨by simp [h1], by simp [h2]⟩
      · rename_i he
        simp only [Bool.not_eq_true] at he
        simp [he] at hd
        simp only [he] at h2
        simp only [hd] at h1
        split at hs <;>
        · simp only [Option.some.injEq] at hs; subst hs
          exact ⟨by simp [h1], by simp [h2]⟩
    · simp at hs
  | orphanTickDone =>
    simp only [SysRaceSt.step] at hs
    split at hs
    · simp only [Option.some.injEq] at hs; subst hs
      exact ⟨h1, h2⟩
    · simp at hs

theorem SysInv.run {fixed : Bool} {s : SysRaceSt} (h : SysInv s) (acts : List SysRaceAct) :
    SysInv (s.run fixed acts) := by
  induction acts generalizing s with
  | nil => exact h
  | cons a as ih =>
    simp only [SysRaceSt.run]
    split
    · rename_i s' hs; exact ih (h.step hs)
    · exact ih h

theorem SysInv.race_le {s : SysRaceSt} (h : SysInv s) : s.tickLive + s.errLive ≤ 2 := by
  have h1 := h.tick
  have h2 := h.err
  split at h1 <;> split at h2 <;> omega

theorem SysInv.idle_zero {s : SysRaceSt} (h : SysInv s) (hpc : s.pc = .idle) :
    s.tickLive = 0 ∧ s.errLive = 0 := by
  have h1 := h.tick
  have h2 := h.err
  simp [hpc] at h1 h2
  exact ⟨h1, h2⟩

/-- with cancellation nothing is ever abandoned. -/
theorem SysRaceSt.step_orphans_fixed {s s' : SysRaceSt} {a : SysRaceAct}
    (hs : s.step true a = some s') :
    s'.orphanTick ≤ s.orphanTick ∧ s'.orphanErr ≤ s.orphanErr := by
  cases a <;> simp only [SysRaceSt.step] at hs
  · split at hs
    · simp only [Option.some.injEq] at hs; subst hs; simp
    · simp at hs
  · split at hs
    · simp only [Option.some.injEq] at hs; subst hs; simp
    · simp at hs
  · simp only [Option.some.injEq] at hs; subst hs; simp
  · split at hs
    · simp only [Option.some.injEq] at hs; subst hs; simp
    · simp at hs
  · split at hs
    · split at hs
      · split at hs
        · simp only [Option.some.injEq] at hs; subst hs; simp
        · simp only [if_true, Option.some.injEq] at hs; subst hs; simp
      · simp only [if_true, Option.some.injEq] at hs; subst hs; simp
    · simp at hs
  · split at hs
    · simp only [Option.some.injEq] at hs; subst hs; simp
    · simp at hs

/-- the full invariant of the code as it is -/
def SysGood (s : SysRaceSt) : Prop := SysInv s ∧ s.orphanTick = 0 ∧ s.orphanErr = 0

theorem SysGood.init : SysGood {} := ⟨SysInv.init, rfl, rfl⟩

theorem SysGood.step {s s' : SysRaceSt} {a : SysRaceAct} (h : SysGood s)
    (hs : s.step true a = some s') : SysGood s' := by
  have := SysRaceSt.step_orphans_fixed hs
  exact ⟨h.1.step hs, by have := h.2.1; omega, by have := h.2.2; omega⟩

theorem SysGood.run {s : SysRaceSt} (h : SysGood s) (acts : List SysRaceAct) :
    SysGood (s.run true acts) := by
  induction acts generalizing s with
  | nil => exact h
  | cons a as ih =>
    simp only [SysRaceSt.run]
    split
    · rename_i s' hs; exact ih (h.step hs)
    · exact ih h

theorem SysGood.tasks_le {s : SysRaceSt} (h : SysGood s) : s.tasks ≤ 2 := by
  have := h.1.race_le
  have h1 := h.2.1
  have h2 := h.2.2
  simp only [SysRaceSt.tasks]; omega

theorem SysGood.farmStep {l : List SysRaceSt} (h : ∀ s ∈ l, SysGood s) (ia : Nat × SysRaceAct) :
    ∀ s ∈ sysFarmStep true l ia, SysGood s := by
  unfold sysFarmStep
  split
  · exact h
  · rename_i s hget
    split
    · exact h
    · rename_i s' hs
      exact rr_forall_set SysGood l ia.1 s' h ((h s (List.mem_of_getElem? hget)).step hs)

theorem sysFarmStep_length (fixed : Bool) (l : List SysRaceSt) (ia : Nat × SysRaceAct) :
    (sysFarmStep fixed l ia).length = l.length := by
  unfold sysFarmStep
  split
  · rfl
  · split
    · rfl
    · simp

theorem SysGood.farmRun {l : List SysRaceSt} (h : ∀ s ∈ l, SysGood s)
    (acts : List (Nat × SysRaceAct)) :
    (∀ s ∈ sysFarmRun true l acts, SysGood s) ∧ (sysFarmRun true l acts).length = l.length := by
  induction acts generalizing l with
  | nil => exact ⟨h, rfl⟩
  | cons a as ih =>
    have := ih (SysGood.farmStep h a)
    simp only [sysFarmRun, List.foldl_cons] at this ⊢
    exact ⟨this.1, this.2.trans (sysFarmStep_length true l a)⟩

/-! ### growth without the cancellation -/

theorem SysRaceSt.run_append (fixed : Bool) (s : SysRaceSt) (l1 l2 : List SysRaceAct) :
    s.run fixed (l1 ++ l2) = (s.run fixed l1).run fixed l2 := by
  induction l1 generalizing s with
  | nil => rfl
  | cons a as ih =>
    simp only [List.cons_append, SysRaceSt.run]
    split <;> exact ih _

theorem sysTickRound_run (fixed : Bool) (s : SysRaceSt) (hpc : s.pc = .idle)
    (h1 : s.tickLive = 0) (h2 : s.errLive = 0) :
    (s.run fixed sysTickRound).pc = .idle ∧ (s.run fixed sysTickRound).tickLive = 0 ∧
    (s.run fixed sysTickRound).errLive = 0 ∧
    (s.run fixed sysTickRound).orphanErr = s.orphanErr + (if fixed then 0 else 1) ∧
    (s.run fixed sysTickRound).ticks = s.ticks + 1 ∧
    (s.run fixed sysTickRound).orphanTick = s.orphanTick := by
  cases fixed <;> simp [sysTickRound, SysRaceSt.run, SysRaceSt.step, hpc, h1, h2]

theorem sysTickRounds_run (fixed : Bool) (n : Nat) (s : SysRaceSt) (hpc : s.pc = .idle)
    (h1 : s.tickLive = 0) (h2 : s.errLive = 0) :
    (s.run fixed (List.replicate n sysTickRound).flatten).pc = .idle ∧
    (s.run fixed (List.replicate n sysTickRound).flatten).tickLive = 0 ∧
    (s.run fixed (List.replicate n sysTickRound).flatten).errLive = 0 ∧
    (s.run fixed (List.replicate n sysTickRound).flatten).orphanErr =
      s.orphanErr + (if fixed then 0 else n) ∧
    (s.run fixed (List.replicate n sysTickRound).flatten).ticks = s.ticks + n ∧
    (s.run fixed (List.replicate n sysTickRound).flatten).orphanTick = s.orphanTick := by
  induction n generalizing s with
  | zero => simp [SysRaceSt.run, hpc, h1, h2]
  | succ n ih =>
    obtain ⟨a1, a2, a3, a4, a5, a6⟩ := sysTickRound_run fixed s hpc h1 h2
    have := ih (s.run fixed sysTickRound) a1 a2 a3
    rw [List.replicate_succ, List.flatten_cons, SysRaceSt.run_append]
    rw [a4, a5, a6] at this
    refine ⟨this.1, this.2.1, this.2.2.1, ?_, ?_, this.2.2.2.2.2⟩
    · rw [this.2.2.2.1]; cases fixed <;> simp <;> omega
    · rw [this.2.2.2.2.1]; omega

/-! ## the TCP io -/

/-- per connection: every stored handle belongs to an unfinished task, a closed connection
has nothing. -/
def ConnGood (c : TcpConn) : Prop := c.held = c.inFlight ∧ (c.pc = .closed → c.inFlight = 0)

def TcpGood (s : TcpSt) : Prop := (∀ c ∈ s.conns, ConnGood c) ∧ s.legacyHeld = 0

theorem TcpGood.init : TcpGood {} := ⟨by simp, rfl⟩

theorem TcpGood.step {s s' : TcpSt} {a : TcpAct} (h : TcpGood s)
    (hs : s.step true a = some s') : TcpGood s' := by
  obtain ⟨hc, hl⟩ := h
  cases a with
  | connect =>
    simp only [TcpSt.step, Option.some.injEq] at hs; subst hs
    refine ⟨?_, by simpa using hl⟩
    intro c hm
    simp only [List.mem_append, List.mem_singleton] at hm
    rcases hm with hm | rfl
    · exact hc c hm
    · simp [ConnGood, TcpConn.spawn]
  | chunk i =>
    simp only [TcpSt.step] at hs
    split at hs
    · rename_i c hget
      split at hs
      · rename_i hpc
        simp only [Option.some.injEq] at hs; subst hs
        refine ⟨?_, by simpa using hl⟩
        have hg := hc c (List.mem_of_getElem? hget)
        apply rr_forall_set ConnGood _ _ _ hc
        simp [ConnGood, TcpConn.spawn, hg.1, hpc]
      · simp at hs
    · simp at hs
  | replyDone i =>
    simp only [TcpSt.step] at hs
    split at hs
    · rename_i c hget
      split at hs
      · rename_i hpos
        simp only [Option.some.injEq] at hs; subst hs
        refine ⟨?_, hl⟩
        have hg := hc c (List.mem_of_getElem? hget)
        apply rr_forall_set ConnGood _ _ _ hc
        refine ⟨by simp [TcpConn.done, hg.1], ?_⟩
        intro hcl
        have := hg.2 (by simpa [TcpConn.done] using hcl)
        omega
      · simp at hs
    · simp at hs
  | eof i =>
    simp only [TcpSt.step] at hs
    split at hs
    · rename_i c hget
      split at hs
      · simp only [Option.some.injEq] at hs; subst hs
        refine ⟨?_, hl⟩
        have hg := hc c (List.mem_of_getElem? hget)
        apply rr_forall_set ConnGood _ _ _ hc
        exact ⟨hg.1, by simp⟩
      · simp at hs
    · simp at hs
  | finish i =>
    simp only [TcpSt.step, ↓reduceIte] at hs
    split at hs
    · rename_i c hget
      split at hs
      · rename_i hcond
        simp only [Option.some.injEq] at hs; subst hs
        refine ⟨?_, hl⟩
        have hg := hc c (List.mem_of_getElem? hget)
        apply rr_forall_set ConnGood _ _ _ hc
        exact ⟨hg.1, fun _ => by simpa using hcond.2⟩
      · simp at hs
    · simp at hs

theorem TcpGood.run {s : TcpSt} (h : TcpGood s) (acts : List TcpAct) :
    TcpGood (s.run true acts) := by
  induction acts generalizing s with
  | nil => exact h
  | cons a as ih =>
    simp only [TcpSt.run]
    split
    · rename_i s' hs; exact ih (h.step hs)
    · exact ih h

theorem TcpGood.retained_eq {s : TcpSt} (h : TcpGood s) : s.retained = s.replyLive := by
  simp only [TcpSt.retained, TcpSt.replyLive, h.2, Nat.add_zero]
  exact rr_sum_map_congr _ _ _ (fun c hc => (h.1 c hc).1)

theorem TcpGood.replyLive_eq {s : TcpSt} (h : TcpGood s) : s.replyLive = s.replyLiveOpen := by
  simp only [TcpSt.replyLive, TcpSt.replyLiveOpen]
  refine (rr_sum_filter _ _ _ ?_).symm
  intro c hc hp
  exact (h.1 c hc).2 (by simpa using hp)

/-! ### growth of the old server-wide list -/

theorem TcpSt.run_append (fixed : Bool) (s : TcpSt) (l1 l2 : List TcpAct) :
    s.run fixed (l1 ++ l2) = (s.run fixed l1).run fixed l2 := by
  induction l1 generalizing s with
  | nil => rfl
  | cons a as ih =>
    simp only [List.cons_append, TcpSt.run]
    split <;> exact ih _

theorem tcpRound_old (k m : Nat) :
    (({ conns := [{ pc := .reading, inFlight := 0, held := 0, chunks := k }], legacyHeld := m } :
      TcpSt).run false [.chunk 0, .replyDone 0]) =
    { conns := [{ pc := .reading, inFlight := 0, held := 0, chunks := k + 1 }],
      legacyHeld := m + 1 } := by
  simp [TcpSt.run, TcpSt.step, TcpConn.spawn, TcpConn.done]

theorem tcpRounds_old (n k m : Nat) :
    (({ conns := [{ pc := .reading, inFlight := 0, held := 0, chunks := k }], legacyHeld := m } :
      TcpSt).run false (List.replicate n [TcpAct.chunk 0, .replyDone 0]).flatten) =
    { conns := [{ pc := .reading, inFlight := 0, held := 0, chunks := k + n }],
      legacyHeld := m + n } := by
  induction n generalizing k m with
  | zero => simp [TcpSt.run]
  | succ n ih =>
    rw [List.replicate_succ, List.flatten_cons, TcpSt.run_append, tcpRound_old, ih]
    have e1 : k + 1 + n = k + (n + 1) := by omega
    have e2 : m + 1 + n = m + (n + 1) := by omega
    rw [e1, e2]

theorem tcpChatter_old (n : Nat) :
    (({} : TcpSt).run false (tcpChatter n)) =
    { conns := [{ pc := .reading, inFlight := 0, held := 0, chunks := n }],
      legacyHeld := n + 1 } := by
  have h0 : ({} : TcpSt).run false [.connect, .replyDone 0] =
      { conns := [{ pc := .reading, inFlight := 0, held := 0, chunks := 0 }], legacyHeld := 1 } := by
    simp [TcpSt.run, TcpSt.step, TcpConn.spawn, TcpConn.done]
  rw [tcpChatter, TcpSt.run_append, h0, tcpRounds_old]
  have e1 : 0 + n = n := by omega
  have e2 : 1 + n = n + 1 := by omega
  rw [e1, e2]

theorem tcpRound_new (k : Nat) :
    (({ conns := [{ pc := .reading, inFlight := 0, held := 0, chunks := k }], legacyHeld := 0 } :
      TcpSt).run true [.chunk 0, .replyDone 0]) =
    { conns := [{ pc := .reading, inFlight := 0, held := 0, chunks := k + 1 }],
      legacyHeld := 0 } := by
  simp [TcpSt.run, TcpSt.step, TcpConn.spawn, TcpConn.done]

theorem tcpRounds_new (n k : Nat) :
    (({ conns := [{ pc := .reading, inFlight := 0, held := 0, chunks := k }], legacyHeld := 0 } :
      TcpSt).run true (List.replicate n [TcpAct.chunk 0, .replyDone 0]).flatten) =
    { conns := [{ pc := .reading, inFlight := 0, held := 0, chunks := k + n }],
      legacyHeld := 0 } := by
  induction n generalizing k with
  | zero => simp [TcpSt.run]
  | succ n ih =>
    rw [List.replicate_succ, List.flatten_cons, TcpSt.run_append, tcpRound_new, ih]
    have e1 : k + 1 + n = k + (n + 1) := by omega
    rw [e1]

theorem tcpChatter_new (n : Nat) :
    (({} : TcpSt).run true (tcpChatter n)) =
    { conns := [{ pc := .reading, inFlight := 0, held := 0, chunks := n }], legacyHeld := 0 } := by
  have h0 : ({} : TcpSt).run true [.connect, .replyDone 0] =
      { conns := [{ pc := .reading, inFlight := 0, held := 0, chunks := 0 }], legacyHeld := 0 } := by
    simp [TcpSt.run, TcpSt.step, TcpConn.spawn, TcpConn.done]
  rw [tcpChatter, TcpSt.run_append, h0, tcpRounds_new]
  have e1 : 0 + n = n := by omega
  rw [e1]

end Tickit
