/-
Lemmas for the resource-annotated master run loop (`Core/MasterLoopRes.lean`): erasure to the
flag protocol, the inductive resource invariant, the growth of the pre-repair variant.
-/
import TickitModel.Core.MasterLoopRes
import TickitModel.Lemmas.MasterLoopLemmas

namespace Tickit

/-! ### small facts about `sinsert`, keys, lengths -/

theorem res_mem_sinsert {α : Type} [DecidableEq α] (s : List α) (x y : α) :
    y ∈ sinsert s x ↔ y ∈ s ∨ y = x := by
  unfold sinsert
  split
  · constructor
    · exact Or.inl
    · rintro (h | rfl)
      · exact h
      · assumption
  · simp

theorem res_nodup_sinsert {α : Type} [DecidableEq α] {s : List α} (h : s.Nodup) (x : α) :
    (sinsert s x).Nodup := by
  unfold sinsert
  split
  · exact h
  · rename_i hx
    rw [List.nodup_append]
    refine ⟨h, by simp, ?_⟩
    intro a ha b hb
    simp only [List.mem_singleton] at hb
    subst hb
    intro hab
    exact hx (hab ▸ ha)

theorem res_mem_keys_addWakeup (w : Wakeups) (c : Comp) (t : SimTime) (x : Comp) :
    x ∈ (addWakeup w c t).map (·.1) ↔ x ∈ w.map (·.1) ∨ x = c := by
  unfold addWakeup
  rw [keys_upsert]
  split
  · rename_i h
    constructor
    · exact Or.inl
    · rintro (h' | rfl)
      · exact h'
      · exact h
  · simp

theorem res_mem_keys_delWakeups (w : Wakeups) (h : UniqueKeys w) (cs : List Comp) (x : Comp) :
    x ∈ (delWakeups w cs).map (·.1) ↔ x ∈ w.map (·.1) ∧ x ∉ cs := by
  rw [← ms_alookup_isSome_iff, ← ms_alookup_isSome_iff, delWakeups_lookup' w h]
  by_cases hx : x ∈ cs <;> simp [hx]

/-! ### erasure -/

theorem MResSt.choose_st (s : MResSt) : s.choose.st = s.st.choose := by
  unfold MResSt.choose
  split <;> rfl

theorem MResSt.serveFirst_st (s : MResSt) : s.serveFirst.st = s.st.serveFirst := by
  unfold MResSt.serveFirst
  split <;> rfl

theorem MResSt.loseCurrent_st (c : Bool) (s : MResSt) : (s.loseCurrent c).st = s.st := by
  unfold MResSt.loseCurrent
  split <;> rfl

theorem MResSt.loseNew_st (c : Bool) (s : MResSt) : (s.loseNew c).st = s.st := by
  unfold MResSt.loseNew
  split <;> rfl

/-- a visible step of the annotated machine is exactly the step of the flag protocol. -/
theorem MResSt.step_erase (cancelLoser : Bool) (s : MResSt) (a : MResAct) (b : MLoopAct)
    (h : a.erase = some b) : (s.step cancelLoser a).map (·.st) = s.st.step true b := by
  cases a with
  | orphanSleepExpires => simp [MResAct.erase] at h
  | interrupt c t =>
    simp only [MResAct.erase, Option.some.injEq] at h
    subst h
    simp only [MResSt.step, MLoopSt.step]
    split <;> simp [MResSt.addWakeup]
  | loop a =>
    simp only [MResAct.erase, Option.some.injEq] at h
    subst h
    cases a with
    | addWakeup c t =>
      simp only [MResSt.step, MLoopSt.step]
      split <;> simp [MResSt.addWakeup]
    | newTaskRuns =>
      simp only [MResSt.step, MLoopSt.step]
      split <;> simp
    | sleepExpires =>
      simp only [MResSt.step, MLoopSt.step]
      split <;> simp_all
    | step =>
      simp only [MResSt.step, MLoopSt.step]
      split
      · split <;> simp_all [MResSt.choose_st]
      · split <;> simp_all
      · split <;> simp_all [MResSt.loseCurrent_st]
      · split <;> simp_all [MResSt.serveFirst_st, MResSt.loseNew_st]
      · simp_all
      · simp_all

theorem MResSt.step_erase_some {cancelLoser : Bool} {s s' : MResSt} {a : MResAct} {b : MLoopAct}
    (h : a.erase = some b) (hs : s.step cancelLoser a = some s') :
    s.st.step true b = some s'.st := by
  rw [← MResSt.step_erase cancelLoser s a b h, hs]
  rfl

/-- an invisible step leaves the flag protocol's state alone. -/
theorem MResSt.step_erase_none {cancelLoser : Bool} {s s' : MResSt} {a : MResAct}
    (h : a.erase = none) (hs : s.step cancelLoser a = some s') : s'.st = s.st := by
  cases a with
  | loop a => simp [MResAct.erase] at h
  | interrupt c t => simp [MResAct.erase] at h
  | orphanSleepExpires =>
    simp only [MResSt.step] at hs
    split at hs
    · simp only [Option.some.injEq] at hs; subst hs; rfl
    · simp at hs

theorem MResSt.run_erase (cancelLoser : Bool) (s : MResSt) (acts : List MResAct) :
    (s.run cancelLoser acts).st = s.st.run true (acts.filterMap MResAct.erase) := by
  induction acts generalizing s with
  | nil => rfl
  | cons a as ih =>
    simp only [MResSt.run]
    cases he : a.erase with
    | none =>
      simp only [List.filterMap_cons, he]
      cases hs : s.step cancelLoser a with
      | none => exact ih s
      | some s' =>
        simp only []
        rw [ih s', MResSt.step_erase_none he hs]
    | some b =>
      simp only [List.filterMap_cons, he, MLoopSt.run]
      have := MResSt.step_erase cancelLoser s a b he
      cases hs : s.step cancelLoser a with
      | none =>
        rw [hs] at this
        simp only [Option.map_none] at this
        rw [← this]
        exact ih s
      | some s' =>
        rw [hs] at this
        simp only [Option.map_some] at this
        rw [← this]
        exact ih s'

/-! ### the resource invariant -/

/-- the sleep of the race is still running -/
def MLoopPc.curLive : MLoopPc → Nat
  | .sleeping _ _ => 1
  | _ => 0

/-- the waiter of the race has not finished -/
def MLoopSt.newLive (st : MLoopSt) : Nat := if st.pc.isRacing && !st.flagTaskDone then 1 else 0

/-- the part of the invariant that holds with and without cancellation of the loser. -/
structure ResBase (s : MResSt) : Prop where
  loop : LoopBase s.st
  cur : s.raceCur = s.st.pc.curLive
  timer : s.raceTimer = s.st.pc.curLive
  new : s.raceNew = s.st.newLive
  keysAdded : ∀ c ∈ s.st.wake.map (·.1), c ∈ s.everAdded
  addedNodup : s.everAdded.Nodup
  irqKeys : ∀ c ∈ s.irq, c ∈ s.st.wake.map (·.1)
  irqNodup : s.irq.Nodup

theorem ResBase.init : ResBase {} :=
  ⟨LoopBase.init, rfl, rfl, rfl, by simp, by simp, by simp, by simp⟩

theorem ResBase.addWakeup {s : MResSt} (h : ResBase s) (hl : LoopBase (s.addWakeup c t).st) :
    ResBase (s.addWakeup c t) := by
  refine ⟨hl, h.cur, h.timer, ?_, ?_, res_nodup_sinsert h.addedNodup c, ?_, h.irqNodup⟩
  · have := h.new
    simp only [MResSt.addWakeup, MLoopSt.newLive] at this ⊢
    exact this
  · intro x hx
    simp only [MResSt.addWakeup] at hx ⊢
    rw [res_mem_sinsert]
    rcases (res_mem_keys_addWakeup _ _ _ _).mp hx with hx | hx
    · exact Or.inl (h.keysAdded x hx)
    · exact Or.inr hx
  · intro x hx
    simp only [MResSt.addWakeup] at hx ⊢
    exact (res_mem_keys_addWakeup _ _ _ _).mpr (Or.inl (h.irqKeys x hx))

theorem MLoopSt.choose_wake (st : MLoopSt) : st.choose.wake = st.wake := by
  unfold MLoopSt.choose
  split <;> rfl

theorem ResBase.choose {s : MResSt} (h : ResBase s) (hpc : s.st.pc.isRacing = false)
    (hl : LoopBase s.choose.st) : ResBase s.choose := by
  have hc : s.st.pc.curLive = 0 := by
    cases hp : s.st.pc <;> simp_all [MLoopPc.curLive, MLoopPc.isRacing]
  have hn : s.st.newLive = 0 := by simp [MLoopSt.newLive, hpc]
  have h1 := h.cur
  have h2 := h.timer
  have h3 := h.new
  rw [hc] at h1 h2
  rw [hn] at h3
  have e4 : s.choose.everAdded = s.everAdded := by unfold MResSt.choose; split <;> rfl
  have e5 : s.choose.irq = s.irq := by unfold MResSt.choose; split <;> rfl
  have e6 : s.choose.st.wake = s.st.wake := by rw [MResSt.choose_st, MLoopSt.choose_wake]
  refine ⟨hl, ?_, ?_, ?_, by rw [e4, e6]; exact h.keysAdded, by rw [e4]; exact h.addedNodup,
    by rw [e5, e6]; exact h.irqKeys, by rw [e5]; exact h.irqNodup⟩
  all_goals
    unfold MResSt.choose MLoopSt.choose
    split <;> simp_all [MLoopPc.curLive, MLoopSt.newLive, MLoopPc.isRacing]

theorem ResBase.serveFirst {s : MResSt} (hloop : LoopBase s.st)
    (hka : ∀ c ∈ s.st.wake.map (·.1), c ∈ s.everAdded) (han : s.everAdded.Nodup)
    (hik : ∀ c ∈ s.irq, c ∈ s.st.wake.map (·.1)) (hin : s.irq.Nodup)
    (h1 : s.raceCur = 0) (h2 : s.raceTimer = 0)
    (h3 : s.raceNew = 0) : ResBase s.serveFirst := by
  have h : LoopBase s.st ∧ (∀ c ∈ s.st.wake.map (·.1), c ∈ s.everAdded) ∧ s.everAdded.Nodup ∧
      (∀ c ∈ s.irq, c ∈ s.st.wake.map (·.1)) ∧ s.irq.Nodup := ⟨hloop, hka, han, hik, hin⟩
  have hl : LoopBase s.serveFirst.st := by
    rw [MResSt.serveFirst_st]; exact hloop.serveFirst
  obtain ⟨hr, _⟩ := serveFirst_pc_not_racing s.st
  have hc : s.serveFirst.st.pc.curLive = 0 := by
    rw [MResSt.serveFirst_st]
    cases hp : s.st.serveFirst.pc <;> simp_all [MLoopPc.curLive, MLoopPc.isRacing]
  have hn : s.serveFirst.st.newLive = 0 := by
    rw [MResSt.serveFirst_st]; simp [MLoopSt.newLive, hr]
  have e1 : s.serveFirst.raceCur = s.raceCur := by unfold MResSt.serveFirst; split <;> rfl
  have e2 : s.serveFirst.raceTimer = s.raceTimer := by unfold MResSt.serveFirst; split <;> rfl
  have e3 : s.serveFirst.raceNew = s.raceNew := by unfold MResSt.serveFirst; split <;> rfl
  have e4 : s.serveFirst.everAdded = s.everAdded := by unfold MResSt.serveFirst; split <;> rfl
  refine ⟨hl, by rw [e1, hc, h1], by rw [e2, hc, h2], by rw [e3, hn, h3], ?_, by rw [e4]; exact han,
    ?_, ?_⟩
  · rw [e4]
    intro x hx
    apply hka
    unfold MResSt.serveFirst MLoopSt.serveFirst at hx
    split at hx
    · rename_i cs w hf
      simp only [hf] at hx
      exact ((res_mem_keys_delWakeups _ hloop.uniq cs x).mp hx).1
    · rename_i hf
      simp only [hf] at hx
      exact hx
  · intro x hx
    unfold MResSt.serveFirst MLoopSt.serveFirst at hx ⊢
    split at hx
    · rename_i cs w hf
      simp only [hf] at hx ⊢
      rw [List.mem_filter] at hx
      exact (res_mem_keys_delWakeups _ hloop.uniq cs x).mpr ⟨hik x hx.1, by simpa using hx.2⟩
    · rename_i hf
      simp only [hf] at hx ⊢
      exact hik x hx
  · unfold MResSt.serveFirst
    split
    · exact List.Nodup.sublist List.filter_sublist hin
    · exact hin

theorem ResBase.step {cancelLoser : Bool} {s s' : MResSt} {a : MResAct} (h : ResBase s)
    (hs : s.step cancelLoser a = some s') : ResBase s' := by
  -- the flag protocol's own invariant, through erasure
  have hl : LoopBase s'.st := by
    cases he : a.erase with
    | none => rw [MResSt.step_erase_none he hs]; exact h.loop
    | some b => exact h.loop.step (MResSt.step_erase_some he hs)
  obtain ⟨_, hcur, htim, hnew, hka, han, hik, hin⟩ := h
  have h : ResBase s := ⟨by assumption, hcur, htim, hnew, hka, han, hik, hin⟩
  cases a with
  | orphanSleepExpires =>
    simp only [MResSt.step] at hs
    split at hs
    · simp only [Option.some.injEq] at hs; subst hs
      exact ⟨hl, hcur, htim, hnew, hka, han, hik, hin⟩
    · simp at hs
  | interrupt c t =>
    simp only [MResSt.step] at hs
    split at hs
    · simp at hs
    · simp only [Option.some.injEq] at hs; subst hs
      have hb := h.addWakeup (c := c) (t := t) hl
      refine ⟨hl, hb.cur, hb.timer, hb.new, hb.keysAdded, hb.addedNodup, ?_,
        res_nodup_sinsert hin c⟩
      intro x hx
      simp only [res_mem_sinsert] at hx
      rcases hx with hx | rfl
      · exact hb.irqKeys x hx
      · exact (res_mem_keys_addWakeup _ _ _ _).mpr (Or.inr rfl)
  | loop a =>
    cases a with
    | addWakeup c t =>
      simp only [MResSt.step] at hs
      split at hs
      · simp at hs
      · simp only [Option.some.injEq] at hs; subst hs
        exact h.addWakeup hl
    | newTaskRuns =>
      simp only [MResSt.step] at hs
      split at hs
      · rename_i hc
        simp only [Bool.and_eq_true] at hc
        simp only [Option.some.injEq] at hs; subst hs
        refine ⟨hl, hcur, htim, ?_, hka, han, hik, hin⟩
        simp only [MLoopSt.newLive] at hnew ⊢
        rw [hnew]
        cases hd : s.st.flagTaskDone <;> simp [hc.1]
      · simp at hs
    | sleepExpires =>
      simp only [MResSt.step] at hs
      split at hs
      · rename_i cs w hpc
        simp only [Option.some.injEq] at hs; subst hs
        refine ⟨hl, ?_, ?_, ?_, hka, han, hik, hin⟩
        · simp [hcur, hpc, MLoopPc.curLive]
        · simp [htim, hpc, MLoopPc.curLive]
        · simpa [MLoopSt.newLive, hpc, MLoopPc.isRacing] using hnew
      · simp at hs
    | step =>
      simp only [MResSt.step] at hs
      split at hs
      · -- top
        rename_i hpc
        split at hs
        · simp only [Option.some.injEq] at hs; subst hs
          refine ⟨hl, ?_, ?_, ?_, hka, han, hik, hin⟩
          · simpa [hpc, MLoopPc.curLive] using hcur
          · simpa [hpc, MLoopPc.curLive] using htim
          · simpa [hpc, MLoopSt.newLive, MLoopPc.isRacing] using hnew
        · simp only [Option.some.injEq] at hs; subst hs
          exact h.choose (by simp [hpc, MLoopPc.isRacing]) hl
      · -- waiting
        rename_i hpc
        split at hs
        · simp only [Option.some.injEq] at hs; subst hs
          refine ⟨hl, ?_, ?_, ?_, hka, han, hik, hin⟩
          · simpa [hpc, MLoopPc.curLive] using hcur
          · simpa [hpc, MLoopPc.curLive] using htim
          · simpa [hpc, MLoopSt.newLive, MLoopPc.isRacing] using hnew
        · simp at hs
      · -- sleeping, pre-empted
        rename_i cs w hpc
        split at hs
        · rename_i hd
          simp only [Option.some.injEq] at hs; subst hs
          simp only [hpc, MLoopPc.curLive] at hcur htim
          simp only [MLoopSt.newLive, hpc, MLoopPc.isRacing, hd] at hnew
          unfold MResSt.loseCurrent
          cases cancelLoser
          · exact ⟨hl, by simp [hcur, MLoopPc.curLive], by simp [htim, MLoopPc.curLive],
              by simpa [MLoopSt.newLive, MLoopPc.isRacing] using hnew, hka, han, hik, hin⟩
          · exact ⟨hl, by simp [hcur, MLoopPc.curLive], by simp [htim, MLoopPc.curLive],
              by simpa [MLoopSt.newLive, MLoopPc.isRacing] using hnew, hka, han, hik, hin⟩
        · simp at hs
      · -- sleptNotResumed
        rename_i cs w hpc
        split at hs
        · rename_i hd
          simp only [Option.some.injEq] at hs; subst hs
          simp only [hpc, MLoopPc.curLive] at hcur htim
          simp only [MLoopSt.newLive, hpc, MLoopPc.isRacing, hd] at hnew
          exact ⟨hl, by simp [hcur, MLoopPc.curLive], by simp [htim, MLoopPc.curLive],
              by simpa [MLoopSt.newLive, MLoopPc.isRacing] using hnew, hka, han, hik, hin⟩
        · rename_i hd
          simp only [Option.some.injEq] at hs; subst hs
          simp only [hpc, MLoopPc.curLive] at hcur htim
          simp only [MLoopSt.newLive, hpc, MLoopPc.isRacing, hd] at hnew
          have e0 : (MResSt.loseNew cancelLoser s).st = s.st := MResSt.loseNew_st _ _
          have e1 : (MResSt.loseNew cancelLoser s).raceCur = s.raceCur := by
            unfold MResSt.loseNew; split <;> rfl
          have e2 : (MResSt.loseNew cancelLoser s).raceTimer = s.raceTimer := by
            unfold MResSt.loseNew; split <;> rfl
          have e3 : (MResSt.loseNew cancelLoser s).raceNew = s.raceNew - 1 := by
            unfold MResSt.loseNew; split <;> rfl
          have e4 : (MResSt.loseNew cancelLoser s).everAdded = s.everAdded := by
            unfold MResSt.loseNew; split <;> rfl
          have e5 : (MResSt.loseNew cancelLoser s).irq = s.irq := by
            unfold MResSt.loseNew; split <;> rfl
          apply ResBase.serveFirst
          · rw [e0]; exact h.loop
          · rw [e0, e4]; exact hka
          · rw [e4]; exact han
          · rw [e0, e5]; exact hik
          · rw [e5]; exact hin
          · rw [e1, hcur]
          · rw [e2, htim]
          · rw [e3, hnew]; simp
      · -- ticking
        rename_i hpc
        simp only [Option.some.injEq] at hs; subst hs
        refine ⟨hl, ?_, ?_, ?_, hka, han, hik, hin⟩
        · simpa [hpc, MLoopPc.curLive] using hcur
        · simpa [hpc, MLoopPc.curLive] using htim
        · simpa [hpc, MLoopSt.newLive, MLoopPc.isRacing] using hnew
      · simp at hs

theorem ResBase.run {cancelLoser : Bool} {s : MResSt} (h : ResBase s) (acts : List MResAct) :
    ResBase (s.run cancelLoser acts) := by
  induction acts generalizing s with
  | nil => exact h
  | cons a as ih =>
    simp only [MResSt.run]
    split
    · rename_i s' hs; exact ih (h.step hs)
    · exact ih h

/-! ### consequences of the invariant -/

theorem ResBase.race_le {s : MResSt} (h : ResBase s) :
    s.raceNew ≤ 1 ∧ s.raceCur ≤ 1 ∧ s.raceTimer ≤ 1 := by
  refine ⟨?_, ?_, ?_⟩
  · rw [h.new]; unfold MLoopSt.newLive; split <;> omega
  · rw [h.cur]; cases s.st.pc <;> simp [MLoopPc.curLive]
  · rw [h.timer]; cases s.st.pc <;> simp [MLoopPc.curLive]

theorem ResBase.race_zero {s : MResSt} (h : ResBase s) (hr : s.st.pc.isRacing = false) :
    s.raceNew = 0 ∧ s.raceCur = 0 ∧ s.raceTimer = 0 := by
  refine ⟨?_, ?_, ?_⟩
  · rw [h.new]; simp [MLoopSt.newLive, hr]
  · rw [h.cur]; cases hp : s.st.pc <;> simp_all [MLoopPc.curLive, MLoopPc.isRacing]
  · rw [h.timer]; cases hp : s.st.pc <;> simp_all [MLoopPc.curLive, MLoopPc.isRacing]

theorem ResBase.wake_le {s : MResSt} (h : ResBase s) : s.st.wake.length ≤ s.everAdded.length := by
  have := List.Nodup.length_le_of_subset h.loop.uniq (fun x hx => h.keysAdded x hx)
  simpa using this

theorem ResBase.irq_le {s : MResSt} (h : ResBase s) : s.irq.length ≤ s.st.wake.length := by
  have := List.Nodup.length_le_of_subset h.irqNodup (fun x hx => h.irqKeys x hx)
  simpa using this

/-! ### with cancellation nothing is ever abandoned -/

theorem MResSt.step_orphans_true {s s' : MResSt} {a : MResAct} (hs : s.step true a = some s') :
    s'.orphanNew ≤ s.orphanNew ∧ s'.orphanCur ≤ s.orphanCur ∧ s'.orphanTimer ≤ s.orphanTimer := by
  have hch : s.choose.orphanNew = s.orphanNew ∧ s.choose.orphanCur = s.orphanCur ∧
      s.choose.orphanTimer = s.orphanTimer := by
    unfold MResSt.choose; split <;> simp
  have hsv : ∀ u : MResSt, u.serveFirst.orphanNew = u.orphanNew ∧
      u.serveFirst.orphanCur = u.orphanCur ∧ u.serveFirst.orphanTimer = u.orphanTimer := by
    intro u; unfold MResSt.serveFirst; split <;> simp
  cases a with
  | orphanSleepExpires =>
    simp only [MResSt.step] at hs
    split at hs
    · simp only [Option.some.injEq] at hs; subst hs; simp
    · simp at hs
  | interrupt c t =>
    simp only [MResSt.step] at hs
    split at hs
    · simp at hs
    · simp only [Option.some.injEq] at hs; subst hs; simp [MResSt.addWakeup]
  | loop a =>
    cases a with
    | addWakeup c t =>
      simp only [MResSt.step] at hs
      split at hs
      · simp at hs
      · simp only [Option.some.injEq] at hs; subst hs; simp [MResSt.addWakeup]
    | newTaskRuns =>
      simp only [MResSt.step] at hs
      split at hs
      · simp only [Option.some.injEq] at hs; subst hs; simp
      · simp at hs
    | sleepExpires =>
      simp only [MResSt.step] at hs
      split at hs
      · simp only [Option.some.injEq] at hs; subst hs; simp
      · simp at hs
    | step =>
      simp only [MResSt.step] at hs
      split at hs
      · split at hs
        · simp only [Option.some.injEq] at hs; subst hs; simp
        · simp only [Option.some.injEq] at hs; subst hs; simp [hch]
      · split at hs
        · simp only [Option.some.injEq] at hs; subst hs; simp
        · simp at hs
      · split at hs
        · simp only [Option.some.injEq] at hs; subst hs; simp [MResSt.loseCurrent]
        · simp at hs
      · split at hs
        · simp only [Option.some.injEq] at hs; subst hs; simp
        · simp only [Option.some.injEq] at hs; subst hs
          simp [hsv, MResSt.loseNew]
      · simp only [Option.some.injEq] at hs; subst hs; simp
      · simp at hs

theorem MResSt.run_orphans_true (s : MResSt) (acts : List MResAct) :
    (s.run true acts).orphanNew ≤ s.orphanNew ∧ (s.run true acts).orphanCur ≤ s.orphanCur ∧
    (s.run true acts).orphanTimer ≤ s.orphanTimer := by
  induction acts generalizing s with
  | nil => simp [MResSt.run]
  | cons a as ih =>
    simp only [MResSt.run]
    split
    · rename_i s' hs
      have h1 := MResSt.step_orphans_true hs
      have h2 := ih s'
      omega
    · exact ih s

/-! ### the components ever added are those named in the history -/

theorem MResSt.step_everAdded {cancelLoser : Bool} {s s' : MResSt} {a : MResAct}
    (hs : s.step cancelLoser a = some s') :
    ∀ x ∈ s'.everAdded, x ∈ s.everAdded ∨ x ∈ addedComps [a] := by
  have hch : s.choose.everAdded = s.everAdded := by unfold MResSt.choose; split <;> rfl
  have hsv : ∀ u : MResSt, u.serveFirst.everAdded = u.everAdded := by
    intro u; unfold MResSt.serveFirst; split <;> rfl
  have hln : (MResSt.loseNew cancelLoser s).everAdded = s.everAdded := by
    unfold MResSt.loseNew; split <;> rfl
  have hlc : ∀ u : MResSt, (MResSt.loseCurrent cancelLoser u).everAdded = u.everAdded := by
    intro u; unfold MResSt.loseCurrent; split <;> rfl
  cases a with
  | orphanSleepExpires =>
    simp only [MResSt.step] at hs
    split at hs
    · simp only [Option.some.injEq] at hs; subst hs; exact fun x hx => Or.inl hx
    · simp at hs
  | interrupt c t =>
    simp only [MResSt.step] at hs
    split at hs
    · simp at hs
    · simp only [Option.some.injEq] at hs; subst hs
      intro x hx
      simp only [MResSt.addWakeup, res_mem_sinsert] at hx
      simpa [addedComps, res_mem_sinsert] using hx
  | loop a =>
    cases a with
    | addWakeup c t =>
      simp only [MResSt.step] at hs
      split at hs
      · simp at hs
      · simp only [Option.some.injEq] at hs; subst hs
        intro x hx
        simp only [MResSt.addWakeup, res_mem_sinsert] at hx
        simpa [addedComps, res_mem_sinsert] using hx
    | newTaskRuns =>
      simp only [MResSt.step] at hs
      split at hs
      · simp only [Option.some.injEq] at hs; subst hs; exact fun x hx => Or.inl hx
      · simp at hs
    | sleepExpires =>
      simp only [MResSt.step] at hs
      split at hs
      · simp only [Option.some.injEq] at hs; subst hs; exact fun x hx => Or.inl hx
      · simp at hs
    | step =>
      simp only [MResSt.step] at hs
      split at hs
      · split at hs
        · simp only [Option.some.injEq] at hs; subst hs; exact fun x hx => Or.inl hx
        · simp only [Option.some.injEq] at hs; subst hs; rw [hch]; exact fun x hx => Or.inl hx
      · split at hs
        · simp only [Option.some.injEq] at hs; subst hs; exact fun x hx => Or.inl hx
        · simp at hs
      · split at hs
        · simp only [Option.some.injEq] at hs; subst hs; rw [hlc]; exact fun x hx => Or.inl hx
        · simp at hs
      · split at hs
        · simp only [Option.some.injEq] at hs; subst hs; exact fun x hx => Or.inl hx
        · simp only [Option.some.injEq] at hs; subst hs
          rw [hsv, hln]; exact fun x hx => Or.inl hx
      · simp only [Option.some.injEq] at hs; subst hs; exact fun x hx => Or.inl hx
      · simp at hs

theorem addedComps_cons (a : MResAct) (as : List MResAct) (x : Comp) :
    x ∈ addedComps (a :: as) ↔ x ∈ addedComps [a] ∨ x ∈ addedComps as := by
  cases a with
  | orphanSleepExpires => simp [addedComps]
  | interrupt c t => simp [addedComps, res_mem_sinsert, or_comm]
  | loop a => cases a <;> simp [addedComps, res_mem_sinsert, or_comm]

theorem addedComps_nodup (acts : List MResAct) : (addedComps acts).Nodup := by
  induction acts with
  | nil => simp [addedComps]
  | cons a as ih =>
    cases a with
    | orphanSleepExpires => simpa [addedComps] using ih
    | interrupt c t => exact res_nodup_sinsert ih c
    | loop a => cases a <;> first | exact res_nodup_sinsert ih _ | simpa [addedComps] using ih

theorem MResSt.run_everAdded (cancelLoser : Bool) (s : MResSt) (acts : List MResAct) :
    ∀ x ∈ (s.run cancelLoser acts).everAdded, x ∈ s.everAdded ∨ x ∈ addedComps acts := by
  induction acts generalizing s with
  | nil => intro x hx; exact Or.inl hx
  | cons a as ih =>
    intro x hx
    simp only [MResSt.run] at hx
    rw [addedComps_cons]
    split at hx
    · rename_i s' hs
      rcases ih s' x hx with h | h
      · rcases MResSt.step_everAdded hs x h with h | h
        · exact Or.inl h
        · exact Or.inr (Or.inl h)
      · exact Or.inr (Or.inr h)
    · rcases ih s x hx with h | h
      · exact Or.inl h
      · exact Or.inr (Or.inr h)

/-! ### without cancellation: every pre-emption of a far sleep abandons a task and a timer -/

theorem res_first_single (far : Comp) (T : SimTime) :
    firstWakeups [(far, T)] = ([far], some T) := by
  simp [firstWakeups, minTime]

theorem res_first_pair (far dev : Comp) (T t : SimTime) (hlt : t < T) :
    firstWakeups [(far, T), (dev, t)] = ([dev], some t) := by
  have h1 : ¬ T ≤ t := Int.not_le.mpr hlt
  have h2 : ¬ T = t := fun h => by subst h; exact Int.lt_irrefl _ hlt
  simp [firstWakeups, minTime, h1, h2]

theorem res_add_pair (far dev : Comp) (T t : SimTime) (hne : far ≠ dev) :
    addWakeup [(far, T)] dev t = [(far, T), (dev, t)] := by
  simp [addWakeup, upsert, hne]

theorem res_del_pair (far dev : Comp) (T t : SimTime) (hne : far ≠ dev) :
    delWakeups [(far, T), (dev, t)] [dev] = [(far, T)] := by
  simp [delWakeups, aerase, hne]

theorem preemptRound_run (far dev : Comp) (T t : SimTime) (hne : far ≠ dev) (hlt : t < T)
    (s : MResSt) (hpc : s.st.pc = .top) (hw : s.st.wake = [(far, T)])
    (h1 : s.raceNew = 0) (h2 : s.raceCur = 0) (h3 : s.raceTimer = 0) :
    (s.run false (preemptRound dev t)).st.pc = .top ∧
    (s.run false (preemptRound dev t)).st.wake = [(far, T)] ∧
    (s.run false (preemptRound dev t)).raceNew = 0 ∧
    (s.run false (preemptRound dev t)).raceCur = 0 ∧
    (s.run false (preemptRound dev t)).raceTimer = 0 ∧
    (s.run false (preemptRound dev t)).orphanCur = s.orphanCur + 1 ∧
    (s.run false (preemptRound dev t)).orphanTimer = s.orphanTimer + 1 := by
  simp [preemptRound, MResSt.run, MResSt.step, hpc, hw, MResSt.choose, MLoopSt.choose,
    res_first_single, res_first_pair, res_add_pair, res_del_pair, hne, hlt, MResSt.addWakeup,
    MLoopPc.isRacing, MResSt.loseCurrent, MResSt.loseNew, MResSt.serveFirst, MLoopSt.serveFirst,
    h1, h2, h3]

theorem MResSt.run_append (c : Bool) (s : MResSt) (l1 l2 : List MResAct) :
    s.run c (l1 ++ l2) = (s.run c l1).run c l2 := by
  induction l1 generalizing s with
  | nil => rfl
  | cons a as ih =>
    simp only [List.cons_append, MResSt.run]
    split <;> exact ih _

theorem preemptRounds_run (far dev : Comp) (T t : SimTime) (hne : far ≠ dev) (hlt : t < T)
    (n : Nat) (s : MResSt) (hpc : s.st.pc = .top) (hw : s.st.wake = [(far, T)])
    (h1 : s.raceNew = 0) (h2 : s.raceCur = 0) (h3 : s.raceTimer = 0) :
    (s.run false (List.replicate n (preemptRound dev t)).flatten).st.pc = .top ∧
    (s.run false (List.replicate n (preemptRound dev t)).flatten).raceNew = 0 ∧
    (s.run false (List.replicate n (preemptRound dev t)).flatten).raceCur = 0 ∧
    (s.run false (List.replicate n (preemptRound dev t)).flatten).raceTimer = 0 ∧
    (s.run false (List.replicate n (preemptRound dev t)).flatten).orphanCur = s.orphanCur + n ∧
    (s.run false (List.replicate n (preemptRound dev t)).flatten).orphanTimer = s.orphanTimer + n := by
  induction n generalizing s with
  | zero => simp [MResSt.run, hpc, h1, h2, h3]
  | succ n ih =>
    obtain ⟨a1, a2, a3, a4, a5, a6, a7⟩ := preemptRound_run far dev T t hne hlt s hpc hw h1 h2 h3
    have := ih (s.run false (preemptRound dev t)) a1 a2 a3 a4 a5
    rw [List.replicate_succ, List.flatten_cons, MResSt.run_append]
    rw [a6, a7] at this
    refine ⟨this.1, this.2.1, this.2.2.1, this.2.2.2.1, ?_, ?_⟩
    · rw [this.2.2.2.2.1]; omega
    · rw [this.2.2.2.2.2]; omega

theorem preemptHistory_run (far dev : Comp) (T t : SimTime) (hne : far ≠ dev) (hlt : t < T)
    (n : Nat) :
    (({} : MResSt).run false (preemptHistory far dev T t n)).orphanCur = n ∧
    (({} : MResSt).run false (preemptHistory far dev T t n)).orphanTimer = n ∧
    (({} : MResSt).run false (preemptHistory far dev T t n)).st.pc = .top := by
  have h0 : ({} : MResSt).run false (preemptHistory far dev T t n) =
      (({} : MResSt).addWakeup far T).run false (List.replicate n (preemptRound dev t)).flatten := by
    simp [preemptHistory, MResSt.run, MResSt.step]
  rw [h0]
  have := preemptRounds_run far dev T t hne hlt n (({} : MResSt).addWakeup far T) rfl
    (by simp [MResSt.addWakeup, addWakeup, upsert]) rfl rfl rfl
  refine ⟨?_, ?_, this.1⟩
  · rw [this.2.2.2.2.1]; simp [MResSt.addWakeup]
  · rw [this.2.2.2.2.2]; simp [MResSt.addWakeup]
end Tickit
