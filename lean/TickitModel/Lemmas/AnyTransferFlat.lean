/-
Transfer of the whole-simulation theorems to any-order executions, part 3: the chain

    any-order nested run  ~(SimSt.Equiv)~  FIFO nested run  —(Corr)—  FIFO run of the flattening
                                                            —(Refine.R)—  FlatRun over the resolved wiring

with everything the existing lemma files prove about it kept visible: `Corr` (a system's pending
callback at its parent is the minimum of its inner wakeups; a device's pending callback in its own
scheduler is its entry in the flat master), `Refine.R` (the flat master's wakeups ARE the wakeups of
the `FlatRun` state), and the provenance of the device functions of the `FlatRun` (each value is one
of the recorded responses of that component).  `Props/C09` and `Props/C03Nested` expose only the
observations; the run-level C06 statements need the wakeups as well.
-/
import TickitModel.Lemmas.AnyTransferFifo
import TickitModel.Lemmas.FlattenCorr
import TickitModel.Lemmas.FlattenWake
import TickitModel.Lemmas.RefineRun

namespace Tickit

/-! ### `SchedOK` is a property of the equivalence class -/

theorem SchedOK.of_equiv {S : Static} {a b : SimSt} (h : a.Equiv b) (hb : SchedOK S b) : SchedOK S a where
  started := by
    intro s hs
    obtain ⟨h1, h2⟩ := hb.started s hs
    have hsch := h.sched s
    refine ⟨hsch.first.trans h1, ?_⟩
    apply List.eq_nil_iff_forall_not_mem.2
    intro c hc
    have := (hsch.ints c).1 hc
    rw [h2] at this
    cases this
  wake_sys := by
    intro s P hs hP
    have h1 := h.sched P
    have h2 := h.sched s
    rw [h1.wake s, hb.wake_sys s P hs hP, firstWakeups_snd_congr h2.ua h2.ub h2.wake]
  wake_keys := by
    intro L c hc
    have h1 := h.sched L
    apply hb.wake_keys L c
    rw [← alookup_isSome_iff] at hc ⊢
    rw [← h1.wake c]
    exact hc
  wake_unique := fun L => (h.sched L).ua

/-! ### provenance of the device functions -/

/-- every value of the device function is one of the recorded responses of that component, or the
empty default (component without a recorded response) -/
def OrcResp (orc : Oracle) (dev : DevFn V) : Prop :=
  ∀ c t ins, (dev c t ins).callAt = none ∨
    ∃ (j : Nat) (r : DevResp), (agetD orc c [])[j]? = some r ∧ (dev c t ins).callAt = r.callAt

theorem devOf_orcResp (orc : Oracle) (st : SimSt) : OrcResp orc (Refine.devOf orc st) := by
  intro c t ins
  unfold Refine.devOf
  cases h : (agetD orc c [])[agetD st.count c 0]? with
  | none => exact Or.inl rfl
  | some r => exact Or.inr ⟨_, r, h, rfl⟩

namespace Refine

/-- `masterRun_flat` (`Lemmas/RefineRun.lean`) for an arbitrary property `P` of the oracle-derived
device functions instead of `DevExt`: the same induction, the device function of tick `n + 1` is
`devOf orc (state before the tick)`. -/
theorem masterRun_flatP {S : Static} (hsys : S.systems = []) {L : Level} (hL : S.level "" = some L)
    {orc : Oracle} (P : DevFn V → Prop) (hP : ∀ st, P (devOf orc st))
    {fuel : Nat} (sp : Speed) {t0 : SimTime} {m2 : MasterSt} {ticks : List TickRec} :
    ∀ (steps nTicks : Nat) (m : MasterSt) (acc : List TickRec) (devs : DevSeq V) (n : Nat)
      (fl : FlatSt V) (times : List SimTime),
      FlatRun L.wiring devs t0 n fl times → (∀ k, P (devs k)) → R m.sim fl → acc.length = n + 1 →
      times = (acc.map (·.time)).reverse →
      masterRun S orc fuel sp steps nTicks m [] acc = .ok (m2, ticks) →
      ∃ (devs' : DevSeq V) (fl' : FlatSt V) (times' : List SimTime),
        FlatRun L.wiring devs' t0 (ticks.length - 1) fl' times' ∧ R m2.sim fl' ∧
        times' = (ticks.map (·.time)).reverse ∧ ∀ k, P (devs' k) := by
  intro steps
  induction steps with
  | zero =>
    intro nTicks m acc devs n fl times hrun hext hR hlen htimes h
    rw [masterRun] at h
    simp only [Except.ok.injEq, Prod.mk.injEq] at h
    obtain ⟨rfl, rfl⟩ := h
    refine ⟨devs, fl, times, ?_, hR, htimes, hext⟩
    rw [hlen]; exact hrun
  | succ steps ih =>
    intro nTicks m acc devs n fl times hrun hext hR hlen htimes h
    cases nTicks with
    | zero =>
      rw [masterRun.eq_2 _ _ _ _ _ _ _ _ (by simp)] at h
      simp only [Except.ok.injEq, Prod.mk.injEq] at h
      obtain ⟨rfl, rfl⟩ := h
      refine ⟨devs, fl, times, ?_, hR, htimes, hext⟩
      rw [hlen]; exact hrun
    | succ nTicks =>
      rw [masterRun_no_stims] at h
      cases hfw : firstWakeups (m.sim.sched "").wake with
      | mk comps whenT =>
        rw [hfw] at h
        cases whenT with
        | none =>
          simp only [Except.ok.injEq, Prod.mk.injEq] at h
          obtain ⟨rfl, rfl⟩ := h
          refine ⟨devs, fl, times, ?_, hR, htimes, hext⟩
          rw [hlen]; exact hrun
        | some w =>
          simp only [] at h
          split at h
          · cases h
          · rename_i sim2 out htick
            obtain ⟨fl2, hrun2, hR2⟩ := tickLevel_flat hsys hL (hR.delWake comps) htick
            let devs' : DevSeq V := fun k => if k = n + 1 then devOf orc (m.sim.delWake comps) else devs k
            have hfw' : firstWakeups fl.wake = (comps, some w) := by rw [hR.wake]; exact hfw
            have hrun' : FlatRun L.wiring devs' t0 (n + 1) fl2 (w :: times) := by
              refine .tick (flatRun_congr hrun (fun k hk => ?_)) hfw' ?_
              · simp only [devs']
                rw [if_neg (by omega)]
              · simp only [devs', if_true]
                exact hrun2
            have hext' : ∀ k, P (devs' k) := by
              intro k
              simp only [devs']
              split
              · exact hP _
              · exact hext k
            refine ih nTicks _ _ devs' (n + 1) fl2 (w :: times) hrun' hext' hR2 ?_ ?_ h
            · simp [hlen]
            · simp [htimes]

end Refine

/-! ### the chain for a FIFO nested run -/

/-- a completed FIFO nested run (initial tick + callback ticks), its flattening's FIFO run and the
`FlatRun` over the resolved wiring, with the relations between the three end states -/
theorem fifo_run_corr_flat {S : Static} (hS : S.Valid) {orc : Oracle} {n : Nat}
    (hst : S.ResolveStable n) {fuel : Nat} {t0 : SimTime} {now : Int} {sp : Speed}
    {steps nTicks : Nat} {m m2 : MasterSt} {tr : TickRec} {ticks : List TickRec}
    (h : masterInitial S orc fuel t0 now = .ok (m, tr))
    (h2 : masterRun S orc fuel sp steps nTicks m [] [tr] = .ok (m2, ticks)) :
    ∃ (m2' : MasterSt) (devs : DevSeq V) (fl : FlatSt V) (times : List SimTime),
      Corr S m2.sim m2'.sim ∧ Refine.R m2'.sim fl ∧
      FlatRun (Wiring.fromInverse (S.flatInverse n)) devs t0 (ticks.length - 1) fl times ∧
      times = (ticks.map (·.time)).reverse ∧ (∀ k, DevExt (devs k)) ∧ (∀ k, OrcResp orc (devs k)) ∧
      (S.flatten n).Valid := by
  obtain ⟨m', tr', h', _⟩ := nesting_transparent_initial_core S hS orc fuel n hst t0 now m tr h
  have hrank := (masterInitial_facts hS hst h).flatRank
  have hc := corr_initial hS hst hrank h h'
  obtain ⟨c1, c2, c3, c4, c5⟩ := masterInitial_clock h
  obtain ⟨c1', c2', c3', c4', c5'⟩ := masterInitial_clock h'
  obtain ⟨m2', ticks', hrun, ht, _, hc2⟩ := masterRun_corr hS hst hrank sp steps nTicks m m' [tr] [tr'] hc
    ⟨c1.trans c1'.symm, c2.trans c2'.symm, c3.trans c3'.symm⟩ (by simp [c4, c4']) (by simp [c5, c5'])
    m2 ticks h2
  have hsys : (S.flatten n).systems = [] := rfl
  have hL : (S.flatten n).level "" = some ⟨"", Wiring.fromInverse (S.flatInverse n)⟩ := rfl
  obtain ⟨fl0, hrun0, hR0, htr0, _⟩ := Refine.masterInitial_flat hsys hL h'
  let P : DevFn V → Prop := fun dev => DevExt dev ∧ OrcResp orc dev
  have hP : ∀ st, P (Refine.devOf orc st) := fun st => ⟨Refine.devOf_ext orc st, devOf_orcResp orc st⟩
  obtain ⟨devs, fl, times, hfr, hR, htimes, hPd⟩ := Refine.masterRun_flatP hsys hL P hP sp steps nTicks m'
    [tr'] _ 0 fl0 [t0] hrun0 (fun _ => hP {}) hR0 rfl (by simp [htr0]) hrun
  have hlen : ticks.length = ticks'.length := by
    have := congrArg List.length ht
    simpa using this
  refine ⟨m2', devs, fl, times, hc2, hR, ?_, ?_, fun k => (hPd k).1, fun k => (hPd k).2,
    hS.flatten hrank⟩
  · rw [hlen]; exact hfr
  · rw [htimes, ht]

end Tickit
