/-
History invariants of the message-level model of a tick: the log of `in c` is exactly what the
scheduler dispatched to `c`; what `c` has handled is exactly the consumed part of that log; a
component that has not started has consumed nothing; every reaction follows its own dispatch.
-/
import TickitModel.Lemmas.MsgFlatSim

set_option autoImplicit false

namespace Tickit

variable {Val : Type}

/-! ### the shape of the steps -/

theorem MsgSt.step_startSched_ok {w : Wiring} {rx : MsgReact Val} {t : SimTime} {roots : List Comp}
    {m m' : MsgSt Val} (h : m.step w rx t roots .startSched = some (.ok m')) :
    m.tk = none ∧ ∃ r, (Ticker.call w t roots : Except TickErr _) = .ok r ∧
      m' = (m.setTk r.1).sendAll r.2 := by
  simp only [MsgSt.step] at h
  split at h
  · cases h
  · rename_i htk
    refine ⟨htk, ?_⟩
    cases hcall : (Ticker.call w t roots : Except TickErr (Ticker Val × List (Dispatch Val))) with
    | error e => simp [hcall, Except.map] at h
    | ok r =>
      simp only [hcall, Except.map, Option.some.injEq, Except.ok.injEq] at h
      exact ⟨r, rfl, h.symm⟩

theorem MsgSt.step_startComp_ok {w : Wiring} {rx : MsgReact Val} {t : SimTime} {roots : List Comp}
    {m m' : MsgSt Val} {c : Comp} (h : m.step w rx t roots (.startComp c) = some (.ok m')) :
    c ∉ m.started ∧ m' = { m with started := c :: m.started } := by
  simp only [MsgSt.step] at h
  split at h
  · cases h
  · rename_i hc; cases h; exact ⟨hc, rfl⟩

theorem MsgSt.step_deliverIn_enabled {w : Wiring} {rx : MsgReact Val} {t : SimTime}
    {roots : List Comp} {m m' : MsgSt Val} {c : Comp}
    (h : m.step w rx t roots (.deliverIn c) = some (.ok m')) :
    c ∈ m.started ∧ ∃ μ, m.next (.inT c) = some μ := by
  simp only [MsgSt.step] at h
  split at h
  · rename_i hc
    refine ⟨hc, ?_⟩
    cases hμ : m.next (.inT c) with
    | none => simp [hμ] at h
    | some μ => exact ⟨μ, rfl⟩
  · cases h

theorem MsgSt.step_deliverIn_input {w : Wiring} {rx : MsgReact Val} {t : SimTime}
    {roots : List Comp} {m : MsgSt Val} {c c0 : Comp} {t' : SimTime} {ins : List (Port × Val)}
    (hc : c ∈ m.started) (hμ : m.next (.inT c) = some (.disp (.input c0 t' ins))) :
    m.step w rx t roots (.deliverIn c) = some (.ok
      (((m.advance (.inT c)).produce (.outT c)
        (.output c t' (rx c t' ins).1 (rx c t' ins).2)).record (.react c t' ins))) := by
  simp [MsgSt.step, hc, hμ]

theorem MsgSt.step_deliverOut_ok {w : Wiring} {rx : MsgReact Val} {t : SimTime} {roots : List Comp}
    {m m' : MsgSt Val} {c : Comp} (h : m.step w rx t roots (.deliverOut c) = some (.ok m')) :
    ∃ tk μ, m.tk = some tk ∧ m.next (.outT c) = some μ ∧
      ((∃ src t' ch ca r, (μ = .output src t' ch ca ∨ (μ = .disp (.skip src t') ∧ ch = [] ∧ ca = none)) ∧
          tk.propagate w src t' ch = .ok r ∧
          m' = ((((m.advance (.outT c)).record (.answer src ch)).setTk r.1).sendAll r.2).noteWakeup
            src ca) ∨
        ((∃ c0 t' ins, μ = .disp (.input c0 t' ins)) ∧ m' = m.advance (.outT c))) := by
  simp only [MsgSt.step] at h
  cases htk : m.tk with
  | none => simp [htk] at h
  | some tk =>
    simp only [htk] at h
    cases hμ : m.next (.outT c) with
    | none => simp [hμ] at h
    | some μ =>
      refine ⟨tk, μ, rfl, rfl, ?_⟩
      simp only [hμ] at h
      cases μ with
      | output src t' ch ca =>
        simp only [Option.some.injEq] at h
        obtain ⟨r, hp, rfl⟩ := MsgSt.absorb_eq_ok h
        exact Or.inl ⟨src, t', ch, ca, r, Or.inl rfl, hp, rfl⟩
      | disp d =>
        cases d with
        | skip src t' =>
          simp only [Option.some.injEq] at h
          obtain ⟨r, hp, rfl⟩ := MsgSt.absorb_eq_ok h
          exact Or.inl ⟨src, t', [], none, r, Or.inr ⟨rfl, rfl, rfl⟩, hp, rfl⟩
        | input c0 t' ins =>
          simp only [Option.some.injEq, Except.ok.injEq] at h
          exact Or.inr ⟨⟨c0, t', ins, rfl⟩, h.symm⟩

/-! ### what the scheduler sent to `c`, what `c` handled -/

/-- the `Input` messages the scheduler produced to `in c`, according to the trace -/
def inputsTo (c : Comp) (tr : List (Ev Val)) : List (BusMsg Val) :=
  tr.filterMap (fun e => match e with
    | .dispatch d => if d.topic = .inT c then some (.disp d) else none
    | .answer _ _ => none)

/-- the `Input` messages component `c` has handled, according to the history -/
def reactMsgs (c : Comp) (h : List (MsgEv Val)) : List (BusMsg Val) :=
  (reactsOf c h).map (fun p => BusMsg.disp (.input c p.1 p.2))

@[simp] theorem inputsTo_nil (c : Comp) : inputsTo c ([] : List (Ev Val)) = [] := rfl

theorem inputsTo_append (c : Comp) (a b : List (Ev Val)) :
    inputsTo c (a ++ b) = inputsTo c a ++ inputsTo c b := by
  simp [inputsTo]

@[simp] theorem inputsTo_answer (c a : Comp) (ch : List (Port × Val)) :
    inputsTo c [Ev.answer a ch] = [] := rfl

theorem inputsTo_map_dispatch (c : Comp) (ds : List (Dispatch Val)) :
    inputsTo c (ds.map Ev.dispatch) = (ds.filter (fun d => d.topic = .inT c)).map BusMsg.disp := by
  induction ds with
  | nil => rfl
  | cons d ds ih =>
    simp only [List.map_cons]
    rw [show Ev.dispatch d :: ds.map Ev.dispatch = [Ev.dispatch d] ++ ds.map Ev.dispatch from rfl,
      inputsTo_append, ih]
    by_cases h : d.topic = .inT c
    · simp [inputsTo, h]
    · simp [inputsTo, h]

@[simp] theorem reactsOf_nil (c : Comp) : reactsOf c ([] : List (MsgEv Val)) = [] := rfl

theorem reactsOf_append (c : Comp) (a b : List (MsgEv Val)) :
    reactsOf c (a ++ b) = reactsOf c a ++ reactsOf c b := by
  simp [reactsOf]

@[simp] theorem reactsOf_dispatch (c : Comp) (d : Dispatch Val) :
    reactsOf c [MsgEv.dispatch d] = [] := rfl

@[simp] theorem reactsOf_answer (c a : Comp) (ch : List (Port × Val)) :
    reactsOf c [MsgEv.answer a ch] = [] := rfl

theorem reactsOf_react (c c' : Comp) (t : SimTime) (ins : List (Port × Val)) :
    reactsOf c [MsgEv.react c' t ins] = if c' = c then [(t, ins)] else [] := by
  by_cases h : c' = c <;> simp [reactsOf, h]

theorem reactsOf_map_dispatch (c : Comp) (ds : List (Dispatch Val)) :
    reactsOf c (ds.map MsgEv.dispatch) = [] := by
  induction ds with
  | nil => rfl
  | cons d ds ih =>
    rw [List.map_cons, show MsgEv.dispatch d :: ds.map MsgEv.dispatch =
      [MsgEv.dispatch d] ++ ds.map MsgEv.dispatch from rfl, reactsOf_append, ih]
    rfl

@[simp] theorem reactMsgs_nil (c : Comp) : reactMsgs c ([] : List (MsgEv Val)) = [] := rfl

theorem reactMsgs_append (c : Comp) (a b : List (MsgEv Val)) :
    reactMsgs c (a ++ b) = reactMsgs c a ++ reactMsgs c b := by
  simp [reactMsgs, reactsOf_append]

theorem mem_hist_of_mem_trace {m : MsgSt Val} {d : Dispatch Val} (h : Ev.dispatch d ∈ m.trace) :
    MsgEv.dispatch d ∈ m.hist := by
  simp only [MsgSt.trace, List.mem_filterMap] at h
  obtain ⟨e, he, heq⟩ := h
  cases e with
  | dispatch d' => simp only [MsgEv.toEv, Option.some.injEq, Ev.dispatch.injEq] at heq; rwa [← heq]
  | react c t ins => simp [MsgEv.toEv] at heq
  | answer c ch => simp [MsgEv.toEv] at heq

theorem mem_trace_of_mem_hist {m : MsgSt Val} {d : Dispatch Val} (h : MsgEv.dispatch d ∈ m.hist) :
    Ev.dispatch d ∈ m.trace := by
  simp only [MsgSt.trace, List.mem_filterMap]
  exact ⟨_, h, rfl⟩

/-! ### every reaction follows its own dispatch -/

def MsgEv.isReact : MsgEv Val → Bool
  | .react _ _ _ => true
  | _ => false

/-- in the history every `react c t ins` is preceded by the scheduler's `Input(c, t, ins)` -/
def ReactAfter (h : List (MsgEv Val)) : Prop :=
  ∀ pre c t ins post, h = pre ++ MsgEv.react c t ins :: post →
    MsgEv.dispatch (.input c t ins) ∈ pre

theorem ReactAfter.append {h ext : List (MsgEv Val)} (hh : ReactAfter h)
    (hext : ∀ e ∈ ext, e.isReact = false) : ReactAfter (h ++ ext) := by
  intro pre c t ins post heq
  rcases append_eq_append_cons heq with ⟨post', h1, _⟩ | ⟨pre', _, h2⟩
  · exact hh _ _ _ _ _ h1
  · have hm : MsgEv.react c t ins ∈ ext := by rw [h2]; simp
    have := hext _ hm
    simp [MsgEv.isReact] at this

theorem ReactAfter.append_react {h : List (MsgEv Val)} (hh : ReactAfter h) {c : Comp} {t : SimTime}
    {ins : List (Port × Val)} (hd : MsgEv.dispatch (.input c t ins) ∈ h) :
    ReactAfter (h ++ [MsgEv.react c t ins]) := by
  intro pre c' t' ins' post heq
  rcases append_eq_append_cons heq with ⟨post', h1, _⟩ | ⟨pre', h1, h2⟩
  · exact hh _ _ _ _ _ h1
  · cases pre' with
    | nil =>
      simp only [List.nil_append, List.cons.injEq, MsgEv.react.injEq] at h2
      obtain ⟨⟨rfl, rfl, rfl⟩, _⟩ := h2
      rw [h1]; simpa using hd
    | cons x xs =>
      simp only [List.cons_append, List.cons.injEq] at h2
      have := congrArg List.length h2.2
      simp at this

theorem isReact_map_dispatch (ds : List (Dispatch Val)) :
    ∀ e ∈ ds.map MsgEv.dispatch, e.isReact = false := by
  intro e he
  obtain ⟨d, _, rfl⟩ := List.mem_map.1 he
  rfl

/-! ### the invariant -/

/-- history invariants of a tick begun from `m0`. -/
structure MsgInv (m0 m : MsgSt Val) : Prop where
  /-- `in c` holds what was there plus exactly the `Input`s the scheduler dispatched to `c` -/
  inLog : ∀ c, m.log (.inT c) = m0.log (.inT c) ++ inputsTo c m.trace
  /-- what `c` has handled is exactly the consumed part of `in c` -/
  handled : ∀ c, (m.log (.inT c)).take (m.cur (.inT c)) = m0.log (.inT c) ++ reactMsgs c m.hist
  curLe : ∀ c, m.cur (.inT c) ≤ (m.log (.inT c)).length
  /-- a component that has not started has consumed nothing -/
  notStarted : ∀ c, c ∉ m.started → m.cur (.inT c) = m0.cur (.inT c)
  startedMono : ∀ c, c ∈ m0.started → c ∈ m.started
  reactAfter : ReactAfter m.hist
  reactStarted : ∀ c t ins, MsgEv.react c t ins ∈ m.hist → c ∈ m.started

theorem MsgInv.init {m0 : MsgSt Val} (h0 : m0.Idle) : MsgInv m0 m0 := by
  obtain ⟨_, hh, hc⟩ := h0
  refine ⟨fun c => by simp [MsgSt.trace, hh], fun c => by simp [hc, hh], fun c => by simp [hc],
    fun _ _ => rfl, fun _ h => h, ?_, ?_⟩
  · intro pre c t ins post heq
    rw [hh] at heq
    simp at heq
  · intro c t ins hm
    rw [hh] at hm
    simp at hm

/-- the invariant only speaks about logs, cursors, started set and history. -/
theorem MsgInv.congr {m0 m m' : MsgSt Val} (h : MsgInv m0 m) (hl : ∀ T, m'.log T = m.log T)
    (hc : ∀ T, m'.cur T = m.cur T) (hs : m'.started = m.started) (hh : m'.hist = m.hist) :
    MsgInv m0 m' := by
  have htr : m'.trace = m.trace := by simp [MsgSt.trace, hh]
  exact ⟨fun c => by rw [hl, htr]; exact h.inLog c, fun c => by rw [hl, hc, hh]; exact h.handled c,
    fun c => by rw [hl, hc]; exact h.curLe c, fun c hn => by rw [hc]; exact h.notStarted c (hs ▸ hn),
    fun c hm => hs ▸ h.startedMono c hm, hh ▸ h.reactAfter,
    fun c t ins hm => hs ▸ h.reactStarted c t ins (hh ▸ hm)⟩

/-- the effect of a batch of dispatches (after an optional scheduler-side event) on the
invariant -/
theorem MsgInv.sendAll {m0 m : MsgSt Val} (h : MsgInv m0 m) (m1 : MsgSt Val)
    (ds : List (Dispatch Val)) (ext : List (MsgEv Val))
    (hl : ∀ T, m1.log T = m.log T) (hc : ∀ c, m1.cur (.inT c) = m.cur (.inT c))
    (hs : m1.started = m.started) (hh : m1.hist = m.hist ++ ext)
    (hext : ∀ e ∈ ext, e.isReact = false)
    (hin : ∀ c, inputsTo c (ext.filterMap MsgEv.toEv) = [])
    (hre : ∀ c, reactsOf c ext = []) :
    MsgInv m0 (m1.sendAll ds) := by
  have htr : (m1.sendAll ds).trace = m.trace ++ ext.filterMap MsgEv.toEv ++ ds.map Ev.dispatch := by
    rw [MsgSt.trace_sendAll]; simp [MsgSt.trace, hh]
  have hlog : ∀ c, (m1.sendAll ds).log (.inT c) = m.log (.inT c) ++
      (ds.filter (fun d => d.topic = .inT c)).map BusMsg.disp := by
    intro c; rw [MsgSt.log_sendAll, hl]
  refine ⟨fun c => ?_, fun c => ?_, fun c => ?_, fun c hn => ?_, fun c hm => ?_, ?_, ?_⟩
  · rw [hlog, htr, inputsTo_append, inputsTo_append, hin, inputsTo_map_dispatch, h.inLog]
    simp
  · rw [hlog, MsgSt.cur_sendAll, hc, List.take_append_of_le_length (h.curLe c), h.handled,
      MsgSt.hist_sendAll, hh, reactMsgs_append, reactMsgs_append]
    simp [reactMsgs, hre, reactsOf_map_dispatch]
  · rw [hlog, MsgSt.cur_sendAll, hc]
    have := h.curLe c
    simp; omega
  · rw [MsgSt.cur_sendAll, hc]
    exact h.notStarted c (by simpa [hs] using hn)
  · simpa [hs] using h.startedMono c hm
  · rw [MsgSt.hist_sendAll, hh, List.append_assoc]
    refine h.reactAfter.append ?_
    intro e he
    rcases List.mem_append.1 he with he | he
    · exact hext e he
    · exact isReact_map_dispatch ds e he
  · intro c t ins hm
    rw [MsgSt.hist_sendAll, hh] at hm
    simp only [List.mem_append, List.mem_map] at hm
    rcases hm with (hm | hm) | ⟨d, _, hd⟩
    · simpa [hs] using h.reactStarted c t ins hm
    · have := hext _ hm; simp [MsgEv.isReact] at this
    · cases hd

/-- the invariant is preserved by every step, provided that what component `c` is delivered
from `in c` is an `Input` for `c` that the scheduler dispatched (which the simulation gives). -/
theorem MsgInv.step {w : Wiring} {rx : MsgReact Val} {t : SimTime} {roots : List Comp}
    {m0 m m' : MsgSt Val} (h : MsgInv m0 m)
    (hIn : ∀ c μ, m.next (.inT c) = some μ → ∃ t' ins, μ = .disp (.input c t' ins) ∧
      MsgEv.dispatch (.input c t' ins) ∈ m.hist)
    {a : MsgAct} (hstep : m.step w rx t roots a = some (.ok m')) : MsgInv m0 m' := by
  cases a with
  | startSched =>
    obtain ⟨_, r, _, rfl⟩ := MsgSt.step_startSched_ok hstep
    exact h.sendAll (m.setTk r.1) r.2 [] (fun _ => rfl) (fun _ => rfl) rfl (by simp)
      (by simp) (fun _ => rfl) (fun _ => rfl)
  | startComp c =>
    obtain ⟨_, rfl⟩ := MsgSt.step_startComp_ok hstep
    refine ⟨h.inLog, h.handled, h.curLe, fun c' hn => ?_, fun c' hm => ?_, h.reactAfter,
      fun c' t' ins hm => ?_⟩
    · exact h.notStarted c' (fun hx => hn (List.mem_cons_of_mem _ hx))
    · exact List.mem_cons_of_mem _ (h.startedMono c' hm)
    · exact List.mem_cons_of_mem _ (h.reactStarted c' t' ins hm)
  | deliverIn c =>
    obtain ⟨hc, μ, hμ⟩ := MsgSt.step_deliverIn_enabled hstep
    obtain ⟨t', ins, rfl, hd⟩ := hIn c μ hμ
    rw [MsgSt.step_deliverIn_input hc hμ] at hstep
    simp only [Option.some.injEq, Except.ok.injEq] at hstep
    subst hstep
    have hlt : m.cur (.inT c) < (m.log (.inT c)).length := by
      simp only [MsgSt.next] at hμ
      exact (List.getElem?_eq_some_iff.1 hμ).1
    refine ⟨fun c' => ?_, fun c' => ?_, fun c' => ?_, fun c' hn => ?_, fun c' hm => ?_, ?_, ?_⟩
    · simpa [MsgEv.toEv] using h.inLog c'
    · by_cases hcc : c = c'
      · subst hcc
        simp only [MsgSt.log_record, MsgSt.log_produce, MsgSt.log_advance, MsgSt.cur_record,
          MsgSt.cur_produce, MsgSt.cur_advance, if_true, MsgSt.hist_record, MsgSt.hist_produce,
          MsgSt.hist_advance]
        rw [if_neg (by simp), List.take_add_one, h.handled, reactMsgs_append]
        simp only [MsgSt.next] at hμ
        simp [reactMsgs, reactsOf_react, hμ]
      · have hne : MsgTopic.inT c ≠ MsgTopic.inT c' := by simpa using hcc
        simp only [MsgSt.log_record, MsgSt.log_produce, MsgSt.log_advance, MsgSt.cur_record,
          MsgSt.cur_produce, MsgSt.cur_advance, if_neg hne, MsgSt.hist_record, MsgSt.hist_produce,
          MsgSt.hist_advance]
        rw [if_neg (by simp), h.handled, reactMsgs_append]
        simp [reactMsgs, reactsOf_react, hcc]
    · by_cases hcc : c = c'
      · subst hcc; simp; omega
      · have := h.curLe c'; simpa [hcc] using this
    · have hcc : c ≠ c' := fun he => hn (he ▸ hc)
      have := h.notStarted c' hn
      simpa [hcc] using this
    · exact h.startedMono c' hm
    · exact h.reactAfter.append_react hd
    · intro c' t'' ins' hm
      simp only [MsgSt.hist_record, MsgSt.hist_produce, MsgSt.hist_advance, List.mem_append,
        List.mem_singleton] at hm
      rcases hm with hm | hm
      · exact h.reactStarted c' t'' ins' hm
      · cases hm; exact hc
  | deliverOut c =>
    obtain ⟨tk, μ, _, _, ⟨src, t', ch, ca, r, _, _, rfl⟩ | ⟨_, rfl⟩⟩ := MsgSt.step_deliverOut_ok hstep
    · have := h.sendAll (((m.advance (.outT c)).record (.answer src ch)).setTk r.1) r.2
        [.answer src ch] (fun _ => rfl) (fun c' => by simp) rfl rfl
        (by simp [MsgEv.isReact]) (fun _ => rfl) (fun _ => rfl)
      exact this.congr (fun _ => by simp) (fun _ => by simp) (by simp) (by simp)
    · exact ⟨h.inLog, fun c' => by simpa using h.handled c', fun c' => by simpa using h.curLe c',
        fun c' hn => by simpa using h.notStarted c' hn, h.startedMono, h.reactAfter, h.reactStarted⟩

/-- what a component can be delivered is an `Input` addressed to it that the scheduler has
dispatched in this tick. -/
theorem MsgSt.Reach.next_in {w : Wiring} {rx : MsgReact Val} {t : SimTime} {roots : List Comp}
    {m0 m : MsgSt Val} (h0 : m0.Idle) (h : MsgSt.Reach w rx t roots m0 m) {c : Comp}
    {μ : BusMsg Val} (hμ : m.next (.inT c) = some μ) :
    ∃ t' ins, μ = .disp (.input c t' ins) ∧ MsgEv.dispatch (.input c t' ins) ∈ m.hist := by
  rcases h.sim h0 with ⟨hI, _, _⟩ | ⟨s, hr, hs⟩
  · have : m.next (.inT c) = none := by simp [MsgSt.next, hI.2.2]
    rw [this] at hμ; cases hμ
  · obtain ⟨t', ins, rfl, hP, _⟩ := hs.slot.deliverIn hμ
    have := hr.inv.pre.pend_trace _ hP
    rw [← hs.trace] at this
    exact ⟨t', ins, rfl, mem_hist_of_mem_trace this⟩

theorem MsgSt.Reach.inv {w : Wiring} {rx : MsgReact Val} {t : SimTime} {roots : List Comp}
    {m0 m : MsgSt Val} (h0 : m0.Idle) (h : MsgSt.Reach w rx t roots m0 m) : MsgInv m0 m := by
  induction h with
  | init => exact MsgInv.init h0
  | step hreach hstep ih => exact ih.step (fun c μ hμ => hreach.next_in h0 hμ) hstep

end Tickit
