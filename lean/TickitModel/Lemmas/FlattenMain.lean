/-
Helper lemmas for C09, part 5: assembling the initial-tick transparency theorem.
-/
import TickitModel.Lemmas.FlattenRun
import TickitModel.Lemmas.FlattenFlat

namespace Tickit

/-! ### position in a list (a rank function read off the observation log) -/

def flt_pos : List Comp → Comp → Nat
  | [], _ => 0
  | x :: l, c => if x = c then 0 else flt_pos l c + 1

theorem flt_pos_lt_of_mem {l1 : List Comp} {c : Comp} (h : c ∈ l1) (l2 : List Comp) :
    flt_pos (l1 ++ l2) c < l1.length := by
  induction l1 with
  | nil => simp at h
  | cons x l1 ih =>
    simp only [List.cons_append, flt_pos, List.length_cons]
    by_cases hx : x = c
    · simp [hx]
    · simp only [hx, if_false]
      rcases List.mem_cons.1 h with h | h
      · exact absurd h.symm hx
      · have := ih h
        omega

theorem flt_pos_of_not_mem {l1 : List Comp} {c : Comp} (h : c ∉ l1) (l2 : List Comp) :
    flt_pos (l1 ++ c :: l2) c = l1.length := by
  induction l1 with
  | nil => simp [flt_pos]
  | cons x l1 ih =>
    simp only [List.mem_cons, not_or] at h
    simp only [List.cons_append, flt_pos, List.length_cons]
    have hx : x ≠ c := fun h' => h.1 h'.symm
    simp [hx, ih h.2]

/-! ### observation sequences of a device -/

theorem flt_filter_comp_singleton {obs : List Obs} (hn : (obs.map Obs.comp).Nodup) {o : Obs}
    (ho : o ∈ obs) : obs.filter (fun o' => o'.comp == o.comp) = [o] := by
  induction obs with
  | nil => simp at ho
  | cons x obs ih =>
    simp only [List.map_cons, List.nodup_cons] at hn
    rcases List.mem_cons.1 ho with rfl | ho
    · have : obs.filter (fun o' => o'.comp == o.comp) = [] := by
        rw [List.filter_eq_nil_iff]
        intro o' ho' h'
        exact hn.1 (List.mem_map.2 ⟨o', ho', by simpa using h'⟩)
      simp [List.filter_cons, this]
    · have hx : x.comp ≠ o.comp := fun h' => hn.1 (h' ▸ List.mem_map.2 ⟨o, ho, rfl⟩)
      simp [List.filter_cons, hx, ih hn.2 ho]

theorem SimSt.obsOf_of_mem {st : SimSt} (hn : (st.obs.map Obs.comp).Nodup) {o : Obs}
    (ho : o ∈ st.obs) : st.obsOf o.comp = [(o.time, o.inputs)] := by
  unfold SimSt.obsOf
  rw [flt_filter_comp_singleton hn ho]
  rfl

theorem SimSt.obsOf_of_not_mem {st : SimSt} {c : Comp} (h : c ∉ st.obs.map Obs.comp) :
    st.obsOf c = [] := by
  unfold SimSt.obsOf
  have : st.obs.filter (fun o => o.comp == c) = [] := by
    rw [List.filter_eq_nil_iff]
    intro o ho h'
    exact h (List.mem_map.2 ⟨o, ho, by simpa using h'⟩)
  rw [this]
  rfl

/-! ### the initial tick of the master -/

/-- everything known about the state after a completed initial tick -/
structure InitFacts (S : Static) (orc : Oracle) (n : Nat) (t0 : SimTime) (st : SimSt) : Prop where
  nodup : (st.obs.map Obs.comp).Nodup
  obs : ∀ o ∈ st.obs, o.time = t0 ∧ S.isDevice o.comp ∧ S.ObsOK orc n o
  all : ∀ d, S.isDevice d → d ∈ st.obs.map Obs.comp
  ordered : S.Ordered n [] st.obs

theorem masterInitial_facts {S : Static} (hS : S.Valid) {orc : Oracle} {n : Nat}
    (hst : S.ResolveStable n) {fuel : Nat} {t0 : SimTime} {now : Int} {m : MasterSt} {tr : TickRec}
    (h : masterInitial S orc fuel t0 now = .ok (m, tr)) : InitFacts S orc n t0 m.sim := by
  unfold masterInitial at h
  split at h
  · cases h
  · rename_i L hL
    simp only [] at h
    split at h
    · cases h
    · rename_i st out hr
      simp only [Except.ok.injEq, Prod.mk.injEq] at h
      obtain ⟨rfl, rfl⟩ := h
      obtain ⟨new, hobs, hnd, hown, _, hdone⟩ := tickLevel_post hS.toWF orc _ _ _ _ _ _ _ _ hr
      obtain ⟨hdev, _⟩ := hdone
        (fun L' hL' c hc => by rw [hL] at hL'; cases hL'; exact hc)
        (fun s _ _ => SimSt.sched_empty s)
      have hnone : ∀ p, S.resolve n "" pseudoExternal p = none := by
        intro p
        rw [← hst, Static.resolve_succ]
        simp
      have hpre : S.InitPre orc n "" L L.wiring.components [] {} :=
        { hall := fun c hc => hc
          fresh_dev := fun x _ => ⟨rfl, rfl⟩
          fresh_sys := fun s _ _ => SimSt.sched_empty s
          in_nodup := by simp
          in_ok := by
            intro p v
            unfold Static.ValAt
            rw [hnone p]
            simp
          in_seen := by
            intro p a₀ p₀ hr0
            rw [hnone p] at hr0
            cases hr0 }
      obtain ⟨new', hobs', hok, hord, _, _⟩ := tickLevel_init hS orc hst _ _ _ _ _ _ _ _ _ hr hL hpre
      have hobs0 : st.obs = new := by simpa using hobs
      have hobs0' : st.obs = new' := by simpa using hobs'
      show InitFacts S orc n t0 st
      exact
        { nodup := by rw [hobs0]; exact hnd
          obs := by
            intro o ho
            refine ⟨(hown o (hobs0 ▸ ho)).1, (hown o (hobs0 ▸ ho)).2.1, hok o (hobs0' ▸ ho)⟩
          all := by
            intro d hd
            rw [hobs0]
            exact hdev d (Static.below_master hS.toWF hd.1) hd
          ordered := by
            rw [hobs0']
            exact hord }

/-- the observation log of a completed initial tick orders the device-level graph -/
theorem InitFacts.flatRank {S : Static} {orc : Oracle} {n : Nat} {t0 : SimTime} {st : SimSt}
    (hf : InitFacts S orc n t0 st) : S.FlatRank n := by
  refine ⟨flt_pos (st.obs.map Obs.comp), fun c q a p hc hfi => ?_⟩
  have hcm := hf.all c (Static.mem_devices_iff.1 hc)
  obtain ⟨o, ho, rfl⟩ := List.mem_map.1 hcm
  obtain ⟨pre, post, hsplit⟩ := List.append_of_mem ho
  have ha : a ∈ pre.map Obs.comp := by
    simpa using hf.ordered pre o post hsplit q a p hfi
  have hnd := hf.nodup
  rw [hsplit, List.map_append, List.map_cons] at hnd ⊢
  have hnot : o.comp ∉ pre.map Obs.comp := by
    intro hm
    exact (List.nodup_append.1 hnd).2.2 _ hm _ (List.mem_cons_self) rfl
  rw [flt_pos_of_not_mem hnot]
  have := flt_pos_lt_of_mem ha (o.comp :: post.map Obs.comp)
  simpa using this

/-- **C09, initial tick**, with the two hypotheses on the resolution fuel spelled out. -/
theorem nesting_transparent_initial_core (S : Static) (hS : S.Valid) (orc : Oracle) (fuel n : Nat)
    (hst : S.ResolveStable n) (t0 : SimTime) (now : Int)
    (m : MasterSt) (tr : TickRec) (h : masterInitial S orc fuel t0 now = .ok (m, tr)) :
    ∃ m' tr', masterInitial (S.flatten n) orc 1 t0 now = .ok (m', tr') ∧
      ∀ d, ObsEq (m.sim.obsOf d) (m'.sim.obsOf d) := by
  have hf := masterInitial_facts hS hst h
  have hS' : (S.flatten n).Valid := hS.flatten hf.flatRank
  have hst' := S.flatten_resolveStable n
  have hmemL : (⟨"", S.flatW n⟩ : Level) ∈ (S.flatten n).levels := by
    rw [S.flatten_levels]; simp
  have horc : ∀ c ∈ (S.flatW n).components, OrcOK orc c := by
    intro c hc
    have hd := Static.mem_devices_iff.1 ((S.flatW_components hS n c).1 hc)
    obtain ⟨o, ho, rfl⟩ := List.mem_map.1 (hf.all c hd)
    exact (hf.obs o ho).2.2.1
  obtain ⟨⟨st', out'⟩, hr⟩ := flat_tickLevel_ok (S := S.flatten n) (S.flatten_isSys n)
    (S.flatten_level n) (hS'.acyclic _ hmemL) t0 (roots := (S.flatW n).components)
    (fun r hr => hr) horc 0
  have hmi : masterInitial (S.flatten n) orc 1 t0 now =
      .ok ({ sim := st', tickerTime := t0, lastReal := now, now := now },
        ⟨t0, now, (S.flatW n).components⟩) := by
    unfold masterInitial
    rw [S.flatten_level]
    simp only [hr]
  have hf' := masterInitial_facts hS' hst' hmi
  refine ⟨_, _, hmi, fun d => ?_⟩
  show ObsEq (m.sim.obsOf d) (st'.obsOf d)
  have hdev' : ∀ x, (S.flatten n).isDevice x ↔ S.isDevice x := by
    intro x
    rw [← Static.mem_devices_iff, ← Static.mem_devices_iff, S.flatten_devices_eq]
  by_cases hd : S.isDevice d
  · obtain ⟨o, ho, rfl⟩ := List.mem_map.1 (hf.all d hd)
    obtain ⟨o', ho', hoo'⟩ := List.mem_map.1 (hf'.all o.comp ((hdev' _).2 hd))
    rw [SimSt.obsOf_of_mem hf.nodup ho, ← hoo', SimSt.obsOf_of_mem hf'.nodup ho']
    obtain ⟨ht, _, _, hin⟩ := hf.obs o ho
    obtain ⟨ht', _, _, hin'⟩ := hf'.obs o' ho'
    refine ⟨ht.trans ht'.symm, fun q => ?_, trivial⟩
    apply option_ext_some
    intro v
    rw [hin q v, hin' q v, hoo',
      hS.flatten_flatInputs hS' (Static.mem_devices_iff.2 hd) q]
  · have h1 : d ∉ m.sim.obs.map Obs.comp := by
      intro hm
      obtain ⟨o, ho, rfl⟩ := List.mem_map.1 hm
      exact hd (hf.obs o ho).2.1
    have h2 : d ∉ st'.obs.map Obs.comp := by
      intro hm
      obtain ⟨o, ho, rfl⟩ := List.mem_map.1 hm
      exact hd ((hdev' _).1 (hf'.obs o ho).2.1)
    rw [SimSt.obsOf_of_not_mem h1, SimSt.obsOf_of_not_mem h2]
    trivial

theorem masterInitial_clock {S : Static} {orc : Oracle} {fuel : Nat} {t0 : SimTime} {now : Int}
    {m : MasterSt} {tr : TickRec} (h : masterInitial S orc fuel t0 now = .ok (m, tr)) :
    m.tickerTime = t0 ∧ m.lastReal = now ∧ m.now = now ∧ tr.time = t0 ∧ tr.real = now := by
  unfold masterInitial at h
  split at h
  · cases h
  · simp only [] at h
    split at h
    · cases h
    · simp only [Except.ok.injEq, Prod.mk.injEq] at h
      obtain ⟨rfl, rfl⟩ := h
      exact ⟨rfl, rfl, rfl, rfl, rfl⟩

end Tickit
