/-
Helper lemmas for C07 at run level with processing costs (`Props/C07Cost.lean`), part 1:
what ONE TICK of the master level (`tickLevel S orc fuel "" t roots [] st`) does to the master's
wakeups.

* `tickLevel_keeps_master` — a tick of a NESTED level never touches the master's bookkeeping
  (`sched ""`), provided the name `""` of the master level is not also the name of a system
  component (`S.isSys "" = false`);
* `tickLevel_master_post` — after a tick of the master level with roots `roots` at time `t`, the
  wakeup entry of every top-level component `c` is what it was before the tick, unless `c` lies in
  the extent of the tick (`c` is a root or is wired downstream of a root: `extent L.wiring roots`,
  the components `Ticker._start_tick` puts into `to_update`); and then, if `c` is a device, the
  tick has appended an observation of `c` at time `t` to the log: the device WAS UPDATED in it.

The code (`schedulers/base.py`):

    async def handle_message(self, message):
        if isinstance(message, Output):
            await self.ticker.propagate(message)
            if message.call_at is not None:
                self.add_wakeup(message.source, message.call_at)     # only for the answering component

Core Lean only.
-/
import TickitModel.Lemmas.TimeMonoLemmas

namespace Tickit
namespace C07Cost

/-! ## answers do not touch the master's bookkeeping -/

/-- the answer to one dispatch (at any level) leaves `sched ""` alone, if the ticks of nested
levels do -/
theorem simAnswer_keeps_master {S : Static} (hroot : S.isSys "" = false) {orc : Oracle} {fuel : Nat}
    (IH : ∀ lvl t roots inCh st st' out, lvl ≠ "" →
      tickLevel S orc fuel lvl t roots inCh st = .ok (st', out) → st'.sched "" = st.sched "")
    {L : Level} {inCh : List (Port × V)} {st : SimSt} {outCh0 : List (Port × V)}
    {d : Dispatch V} {st' : SimSt} {outCh' changes : List (Port × V)} {callAt : Option SimTime}
    (h : simAnswer S orc fuel L inCh st outCh0 d = .ok (st', outCh', changes, callAt)) :
    st'.sched "" = st.sched "" := by
  cases d with
  | skip c t =>
    simp only [simAnswer, Except.ok.injEq, Prod.mk.injEq] at h
    obtain ⟨rfl, _⟩ := h
    rfl
  | input c t ins =>
    simp only [simAnswer] at h
    split at h
    · simp only [Except.ok.injEq, Prod.mk.injEq] at h
      obtain ⟨rfl, _⟩ := h
      rfl
    · split at h
      · simp only [Except.ok.injEq, Prod.mk.injEq] at h
        obtain ⟨rfl, _⟩ := h
        rfl
      · split at h
        · -- a system component: its name is not ""
          rename_i hsys
          have hc : c ≠ "" := by
            intro hc
            rw [hc, hroot] at hsys
            cases hsys
          split at h
          · cases h
          · rename_i st2 outCh hr
            simp only [Except.ok.injEq, Prod.mk.injEq] at h
            obtain ⟨rfl, _⟩ := h
            rw [IH _ _ _ _ _ _ _ hc hr, SimSt.sched_upsert, if_neg hc]
        · -- a device
          split at h
          · cases h
          · split at h
            · cases h
            · simp only [Except.ok.injEq, Prod.mk.injEq] at h
              obtain ⟨rfl, _⟩ := h
              rfl

theorem simWake_other (st : SimSt) (lvl c : Comp) (callAt : Option SimTime) (s : Comp)
    (hs : lvl ≠ s) : (simWake st lvl c callAt).sched s = st.sched s := by
  unfold simWake
  simp only []
  rw [SimSt.sched_upsert, if_neg hs]

theorem tickLoop_keeps_master {S : Static} (hroot : S.isSys "" = false) {orc : Oracle} {fuel : Nat}
    (IH : ∀ lvl t roots inCh st st' out, lvl ≠ "" →
      tickLevel S orc fuel lvl t roots inCh st = .ok (st', out) → st'.sched "" = st.sched "")
    {L : Level} (hL : L.name ≠ "") {inCh : List (Port × V)} :
    ∀ (steps : Nat) (ls : LoopSt) st' out,
      tickLoop S orc fuel steps L inCh ls = .ok (st', out) → st'.sched "" = ls.st.sched "" := by
  intro steps
  induction steps with
  | zero =>
    intro ls st' out h
    rw [tickLoop_zero] at h; cases h
  | succ steps ih =>
    intro ls st' out h
    cases hp : ls.pending with
    | nil =>
      rw [tickLoop_nil _ _ _ _ _ _ _ hp] at h
      split at h
      · simp only [Except.ok.injEq, Prod.mk.injEq] at h
        obtain ⟨rfl, _⟩ := h
        rfl
      · cases h
    | cons d rest =>
      rw [tickLoop_cons _ _ _ _ _ _ _ _ _ hp] at h
      split at h
      · cases h
      · rename_i st1 outCh1 changes callAt ha
        split at h
        · cases h
        · rename_i tk' ds hprop
          have h1 := ih ⟨tk', rest ++ ds, outCh1, simWake st1 L.name d.comp callAt⟩ st' out h
          rw [h1]
          show (simWake st1 L.name d.comp callAt).sched "" = _
          rw [simWake_other _ _ _ _ _ hL, simAnswer_keeps_master hroot IH ha]

/-- **a tick of a nested level never touches the master's bookkeeping.** -/
theorem tickLevel_keeps_master (S : Static) (hroot : S.isSys "" = false) (orc : Oracle) :
    ∀ (fuel : Nat) (lvl : Comp) (t : SimTime) (roots : List Comp) (inCh : List (Port × V))
      (st st' : SimSt) (out : List (Port × V)), lvl ≠ "" →
      tickLevel S orc fuel lvl t roots inCh st = .ok (st', out) → st'.sched "" = st.sched "" := by
  intro fuel
  induction fuel with
  | zero =>
    intro lvl t roots inCh st st' out _ h
    rw [tickLevel] at h; cases h
  | succ fuel IH =>
    intro lvl t roots inCh st st' out hl h
    rw [tickLevel.eq_2] at h
    split at h
    · cases h
    · rename_i L hLv
      have hname : L.name ≠ "" := by rw [(Static.level_some hLv).2]; exact hl
      split at h
      · cases h
      · rename_i tk ds hcall
        exact tickLoop_keeps_master hroot IH hname _ ⟨tk, ds, [], st⟩ st' out h

/-! ## one answer at the master level -/

/-- the answer of a top-level component: the master's bookkeeping is untouched, observations are
appended, a DEVICE that is sent an `Input` makes an observation at the time of the dispatch, and
only a component that was sent an `Input` can ask to be called back. -/
theorem simAnswer_master_spec {S : Static} (hroot : S.isSys "" = false) {orc : Oracle} {fuel : Nat}
    {L : Level} (hL : L.name = "") {inCh : List (Port × V)} {st : SimSt} {outCh0 : List (Port × V)}
    {d : Dispatch V} {st' : SimSt} {outCh' changes : List (Port × V)} {callAt : Option SimTime}
    (h : simAnswer S orc fuel L inCh st outCh0 d = .ok (st', outCh', changes, callAt)) :
    st'.sched "" = st.sched "" ∧ ∃ new, st'.obs = st.obs ++ new ∧
      ((∃ ins, d = .input d.comp d.time ins) → S.isSys d.comp = false →
        ∃ o ∈ new, o.comp = d.comp ∧ o.time = d.time) ∧
      (callAt ≠ none → ∃ ins, d = .input d.comp d.time ins) := by
  refine ⟨simAnswer_keeps_master hroot
    (fun lvl t roots inCh st st' out hl hr =>
      tickLevel_keeps_master S hroot orc fuel lvl t roots inCh st st' out hl hr) h, ?_⟩
  cases d with
  | skip c t =>
    simp only [simAnswer, Except.ok.injEq, Prod.mk.injEq] at h
    obtain ⟨rfl, _, _, rfl⟩ := h
    exact ⟨[], by simp, fun ⟨ins, hins⟩ => (by cases hins), fun hc => absurd rfl hc⟩
  | input c t ins =>
    simp only [simAnswer, hL] at h
    simp only [bne_self_eq_false, Bool.false_and, Bool.false_eq_true, if_false] at h
    split at h
    · rename_i hsys
      split at h
      · cases h
      · rename_i st2 outCh hr
        simp only [Except.ok.injEq, Prod.mk.injEq] at h
        obtain ⟨rfl, _⟩ := h
        obtain ⟨new, hnew⟩ := (TimeMono.tickLevel_ok S orc fuel _ _ _ _ _ _ _ hr).1
        refine ⟨new, hnew, fun _ hdev => ?_, fun _ => ⟨ins, rfl⟩⟩
        simp only [Dispatch.comp] at hdev
        rw [hdev] at hsys
        cases hsys
    · split at h
      · cases h
      · split at h
        · cases h
        · simp only [Except.ok.injEq, Prod.mk.injEq] at h
          obtain ⟨rfl, _⟩ := h
          exact ⟨[⟨c, t, _⟩], rfl, fun _ _ => ⟨_, List.mem_singleton.2 rfl, rfl, rfl⟩,
            fun _ => ⟨ins, rfl⟩⟩

/-! ## one tick of the master level -/

/-- what one tick of the master level (wiring `w`, time `t`, roots `roots`) does: observations are
appended (`new`); every root that is a device has a new observation at time `t`; and the wakeup
entry of a top-level component `c` is unchanged unless `c` is in the extent of the tick, and then
a device `c` has a new observation at time `t`. -/
def MasterTickPost (S : Static) (w : Wiring) (t : SimTime) (roots : List Comp) (st st' : SimSt) :
    Prop :=
  ∃ new : List Obs, st'.obs = st.obs ++ new ∧
    (∀ r ∈ roots, S.isSys r = false → ∃ o ∈ new, o.comp = r ∧ o.time = t) ∧
    ∀ c, alookup (st'.sched "").wake c = alookup (st.sched "").wake c ∨
      (c ∈ extent w roots ∧ (S.isSys c = false → ∃ o ∈ new, o.comp = c ∧ o.time = t))

theorem simWake_master_lookup (st : SimSt) (c : Comp) (callAt : Option SimTime) (x : Comp) :
    alookup ((simWake st "" c callAt).sched "").wake x =
      match callAt with
      | some w => if c = x then some w else alookup (st.sched "").wake x
      | none => alookup (st.sched "").wake x := by
  unfold simWake
  simp only []
  rw [SimSt.sched_upsert, if_pos rfl]
  cases callAt with
  | none => rfl
  | some w =>
    simp only [addWakeup]
    rw [alookup_upsert]

theorem simWake_obs (st : SimSt) (lvl c : Comp) (callAt : Option SimTime) :
    (simWake st lvl c callAt).obs = st.obs := rfl

theorem tickLoop_master_post {S : Static} (hroot : S.isSys "" = false) {orc : Oracle} {fuel : Nat}
    {L : Level} (hL : L.name = "") {t : SimTime} {roots : List Comp} {st0 : SimSt}
    {inCh : List (Port × V)} :
    ∀ (steps : Nat) (ls : LoopSt) (new : List Obs), ls.tk.time = t → ls.tk.roots = roots →
      (∀ c, alookup ls.tk.toUpdate c ≠ none → c ∈ extent L.wiring roots) →
      (∀ d ∈ ls.pending, d.comp ∈ roots → ∃ ins, d = .input d.comp t ins) →
      ls.st.obs = st0.obs ++ new →
      (∀ r ∈ roots, alookup ls.tk.toUpdate r ≠ none ∨
        (S.isSys r = false → ∃ o ∈ new, o.comp = r ∧ o.time = t)) →
      (∀ c, alookup (ls.st.sched "").wake c = alookup (st0.sched "").wake c ∨
        (c ∈ extent L.wiring roots ∧ (S.isSys c = false → ∃ o ∈ new, o.comp = c ∧ o.time = t))) →
      ∀ st' out, tickLoop S orc fuel steps L inCh ls = .ok (st', out) →
        MasterTickPost S L.wiring t roots st0 st' := by
  intro steps
  induction steps with
  | zero =>
    intro ls new _ _ _ _ _ _ _ st' out h
    rw [tickLoop_zero] at h; cases h
  | succ steps ih =>
    intro ls new htm hrt hkeys hpin hobs hrd hinv st' out h
    cases hp : ls.pending with
    | nil =>
      rw [tickLoop_nil _ _ _ _ _ _ _ hp] at h
      split at h
      · rename_i hempty
        simp only [Except.ok.injEq, Prod.mk.injEq] at h
        obtain ⟨rfl, _⟩ := h
        refine ⟨new, hobs, fun r hr => ?_, hinv⟩
        rcases hrd r hr with h1 | h1
        · rw [List.isEmpty_iff.1 hempty] at h1
          exact absurd rfl h1
        · exact h1
      · cases h
    | cons d rest =>
      rw [tickLoop_cons _ _ _ _ _ _ _ _ _ hp] at h
      split at h
      · cases h
      · rename_i st1 outCh1 changes callAt ha
        split at h
        · cases h
        · rename_i tk' ds hprop
          obtain ⟨hsrc, htime, hsl, htu, htk, hroots'⟩ := sim_propagate_eq_ok hprop
          obtain ⟨hsched, new1, hnew1, hdev, hcall⟩ := simAnswer_master_spec hroot hL ha
          have hdm : d ∈ ls.pending := by rw [hp]; exact List.mem_cons_self
          have hdext : d.comp ∈ extent L.wiring roots := hkeys _ hsrc
          have hdt : d.time = t := htime.trans htm
          have hkeep : ∀ c, alookup tk'.toUpdate c ≠ none → alookup ls.tk.toUpdate c ≠ none := by
            intro c hc
            rw [htu, Ne, alookup_markDispatched_eq_none] at hc
            intro hn
            exact hc (alookup_aerase_eq_none hn)
          have hgone : ∀ c, c ≠ d.comp → alookup ls.tk.toUpdate c ≠ none →
              alookup tk'.toUpdate c ≠ none := by
            intro c hcd hc
            rw [htu, Ne, alookup_markDispatched_eq_none, alookup_aerase_ne _ hcd]
            exact hc
          have hup : ∀ c, (S.isSys c = false → ∃ o ∈ new, o.comp = c ∧ o.time = t) →
              (S.isSys c = false → ∃ o ∈ new ++ new1, o.comp = c ∧ o.time = t) := by
            intro c h2 hs
            obtain ⟨o, ho, hoc⟩ := h2 hs
            exact ⟨o, List.mem_append_left _ ho, hoc⟩
          have hdone : (∃ ins, d = .input d.comp d.time ins) → ∀ c, d.comp = c →
              (S.isSys c = false → ∃ o ∈ new ++ new1, o.comp = c ∧ o.time = t) := by
            intro hin c hdc hs
            obtain ⟨o, ho, hoc, hot⟩ := hdev hin (by rw [hdc]; exact hs)
            exact ⟨o, List.mem_append_right _ ho, hoc.trans hdc, hot.trans hdt⟩
          refine ih ⟨tk', rest ++ ds, outCh1, simWake st1 L.name d.comp callAt⟩ (new ++ new1)
            (htk.trans htm) (hroots'.trans hrt) (fun c hc => hkeys c (hkeep c hc)) ?_ ?_ ?_ ?_
            st' out h
          · intro d' hd' hr
            rcases List.mem_append.1 hd' with hd' | hd'
            · exact hpin d' (by rw [hp]; exact List.mem_cons_of_mem _ hd') hr
            · obtain ⟨ins, hins⟩ := (sim_scheduleLoop_mem hsl hd').2
                (by show d'.comp ∈ ls.tk.roots; rw [hrt]; exact hr)
              have ht' : (ls.tk.afterAnswer L.wiring d.comp changes).time = t := htm
              rw [ht'] at hins
              exact ⟨ins, hins⟩
          · show (simWake st1 L.name d.comp callAt).obs = _
            rw [simWake_obs, hnew1, hobs, List.append_assoc]
          · intro r hr
            rcases hrd r hr with h1 | h1
            · by_cases hrd' : r = d.comp
              · right
                obtain ⟨ins, hins⟩ := hpin d hdm (hrd' ▸ hr)
                exact hdone ⟨ins, by rw [hdt]; exact hins⟩ r hrd'.symm
              · exact Or.inl (hgone r hrd' h1)
            · exact Or.inr (hup r h1)
          · intro c
            show alookup ((simWake st1 L.name d.comp callAt).sched "").wake c = _ ∨ _
            rw [hL, simWake_master_lookup, hsched]
            have hold : alookup (ls.st.sched "").wake c = alookup (st0.sched "").wake c ∨
                (c ∈ extent L.wiring roots ∧
                  (S.isSys c = false → ∃ o ∈ new ++ new1, o.comp = c ∧ o.time = t)) := by
              rcases hinv c with h1 | ⟨h1, h2⟩
              · exact Or.inl h1
              · exact Or.inr ⟨h1, hup c h2⟩
            cases hca : callAt with
            | none => exact hold
            | some w =>
              simp only []
              by_cases hdc : d.comp = c
              · rw [if_pos hdc]
                exact Or.inr ⟨hdc ▸ hdext, hdone (hcall (by rw [hca]; simp)) c hdc⟩
              · rw [if_neg hdc]
                exact hold

/-- **one tick of the master level.**  After `tickLevel S orc fuel "" t roots inCh st` every root
that is a device has been updated (a new observation at time `t`); the wakeup entry of a top-level
component outside the extent of the tick is unchanged; a device inside the extent whose entry
changed was updated in this tick. -/
theorem tickLevel_master_post (S : Static) (hroot : S.isSys "" = false) (orc : Oracle)
    (fuel : Nat) (t : SimTime) (roots : List Comp) (inCh : List (Port × V))
    (st st' : SimSt) (out : List (Port × V))
    (h : tickLevel S orc fuel "" t roots inCh st = .ok (st', out)) :
    ∃ L, S.level "" = some L ∧ MasterTickPost S L.wiring t roots st st' := by
  cases fuel with
  | zero => rw [tickLevel] at h; cases h
  | succ fuel =>
    rw [tickLevel.eq_2] at h
    split at h
    · cases h
    · rename_i L hLv
      refine ⟨L, hLv, ?_⟩
      split at h
      · cases h
      · rename_i tk ds hcall
        obtain ⟨hs, htu, htime, hrt⟩ := sim_call_eq_ok hcall
        have hkey : ∀ c, c ∈ extent L.wiring roots ↔ alookup tk.toUpdate c ≠ none := by
          intro c
          rw [htu, Ne, alookup_markDispatched_eq_none,
            ← startTick_toUpdate (Val := V) L.wiring t roots]
          exact alookup_ne_none_iff.symm
        refine tickLoop_master_post hroot (Static.level_some hLv).2 _ ⟨tk, ds, [], st⟩ [] htime hrt
          (fun c hc => (hkey c).2 hc) ?_ (by simp) ?_ (fun c => Or.inl rfl) st' out h
        · intro d hd hr
          exact (sim_scheduleLoop_mem hs hd).2 hr
        · intro r hr
          exact Or.inl ((hkey r).1 (sim_root_mem_extent L.wiring hr))

end C07Cost
end Tickit
