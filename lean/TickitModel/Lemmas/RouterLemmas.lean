/-
Helper lemmas for M0/M1 (association maps, wiring, router).
-/
import TickitModel.Core.Router

namespace Tickit

/-- a Python dict: keys are unique. -/
def DictWF {κ β : Type} (m : List (κ × β)) : Prop := (akeys m).Nodup

/-- a `Wiring` as Python holds it: dict of dicts of sets. -/
def Wiring.WF (w : Wiring) : Prop :=
  DictWF w ∧ ∀ e ∈ w, DictWF e.2 ∧ ∀ pe ∈ e.2, pe.2.Nodup

def InvWiring.WF (iw : InvWiring) : Prop :=
  DictWF iw ∧ ∀ e ∈ iw, DictWF e.2

/-- each input port has at most one source. -/
def Wiring.OneSource (w : Wiring) : Prop :=
  ∀ a p a' p' b q, w.Conn a p b q → w.Conn a' p' b q → a = a' ∧ p = p'

end Tickit
