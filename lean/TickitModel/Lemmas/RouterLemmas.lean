/-
Helper lemmas for M0/M1 (association maps, wiring, router).

The well-formedness predicates (`DictWF`, `Wiring.WF`, `InvWiring.WF`, `Wiring.OneSource`)
and the association-list library live in `RouterAssoc`; the conversions and `route` in
`RouterWiring`; components / trees in `RouterTree`; the BFS in `RouterBfs`.  This file
re-exports them.
-/
import TickitModel.Lemmas.RouterAssoc
import TickitModel.Lemmas.RouterWiring
import TickitModel.Lemmas.RouterTree
import TickitModel.Lemmas.RouterBfs
