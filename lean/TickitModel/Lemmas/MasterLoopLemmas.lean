/-
Invariants of the master run loop's flag protocol (`Core/MasterLoop.lean`).
-/
import TickitModel.Core.MasterLoop
import TickitModel.Props.C06

namespace Tickit

theorem addWakeup_ne_nil (w : Wakeups) (c : Comp) (t : SimTime) : addWakeup w c t ≠ [] := by
  cases w with
  | nil => simp [addWakeup, upsert]
  | cons e w =>
    obtain ⟨k, v⟩ := e
    simp only [addWakeup, upsert]
    split <;> simp

theorem addWakeup_isSome (w : Wakeups) (c c' : Comp) (t : SimTime)
    (h : (alookup w c').isSome = true) : (alookup (addWakeup w c t) c').isSome = true := by
  rw [addWakeup_lookup]
  split
  · rfl
  · exact h

/-- the part of the invariant that holds for the repaired AND for the original loop. -/
structure LoopBase (s : MLoopSt) : Prop where
  /-- `self.wakeups` is a dict -/
  uniq : UniqueKeys s.wake
  /-- the chosen components keep an entry until they are served -/
  served : ∀ c ∈ s.pc.chosen, (alookup s.wake c).isSome = true
  /-- `new` completes only after a `set()` that has not been cleared -/
  observed : s.pc.isRacing = true → s.flagTaskDone = true → s.flag = true
  /-- while the sleep races against the event there is a wakeup -/
  racingWork : s.pc.isRacing = true → s.wake ≠ []

theorem LoopBase.init : LoopBase {} :=
  ⟨by simp [UniqueKeys], by simp [MLoopPc.chosen], by simp [MLoopPc.isRacing],
    by simp [MLoopPc.isRacing]⟩

theorem firstWakeups_some_of_ne_nil (w : Wakeups) (h : w ≠ []) :
    ∃ cs t, firstWakeups w = (cs, some t) := by
  cases hf : firstWakeups w with
  | mk cs o =>
    cases o with
    | some t => exact ⟨cs, t, rfl⟩
    | none =>
      have : (firstWakeups w).2 = none := by rw [hf]
      exact absurd ((firstWakeups_none w).mp this) h

theorem ne_nil_of_firstWakeups_some {w : Wakeups} {cs : List Comp} {t : SimTime}
    (hf : firstWakeups w = (cs, some t)) : w ≠ [] := by
  intro he
  have := (firstWakeups_none w).mpr he
  rw [hf] at this
  simp at this

theorem serveFirst_of_ne_nil (s : MLoopSt) (h : s.wake ≠ []) :
    ∃ cs w, firstWakeups s.wake = (cs, some w) ∧
      s.serveFirst = { s with wake := delWakeups s.wake cs, pc := .ticking cs w } := by
  obtain ⟨cs, w, hf⟩ := firstWakeups_some_of_ne_nil s.wake h
  exact ⟨cs, w, hf, by simp [MLoopSt.serveFirst, hf]⟩

theorem serveFirst_pc_not_racing (s : MLoopSt) :
    s.serveFirst.pc.isRacing = false ∧ s.serveFirst.pc.chosen = [] := by
  unfold MLoopSt.serveFirst
  split <;> simp [MLoopPc.isRacing, MLoopPc.chosen]

theorem LoopBase.serveFirst {s : MLoopSt} (h : LoopBase s) : LoopBase s.serveFirst := by
  obtain ⟨h1, h2⟩ := serveFirst_pc_not_racing s
  refine ⟨?_, by simp [h2], by simp [h1], by simp [h1]⟩
  unfold MLoopSt.serveFirst
  split
  · exact delWakeups_unique _ h.uniq _
  · exact h.uniq

theorem LoopBase.choose {s : MLoopSt} (h : LoopBase s) : LoopBase s.choose := by
  unfold MLoopSt.choose
  split
  · rename_i cs w hf
    refine ⟨h.uniq, ?_, ?_, ?_⟩
    · intro c hc
      simp only [MLoopPc.chosen] at hc
      have := ((firstWakeups_spec' _ h.uniq cs w hf).1 c).mp hc
      simp [this]
    · intro _ h'; simp at h'
    · intro _; exact ne_nil_of_firstWakeups_some hf
  · exact ⟨h.uniq, by simp [MLoopPc.chosen], by simp [MLoopPc.isRacing],
      by simp [MLoopPc.isRacing]⟩

theorem LoopBase.step {fixed : Bool} {s s' : MLoopSt} {a : MLoopAct} (h : LoopBase s)
    (hs : s.step fixed a = some s') : LoopBase s' := by
  obtain ⟨hu, hsv, hob, hrw⟩ := h
  cases a with
  | addWakeup c t =>
    simp only [MLoopSt.step] at hs
    split at hs
    · simp at hs
    · simp only [Option.some.injEq] at hs
      subst hs
      exact ⟨addWakeup_unique _ hu c t, fun c' hc' => addWakeup_isSome _ c c' t (hsv c' hc'),
        fun _ _ => rfl, fun _ => addWakeup_ne_nil _ c t⟩
  | newTaskRuns =>
    simp only [MLoopSt.step] at hs
    split at hs
    · rename_i hc
      simp only [Bool.and_eq_true] at hc
      simp only [Option.some.injEq] at hs
      subst hs
      exact ⟨hu, hsv, fun _ _ => hc.2, hrw⟩
    · simp at hs
  | sleepExpires =>
    simp only [MLoopSt.step] at hs
    split at hs
    · rename_i cs w hpc
      simp only [Option.some.injEq] at hs
      subst hs
      refine ⟨hu, ?_, ?_, ?_⟩
      · simpa [hpc, MLoopPc.chosen] using hsv
      · simpa [hpc, MLoopPc.isRacing] using hob
      · simpa [hpc, MLoopPc.isRacing] using hrw
    · simp at hs
  | step =>
    simp only [MLoopSt.step] at hs
    split at hs
    · -- top
      split at hs
      · simp only [Option.some.injEq] at hs
        subst hs
        cases fixed <;> exact ⟨hu, by simp [MLoopPc.chosen], by simp [MLoopPc.isRacing], by simp [MLoopPc.isRacing]⟩
      · simp only [Option.some.injEq] at hs
        subst hs
        exact LoopBase.choose ⟨hu, hsv, hob, hrw⟩
    · -- waiting
      split at hs
      · simp only [Option.some.injEq] at hs
        subst hs
        cases fixed
        · exact LoopBase.choose ⟨hu, hsv, hob, hrw⟩
        · exact ⟨hu, by simp [MLoopPc.chosen], by simp [MLoopPc.isRacing], by simp [MLoopPc.isRacing]⟩
      · simp at hs
    · -- sleeping
      split at hs
      · simp only [Option.some.injEq] at hs
        subst hs
        exact ⟨hu, by simp [MLoopPc.chosen], by simp [MLoopPc.isRacing], by simp [MLoopPc.isRacing]⟩
      · simp at hs
    · -- sleptNotResumed
      split at hs
      · simp only [Option.some.injEq] at hs
        subst hs
        exact ⟨hu, by simp [MLoopPc.chosen], by simp [MLoopPc.isRacing], by simp [MLoopPc.isRacing]⟩
      · simp only [Option.some.injEq] at hs
        subst hs
        cases fixed
        · exact ⟨delWakeups_unique _ hu _, by simp [MLoopPc.chosen], by simp [MLoopPc.isRacing],
            by simp [MLoopPc.isRacing]⟩
        · exact LoopBase.serveFirst ⟨hu, hsv, hob, hrw⟩
    · -- ticking
      simp only [Option.some.injEq] at hs
      subst hs
      exact ⟨hu, by simp [MLoopPc.chosen], by simp [MLoopPc.isRacing], by simp [MLoopPc.isRacing]⟩
    · simp at hs

theorem LoopBase.run {fixed : Bool} {s : MLoopSt} (h : LoopBase s) (acts : List MLoopAct) :
    LoopBase (s.run fixed acts) := by
  induction acts generalizing s with
  | nil => exact h
  | cons a as ih =>
    simp only [MLoopSt.run]
    split
    · rename_i s' hs; exact ih (h.step hs)
    · exact ih h

/-- the invariant of the REPAIRED loop. -/
structure MLoopInv (s : MLoopSt) : Prop where
  base : LoopBase s
  /-- the assertion has not failed -/
  alive : s.pc ≠ .dead
  /-- while waiting on the event, the flag says exactly whether there is a wakeup -/
  waitIff : s.pc = .waiting → (s.flag = true ↔ s.wake ≠ [])

theorem MLoopInv.init : MLoopInv {} :=
  ⟨LoopBase.init, by simp, by simp⟩

theorem choose_pc_of_ne_nil (s : MLoopSt) (h : s.wake ≠ []) :
    ∃ cs w, s.choose.pc = .sleeping cs w := by
  unfold MLoopSt.choose
  split
  · rename_i cs w _; exact ⟨cs, w, rfl⟩
  · rename_i x hf
    have : (firstWakeups s.wake).2 = none := by rw [hf]
    exact absurd ((firstWakeups_none _).mp this) h

theorem MLoopInv.step {s s' : MLoopSt} {a : MLoopAct} (h : MLoopInv s)
    (hs : s.step true a = some s') : MLoopInv s' := by
  refine ⟨h.base.step hs, ?_, ?_⟩
  · -- alive
    have hal := h.alive
    cases a with
    | addWakeup c t =>
      simp only [MLoopSt.step] at hs
      split at hs
      · simp at hs
      · simp only [Option.some.injEq] at hs; subst hs; exact hal
    | newTaskRuns =>
      simp only [MLoopSt.step] at hs
      split at hs
      · simp only [Option.some.injEq] at hs; subst hs; exact hal
      · simp at hs
    | sleepExpires =>
      simp only [MLoopSt.step] at hs
      split at hs
      · simp only [Option.some.injEq] at hs; subst hs; simp
      · simp at hs
    | step =>
      simp only [MLoopSt.step] at hs
      split at hs
      · split at hs
        · simp only [Option.some.injEq] at hs; subst hs; simp
        · rename_i hne
          simp only [Option.some.injEq] at hs; subst hs
          obtain ⟨cs, w, hpc⟩ := choose_pc_of_ne_nil s hne
          simp [hpc]
      · split at hs
        · simp only [Option.some.injEq] at hs; subst hs; simp
        · simp at hs
      · split at hs
        · simp only [Option.some.injEq] at hs; subst hs; simp
        · simp at hs
      · rename_i cs w hpc
        split at hs
        · simp only [Option.some.injEq] at hs; subst hs; simp
        · simp only [Option.some.injEq] at hs; subst hs
          obtain ⟨cs', w', _, he⟩ :=
            serveFirst_of_ne_nil s (h.base.racingWork (by simp [hpc, MLoopPc.isRacing]))
          simp [he]
      · simp only [Option.some.injEq] at hs; subst hs; simp
      · simp at hs
  · -- waitIff
    have hw := h.waitIff
    cases a with
    | addWakeup c t =>
      simp only [MLoopSt.step] at hs
      split at hs
      · simp at hs
      · simp only [Option.some.injEq] at hs; subst hs
        intro _
        simp [addWakeup_ne_nil]
    | newTaskRuns =>
      simp only [MLoopSt.step] at hs
      split at hs
      · simp only [Option.some.injEq] at hs; subst hs; exact hw
      · simp at hs
    | sleepExpires =>
      simp only [MLoopSt.step] at hs
      split at hs
      · simp only [Option.some.injEq] at hs; subst hs; simp
      · simp at hs
    | step =>
      simp only [MLoopSt.step] at hs
      split at hs
      · split at hs
        · rename_i he
          simp only [Option.some.injEq] at hs; subst hs; simp [he]
        · rename_i hne
          simp only [Option.some.injEq] at hs; subst hs
          obtain ⟨cs, w, hpc⟩ := choose_pc_of_ne_nil s hne
          simp [hpc]
      · split at hs
        · simp only [Option.some.injEq] at hs; subst hs; simp
        · simp at hs
      · split at hs
        · simp only [Option.some.injEq] at hs; subst hs; simp
        · simp at hs
      · rename_i cs w hpc
        split at hs
        · simp only [Option.some.injEq] at hs; subst hs; simp
        · simp only [Option.some.injEq] at hs; subst hs
          obtain ⟨cs', w', _, he⟩ :=
            serveFirst_of_ne_nil s (h.base.racingWork (by simp [hpc, MLoopPc.isRacing]))
          simp [he]
      · simp only [Option.some.injEq] at hs; subst hs; simp
      · simp at hs

theorem MLoopInv.run {s : MLoopSt} (h : MLoopInv s) (acts : List MLoopAct) :
    MLoopInv (s.run true acts) := by
  induction acts generalizing s with
  | nil => exact h
  | cons a as ih =>
    simp only [MLoopSt.run]
    split
    · rename_i s' hs; exact ih (h.step hs)
    · exact ih h

end Tickit
