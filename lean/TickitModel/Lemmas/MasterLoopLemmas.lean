/-
Invariants of the master run loop's flag protocol (`Core/MasterLoop.lean`).
-/
import TickitModel.Core.MasterLoop
import TickitModel.Props.C06

namespace Tickit

theorem addWakeup_ne_nil (w : Wakeups) (c : Comp) (t : SimTime) : addWakeup w c t ≠ [] := by
  cases w with
  | nil => simp [addWakeup, upsert]
  | cons e w =>
    obtain ⟨k, v⟩ := e
    simp only [addWakeup, upsert]
    split <;> simp

theorem addWakeup_isSome (w : Wakeups) (c c' : Comp) (t : SimTime)
    (h : (alookup w c').isSome = true) : (alookup (addWakeup w c t) c').isSome = true := by
  rw [addWakeup_lookup]
  split
  · rfl
  · exact h

/-- the part of the invariant that holds for the repaired AND for the original loop. -/
structure LoopBase (s : LoopSt) : Prop where
  /-- `self.wakeups` is a dict -/
  uniq : UniqueKeys s.wake
  /-- the chosen components keep an entry until they are served -/
  served : ∀ c ∈ s.pc.chosen, (alookup s.wake c).isSome = true
  /-- `new` completes only after a `set()` that has not been cleared -/
  observed : s.pc.isRacing = true → s.flagTaskDone = true → s.flag = true

theorem LoopBase.init : LoopBase {} :=
  ⟨by simp [UniqueKeys], by simp [LoopPc.chosen], by simp [LoopPc.isRacing]⟩

theorem LoopBase.choose {s : LoopSt} (h : LoopBase s) : LoopBase s.choose := by
  unfold LoopSt.choose
  split
  · rename_i cs w hf
    refine ⟨h.uniq, ?_, ?_⟩
    · intro c hc
      simp only [LoopPc.chosen] at hc
      have := ((firstWakeups_spec' _ h.uniq cs w hf).1 c).mp hc
      simp [this]
    · intro _ h'; simp at h'
  · exact ⟨h.uniq, by simp [LoopPc.chosen], by simp [LoopPc.isRacing]⟩

theorem LoopBase.step {fixed : Bool} {s s' : LoopSt} {a : LoopAct} (h : LoopBase s)
    (hs : s.step fixed a = some s') : LoopBase s' := by
  obtain ⟨hu, hsv, hob⟩ := h
  cases a with
  | addWakeup c t =>
    simp only [LoopSt.step] at hs
    split at hs
    · simp at hs
    · simp only [Option.some.injEq] at hs
      subst hs
      exact ⟨addWakeup_unique _ hu c t, fun c' hc' => addWakeup_isSome _ c c' t (hsv c' hc'),
        fun _ _ => rfl⟩
  | newTaskRuns =>
    simp only [LoopSt.step] at hs
    split at hs
    · rename_i hc
      simp only [Bool.and_eq_true] at hc
      simp only [Option.some.injEq] at hs
      subst hs
      exact ⟨hu, hsv, fun _ _ => hc.2⟩
    · simp at hs
  | sleepExpires =>
    simp only [LoopSt.step] at hs
    split at hs
    · rename_i cs w hpc
      simp only [Option.some.injEq] at hs
      subst hs
      refine ⟨hu, ?_, ?_⟩
      · simpa [hpc, LoopPc.chosen] using hsv
      · simpa [hpc, LoopPc.isRacing] using hob
    · simp at hs
  | step =>
    simp only [LoopSt.step] at hs
    split at hs
    · -- top
      split at hs
      · simp only [Option.some.injEq] at hs
        subst hs
        cases fixed <;> exact ⟨hu, by simp [LoopPc.chosen], by simp [LoopPc.isRacing]⟩
      · simp only [Option.some.injEq] at hs
        subst hs
        exact LoopBase.choose ⟨hu, hsv, hob⟩
    · -- waiting
      split at hs
      · simp only [Option.some.injEq] at hs
        subst hs
        cases fixed
        · exact LoopBase.choose ⟨hu, hsv, hob⟩
        · exact ⟨hu, by simp [LoopPc.chosen], by simp [LoopPc.isRacing]⟩
      · simp at hs
    · -- sleeping
      split at hs
      · simp only [Option.some.injEq] at hs
        subst hs
        exact ⟨hu, by simp [LoopPc.chosen], by simp [LoopPc.isRacing]⟩
      · simp at hs
    · -- sleptNotResumed
      split at hs
      · simp only [Option.some.injEq] at hs
        subst hs
        exact ⟨hu, by simp [LoopPc.chosen], by simp [LoopPc.isRacing]⟩
      · simp only [Option.some.injEq] at hs
        subst hs
        exact ⟨delWakeups_unique _ hu _, by simp [LoopPc.chosen], by simp [LoopPc.isRacing]⟩
    · -- ticking
      simp only [Option.some.injEq] at hs
      subst hs
      exact ⟨hu, by simp [LoopPc.chosen], by simp [LoopPc.isRacing]⟩
    · simp at hs

theorem LoopBase.run {fixed : Bool} {s : LoopSt} (h : LoopBase s) (acts : List LoopAct) :
    LoopBase (s.run fixed acts) := by
  induction acts generalizing s with
  | nil => exact h
  | cons a as ih =>
    simp only [LoopSt.run]
    split
    · rename_i s' hs; exact ih (h.step hs)
    · exact ih h

/-- the invariant of the REPAIRED loop. -/
structure LoopInv (s : LoopSt) : Prop where
  base : LoopBase s
  /-- the assertion has not failed -/
  alive : s.pc ≠ .dead
  /-- while waiting on the event, the flag says exactly whether there is a wakeup -/
  waitIff : s.pc = .waiting → (s.flag = true ↔ s.wake ≠ [])

theorem LoopInv.init : LoopInv {} :=
  ⟨LoopBase.init, by simp, by simp⟩

theorem choose_pc_of_ne_nil (s : LoopSt) (h : s.wake ≠ []) :
    ∃ cs w, s.choose.pc = .sleeping cs w := by
  unfold LoopSt.choose
  split
  · rename_i cs w _; exact ⟨cs, w, rfl⟩
  · rename_i x hf
    have : (firstWakeups s.wake).2 = none := by rw [hf]
    exact absurd ((firstWakeups_none _).mp this) h

theorem LoopInv.step {s s' : LoopSt} {a : LoopAct} (h : LoopInv s)
    (hs : s.step true a = some s') : LoopInv s' := by
  refine ⟨h.base.step hs, ?_, ?_⟩
  · -- alive
    have hal := h.alive
    cases a with
    | addWakeup c t =>
      simp only [LoopSt.step] at hs
      split at hs
      · simp at hs
      · simp only [Option.some.injEq] at hs; subst hs; exact hal
    | newTaskRuns =>
      simp only [LoopSt.step] at hs
      split at hs
      · simp only [Option.some.injEq] at hs; subst hs; exact hal
      · simp at hs
    | sleepExpires =>
      simp only [LoopSt.step] at hs
      split at hs
      · simp only [Option.some.injEq] at hs; subst hs; simp
      · simp at hs
    | step =>
      simp only [LoopSt.step] at hs
      split at hs
      · split at hs
        · simp only [Option.some.injEq] at hs; subst hs; simp
        · rename_i hne
          simp only [Option.some.injEq] at hs; subst hs
          obtain ⟨cs, w, hpc⟩ := choose_pc_of_ne_nil s hne
          simp [hpc]
      · split at hs
        · simp only [Option.some.injEq] at hs; subst hs; simp
        · simp at hs
      · split at hs
        · simp only [Option.some.injEq] at hs; subst hs; simp
        · simp at hs
      · split at hs
        · simp only [Option.some.injEq] at hs; subst hs; simp
        · simp only [Option.some.injEq] at hs; subst hs; simp
      · simp only [Option.some.injEq] at hs; subst hs; simp
      · simp at hs
  · -- waitIff
    have hw := h.waitIff
    cases a with
    | addWakeup c t =>
      simp only [LoopSt.step] at hs
      split at hs
      · simp at hs
      · simp only [Option.some.injEq] at hs; subst hs
        intro _
        simp [addWakeup_ne_nil]
    | newTaskRuns =>
      simp only [LoopSt.step] at hs
      split at hs
      · simp only [Option.some.injEq] at hs; subst hs; exact hw
      · simp at hs
    | sleepExpires =>
      simp only [LoopSt.step] at hs
      split at hs
      · simp only [Option.some.injEq] at hs; subst hs; simp
      · simp at hs
    | step =>
      simp only [LoopSt.step] at hs
      split at hs
      · split at hs
        · rename_i he
          simp only [Option.some.injEq] at hs; subst hs; simp [he]
        · rename_i hne
          simp only [Option.some.injEq] at hs; subst hs
          obtain ⟨cs, w, hpc⟩ := choose_pc_of_ne_nil s hne
          simp [hpc]
      · split at hs
        · simp only [Option.some.injEq] at hs; subst hs; simp
        · simp at hs
      · split at hs
        · simp only [Option.some.injEq] at hs; subst hs; simp
        · simp at hs
      · split at hs
        · simp only [Option.some.injEq] at hs; subst hs; simp
        · simp only [Option.some.injEq] at hs; subst hs; simp
      · simp only [Option.some.injEq] at hs; subst hs; simp
      · simp at hs

theorem LoopInv.run {s : LoopSt} (h : LoopInv s) (acts : List LoopAct) :
    LoopInv (s.run true acts) := by
  induction acts generalizing s with
  | nil => exact h
  | cons a as ih =>
    simp only [LoopSt.run]
    split
    · rename_i s' hs; exact ih (h.step hs)
    · exact ih h

end Tickit
