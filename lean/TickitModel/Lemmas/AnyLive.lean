/-
Any-order nested tick, part 11: the FIFO model completes every tick that has an any-order
execution.  If `TickLevelAny S orc lvl t roots inCh st r` holds for SOME choice of answer orders,
then `tickLevel` (first-in first-out at every level) succeeds on every equivalent input, for every
sufficiently large fuel.  Together with determinism this makes "agrees with the FIFO model"
unconditional.

The FIFO loop is simulated step by step against the complete execution: every dispatch the FIFO
ticker hands out is equivalent to the one the same component received in the complete execution
(`sameDispatch_partial`: the tick equations, for a PARTIAL second trace), so the recorded answer of
that component shows that the FIFO answer exists (same oracle entry; for a system component the
induction hypothesis of its inner tick); `propagate` cannot fail and the loop cannot stall under the
invariant.
-/
import TickitModel.Lemmas.AnyDet
import TickitModel.Lemmas.FlatSyncLemmas

namespace Tickit

/-! ### the tick equations against a partial trace -/

section

variable {Val : Type}

/-- every dispatch of a PARTIAL trace `tr2` of a tick is equivalent to the dispatch the same
component received in a COMPLETE trace `tr1` of the same tick (roots equal as sets), provided the
answers of a component to equivalent dispatches agree as mappings. -/
theorem sameDispatch_partial {w : Wiring} (hw : RouterOK w) (hacyc : w.Acyclic) {t : SimTime}
    {roots roots' : List Comp} (hroots : ∀ c, c ∈ roots ↔ c ∈ roots') {tr1 tr2 : List (Ev Val)}
    (h1 : TraceFin w t roots tr1)
    {tu2 : List (Comp × Bool)} {pending2 : List (Dispatch Val)}
    {inputs2 : List (Comp × List (Port × Val))}
    (hp2 : PreInv w t roots' tu2 pending2 tr2) (he2 : TrPre w t roots' inputs2 tr2)
    (hans : ∀ a d1 d2 ch1 ch2, dispatchOf tr1 a = some d1 → dispatchOf tr2 a = some d2 →
      Dispatch.Equiv d1 d2 → Ev.answer a ch1 ∈ tr1 → Ev.answer a ch2 ∈ tr2 →
      ∀ p, alookup ch1 p = alookup ch2 p)
    (c : Comp) (d2 : Dispatch Val) (hd2 : dispatchOf tr2 c = some d2) :
    ∃ d1, dispatchOf tr1 c = some d1 ∧ Dispatch.Equiv d1 d2 := by
  obtain ⟨rank, hrank⟩ := hacyc
  suffices key : ∀ n c, rank c < n → ∀ d2, dispatchOf tr2 c = some d2 →
      ∃ d1, dispatchOf tr1 c = some d1 ∧ Dispatch.Equiv d1 d2 from
    key _ c (Nat.lt_succ_self _) d2 hd2
  intro n
  induction n with
  | zero => intro c hc; omega
  | succ n ih =>
    intro c hc d2 hd2
    obtain ⟨hd2m, hd2c⟩ := dispatchOf_eq_some hd2
    have hce' : c ∈ extent w roots' := hd2c ▸ (hp2.disp_ext d2 hd2m).1
    have hce : c ∈ extent w roots := (Det.extent_congr w hroots c).2 hce'
    have hin_ext : ∀ a d, dispatchOf tr1 a = some d → a ∈ extent w roots := by
      intro a d hd
      apply Classical.byContradiction
      intro hn
      rw [(h1.none_iff a).2 hn] at hd; cases hd
    cases h1c : dispatchOf tr1 c with
    | none => exact absurd hce ((h1.none_iff c).1 h1c)
    | some d1 =>
      refine ⟨d1, rfl, ?_⟩
      obtain ⟨us, hus⟩ := Option.isSome_iff_exists.1 (he2.ups d2 hd2m)
      rw [hd2c] at hus
      obtain ⟨pre, post, htr⟩ := List.append_of_mem hd2m
      have hlt : ∀ a p q, w.Conn a p c q → rank a < n := by
        intro a p q hconn
        have := hrank c us a hus ((hw.ups_edge c us hus a).2 ⟨p, q, hconn⟩)
        omega
      have hch : ∀ q v, Changed w tr1 c q v ↔ Changed w tr2 c q v := by
        intro q v
        constructor
        · rintro ⟨a, chs, p, hm, hconn, hv⟩
          obtain ⟨da1, hda1⟩ := h1.ans_disp a chs hm
          have hae : a ∈ extent w roots' := (Det.extent_congr w hroots a).1 (hin_ext a da1 hda1)
          have hau : a ∈ us := (hw.ups_edge c us hus a).2 ⟨p, q, hconn⟩
          obtain ⟨ch2, hch2⟩ := hp2.order pre d2 post htr us (hd2c ▸ hus) a hau hae
          have hch2' : Ev.answer a ch2 ∈ tr2 := by rw [htr]; exact List.mem_append_left _ hch2
          obtain ⟨da2, hda2⟩ := hp2.answer_dispatched hch2'
          obtain ⟨da1', hda1', he⟩ := ih a (hlt a p q hconn) da2 hda2
          rw [hda1] at hda1'
          cases hda1'
          have := hans a da1 da2 chs ch2 hda1 hda2 he hm hch2' p
          exact ⟨a, ch2, p, hch2', hconn, this ▸ hv⟩
        · rintro ⟨a, chs, p, hm, hconn, hv⟩
          obtain ⟨da2, hda2⟩ := hp2.answer_dispatched hm
          obtain ⟨da1, hda1, he⟩ := ih a (hlt a p q hconn) da2 hda2
          obtain ⟨ch1, hch1⟩ := h1.answered a (hin_ext a da1 hda1)
          have := hans a da1 da2 ch1 chs hda1 hda2 he hch1 hm p
          exact ⟨a, ch1, p, hch1, hconn, this.symm ▸ hv⟩
      rcases h1.spec c d1 h1c with ⟨i1, rfl, hr1, hi1⟩ | ⟨rfl, hnr1, hno1⟩ <;>
        rcases trace_dispatch_spec hw hp2 he2 hd2 with ⟨i2, rfl, hr2, hi2⟩ | ⟨rfl, hnr2, hno2⟩
      · exact ⟨rfl, rfl, fun q => option_ext_some (fun v =>
          (hi1 q v).trans ((hch q v).trans (hi2 q v).symm))⟩
      · rcases hr1 with hr1 | ⟨q, v, hr1⟩
        · exact absurd ((hroots c).1 hr1) hnr2
        · exact absurd ((hch q v).1 hr1) (hno2 q v)
      · rcases hr2 with hr2 | ⟨q, v, hr2⟩
        · exact absurd ((hroots c).2 hr2) hnr1
        · exact absurd ((hch q v).2 hr2) (hno1 q v)
      · exact ⟨rfl, rfl⟩

end

/-! ### records of two executions of the same level -/

section

variable {S : Static} {orc : Oracle}

/-- two records of the same component with equivalent dispatches: equivalent results -/
theorem Inv2.recs_det (hS : S.Valid) {inner1 inner2 : LevelRel}
    (hi1 : ∀ c t ro i s r, inner1 c t ro i s r → LevelDet S orc c t ro i s r)
    (hi2 : ∀ c t ro i s r, inner2 c t ro i s r → TickLevelAny S orc c t ro i s r)
    {L : Level} (hL : L ∈ S.levels) {inCh1 inCh2 : List (Port × V)} (hin : MapEq inCh1 inCh2)
    {t : SimTime} {roots1 roots2 : List Comp}
    {st1 st2 : SimSt} (hst : EqOn (AtOrBelow S L.name) st1 st2)
    {ls1 ls2 : LoopSt} {tr1 tr2 : List (Ev V)} {recs1 recs2 : List AnsRec}
    (inv1 : Inv2 S orc inner1 L inCh1 t roots1 st1 ls1 tr1 recs1)
    (inv2 : Inv2 S orc inner2 L inCh2 t roots2 st2 ls2 tr2 recs2) :
    ∀ r1 ∈ recs1, ∀ r2 ∈ recs2, r1.d.comp = r2.d.comp → Dispatch.Equiv r1.d r2.d →
      (∀ x, Foot S L r1.d.comp x → (r1.post.loc x).Equiv (r2.post.loc x)) ∧ MapEq r1.ch r2.ch ∧
        r1.ca = r2.ca := by
  intro r1 hr1 r2 hr2 hc he
  obtain ⟨hd1, ha1, hp1, _, _⟩ := inv1.recs_ok r1 hr1
  obtain ⟨hd2, ha2, hp2, _, _⟩ := inv2.recs_ok r2 hr2
  have hdc : r1.d.comp ∈ L.wiring.components :=
    (Wiring.ups_isSome_iff' L.wiring _).1 (inv1.eq.ups _ hd1)
  refine AnsP.det hS hi1 hi2 hL hin he (inv1.ins.2 _ hd1) (inv2.ins.2 _ hd2) hdc ?_ ha1 ha2
  intro x hx
  rw [hp1 x hx, hp2 x (hc ▸ hx)]
  exact hst x (Or.inr hx.below)

theorem Inv2.answers_agree (hS : S.Valid) {inner1 inner2 : LevelRel}
    (hi1 : ∀ c t ro i s r, inner1 c t ro i s r → LevelDet S orc c t ro i s r)
    (hi2 : ∀ c t ro i s r, inner2 c t ro i s r → TickLevelAny S orc c t ro i s r)
    {L : Level} (hL : L ∈ S.levels) {inCh1 inCh2 : List (Port × V)} (hin : MapEq inCh1 inCh2)
    {t : SimTime} {roots1 roots2 : List Comp}
    {st1 st2 : SimSt} (hst : EqOn (AtOrBelow S L.name) st1 st2)
    {ls1 ls2 : LoopSt} {tr1 tr2 : List (Ev V)} {recs1 recs2 : List AnsRec}
    (inv1 : Inv2 S orc inner1 L inCh1 t roots1 st1 ls1 tr1 recs1)
    (inv2 : Inv2 S orc inner2 L inCh2 t roots2 st2 ls2 tr2 recs2) :
    ∀ a d1 d2 ch1 ch2, dispatchOf tr1 a = some d1 → dispatchOf tr2 a = some d2 →
      Dispatch.Equiv d1 d2 → Ev.answer a ch1 ∈ tr1 → Ev.answer a ch2 ∈ tr2 →
      ∀ p, alookup ch1 p = alookup ch2 p := by
  intro a d1 d2 ch1 ch2 h1 h2 he hm1 hm2
  obtain ⟨r1, hr1, hc1, hch1, hdo1⟩ := inv1.rec_of_answer hm1
  obtain ⟨r2, hr2, hc2, hch2, hdo2⟩ := inv2.rec_of_answer hm2
  rw [h1] at hdo1
  rw [h2] at hdo2
  cases hdo1
  cases hdo2
  have := (inv1.recs_det hS hi1 hi2 hL hin hst inv2 r1 hr1 r2 hr2 (hc1.trans hc2.symm) he).2.1
  rw [hch1, hch2] at this
  exact this

end

/-! ### one answer of the FIFO model exists -/

section

variable {S : Static} {orc : Oracle}

/-- the FIFO model's tick as a relation -/
def fifoRel (S : Static) (orc : Oracle) (fuel : Nat) : LevelRel :=
  fun lvl t ro i s r => tickLevel S orc fuel lvl t ro i s = .ok r

/-- liveness statement for one execution of a tick: the FIFO model completes the same tick from
every equivalent input, with every fuel from some bound on -/
def LiveQ (S : Static) (orc : Oracle) : LevelRel := fun lvl t roots inCh st _ =>
  (akeys inCh).Nodup → ∃ F : Nat, ∀ (roots' : List Comp) (inCh' : List (Port × V)) (st' : SimSt),
    (∀ c, c ∈ roots ↔ c ∈ roots') → MapEq inCh inCh' → (akeys inCh').Nodup →
    EqOn (AtOrBelow S lvl) st st' →
    ∀ fuel, F ≤ fuel → ∃ rf, tickLevel S orc fuel lvl t roots' inCh' st' = .ok rf

/-- the FIFO model's answer exists for every dispatch equivalent to `d` in every state equivalent
to `σ` on the footprint, with every fuel `≥ F` -/
def LiveAns (S : Static) (orc : Oracle) (L : Level) (d : Dispatch V) (σ : SimSt) (F : Nat) : Prop :=
  ∀ (fuel : Nat), F ≤ fuel → ∀ (inCh2 : List (Port × V)) (σ2 : SimSt) (o2 : List (Port × V))
    (d2 : Dispatch V), Dispatch.Equiv d d2 → Det.InsNodup d2 →
    (∀ x, Foot S L d.comp x → (σ.loc x).Equiv (σ2.loc x)) →
    ∃ res, simAnswer S orc fuel L inCh2 σ2 o2 d2 = .ok res

theorem LiveAns.mono {L : Level} {d : Dispatch V} {σ : SimSt} {F F' : Nat}
    (h : LiveAns S orc L d σ F) (hF : F ≤ F') : LiveAns S orc L d σ F' :=
  fun fuel hfu => h fuel (Nat.le_trans hF hfu)

theorem simAnswer_sys {fuel : Nat} {L : Level} {inCh : List (Port × V)} {st : SimSt}
    {o : List (Port × V)} {c : Comp} {t : SimTime} {ins : List (Port × V)}
    (h1 : (L.name != "" && c == pseudoExternal) = false)
    (h2 : (L.name != "" && c == pseudoExpose) = false) (h3 : S.isSys c = true) :
    simAnswer S orc fuel L inCh st o (.input c t ins) =
      match tickLevel S orc fuel c t (sysRoots S st c t) ins (sysPre st c t) with
      | .error e => .error e
      | .ok (st2, outCh) => .ok (st2, o, outCh, sysCallAt st2 c t) := by
  simp only [simAnswer, h1, h2, h3, Bool.false_eq_true, if_false, if_true]
  rfl

theorem simAnswer_dev {fuel : Nat} {L : Level} {inCh : List (Port × V)} {st : SimSt}
    {o : List (Port × V)} {c : Comp} {t : SimTime} {ins : List (Port × V)} {resp : DevResp}
    (h1 : (L.name != "" && c == pseudoExternal) = false)
    (h2 : (L.name != "" && c == pseudoExpose) = false) (h3 : S.isSys c = false)
    (h4 : (agetD orc c [])[agetD st.count c 0]? = some resp) (h5 : resp.raises = false) :
    simAnswer S orc fuel L inCh st o (.input c t ins) =
      .ok ((devAfter st c t ins resp).1, o, (devAfter st c t ins resp).2, resp.callAt) := by
  simp only [simAnswer, h1, h2, h3, h4, h5, Bool.false_eq_true, if_false]
  rfl

/-- the scheduler state and the start state of the inner tick of a system component, in two
states that are equivalent on the component's footprint -/
theorem sysPre_eqOn (hS : S.Valid) {L : Level} {c : Comp} (hpar : alookup S.parent c = some L.name)
    (hsys : S.isSys c = true) {σ1 σ2 : SimSt}
    (hσ : ∀ x, Foot S L c x → (σ1.loc x).Equiv (σ2.loc x)) (t : SimTime) :
    (σ1.sched c).Equiv (σ2.sched c) ∧ EqOn (AtOrBelow S c) (sysPre σ1 c t) (sysPre σ2 c t) := by
  have hcne : c ≠ "" := hS.sys_ne_master hsys
  have hfoot : ∀ x, AtOrBelow S c x → Foot S L c x := by
    rintro x (rfl | hb)
    · exact ⟨hpar, Or.inl rfl⟩
    · exact ⟨hpar, Or.inr ⟨hcne, hb⟩⟩
  have hc := hσ c (hfoot c (Or.inl rfl))
  have hsch : (σ1.sched c).Equiv (σ2.sched c) := hc.sch
  refine ⟨hsch, ?_⟩
  intro x hx
  by_cases hxc : x = c
  · subst hxc
    rw [loc_sysPre_self, loc_sysPre_self]
    exact ⟨hc.ins, hc.outs, hc.cnt, sysPreSched_equiv hsch t, hc.ob⟩
  · rw [loc_sysPre_ne _ _ _ hxc, loc_sysPre_ne _ _ _ hxc]
    exact hσ x (hfoot x hx)

/-- an `AnsP` answer whose inner tick (if any) is live shows that the FIFO answer exists -/
theorem AnsP.live (hS : S.Valid) {inner : LevelRel}
    (hin : ∀ c t ro i s r, inner c t ro i s r → LiveQ S orc c t ro i s r)
    {L : Level} (hL : L ∈ S.levels) {inCh : List (Port × V)} {σ : SimSt} {d : Dispatch V}
    {res : SimSt × List (Port × V) × Option SimTime} (a : AnsP S orc inner L inCh σ d res)
    (hdc : d.comp ∈ L.wiring.components) (hnd : Det.InsNodup d) :
    ∃ F, LiveAns S orc L d σ F := by
  cases a with
  | skip =>
    refine ⟨0, ?_⟩
    intro fuel _ inCh2 σ2 o2 d2 he _ _
    cases d2 with
    | input c' t' i' => exact he.elim
    | skip c' t' => exact ⟨_, rfl⟩
  | @external c t ins e1 =>
    refine ⟨0, ?_⟩
    intro fuel _ inCh2 σ2 o2 d2 he _ _
    cases d2 with
    | skip c' t' => exact he.elim
    | input c' t' i' =>
      obtain ⟨rfl, rfl, _⟩ : c = c' ∧ t = t' ∧ ∀ q, alookup ins q = alookup i' q := he
      simp only [simAnswer, e1, if_true]
      exact ⟨_, rfl⟩
  | @expose c t ins e1 e2 =>
    refine ⟨0, ?_⟩
    intro fuel _ inCh2 σ2 o2 d2 he _ _
    cases d2 with
    | skip c' t' => exact he.elim
    | input c' t' i' =>
      obtain ⟨rfl, rfl, _⟩ : c = c' ∧ t = t' ∧ ∀ q, alookup ins q = alookup i' q := he
      simp only [simAnswer, e1, e2, Bool.false_eq_true, if_false, if_true]
      exact ⟨_, rfl⟩
  | @sys c t ins st2 outCh e1 e2 e3 e4 =>
    obtain ⟨F, hF⟩ := hin _ _ _ _ _ _ e4 hnd
    have hpar := parent_of_not_pseudo hS hL hdc e1 e2
    refine ⟨F, ?_⟩
    intro fuel hfu inCh2 σ2 o2 d2 he hn2 hσ
    cases d2 with
    | skip c' t' => exact he.elim
    | input c' t' i' =>
      obtain ⟨rfl, rfl, hi⟩ : c = c' ∧ t = t' ∧ ∀ q, alookup ins q = alookup i' q := he
      obtain ⟨hsch, hpre⟩ := sysPre_eqOn hS hpar e3 hσ t
      obtain ⟨rf, hrf⟩ := hF (sysRoots S σ2 c t) i' (sysPre σ2 c t) (mem_sysRoots_congr hsch t) hi hn2
        hpre fuel hfu
      rw [simAnswer_sys e1 e2 e3, hrf]
      exact ⟨_, rfl⟩
  | @dev c t ins resp e1 e2 e3 e4 e5 =>
    have hpar := parent_of_not_pseudo hS hL hdc e1 e2
    refine ⟨0, ?_⟩
    intro fuel _ inCh2 σ2 o2 d2 he _ hσ
    cases d2 with
    | skip c' t' => exact he.elim
    | input c' t' i' =>
      obtain ⟨rfl, rfl, _⟩ : c = c' ∧ t = t' ∧ ∀ q, alookup ins q = alookup i' q := he
      have hcnt : agetD σ.count c 0 = agetD σ2.count c 0 := (hσ c ⟨hpar, Or.inl rfl⟩).cnt
      rw [hcnt] at e4
      rw [simAnswer_dev e1 e2 e3 e4 e5]
      exact ⟨_, rfl⟩

/-- one bound for all records -/
theorem recs_live_bound {L : Level} (recs : List AnsRec)
    (h : ∀ r ∈ recs, ∃ F, LiveAns S orc L r.d r.pre F) :
    ∃ F, ∀ r ∈ recs, LiveAns S orc L r.d r.pre F := by
  induction recs with
  | nil => exact ⟨0, by simp⟩
  | cons r recs ih =>
    obtain ⟨F1, h1⟩ := h r (by simp)
    obtain ⟨F2, h2⟩ := ih (fun r' hr' => h r' (List.mem_cons_of_mem _ hr'))
    refine ⟨max F1 F2, ?_⟩
    intro r' hr'
    rcases List.mem_cons.1 hr' with rfl | hr'
    · exact h1.mono (Nat.le_max_left _ _)
    · exact (h2 r' hr').mono (Nat.le_max_right _ _)

end

/-! ### the FIFO loop cannot fail -/

section

variable {S : Static} {orc : Oracle}

theorem propagate_ok {w : Wiring} {tk : Ticker V} {src : Comp} {t : SimTime} {ch : List (Port × V)}
    (h1 : alookup tk.toUpdate src ≠ none) (h2 : t = tk.time)
    (h3 : ∀ e ∈ aerase tk.toUpdate src, e.2 = false → (w.ups e.1).isSome = true) :
    ∃ r, tk.propagate w src t ch = .ok r := by
  obtain ⟨ds, hds⟩ := scheduleLoop_ok (w := w) (tk.afterAnswer w src ch) (l := aerase tk.toUpdate src) h3
  simp only [Ticker.afterAnswer] at hds
  have hn : (alookup tk.toUpdate src).isNone = false := by
    cases h : alookup tk.toUpdate src with
    | none => exact absurd h h1
    | some b => rfl
  simp only [Ticker.propagate, hn, Bool.false_eq_true, if_false, h2, ne_eq, not_true_eq_false,
    Ticker.schedule, hds, Except.map]
  exact ⟨_, rfl⟩

/-- while anything is left to update, something is pending (C01 progress, for the loop state) -/
theorem anyLoop_progress {w : Wiring} (hacyc : w.Acyclic) {t : SimTime} {roots : List Comp}
    {tk : Ticker V} {pending : List (Dispatch V)} {tr : List (Ev V)}
    (hp : PreInv w t roots tk.toUpdate pending tr) (hc : Complete w tk.toUpdate) (ht : tk.time = t)
    (hne : tk.toUpdate ≠ []) : pending ≠ [] := by
  have hinv : TickInv w t roots (⟨{ tk with finished := false }, pending, tr⟩ : TickSys V) :=
    ⟨hp, hc, ht, fun h => by cases h⟩
  exact hinv.progress hacyc hne

/-- **the FIFO loop of a level completes**, given a complete any-order execution of the same tick
whose recorded answers are live -/
theorem fifo_loop_ok (hS : S.Valid) {fuel : Nat} {L : Level} (hL : L ∈ S.levels)
    {inCh1 inCh2 : List (Port × V)} (hin : MapEq inCh1 inCh2) (hn2 : (akeys inCh2).Nodup)
    {t : SimTime} {roots1 roots2 : List Comp} (hroots : ∀ c, c ∈ roots1 ↔ c ∈ roots2)
    {st1 st2 : SimSt} (hst : EqOn (AtOrBelow S L.name) st1 st2)
    {inner1 : LevelRel} (hi1 : ∀ c t ro i s r, inner1 c t ro i s r → TickLevelAny S orc c t ro i s r)
    {ls1 : LoopSt} {tr1 : List (Ev V)} {recs1 : List AnsRec}
    (inv1 : Inv2 S orc inner1 L inCh1 t roots1 st1 ls1 tr1 recs1) (hf1 : ls1.tk.toUpdate = [])
    (hlive : ∀ r ∈ recs1, LiveAns S orc L r.d r.pre fuel)
    (hups : ∀ c ∈ extent L.wiring roots2, (L.wiring.ups c).isSome = true) :
    ∀ (n : Nat) (ls2 : LoopSt) (tr2 : List (Ev V)) (recs2 : List AnsRec),
      Inv2 S orc (fifoRel S orc fuel) L inCh2 t roots2 st2 ls2 tr2 recs2 →
      Complete L.wiring ls2.tk.toUpdate → ls2.tk.toUpdate.length ≤ n →
      ∀ steps, n + 1 ≤ steps → ∃ rf, tickLoop S orc fuel steps L inCh2 ls2 = .ok rf := by
  have hw := hS.routerOK hL
  have hacyc := hS.acyclic L hL
  have F1 : TraceFin L.wiring t roots1 tr1 := TraceFin.of_inv hw (hf1 ▸ inv1.pre) inv1.eq
  have hd1 : ∀ c t ro i s r, inner1 c t ro i s r → LevelDet S orc c t ro i s r :=
    fun _ _ _ _ _ _ h => tickLevelAny_det hS (hi1 _ _ _ _ _ _ h)
  have hi2 : ∀ c t ro i s r, fifoRel S orc fuel c t ro i s r → TickLevelAny S orc c t ro i s r :=
    fun _ _ _ _ _ _ h => tickLevel_any _ _ _ _ _ _ _ h
  have hp2 : ∀ c t ro i s r, fifoRel S orc fuel c t ro i s r → LevelPost1 S c s r :=
    fun _ _ _ _ _ _ h => tickLevelAny_post1 hS (hi2 _ _ _ _ _ _ h)
  intro n
  induction n with
  | zero =>
    intro ls2 tr2 recs2 inv2 hcomp hlen steps hsteps
    have htu : ls2.tk.toUpdate = [] := List.length_eq_zero_iff.1 (Nat.le_zero.1 hlen)
    obtain ⟨s, rfl⟩ : ∃ s, steps = s + 1 := ⟨steps - 1, by omega⟩
    have hpend : ls2.pending = [] := by
      cases hp : ls2.pending with
      | nil => rfl
      | cons d rest =>
        have := (inv2.pre.pend_flag d.comp).1 ⟨d, by rw [hp]; simp, rfl⟩
        rw [htu] at this
        cases this
    rw [tickLoop_nil _ _ _ _ _ _ _ hpend, htu]
    exact ⟨_, rfl⟩
  | succ n ih =>
    intro ls2 tr2 recs2 inv2 hcomp hlen steps hsteps
    obtain ⟨s, rfl⟩ : ∃ s, steps = s + 1 := ⟨steps - 1, by omega⟩
    cases hp : ls2.pending with
    | nil =>
      have htu : ls2.tk.toUpdate = [] := by
        apply Classical.byContradiction
        intro hne
        exact anyLoop_progress hacyc inv2.pre hcomp inv2.time hne hp
      rw [tickLoop_nil _ _ _ _ _ _ _ hp, htu]
      exact ⟨_, rfl⟩
    | cons d rest =>
      have hd0 : ls2.pending[0]? = some d := by rw [hp]; rfl
      have hdm : d ∈ ls2.pending := by rw [hp]; simp
      have hdtr : Ev.dispatch d ∈ tr2 := inv2.pre.pend_trace d hdm
      have hdisp2 : dispatchOf tr2 d.comp = some d := dispatchOf_eq_of_mem (inv2.pre.count _).1 hdtr
      -- the same component's dispatch in the complete execution
      obtain ⟨d1, hd1c, he⟩ := sameDispatch_partial hw hacyc hroots F1 inv2.pre inv2.eq
        (inv1.answers_agree hS hd1 hi2 hL hin hst inv2) d.comp d hdisp2
      have hext1 : d.comp ∈ extent L.wiring roots1 := by
        apply Classical.byContradiction
        intro hn
        rw [(F1.none_iff _).2 hn] at hd1c; cases hd1c
      obtain ⟨ch1, hch1⟩ := F1.answered _ hext1
      obtain ⟨r1, hr1, hc1, _, hdo1⟩ := inv1.rec_of_answer hch1
      rw [hd1c] at hdo1
      cases hdo1
      -- the FIFO answer exists
      have hfresh := inv2.pre.pending_fresh hdm
      have hfoot : ∀ x, Foot S L r1.d.comp x → (r1.pre.loc x).Equiv (ls2.st.loc x) := by
        intro x hx
        rw [(inv1.recs_ok r1 hr1).2.2.1 x hx]
        have hno : ∀ r ∈ recs2, ¬ Foot S L r.d.comp x := by
          intro r2 hr2 h2
          have hcc : r2.d.comp = d.comp := (Foot.unique hS h2 hx).trans hc1
          exact hfresh r2.ch (hcc ▸ (inv2.recs_tr r2.d.comp r2.ch).2 ⟨r2, hr2, rfl, rfl⟩)
        rw [inv2.untouched x (Foot.ne_level hS hx) hno]
        exact hst x (Or.inr hx.below)
      obtain ⟨res, hres⟩ := hlive r1 hr1 fuel (Nat.le_refl _) inCh2 ls2.st ls2.outCh d he
        (inv2.ins.2 _ hdtr) hfoot
      obtain ⟨st', o', ch, ca⟩ := res
      obtain ⟨ia, io⟩ := simAnswer_ansP (inner := fifoRel S orc fuel) (fun _ _ _ _ _ _ h => h) hres
      -- `propagate` succeeds
      have h0 : alookup ls2.tk.toUpdate d.comp = some true := (inv2.pre.pend_flag _).1 ⟨d, hdm, rfl⟩
      have htime : d.time = ls2.tk.time := (inv2.pre.disp_ext d hdtr).2.trans inv2.time.symm
      obtain ⟨⟨tk', ds⟩, hprop⟩ := propagate_ok (w := L.wiring) (tk := ls2.tk) (src := d.comp)
        (t := d.time) (ch := ch) (by rw [h0]; simp) htime
        (fun e he _ => hups e.1 (inv2.pre.keys_ext e.1 (alookup_ne_none_iff.2
          (mem_akeys_of_mem_akeys_aerase (mem_akeys_of_mem he)))))
      -- the next state
      obtain ⟨_, _, hsl, htu, _, _⟩ := sim_propagate_eq_ok hprop
      have hcomp' := ((inv2.pre.answer hd0 ch).schedule
        (tk := ls2.tk.afterAnswer L.wiring d.comp ch) inv2.time hsl).2
      have inv2' := inv2.step hS hp2 hL hn2 hd0 ia hprop
      have herase : ls2.pending.eraseIdx 0 = rest := by rw [hp]; rfl
      rw [herase, ← io] at inv2'
      rw [tickLoop_cons _ _ _ _ _ _ _ _ _ hp, hres]
      simp only [hprop]
      refine ih _ _ _ inv2' ?_ ?_ s (by omega)
      · show Complete L.wiring tk'.toUpdate
        rw [htu]; exact hcomp'
      · show tk'.toUpdate.length ≤ n
        rw [htu, length_markDispatched]
        have := length_aerase (m := ls2.tk.toUpdate) (k := d.comp)
          (alookup_ne_none_iff.1 (by rw [h0]; simp))
        omega

end

/-! ### every level, every depth -/

section

variable {S : Static} {orc : Oracle}

theorem call_ups {w : Wiring} {t : SimTime} {roots : List Comp} {tk : Ticker V}
    {ds : List (Dispatch V)} (h : Ticker.call w t roots = .ok (tk, ds)) :
    ∀ c ∈ extent w roots, (w.ups c).isSome = true := by
  intro c hc
  exact Sync.hroots_of_components (sim_call_ok_roots h) c hc

theorem call_ok {w : Wiring} (t : SimTime) {roots : List Comp}
    (h : ∀ c ∈ extent w roots, (w.ups c).isSome = true) :
    ∃ tk ds, (Ticker.call w t roots : Except TickErr (Ticker V × List (Dispatch V))) = .ok (tk, ds) := by
  obtain ⟨ds, hds⟩ := scheduleLoop_ok (w := w) (Ticker.startTick w t roots : Ticker V)
    (l := (Ticker.startTick w t roots : Ticker V).toUpdate)
    (fun e he _ => h e.1 (startTick_toUpdate (Val := V) w t roots ▸ mem_akeys_of_mem he))
  simp only [Ticker.call, Ticker.schedule, hds, Except.map]
  exact ⟨_, _, rfl⟩

/-- **the FIFO model completes every tick that has an any-order execution** (from every
equivalent input, with every fuel from some bound on) -/
theorem tickLevelAny_live (hS : S.Valid) {lvl : Comp} {t : SimTime} {roots : List Comp}
    {inCh : List (Port × V)} {st : SimSt} {r : SimSt × List (Port × V)}
    (h : TickLevelAny S orc lvl t roots inCh st r) : LiveQ S orc lvl t roots inCh st r := by
  refine TickLevelAny.strong_induct (Q := LiveQ S orc) ?_ h
  intro lvl t roots inCh st r hl hn
  obtain ⟨L, tk, ds, hLv, hcall, hloop⟩ := hl
  obtain ⟨hL, hname⟩ := Static.level_some hLv
  subst hname
  have hp : ∀ c t ro i s r, (TickLevelAny S orc c t ro i s r ∧ LiveQ S orc c t ro i s r) →
      LevelPost1 S c s r := fun _ _ _ _ _ _ h => tickLevelAny_post1 hS h.1
  obtain ⟨ls1, tr1, recs1, inv1, _, hf1, _⟩ :=
    hloop.run_inv2 hS hp hL hn (t := t) (roots := roots) (st0 := st) (Inv2.init hcall)
  -- a fuel bound for all recorded answers
  obtain ⟨F, hF⟩ := recs_live_bound (S := S) (orc := orc) (L := L) recs1 (by
    intro r1 hr1
    obtain ⟨hd, ha, _⟩ := inv1.recs_ok r1 hr1
    exact ha.live hS (fun _ _ _ _ _ _ h => h.2) hL
      ((Wiring.ups_isSome_iff' L.wiring _).1 (inv1.eq.ups _ hd)) (inv1.ins.2 _ hd))
  refine ⟨F + 1, ?_⟩
  intro roots' inCh' st' hroots hin hn' hst fuel hfu
  obtain ⟨fuel', rfl⟩ : ∃ f, fuel = f + 1 := ⟨fuel - 1, by omega⟩
  have hups : ∀ c ∈ extent L.wiring roots', (L.wiring.ups c).isSome = true :=
    fun c hc => call_ups hcall c ((Det.extent_congr L.wiring hroots c).2 hc)
  obtain ⟨tk', ds', hcall'⟩ := call_ok (w := L.wiring) t hups
  rw [tickLevel.eq_2, hLv]
  simp only [hcall']
  obtain ⟨_, htu, _, _⟩ := sim_call_eq_ok hcall'
  have hcomp : Complete L.wiring tk'.toUpdate := by
    have hs := (sim_call_eq_ok hcall').1
    have := ((PreInv.start (Val := V) L.wiring t roots').schedule rfl hs).2
    rw [htu]; exact this
  -- the extent has at most as many members as the wiring has components
  have hlen : tk'.toUpdate.length ≤ L.wiring.components.length := by
    rw [htu, length_markDispatched, ← length_akeys, startTick_toUpdate]
    have hnd : (extent L.wiring roots').Nodup := by
      rw [← startTick_toUpdate (Val := V) L.wiring t roots']
      exact (startTick_fresh (Val := V) L.wiring t roots').1
    exact flt_length_le_of_nodup_subset hnd
      (fun x hx => (Wiring.ups_isSome_iff' L.wiring x).1 (hups x hx))
  exact fifo_loop_ok hS hL hin hn' hroots hst (fun _ _ _ _ _ _ h => h.1) inv1 hf1
    (fun r1 hr1 => (hF r1 hr1).mono (by omega)) hups _ _ _ _ (Inv2.init hcall') hcomp hlen _
    (by omega)

end

end Tickit
