/-
M9c+ — the invariants hold along every history (`run`) and every strict execution (`exec`)
of the system with cancellation; monotonicity facts (socket, cancelled set, writes of a
cancelled task, factory calls after the socket exists).
-/
import TickitModel.Lemmas.ZmqCancelInv

namespace Tickit

theorem pcAt_append (l : List Sender) (t : Sender) (j : Nat) :
    pcAt (l ++ [t]) j = if j < l.length then pcAt l j else if j = l.length then some t.pc else none := by
  unfold pcAt
  rw [List.getElem?_append]
  split
  · rfl
  · rename_i hge
    by_cases hj : j = l.length
    · subst hj; simp
    · rw [if_neg hj]
      have : j - l.length ≠ 0 := by omega
      cases hk : j - l.length with
      | zero => omega
      | succ k => simp

theorem pcAt_lt {l : List Sender} {j : Nat} {p : Pc} (h : pcAt l j = some p) : j < l.length := by
  obtain ⟨s, hs, _⟩ := get_of_pcAt h
  exact zmq_lt_of_get hs

theorem ZAcc.push {z : Zmq} {t : Sender} (h : ZAcc z) (ht : t.infl ++ t.todo = t.orig) :
    ZAcc { z with senders := z.senders ++ [t] } := by
  obtain ⟨hwlt, ⟨s0, hs0, hq0⟩, hd⟩ := h
  constructor <;> dsimp only
  · intro w hw; have := hwlt w hw; simp; omega
  · exact ⟨s0, by rw [getElem?_append_singleton_some]; exact Or.inl hs0, hq0⟩
  · intro j u hj0 hj
    rw [getElem?_append_singleton_some] at hj
    rcases hj with hj | ⟨rfl, rfl⟩
    · exact hd j u hj0 hj
    · have : z.wr z.senders.length = [] :=
        z.wr_eq_nil_of_forall _ (fun w hw => by have := hwlt w hw; omega)
      show z.wr z.senders.length ++ u.infl ++ u.todo = u.orig
      rw [this]; simpa using ht

/-- a new task appears (`spawn`, `ensure`) -/
theorem CInv.push {c : ZmqC} {t : Sender} (h : CInv c) (hpc : t.pc = .idle ∨ t.pc = .wantLock)
    (ht : t.infl ++ t.todo = t.orig) :
    CInv { c with base := { c.base with senders := c.base.senders ++ [t] } } := by
  obtain ⟨hcalls, hcomp, hexcl, hholder, hheld, hwait, hnodup, hsock, hwsock, hclt, hacc⟩ := h
  refine ⟨hcalls, hcomp, hexcl, ?_, ?_, ?_, hnodup, ?_, hwsock, ?_, hacc.push ht⟩ <;> dsimp only
  · intro j hj hjc
    rw [pcAt_append] at hj
    split at hj
    · exact hholder j hj hjc
    · split at hj
      · rcases hpc with hpc | hpc <;> rw [hpc] at hj <;> cases hj
      · cases hj
  · intro j hj
    have := hheld j hj
    refine ⟨this.1, ?_⟩
    rw [pcAt_append, if_pos (pcAt_lt this.2)]; exact this.2
  · intro w hw
    have := hwait w hw
    refine ⟨this.1, ?_⟩
    rw [pcAt_append, if_pos (pcAt_lt this.2)]; exact this.2
  · intro j hj
    rw [pcAt_append] at hj
    split at hj
    · exact hsock j hj
    · split at hj
      · rcases hpc with hpc | hpc <;> rw [hpc] at hj <;> simp at hj
      · simp at hj
  · intro k hk; have := hclt k hk; simp; omega

/-- task `k`, which neither holds the lock nor queues for it, is cancelled -/
theorem CInv.kill {c : ZmqC} {k : Nat} (h : CInv c) (hk : k < c.base.senders.length)
    (hnh : c.base.lockHeld ≠ some k) (hnw : k ∉ c.base.waiters) :
    CInv { c with cancelled := k :: c.cancelled } := by
  obtain ⟨hcalls, hcomp, hexcl, hholder, hheld, hwait, hnodup, hsock, hwsock, hclt, hacc⟩ := h
  refine ⟨hcalls, hcomp, hexcl, ?_, ?_, ?_, hnodup, hsock, hwsock, ?_, hacc⟩ <;> dsimp only
  · intro j hj hjc
    exact hholder j hj (fun hm => hjc (List.mem_cons_of_mem _ hm))
  · intro j hj
    have := hheld j hj
    refine ⟨?_, this.2⟩
    intro hm
    rcases List.mem_cons.1 hm with rfl | hm
    · exact hnh hj
    · exact this.1 hm
  · intro w hw
    have := hwait w hw
    refine ⟨?_, this.2⟩
    intro hm
    rcases List.mem_cons.1 hm with rfl | hm
    · exact hnw hw
    · exact this.1 hm
  · intro j hj
    rcases List.mem_cons.1 hj with rfl | hj
    · exact hk
    · exact hclt j hj

/-- only the lock queue shrinks -/
theorem CInv.unqueue {c : ZmqC} (p : Nat → Bool) (h : CInv c) :
    CInv { c with base := { c.base with waiters := c.base.waiters.filter p } } := by
  obtain ⟨hcalls, hcomp, hexcl, hholder, hheld, hwait, hnodup, hsock, hwsock, hclt, hacc⟩ := h
  refine ⟨hcalls, hcomp, hexcl, hholder, hheld, ?_, zmq_nodup_filter _ hnodup, hsock, hwsock, hclt,
    hacc.same rfl rfl rfl rfl⟩
  intro w hw
  exact hwait w (List.mem_filter.1 hw).1

theorem CInv.cancel {c : ZmqC} {k : Nat} {s : Sender} {b : Zmq} {ab : Bool} (h : CInv c)
    (hk : k ∉ c.cancelled) (hs : c.base.senders[k]? = some s) (hc : ZCancelCase c.base k s (b, ab)) :
    CInv { c with base := b, cancelled := k :: c.cancelled, aborted := c.aborted + (if ab then 1 else 0) } := by
  have hpk := pcAt_of_get hs
  have hlt := zmq_lt_of_get hs
  cases hc with
  | waiting hpc =>
    have h1 := h.unqueue (· != k)
    have := h1.kill (k := k) hlt
      (by intro hl; have := (h.held k hl).2; rw [hpk, hpc] at this; cases this)
      (by simp [List.mem_filter])
    simpa using this
  | other hpc =>
    have := h.kill (k := k) hlt
      (by intro hl; have := (h.held k hl).2; rw [hpk] at this
          rcases hpc with e | e | e <;> rw [e] at this <;> cases this)
      (by intro hw; have := (h.wait k hw).2; rw [hpk] at this
          rcases hpc with e | e | e <;> rw [e] at this <;> cases this)
    simpa using this
  | holding hpc =>
    obtain ⟨hcalls, hcomp, hexcl, hholder, hheld, hwait, hnodup, hsock, hwsock, hclt, hacc⟩ := h
    have hl : c.base.lockHeld = some k := hholder k (by rw [hpk, hpc]) hk
    refine ⟨?_, hcomp, ?_, ?_, ?_, ?_, hnodup, hsock, hwsock, ?_, hacc.same rfl rfl rfl rfl⟩ <;> dsimp only
    · simp [hcalls, hl]; omega
    · simp
    · intro j hj hjc
      have := hholder j hj (fun hm => hjc (List.mem_cons_of_mem _ hm))
      rw [hl] at this; cases this
      exact absurd (List.mem_cons_self) hjc
    · intro j hj; cases hj
    · intro w hw
      have := hwait w hw
      refine ⟨?_, this.2⟩
      intro hm
      rcases List.mem_cons.1 hm with rfl | hm
      · have := this.2; rw [hpk, hpc] at this; cases this
      · exact this.1 hm
    · intro j hj
      rcases List.mem_cons.1 hj with rfl | hj
      · exact hlt
      · exact hclt j hj

theorem CInv.act {c c' : ZmqC} {a : ZCAct} (h : CInv c) (hact : c.act a = some c') : CInv c' := by
  cases a with
  | cancel k =>
    simp only [ZmqC.act] at hact
    split at hact
    · cases hact
    rename_i hk
    split at hact
    · cases hact
    rename_i b ab hcs
    cases hact
    obtain ⟨s, hs, _, hc⟩ := cancelSender_cases hcs
    exact h.cancel hk hs hc
  | base a =>
    cases a with
    | step i =>
      simp only [ZmqC.act] at hact
      split at hact
      · cases hact
      rename_i hi
      split at hact
      · cases hact
      rename_i b hb
      cases hact
      obtain ⟨s, hs, hc⟩ := stepSender_cases hb
      exact h.step hi hs hc
    | enqueue m =>
      simp only [ZmqC.act, Zmq.act] at hact
      cases hact
      obtain ⟨hcalls, hcomp, hexcl, hholder, hheld, hwait, hnodup, hsock, hwsock, hclt, hacc⟩ := h
      refine ⟨hcalls, hcomp, hexcl, hholder, hheld, hwait, hnodup, hsock, hwsock, hclt, ?_⟩
      obtain ⟨hwlt, ⟨s0, hs0, hq0⟩, hd⟩ := hacc
      refine ⟨hwlt, ⟨s0, hs0, ?_⟩, hd⟩
      show c.base.wr 0 ++ s0.infl ++ (c.base.queue ++ [m]) = c.base.queued ++ [m]
      rw [← hq0]; simp
    | spawn msgs =>
      simp only [ZmqC.act, Zmq.act] at hact
      cases hact
      exact h.push (Or.inl rfl) (by simp [Sender.infl])
    | ensure =>
      simp only [ZmqC.act, Zmq.act] at hact
      cases hact
      exact h.push (Or.inr rfl) (by simp [Sender.infl])

theorem CInv.run {c : ZmqC} (h : CInv c) (acts : List ZCAct) : CInv (c.run acts) := by
  induction acts generalizing c with
  | nil => exact h
  | cons a as ih =>
    unfold ZmqC.run
    split
    · exact ih (h.act ‹_›)
    · exact ih h

theorem CInv.run_init (acts : List ZCAct) : CInv (ZmqC.init.run acts) := CInv.init.run acts

theorem CInv.exec {c c' : ZmqC} (h : CInv c) {acts : List ZCAct} (he : c.exec acts = some c') : CInv c' := by
  induction acts generalizing c with
  | nil => simp [ZmqC.exec] at he; subst he; exact h
  | cons a as ih =>
    unfold ZmqC.exec at he
    split at he
    · exact ih (h.act ‹_›) he
    · cases he

theorem ZmqC.run_append (c : ZmqC) (as bs : List ZCAct) : c.run (as ++ bs) = (c.run as).run bs := by
  induction as generalizing c with
  | nil => rfl
  | cons a as ih =>
    simp only [List.cons_append, ZmqC.run]
    split <;> exact ih _

theorem ZmqC.exec_append {c c' : ZmqC} {as : List ZCAct} (h : c.exec as = some c') (bs : List ZCAct) :
    c.exec (as ++ bs) = c'.exec bs := by
  induction as generalizing c with
  | nil => simp [ZmqC.exec] at h; subst h; rfl
  | cons a as ih =>
    simp only [List.cons_append, ZmqC.exec] at h ⊢
    split at h
    · exact ih h
    · cases h

/-- a strict execution is a history -/
theorem ZmqC.run_of_exec {c c' : ZmqC} {as : List ZCAct} (h : c.exec as = some c') : c.run as = c' := by
  induction as generalizing c with
  | nil => simp [ZmqC.exec] at h; subst h; rfl
  | cons a as ih =>
    simp only [ZmqC.exec, ZmqC.run] at h ⊢
    split at h
    · exact ih h
    · cases h

end Tickit
