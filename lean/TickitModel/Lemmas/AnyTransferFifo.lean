/-
Transfer of the whole-simulation theorems to any-order executions, part 2: the FIFO counterpart of
an any-order execution, packaged for the transfer.

`Lemmas/AnyLive.lean` / `AnyLiveRun.lean` prove that the FIFO model completes every tick / every
run (without stimuli) that has an any-order execution; `Lemmas/AnyDet.lean` / `AnyRun.lean` that all
executions end equivalently.  Here the two are combined into the form in which the transfer uses
them: "there is a fuel with which the FIFO model completes the same thing, equivalently".
-/
import TickitModel.Lemmas.AnyLiveRun
import TickitModel.Lemmas.AnyTransferLemmas

namespace Tickit

variable {S : Static} {orc : Oracle}

/-- the initial tick: a FIFO counterpart, equivalent, with the same tick record -/
theorem masterInitialAny_fifo (hS : S.Valid) {t0 : SimTime} {now : Int} {r0 : MasterSt × TickRec}
    (h : MasterInitialAny S orc t0 now r0) :
    ∃ F, ∀ fuel, F ≤ fuel → ∃ m tr, masterInitial S orc fuel t0 now = .ok (m, tr) ∧
      r0.1.Equiv m ∧ r0.2 = tr := by
  obtain ⟨F, hF⟩ := masterInitialAny_live hS h
  refine ⟨F, fun fuel hfu => ?_⟩
  obtain ⟨⟨m, tr⟩, hmi⟩ := hF fuel hfu
  obtain ⟨e1, e2⟩ := masterInitialAny_det hS h (masterInitial_any S orc fuel t0 now _ hmi)
  exact ⟨m, tr, hmi, e1, e2⟩

/-- a whole run without stimuli: a FIFO counterpart, equivalent end state, the same ticks -/
theorem masterRunAny_fifo (hS : S.Valid) {fuel0 : Nat} {t0 : SimTime} {now : Int} {sp : Speed}
    {steps nTicks : Nat} {r0 : MasterSt × TickRec} {r : MasterSt × List TickRec}
    (h1 : MasterInitialAny S orc t0 now r0)
    (h2 : MasterRunAny S orc fuel0 sp steps nTicks r0.1 [] [r0.2] r) :
    ∃ F, ∀ fuel, F ≤ fuel → ∃ m tr m2 ticks, masterInitial S orc fuel t0 now = .ok (m, tr) ∧
      masterRun S orc fuel sp steps nTicks m [] [tr] = .ok (m2, ticks) ∧
      r0.1.Equiv m ∧ r0.2 = tr ∧ r.1.Equiv m2 ∧ TicksEquiv r.2 ticks := by
  obtain ⟨F, hF⟩ := any_run_has_fifo hS h1 h2
  refine ⟨F, fun fuel hfu => ?_⟩
  obtain ⟨m, tr, m2, ticks, hmi, hmr⟩ := hF fuel hfu
  have a1 := masterInitial_any S orc fuel t0 now _ hmi
  have a2 := masterRun_any S orc fuel sp steps nTicks m [] [tr] _ hmr
  obtain ⟨e1, e2⟩ := masterInitialAny_det hS h1 a1
  have hacc : TicksEquiv [r0.2] [tr] := by rw [e2]; exact TicksEquiv.refl _
  obtain ⟨f1, f2⟩ := masterRunAny_det hS (masterRunAny_fuel_irrel (fuel := fuel) h2) e1 hacc a2
  exact ⟨m, tr, m2, ticks, hmi, hmr, e1, e2, f1, f2⟩

/-- one tick: a FIFO counterpart from the same state -/
theorem tickLevelAny_fifo (hS : S.Valid) {lvl : Comp} {t : SimTime} {roots : List Comp}
    {inCh : List (Port × V)} (hn : (akeys inCh).Nodup) {st : SimSt} (hwf : st.WakeWF)
    {r : SimSt × List (Port × V)} (h : TickLevelAny S orc lvl t roots inCh st r) :
    ∃ F, ∀ fuel, F ≤ fuel → ∃ rf, tickLevel S orc fuel lvl t roots inCh st = .ok rf ∧
      r.1.Equiv rf.1 ∧ MapEq r.2 rf.2 := by
  obtain ⟨F, hF⟩ := tickLevelAny_live hS h hn
  refine ⟨F, fun fuel hfu => ?_⟩
  obtain ⟨rf, hrf⟩ := hF roots inCh st (fun _ => Iff.rfl) (mapEq_refl _) hn
    (fun x _ => SLoc.Equiv.refl (hwf x)) fuel hfu
  have ha := tickLevel_any fuel lvl t roots inCh st rf hrf
  obtain ⟨hd, hout⟩ := tickLevelAny_det hS h roots inCh st rf (fun _ => Iff.rfl) (mapEq_refl _) hn hn
    (fun x _ => SLoc.Equiv.refl (hwf x)) ha
  refine ⟨rf, hrf, fun x => ?_, hout⟩
  by_cases hx : AtOrBelow S lvl x
  · exact hd x hx
  · have hne : x ≠ lvl := fun h => hx (Or.inl h)
    have hnb : ¬ S.Below lvl x := fun h => hx (Or.inr h)
    rw [(tickLevelAny_post1 hS h).frame x hne hnb, (tickLevelAny_post1 hS ha).frame x hne hnb]
    exact SLoc.Equiv.refl (hwf x)

end Tickit
