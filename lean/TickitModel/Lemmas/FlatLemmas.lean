/-
Helper lemmas for the flat multi-tick system (M8).
-/
import TickitModel.Core.Flat
import TickitModel.Lemmas.TickEqLemmas
import TickitModel.Props.C01
import TickitModel.Props.C02

namespace Tickit

variable {Val : Type} [DecidableEq Val]

/-- the component states agree with the ghost log of reported values along every wire, carry
nothing that is not wired, and `last_outputs` is part of what was reported. -/
structure Synced (w : Wiring) (st : FlatSt Val) : Prop where
  wired : ∀ a p c q, w.Conn a p c q → alookup (st.comp c).deviceInputs q = alookup st.reported (a, p)
  noExtra : ∀ c q v, alookup (st.comp c).deviceInputs q = some v → ∃ a p, w.Conn a p c q
  lastSub : ∀ c p v, alookup (st.comp c).lastOutputs p = some v → alookup st.reported (c, p) = some v

end Tickit
