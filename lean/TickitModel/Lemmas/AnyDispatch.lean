/-
Any-order nested tick: the DISPATCHES, at every depth (for C02).

`Lemmas/AnyDet.lean` proves that two executions of a tick end equivalently; inside the proof
(`level_det`) it is shown that the two executions hand every component of the level equivalent
dispatches, but the theorem only states the end states.  Here the ghost trace of a level's ticker
and the ghost records of the answers are made part of a relation (`LoopTr`, `LevelExec`: the loop
of `Core/SimAny.lean` with trace and records threaded through, exactly as `Inv2.step` extends them),
"component `c`, at whatever depth, is handed dispatch `d` in an execution" is defined on top of it
(`Recv`), and the trace-level statements are proved:

 * `LevelExec.dispatch_spec` — C02 for the trace of every level of every execution: `Input` iff root
   or some wired port changed, carrying exactly the changed wired ports; `Skip` otherwise; nothing for
   components outside the extent of the roots;
 * `recv_det` — whatever `c` receives in one execution it receives, up to the order of the changes
   inside an `Input`, in every other execution of the same tick from an equivalent state.
-/
import TickitModel.Lemmas.AnyDet

namespace Tickit

/-- the loop of one level (inner ticks: any-order executions) with the ghost trace of the level's
ticker and the ghost records of the answers threaded through -/
inductive LoopTr (S : Static) (orc : Oracle) (L : Level) (inCh : List (Port × V)) :
    LoopSt → List (Ev V) → List AnsRec → SimSt × List (Port × V) → List (Ev V) → List AnsRec → Prop
  | done {ls : LoopSt} {tr : List (Ev V)} {recs : List AnsRec} :
      ls.pending = [] → ls.tk.toUpdate.isEmpty = true →
      LoopTr S orc L inCh ls tr recs (ls.st, ls.outCh) tr recs
  | step {ls : LoopSt} {tr : List (Ev V)} {recs : List AnsRec} {i : Nat} {d : Dispatch V}
      {st' : SimSt} {changes : List (Port × V)} {callAt : Option SimTime} {tk' : Ticker V}
      {ds : List (Dispatch V)} {r : SimSt × List (Port × V)} {trf : List (Ev V)}
      {recsf : List AnsRec} :
      ls.pending[i]? = some d →
      AnsP S orc (TickLevelAny S orc) L inCh ls.st d (st', changes, callAt) →
      ls.tk.propagate L.wiring d.comp d.time changes = .ok (tk', ds) →
      LoopTr S orc L inCh
        ⟨tk', ls.pending.eraseIdx i ++ ds, (exposeIns L d).getD ls.outCh,
          anyWake st' L.name d.comp callAt⟩
        (tr ++ [Ev.answer d.comp changes] ++ ds.map Ev.dispatch)
        (recs ++ [⟨d, ls.st, st', changes, callAt⟩]) r trf recsf →
      LoopTr S orc L inCh ls tr recs r trf recsf

/-- an execution of a tick of level `lvl` whose level is `L`, whose ticker trace (dispatches handed
out and answers taken in, in order) is `tr` and whose answers are recorded in `recs` -/
def LevelExec (S : Static) (orc : Oracle) (lvl : Comp) (t : SimTime) (roots : List Comp)
    (inCh : List (Port × V)) (st : SimSt) (r : SimSt × List (Port × V)) (L : Level)
    (tr : List (Ev V)) (recs : List AnsRec) : Prop :=
  ∃ tk ds, S.level lvl = some L ∧
    (Ticker.call L.wiring t roots : Except TickErr (Ticker V × List (Dispatch V))) = .ok (tk, ds) ∧
    LoopTr S orc L inCh ⟨tk, ds, [], st⟩ (ds.map Ev.dispatch) [] r tr recs

section

variable {S : Static} {orc : Oracle}

theorem LoopTr.toLoopP {L : Level} {inCh : List (Port × V)} {ls : LoopSt} {tr trf : List (Ev V)}
    {recs recsf : List AnsRec} {r : SimSt × List (Port × V)}
    (a : LoopTr S orc L inCh ls tr recs r trf recsf) :
    LoopP S orc (TickLevelAny S orc) L inCh ls r := by
  induction a with
  | done h1 h2 => exact .done h1 h2
  | step h1 h2 h3 _ ih => exact .step h1 h2 h3 ih

theorem LoopP.toLoopTr {L : Level} {inCh : List (Port × V)} {ls : LoopSt}
    {r : SimSt × List (Port × V)} (a : LoopP S orc (TickLevelAny S orc) L inCh ls r) :
    ∀ (tr : List (Ev V)) (recs : List AnsRec), ∃ trf recsf, LoopTr S orc L inCh ls tr recs r trf recsf := by
  induction a with
  | done h1 h2 => exact fun tr recs => ⟨tr, recs, .done h1 h2⟩
  | step h1 h2 h3 _ ih =>
    intro tr recs
    obtain ⟨trf, recsf, h⟩ := ih _ _
    exact ⟨trf, recsf, .step h1 h2 h3 h⟩

/-- forgetting trace and records: an any-order execution -/
theorem LevelExec.toAny {lvl : Comp} {t : SimTime} {roots : List Comp} {inCh : List (Port × V)}
    {st : SimSt} {r : SimSt × List (Port × V)} {L : Level} {tr : List (Ev V)} {recs : List AnsRec}
    (h : LevelExec S orc lvl t roots inCh st r L tr recs) : TickLevelAny S orc lvl t roots inCh st r := by
  obtain ⟨tk, ds, hL, hcall, hl⟩ := h
  exact tickLevelAny_iff.2 ⟨L, tk, ds, hL, hcall, hl.toLoopP⟩

/-- every any-order execution has a trace and records -/
theorem TickLevelAny.levelExec {lvl : Comp} {t : SimTime} {roots : List Comp} {inCh : List (Port × V)}
    {st : SimSt} {r : SimSt × List (Port × V)} (h : TickLevelAny S orc lvl t roots inCh st r) :
    ∃ L tr recs, LevelExec S orc lvl t roots inCh st r L tr recs := by
  obtain ⟨L, tk, ds, hL, hcall, hl⟩ := h.unfold
  obtain ⟨trf, recsf, h'⟩ := hl.toLoopTr (ds.map Ev.dispatch) []
  exact ⟨L, trf, recsf, tk, ds, hL, hcall, h'⟩

/-- the loop invariant holds for the trace and the records at the end -/
theorem LoopTr.run_inv2 (hS : S.Valid) {L : Level} (hL : L ∈ S.levels) {inCh : List (Port × V)}
    (hinCh : (akeys inCh).Nodup) {t : SimTime} {roots : List Comp} {st0 : SimSt} {ls : LoopSt}
    {tr trf : List (Ev V)} {recs recsf : List AnsRec} {r : SimSt × List (Port × V)}
    (a : LoopTr S orc L inCh ls tr recs r trf recsf) :
    Inv2 S orc (TickLevelAny S orc) L inCh t roots st0 ls tr recs →
      ∃ ls', Inv2 S orc (TickLevelAny S orc) L inCh t roots st0 ls' trf recsf ∧ ls'.pending = [] ∧
        ls'.tk.toUpdate = [] ∧ r = (ls'.st, ls'.outCh) := by
  have hp : ∀ c t ro i s r, TickLevelAny S orc c t ro i s r → LevelPost1 S c s r :=
    fun _ _ _ _ _ _ h => tickLevelAny_post1 hS h
  induction a with
  | @done ls tr recs h1 h2 =>
    intro inv
    exact ⟨ls, inv, h1, by simpa using h2, rfl⟩
  | step h1 h2 h3 _ ih =>
    intro inv
    exact ih (inv.step hS hp hL hinCh h1 h2 h3)

/-- a traced execution ends in a loop state satisfying the level invariant for its trace / records -/
theorem LevelExec.fin (hS : S.Valid) {lvl : Comp} {t : SimTime} {roots : List Comp}
    {inCh : List (Port × V)} (hinCh : (akeys inCh).Nodup) {st : SimSt} {r : SimSt × List (Port × V)}
    {L : Level} {tr : List (Ev V)} {recs : List AnsRec}
    (h : LevelExec S orc lvl t roots inCh st r L tr recs) :
    L ∈ S.levels ∧ L.name = lvl ∧
      ∃ ls, Inv2 S orc (TickLevelAny S orc) L inCh t roots st ls tr recs ∧ ls.tk.toUpdate = [] ∧
        r = (ls.st, ls.outCh) := by
  obtain ⟨tk, ds, hLv, hcall, hl⟩ := h
  obtain ⟨hL, hname⟩ := Static.level_some hLv
  obtain ⟨ls, inv, _, hf, hr⟩ := hl.run_inv2 hS hL hinCh (t := t) (roots := roots) (st0 := st)
    (Inv2.init hcall)
  exact ⟨hL, hname, ls, inv, hf, hr⟩

/-- **C02 for the trace of a level of an any-order execution**: a component of the level gets no
dispatch iff it is outside the extent of the roots; otherwise it gets an `Input` — carrying exactly
the wired ports that the answers of this tick report as changed — if it is a root or one of its
wired ports changed, and a `Skip` if not. -/
theorem LevelExec.dispatch_spec (hS : S.Valid) {lvl : Comp} {t : SimTime} {roots : List Comp}
    {inCh : List (Port × V)} (hinCh : (akeys inCh).Nodup) {st : SimSt} {r : SimSt × List (Port × V)}
    {L : Level} {tr : List (Ev V)} {recs : List AnsRec}
    (h : LevelExec S orc lvl t roots inCh st r L tr recs) :
    (∀ c, dispatchOf tr c = none ↔ c ∉ extent L.wiring roots) ∧
    (∀ c d, dispatchOf tr c = some d →
      (∃ ins, d = .input c t ins ∧ (c ∈ roots ∨ ∃ q v, Changed L.wiring tr c q v) ∧
          ∀ q v, alookup ins q = some v ↔ Changed L.wiring tr c q v) ∨
        (d = .skip c t ∧ c ∉ roots ∧ ∀ q v, ¬ Changed L.wiring tr c q v)) ∧
    (∀ a ch, Ev.answer a ch ∈ tr ↔ ∃ rec ∈ recs, rec.d.comp = a ∧ rec.ch = ch) ∧
    (∀ rec ∈ recs, dispatchOf tr rec.d.comp = some rec.d ∧
      AnsP S orc (TickLevelAny S orc) L inCh rec.pre rec.d (rec.post, rec.ch, rec.ca)) := by
  obtain ⟨hL, _, ls, inv, hf, _⟩ := h.fin hS hinCh
  have F := TraceFin.of_inv (hS.routerOK hL) (hf ▸ inv.pre) inv.eq
  exact ⟨F.none_iff, F.spec, inv.recs_tr, fun rec hrec => ⟨inv.rec_dispatch hrec, (inv.recs_ok rec hrec).2.1⟩⟩

/-- **the dispatches of one level are determined**: two complete executions of the loop of a level
from states equivalent at and below the level hand every component equivalent dispatches, and their
answer records correspond.  (The first half of the proof of `level_det`, stated on its own.) -/
theorem level_sameDispatch (hS : S.Valid) {L : Level} (hL : L ∈ S.levels)
    {inCh1 inCh2 : List (Port × V)} (hin : MapEq inCh1 inCh2) {t : SimTime}
    {roots1 roots2 : List Comp} (hroots : ∀ c, c ∈ roots1 ↔ c ∈ roots2) {st1 st2 : SimSt}
    (hst : EqOn (AtOrBelow S L.name) st1 st2) {ls1 ls2 : LoopSt} {tr1 tr2 : List (Ev V)}
    {recs1 recs2 : List AnsRec}
    (inv1 : Inv2 S orc (TickLevelAny S orc) L inCh1 t roots1 st1 ls1 tr1 recs1)
    (inv2 : Inv2 S orc (TickLevelAny S orc) L inCh2 t roots2 st2 ls2 tr2 recs2)
    (hf1 : ls1.tk.toUpdate = []) (hf2 : ls2.tk.toUpdate = []) :
    (∀ c, SameDispatch (dispatchOf tr1 c) (dispatchOf tr2 c)) ∧
      ∀ r1 ∈ recs1, ∃ r2 ∈ recs2, r1.d.comp = r2.d.comp ∧ Dispatch.Equiv r1.d r2.d := by
  have hw := hS.routerOK hL
  have hacyc := hS.acyclic L hL
  have hi1 : ∀ c t ro i s r, TickLevelAny S orc c t ro i s r → LevelDet S orc c t ro i s r :=
    fun _ _ _ _ _ _ h => tickLevelAny_det hS h
  have hi2 : ∀ c t ro i s r, TickLevelAny S orc c t ro i s r → TickLevelAny S orc c t ro i s r :=
    fun _ _ _ _ _ _ h => h
  have F1 : TraceFin L.wiring t roots1 tr1 := TraceFin.of_inv hw (hf1 ▸ inv1.pre) inv1.eq
  have F2 : TraceFin L.wiring t roots2 tr2 := TraceFin.of_inv hw (hf2 ▸ inv2.pre) inv2.eq
  have hrec : ∀ r1 ∈ recs1, ∀ r2 ∈ recs2, r1.d.comp = r2.d.comp → Dispatch.Equiv r1.d r2.d →
      (∀ x, Foot S L r1.d.comp x → (r1.post.loc x).Equiv (r2.post.loc x)) ∧ MapEq r1.ch r2.ch ∧
        r1.ca = r2.ca := by
    intro r1 hr1 r2 hr2 hc he
    obtain ⟨hd1, ha1, hp1, _, _⟩ := inv1.recs_ok r1 hr1
    obtain ⟨hd2, ha2, hp2, _, _⟩ := inv2.recs_ok r2 hr2
    have hdc : r1.d.comp ∈ L.wiring.components :=
      (Wiring.ups_isSome_iff' L.wiring _).1 (inv1.eq.ups _ hd1)
    refine AnsP.det hS hi1 hi2 hL hin he (inv1.ins.2 _ hd1) (inv2.ins.2 _ hd2) hdc ?_ ha1 ha2
    intro x hx
    rw [hp1 x hx, hp2 x (hc ▸ hx)]
    exact hst x (Or.inr hx.below)
  have hans : ∀ a d1 d2 ch1 ch2, dispatchOf tr1 a = some d1 → dispatchOf tr2 a = some d2 →
      Dispatch.Equiv d1 d2 → Ev.answer a ch1 ∈ tr1 → Ev.answer a ch2 ∈ tr2 →
      ∀ p, alookup ch1 p = alookup ch2 p := by
    intro a d1 d2 ch1 ch2 h1 h2 he hm1 hm2
    obtain ⟨r1, hr1, hc1, hch1, hdo1⟩ := inv1.rec_of_answer hm1
    obtain ⟨r2, hr2, hc2, hch2, hdo2⟩ := inv2.rec_of_answer hm2
    rw [h1] at hdo1
    rw [h2] at hdo2
    cases hdo1
    cases hdo2
    have := (hrec r1 hr1 r2 hr2 (hc1.trans hc2.symm) he).2.1
    rw [hch1, hch2] at this
    exact this
  have hsame := sameDispatch_traces hw hacyc hroots F1 F2 hans
  refine ⟨hsame, ?_⟩
  intro r1 hr1
  have hd1 := inv1.rec_dispatch hr1
  have hs := hsame r1.d.comp
  rw [hd1] at hs
  cases hd2 : dispatchOf tr2 r1.d.comp with
  | none => rw [hd2] at hs; exact hs.elim
  | some d2 =>
    rw [hd2] at hs
    have hext : r1.d.comp ∈ extent L.wiring roots2 := by
      apply Classical.byContradiction
      intro hn
      rw [(F2.none_iff _).2 hn] at hd2; cases hd2
    obtain ⟨ch2, hch2⟩ := F2.answered _ hext
    obtain ⟨r2, hr2, hc2, _, hdo2⟩ := inv2.rec_of_answer hch2
    rw [hd2] at hdo2
    cases hdo2
    exact ⟨r2, hr2, hc2.symm, hs⟩

/-! ### what a component is handed, at whatever depth -/

/-- `Recv S orc lvl t roots inCh st r c d`: there is an execution of the tick of level `lvl` (time
`t`, roots `roots`, from `st`, ending in `r`) in which component `c` — a component of `lvl`, or of a
system simulation answered in that execution, or of one answered inside that one, … — is handed the
dispatch `d` by the ticker of its level. -/
inductive Recv (S : Static) (orc : Oracle) :
    Comp → SimTime → List Comp → List (Port × V) → SimSt → SimSt × List (Port × V) → Comp →
      Dispatch V → Prop
  | here {lvl : Comp} {t : SimTime} {roots : List Comp} {inCh : List (Port × V)} {st : SimSt}
      {r : SimSt × List (Port × V)} {L : Level} {tr : List (Ev V)} {recs : List AnsRec} {c : Comp}
      {d : Dispatch V} :
      LevelExec S orc lvl t roots inCh st r L tr recs → dispatchOf tr c = some d →
      Recv S orc lvl t roots inCh st r c d
  | inside {lvl : Comp} {t : SimTime} {roots : List Comp} {inCh : List (Port × V)} {st : SimSt}
      {r : SimSt × List (Port × V)} {L : Level} {tr : List (Ev V)} {recs : List AnsRec}
      {rec : AnsRec} {s : Comp} {t' : SimTime} {ins : List (Port × V)} {c : Comp} {d : Dispatch V} :
      LevelExec S orc lvl t roots inCh st r L tr recs → rec ∈ recs → rec.d = .input s t' ins →
      (L.name != "" && s == pseudoExternal) = false → (L.name != "" && s == pseudoExpose) = false →
      S.isSys s = true →
      Recv S orc s t' (sysRoots S rec.pre s t') ins (sysPre rec.pre s t') (rec.post, rec.ch) c d →
      Recv S orc lvl t roots inCh st r c d

/-- `Recv` speaks about executions -/
theorem Recv.toAny {lvl : Comp} {t : SimTime} {roots : List Comp} {inCh : List (Port × V)} {st : SimSt}
    {r : SimSt × List (Port × V)} {c : Comp} {d : Dispatch V}
    (h : Recv S orc lvl t roots inCh st r c d) : TickLevelAny S orc lvl t roots inCh st r := by
  cases h with
  | here he _ => exact he.toAny
  | inside he _ _ _ _ _ _ => exact he.toAny

theorem Dispatch.Equiv.symm' {d1 d2 : Dispatch V} (h : Dispatch.Equiv d1 d2) : Dispatch.Equiv d2 d1 := by
  cases d1 <;> cases d2 <;> simp only [Dispatch.Equiv] at h ⊢
  · exact ⟨h.1.symm, h.2.1.symm, fun q => (h.2.2 q).symm⟩
  · exact ⟨h.1.symm, h.2.symm⟩

/-- **every dispatch, at every depth, is determined up to the order of the changes**: if component
`c` is handed `d` in an execution of a tick, then in EVERY execution of the same tick from an
equivalent state (roots equal as sets, input changes equal as mappings) `c` is handed a dispatch
equivalent to `d` — the same kind (`Input` / `Skip`), the same time, the same changes as a mapping. -/
theorem recv_det (hS : S.Valid) {lvl : Comp} {t : SimTime} {roots : List Comp} {inCh : List (Port × V)}
    {st : SimSt} {r : SimSt × List (Port × V)} {c : Comp} {d : Dispatch V}
    (h : Recv S orc lvl t roots inCh st r c d) :
    ∀ (roots' : List Comp) (inCh' : List (Port × V)) (st' : SimSt) (r' : SimSt × List (Port × V)),
      (∀ x, x ∈ roots ↔ x ∈ roots') → MapEq inCh inCh' → (akeys inCh).Nodup → (akeys inCh').Nodup →
      EqOn (AtOrBelow S lvl) st st' → TickLevelAny S orc lvl t roots' inCh' st' r' →
      ∃ d', Recv S orc lvl t roots' inCh' st' r' c d' ∧ Dispatch.Equiv d d' := by
  induction h with
  | @here lvl t roots inCh st r L tr recs c d he hd =>
    intro roots' inCh' st' r' hroots hin hn hn' hst h2
    obtain ⟨L2, tr2, recs2, he2⟩ := h2.levelExec
    obtain ⟨hL, hname, ls1, inv1, hf1, _⟩ := he.fin hS hn
    obtain ⟨_, _, ls2, inv2, hf2, _⟩ := he2.fin hS hn'
    have hLL : L = L2 := by
      obtain ⟨_, _, h1, _⟩ := he
      obtain ⟨_, _, h1', _⟩ := he2
      rw [h1] at h1'
      exact Option.some.inj h1'
    subst hLL
    subst hname
    have hs := (level_sameDispatch hS hL hin hroots hst inv1 inv2 hf1 hf2).1 c
    rw [hd] at hs
    cases hd2 : dispatchOf tr2 c with
    | none => rw [hd2] at hs; exact hs.elim
    | some d2 =>
      rw [hd2] at hs
      exact ⟨d2, .here he2 hd2, hs⟩
  | @inside lvl t roots inCh st r L tr recs rec s t' ins c d he hrec hrd e1 e2 e3 _ ih =>
    intro roots' inCh' st' r' hroots hin hn hn' hst h2
    obtain ⟨L2, tr2, recs2, he2⟩ := h2.levelExec
    obtain ⟨hL, hname, ls1, inv1, hf1, _⟩ := he.fin hS hn
    obtain ⟨_, _, ls2, inv2, hf2, _⟩ := he2.fin hS hn'
    have hLL : L = L2 := by
      obtain ⟨_, _, h1, _⟩ := he
      obtain ⟨_, _, h1', _⟩ := he2
      rw [h1] at h1'
      exact Option.some.inj h1'
    subst hLL
    subst hname
    obtain ⟨rec2, hrec2, hcc, hde⟩ :=
      (level_sameDispatch hS hL hin hroots hst inv1 inv2 hf1 hf2).2 rec hrec
    obtain ⟨d2, pre2, post2, ch2, ca2⟩ := rec2
    simp only at hcc hde
    rw [hrd] at hde hcc
    -- the corresponding record is an `Input` for the same system, with the same changes as a mapping
    obtain ⟨ins2, hd2, hi⟩ : ∃ ins2, d2 = .input s t' ins2 ∧ ∀ q, alookup ins q = alookup ins2 q := by
      cases d2 with
      | skip c' t'' => exact hde.elim
      | input c' t'' i2 =>
        obtain ⟨h1, h2, h3⟩ := hde
        subst h1; subst h2
        exact ⟨i2, rfl, h3⟩
    subst hd2
    obtain ⟨hdt1, ha1, hp1, _, _⟩ := inv1.recs_ok rec hrec
    obtain ⟨hdt2, ha2, hp2, _, _⟩ := inv2.recs_ok _ hrec2
    simp only at hdt2 ha2 hp2
    rw [hrd] at hdt1 hp1
    simp only [Dispatch.comp] at hp1 hp2
    have hdc : s ∈ L.wiring.components :=
      (Wiring.ups_isSome_iff' L.wiring _).1 (inv1.eq.ups _ hdt1)
    have hn1 : (akeys ins).Nodup := inv1.ins.2 _ hdt1
    have hn2 : (akeys ins2).Nodup := inv2.ins.2 _ hdt2
    have hpar := parent_of_not_pseudo hS hL hdc e1 e2
    have hcne : s ≠ "" := hS.sys_ne_master e3
    have hfoot : ∀ x, AtOrBelow S s x → Foot S L s x := by
      rintro x (rfl | hb)
      · exact ⟨hpar, Or.inl rfl⟩
      · exact ⟨hpar, Or.inr ⟨hcne, hb⟩⟩
    have hσ : ∀ x, Foot S L s x → (rec.pre.loc x).Equiv (pre2.loc x) := by
      intro x hx
      rw [hp1 x hx, hp2 x hx]
      exact hst x (Or.inr hx.below)
    have hc := hσ s (hfoot s (Or.inl rfl))
    have hsch : (rec.pre.sched s).Equiv (pre2.sched s) := hc.sch
    have hpre : EqOn (AtOrBelow S s) (sysPre rec.pre s t') (sysPre pre2 s t') := by
      intro x hx
      by_cases hxc : x = s
      · subst hxc
        rw [loc_sysPre_self, loc_sysPre_self]
        exact ⟨hc.ins, hc.outs, hc.cnt, sysPreSched_equiv hsch t', hc.ob⟩
      · rw [loc_sysPre_ne _ _ _ hxc, loc_sysPre_ne _ _ _ hxc]
        exact hσ x (hfoot x hx)
    -- the inner tick of the corresponding record
    have hinner : TickLevelAny S orc s t' (sysRoots S pre2 s t') ins2 (sysPre pre2 s t') (post2, ch2) := by
      cases ha2 with
      | external e1' => rw [e1] at e1'; cases e1'
      | expose _ e2' => rw [e2] at e2'; cases e2'
      | dev _ _ e3' _ _ => rw [e3] at e3'; cases e3'
      | sys _ _ _ e4 => exact e4
    obtain ⟨d', hr', hdd⟩ := ih _ _ _ _ (mem_sysRoots_congr hsch t') hi hn1 hn2 hpre hinner
    exact ⟨d', .inside (rec := ⟨.input s t' ins2, pre2, post2, ch2, ca2⟩) he2 hrec2 rfl e1 e2 e3 hr', hdd⟩

/-- every component in the extent of the roots of an executed level is handed a dispatch -/
theorem Recv.of_extent (hS : S.Valid) {lvl : Comp} {t : SimTime} {roots : List Comp}
    {inCh : List (Port × V)} (hinCh : (akeys inCh).Nodup) {st : SimSt} {r : SimSt × List (Port × V)}
    (h : TickLevelAny S orc lvl t roots inCh st r) {L : Level} (hL : S.level lvl = some L) {c : Comp}
    (hc : c ∈ extent L.wiring roots) : ∃ d, Recv S orc lvl t roots inCh st r c d := by
  obtain ⟨L2, tr, recs, he⟩ := h.levelExec
  have hLL : L = L2 := by
    obtain ⟨_, _, h1, _⟩ := he
    rw [hL] at h1
    exact Option.some.inj h1
  subst hLL
  cases hd : dispatchOf tr c with
  | none => exact absurd hc (((he.dispatch_spec hS hinCh).1 c).1 hd)
  | some d => exact ⟨d, .here he hd⟩

/-- every dispatch of a tick carries the tick's time, at every depth -/
theorem Recv.time_eq (hS : S.Valid) {lvl : Comp} {t : SimTime} {roots : List Comp}
    {inCh : List (Port × V)} (hinCh : (akeys inCh).Nodup) {st : SimSt} {r : SimSt × List (Port × V)}
    {c : Comp} {d : Dispatch V} (h : Recv S orc lvl t roots inCh st r c d) : d.time = t ∧ d.comp = c := by
  induction h with
  | here he hd =>
    rcases (he.dispatch_spec hS hinCh).2.1 _ _ hd with ⟨ins, rfl, _⟩ | ⟨rfl, _⟩ <;> exact ⟨rfl, rfl⟩
  | @inside lvl t roots inCh st r L tr recs rec s t' ins c d he hrec hrd _ _ _ _ ih =>
    obtain ⟨_, _, ls, inv, _, _⟩ := he.fin hS hinCh
    have hdt := (inv.recs_ok rec hrec).1
    have h1 := (inv.pre.disp_ext _ hdt).2
    have hn1 : Det.InsNodup rec.d := inv.ins.2 _ hdt
    rw [hrd] at h1 hn1
    obtain ⟨i1, i2⟩ := ih hn1
    exact ⟨i1.trans h1, i2⟩

theorem sysRoots_congr_sched {st st' : SimSt} {s : Comp} (h : st.sched s = st'.sched s) (t : SimTime) :
    sysRoots S st s t = sysRoots S st' s t := by
  unfold sysRoots
  rw [h]

/-- a system component `s` that is a root of the executed level is handed an `Input` and runs an
inner tick; every component `x` of `s` in the extent of that inner tick's roots is handed a dispatch
(constructor `Recv.inside`). -/
theorem Recv.inside_of_root (hS : S.Valid) {lvl : Comp} {t : SimTime} {roots : List Comp}
    {inCh : List (Port × V)} (hinCh : (akeys inCh).Nodup) {st : SimSt} {r : SimSt × List (Port × V)}
    (h : TickLevelAny S orc lvl t roots inCh st r) {L : Level} (hL : S.level lvl = some L) {s : Comp}
    (hs : s ∈ roots) (e1 : (L.name != "" && s == pseudoExternal) = false)
    (e2 : (L.name != "" && s == pseudoExpose) = false) (e3 : S.isSys s = true)
    {Ls : Level} (hLs : S.level s = some Ls) {x : Comp}
    (hx : x ∈ extent Ls.wiring (sysRoots S st s t)) : ∃ d, Recv S orc lvl t roots inCh st r x d := by
  obtain ⟨L2, tr, recs, he⟩ := h.levelExec
  have hLL : L = L2 := by
    obtain ⟨_, _, h1, _⟩ := he
    rw [hL] at h1
    exact Option.some.inj h1
  subst hLL
  obtain ⟨hLm, hname, ls, inv, hf, _⟩ := he.fin hS hinCh
  have hsext : s ∈ extent L.wiring roots :=
    (Det.mem_extent_iff L.wiring roots s).2 ⟨s, hs, (Wiring.dependants_closed L.wiring s).1⟩
  obtain ⟨ch, hch⟩ := (inv.pre.resolved s hsext).1 (by rw [hf]; rfl)
  obtain ⟨rec, hrec, hrc, _, hrd⟩ := inv.rec_of_answer hch
  obtain ⟨hdt, ha, hp1, _, _⟩ := inv.recs_ok rec hrec
  -- the dispatch of a root is an `Input`
  obtain ⟨ins, hins⟩ : ∃ ins, rec.d = .input s t ins := by
    rcases (he.dispatch_spec hS hinCh).2.1 s rec.d hrd with ⟨ins, h1, _⟩ | ⟨_, hnr, _⟩
    · exact ⟨ins, h1⟩
    · exact absurd hs hnr
  obtain ⟨d0, pre, post, ch0, ca⟩ := rec
  simp only at hins hp1 ha hrc
  subst hins
  simp only [Dispatch.comp] at hp1
  have hdc : s ∈ L.wiring.components := (Wiring.ups_isSome_iff' L.wiring _).1 (inv.eq.ups _ hdt)
  have hpar := parent_of_not_pseudo hS hLm hdc e1 e2
  have hloc := hp1 s ⟨hpar, Or.inl rfl⟩
  have hsch : pre.sched s = st.sched s := congrArg SLoc.sch hloc
  have hinner : TickLevelAny S orc s t (sysRoots S pre s t) ins (sysPre pre s t) (post, ch0) := by
    cases ha with
    | external e1' => rw [e1] at e1'; cases e1'
    | expose _ e2' => rw [e2] at e2'; cases e2'
    | dev _ _ e3' _ _ => rw [e3] at e3'; cases e3'
    | sys _ _ _ e4 => exact e4
  have hn1 : (akeys ins).Nodup := inv.ins.2 _ hdt
  rw [← sysRoots_congr_sched hsch t] at hx
  obtain ⟨d, hd⟩ := Recv.of_extent hS hn1 hinner hLs hx
  exact ⟨d, .inside (rec := ⟨.input s t ins, pre, post, ch0, ca⟩) he hrec rfl e1 e2 e3 hd⟩

end

end Tickit
