/-
Any-order nested tick, part 9 (C01 through nesting, ORDER of updates at device level).

`S.Feeds x y`: at the scheduler level where the paths from the root to `x` and to `y` separate, the
component `x` belongs to is wired — directly or through other components of that level — into the
component `y` belongs to.  (Every wire of the resolved, flattened wiring is such a pair:
`Lemmas/AnyResolve.lean`.)  In every execution of a tick, any answer order at every depth, if `x`
and `y` are both updated then `x` is updated BEFORE `y` in the global observation list.
-/
import TickitModel.Lemmas.AnyOnce

namespace Tickit

/-- a non-empty path of first-order edges of a wiring -/
inductive Wiring.Path (w : Wiring) : Comp → Comp → Prop
  | single {a b : Comp} : w.Edge a b → Wiring.Path w a b
  | cons {a b c : Comp} : w.Edge a b → Wiring.Path w b c → Wiring.Path w a c

/-- `x` feeds `y` through the nesting: below two different components `c1`, `c2` of one level, with a
path of wires `c1 → … → c2` at that level -/
def Static.Feeds (S : Static) (x y : Comp) : Prop :=
  ∃ L ∈ S.levels, ∃ c1 c2, alookup S.parent c1 = some L.name ∧ alookup S.parent c2 = some L.name ∧
    L.wiring.Path c1 c2 ∧ S.Own c1 x ∧ S.Own c2 y

/-- in the list of new observations whatever feeds an updated component was updated before it -/
def ObsOrdered (S : Static) (new : List Obs) : Prop :=
  ∀ pre oy post, new = pre ++ oy :: post → ∀ ox ∈ new, S.Feeds ox.comp oy.comp → ox ∈ pre

/-- the new observations of a tick of level `lvl`: made below the level, in an order that respects
`Feeds` -/
def LevelOrd (S : Static) : LevelRel := fun lvl _ _ inCh st r =>
  (akeys inCh).Nodup → ∃ new, r.1.obs = st.obs ++ new ∧ (∀ o ∈ new, S.Below lvl o.comp) ∧ ObsOrdered S new

/-! ### the nesting tree -/

section Tree

variable {S : Static}

theorem Static.Valid.edge_rank (hS : S.Valid) {L : Level} (hL : L ∈ S.levels) :
    ∃ rank : Comp → Nat, ∀ a b, L.wiring.Edge a b → rank a < rank b := by
  obtain ⟨rank, hr⟩ := hS.acyclic L hL
  refine ⟨rank, ?_⟩
  rintro a b ⟨p, q, hc⟩
  have hb := (Wiring.conn_mem_components (hS.wiring_wf L hL).1 hc).2
  obtain ⟨us, hus⟩ := Option.isSome_iff_exists.1 (hS.ups_defined L hL b hb)
  exact hr b us a hus (((hS.routerOK hL).ups_edge b us hus a).2 ⟨p, q, hc⟩)

theorem Wiring.Path.rank_lt {w : Wiring} {rank : Comp → Nat}
    (hr : ∀ a b, w.Edge a b → rank a < rank b) {a b : Comp} (h : w.Path a b) : rank a < rank b := by
  induction h with
  | single e => exact hr _ _ e
  | cons e _ ih => exact Nat.lt_trans (hr _ _ e) ih

theorem Static.Valid.path_ne (hS : S.Valid) {L : Level} (hL : L ∈ S.levels) {a b : Comp}
    (h : L.wiring.Path a b) : a ≠ b := by
  obtain ⟨rank, hr⟩ := hS.edge_rank hL
  intro he
  have := h.rank_lt hr
  rw [he] at this
  exact Nat.lt_irrefl _ this

theorem Wiring.Path.snoc {w : Wiring} {a b c : Comp} (h : w.Path a b) (e : w.Edge b c) : w.Path a c := by
  induction h with
  | single e' => exact .cons e' (.single e)
  | cons e' _ ih => exact .cons e' (ih e)

theorem Static.Below.trans {a b c : Comp} (hab : S.Below a b) (hb : b ≠ "") (hbc : S.Below b c) :
    S.Below a c := by
  induction hbc with
  | direct h => exact .step h hb hab
  | step h hp _ ih => exact .step h hp ih

/-- a component that lies below something is not the master -/
theorem Static.Valid.below_ne_master (hS : S.Valid) {a b : Comp} (h : S.Below a b) : b ≠ "" := by
  intro hb
  subst hb
  exact hS.not_below_master a h

/-- what is below something that belongs to `c` belongs to `c` -/
theorem Static.Own.trans_below {c p x : Comp} (h : S.Own c p) (hc : c ≠ "")
    (hpx : S.Below p x) (hp : p ≠ "") : S.Own c x := by
  rcases h with rfl | ⟨_, hb⟩
  · exact Or.inr ⟨hc, hpx⟩
  · exact Or.inr ⟨hc, hb.trans hp hpx⟩

/-- the level at which two paths separate is unique: if `x`, `y` belong to different children
`ci`, `cj` of level `L` and to different children `c1`, `c2` of level `L'`, the levels and the
children coincide -/
theorem sep_level_unique (hS : S.Valid) {L L' : Level} (hL : L ∈ S.levels) (hL' : L' ∈ S.levels)
    {ci cj c1 c2 x y : Comp}
    (hi : alookup S.parent ci = some L.name) (hj : alookup S.parent cj = some L.name)
    (h1 : alookup S.parent c1 = some L'.name) (h2 : alookup S.parent c2 = some L'.name)
    (oi : S.Own ci x) (oj : S.Own cj y) (o1 : S.Own c1 x) (o2 : S.Own c2 y)
    (hne : ci ≠ cj) (hne' : c1 ≠ c2) : L = L' ∧ ci = c1 ∧ cj = c2 := by
  have hwf := hS.toWF
  have key : L.name = L'.name := by
    rcases (oi.below hi).total (o1.below h1) with h | h | h
    · exact h
    · -- `L'` lies below `L`: inside one child of `L`, which then holds both `x` and `y`
      exfalso
      obtain ⟨c, hc, hown⟩ := h.top
      have hcne : c ≠ "" := hS.child_ne_master hc
      have hL'ne : L'.name ≠ "" := hS.below_ne_master h
      have hx : S.Own c x := hown.trans_below hcne (o1.below h1) hL'ne
      have hy : S.Own c y := hown.trans_below hcne (o2.below h2) hL'ne
      exact hne ((Static.Own.unique hwf hi hc oi hx).trans (Static.Own.unique hwf hj hc oj hy).symm)
    · exfalso
      obtain ⟨c, hc, hown⟩ := h.top
      have hcne : c ≠ "" := hS.child_ne_master hc
      have hLne : L.name ≠ "" := hS.below_ne_master h
      have hx : S.Own c x := hown.trans_below hcne (oi.below hi) hLne
      have hy : S.Own c y := hown.trans_below hcne (oj.below hj) hLne
      exact hne' ((Static.Own.unique hwf h1 hc o1 hx).trans (Static.Own.unique hwf h2 hc o2 hy).symm)
  have hLL : L = L' := by
    have e1 := hS.level_of_mem hL
    have e2 := hS.level_of_mem hL'
    rw [key, e2] at e1
    exact (Option.some.inj e1).symm
  subst hLL
  exact ⟨rfl, Static.Own.unique hwf hi h1 oi o1, Static.Own.unique hwf hj h2 oj o2⟩

theorem Static.Valid.feeds_irrefl (hS : S.Valid) {x : Comp} : ¬ S.Feeds x x := by
  rintro ⟨L, hL, c1, c2, h1, h2, hp, o1, o2⟩
  exact hS.path_ne hL hp (Static.Own.unique hS.toWF h1 h2 o1 o2)

/-- `Feeds` between members of two different children of a level is a path between the children -/
theorem feeds_sep (hS : S.Valid) {L : Level} (hL : L ∈ S.levels) {ci cj x y : Comp}
    (hi : Foot S L ci x) (hj : Foot S L cj y) (hne : ci ≠ cj) (hf : S.Feeds x y) :
    L.wiring.Path ci cj := by
  obtain ⟨L', hL', c1, c2, h1, h2, hp, o1, o2⟩ := hf
  obtain ⟨rfl, rfl, rfl⟩ := sep_level_unique hS hL hL' hi.1 hj.1 h1 h2 hi.2 hj.2 o1 o2 hne
    (hS.path_ne hL' hp)
  exact hp

end Tree

/-! ### lists -/

theorem flatMap_split {α β : Type} (f : α → List β) {l : List α} {pre post : List β} {y : β}
    (h : (l.map f).flatten = pre ++ y :: post) :
    ∃ l1 r l2 s1 s2, l = l1 ++ r :: l2 ∧ f r = s1 ++ y :: s2 ∧ pre = (l1.map f).flatten ++ s1 ∧
      post = s2 ++ (l2.map f).flatten := by
  induction l generalizing pre with
  | nil => simp at h
  | cons a l ih =>
    simp only [List.map_cons, List.flatten_cons] at h
    rcases append_eq_append_cons h with ⟨post', h1, h2⟩ | ⟨pre', h1, h2⟩
    · exact ⟨[], a, l, pre, post', rfl, h1, by simp, h2⟩
    · obtain ⟨l1, r, l2, s1, s2, e1, e2, e3, e4⟩ := ih h2
      refine ⟨a :: l1, r, l2, s1, s2, by rw [e1]; rfl, e2, ?_, e4⟩
      rw [h1, e3]
      simp

/-! ### one answer -/

section

variable {S : Static} {orc : Oracle} {inner : LevelRel}

theorem obsOrdered_nil (S : Static) : ObsOrdered S [] := by
  intro pre oy post h
  simp at h

theorem AnsP.ord (hS : S.Valid)
    (hin : ∀ c t ro i s r, inner c t ro i s r → LevelOrd S c t ro i s r)
    {L : Level} (hL : L ∈ S.levels) {inCh : List (Port × V)} {st : SimSt} {d : Dispatch V}
    {res : SimSt × List (Port × V) × Option SimTime} (a : AnsP S orc inner L inCh st d res)
    (hnd : Det.InsNodup d) (hdc : d.comp ∈ L.wiring.components) :
    ∃ seg, res.1.obs = st.obs ++ seg ∧ (∀ o ∈ seg, Foot S L d.comp o.comp) ∧ ObsOrdered S seg := by
  cases a with
  | skip => exact ⟨[], by simp, by simp, obsOrdered_nil S⟩
  | external _ => exact ⟨[], by simp, by simp, obsOrdered_nil S⟩
  | expose _ _ => exact ⟨[], by simp, by simp, obsOrdered_nil S⟩
  | @sys c t ins st2 outCh e1 e2 e3 e4 =>
    obtain ⟨new, h1, h2, h3⟩ := hin _ _ _ _ _ _ e4 hnd
    have hpar := parent_of_not_pseudo hS hL hdc e1 e2
    have hcne : c ≠ "" := hS.sys_ne_master e3
    exact ⟨new, h1, fun o ho => ⟨hpar, Or.inr ⟨hcne, h2 o ho⟩⟩, h3⟩
  | @dev c t ins resp e1 e2 e3 e4 e5 =>
    have hpar := parent_of_not_pseudo hS hL hdc e1 e2
    refine ⟨[⟨c, t, (agetD st.devs c {}).merge ins⟩], rfl, ?_, ?_⟩
    · intro o ho
      simp only [List.mem_singleton] at ho
      subst ho
      exact ⟨hpar, Or.inl rfl⟩
    · intro pre oy post hsp ox hox hf
      simp only [List.mem_singleton] at hox
      have hoy : oy ∈ [(⟨c, t, (agetD st.devs c {}).merge ins⟩ : Obs)] := by rw [hsp]; simp
      simp only [List.mem_singleton] at hoy
      subst hox hoy
      exact absurd hf hS.feeds_irrefl

end

/-! ### the loop -/

/-- the observations made by a recorded answer -/
def AnsRec.seg (r : AnsRec) : List Obs := r.post.obs.drop r.pre.obs.length

/-- `Inv2` extended by the structure of the global observation list -/
structure Inv3 (S : Static) (orc : Oracle) (inner : LevelRel) (L : Level) (inCh : List (Port × V))
    (t : SimTime) (roots : List Comp) (st0 : SimSt) (ls : LoopSt) (tr : List (Ev V))
    (recs : List AnsRec) : Prop where
  base : Inv2 S orc inner L inCh t roots st0 ls tr recs
  nodup : (recs.map (fun r => r.d.comp)).Nodup
  /-- the new observations: the records' segments, in the order of the answers -/
  obs_eq : ls.st.obs = st0.obs ++ (recs.map AnsRec.seg).flatten
  seg_ok : ∀ r ∈ recs, (∀ o ∈ r.seg, Foot S L r.d.comp o.comp) ∧ ObsOrdered S r.seg
  /-- C01 at this level, on the records: when a component answered, every first-order upstream of
  it that takes part in the tick had answered before -/
  order : ∀ l1 r2 l2, recs = l1 ++ r2 :: l2 → ∀ c1, L.wiring.Edge c1 r2.d.comp →
    c1 ∈ extent L.wiring roots → ∃ r1 ∈ l1, r1.d.comp = c1

section

variable {S : Static} {orc : Oracle} {inner : LevelRel}

theorem Inv3.init {L : Level} {inCh : List (Port × V)} {t : SimTime} {roots : List Comp}
    {st : SimSt} {tk : Ticker V} {ds : List (Dispatch V)}
    (hcall : (Ticker.call L.wiring t roots : Except TickErr (Ticker V × List (Dispatch V))) = .ok (tk, ds)) :
    Inv3 S orc inner L inCh t roots st ⟨tk, ds, [], st⟩ (ds.map Ev.dispatch) [] :=
  { base := Inv2.init hcall
    nodup := by simp
    obs_eq := by simp
    seg_ok := by simp
    order := by
      intro l1 r2 l2 h
      simp at h }

theorem Inv3.step (hS : S.Valid)
    (hin : ∀ c t ro i s r, inner c t ro i s r → LevelPost1 S c s r)
    (hord : ∀ c t ro i s r, inner c t ro i s r → LevelOrd S c t ro i s r)
    {L : Level} (hL : L ∈ S.levels) {inCh : List (Port × V)} (hinCh : (akeys inCh).Nodup)
    {t : SimTime} {roots : List Comp} {st0 : SimSt} {ls : LoopSt} {tr : List (Ev V)}
    {recs : List AnsRec} (inv : Inv3 S orc inner L inCh t roots st0 ls tr recs)
    {i : Nat} {d : Dispatch V} (hd : ls.pending[i]? = some d)
    {st' : SimSt} {ch : List (Port × V)} {ca : Option SimTime}
    (ha : AnsP S orc inner L inCh ls.st d (st', ch, ca))
    {tk' : Ticker V} {ds : List (Dispatch V)}
    (hprop : ls.tk.propagate L.wiring d.comp d.time ch = .ok (tk', ds)) :
    Inv3 S orc inner L inCh t roots st0
      ⟨tk', ls.pending.eraseIdx i ++ ds, (exposeIns L d).getD ls.outCh, anyWake st' L.name d.comp ca⟩
      (tr ++ [Ev.answer d.comp ch] ++ ds.map Ev.dispatch) (recs ++ [⟨d, ls.st, st', ch, ca⟩]) := by
  have b := inv.base
  have hdm : d ∈ ls.pending := List.mem_of_getElem? hd
  have hdtr : Ev.dispatch d ∈ tr := b.pre.pend_trace d hdm
  have hdc : d.comp ∈ L.wiring.components :=
    (Wiring.ups_isSome_iff' L.wiring d.comp).1 (b.eq.ups d hdtr)
  have hfresh := b.pre.pending_fresh hdm
  have hrne : ∀ r ∈ recs, r.d.comp ≠ d.comp := by
    intro r hr he
    exact hfresh r.ch (he ▸ (b.recs_tr r.d.comp r.ch).2 ⟨r, hr, rfl, rfl⟩)
  obtain ⟨seg0, hs1, hs2, hs3⟩ := ha.ord hS hord hL (b.ins.2 _ hdtr) hdc
  have hseg : (⟨d, ls.st, st', ch, ca⟩ : AnsRec).seg = seg0 := by
    show List.drop ls.st.obs.length st'.obs = seg0
    rw [hs1]
    simp
  exact
    { base := b.step hS hin hL hinCh hd ha hprop
      nodup := by
        rw [List.map_append, List.nodup_append]
        refine ⟨inv.nodup, by simp, ?_⟩
        intro x hx y hy
        simp only [List.map_cons, List.map_nil, List.mem_singleton] at hy
        subst hy
        obtain ⟨r, hr, rfl⟩ := List.mem_map.1 hx
        exact hrne r hr
      obs_eq := by
        show st'.obs = _
        rw [hs1, inv.obs_eq, List.map_append, List.flatten_append, List.append_assoc]
        simp [hseg]
      seg_ok := by
        intro r hr
        rcases List.mem_append.1 hr with hr | hr
        · exact inv.seg_ok r hr
        · simp only [List.mem_singleton] at hr
          subst hr
          rw [hseg]
          exact ⟨hs2, hs3⟩
      order := by
        intro l1 r2 l2 hsp c1 he hce
        rcases append_eq_append_cons hsp with ⟨l2', h1, _⟩ | ⟨pre', h1, h2⟩
        · exact inv.order l1 r2 l2' h1 c1 he hce
        · -- `r2` is the answer given now
          have hpre' : pre' = [] ∧ r2 = ⟨d, ls.st, st', ch, ca⟩ := by
            cases pre' with
            | nil => simp at h2; exact ⟨rfl, h2.1.symm⟩
            | cons x xs => simp at h2
          obtain ⟨rfl, rfl⟩ := hpre'
          simp only [List.append_nil] at h1
          subst h1
          obtain ⟨pre, post, htr⟩ := List.append_of_mem hdtr
          obtain ⟨us, hus⟩ := Option.isSome_iff_exists.1 (b.eq.ups d hdtr)
          have hcu : c1 ∈ us := ((hS.routerOK hL).ups_edge _ us hus c1).2 he
          obtain ⟨ch1, hch1⟩ := b.pre.order pre d post htr us hus c1 hcu hce
          have hch1' : Ev.answer c1 ch1 ∈ tr := by rw [htr]; exact List.mem_append_left _ hch1
          obtain ⟨r1, hr1, hc1, _⟩ := (b.recs_tr c1 ch1).1 hch1'
          exact ⟨r1, hr1, hc1⟩ }

theorem LoopP.run_inv3 (hS : S.Valid)
    (hin : ∀ c t ro i s r, inner c t ro i s r → LevelPost1 S c s r)
    (hord : ∀ c t ro i s r, inner c t ro i s r → LevelOrd S c t ro i s r)
    {L : Level} (hL : L ∈ S.levels) {inCh : List (Port × V)} (hinCh : (akeys inCh).Nodup)
    {t : SimTime} {roots : List Comp} {st0 : SimSt} {ls : LoopSt} {r : SimSt × List (Port × V)}
    (a : LoopP S orc inner L inCh ls r) :
    ∀ {tr : List (Ev V)} {recs : List AnsRec}, Inv3 S orc inner L inCh t roots st0 ls tr recs →
      ∃ ls' tr' recs', Inv3 S orc inner L inCh t roots st0 ls' tr' recs' ∧ ls'.pending = [] ∧
        ls'.tk.toUpdate = [] ∧ r = (ls'.st, ls'.outCh) := by
  induction a with
  | @done ls h1 h2 =>
    intro tr recs inv
    exact ⟨ls, tr, recs, inv, h1, by simpa using h2, rfl⟩
  | step h1 h2 h3 _ ih =>
    intro tr recs inv
    exact ih (inv.step hS hin hord hL hinCh h1 h2 h3)

/-- C01 along paths: when a component answered, everything with a path of wires into it that takes
part in the tick had answered before -/
theorem Inv3.order_path {L : Level} {inCh : List (Port × V)} {t : SimTime} {roots : List Comp}
    {st0 : SimSt} {ls : LoopSt} {tr : List (Ev V)} {recs : List AnsRec}
    (inv : Inv3 S orc inner L inCh t roots st0 ls tr recs) {c1 c2 : Comp}
    (hp : L.wiring.Path c1 c2) :
    ∀ l1 r2 l2, recs = l1 ++ r2 :: l2 → r2.d.comp = c2 → c1 ∈ extent L.wiring roots →
      ∃ r1 ∈ l1, r1.d.comp = c1 := by
  induction hp with
  | single e =>
    intro l1 r2 l2 hsp hc hce
    exact inv.order l1 r2 l2 hsp _ (hc ▸ e) hce
  | @cons a b c e _ ih =>
    intro l1 r2 l2 hsp hc hce
    obtain ⟨rb, hrb, hbc⟩ := ih l1 r2 l2 hsp hc (flt_extent_closed hce e)
    obtain ⟨l1a, l1b, hl1⟩ := List.append_of_mem hrb
    have hsp' : recs = l1a ++ rb :: (l1b ++ r2 :: l2) := by rw [hsp, hl1]; simp
    obtain ⟨r1, hr1, h1⟩ := inv.order l1a rb _ hsp' a (hbc ▸ e) hce
    exact ⟨r1, by rw [hl1]; exact List.mem_append_left _ hr1, h1⟩

/-- at the end of the loop the new observations are ordered -/
theorem Inv3.ordered (hS : S.Valid) {L : Level} (hL : L ∈ S.levels) {inCh : List (Port × V)}
    {t : SimTime} {roots : List Comp} {st0 : SimSt} {ls : LoopSt} {tr : List (Ev V)}
    {recs : List AnsRec} (inv : Inv3 S orc inner L inCh t roots st0 ls tr recs) :
    ObsOrdered S (recs.map AnsRec.seg).flatten := by
  intro pre oy post hsp ox hox hf
  obtain ⟨l1, r2, l2, s1, s2, e1, e2, e3, e4⟩ := flatMap_split AnsRec.seg hsp
  obtain ⟨s, hs, hoxs⟩ := List.mem_flatten.1 hox
  obtain ⟨r1, hr1, rfl⟩ := List.mem_map.1 hs
  have hr2 : r2 ∈ recs := by rw [e1]; simp
  have hoy : oy ∈ r2.seg := by rw [e2]; simp
  rw [e1] at hr1
  rcases List.mem_append.1 hr1 with h | h
  · -- an earlier answer
    rw [e3]
    exact List.mem_append_left _ (List.mem_flatten.2 ⟨_, List.mem_map.2 ⟨r1, h, rfl⟩, hoxs⟩)
  · rcases List.mem_cons.1 h with h | h
    · -- the same answer: ordered inside (an inner tick, or a single device)
      subst h
      rw [e3]
      exact List.mem_append_right _ ((inv.seg_ok r1 hr2).2 s1 oy s2 e2 ox hoxs hf)
    · -- a later answer: impossible
      exfalso
      have hnd := inv.nodup
      rw [e1, List.map_append, List.map_cons, List.nodup_append] at hnd
      obtain ⟨_, hnd2, hdis⟩ := hnd
      have hr1' : r1 ∈ recs := by rw [e1]; simp [h]
      have hne : r1.d.comp ≠ r2.d.comp := by
        intro he
        exact (List.nodup_cons.1 hnd2).1 (he ▸ List.mem_map.2 ⟨r1, h, rfl⟩)
      have hfx := (inv.seg_ok r1 hr1').1 ox hoxs
      have hfy := (inv.seg_ok r2 hr2).1 oy hoy
      have hpath := feeds_sep hS hL hfx hfy hne hf
      have hext : r1.d.comp ∈ extent L.wiring roots :=
        (inv.base.pre.disp_ext _ (inv.base.recs_ok r1 hr1').1).1
      obtain ⟨r1', hr1'', hc⟩ := inv.order_path hpath l1 r2 l2 e1 rfl hext
      exact hdis _ (List.mem_map.2 ⟨r1', hr1'', hc⟩) _
        (List.mem_cons_of_mem _ (List.mem_map.2 ⟨r1, h, rfl⟩)) rfl

/-- **C01 through nesting, order**: in every any-order execution of a tick the new observations
are made below the level, in an order in which whatever feeds an updated component comes first. -/
theorem tickLevelAny_ordered (hS : S.Valid) {lvl : Comp} {t : SimTime} {roots : List Comp}
    {inCh : List (Port × V)} (hn : (akeys inCh).Nodup) {st : SimSt} {r : SimSt × List (Port × V)}
    (h : TickLevelAny S orc lvl t roots inCh st r) :
    ∃ new, r.1.obs = st.obs ++ new ∧ (∀ o ∈ new, S.Below lvl o.comp) ∧ ObsOrdered S new := by
  refine TickLevelAny.strong_induct (Q := LevelOrd S) ?_ h hn
  intro lvl t roots inCh st r hl hn
  obtain ⟨L, tk, ds, hLv, hcall, hloop⟩ := hl
  obtain ⟨hL, hname⟩ := Static.level_some hLv
  subst hname
  have hp : ∀ c t ro i s r, (TickLevelAny S orc c t ro i s r ∧ LevelOrd S c t ro i s r) →
      LevelPost1 S c s r := fun _ _ _ _ _ _ h => tickLevelAny_post1 hS h.1
  obtain ⟨ls1, tr1, recs1, inv1, _, _, rfl⟩ :=
    hloop.run_inv3 hS hp (fun _ _ _ _ _ _ h => h.2) hL hn (t := t) (roots := roots) (st0 := st)
      (Inv3.init hcall)
  refine ⟨_, inv1.obs_eq, ?_, inv1.ordered hS hL⟩
  intro o ho
  obtain ⟨s, hs, hos⟩ := List.mem_flatten.1 ho
  obtain ⟨r1, hr1, rfl⟩ := List.mem_map.1 hs
  exact ((inv1.seg_ok r1 hr1).1 o hos).below

end

end Tickit
