/-
C09 with external stimuli: counterexamples (checked at build time with `#guard`) showing that each
hypothesis of `nesting_transparent_run_stims` is needed.

Configuration: master {d0, s1, d3}; system s1 {d1, s2, d2}; system s2 {d4, d5}.
d0 periodic (10), d2 periodic (7), d4 periodic (15); d1, d3, d5 never request a callback.
-/
import TickitModel.Lemmas.FlattenStimDefs

namespace Tickit.C09StimCex

def wM : Wiring := Wiring.fromInverse [("d0", []), ("s1", [("in", ("d0", "o"))]), ("d3", [("i", ("s1", "out"))])]
def w1 : Wiring := Wiring.fromInverse [("external", []), ("d1", [("i", ("external", "in"))]),
  ("s2", [("x", ("d1", "o"))]), ("d2", []), ("expose", [("out", ("s2", "y"))])]
def w2 : Wiring := Wiring.fromInverse [("external", []), ("d4", [("i", ("external", "x"))]), ("d5", []),
  ("expose", [("y", ("d4", "o"))])]
def S1 : Static :=
  { levels := [⟨"", wM⟩, ⟨"s1", w1⟩, ⟨"s2", w2⟩]
    systems := ["s1", "s2"]
    parent := [("d0", ""), ("s1", ""), ("d3", ""), ("d1", "s1"), ("s2", "s1"), ("d2", "s1"),
      ("d4", "s2"), ("d5", "s2")] }

def per (outs : Nat → List (Port × V)) (period : Int) (k : Nat) : List DevResp :=
  (List.range k).map (fun i => ⟨outs i, some (period * (i + 1)), false⟩)
def quiet (outs : Nat → List (Port × V)) (k : Nat) : List DevResp :=
  (List.range k).map (fun i => ⟨outs i, none, false⟩)

def orc1 : Oracle :=
  [("d0", per (fun i => [("o", i)]) 10 20), ("d1", quiet (fun i => [("o", 100 + i / 2)]) 20),
   ("d2", per (fun _ => []) 7 20), ("d3", quiet (fun _ => []) 20),
   ("d4", per (fun i => [("o", 40 + i)]) 15 20), ("d5", quiet (fun _ => []) 20)]

/-- tick times of the nested and of the flat run (`none` = the run failed) -/
def times (S : Static) (orc : Oracle) (sp : Speed) (k : Nat) (stims : List Stim) :
    Option (List SimTime) × Option (List SimTime) :=
  let n := 30
  match masterInitial S orc 10 0 0, masterInitial (S.flatten n) orc 1 0 0 with
  | .ok (m, tr), .ok (m', tr') =>
    ((match masterRun S orc 10 sp 200 k m stims [tr] with
      | .ok (_, ticks) => some (ticks.map (·.time)) | .error _ => none),
     (match masterRun (S.flatten n) orc 1 sp 200 k m' stims [tr'] with
      | .ok (_, ticks) => some (ticks.map (·.time)) | .error _ => none))
  | _, _ => (none, none)

def timely (S : Static) (orc : Oracle) (sp : Speed) (k : Nat) (stims : List Stim) : Bool :=
  match masterInitial S orc 10 0 0 with
  | .ok (m, _) => stimsTimely S orc 10 sp 200 k false m stims
  | .error _ => false

-- sanity: interrupts on quiet / periodic devices at any depth, two in the same gap: same times
#guard times S1 orc1 ⟨1,1⟩ 8 [⟨3, "d5"⟩, ⟨4, "d1"⟩, ⟨8, "d4"⟩, ⟨12, "d3"⟩] ==
  (some [0, 3, 4, 7, 8, 10, 12, 14, 20], some [0, 3, 4, 7, 8, 10, 12, 14, 20])
#guard timely S1 orc1 ⟨1,1⟩ 8 [⟨3, "d5"⟩, ⟨4, "d1"⟩, ⟨8, "d4"⟩, ⟨12, "d3"⟩]

-- (1) a stimulus on a system component: the flat run fails (`s2` is no component there)
#guard times S1 orc1 ⟨1,1⟩ 8 [⟨3, "s2"⟩] ==
  (some [0, 3, 7, 10, 14, 15, 20, 21, 28], none)

-- (2) a device that requests a callback only sometimes: `d2` asks for 7, is interrupted at 3 and
-- then asks for nothing — flat loses the callback at 7, nested (inner entry survives) serves it
def orc2 : Oracle :=
  [("d0", per (fun i => [("o", i)]) 10 20), ("d1", quiet (fun i => [("o", 100 + i / 2)]) 20),
   ("d2", [⟨[], some 7, false⟩, ⟨[], none, false⟩, ⟨[], none, false⟩, ⟨[], none, false⟩]),
   ("d3", quiet (fun _ => []) 20), ("d4", per (fun i => [("o", 40 + i)]) 15 20),
   ("d5", quiet (fun _ => []) 20)]
#guard times S1 orc2 ⟨1,1⟩ 6 [⟨3, "d2"⟩] ==
  (some [0, 3, 7, 10, 15, 20, 30], some [0, 3, 10, 15, 20, 30, 40])
#guard timely S1 orc2 ⟨1,1⟩ 6 [⟨3, "d2"⟩]

/-- times at which device `d` is updated in the nested and in the flat run -/
def updTimes (S : Static) (orc : Oracle) (sp : Speed) (k : Nat) (stims : List Stim) (d : Comp) :
    Option (List SimTime) × Option (List SimTime) :=
  let n := 30
  let upd (m : MasterSt) : List SimTime :=
    (m.sim.obs.filter (fun (o : Obs) => o.comp == d)).map (fun (o : Obs) => o.time)
  match masterInitial S orc 10 0 0, masterInitial (S.flatten n) orc 1 0 0 with
  | .ok (m, tr), .ok (m', tr') =>
    ((match masterRun S orc 10 sp 200 k m stims [tr] with
      | .ok (m2, _) => some (upd m2) | .error _ => none),
     (match masterRun (S.flatten n) orc 1 sp 200 k m' stims [tr'] with
      | .ok (m2, _) => some (upd m2) | .error _ => none))
  | _, _ => (none, none)

-- (3) an untimely stimulus: speed 3, the stimulus on `d5` (inside `s2` inside `s1`) arrives at real
-- time 3, exactly when the tick for simulated time 7 is due (7/3 rounded up); its stamp
-- 0 + 3·3 = 9 exceeds the pending 7.  Since the repair of `schedule_interrupt` (an interrupt does
-- not displace an EARLIER wakeup of the same component, `when = min(existing wakeup, stamp)`) the
-- master entry 7 of `s1` (callback of `d2`) is KEPT — the nested run no longer skips the tick at 7
-- (before the repair it did: the entry was overwritten with 9).  Nested and flat still differ:
-- nested, the interrupt of `d5` is queued in `s2`/`s1` and is served together with `s1`'s tick at 7
-- (no tick at 9); flat, `d5` is a top-level component with no entry of its own, gets the entry 9,
-- and is updated by an extra tick at 9.  So the hypothesis `stimsTimely` is still needed.
#guard times S1 orc1 ⟨3,1⟩ 8 [⟨3, "d5"⟩] ==
  (some [0, 7, 10, 14, 15, 20, 21, 28, 30], some [0, 7, 9, 10, 14, 15, 20, 21, 28])
-- the interrupted device is updated at 7 in the nested run and at 9 in the flat one
#guard updTimes S1 orc1 ⟨3,1⟩ 8 [⟨3, "d5"⟩] "d5" == (some [0, 7], some [0, 9])
#guard timely S1 orc1 ⟨3,1⟩ 8 [⟨3, "d5"⟩] == false
-- one real-time unit earlier the stamp is 6 ≤ 7: timely, and the runs agree
#guard timely S1 orc1 ⟨3,1⟩ 8 [⟨2, "d5"⟩]
#guard (times S1 orc1 ⟨3,1⟩ 8 [⟨2, "d5"⟩]).1 == (times S1 orc1 ⟨3,1⟩ 8 [⟨2, "d5"⟩]).2

end Tickit.C09StimCex
