/-
Helper lemmas for C09, part 19: the schedulers' bookkeeping after an arbitrary tick of one level
(`SchedPost`), by induction over the nesting depth.
-/
import TickitModel.Lemmas.FlattenGenSchedLoop

namespace Tickit

theorem GenSched.start {S : Static} (hS : S.Valid) {orc : Oracle} {σ₀ : SimSt} {t : SimTime}
    {Root Due : Comp → Prop} (ctx : TickCtx S σ₀ t Root) (sctx : SchedCtx S σ₀ t Root Due) {L : Level}
    (hL : L ∈ S.levels) {roots : List Comp} {st : SimSt} {mobs0 : List Obs}
    (hpre0 : SchedPre S σ₀ Root Due L.name L roots st mobs0)
    {tk : Ticker V} {ds : List (Dispatch V)} (hcall : Ticker.call L.wiring t roots = .ok (tk, ds)) :
    GenSched S orc σ₀ Due L st mobs0 ⟨tk, ds, [], st⟩ [] := by
  obtain ⟨_, htu, _, _⟩ := sim_call_eq_ok hcall
  have hnone : ∀ c, alookup tk.toUpdate c = none ↔ c ∉ extent L.wiring roots := by
    intro c
    rw [htu, alookup_markDispatched_eq_none, alookup_eq_none_iff, startTick_toUpdate]
  exact
    { own_same := ⟨rfl, rfl⟩
      own_unique := hpre0.own_unique
      own_keys := hpre0.own_keys
      open_w := fun _ _ _ => rfl
      open_fresh := by
        intro c hc _
        refine ⟨fun x hx => ?_, fun s hs => hpre0.fresh_sched s (hs.below hc)⟩
        exact ⟨by simpa using hpre0.fresh_obs x (hx.below hc), hpre0.fresh_count x (hx.below hc)⟩
      closed := by
        intro c hc hcn
        have hce : c ∉ extent L.wiring roots := (hnone c).1 hcn
        obtain ⟨Lc, hLc, hcm, _⟩ := hS.parent_level c L.name hc
        rw [hS.level_of_mem hL] at hLc; cases hLc
        have hcx : c ≠ pseudoExternal := by
          intro he; rw [he, hS.pseudo_fresh.1] at hc; cases hc
        have hnr : ¬ Root c := fun hr => hce (sim_root_mem_extent _ ((hpre0.hroots c hcm hcx).2 hr))
        refine childOK_unticked hS ctx sctx hc hnr ((hpre0.own_wake c).2 (fun hd => hnr (sctx.due_sub c hd)))
          (fun s hs => hpre0.fresh_sched s (hs.below hc)) ?_
        intro x hx
        simpa using hpre0.fresh_obs x (hx.below hc) }

theorem GenSched.finish {S : Static} {orc : Oracle} {σ₀ : SimSt} {t : SimTime}
    {Root Due : Comp → Prop} (sctx : SchedCtx S σ₀ t Root Due) {L : Level} {st0 : SimSt} {mobs0 : List Obs}
    {ls : LoopSt} {new : List Obs} (iv : GenSched S orc σ₀ Due L st0 mobs0 ls new)
    (htu : ls.tk.toUpdate = []) : SchedPost S orc σ₀ Due L.name st0 ls.st (mobs0 ++ new) := by
  have hcl : ∀ c, alookup S.parent c = some L.name →
      ChildOK S orc σ₀ Due L ls.st (mobs0 ++ new) c :=
    fun c hc => iv.closed c hc (by rw [htu]; rfl)
  exact
    { lvl_ok :=
        { unique := iv.own_unique
          keys := iv.own_keys
          dev := fun d hd hp => (hcl d hp).dev hd
          sys := fun c hcs hp => (hcl c hp).sys hcs
          persist := by
            intro c hnr hsome
            have hk : c ∈ akeys (σ₀.sched L.name).wake := alookup_isSome_iff.1 hsome
            exact (hcl c (sctx.keys₀ L.name c hk)).persist hnr hsome }
      below_ok := by
        intro s hss hb
        obtain ⟨c, hc, hown⟩ := hb.top
        exact (hcl c hc).below s hown hss
      own_same := iv.own_same }

theorem tickLoop_sched {S : Static} (hS : S.Valid) {orc : Oracle} {σ₀ : SimSt} {t : SimTime}
    {Root Due : Comp → Prop} (ctx : TickCtx S σ₀ t Root) (sctx : SchedCtx S σ₀ t Root Due) {fuel : Nat}
    (IH : SchedIH S orc σ₀ t Root Due fuel) {L : Level} (hL : L ∈ S.levels) {roots : List Comp}
    {st0 : SimSt} {mobs0 : List Obs} (hpre0 : SchedPre S σ₀ Root Due L.name L roots st0 mobs0)
    {inCh : List (Port × V)} :
    ∀ (steps : Nat) (ls : LoopSt) (tr_ : List (Ev V)) (new_ : List Obs),
      LoopInv S L t roots st0 ls tr_ new_ → GenSched S orc σ₀ Due L st0 mobs0 ls new_ →
      ∀ st' out, tickLoop S orc fuel steps L inCh ls = .ok (st', out) →
        ∃ new, st'.obs = st0.obs ++ new ∧ SchedPost S orc σ₀ Due L.name st0 st' (mobs0 ++ new) := by
  intro steps
  induction steps with
  | zero =>
    intro ls _ _ _ _ st' out h
    rw [tickLoop_zero] at h; cases h
  | succ steps ih =>
    intro ls tr_ new_ linv iv st' out h
    cases hp : ls.pending with
    | nil =>
      rw [tickLoop_nil _ _ _ _ _ _ _ hp] at h
      split at h
      · rename_i he
        simp only [Except.ok.injEq, Prod.mk.injEq] at h
        obtain ⟨rfl, rfl⟩ := h
        exact ⟨new_, linv.obs_eq, iv.finish sctx (by simpa using he)⟩
      · cases h
    | cons d rest =>
      rw [tickLoop_cons _ _ _ _ _ _ _ _ _ hp] at h
      split at h
      · cases h
      · rename_i st1 outCh1 changes callAt ha
        split at h
        · cases h
        · rename_i tk' ds hprop
          have IHpost : ∀ lvl t roots inCh st st' out,
              tickLevel S orc fuel lvl t roots inCh st = .ok (st', out) →
                LevelPost S lvl t roots st st' :=
            fun lvl t roots inCh st st' out => tickLevel_post hS.toWF orc fuel lvl t roots inCh st st' out
          obtain ⟨tr_', new_', linv'⟩ := linv.step hS.toWF IHpost hL hp ha hprop
          obtain ⟨new1, hobs1, iv'⟩ := iv.step hS ctx sctx IH hL hpre0 linv hp ha hprop
          have hnew : new_' = new_ ++ new1 := by
            have h1 := linv'.obs_eq
            have h2 : (simWake st1 L.name d.comp callAt).obs = st0.obs ++ (new_ ++ new1) := by
              rw [simWake_obs, hobs1, linv.obs_eq, List.append_assoc]
            exact List.append_cancel_left (h1.symm.trans h2)
          subst hnew
          exact ih _ tr_' _ linv' iv' st' out h

/-- **the schedulers after every tick of every level** -/
theorem tickLevel_sched {S : Static} (hS : S.Valid) (orc : Oracle) {σ₀ : SimSt} {t : SimTime}
    {Root Due : Comp → Prop} (ctx : TickCtx S σ₀ t Root) (sctx : SchedCtx S σ₀ t Root Due) :
    ∀ fuel, SchedIH S orc σ₀ t Root Due fuel := by
  intro fuel
  induction fuel with
  | zero =>
    intro lvl L roots inCh st st' out mobs new h
    rw [tickLevel] at h; cases h
  | succ fuel IH =>
    intro lvl L roots inCh st st' out mobs new h hLv hobs hpre0
    rw [tickLevel.eq_2] at h
    rw [hLv] at h
    simp only [] at h
    obtain ⟨hL, hname⟩ := Static.level_some hLv
    subst hname
    split at h
    · cases h
    · rename_i tk ds hcall
      obtain ⟨hs, htu, htime, hroots⟩ := sim_call_eq_ok hcall
      have hpre := (PreInv.start (Val := V) L.wiring t roots).schedule rfl hs
      have hnone : ∀ c ∈ extent L.wiring roots, alookup tk.toUpdate c ≠ none := by
        intro c hc
        rw [htu, Ne, alookup_markDispatched_eq_none, alookup_eq_none_iff, startTick_toUpdate]
        exact fun h => h hc
      have hP : PreInv L.wiring t roots tk.toUpdate ds (ds.map Ev.dispatch) := by
        rw [htu]
        simpa using hpre.1
      have linv : LoopInv S L t roots st ⟨tk, ds, [], st⟩ (ds.map Ev.dispatch) [] :=
        { pre := hP
          time := htime
          troots := hroots
          pend_comp := fun d hd => (sim_scheduleLoop_mem hs hd).1
          pend_input := fun d hd hr => (sim_scheduleLoop_mem hs hd).2 hr
          obs_eq := by simp
          obs_nodup := by simp
          obs_own := by simp
          changed := fun s hs => absurd rfl hs
          done := fun _ _ c hce hcn _ => absurd hcn (hnone c hce) }
      have iv := GenSched.start (orc := orc) hS ctx sctx hL hpre0 hcall
      obtain ⟨new', hobs', hpost⟩ := tickLoop_sched hS ctx sctx IH hL hpre0 _ _ _ _ linv iv st' out h
      have : new' = new := List.append_cancel_left (hobs'.symm.trans hobs)
      subst this
      exact hpost

end Tickit
